(** C02 proofs, part 1: what each elementary operation does to every field, and that each
    preserves the representation invariant [ConsistentX k] (for arbitrary Zobrist tables whose
    EMPTY row is zero). *)
From Coq Require Import ZArith NArith List Bool Lia Btauto.
From Texel Require Import Chess.Types Chess.Position Chess.PositionSpec Chess.PositionFacts.
Import ListNotations.
Local Open Scope N_scope.

Ltac xor_solve := apply N.bits_inj; intro; rewrite ?N.lxor_spec, ?N.bits_0; btauto.
Ltac break_if := repeat match goal with |- context [if ?b then _ else _] => destruct b end.

Lemma piece_cases (P : N -> Prop) :
  P 0 -> P 1 -> P 2 -> P 3 -> P 4 -> P 5 -> P 6 -> P 7 -> P 8 -> P 9 -> P 10 -> P 11 -> P 12 ->
  forall r, r < 13 -> P r.
Proof.
  intros. assert (E : r = 0 \/ r = 1 \/ r = 2 \/ r = 3 \/ r = 4 \/ r = 5 \/ r = 6 \/ r = 7 \/ r = 8 \/
                      r = 9 \/ r = 10 \/ r = 11 \/ r = 12) by lia.
  repeat (destruct E as [->|E]; [assumption|]). subst; assumption.
Qed.

Lemma pos_eq p q :
  squares p = squares q -> pieceTypeBB p = pieceTypeBB q -> whiteBB p = whiteBB q -> blackBB p = blackBB q ->
  whiteMove p = whiteMove q -> halfMoveClock p = halfMoveClock q -> fullMoveCounter p = fullMoveCounter q ->
  castleMask p = castleMask q -> epSquare p = epSquare q -> hashKey p = hashKey q -> pHashKey p = pHashKey q ->
  matId p = matId q -> wMtrl p = wMtrl q -> bMtrl p = bMtrl q -> wMtrlPawns p = wMtrlPawns q ->
  bMtrlPawns p = bMtrlPawns q -> p = q.
Proof. destruct p, q; simpl; intros; subst; reflexivity. Qed.

Definition isPawnPiece (pc : piece) : bool := (pc =? WPAWN) || (pc =? BPAWN).
Definition xorIf (b : bool) (x k : N) : N := if b then N.lxor x k else x.
Definition subIf (b : bool) (x v : Z) : Z := if b then (x - v)%Z else x.
Definition addIf (b : bool) (x v : Z) : Z := if b then (x + v)%Z else x.
Definition ldiffIf (b : bool) (x m : N) : N := if b then N.ldiff x m else x.
Definition lorIf (b : bool) (x m : N) : N := if b then N.lor x m else x.

Lemma updBB_alt f bb r pc m : updBB f bb r pc m = lorIf (f pc) (ldiffIf (f r) bb m) m.
Proof. reflexivity. Qed.

Lemma getPiece_lt p sq : Forall (fun pc => pc < 13) (squares p) -> getPiece p sq < 13.
Proof.
  intro H. unfold getPiece.
  destruct (Nat.lt_ge_cases (N.to_nat sq) (length (squares p))) as [Hl|Hl].
  - eapply Forall_forall in H; [exact H|]. apply nth_In; auto.
  - rewrite nth_overflow by auto. reflexivity.
Qed.

Section Ops.
Variable zk : zkeys.
Hypothesis EKZ : emptyKeysZero zk.

(* ------------------------------------------------------------------ *)
(** * setPiece in closed form *)
Definition setPieceSpec (p : position) (sq : square) (pc : piece) : position :=
  let r := getPiece p sq in
  let m := sqMask sq in
  let bb1 := updN r (N.ldiff (ptBB p r) m) (pieceTypeBB p) in
  mkPos (updN sq pc (squares p))
        (updN pc (N.lor (nth (N.to_nat pc) bb1 0) m) bb1)
        (lorIf (isWhitePiece pc) (ldiffIf (isWhitePiece r) (whiteBB p) m) m)
        (lorIf (isBlackPiece pc) (ldiffIf (isBlackPiece r) (blackBB p) m) m)
        (whiteMove p) (halfMoveClock p) (fullMoveCounter p) (castleMask p) (epSquare p)
        (N.lxor (N.lxor (hashKey p) (psKey zk r sq)) (psKey zk pc sq))
        (xorIf (isPawnPiece pc) (xorIf (isPawnPiece r) (pHashKey p) (psKey zk r sq)) (psKey zk pc sq))
        (matId p - materialId r + materialId pc)%Z
        (addIf (isWhitePiece pc) (subIf (isWhitePiece r) (wMtrl p) (pieceValue r)) (pieceValue pc))
        (addIf (isBlackPiece pc) (subIf (isBlackPiece r) (bMtrl p) (pieceValue r)) (pieceValue pc))
        (addIf (pc =? WPAWN) (subIf (r =? WPAWN) (wMtrlPawns p) (pieceValue r)) (pieceValue pc))
        (addIf (pc =? BPAWN) (subIf (r =? BPAWN) (bMtrlPawns p) (pieceValue r)) (pieceValue pc)).

Lemma setPiece_eq p sq pc : getPiece p sq < 13 -> pc < 13 -> setPiece zk p sq pc = setPieceSpec p sq pc.
Proof.
  unfold setPiece, setPieceSpec. cbv zeta.
  generalize (getPiece p sq) as r. intros r Hr Hpc. revert r Hr.
  revert pc Hpc.
  apply (piece_cases (fun pc => forall r, r < 13 -> _ = _));
    apply (piece_cases (fun r => _ = _)); reflexivity.
Qed.

(** clearPiece is setPiece with EMPTY because the EMPTY keys are zero *)
Definition clearPieceSpec (p : position) (sq : square) : position :=
  let r := getPiece p sq in
  let m := sqMask sq in
  let bb1 := updN r (N.ldiff (ptBB p r) m) (pieceTypeBB p) in
  mkPos (updN sq EMPTY (squares p))
        (updN EMPTY (N.lor (nth 0 bb1 0) m) bb1)
        (ldiffIf (isWhitePiece r) (whiteBB p) m)
        (ldiffIf (isBlackPiece r) (blackBB p) m)
        (whiteMove p) (halfMoveClock p) (fullMoveCounter p) (castleMask p) (epSquare p)
        (N.lxor (hashKey p) (psKey zk r sq))
        (xorIf (isPawnPiece r) (pHashKey p) (psKey zk r sq))
        (matId p - materialId r)%Z
        (subIf (isWhitePiece r) (wMtrl p) (pieceValue r))
        (subIf (isBlackPiece r) (bMtrl p) (pieceValue r))
        (subIf (r =? WPAWN) (wMtrlPawns p) (pieceValue r))
        (subIf (r =? BPAWN) (bMtrlPawns p) (pieceValue r)).

Lemma clearPiece_eq p sq : getPiece p sq < 13 -> clearPiece zk p sq = clearPieceSpec p sq.
Proof.
  unfold clearPiece, clearPieceSpec. cbv zeta.
  generalize (getPiece p sq) as r.
  apply (piece_cases (fun r => _ = _)); reflexivity.
Qed.

Lemma clearPiece_setPiece p sq : getPiece p sq < 13 -> clearPiece zk p sq = setPiece zk p sq EMPTY.
Proof.
  intro H. rewrite clearPiece_eq, setPiece_eq by (auto; reflexivity).
  unfold clearPieceSpec, setPieceSpec. cbv zeta.
  apply pos_eq; cbn [squares pieceTypeBB whiteBB blackBB whiteMove halfMoveClock fullMoveCounter castleMask
                     epSquare hashKey pHashKey matId wMtrl bMtrl wMtrlPawns bMtrlPawns]; try reflexivity.
  - rewrite EKZ. symmetry; apply N.lxor_0_r.
  - change (materialId EMPTY) with 0%Z. lia.
Qed.

(* ------------------------------------------------------------------ *)
(** * frame lemmas: the primary fields after each operation *)
Lemma squares_removedBlock p sq r : squares (removedBlock zk p sq r) = squares p.
Proof. unfold removedBlock. cbv zeta. break_if; reflexivity. Qed.
Lemma squares_addedBlock p sq r : squares (addedBlock zk p sq r) = squares p.
Proof. unfold addedBlock. cbv zeta. break_if; reflexivity. Qed.
Lemma squares_setPiece p sq pc : squares (setPiece zk p sq pc) = updN sq pc (squares p).
Proof. unfold setPiece. cbv zeta. rewrite squares_addedBlock, squares_removedBlock. reflexivity. Qed.
Lemma squares_clearPiece p sq : squares (clearPiece zk p sq) = updN sq EMPTY (squares p).
Proof. unfold clearPiece. cbv zeta. rewrite squares_removedBlock. reflexivity. Qed.
Lemma squares_movePieceNotPawn p f t :
  squares (movePieceNotPawn zk p f t) = updN t (getPiece p f) (updN f EMPTY (squares p)).
Proof. unfold movePieceNotPawn. cbv zeta. break_if; reflexivity. Qed.

Definition scalars (p : position) : bool * Z * Z * N * Z :=
  (whiteMove p, halfMoveClock p, fullMoveCounter p, castleMask p, epSquare p).

Lemma scalars_removedBlock p sq r : scalars (removedBlock zk p sq r) = scalars p.
Proof. unfold removedBlock. cbv zeta. break_if; reflexivity. Qed.
Lemma scalars_addedBlock p sq r : scalars (addedBlock zk p sq r) = scalars p.
Proof. unfold addedBlock. cbv zeta. break_if; reflexivity. Qed.
Lemma scalars_setPiece p sq pc : scalars (setPiece zk p sq pc) = scalars p.
Proof. unfold setPiece. cbv zeta. rewrite scalars_addedBlock, scalars_removedBlock. reflexivity. Qed.
Lemma scalars_clearPiece p sq : scalars (clearPiece zk p sq) = scalars p.
Proof. unfold clearPiece. cbv zeta. rewrite scalars_removedBlock. reflexivity. Qed.
Lemma scalars_movePieceNotPawn p f t : scalars (movePieceNotPawn zk p f t) = scalars p.
Proof. unfold movePieceNotPawn. cbv zeta. break_if; reflexivity. Qed.

(* ------------------------------------------------------------------ *)
(** * the invariant is preserved *)
Lemma nth_bb_update (l : list N) (r pc pc0 : N) (m : N) :
  r < N.of_nat (length l) -> pc < N.of_nat (length l) ->
  let bb1 := updN r (N.ldiff (nth (N.to_nat r) l 0) m) l in
  nth (N.to_nat pc0) (updN pc (N.lor (nth (N.to_nat pc) bb1 0) m) bb1) 0 =
  updBB (N.eqb pc0) (nth (N.to_nat pc0) l 0) r pc m.
Proof.
  intros Hr Hpc bb1. unfold updBB.
  assert (Hb : forall x, nth (N.to_nat x) bb1 0 = if pc0 =? 0 then nth (N.to_nat x) bb1 0 else
                                                   if x =? r then N.ldiff (nth (N.to_nat x) l 0) m else nth (N.to_nat x) l 0).
  { intro x. destruct (pc0 =? 0); auto. unfold bb1. destruct (N.eqb_spec x r) as [->|Hne].
    - apply nth_updN_eq. lia.
    - apply nth_updN_neq. auto. }
  destruct (N.eqb_spec pc0 pc) as [->|Hne].
  - rewrite nth_updN_eq by (unfold bb1; rewrite length_updN; lia).
    unfold bb1. destruct (N.eqb_spec pc r) as [->|Hne2].
    + rewrite nth_updN_eq by lia. reflexivity.
    + rewrite nth_updN_neq by auto. reflexivity.
  - rewrite nth_updN_neq by auto.
    unfold bb1. destruct (N.eqb_spec pc0 r) as [->|Hne2].
    + rewrite nth_updN_eq by lia. reflexivity.
    + rewrite nth_updN_neq by auto. reflexivity.
Qed.

Lemma xorIf_alt b x k : xorIf b x k = N.lxor x (if b then k else 0).
Proof. destruct b; simpl; auto. symmetry; apply N.lxor_0_r. Qed.
Lemma subIf_alt b x v : subIf b x v = (x - (if b then v else 0))%Z.
Proof. destruct b; simpl; lia. Qed.
Lemma addIf_alt b x v : addIf b x v = (x + (if b then v else 0))%Z.
Proof. destruct b; simpl; lia. Qed.

Lemma mtrlOf_updN f sqs sq pc :
  sq < N.of_nat (length sqs) ->
  mtrlOf f (updN sq pc sqs) =
  (mtrlOf f sqs - (if f (nth (N.to_nat sq) sqs EMPTY) then pieceValue (nth (N.to_nat sq) sqs EMPTY) else 0)
   + (if f pc then pieceValue pc else 0))%Z.
Proof.
  intro H. unfold mtrlOf, updN.
  rewrite (sumZ_map_updL (fun pc => if f pc then pieceValue pc else 0%Z)) by lia. reflexivity.
Qed.

Lemma matIdOf_updN sqs sq pc :
  sq < N.of_nat (length sqs) ->
  matIdOf (updN sq pc sqs) = (matIdOf sqs - materialId (nth (N.to_nat sq) sqs EMPTY) + materialId pc)%Z.
Proof. intro H. unfold matIdOf, updN. rewrite sumZ_map_updL by lia. reflexivity. Qed.

Lemma xorKeys_updN f sqs sq pc :
  sq < N.of_nat (length sqs) ->
  xorKeysFrom zk f 0 (updN sq pc sqs) =
  N.lxor (N.lxor (xorKeysFrom zk f 0 sqs) (keyIf zk f (nth (N.to_nat sq) sqs EMPTY) sq)) (keyIf zk f pc sq).
Proof.
  intro H. unfold updN. rewrite xorKeysFrom_updL by lia. rewrite N.add_0_l, N2Nat.id. reflexivity.
Qed.

Lemma keyIf_true pc sq : keyIf zk (fun _ => true) pc sq = psKey zk pc sq.
Proof. reflexivity. Qed.

Lemma setPiece_consistent k p sq pc :
  ConsistentX zk k p -> sq < 64 -> pc < 13 -> ConsistentX zk k (setPiece zk p sq pc).
Proof.
  intros C Hsq Hpc. destruct C.
  assert (Hr : getPiece p sq < 13) by (apply getPiece_lt; auto).
  rewrite setPiece_eq by auto.
  assert (Hlen : sq < N.of_nat (length (squares p))) by (rewrite c_len; lia).
  unfold setPieceSpec. cbv zeta.
  constructor; cbn [squares pieceTypeBB whiteBB blackBB whiteMove halfMoveClock fullMoveCounter castleMask
                    epSquare hashKey pHashKey matId wMtrl bMtrl wMtrlPawns bMtrlPawns].
  - rewrite length_updN; auto.
  - rewrite !length_updN; auto.
  - apply Forall_updL; auto.
  - intros pc0 H0. unfold ptBB at 1. cbn [pieceTypeBB].
    unfold ptBB. rewrite nth_bb_update by (rewrite c_bblen; lia).
    rewrite bbOf_updN by auto. fold (ptBB p pc0). rewrite c_bb by auto. reflexivity.
  - rewrite bbOf_updN by auto. rewrite c_white. reflexivity.
  - rewrite bbOf_updN by auto. rewrite c_black. reflexivity.
  - rewrite c_hash. unfold hashOf. cbn [squares whiteMove castleMask epSquare].
    unfold boardKey. rewrite xorKeys_updN by auto. rewrite !keyIf_true.
    fold (getPiece p sq). xor_solve.
  - rewrite c_phash. unfold pawnKey. rewrite xorKeys_updN by auto.
    rewrite !xorIf_alt. unfold keyIf, isPawnPiece. fold (getPiece p sq).
    xor_solve.
  - rewrite matIdOf_updN by auto. rewrite c_matId. reflexivity.
  - rewrite mtrlOf_updN by auto. rewrite addIf_alt, subIf_alt, c_wMtrl. fold (getPiece p sq). lia.
  - rewrite mtrlOf_updN by auto. rewrite addIf_alt, subIf_alt, c_bMtrl. fold (getPiece p sq). lia.
  - rewrite mtrlOf_updN by auto. rewrite addIf_alt, subIf_alt, c_wMtrlPawns. fold (getPiece p sq).
    rewrite (N.eqb_sym WPAWN pc), (N.eqb_sym WPAWN (getPiece p sq)). lia.
  - rewrite mtrlOf_updN by auto. rewrite addIf_alt, subIf_alt, c_bMtrlPawns. fold (getPiece p sq).
    rewrite (N.eqb_sym BPAWN pc), (N.eqb_sym BPAWN (getPiece p sq)). lia.
Qed.

Lemma clearPiece_consistent k p sq :
  ConsistentX zk k p -> sq < 64 -> ConsistentX zk k (clearPiece zk p sq).
Proof.
  intros C Hsq. rewrite clearPiece_setPiece by (apply getPiece_lt; destruct C; auto).
  apply setPiece_consistent; auto. reflexivity.
Qed.

End Ops.
