(** Executable model of lib/texellib/bitBoard.{hpp,cpp} (BitUtil and BitBoard), written like
    the C++ (default build: none of USE_CTZ / USE_POPCNT / USE_BMI2 defined).  64-bit words are
    [N] with an explicit [mod 2^64] after [<<], [*] and unary minus.  All literal constants come
    from the regenerated [gen/BitBoardTables.v].  No proofs in this file. *)
From Coq Require Import ZArith NArith List Bool FMapPositive.
From Texel Require Import Chess.Types gen.BitBoardTables.
Import ListNotations.
Local Open Scope N_scope.

(** * 64-bit word operations *)
Definition mask64 : N := 18446744073709551615.
Definition wrap64 (x : N) : N := N.land x mask64.
Definition shl (m k : N) : N := wrap64 (N.shiftl m k).         (* m << k *)
Definition shr (m k : N) : N := N.shiftr m k.                  (* m >> k *)
Definition mul64 (a b : N) : N := wrap64 (a * b).              (* a * b   (U64) *)
Definition neg64 (m : N) : N := wrap64 (18446744073709551616 - wrap64 m).   (* -m (U64) *)
Definition andn (a b : N) : N := N.ldiff a b.                  (* a & ~b *)
Definition bit (sq : N) : N := N.shiftl 1 sq.                  (* 1ULL << sq *)
Definition nthN (l : list N) (i : N) : N := nth (N.to_nat i) l 0.
Definition nthZ (l : list Z) (i : Z) : Z := nth (Z.to_nat i) l 0%Z.

(** * BitUtil *)
(** trailingZ[(int)(((mask & -mask) * 0x07EDD5E59A4E28C2ULL) >> 58)] *)
Definition firstBitT (mask : N) : N :=
  nthN trailingZ (shr (mul64 (N.land mask (neg64 mask)) firstBitMul) firstBitShift).

(** mask |= mask >> 1; ... ; lastBitTable[(mask * 0x03F79D71B4CB0A89ULL) >> 58] *)
Definition lastBitT (mask : N) : N :=
  let mask := fold_left (fun m k => N.lor m (shr m k)) lastBitFills mask in
  nthN lastBitTable (shr (mul64 mask lastBitMul) lastBitShift).

(** the non-POPCNT branch of BitUtil::bitCount *)
Definition bitCountT (mask : N) : N :=
  let k1 := 6148914691236517205 in      (* 0x5555555555555555 *)
  let k2 := 3689348814741910323 in      (* 0x3333333333333333 *)
  let k4 := 1085102592571150095 in      (* 0x0f0f0f0f0f0f0f0f *)
  let kf := 72340172838076673 in        (* 0x0101010101010101 *)
  let t := mask in
  let t := wrap64 (t + 18446744073709551616 - N.land (shr t 1) k1) in
  let t := wrap64 (N.land t k2 + N.land (shr t 2) k2) in
  let t := N.land (wrap64 (t + shr t 4)) k4 in
  shr (mul64 t kf) 56.

Definition firstSquare (mask : N) : square := firstBitT mask.
Definition lastSquare (mask : N) : square := lastBitT mask.
(** extractSquare: returns the square; the caller continues with [clearLowest mask] *)
Definition clearLowest (mask : N) : N := N.land mask (N.pred mask).      (* mask &= mask - 1 *)

Definition allSquares : list square := map N.of_nat (seq 0 64).

(** * Pawn attack masks of whole bitboards *)
Definition wPawnAttacksMask (mask : N) : N :=
  N.lor (shl (N.land mask maskBToHFiles) 7) (shl (N.land mask maskAToGFiles) 9).
Definition bPawnAttacksMask (mask : N) : N :=
  N.lor (shr (N.land mask maskBToHFiles) 9) (shr (N.land mask maskAToGFiles) 7).

(** * staticInitialize: en-passant masks, king / knight / pawn attack tables *)
Definition epMaskWF (f : N) : N :=
  let m := 0 in
  let m := if 0 <? f then N.lor m (bit (mkSq (f - 1) 3)) else m in
  let m := if f <? 7 then N.lor m (bit (mkSq (f + 1) 3)) else m in
  m.
Definition epMaskBF (f : N) : N :=
  let m := 0 in
  let m := if 0 <? f then N.lor m (bit (mkSq (f - 1) 4)) else m in
  let m := if f <? 7 then N.lor m (bit (mkSq (f + 1) 4)) else m in
  m.

Definition kingAttacksF (sq : square) : N :=
  let m := bit sq in
  N.lor (N.lor (N.lor
    (N.land (N.lor (N.lor (shr m 1) (shl m 7)) (shr m 9)) maskAToGFiles)
    (N.land (N.lor (N.lor (shl m 1) (shl m 9)) (shr m 7)) maskBToHFiles))
    (shl m 8)) (shr m 8).

Definition knightAttacksF (sq : square) : N :=
  let m := bit sq in
  N.lor (N.lor (N.lor
    (N.land (N.lor (shl m 6) (shr m 10)) maskAToFFiles)
    (N.land (N.lor (shl m 15) (shr m 17)) maskAToGFiles))
    (N.land (N.lor (shl m 17) (shr m 15)) maskBToHFiles))
    (N.land (N.lor (shl m 10) (shr m 6)) maskCToHFiles).

Definition wPawnAttacksF (sq : square) : N :=
  let m := bit sq in
  N.lor (N.land (shl m 7) maskAToGFiles) (N.land (shl m 9) maskBToHFiles).
Definition bPawnAttacksF (sq : square) : N :=
  let m := bit sq in
  N.lor (N.land (shr m 9) maskAToGFiles) (N.land (shr m 7) maskBToHFiles).

Definition kingAttacksTable : list N := map kingAttacksF allSquares.
Definition knightAttacksTable : list N := map knightAttacksF allSquares.
Definition wPawnAttacksTable : list N := map wPawnAttacksF allSquares.
Definition bPawnAttacksTable : list N := map bPawnAttacksF allSquares.

Definition kingAttacks (sq : square) : N := nthN kingAttacksTable sq.
Definition knightAttacks (sq : square) : N := nthN knightAttacksTable sq.
Definition wPawnAttacks (sq : square) : N := nthN wPawnAttacksTable sq.
Definition bPawnAttacks (sq : square) : N := nthN bPawnAttacksTable sq.

(** * Sliding attacks: addRay / addRookRays / addBishopRays *)
Local Open Scope Z_scope.
Fixpoint addRay (fuel : nat) (mask : N) (x y dx dy : Z) (occupied : N) (inner : bool) : N :=
  match fuel with
  | O => mask
  | S k =>
      let lo := if inner then 1 else 0 in
      let hi := if inner then 6 else 7 in
      let x' := if dx =? 0 then x else x + dx in
      if negb (dx =? 0) && ((x' <? lo) || (x' >? hi)) then mask else
      let y' := if dy =? 0 then y else y + dy in
      if negb (dy =? 0) && ((y' <? lo) || (y' >? hi)) then mask else
      let sq := Z.to_N (y' * 8 + x') in
      let mask := N.lor mask (bit sq) in
      if negb (N.land occupied (bit sq) =? 0)%N then mask
      else addRay k mask x' y' dx dy occupied inner
  end.

Definition rayFuel : nat := 8.

Definition addRookRays (x y : Z) (occupied : N) (inner : bool) : N :=
  let mask := 0%N in
  let mask := addRay rayFuel mask x y 1 0 occupied inner in
  let mask := addRay rayFuel mask x y (-1) 0 occupied inner in
  let mask := addRay rayFuel mask x y 0 1 occupied inner in
  let mask := addRay rayFuel mask x y 0 (-1) occupied inner in
  mask.

Definition addBishopRays (x y : Z) (occupied : N) (inner : bool) : N :=
  let mask := 0%N in
  let mask := addRay rayFuel mask x y 1 1 occupied inner in
  let mask := addRay rayFuel mask x y (-1) (-1) occupied inner in
  let mask := addRay rayFuel mask x y 1 (-1) occupied inner in
  let mask := addRay rayFuel mask x y (-1) 1 occupied inner in
  mask.

Definition zX (sq : square) : Z := Z.of_N (sqX sq).
Definition zY (sq : square) : Z := Z.of_N (sqY sq).

(** the value the tables hold: the ray walk from the square *)
Definition rookAttacks (sq : square) (occupied : N) : N := addRookRays (zX sq) (zY sq) occupied false.
Definition bishopAttacks (sq : square) (occupied : N) : N := addBishopRays (zX sq) (zY sq) occupied false.

(** * Magic tables (the #else branch of staticInitialize) *)
Local Open Scope N_scope.
Definition rMaskF (sq : square) : N := addRookRays (zX sq) (zY sq) 0 true.
Definition bMaskF (sq : square) : N := addBishopRays (zX sq) (zY sq) 0 true.
Definition rMasksTable : list N := map rMaskF allSquares.
Definition bMasksTable : list N := map bMaskF allSquares.
Definition rMasks (sq : square) : N := nthN rMasksTable sq.
Definition bMasks (sq : square) : N := nthN bMasksTable sq.

(** createPattern(i, mask): the i-th subset of mask *)
Fixpoint createPatternLoop (fuel : nat) (i : N) (mask : N) (j : N) (ret : N) : N :=
  match fuel with
  | O => ret
  | S k =>
      let nextMask := N.land mask (N.pred mask) in
      let b := N.lxor mask nextMask in
      let ret := if N.testbit i j then N.lor ret b else ret in
      if nextMask =? 0 then ret else createPatternLoop k i nextMask (j + 1) ret
  end.
Definition createPattern (i : N) (mask : N) : N := createPatternLoop 64 i mask 0 0.

Definition unInit : N := mask64.

Definition magicIndex (p magic bits : N) : N := shr (mul64 p magic) bits.

(** one table: None models a failed assert (two patterns with different attack sets on one
    entry) or an entry outside the table (the C++ would write out of bounds) *)
Definition tbl := PositiveMap.t N.
Definition tget (t : tbl) (i : N) : N :=
  match PositiveMap.find (N.succ_pos i) t with Some v => v | None => unInit end.

Fixpoint fillTable (n : nat) (i : N) (mask magic bits tableSize : N) (atk : N -> N) (t : tbl) : option tbl :=
  match n with
  | O => Some t
  | S k =>
      let p := createPattern i mask in
      let entry := magicIndex p magic bits in
      let atks := atk p in
      if tableSize <=? entry then None
      else if tget t entry =? unInit then fillTable k (i + 1) mask magic bits tableSize atk (PositiveMap.add (N.succ_pos entry) atks t)
      else if tget t entry =? atks then fillTable k (i + 1) mask magic bits tableSize atk t
      else None
  end.

Definition rTableOf (sq : square) : option tbl :=
  let mask := rMasks sq in
  let bits := nthN rBits sq in
  fillTable (N.to_nat (bit (bitCountT mask))) 0 mask (nthN rMagics sq) bits (bit (64 - bits))
            (fun p => addRookRays (zX sq) (zY sq) p false) (PositiveMap.empty N).
Definition bTableOf (sq : square) : option tbl :=
  let mask := bMasks sq in
  let bits := nthN bBits sq in
  fillTable (N.to_nat (bit (bitCountT mask))) 0 mask (nthN bMagics sq) bits (bit (64 - bits))
            (fun p => addBishopRays (zX sq) (zY sq) p false) (PositiveMap.empty N).

(** BitBoard::rookAttacks / bishopAttacks as the code computes them: table lookup.  (The table
    of a square is recomputed at each call here; the OCaml driver caches [rTableOf sq].) *)
Definition magicLookup (t : option tbl) (mask magic bits occupied : N) : N :=
  match t with
  | Some t => tget t (magicIndex (N.land occupied mask) magic bits)
  | None => unInit
  end.
Definition rookAttacksMagicWith (t : option tbl) (sq : square) (occupied : N) : N :=
  magicLookup t (rMasks sq) (nthN rMagics sq) (nthN rBits sq) occupied.
Definition bishopAttacksMagicWith (t : option tbl) (sq : square) (occupied : N) : N :=
  magicLookup t (bMasks sq) (nthN bMagics sq) (nthN bBits sq) occupied.
Definition rookAttacksMagic (sq : square) (occupied : N) : N := rookAttacksMagicWith (rTableOf sq) sq occupied.
Definition bishopAttacksMagic (sq : square) (occupied : N) : N := bishopAttacksMagicWith (bTableOf sq) sq occupied.

(** * squaresBetween table *)
Local Open Scope Z_scope.
Fixpoint updNat {A : Type} (n : nat) (x : A) (l : list A) : list A :=
  match l, n with
  | [], _ => []
  | _ :: t, O => x :: t
  | h :: t, S k => h :: updNat k x t
  end.

Fixpoint betweenWalk (fuel : nat) (row : list N) (m : N) (x y dx dy : Z) : list N :=
  match fuel with
  | O => row
  | S k =>
      let x := x + dx in
      let y := y + dy in
      if (x <? 0) || (x >? 7) || (y <? 0) || (y >? 7) then row
      else
        let sq2 := Z.to_N (y * 8 + x) in
        let row := updNat (N.to_nat sq2) m row in
        betweenWalk k row (N.lor m (bit sq2)) x y dx dy
  end.

Definition dirLoop : list (Z * Z) :=
  [(-1, -1); (-1, 0); (-1, 1); (0, -1); (0, 1); (1, -1); (1, 0); (1, 1)].

Definition squaresBetweenRow (sq1 : square) : list N :=
  fold_left (fun row d => betweenWalk 8 row 0%N (zX sq1) (zY sq1) (fst d) (snd d)) dirLoop (repeat 0%N 64).

Definition squaresBetweenTable : list (list N) := map squaresBetweenRow allSquares.
Definition squaresBetween (s1 s2 : square) : N := nthN (nth (N.to_nat s1) squaresBetweenTable []) s2.

(** * getDirection *)
Definition getDirection (from to : square) : Z :=
  let offs := Z.of_N to + Z.of_N (N.lor to dirOrMask) - Z.of_N from - Z.of_N (N.lor from dirOrMask) + dirOffset in
  nthZ dirTable offs.

Definition getKingDistance (from to : square) : Z :=
  Z.max (Z.abs (zX to - zX from)) (Z.abs (zY to - zY from)).
