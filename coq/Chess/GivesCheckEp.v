(** MoveGen::givesCheck, en-passant branch: direct check by the capturing pawn (first block),
    discovered check through the capturing pawn's from-square alone (second block), through
    the captured pawn's square alone (a diagonal) and through both (the rank they shared). *)
From Coq Require Import ZArith NArith List Bool Lia.
From Texel Require Import Chess.Types Chess.Position Chess.PositionSpec Chess.PositionFacts Chess.PositionProofs
  Chess.PositionProofs2 Chess.PositionProofs4 Chess.PositionTheorems Chess.PositionB
  Chess.BitBoard Chess.MoveGen Chess.Spec Chess.MoveGenWF
  Chess.BitBoardProofs Chess.RayProofs Chess.MoveGenProofs Chess.AttackProofs Chess.SliderProofs Chess.PawnProofs
  Chess.PseudoProofs Chess.MakeSpecProofs Chess.TryMoveProofs Chess.CastleProofs Chess.LegalProofs Chess.ShortcutProofs
  Chess.IsLegalProofs Chess.CapturesProofs Chess.NoDupProofs Chess.WfProofs Chess.IsLegalFull Chess.EvasionsIn Chess.IsLegalAll
  Chess.RemoveIllegalIndep Chess.EvasionsComplete Chess.GivesCheckProofs Chess.GivesCheckCommon gen.BitBoardTables.
Import ListNotations.
Local Open Scope N_scope.

Lemma myPiece_neq2 : forall (w : bool) X Y, In X [1; 2; 3; 4; 5; 6] -> In Y [1; 2; 3; 4; 5; 6] -> X <> Y -> myPiece w X = myPiece w Y -> False.
Proof. intros w X Y HX HY Hne E. apply Hne. apply (myPiece_inj w X Y HX HY). exact E. Qed.
Lemma myPiece_opp : forall (w : bool) X Y, In X [1; 2; 3; 4; 5; 6] -> In Y [1; 2; 3; 4; 5; 6] -> myPiece w X = myPiece (negb w) Y -> False.
Proof.
  intros w X Y HX HY E. destruct (myPiece_own w X HX) as [A _]. rewrite E in A.
  cbn [In] in HY. destruct w; repeat (destruct HY as [<-|HY]; [discriminate A|]); destruct HY.
Qed.

(** * The squares of an e.p. capture and their geometry (finite sweep) *)
Definition epOK (c : bool) (f t : square) : bool :=
  ((zr t =? (if c then 5 else 2)) && (zr f =? (if c then 4 else 3)) && (Z.abs (zf t - zf f) =? 1))%Z.
Definition epE (f t : square) : square := sqAdd f (zf t - zf f).

Definition EGhoriz (k y A B t : square) : bool :=
  (SB k y =? N.lor (N.lor (N.lor (SB A k) (bit A)) (bit B)) (SB B y)) && rookAligned k y && negb (bishopAligned k y) && negb (N.testbit (SB k y) t)
  && negb (N.testbit (SB A k) B) && negb (N.testbit (SB B y) A).

Definition EGP (f t k y : square) : bool :=
  let E := epE f t in
  if (k =? f) || (k =? t) || (k =? E) || (y =? f) || (y =? t) || (y =? E) then true else
  let S := SB k y in let d3 := getDirection E k in
  let inE := N.testbit S E in let inF := N.testbit S f in let inT := N.testbit S t in
  let A := if (d3 =? 1)%Z then N.max E f else N.min E f in
  let B := if (d3 =? 1)%Z then N.min E f else N.max E f in
  (if inE then
     if inF then ((d3 =? 1) || (d3 =? -1))%Z && (getDirection B y =? - d3)%Z && EGhoriz k y A B t
     else inT || isBishopDir d3
   else true)
  && (if isBishopDir d3 && (getDirection E y =? - d3)%Z then negb inT && negb inF else true)
  && (if ((d3 =? 1) || (d3 =? -1))%Z then
        (getDirection A k =? d3)%Z && (A <? 64) && (B <? 64) && (if (getDirection B y =? - d3)%Z then EGhoriz k y A B t else true)
      else true).

Definition EGin (f t : square) : bool := forallb (fun k => forallb (EGP f t k) allSquares) allSquares.
Definition EGouter (f t : square) : bool := if epOK true f t || epOK false f t then EGin f t else true.
Lemma EG_ok : forallb (fun f => forallb (EGouter f) allSquares) allSquares = true.
Proof. vm_compute. reflexivity. Qed.

Lemma EG : forall c f t k y, f < 64 -> t < 64 -> k < 64 -> y < 64 -> epOK c f t = true -> EGP f t k y = true.
Proof.
  intros c f t k y Hf Ht Hk Hy Hok. pose proof EG_ok as H.
  rewrite forallb_forall in H. specialize (H f (sq_in_all f Hf)). cbv beta in H.
  rewrite forallb_forall in H. specialize (H t (sq_in_all t Ht)). unfold EGouter in H.
  assert (Hc : epOK true f t || epOK false f t = true) by (destruct c; rewrite Hok; [reflexivity | apply orb_true_r]).
  rewrite Hc in H. unfold EGin in H.
  rewrite forallb_forall in H. specialize (H k (sq_in_all k Hk)). cbv beta in H.
  rewrite forallb_forall in H. exact (H y (sq_in_all y Hy)).
Qed.

Lemma ep_arith : forall (c : bool) f t, f < 64 -> t < 64 ->
  (zr t = (if c then 5 else 2))%Z -> (zr t = zr f + (if c then 1 else -1))%Z -> (zf t = zf f - 1 \/ zf t = zf f + 1)%Z ->
  epOK c f t = true /\ epE f t < 64 /\ epE f t <> f /\ epE f t <> t /\ sq_of (zf t) (zr f) = epE f t /\
  Z.of_N (epE f t) = (if c then Z.of_N t - 8 else Z.of_N t + 8)%Z.
Proof.
  intros c f t Hf Ht H1 H2 H3. destruct (sq_decomp _ Hf) as (Ef & Hff & Hfr). destruct (sq_decomp _ Ht) as (Et & Htf & Htr).
  unfold epOK, epE, sqAdd, sq_of. rewrite !andb_true_iff, !Z.eqb_eq. destruct c; repeat split; try lia.
Qed.

(** * The engine side *)
Definition gcEp (pos : position) (m : move) : bool :=
  let wtm := whiteMove pos in
  let oKingSq := kingSq pos (negb wtm) in
  let oKing := if wtm then BKING else WKING in
  let dx := (zX (mto m) - zX (mfrom m))%Z in
  let epSq := sqAdd (mfrom m) dx in
  let d3 := getDirection epSq oKingSq in
  if isBishopDir d3 then
    if nextPiece pos epSq d3 =? oKing then
      let p2 := nextPieceSafe pos epSq (- d3)%Z in
      (p2 =? myPiece wtm WQUEEN) || (p2 =? myPiece wtm WBISHOP)
    else false
  else if (d3 =? 1)%Z then
    let maxS := N.max epSq (mfrom m) in
    let minS := N.min epSq (mfrom m) in
    if nextPiece pos maxS d3 =? oKing then
      let p2 := nextPieceSafe pos minS (- d3)%Z in
      (p2 =? myPiece wtm WQUEEN) || (p2 =? myPiece wtm WROOK)
    else false
  else if (d3 =? -1)%Z then
    let maxS := N.max epSq (mfrom m) in
    let minS := N.min epSq (mfrom m) in
    if nextPiece pos minS d3 =? oKing then
      let p2 := nextPieceSafe pos maxS (- d3)%Z in
      (p2 =? myPiece wtm WQUEEN) || (p2 =? myPiece wtm WROOK)
    else false
  else false.

Lemma givesCheck_ep : forall pos m, mpromote m = EMPTY -> makeWhite (getPiece pos (mfrom m)) = WPAWN ->
  getPiece pos (mto m) = EMPTY -> (zX (mto m) - zX (mfrom m) =? 0)%Z = false ->
  givesCheck pos m = gcR1 pos m || gcR2 pos m || gcEp pos m.
Proof.
  intros pos m Hp HP Hcap Hdx. unfold givesCheck, gcR1, gcR2, gcEp. cbv zeta. rewrite Hp. change (EMPTY =? EMPTY) with true. cbv iota.
  rewrite HP, Hcap, Hdx.
  match goal with |- (if ?a then true else _) = _ => destruct a end; [reflexivity|].
  match goal with |- (if ?a then true else _) = _ => destruct a end; [reflexivity|].
  cbn [negb andb orb]. cbv iota. change (WPAWN =? WKING) with false. change (WPAWN =? WPAWN) with true. change (EMPTY =? EMPTY) with true. cbv iota.
  cbn [negb]. reflexivity.
Qed.

Section Ep.
Variable p : position.
Hypothesis HWF : WF p.
Variable m : move.
Hypothesis Hleg : legal_spec (abs p) m.
Hypothesis Hep : isEp p m = true.
Let w := whiteMove p.
Let oks := kingSq p (negb w).
Let occ := occupiedBB p.
Let q := fst (makeMove zkDummy p m).
Let E := epE (mfrom m) (mto m).

Lemma ep_facts :
  getPiece p (mfrom m) = myPiece w WPAWN /\ getPiece p (mto m) = EMPTY /\ mpromote m = EMPTY /\
  epOK w (mfrom m) (mto m) = true /\ E < 64 /\ getPiece p E = myPiece (negb w) WPAWN /\ E <> mfrom m /\ E <> mto m /\
  sq_of (zf (mto m)) (zr (mfrom m)) = E /\ isCK p m = false /\ isCQ p m = false /\ zf (mto m) <> zf (mfrom m).
Proof.
  pose proof Hep as H. unfold isEp in H. fold w in H. rewrite !andb_true_iff in H. destruct H as [[Hpc Hfile] Hemp].
  rewrite is_piece_eqb in Hpc. apply N.eqb_eq in Hpc, Hemp. apply negb_true_iff, Z.eqb_neq in Hfile.
  destruct (g_move p HWF m Hleg) as (Hf & Ht & _).
  pose proof (c_ep_square p HWF m Hleg Hep) as Et.
  destruct (c_capture_shape p HWF m Hleg Hpc Hfile) as [Hzf Hzr]. fold w in Hzr.
  destruct (WF_parts p HWF) as [_ [_ [_ [_ Ha]]]]. apply accepted_ep in Ha. cbn [abs sp_ep sp_white] in Ha. fold w in Ha.
  destruct Ha as [Ha|(_ & Ha & _)]; [lia|]. rewrite <- Et in Ha. fold (zr (mto m)) in Ha.
  destruct (ep_arith w _ _ Hf Ht Ha Hzr Hzf) as (A1 & A2 & A3 & A4 & A5 & A6). fold E in A2, A3, A4, A5, A6.
  pose proof (moveOk_facts p m (c_ok p HWF m Hleg)) as F. cbv zeta in F. destruct F as (_ & _ & _ & _ & _ & _ & Hepf & _). fold w in Hepf.
  assert (Hpc' : getPiece p (mfrom m) = (if w then WPAWN else BPAWN)) by (rewrite Hpc; unfold w; destruct (whiteMove p); reflexivity).
  destruct (Hepf Hpc' Et) as (_ & Hpro & Hcap).
  split; [rewrite Hpc; unfold w; destruct (whiteMove p); reflexivity|]. split; [exact Hemp|]. split; [exact Hpro|]. split; [exact A1|].
  split; [exact A2|]. split; [|split; [exact A3|split; [exact A4|split; [exact A5|]]]].
  - unfold w in *. destruct (whiteMove p).
    + destruct Hcap as (H8 & Hb & _). replace E with (mto m - 8) by lia. exact Hb.
    + destruct Hcap as (H8 & Hb & _). replace E with (mto m + 8) by lia. exact Hb.
  - split; [|split; [|exact Hfile]].
    + unfold isCK. fold w. rewrite Hpc, is_piece_eqb. replace (mk_piece w Pawn =? mk_piece w King) with false by (unfold w; destruct (whiteMove p); reflexivity). reflexivity.
    + unfold isCQ. fold w. rewrite Hpc, is_piece_eqb. replace (mk_piece w Pawn =? mk_piece w King) with false by (unfold w; destruct (whiteMove p); reflexivity). reflexivity.
Qed.

Lemma ep_q : forall s, getPiece q s =
  if s =? mto m then myPiece w WPAWN else if s =? E then EMPTY else if s =? mfrom m then EMPTY else getPiece p s.
Proof.
  intro s. destruct ep_facts as (Hpc & Hemp & Hpro & _ & HE & _ & _ & _ & Esq & HcK & HcQ & _).
  destruct (g_move p HWF m Hleg) as (Hf & Ht & _).
  unfold q. rewrite (q_get zkDummy p HWF m Hleg), (b'_form zkDummy p HWF m Hleg). cbv zeta. rewrite HcK, HcQ, Hep, Esq.
  unfold landing. rewrite Hpro. change (EMPTY =? EMPTY) with true. cbv iota. rewrite Hpc.
  destruct (WF_parts p HWF) as [Hl _].
  destruct (N.eqb_spec s (mto m)) as [->|N1]; [apply nth_updN_eq; rewrite !length_updN; lia|].
  rewrite nth_updN_neq by auto.
  destruct (N.eqb_spec s E) as [->|N2]; [apply nth_updN_eq; rewrite !length_updN; lia|].
  rewrite nth_updN_neq by auto.
  destruct (N.eqb_spec s (mfrom m)) as [->|N3]; [apply nth_updN_eq; lia|].
  rewrite nth_updN_neq by auto. reflexivity.
Qed.

Lemma ep_occq : forall s, s < 64 -> N.testbit (occupiedBB q) s =
  if s =? mto m then true else if s =? E then false else if s =? mfrom m then false else N.testbit occ s.
Proof.
  intros s Hs. rewrite (c_occ q s (gHBq p HWF m Hleg) Hs), ep_q.
  destruct (s =? mto m); [apply negb_true_iff, N.eqb_neq, myPiece_own; cbn; tauto|].
  destruct (s =? E); [reflexivity|]. destruct (s =? mfrom m); [reflexivity|]. symmetry. apply (c_occ p s (gHBp p HWF) Hs).
Qed.

Lemma ep_oks : oks < 64 /\ getPiece p oks = mk_piece (negb w) King /\ oks <> mfrom m /\ oks <> mto m /\ oks <> E.
Proof.
  destruct (c_oks p HWF m Hleg) as (Hk & Hkp & Nkf & Nkt & _). fold w oks in Hk, Hkp, Nkf, Nkt.
  destruct ep_facts as (_ & _ & _ & _ & _ & HpE & _).
  repeat split; try assumption. intro Ex. rewrite Ex, HpE in Hkp. unfold w in Hkp. destruct (whiteMove p); discriminate.
Qed.

Definition clearQ (S : N) : Prop :=
  N.testbit S (mto m) = false /\ forall x, N.testbit S x = true -> x <> mfrom m -> x <> E -> N.testbit occ x = false.

Lemma ep_clear_q : forall y, y < 64 -> (N.land (SB oks y) (occupiedBB q) = 0 <-> clearQ (SB oks y)).
Proof.
  intros y Hy. destruct ep_oks as (Hk & _). destruct (g_move p HWF m Hleg) as (Hf & Ht & _).
  rewrite land_zero_iff. unfold clearQ. split.
  - intro H. split.
    + destruct (N.testbit (SB oks y) (mto m)) eqn:Eb; [|reflexivity]. pose proof (H _ Eb) as H'.
      rewrite ep_occq, N.eqb_refl in H' by exact Ht. discriminate.
    + intros x Hx N1 N2. pose proof (H x Hx) as H'. rewrite ep_occq in H' by (apply (SB_lt64 oks y x Hk Hy Hx)).
      destruct (N.eqb_spec x (mto m)); [discriminate|]. destruct (N.eqb_spec x E); [contradiction|].
      destruct (N.eqb_spec x (mfrom m)); [contradiction | exact H'].
  - intros [Hbt Hc] x Hx. rewrite ep_occq by (apply (SB_lt64 oks y x Hk Hy Hx)).
    destruct (N.eqb_spec x (mto m)) as [->|N1]; [congruence|].
    destruct (N.eqb_spec x E) as [->|N2]; [reflexivity|].
    destruct (N.eqb_spec x (mfrom m)) as [->|N3]; [reflexivity | apply Hc; assumption].
Qed.

Definition Slider (y : square) : Prop :=
  (rookAligned oks y = true /\ (getPiece p y = myPiece w WROOK \/ getPiece p y = myPiece w WQUEEN)) \/
  (bishopAligned oks y = true /\ (getPiece p y = myPiece w WBISHOP \/ getPiece p y = myPiece w WQUEEN)).

Definition PawnChk : Prop := N.testbit (patkOf w oks) (mto m) = true.
Definition EpDisc : Prop :=
  exists y, y < 64 /\ y <> mto m /\ y <> E /\ y <> mfrom m /\ Slider y /\ clearQ (SB oks y).

Theorem ep_spec_iff : gives_check_spec (abs p) m = true <-> PawnChk \/ EpDisc.
Proof.
  rewrite (c_spec_iff p HWF m Hleg). fold w oks q.
  destruct ep_oks as (Hk & Hkp & K1 & K2 & K3). destruct (g_move p HWF m Hleg) as (Hf & Ht & Hne & _).
  destruct ep_facts as (Hpc & Hemp & Hpro & Hok & HE & HpE & E1 & E2 & _).
  assert (HEm : forall Y, In Y [1; 2; 3; 4; 5; 6] -> EMPTY = myPiece w Y -> False) by (intros Y HY Ex; symmetry in Ex; revert Ex; apply myPiece_own; exact HY).
  assert (I1 : In WKING [1; 2; 3; 4; 5; 6]) by (cbn; tauto). assert (I2 : In WQUEEN [1; 2; 3; 4; 5; 6]) by (cbn; tauto).
  assert (I3 : In WROOK [1; 2; 3; 4; 5; 6]) by (cbn; tauto). assert (I4 : In WBISHOP [1; 2; 3; 4; 5; 6]) by (cbn; tauto).
  assert (I5 : In WKNIGHT [1; 2; 3; 4; 5; 6]) by (cbn; tauto). assert (I6 : In WPAWN [1; 2; 3; 4; 5; 6]) by (cbn; tauto).
  split.
  - intros [y [Hy Hatt]]. fold q in Hatt. rewrite ep_q in Hatt.
    revert Hatt. destruct (N.eqb_spec y (mto m)) as [Ey|NT]; intro Hatt.
    + left. subst y.
      destruct Hatt as [[Ex A]|[[Ex A]|[[Ex A]|[[[Ex|Ex] _]|[[Ex|Ex] _]]]]];
        try (exfalso; revert Ex; apply myPiece_neq2; [assumption | assumption | discriminate]).
      exact A.
    + revert Hatt. destruct (N.eqb_spec y E) as [Ey|NE]; intro Hatt.
      { exfalso. destruct Hatt as [[Ex A]|[[Ex A]|[[Ex A]|[[[Ex|Ex] _]|[[Ex|Ex] _]]]]]; eapply HEm; try exact Ex; assumption. }
      revert Hatt. destruct (N.eqb_spec y (mfrom m)) as [Ey|NF]; intro Hatt.
      { exfalso. destruct Hatt as [[Ex A]|[[Ex A]|[[Ex A]|[[[Ex|Ex] _]|[[Ex|Ex] _]]]]]; eapply HEm; try exact Ex; assumption. }
      destruct Hatt as [[Ex A]|[[Ex A]|[[Ex A]|[[Ex [Hal Hz]]|[Ex [Hal Hz]]]]]].
      * exfalso. apply (c_before p HWF m Hleg y). fold w oks. split; [exact Hy|]. left. auto.
      * exfalso. apply (c_before p HWF m Hleg y). fold w oks. split; [exact Hy|]. right. left. auto.
      * exfalso. apply (c_before p HWF m Hleg y). fold w oks. split; [exact Hy|]. right. right. left. auto.
      * right. exists y. repeat split; try assumption; [right; auto | apply (ep_clear_q y Hy); exact Hz | apply (ep_clear_q y Hy); exact Hz].
      * right. exists y. repeat split; try assumption; [left; auto | apply (ep_clear_q y Hy); exact Hz | apply (ep_clear_q y Hy); exact Hz].
  - intros [Hp|(y & Hy & N1 & N2 & N3 & Hs & Hc)].
    + exists (mto m). split; [exact Ht|]. fold q. rewrite ep_q, N.eqb_refl. right. right. left. auto.
    + exists y. split; [exact Hy|]. fold q. rewrite ep_q.
      replace (y =? mto m) with false by (symmetry; apply N.eqb_neq; exact N1).
      replace (y =? E) with false by (symmetry; apply N.eqb_neq; exact N2).
      replace (y =? mfrom m) with false by (symmetry; apply N.eqb_neq; exact N3).
      apply (ep_clear_q y Hy) in Hc.
      destruct Hs as [[Hal Hpy]|[Hal Hpy]]; [right; right; right; right | right; right; right; left]; auto.
Qed.

(** the first block: direct check by the pawn *)
Theorem ep_r1 : gcR1 p m = true <-> PawnChk.
Proof.
  destruct ep_oks as (Hk & Hkp & _). destruct (g_move p HWF m Hleg) as (Hf & Ht & _).
  destruct ep_facts as (Hpc & _).
  assert (I6 : In WPAWN [1; 2; 3; 4; 5; 6]) by (cbn; tauto).
  unfold gcR1, PawnChk. cbv zeta. rewrite (c_oKing p). fold w oks. rewrite Hpc, (makeWhite_my w _ I6).
  destruct (D1 (mto m) oks Ht Hk) as (_ & _ & _ & EP & _). rewrite <- (EP w).
  rewrite (c_piece_is_king p HWF m Hleg). fold w oks.
  set (d1 := getDirection (mto m) oks). destruct (dir_excl d1) as [XR XB].
  change (WPAWN =? WQUEEN) with false. change (WPAWN =? WROOK) with false. change (WPAWN =? WBISHOP) with false.
  change (WPAWN =? WPAWN) with true. change (WPAWN =? WKNIGHT) with false. cbn [orb]. cbv iota.
  destruct (isRookDir d1) eqn:Er; [destruct (XR eq_refl) as [Eb _]; rewrite Eb; cbn [andb]; split; discriminate|].
  destruct (isBishopDir d1); cbn [andb]; [|destruct (negb (d1 =? 0)%Z); split; discriminate].
  destruct (Bool.eqb (0 <? d1)%Z w); cbn [andb]; tauto.
Qed.

(** the second block and the e.p. tail: the discovered checks *)
Theorem ep_disc : gcR2 p m || gcEp p m = true <-> EpDisc.
Proof.
  destruct ep_oks as (Hk & Hkp & K1 & K2 & K3). destruct (g_move p HWF m Hleg) as (Hf & Ht & Hne & _).
  destruct ep_facts as (Hpc & Hemp & Hpro & Hok & HE & HpE & E1 & E2 & _).
  pose proof (gHBp p HWF) as HB.
  assert (I1 : In WKING [1; 2; 3; 4; 5; 6]) by (cbn; tauto). assert (I2 : In WQUEEN [1; 2; 3; 4; 5; 6]) by (cbn; tauto).
  assert (I3 : In WROOK [1; 2; 3; 4; 5; 6]) by (cbn; tauto). assert (I4 : In WBISHOP [1; 2; 3; 4; 5; 6]) by (cbn; tauto).
  assert (I5 : In WKNIGHT [1; 2; 3; 4; 5; 6]) by (cbn; tauto). assert (I6 : In WPAWN [1; 2; 3; 4; 5; 6]) by (cbn; tauto).
  (* what the sweep says for a slider square y *)
  assert (Hsw : forall y, y < 64 -> y <> mfrom m -> y <> mto m -> y <> E -> EGP (mfrom m) (mto m) oks y = true)
    by (intros y Hy _ _ _; apply (EG w); assumption).
  assert (Hnot : forall y, y <> mfrom m -> y <> mto m -> y <> E ->
            (oks =? mfrom m) || (oks =? mto m) || (oks =? epE (mfrom m) (mto m)) || (y =? mfrom m) || (y =? mto m) || (y =? epE (mfrom m) (mto m)) = false).
  { intros y N1 N2 N3. fold E. rewrite !orb_false_iff, !N.eqb_neq. auto 10. }
  (* a slider of ours is none of the three squares *)
  assert (Hslsq : forall y X, In X [1; 2; 3; 4; 5; 6] -> X <> WPAWN -> getPiece p y = myPiece w X -> y <> mfrom m /\ y <> mto m /\ y <> E).
  { intros y X HX HXp Hp. repeat split; intro Ey; subst y.
    - rewrite Hpc in Hp. symmetry in Hp. revert Hp. apply myPiece_neq2; assumption.
    - rewrite Hemp in Hp. symmetry in Hp. revert Hp. apply myPiece_own. exact HX.
    - rewrite HpE in Hp. symmetry in Hp. revert Hp. apply myPiece_opp; assumption. }
  (* the two walks *)
  assert (NPk : forall s, s < 64 -> rayDir (getDirection s oks) = true ->
            (nextPiece p s (getDirection s oks) =? mk_piece (negb w) King) = (N.land (SB s oks) occ =? 0))
    by (intros s Hs Hr; apply (c_np_king p HWF m Hleg s Hs Hr)).
  assert (NPS : forall s delta X, s < 64 -> rayDir delta = true -> In X [1; 2; 3; 4; 5; 6] ->
            (nextPieceSafe p s delta = myPiece w X <->
             exists y, y < 64 /\ getDirection s y = delta /\ getPiece p y = myPiece w X /\ N.land (SB s y) occ = 0))
    by (intros s delta X Hs Hr HX; apply (behind_iff p s delta _ HB Hs Hr); apply myPiece_own; exact HX).
  set (d3 := getDirection E oks).
  split.
  - (* engine says yes *)
    intro H. apply orb_true_iff in H. destruct H as [H|H].
    + apply (c_r2 p HWF m Hleg) in H. destruct H as (y & Hy & N1 & N2 & Hbf & Hbt & Hall & Hs). fold w oks occ in Hbf, Hbt, Hall, Hs.
      assert (Hsl : Slider y).
      { destruct Hs as [[Hal Hm]|[Hal Hm]]; [left | right]; (split; [exact Hal|]);
          (destruct Hm as [Hm|Hm]; [left | right]); apply (c_mine p HWF) in Hm; try apply Hm; assumption. }
      assert (N3 : y <> E).
      { destruct Hsl as [[_ [Hp|Hp]]|[_ [Hp|Hp]]]; eapply (Hslsq y); try exact Hp; try assumption; discriminate. }
      exists y. split; [exact Hy|]. split; [exact N1|]. split; [exact N3|]. split; [exact N2|]. split; [exact Hsl|].
      split; [exact Hbt|]. intros x Hx Nx _. apply Hall; assumption.
    + unfold gcEp in H. cbv zeta in H. rewrite (c_oKing p), zX_zf, zX_zf in H. fold w oks in H.
      change (sqAdd (mfrom m) (zf (mto m) - zf (mfrom m))) with E in H. fold d3 in H.
      destruct (isBishopDir d3) eqn:Eb.
      * (* the captured pawn leaves a diagonal *)
        assert (Hr : rayDir d3 = true) by (unfold rayDir; rewrite Eb; apply orb_true_r).
        unfold d3 in H. rewrite (NPk E HE Hr) in H. fold d3 in H.
        destruct (N.eqb_spec (N.land (SB E oks) occ) 0) as [Hz1|_]; [|discriminate].
        assert (Hy : exists X y, (X = WQUEEN \/ X = WBISHOP) /\ y < 64 /\ getDirection E y = (- d3)%Z /\ getPiece p y = myPiece w X /\ N.land (SB E y) occ = 0).
        { apply orb_true_iff in H. destruct H as [H|H]; apply N.eqb_eq in H.
          - apply (NPS E _ WQUEEN HE) in H; [|rewrite rayDir_neg; exact Hr | exact I2]. destruct H as (y & Hy). exists WQUEEN, y. auto.
          - apply (NPS E _ WBISHOP HE) in H; [|rewrite rayDir_neg; exact Hr | exact I4]. destruct H as (y & Hy). exists WBISHOP, y. auto. }
        destruct Hy as (X & y & HX & Hy & Hdy & Hpy & Hz2).
        assert (HX6 : In X [1; 2; 3; 4; 5; 6] /\ X <> WPAWN) by (destruct HX as [-> | ->]; split; auto; discriminate).
        destruct (Hslsq y X (proj1 HX6) (proj2 HX6) Hpy) as (N1 & N2 & N3).
        pose proof (H6 E oks y HE Hk Hy Hr Hdy) as HbE.
        destruct (H3 oks y E Hk Hy HE HbE) as (Edec & _ & _ & ER & EB & _). fold d3 in ER, EB.
        pose proof (Hsw y Hy N1 N2 N3) as S. unfold EGP, EGhoriz in S. cbv zeta in S. rewrite (Hnot y N1 N2 N3) in S. fold E d3 in S.
        rewrite !andb_true_iff in S. destruct S as [[_ S2] _]. rewrite Eb, Hdy, Z.eqb_refl in S2. cbn [andb] in S2.
        apply andb_true_iff in S2. destruct S2 as [ST SF]. apply negb_true_iff in ST, SF.
        exists y. split; [exact Hy|]. split; [exact N2|]. split; [exact N3|]. split; [exact N1|]. split.
        -- right. split; [rewrite <- EB; exact Eb | destruct HX as [-> | ->]; auto].
        -- split; [exact ST|]. intros x Hx Nf Ne. rewrite Edec, !N.lor_spec, bit_testbit in Hx.
           apply orb_true_iff in Hx. destruct Hx as [Hx|Hx]; [apply orb_true_iff in Hx; destruct Hx as [Hx|Hx]|].
           ++ destruct (G0 E oks HE Hk) as (_ & _ & Es & _). rewrite land_zero_iff in Hz1. apply Hz1. rewrite <- Es. exact Hx.
           ++ apply N.eqb_eq in Hx. exfalso. apply Ne. symmetry. exact Hx.
           ++ rewrite land_zero_iff in Hz2. apply Hz2. exact Hx.
      * (* both pawns leave the rank *)
        assert (Hd3 : (d3 = 1 \/ d3 = -1)%Z).
        { destruct (Z.eqb_spec d3 1); [left; assumption|]. destruct (Z.eqb_spec d3 (-1)); [right; assumption | discriminate]. }
        assert (Hr : rayDir d3 = true) by (destruct Hd3 as [-> | ->]; reflexivity).
        set (A := if (d3 =? 1)%Z then N.max E (mfrom m) else N.min E (mfrom m)) in *.
        set (B := if (d3 =? 1)%Z then N.min E (mfrom m) else N.max E (mfrom m)) in *.
        assert (H' : (if nextPiece p A d3 =? mk_piece (negb w) King
                      then (nextPieceSafe p B (- d3) =? myPiece w WQUEEN) || (nextPieceSafe p B (- d3) =? myPiece w WROOK) else false) = true).
        { unfold A, B. destruct Hd3 as [Ed|Ed]; rewrite Ed in H |- *; cbn [Z.eqb Pos.eqb] in H |- *; exact H. }
        clear H. destruct (nextPiece p A d3 =? mk_piece (negb w) King) eqn:Enp; [|discriminate].
        assert (HAB : (A = E /\ B = mfrom m) \/ (A = mfrom m /\ B = E)).
        { unfold A, B. destruct (d3 =? 1)%Z; destruct (N.max_spec E (mfrom m)) as [[? ->]|[? ->]]; destruct (N.min_spec E (mfrom m)) as [[? ->]|[? ->]]; auto; lia. }
        assert (HB64 : B < 64) by (destruct HAB as [[_ ->]|[_ ->]]; assumption).
        assert (HA64 : A < 64) by (destruct HAB as [[-> _]|[-> _]]; assumption).
        assert (Hy : exists X y, (X = WQUEEN \/ X = WROOK) /\ y < 64 /\ getDirection B y = (- d3)%Z /\ getPiece p y = myPiece w X /\ N.land (SB B y) occ = 0).
        { apply orb_true_iff in H'. destruct H' as [H|H]; apply N.eqb_eq in H.
          - apply (NPS B _ WQUEEN HB64) in H; [|rewrite rayDir_neg; exact Hr | exact I2]. destruct H as (y & Hy). exists WQUEEN, y. auto.
          - apply (NPS B _ WROOK HB64) in H; [|rewrite rayDir_neg; exact Hr | exact I3]. destruct H as (y & Hy). exists WROOK, y. auto. }
        destruct Hy as (X & y & HX & Hy & Hdy & Hpy & Hz2).
        assert (HX6 : In X [1; 2; 3; 4; 5; 6] /\ X <> WPAWN) by (destruct HX as [-> | ->]; split; auto; discriminate).
        destruct (Hslsq y X (proj1 HX6) (proj2 HX6) Hpy) as (N1 & N2 & N3).
        pose proof (Hsw y Hy N1 N2 N3) as S. unfold EGP, EGhoriz in S. cbv zeta in S. rewrite (Hnot y N1 N2 N3) in S. fold E d3 in S. fold A B in S.
        rewrite !andb_true_iff in S. destruct S as [_ S3].
        replace ((d3 =? 1) || (d3 =? -1))%Z with true in S3 by (symmetry; destruct Hd3 as [-> | ->]; reflexivity).
        rewrite Hdy, Z.eqb_refl in S3. rewrite !andb_true_iff in S3.
        destruct S3 as [[[SdA _] _] [[[[[Sdec Sral] Sbal] ST] SAB] SBA]].
        apply Z.eqb_eq in SdA. apply N.eqb_eq in Sdec. apply negb_true_iff in ST, SAB, SBA.
        rewrite <- SdA in Enp. rewrite (NPk A HA64) in Enp by (rewrite SdA; exact Hr). apply N.eqb_eq in Enp.
        exists y. split; [exact Hy|]. split; [exact N2|]. split; [exact N3|]. split; [exact N1|]. split.
        -- left. split; [exact Sral | destruct HX as [-> | ->]; auto].
        -- split; [exact ST|]. intros x Hx Nf Ne. rewrite Sdec, !N.lor_spec, !bit_testbit in Hx.
           apply orb_true_iff in Hx. destruct Hx as [Hx|Hx]; [apply orb_true_iff in Hx; destruct Hx as [Hx|Hx]; [apply orb_true_iff in Hx; destruct Hx as [Hx|Hx]|]|].
           ++ rewrite land_zero_iff in Enp. apply Enp. exact Hx.
           ++ apply N.eqb_eq in Hx. exfalso. destruct HAB as [[EA _]|[EA _]]; [apply Ne | apply Nf]; rewrite <- Hx; exact EA.
           ++ apply N.eqb_eq in Hx. exfalso. destruct HAB as [[_ EB]|[_ EB]]; [apply Nf | apply Ne]; rewrite <- Hx; exact EB.
           ++ rewrite land_zero_iff in Hz2. apply Hz2. exact Hx.
  - (* the Spec says yes *)
    intros (y & Hy & N2 & N3 & N1 & Hsl & [Hbt Hcl]).
    pose proof (Hsw y Hy N1 N2 N3) as S. unfold EGP, EGhoriz in S. cbv zeta in S. rewrite (Hnot y N1 N2 N3) in S. fold E d3 in S.
    rewrite !andb_true_iff in S. destruct S as [[S1 _] S3]. rewrite Hbt in S1. cbn [orb negb] in S1.
    destruct (N.testbit (SB oks y) E) eqn:InE; destruct (N.testbit (SB oks y) (mfrom m)) eqn:InF.
    + (* both on the line: the rank *)
      apply orb_true_iff. right.
      set (A := if (d3 =? 1)%Z then N.max E (mfrom m) else N.min E (mfrom m)) in *.
      set (B := if (d3 =? 1)%Z then N.min E (mfrom m) else N.max E (mfrom m)) in *.
      rewrite !andb_true_iff in S1. destruct S1 as [[Sd SdB] [[[[[Sdec Sral] Sbal] _] SAB] SBA]].
      rewrite Sd in S3. rewrite !andb_true_iff in S3. destruct S3 as [[[SdA SA64] SB64] _].
      apply Z.eqb_eq in SdA, SdB. apply N.eqb_eq in Sdec. apply negb_true_iff in SAB, SBA, Sbal. apply N.ltb_lt in SA64, SB64.
      assert (Hd3 : (d3 = 1 \/ d3 = -1)%Z) by (apply orb_true_iff in Sd; rewrite !Z.eqb_eq in Sd; exact Sd).
      assert (Hr : rayDir d3 = true) by (destruct Hd3 as [-> | ->]; reflexivity).
      assert (HAB : (A = E /\ B = mfrom m) \/ (A = mfrom m /\ B = E)).
      { unfold A, B. destruct (d3 =? 1)%Z; destruct (N.max_spec E (mfrom m)) as [[? ->]|[? ->]]; destruct (N.min_spec E (mfrom m)) as [[? ->]|[? ->]]; auto; lia. }
      assert (HnAB : forall x, x <> mfrom m -> x <> E -> x <> A /\ x <> B) by (intros x Nf Ne; destruct HAB as [[-> ->]|[-> ->]]; auto).
      assert (Hp : getPiece p y = myPiece w WROOK \/ getPiece p y = myPiece w WQUEEN).
      { destruct Hsl as [[_ Hp]|[Hal _]]; [exact Hp | congruence]. }
      assert (Hz1 : N.land (SB A oks) occ = 0).
      { apply land_zero_iff. intros x Hx. apply Hcl.
        - rewrite Sdec, !N.lor_spec, Hx. reflexivity.
        - intro Ex. destruct HAB as [[EA EB]|[EA EB]]; [rewrite Ex, <- EB in Hx; congruence|].
          rewrite Ex, <- EA in Hx. destruct (G0 A oks SA64 Hk) as (G & _). congruence.
        - intro Ex. destruct HAB as [[EA EB]|[EA EB]]; [|rewrite Ex, <- EB in Hx; congruence].
          rewrite Ex, <- EA in Hx. destruct (G0 A oks SA64 Hk) as (G & _). congruence. }
      assert (Hz2 : N.land (SB B y) occ = 0).
      { apply land_zero_iff. intros x Hx. apply Hcl.
        - rewrite Sdec, !N.lor_spec, Hx. apply orb_true_r.
        - intro Ex. destruct HAB as [[EA EB]|[EA EB]]; [|rewrite Ex, <- EA in Hx; congruence].
          rewrite Ex, <- EB in Hx. destruct (G0 B y SB64 Hy) as (G & _). congruence.
        - intro Ex. destruct HAB as [[EA EB]|[EA EB]]; [rewrite Ex, <- EA in Hx; congruence|].
          rewrite Ex, <- EB in Hx. destruct (G0 B y SB64 Hy) as (G & _). congruence. }
      assert (Hnp : (nextPiece p A d3 =? mk_piece (negb w) King) = true).
      { rewrite <- SdA. rewrite (NPk A SA64) by (rewrite SdA; exact Hr). rewrite Hz1. reflexivity. }
      assert (Hp2 : (nextPieceSafe p B (- d3) =? myPiece w WQUEEN) || (nextPieceSafe p B (- d3) =? myPiece w WROOK) = true).
      { apply orb_true_iff. destruct Hp as [Hp|Hp]; [right | left]; apply N.eqb_eq.
        - apply (NPS B _ WROOK SB64); [rewrite rayDir_neg; exact Hr | exact I3|]. exists y. auto.
        - apply (NPS B _ WQUEEN SB64); [rewrite rayDir_neg; exact Hr | exact I2|]. exists y. auto. }
      unfold gcEp. cbv zeta. rewrite (c_oKing p), zX_zf, zX_zf. fold w oks.
      change (sqAdd (mfrom m) (zf (mto m) - zf (mfrom m))) with E. fold d3.
      assert (Eb : isBishopDir d3 = false) by (destruct Hd3 as [-> | ->]; reflexivity). rewrite Eb.
      unfold A, B in Hnp, Hp2. destruct Hd3 as [Ed|Ed]; rewrite Ed in Hnp, Hp2 |- *; cbn [Z.eqb Pos.eqb] in Hnp, Hp2 |- *; rewrite Hnp; exact Hp2.
    + (* only the captured pawn's square: a diagonal *)
      apply orb_true_iff. right.
      assert (Eb : isBishopDir d3 = true) by exact S1.
      assert (Hr : rayDir d3 = true) by (unfold rayDir; rewrite Eb; apply orb_true_r).
      destruct (H3 oks y E Hk Hy HE InE) as (Edec & Hdy & _ & ER & EB & _). fold d3 in Hdy, ER, EB.
      assert (Hp : getPiece p y = myPiece w WBISHOP \/ getPiece p y = myPiece w WQUEEN).
      { destruct Hsl as [[Hal _]|[_ Hp]]; [|exact Hp]. destruct (dir_excl d3) as [_ XB]. destruct (XB Eb) as [Er _]. congruence. }
      assert (Hz1 : N.land (SB E oks) occ = 0).
      { destruct (G0 E oks HE Hk) as (_ & _ & Es & _). rewrite <- Es. apply land_zero_iff. intros x Hx. apply Hcl.
        - rewrite Edec, !N.lor_spec, Hx. reflexivity.
        - intro Ex. rewrite Ex in Hx. rewrite Edec, !N.lor_spec, Hx in InF. discriminate.
        - intro Ex. rewrite Ex in Hx. destruct (G0 oks E Hk HE) as (_ & G & _). congruence. }
      assert (Hz2 : N.land (SB E y) occ = 0).
      { apply land_zero_iff. intros x Hx. apply Hcl.
        - rewrite Edec, !N.lor_spec, Hx. apply orb_true_r.
        - intro Ex. rewrite Ex in Hx. rewrite Edec, !N.lor_spec, Hx, orb_true_r in InF. discriminate.
        - intro Ex. rewrite Ex in Hx. destruct (G0 E y HE Hy) as (G & _). congruence. }
      unfold gcEp. cbv zeta. rewrite (c_oKing p), zX_zf, zX_zf. fold w oks.
      change (sqAdd (mfrom m) (zf (mto m) - zf (mfrom m))) with E. fold d3. rewrite Eb.
      unfold d3 at 1. rewrite (NPk E HE Hr). fold d3. rewrite Hz1. change (0 =? 0) with true. cbv iota.
      apply orb_true_iff. destruct Hp as [Hp|Hp]; [right | left]; apply N.eqb_eq.
      * apply (NPS E _ WBISHOP HE); [rewrite rayDir_neg; exact Hr | exact I4|]. exists y. auto.
      * apply (NPS E _ WQUEEN HE); [rewrite rayDir_neg; exact Hr | exact I2|]. exists y. auto.
    + (* only the capturing pawn's square: the generic second block *)
      apply orb_true_iff. left. apply (c_r2 p HWF m Hleg). exists y. fold w oks occ.
      split; [exact Hy|]. split; [exact N2|]. split; [exact N1|]. split; [exact InF|]. split; [exact Hbt|]. split.
      * intros x Hx Nx. apply Hcl; [exact Hx | exact Nx | intro Ex; rewrite Ex in Hx; congruence].
      * destruct Hsl as [[Hal Hp]|[Hal Hp]]; [left | right]; (split; [exact Hal|]);
          (destruct Hp as [Hp|Hp]; [left | right]); apply (c_mine p HWF); auto.
    + (* neither: the slider attacked before *)
      exfalso. apply (c_before p HWF m Hleg y). fold w oks. split; [exact Hy|]. fold occ.
      assert (Hz : N.land (SB oks y) occ = 0).
      { apply land_zero_iff. intros x Hx. apply Hcl; [exact Hx | intro Ex; rewrite Ex in Hx; congruence | intro Ex; rewrite Ex in Hx; congruence]. }
      destruct Hsl as [[Hal Hp]|[Hal Hp]]; [right; right; right; right | right; right; right; left]; auto.
Qed.

Theorem ep_main : givesCheck p m = gives_check_spec (abs p) m.
Proof.
  destruct ep_facts as (Hpc & Hemp & Hpro & _ & _ & _ & _ & _ & _ & _ & _ & Hfile).
  assert (I6 : In WPAWN [1; 2; 3; 4; 5; 6]) by (cbn; tauto).
  rewrite givesCheck_ep.
  - apply eq_true_iff_eq. rewrite ep_spec_iff, <- ep_r1, <- ep_disc, !orb_true_iff. tauto.
  - exact Hpro.
  - rewrite Hpc. apply makeWhite_my. exact I6.
  - exact Hemp.
  - rewrite !zX_zf. apply Z.eqb_neq. lia.
Qed.
End Ep.

(** C01_givesCheck, en-passant captures *)
Theorem givesCheck_enpassant : forall p m, WF p -> legal_spec (abs p) m -> isEp p m = true ->
  givesCheck p m = gives_check_spec (abs p) m.
Proof. intros p m H Hl He. exact (ep_main p H m Hl He). Qed.

(** non-vacuity: after ...d7-d5 the capture e5xd6 uncovers the rook on a5 against the king on h5
    (both pawns leave the fifth rank) *)
Definition epBoard : list piece :=
  [0;0;0;0;WKING;0;0;0;  0;0;0;0;0;0;0;0;  0;0;0;0;0;0;0;0;  0;0;0;0;0;0;0;0;
   WROOK;0;0;BPAWN;WPAWN;0;0;BKING;  0;0;0;0;0;0;0;0;  0;0;0;0;0;0;0;0;  0;0;0;0;0;0;0;0].
Definition epPosition : position := positionOfBoard epBoard true 0 43.
Example givesCheck_ep_examples :
  WF epPosition /\
  legal_spec (abs epPosition) (mkMove 36 43 EMPTY) /\ isEp epPosition (mkMove 36 43 EMPTY) = true /\
  givesCheck epPosition (mkMove 36 43 EMPTY) = true /\ gives_check_spec (abs epPosition) (mkMove 36 43 EMPTY) = true.
Proof.
  split; [vm_compute; reflexivity|]. split; [apply legal_specb_spec; vm_compute; reflexivity|].
  split; [vm_compute; reflexivity|]. split; vm_compute; reflexivity.
Qed.
