(** The king-ray shortcut of removeIllegal (level L5 of the proof plan).
    For a non-king, non-en-passant move:
    - not in check, moving from a square the king cannot "see" along a rank, file or diagonal:
      the move cannot expose the king (no new attack arises), so it is legal;
    - in check, moving to a square that is neither visible from the king nor holds an enemy
      knight: the check is neither captured nor blocked, so the move is illegal.
    Hence removeIllegal = filter by the Spec's legality, on every list of pseudo-legal moves. *)
From Coq Require Import ZArith NArith List Bool Lia.
From Texel Require Import Chess.Types Chess.Position Chess.PositionSpec Chess.PositionFacts Chess.PositionProofs
  Chess.PositionProofs2 Chess.PositionProofs4 Chess.PositionTheorems Chess.PositionB
  Chess.BitBoard Chess.MoveGen Chess.Spec Chess.MoveGenWF
  Chess.BitBoardProofs Chess.RayProofs Chess.MoveGenProofs Chess.AttackProofs Chess.SliderProofs Chess.PawnProofs
  Chess.PseudoProofs Chess.MakeSpecProofs Chess.TryMoveProofs Chess.CastleProofs Chess.LegalProofs gen.BitBoardTables.
Import ListNotations.
Local Open Scope N_scope.

(** * First hit along a ray when two squares of the board change *)
Section Hits.
Variable occ occ' : N.
Variable from to : square.
Hypothesis Hoff : forall s, s <> from -> s <> to -> occb occ' s = occb occ s.
Hypothesis Hfrom : occb occ' from = false.
Hypothesis Hto : occb occ' to = true.

(** the moved-from square is not visible: the first hit is unchanged or is the moved piece *)
Lemma firstHit_no_new : forall l t', ~ In from (cutAt occ l) -> firstHit occ' l = Some t' ->
  t' = to \/ (firstHit occ l = Some t' /\ t' <> from /\ t' <> to).
Proof.
  induction l as [|x l IH]; intros t' Hn Hf; cbn [firstHit cutAt] in *; [discriminate|].
  destruct (N.eq_dec x to) as [->|Hxt].
  - rewrite Hto in Hf. injection Hf as <-. left. reflexivity.
  - destruct (occb occ x) eqn:Ex.
    + assert (Hxf : x <> from) by (intro E; apply Hn; left; exact E).
      rewrite (Hoff x Hxf Hxt), Ex in Hf. injection Hf as <-. right. auto.
    + assert (Hxf : x <> from) by (intro E; apply Hn; left; exact E).
      rewrite (Hoff x Hxf Hxt), Ex in Hf. apply IH; [|exact Hf]. intro Hin. apply Hn. right. exact Hin.
Qed.

(** neither changed square is among the visible squares: the first hit persists *)
Lemma firstHit_persists : forall l t, ~ In from (cutAt occ l) -> ~ In to (cutAt occ l) ->
  firstHit occ l = Some t -> firstHit occ' l = Some t.
Proof.
  induction l as [|x l IH]; intros t Hnf Hnt Hf; cbn [firstHit cutAt] in *; [discriminate|].
  destruct (occb occ x) eqn:Ex.
  - assert (Hxf : x <> from) by (intro E; apply Hnf; left; exact E).
    assert (Hxt : x <> to) by (intro E; apply Hnt; left; exact E).
    rewrite (Hoff x Hxf Hxt), Ex. exact Hf.
  - assert (Hxf : x <> from) by (intro E; apply Hnf; left; exact E).
    assert (Hxt : x <> to) by (intro E; apply Hnt; left; exact E).
    rewrite (Hoff x Hxf Hxt), Ex. apply IH; [| |exact Hf]; intro Hin; [apply Hnf | apply Hnt]; right; exact Hin.
Qed.
End Hits.

Lemma firstHit_in_cut : forall occ l t, firstHit occ l = Some t -> In t (cutAt occ l) /\ occb occ t = true.
Proof.
  induction l as [|x l IH]; intros t H; cbn [firstHit cutAt] in *; [discriminate|].
  destruct (occb occ x) eqn:Ex.
  - injection H as <-. split; [left; reflexivity | exact Ex].
  - destruct (IH t H) as [H1 H2]. split; [right; exact H1 | exact H2].
Qed.

Lemma cut_occupied_is_hit : forall occ l x, In x (cutAt occ l) -> occb occ x = true -> firstHit occ l = Some x.
Proof.
  induction l as [|y l IH]; intros x Hin Ho; cbn [firstHit cutAt] in *; [destruct Hin|].
  destruct (occb occ y) eqn:Ey.
  - destruct Hin as [<-|[]]. reflexivity.
  - destruct Hin as [<-|Hin]; [congruence | apply IH; assumption].
Qed.

(** adjacent squares are always visible from a square *)
Definition adjVisibleP (s t : square) : bool :=
  implb (step_rel king_offsets s t)
        ((rookAligned s t || bishopAligned s t) && (squaresBetween s t =? 0)).
Lemma adjVisible_ok : forallb (fun s => forallb (adjVisibleP s) allSquares) allSquares = true.
Proof. vm_compute. reflexivity. Qed.

Lemma adjacent_visible : forall s t occ, s < 64 -> t < 64 -> step_rel king_offsets s t = true ->
  exists d, In d allDirs /\ In t (cutAt occ (ray s d)).
Proof.
  intros s t occ Hs Ht Hadj. pose proof (sweep2 adjVisibleP adjVisible_ok s t Hs Ht) as H. unfold adjVisibleP in H.
  rewrite Hadj in H. cbn [implb] in H. apply andb_true_iff in H. destruct H as [Hal Hb]. apply N.eqb_eq in Hb.
  apply orb_true_iff in Hal. destruct Hal as [Hal|Hal].
  - assert (Hbit : N.testbit (rookAttacks s occ) t = true).
    { apply (rookAttacks_spec s t occ Hs Ht). split; [exact Hal|]. rewrite Hb. apply N.land_0_l. }
    apply rookAttacks_cut in Hbit. destruct Hbit as [d [Hd Hin]]. exists d. split; [unfold allDirs; apply in_or_app; left; exact Hd | exact Hin].
  - assert (Hbit : N.testbit (bishopAttacks s occ) t = true).
    { apply (bishopAttacks_spec s t occ Hs Ht). split; [exact Hal|]. rewrite Hb. apply N.land_0_l. }
    apply bishopAttacks_cut in Hbit. destruct Hbit as [d [Hd Hin]]. exists d. split; [unfold allDirs; apply in_or_app; right; exact Hd | exact Hin].
Qed.

Section Shortcut.
Variable zk : zkeys.
Hypothesis EKZ : emptyKeysZero zk.
Variable p : position.
Hypothesis HWF : WF p.
Hypothesis HC : Consistent zk p.
Let w := whiteMove p.
Let b := squares p.
Let ks := kingSq p w.
Let occ := occupiedBB p.
Let HB : BoardOK p := WF_BoardOK p HWF.

Lemma ks_facts : ks < 64 /\ getPiece p ks = mk_piece w King.
Proof. apply kingSq_spec. exact HWF. Qed.

Section OneMove.
Variable m : move.
Hypothesis Hm : In m (pseudoLegalMoves p).
Hypothesis Hnk : mfrom m <> ks.
Hypothesis Hnep : Z.of_N (mto m) <> epSquare p.
Let f := mfrom m.
Let t := mto m.
Let X := landing p m.
Let q := fst (makeMoveB p m).

Lemma simple_facts :
  squares q = updN t X (updN f EMPTY b) /\ squares q = sp_board (make_spec (abs p) m) /\
  f < 64 /\ t < 64 /\ f <> t /\ has_color w (getPiece p f) = true /\ has_color w (getPiece p t) = false /\
  has_color w X = true /\ t <> ks /\ BoardOK q.
Proof.
  destruct (made_facts zk EKZ p HWF HC m Hm) as (Hb & Hok & HBq & _).
  pose proof (moveOk_facts p m Hok) as F. cbv zeta in F. fold w f t in F.
  destruct F as (Hf & Ht & Hne & Hown & Hcapn & Hpro & _).
  pose proof (BoardOK_le12 p f HB) as Hlef. pose proof (BoardOK_le12 p t HB) as Hlet.
  rewrite (ownPiece_has_color w _ Hlef) in Hown. rewrite (ownPiece_has_color w _ Hlet) in Hcapn.
  destruct ks_facts as [Hk64 Hkp].
  assert (Hnotking : isKingPc (getPiece p f) = false).
  { destruct (isKingPc (getPiece p f)) eqn:E; [|reflexivity]. exfalso. apply Hnk. fold f.
    apply (king_unique p w f ks HWF Hf Hk64); [|exact Hkp].
    unfold isKingPc in E. apply orb_true_iff in E. destruct E as [E|E]; apply N.eqb_eq in E; rewrite E in Hown |- *;
      unfold w in *; destruct (whiteMove p); try reflexivity; discriminate. }
  assert (Hboard : squares q = updN t X (updN f EMPTY b)).
  { unfold q, X, t, f, b. apply (makeMoveB_simple p m HB Hf).
    - intros _. exact Hnep.
    - intro E. fold f in E. rewrite Hnotking in E. discriminate.
    - intro E. destruct (N.eq_dec (mpromote m) EMPTY) as [|Hp]; [assumption|]. exfalso.
      destruct (Hpro Hp) as [Hpc _]. fold f in E. rewrite Hpc in E. unfold w in E. destruct (whiteMove p); discriminate. }
  assert (HX : has_color w X = true).
  { unfold X, landing. fold f. destruct (N.eqb_spec (mpromote m) EMPTY) as [|Hp]; [exact Hown|].
    destruct (Hpro Hp) as [_ Hop].
    assert (Hle : mpromote m <= 12).
    { unfold ownPiece, isWhitePiece, isBlackPiece in Hop. destruct w; apply andb_true_iff in Hop; destruct Hop as [_ H2]; apply N.leb_le in H2; lia. }
    rewrite <- (ownPiece_has_color w _ Hle). exact Hop. }
  refine (conj Hboard (conj Hb (conj Hf (conj Ht (conj Hne (conj Hown (conj Hcapn (conj HX (conj _ HBq))))))))).
  intro E. rewrite E, Hkp in Hcapn. unfold w in Hcapn. destruct (whiteMove p); discriminate.
Qed.

Lemma getPiece_q : forall s, s < 64 ->
  getPiece q s = if s =? t then X else if s =? f then EMPTY else getPiece p s.
Proof.
  intros s Hs. destruct simple_facts as (Hb & _ & Hf & Ht & _).
  destruct (WF_parts p HWF) as [Hl _]. fold b in Hl.
  unfold getPiece at 1. rewrite Hb.
  destruct (N.eqb_spec s t) as [->|Hst].
  - apply nth_updN_eq. rewrite length_updN. lia.
  - rewrite nth_updN_neq by (intro E; apply Hst; symmetry; exact E).
    destruct (N.eqb_spec s f) as [->|Hsf].
    + apply nth_updN_eq. lia.
    + rewrite nth_updN_neq by (intro E; apply Hsf; symmetry; exact E). reflexivity.
Qed.

Lemma at_q : forall x y, on_board x y = true -> at_ (squares q) x y = getPiece q (sq_of x y).
Proof. intros x y H. apply (at_getPiece q x y H). Qed.

Lemma enemy_not_own : forall k pc, has_color w pc = true -> is_piece (negb w) k pc = false.
Proof. intros k pc H. rewrite is_piece_eqb. apply N.eqb_neq. intro E. rewrite E in H. destruct w, k; discriminate. Qed.

(** a square holding an enemy piece after the move held the same piece before *)
Lemma enemy_after_was_before : forall k x y, is_piece (negb w) k (at_ (squares q) x y) = true ->
  is_piece (negb w) k (at_ b x y) = true.
Proof.
  intros k x y H. destruct (on_board x y) eqn:Hob.
  2:{ unfold at_ in H. rewrite Hob in H. destruct w, k; discriminate. }
  destruct simple_facts as (_ & _ & _ & _ & _ & _ & _ & HX & _).
  destruct (sq_of_coords x y Hob) as [Hs _]. rewrite (at_q x y Hob), (getPiece_q _ Hs) in H.
  unfold b. rewrite (at_getPiece p x y Hob).
  destruct (sq_of x y =? t); [rewrite (enemy_not_own k X HX) in H; discriminate|].
  destruct (sq_of x y =? f); [destruct w, k; discriminate | exact H].
Qed.

(** an enemy piece not on the target square is still there after the move *)
Lemma enemy_before_stays : forall k x y, is_piece (negb w) k (at_ b x y) = true -> sq_of x y <> t ->
  is_piece (negb w) k (at_ (squares q) x y) = true.
Proof.
  intros k x y H Hnt. destruct (on_board x y) eqn:Hob.
  2:{ unfold at_ in H. rewrite Hob in H. destruct w, k; discriminate. }
  destruct simple_facts as (_ & _ & _ & _ & _ & Hown & _).
  destruct (sq_of_coords x y Hob) as [Hs _]. rewrite (at_q x y Hob), (getPiece_q _ Hs).
  unfold b in H. rewrite (at_getPiece p x y Hob) in H.
  replace (sq_of x y =? t) with false by (symmetry; apply N.eqb_neq; exact Hnt).
  destruct (N.eqb_spec (sq_of x y) f) as [E|_]; [|exact H].
  rewrite E in H. rewrite (enemy_not_own k _ Hown) in H. discriminate.
Qed.

(** occupancy after the move *)
Lemma occ_q : (forall s, s <> f -> s <> t -> occb (occupiedBB q) s = occb occ s) /\
              occb (occupiedBB q) f = false /\ occb (occupiedBB q) t = true.
Proof.
  destruct simple_facts as (_ & _ & Hf & Ht & Hne & _ & _ & HX & _ & HBq).
  assert (Hq : forall s, occb (occupiedBB q) s = (s <? 64) && negb (getPiece q s =? EMPTY))
    by (intro s; rewrite occb_testbit; apply occupied_testbit_B; exact HBq).
  assert (Hp : forall s, occb occ s = (s <? 64) && negb (getPiece p s =? EMPTY))
    by (intro s; rewrite occb_testbit; apply occupied_testbit_B; exact HB).
  split; [|split].
  - intros s Hsf Hst. rewrite Hq, Hp. destruct (N.ltb_spec s 64) as [Hs|Hs]; [|reflexivity]. cbn [andb].
    rewrite (getPiece_q s Hs).
    replace (s =? t) with false by (symmetry; apply N.eqb_neq; exact Hst).
    replace (s =? f) with false by (symmetry; apply N.eqb_neq; exact Hsf). reflexivity.
  - rewrite Hq, (getPiece_q f Hf).
    replace (f =? t) with false by (symmetry; apply N.eqb_neq; exact Hne). rewrite N.eqb_refl. apply andb_false_r.
  - rewrite Hq, (getPiece_q t Ht), N.eqb_refl.
    replace (t <? 64) with true by (symmetry; apply N.ltb_lt; exact Ht).
    assert (X <> EMPTY) by (intro E; rewrite E in HX; destruct w; discriminate).
    replace (X =? EMPTY) with false by (symmetry; apply N.eqb_neq; assumption). reflexivity.
Qed.

Let kf := zf ks.
Let kr := zr ks.

(** the rays from the king's square before and after the move *)
Lemma ray_before : forall d, In d allDirs ->
  ray_first b 7 kf kr (fst d) (snd d) =
  match firstHit occ (ray ks d) with Some s => getPiece p s | None => EMPTY end.
Proof.
  intros d Hd. destruct ks_facts as [Hk _]. destruct (coords_of_sq ks Hk) as [Hob _].
  unfold b, kf, kr. rewrite (ray_first_firstHit p HB 7 _ _ _ _ Hob) by (rewrite <- surjective_pairing; exact Hd).
  rewrite <- (ray_fuel ks d Hk Hd). reflexivity.
Qed.

Lemma ray_after : forall d, In d allDirs ->
  ray_first (squares q) 7 kf kr (fst d) (snd d) =
  match firstHit (occupiedBB q) (ray ks d) with Some s => getPiece q s | None => EMPTY end.
Proof.
  intros d Hd. destruct ks_facts as [Hk _]. destruct (coords_of_sq ks Hk) as [Hob _].
  destruct simple_facts as (_ & _ & _ & _ & _ & _ & _ & _ & _ & HBq).
  unfold kf, kr. rewrite (ray_first_firstHit q HBq 7 _ _ _ _ Hob) by (rewrite <- surjective_pairing; exact Hd).
  rewrite <- (ray_fuel ks d Hk Hd). reflexivity.
Qed.

(** (A) the moved-from square is not visible from the king: no new slider attack *)
Lemma slider_no_new : forall d k1 k2, In d allDirs -> ~ In f (cutAt occ (ray ks d)) ->
  (let pc := ray_first (squares q) 7 kf kr (fst d) (snd d) in is_piece (negb w) k1 pc || is_piece (negb w) k2 pc) = true ->
  (let pc := ray_first b 7 kf kr (fst d) (snd d) in is_piece (negb w) k1 pc || is_piece (negb w) k2 pc) = true.
Proof.
  intros d k1 k2 Hd Hnv H. cbv zeta in *. rewrite (ray_after d Hd) in H. rewrite (ray_before d Hd).
  destruct occ_q as (Hoff & Hfo & Hto).
  destruct simple_facts as (_ & _ & Hf & Ht & _ & _ & _ & HX & _).
  destruct (firstHit (occupiedBB q) (ray ks d)) as [s'|] eqn:E.
  2:{ destruct w, k1, k2; discriminate. }
  destruct ks_facts as [Hk _].
  destruct (firstHit_in_cut _ _ _ E) as [Hin _]. apply cutAt_incl in Hin.
  destruct (ray_not_self ks d s' Hk Hd Hin) as [Hs' _].
  destruct (firstHit_no_new occ (occupiedBB q) f t Hoff Hto (ray ks d) s' Hnv E) as [->|[E' [Hsf Hst]]].
  - rewrite (getPiece_q t Ht), N.eqb_refl in H. rewrite !(enemy_not_own _ X HX) in H. discriminate.
  - rewrite E'. rewrite (getPiece_q s' Hs') in H.
    replace (s' =? t) with false in H by (symmetry; apply N.eqb_neq; exact Hst).
    replace (s' =? f) with false in H by (symmetry; apply N.eqb_neq; exact Hsf). exact H.
Qed.

(** (B) the target square is not visible from the king: an existing slider attack persists *)
Lemma slider_persists : forall d k1 k2, In d allDirs -> ~ In t (cutAt occ (ray ks d)) ->
  (let pc := ray_first b 7 kf kr (fst d) (snd d) in is_piece (negb w) k1 pc || is_piece (negb w) k2 pc) = true ->
  (let pc := ray_first (squares q) 7 kf kr (fst d) (snd d) in is_piece (negb w) k1 pc || is_piece (negb w) k2 pc) = true.
Proof.
  intros d k1 k2 Hd Hnv H. cbv zeta in *. rewrite (ray_before d Hd) in H. rewrite (ray_after d Hd).
  destruct occ_q as (Hoff & Hfo & Hto).
  destruct simple_facts as (_ & _ & Hf & Ht & _ & Hown & _).
  destruct (firstHit occ (ray ks d)) as [s|] eqn:E.
  2:{ destruct w, k1, k2; discriminate. }
  destruct ks_facts as [Hk _].
  destruct (firstHit_in_cut _ _ _ E) as [Hin Hocc]. pose proof (cutAt_incl _ _ _ Hin) as Hin'.
  destruct (ray_not_self ks d s Hk Hd Hin') as [Hs _].
  assert (Hsf : s <> f).
  { intro Es. rewrite Es in H. rewrite !(enemy_not_own _ _ Hown) in H. discriminate. }
  assert (Hnf : ~ In f (cutAt occ (ray ks d))).
  { intro Hinf. assert (Hof : occb occ f = true).
    { rewrite occb_testbit. unfold occ. rewrite (occupied_testbit_B p f HB).
      replace (f <? 64) with true by (symmetry; apply N.ltb_lt; exact Hf). cbn [andb]. apply negb_true_iff, N.eqb_neq.
      intro E0. rewrite E0 in Hown. destruct w; discriminate. }
    pose proof (cut_occupied_is_hit _ _ _ Hinf Hof) as E2. rewrite E in E2. injection E2 as E2. contradiction. }
  rewrite (firstHit_persists occ (occupiedBB q) f t Hoff (ray ks d) s Hnf Hnv E).
  assert (Hst : s <> t) by (intro Es; apply Hnv; rewrite <- Es; exact Hin).
  rewrite (getPiece_q s Hs).
  replace (s =? t) with false by (symmetry; apply N.eqb_neq; exact Hst).
  replace (s =? f) with false by (symmetry; apply N.eqb_neq; exact Hsf). exact H.
Qed.
Lemma in_check_after : in_checkb (sp_board (make_spec (abs p) m)) w = attacked_by (squares q) (negb w) kf kr.
Proof.
  destruct simple_facts as (_ & Hsp & Hf & Ht & _ & _ & _ & _ & Htk & _).
  destruct (made_facts zk EKZ p HWF HC m Hm) as (_ & _ & _ & _ & _ & _ & Hun). fold w in Hun.
  destruct ks_facts as [Hk Hkp].
  assert (Hkq : nth (N.to_nat ks) (sp_board (make_spec (abs p) m)) EMPTY = mk_piece w King).
  { rewrite <- Hsp. fold (getPiece q ks). rewrite (getPiece_q ks Hk).
    replace (ks =? t) with false by (symmetry; apply N.eqb_neq; intro E; apply Htk; symmetry; exact E).
    replace (ks =? f) with false by (symmetry; apply N.eqb_neq; intro E; apply Hnk; symmetry; exact E). exact Hkp. }
  unfold in_checkb. rewrite (find_king_spec _ w ks Hk Hkq Hun). rewrite Hsp. reflexivity.
Qed.

Lemma visible_iff : forall s, N.testbit (N.lor (rookAttacks ks occ) (bishopAttacks ks occ)) s = true <->
  exists d, In d allDirs /\ In s (cutAt occ (ray ks d)).
Proof.
  intro s. rewrite N.lor_spec, orb_true_iff, rookAttacks_cut, bishopAttacks_cut. unfold allDirs. split.
  - intros [[d [Hd Hin]]|[d [Hd Hin]]]; exists d; (split; [apply in_or_app; auto | exact Hin]).
  - intros [d [Hd Hin]]. apply in_app_or in Hd. destruct Hd as [Hd|Hd]; [left | right]; exists d; auto.
Qed.

(** (A) *)
Lemma no_new_attack :
  N.testbit (N.lor (rookAttacks ks occ) (bishopAttacks ks occ)) f = false ->
  attacked_by b (negb w) kf kr = false -> attacked_by (squares q) (negb w) kf kr = false.
Proof.
  intros Hvis Hno. destruct (attacked_by (squares q) (negb w) kf kr) eqn:E; [|reflexivity]. exfalso.
  assert (Hnv : forall d, In d allDirs -> ~ In f (cutAt occ (ray ks d))).
  { intros d Hd Hin. assert (Hb : N.testbit (N.lor (rookAttacks ks occ) (bishopAttacks ks occ)) f = true)
      by (apply visible_iff; exists d; auto). congruence. }
  assert (Hyes : attacked_by b (negb w) kf kr = true); [|congruence].
  unfold attacked_by in E |- *. rewrite !orb_true_iff in E. rewrite !orb_true_iff.
  destruct E as [[[[E|E]|[E|E]]|E]|E].
  - left. left. left. left. apply existsb_exists in E. destruct E as [d [Hd E]]. apply existsb_exists. exists d.
    split; [exact Hd | apply enemy_after_was_before; exact E].
  - left. left. left. right. apply existsb_exists in E. destruct E as [d [Hd E]]. apply existsb_exists. exists d.
    split; [exact Hd | apply enemy_after_was_before; exact E].
  - left. left. right. left. apply enemy_after_was_before; exact E.
  - left. left. right. right. apply enemy_after_was_before; exact E.
  - left. right. apply existsb_exists in E. destruct E as [d [Hd E]]. apply existsb_exists. exists d.
    split; [exact Hd|]. apply (slider_no_new d Rook Queen); [unfold allDirs; apply in_or_app; left; exact Hd | | exact E].
    apply Hnv. unfold allDirs. apply in_or_app. left. exact Hd.
  - right. apply existsb_exists in E. destruct E as [d [Hd E]]. apply existsb_exists. exists d.
    split; [exact Hd|]. apply (slider_no_new d Bishop Queen); [unfold allDirs; apply in_or_app; right; exact Hd | | exact E].
    apply Hnv. unfold allDirs. apply in_or_app. right. exact Hd.
Qed.

Lemma adjacent_not_target : forall dx dy, In (dx, dy) king_offsets ->
  (forall d, In d allDirs -> ~ In t (cutAt occ (ray ks d))) ->
  on_board (kf + dx) (kr + dy) = true -> sq_of (kf + dx) (kr + dy) <> t.
Proof.
  intros dx dy Hd Hnv Hob E. destruct ks_facts as [Hk _]. destruct (sq_of_coords _ _ Hob) as [Hs [Hzf [Hzr _]]].
  assert (Hadj : step_rel king_offsets ks (sq_of (kf + dx) (kr + dy)) = true).
  { unfold step_rel. apply existsb_exists. exists (dx, dy). split; [exact Hd|]. cbn [fst snd].
    rewrite Hzf, Hzr. fold kf kr. rewrite !Z.eqb_refl. reflexivity. }
  destruct (adjacent_visible ks _ occ Hk Hs Hadj) as [d [Hdd Hin]]. rewrite E in Hin. exact (Hnv d Hdd Hin).
Qed.

Lemma piece_on_board : forall k x y, is_piece (negb w) k (at_ b x y) = true -> on_board x y = true.
Proof.
  intros k x y H. destruct (on_board x y) eqn:E; [reflexivity|]. unfold at_ in H. rewrite E in H. destruct w, k; discriminate.
Qed.

(** (B) *)
Lemma attack_persists :
  N.testbit (N.lor (rookAttacks ks occ) (bishopAttacks ks occ)) t = false ->
  (is_piece (negb w) Knight (getPiece p t) = true -> step_rel knight_offsets ks t = false) ->
  attacked_by b (negb w) kf kr = true -> attacked_by (squares q) (negb w) kf kr = true.
Proof.
  intros Hvis Hkn E.
  assert (Hnv : forall d, In d allDirs -> ~ In t (cutAt occ (ray ks d))).
  { intros d Hd Hin. assert (Hb : N.testbit (N.lor (rookAttacks ks occ) (bishopAttacks ks occ)) t = true)
      by (apply visible_iff; exists d; auto). congruence. }
  unfold attacked_by in E |- *. rewrite !orb_true_iff in E. rewrite !orb_true_iff.
  destruct E as [[[[E|E]|[E|E]]|E]|E].
  - left. left. left. left. apply existsb_exists in E. destruct E as [d [Hd E]]. apply existsb_exists. exists d.
    split; [exact Hd|]. apply enemy_before_stays; [exact E|]. intro Et.
    pose proof (piece_on_board _ _ _ E) as Hob. unfold b in E. rewrite (at_getPiece p _ _ Hob), Et in E.
    specialize (Hkn E). destruct (sq_of_coords _ _ Hob) as [_ [Hzf [Hzr _]]]. rewrite Et in Hzf, Hzr.
    assert (Hst : step_rel knight_offsets ks t = true).
    { unfold step_rel. apply existsb_exists. exists d. split; [exact Hd|]. fold kf kr. rewrite Hzf, Hzr, !Z.eqb_refl. reflexivity. }
    congruence.
  - left. left. left. right. apply existsb_exists in E. destruct E as [[dx dy] [Hd E]]. apply existsb_exists. exists (dx, dy).
    split; [exact Hd|]. cbn [fst snd] in *. apply enemy_before_stays; [exact E|].
    apply (adjacent_not_target dx dy Hd Hnv). exact (piece_on_board _ _ _ E).
  - left. left. right. left. apply enemy_before_stays; [exact E|]. pose proof (piece_on_board _ _ _ E) as Hob.
    replace (kf - 1)%Z with (kf + -1)%Z in * by lia.
    destruct (negb w).
    + replace (kr - 1)%Z with (kr + -1)%Z in * by lia. apply (adjacent_not_target (-1) (-1))%Z; [cbn; tauto | exact Hnv | exact Hob].
    + apply (adjacent_not_target (-1) 1)%Z; [cbn; tauto | exact Hnv | exact Hob].
  - left. left. right. right. apply enemy_before_stays; [exact E|]. pose proof (piece_on_board _ _ _ E) as Hob.
    destruct (negb w).
    + replace (kr - 1)%Z with (kr + -1)%Z in * by lia. apply (adjacent_not_target 1 (-1))%Z; [cbn; tauto | exact Hnv | exact Hob].
    + apply (adjacent_not_target 1 1)%Z; [cbn; tauto | exact Hnv | exact Hob].
  - left. right. apply existsb_exists in E. destruct E as [d [Hd E]]. apply existsb_exists. exists d.
    split; [exact Hd|]. apply (slider_persists d Rook Queen); [unfold allDirs; apply in_or_app; left; exact Hd | | exact E].
    apply Hnv. unfold allDirs. apply in_or_app. left. exact Hd.
  - right. apply existsb_exists in E. destruct E as [d [Hd E]]. apply existsb_exists. exists d.
    split; [exact Hd|]. apply (slider_persists d Bishop Queen); [unfold allDirs; apply in_or_app; right; exact Hd | | exact E].
    apply Hnv. unfold allDirs. apply in_or_app. right. exact Hd.
Qed.
End OneMove.
Let kf0 := zf ks.
Let kr0 := zr ks.

Lemma in_check_now : inCheck p = attacked_by b (negb w) kf0 kr0.
Proof.
  rewrite (inCheck_spec p HWF). fold w b. destruct ks_facts as [Hk Hkp].
  unfold in_checkb. rewrite (find_king_spec b w ks Hk Hkp); [reflexivity|].
  intros s1 s2 H1 H2 E1 E2. exact (king_unique p w s1 s2 HWF H1 H2 E1 E2).
Qed.

Lemma land_bit_zero : forall x s, (N.land x (bit s) =? 0) = negb (N.testbit x s).
Proof. intros. rewrite <- nz_bit. unfold nz. rewrite negb_involutive. reflexivity. Qed.

(** the two shortcut verdicts of removeIllegal agree with the Spec *)
Lemma shortcut_legal : forall m, In m (pseudoLegalMoves p) -> inCheck p = false ->
  negb (mfrom m =? ks) && (N.land (N.lor (rookAttacks ks occ) (bishopAttacks ks occ)) (bit (mfrom m)) =? 0)
    && negb (Z.of_N (mto m) =? epSquare p)%Z = true ->
  legal_specb (abs p) m = true.
Proof.
  intros m Hm Hc Hcond. rewrite !andb_true_iff in Hcond. destruct Hcond as [[H1 H2] H3].
  apply negb_true_iff, N.eqb_neq in H1. apply negb_true_iff, Z.eqb_neq in H3.
  rewrite land_bit_zero in H2. apply negb_true_iff in H2.
  apply legal_specb_spec. apply (safe_iff_legal zk EKZ p HWF HC m Hm). fold w.
  rewrite (in_check_after m Hm H1 H3). apply (no_new_attack m Hm H1 H3 H2).
  pose proof in_check_now as Hi. unfold kf0, kr0 in Hi. rewrite <- Hi. exact Hc.
Qed.

Lemma shortcut_illegal : forall m, In m (pseudoLegalMoves p) -> inCheck p = true ->
  negb (mfrom m =? ks)
    && (N.land (N.lor (N.lor (rookAttacks ks occ) (bishopAttacks ks occ)) (ptBB p (if w then BKNIGHT else WKNIGHT))) (bit (mto m)) =? 0)
    && negb (Z.of_N (mto m) =? epSquare p)%Z = true ->
  legal_specb (abs p) m = false.
Proof.
  intros m Hm Hc Hcond. rewrite !andb_true_iff in Hcond. destruct Hcond as [[H1 H2] H3].
  apply negb_true_iff, N.eqb_neq in H1. apply negb_true_iff, Z.eqb_neq in H3.
  rewrite land_bit_zero in H2. apply negb_true_iff in H2. rewrite N.lor_spec in H2. apply orb_false_iff in H2.
  destruct H2 as [Hvis Hkn].
  destruct (legal_specb (abs p) m) eqn:E; [|reflexivity]. exfalso.
  apply legal_specb_spec in E. apply (safe_iff_legal zk EKZ p HWF HC m Hm) in E. fold w in E.
  rewrite (in_check_after m Hm H1 H3) in E.
  assert (Hkn' : is_piece (negb w) Knight (getPiece p (mto m)) = false).
  { destruct (simple_facts m Hm H1 H3) as (_ & _ & _ & Ht & _).
    assert (Hpc : In (if w then BKNIGHT else WKNIGHT) pieceCodes) by (destruct w; cbn; tauto).
    rewrite (BoardOK_ptBB p _ _ HB Hpc) in Hkn.
    replace (mto m <? 64) with true in Hkn by (symmetry; apply N.ltb_lt; exact Ht). cbn [andb] in Hkn.
    rewrite is_piece_eqb. destruct w; exact Hkn. }
  rewrite (attack_persists m Hm H1 H3 Hvis (fun Hx => False_ind _ (eq_true_false_abs _ Hx Hkn'))) in E; [discriminate|].
  pose proof in_check_now as Hi. unfold kf0, kr0 in Hi. rewrite <- Hi. exact Hc.
Qed.

(** the same two facts with the conditions as propositions (used for isLegal) *)
Lemma legal_not_in_check : forall m, In m (pseudoLegalMoves p) -> inCheck p = false ->
  mfrom m <> ks -> Z.of_N (mto m) <> epSquare p ->
  N.testbit (N.lor (rookAttacks ks occ) (bishopAttacks ks occ)) (mfrom m) = false ->
  legal_specb (abs p) m = true.
Proof.
  intros m Hm Hc H1 H3 H2. apply (shortcut_legal m Hm Hc). rewrite land_bit_zero, H2.
  replace (mfrom m =? ks) with false by (symmetry; apply N.eqb_neq; exact H1).
  replace (Z.of_N (mto m) =? epSquare p)%Z with false by (symmetry; apply Z.eqb_neq; exact H3). reflexivity.
Qed.

Lemma illegal_in_check : forall m, In m (pseudoLegalMoves p) -> inCheck p = true ->
  mfrom m <> ks -> Z.of_N (mto m) <> epSquare p ->
  N.testbit (N.lor (rookAttacks ks occ) (bishopAttacks ks occ)) (mto m) = false ->
  (is_piece (negb w) Knight (getPiece p (mto m)) = true -> step_rel knight_offsets ks (mto m) = false) ->
  legal_specb (abs p) m = false.
Proof.
  intros m Hm Hc H1 H3 Hvis Hkn.
  destruct (legal_specb (abs p) m) eqn:E; [|reflexivity]. exfalso.
  apply legal_specb_spec in E. apply (safe_iff_legal zk EKZ p HWF HC m Hm) in E. fold w in E.
  rewrite (in_check_after m Hm H1 H3) in E.
  rewrite (attack_persists m Hm H1 H3 Hvis Hkn) in E; [discriminate|].
  pose proof in_check_now as Hi. unfold kf0, kr0 in Hi. rewrite <- Hi. exact Hc.
Qed.

(** positions that differ only in the dead pieceTypeBB[EMPTY] entry are interchangeable *)
Lemma normEmpty_transfer : forall pos, normEmpty pos = normEmpty p ->
  WF pos /\ Consistent zk pos /\ abs pos = abs p /\
  (forall m, In m (pseudoLegalMoves p) -> In m (pseudoLegalMoves pos)).
Proof.
  intros pos Hn.
  assert (Hlen : length (pieceTypeBB pos) = length (pieceTypeBB p)).
  { pose proof (f_equal pieceTypeBB Hn) as Hn2. unfold normEmpty, set_pieceTypeBB in Hn2. cbn [pieceTypeBB] in Hn2.
    apply (f_equal (@length N)) in Hn2. rewrite !length_updN in Hn2. exact Hn2. }
  destruct (normEmpty_fields _ _ Hn) as (Es & Ebb & Ew & Eb & Ewm & Eh & Ef & Ecm & Eep & Ehk & Eph & Emi & Ewm1 & Ebm & Ewp & Ebp).
  assert (Habs : abs pos = abs p) by (unfold abs; rewrite Es, Ewm, Ecm, Eep; reflexivity).
  assert (HWFpos : WF pos).
  { unfold WF, wfb. rewrite Habs. pose proof HWF as Hw0. unfold WF, wfb in Hw0. apply andb_true_iff in Hw0. destruct Hw0 as [H1 H2].
    rewrite H2, andb_true_r. unfold bbConsistentb in *. rewrite Es, Hlen, Ew, Eb.
    rewrite !andb_true_iff in H1. destruct H1 as [[[[A1 A2] A3] A4] A5]. rewrite A1, A2, A4, A5. cbn [andb]. rewrite !andb_true_r.
    rewrite forallb_forall in A3. apply forallb_forall. intros pc Hpc. rewrite (Ebb pc); [apply A3; exact Hpc|].
    unfold pieceCodes in Hpc. cbn in Hpc. lia. }
  assert (HCpos : Consistent zk pos).
  { destruct HC. constructor; try congruence.
    - intros pc Hpc. rewrite (Ebb pc) by lia. rewrite Es. apply c_bb. exact Hpc.
    - unfold hashOf in *. rewrite Ehk, Es, Ewm, Ecm, Eep. exact c_hash. }
  split; [exact HWFpos|]. split; [exact HCpos|]. split; [exact Habs|].
  intros m Hm. apply (pseudoLegalMoves_spec pos m HWFpos). rewrite Habs. apply (pseudoLegalMoves_spec p m HWF). exact Hm.
Qed.

(** removeIllegal = filter by the Spec's legality, on any list of pseudo-legal moves *)
Theorem removeIllegal_filter : forall ml, (forall m, In m ml -> In m (pseudoLegalMoves p)) ->
  snd (removeIllegal zk p ml) = filter (legal_specb (abs p)) ml /\
  normEmpty (fst (removeIllegal zk p ml)) = normEmpty p.
Proof.
  intros ml Hml. unfold removeIllegal. cbv zeta. fold w. fold ks. fold occ.
  assert (Hstep : forall (cond : move -> bool) (verdict : bool),
            (forall m, In m (pseudoLegalMoves p) -> cond m = true -> legal_specb (abs p) m = verdict) ->
            forall l pos out, normEmpty pos = normEmpty p -> (forall m, In m l -> In m (pseudoLegalMoves p)) ->
            let r := fold_left (fun (st : position * moveList) m =>
                        let '(pos, out) := st in
                        if cond m then (pos, if verdict then out ++ [m] else out)
                        else let '(pos, legal) := tryMove zk pos m in (pos, if legal then out ++ [m] else out)) l (pos, out) in
            snd r = out ++ filter (legal_specb (abs p)) l /\ normEmpty (fst r) = normEmpty p).
  { intros cond verdict Hcond. induction l as [|m l IH]; intros pos out Hn Hl; cbv zeta.
    - cbn [fold_left filter fst snd]. rewrite app_nil_r. auto.
    - cbn [fold_left filter]. assert (Hm : In m (pseudoLegalMoves p)) by (apply Hl; left; reflexivity).
      assert (Hl' : forall m', In m' l -> In m' (pseudoLegalMoves p)) by (intros m' Hin; apply Hl; right; exact Hin).
      destruct (cond m) eqn:Ec.
      + rewrite (Hcond m Hm Ec). destruct (IH pos (if verdict then out ++ [m] else out) Hn Hl') as [I1 I2].
        split; [|exact I2]. etransitivity; [exact I1|]. destruct verdict; [rewrite <- app_assoc; reflexivity | reflexivity].
      + destruct (normEmpty_transfer pos Hn) as (HWp & HCp & Habs & Hps).
        destruct (tryMove_legal zk EKZ pos HWp HCp m (Hps m Hm)) as [Hv Hr]. rewrite Habs in Hv.
        destruct (tryMove zk pos m) as [pos' legal] eqn:Et. cbn [fst snd] in Hv, Hr.
        assert (Hn' : normEmpty pos' = normEmpty p) by congruence.
        destruct (IH pos' (if legal then out ++ [m] else out) Hn' Hl') as [I1 I2].
        split; [|exact I2]. etransitivity; [exact I1|].
        destruct legal.
        * replace (legal_specb (abs p) m) with true by (symmetry; apply legal_specb_spec, Hv; reflexivity).
          rewrite <- app_assoc. reflexivity.
        * replace (legal_specb (abs p) m) with false; [reflexivity|].
          symmetry. destruct (legal_specb (abs p) m) eqn:El; [|reflexivity].
          apply legal_specb_spec in El. apply Hv in El. discriminate. }
  destruct (inCheck p) eqn:Ec.
  - pose proof (Hstep (fun m => negb (mfrom m =? ks)
                 && (N.land (N.lor (N.lor (rookAttacks ks occ) (bishopAttacks ks occ)) (ptBB p (if w then BKNIGHT else WKNIGHT))) (bit (mto m)) =? 0)
                 && negb (Z.of_N (mto m) =? epSquare p)%Z) false
                (fun m Hm Hcm => shortcut_illegal m Hm Ec Hcm) ml p [] eq_refl Hml) as H.
    cbv zeta in H. cbn [app] in H. exact H.
  - pose proof (Hstep (fun m => negb (mfrom m =? ks)
                 && (N.land (N.lor (rookAttacks ks occ) (bishopAttacks ks occ)) (bit (mfrom m)) =? 0)
                 && negb (Z.of_N (mto m) =? epSquare p)%Z) true
                (fun m Hm Hcm => shortcut_legal m Hm Ec Hcm) ml p [] eq_refl Hml) as H.
    cbv zeta in H. cbn [app] in H. exact H.
Qed.
End Shortcut.

(** * C01_legal_exact (membership and restoration) and the shortcut statement *)
Theorem legal_exact : forall zk p, emptyKeysZero zk -> WF p -> Consistent zk p ->
  let r := removeIllegal zk p (pseudoLegalMoves p) in
  (forall m, In m (snd r) <-> legal_spec (abs p) m) /\
  snd r = filter (legal_specb (abs p)) (pseudoLegalMoves p) /\
  normEmpty (fst r) = normEmpty p.
Proof.
  intros zk p E H C. cbv zeta.
  destruct (removeIllegal_filter zk E p H C (pseudoLegalMoves p) (fun m Hm => Hm)) as [H1 H2].
  split; [|split; assumption]. intro m. rewrite H1, filter_In. split.
  - intros [_ Hl]. apply legal_specb_spec. exact Hl.
  - intro Hl. split; [apply (pseudo_exact_all p m H); exact Hl | apply legal_specb_spec; exact Hl].
Qed.

Theorem shortcut_sound : forall zk p, emptyKeysZero zk -> WF p -> Consistent zk p ->
  snd (removeIllegal zk p (pseudoLegalMoves p)) = filter (fun m => snd (tryMove zk p m)) (pseudoLegalMoves p).
Proof.
  intros zk p E H C. destruct (legal_exact zk p E H C) as (_ & H1 & _). cbv zeta in H1. rewrite H1.
  apply filter_ext_in. intros m Hm.
  destruct (tryMove_legal zk E p H C m Hm) as [Hv _].
  destruct (snd (tryMove zk p m)) eqn:Et.
  - apply legal_specb_spec. apply Hv. reflexivity.
  - destruct (legal_specb (abs p) m) eqn:El; [|reflexivity].
    apply legal_specb_spec in El. apply Hv in El. discriminate.
Qed.

(** the filtered sub-lists: removeIllegal on any generator output that consists of pseudo-legal
    moves keeps exactly its legal moves *)
Theorem removeIllegal_sublist : forall zk p ml, emptyKeysZero zk -> WF p -> Consistent zk p ->
  (forall m, In m ml -> In m (pseudoLegalMoves p)) ->
  (forall m, In m (snd (removeIllegal zk p ml)) <-> In m ml /\ legal_spec (abs p) m) /\
  normEmpty (fst (removeIllegal zk p ml)) = normEmpty p.
Proof.
  intros zk p ml E H C Hml. destruct (removeIllegal_filter zk E p H C ml Hml) as [H1 H2]. split; [|exact H2].
  intro m. rewrite H1, filter_In. split; intros [A B]; (split; [exact A | apply legal_specb_spec; exact B]).
Qed.

(** non-vacuity of the hypotheses of C01_legal_exact / C01_tryMove: the start position with its
    material fields filled in is well-formed and consistent (for the all-zero key tables, which
    satisfy the EMPTY-row-zero hypothesis), and removeIllegal yields its 20 legal moves *)
Definition startC : position :=
  let q := startPosition in
  set_bMtrlPawns (set_wMtrlPawns (set_bMtrl (set_wMtrl (set_matId q (matIdOf (squares q)))
    (mtrlOf isWhitePiece (squares q) - kV)%Z) (mtrlOf isBlackPiece (squares q) - kV)%Z)
    (mtrlOf (N.eqb WPAWN) (squares q))) (mtrlOf (N.eqb BPAWN) (squares q)).

Example legal_exact_start :
  emptyKeysZero zkDummy /\ WF startC /\ Consistent zkDummy startC /\
  length (snd (removeIllegal zkDummy startC (pseudoLegalMoves startC))) = 20%nat.
Proof.
  split; [intro sq; unfold psKey, zkDummy; cbn; destruct (N.to_nat sq); reflexivity|].
  split; [vm_compute; reflexivity|]. split.
  - constructor.
    1, 2: reflexivity.
    1: repeat constructor.
    2-10: vm_compute; reflexivity.
    intros pc Hpc. assert (pc = 1 \/ pc = 2 \/ pc = 3 \/ pc = 4 \/ pc = 5 \/ pc = 6 \/ pc = 7 \/ pc = 8 \/ pc = 9 \/ pc = 10 \/ pc = 11 \/ pc = 12) as D by lia.
      destruct D as [->|[->|[->|[->|[->|[->|[->|[->|[->|[->|[->| ->]]]]]]]]]]]; vm_compute; reflexivity.
  - vm_compute. reflexivity.
Qed.
