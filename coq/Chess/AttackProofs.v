(** sqAttacked (bitboard attack test of the engine) = attacked_by (mailbox Spec) on every
    square of every well-formed position; hence inCheck = in_checkb.
    Step pieces go through the table theorems, sliders through the cut-ray form of
    rookAttacks/bishopAttacks (RayProofs) and a walk-by-walk comparison with the Spec's
    ray_first. *)
From Coq Require Import ZArith NArith List Bool Lia.
From Texel Require Import Chess.Types Chess.Position Chess.BitBoard Chess.MoveGen Chess.Spec Chess.MoveGenWF
  Chess.BitBoardProofs Chess.RayProofs Chess.MoveGenProofs gen.BitBoardTables.
Import ListNotations.
Local Open Scope N_scope.

(** * Small facts *)
Lemma nz_exists : forall x, nz x = true <-> exists k, N.testbit x k = true.
Proof.
  intro x. unfold nz. rewrite negb_true_iff, N.eqb_neq. split.
  - intro H. destruct (N.eq_dec x 0) as [|Hz]; [contradiction|]. exists (N.log2 x). apply N.bit_log2. exact Hz.
  - intros [k Hk] ->. rewrite N.bits_0 in Hk. discriminate.
Qed.

Lemma zX_zf : forall s, zX s = zf s.
Proof. intro s. unfold zX, zf, sqX. rewrite N2Z.inj_mod; reflexivity. Qed.
Lemma zY_zr : forall s, zY s = zr s.
Proof. intro s. unfold zY, zr, sqY. rewrite N2Z.inj_div; reflexivity. Qed.

Lemma pieceCodes_nonzero : forall pc, In pc pieceCodes -> pc <> EMPTY.
Proof. intros pc H. unfold pieceCodes in H. cbn in H. unfold EMPTY. intuition lia. Qed.

Lemma at_off_board : forall b f r, on_board f r = false -> at_ b f r = EMPTY.
Proof. intros. unfold at_. rewrite H. reflexivity. Qed.

Lemma occupied_testbit_B : forall p k, BoardOK p ->
  N.testbit (occupiedBB p) k = (k <? 64) && negb (getPiece p k =? EMPTY).
Proof.
  intros p k H. unfold occupiedBB. rewrite N.lor_spec.
  change (whiteBB p) with (colorBB p true). change (blackBB p) with (colorBB p false).
  rewrite !(BoardOK_color p _ k H). pose proof (BoardOK_le12 p k H) as Hle.
  destruct (k <? 64); [|reflexivity]. cbn [andb].
  destruct (le12_cases _ Hle) as [E|[E|[E|[E|[E|[E|[E|[E|[E|[E|[E|[E|E]]]]]]]]]]]]; rewrite E; reflexivity.
Qed.

(** * Step attackers *)
Section StepAttack.
Variable p : position.
Variable tbl : square -> N.
Variable offs : list (Z * Z).
Hypothesis HWF : BoardOK p.
Hypothesis tbl_spec : forall s, s < 64 ->
  tbl s < 2 ^ 64 /\ forall t, t < 64 -> N.testbit (tbl s) t = step_rel offs s t.

Lemma step_attack_bridge : forall s pc, s < 64 -> In pc pieceCodes ->
  nz (N.land (tbl s) (ptBB p pc)) =
  existsb (fun d => at_ (squares p) (zf s + fst d) (zr s + snd d) =? pc) offs.
Proof.
  intros s pc Hs Hpc. destruct (tbl_spec s Hs) as [Hlt Htb].
  apply eq_true_iff_eq. rewrite nz_exists, existsb_exists. split.
  - intros [k Hk]. rewrite N.land_spec in Hk. apply andb_true_iff in Hk. destruct Hk as [H1 H2].
    pose proof (bits_below_64 _ Hlt k H1) as Hk64. rewrite (Htb k Hk64) in H1.
    unfold step_rel in H1. apply existsb_exists in H1. destruct H1 as [d [Hd He]].
    apply andb_true_iff in He. destruct He as [He1 He2]. apply Z.eqb_eq in He1, He2.
    exists d. split; [exact Hd|]. rewrite <- He1, <- He2. rewrite <- (getPiece_at p k Hk64).
    rewrite (BoardOK_ptBB p pc k HWF Hpc) in H2. apply andb_true_iff in H2. apply H2.
  - intros [d [Hd He]]. apply N.eqb_eq in He.
    destruct (on_board (zf s + fst d) (zr s + snd d)) eqn:Hob.
    + destruct (sq_of_coords _ _ Hob) as [Hk64 [Hf [Hr _]]].
      exists (sq_of (zf s + fst d) (zr s + snd d)). rewrite N.land_spec. apply andb_true_iff. split.
      * rewrite (Htb _ Hk64). unfold step_rel. apply existsb_exists. exists d. split; [exact Hd|].
        rewrite Hf, Hr, !Z.eqb_refl. reflexivity.
      * rewrite (BoardOK_ptBB p pc _ HWF Hpc). apply andb_true_iff. split; [apply N.ltb_lt; exact Hk64|].
        apply N.eqb_eq. rewrite <- (at_getPiece p _ _ Hob). exact He.
    + rewrite (at_off_board _ _ _ Hob) in He. symmetry in He. apply pieceCodes_nonzero in He; [contradiction | exact Hpc].
Qed.
End StepAttack.

(** * Slider attackers *)
Fixpoint firstHit (occ : N) (l : list square) : option square :=
  match l with
  | [] => None
  | x :: t => if occb occ x then Some x else firstHit occ t
  end.

Lemma cutAt_firstHit : forall occ (Q : square -> Prop) l,
  (forall t, Q t -> occb occ t = true) ->
  ((exists t, In t (cutAt occ l) /\ Q t) <-> (exists t, firstHit occ l = Some t /\ Q t)).
Proof.
  intros occ Q l HQ. induction l as [|x l IH]; cbn [cutAt firstHit].
  - split; intros [t [H _]]; [destruct H | discriminate].
  - destruct (occb occ x) eqn:E.
    + split.
      * intros [t [[<-|[]] Hq]]. exists x. auto.
      * intros [t [Ht Hq]]. injection Ht as <-. exists x. split; [left; reflexivity | exact Hq].
    + split.
      * intros [t [[<-|Hin] Hq]]; [apply HQ in Hq; congruence|]. apply IH. exists t. auto.
      * intros H. apply IH in H. destruct H as [t [Hin Hq]]. exists t. split; [right; exact Hin | exact Hq].
Qed.

(** the Spec's ray walk and the engine's ray list visit the same squares *)
Lemma ray_first_firstHit : forall p, BoardOK p -> forall k x y dx dy,
  on_board x y = true -> In (dx, dy) (rook_dirs ++ bishop_dirs) ->
  ray_first (squares p) k x y dx dy =
  match firstHit (occupiedBB p) (rayList k x y dx dy false) with
  | Some t => getPiece p t
  | None => EMPTY
  end.
Proof.
  intros p H. induction k as [|k IH]; intros x y dx dy Hob Hd; [reflexivity|].
  cbn [ray_first rayList].
  assert (Hdxy : (dx = 0 \/ dx = 1 \/ dx = -1)%Z /\ (dy = 0 \/ dy = 1 \/ dy = -1)%Z).
  { cbn in Hd. intuition (try congruence); match goal with E : (_, _) = (_, _) |- _ => injection E; intros; subst; auto end. }
  unfold on_board in Hob. rewrite !andb_true_iff, !Z.leb_le in Hob.
  set (x' := (if (dx =? 0)%Z then x else (x + dx)%Z)). set (y' := (if (dy =? 0)%Z then y else (y + dy)%Z)).
  assert (Ex : x' = (x + dx)%Z) by (subst x'; destruct (Z.eqb_spec dx 0); lia).
  assert (Ey : y' = (y + dy)%Z) by (subst y'; destruct (Z.eqb_spec dy 0); lia).
  assert (Hb1 : negb (dx =? 0)%Z && ((x' <? 0)%Z || (x' >? 7)%Z) = negb ((0 <=? x + dx)%Z && (x + dx <=? 7)%Z)).
  { rewrite Ex. destruct (Z.eqb_spec dx 0), (Z.ltb_spec (x + dx) 0), (Z.leb_spec 0 (x + dx)), (Z.leb_spec (x + dx) 7);
      rewrite ?Z.gtb_ltb; try destruct (Z.ltb_spec 7 (x + dx)); cbn; try reflexivity; lia. }
  assert (Hb2 : negb (dy =? 0)%Z && ((y' <? 0)%Z || (y' >? 7)%Z) = negb ((0 <=? y + dy)%Z && (y + dy <=? 7)%Z)).
  { rewrite Ey. destruct (Z.eqb_spec dy 0), (Z.ltb_spec (y + dy) 0), (Z.leb_spec 0 (y + dy)), (Z.leb_spec (y + dy) 7);
      rewrite ?Z.gtb_ltb; try destruct (Z.ltb_spec 7 (y + dy)); cbn; try reflexivity; lia. }
  rewrite Hb1, Hb2. unfold on_board at 1.
  destruct ((0 <=? x + dx)%Z && (x + dx <=? 7)%Z) eqn:E1; cbn [negb andb]; [|reflexivity].
  destruct ((0 <=? y + dy)%Z && (y + dy <=? 7)%Z) eqn:E2; cbn [negb andb].
  2:{ reflexivity. }
  assert (Hob' : on_board (x + dx) (y + dy) = true).
  { unfold on_board. rewrite andb_true_iff in E1, E2. destruct E1 as [-> ->], E2 as [-> ->]. reflexivity. }
  replace ((0 <=? x + dx)%Z && (x + dx <=? 7)%Z && (0 <=? y + dy)%Z && (y + dy <=? 7)%Z) with true
    by (symmetry; exact Hob').
  rewrite Ex, Ey. fold (sq_of (x + dx) (y + dy)). cbn [firstHit].
  destruct (sq_of_coords _ _ Hob') as [Hs64 _].
  rewrite occb_testbit, (occupied_testbit_B p _ H).
  replace (sq_of (x + dx) (y + dy) <? 64) with true by (symmetry; apply N.ltb_lt; exact Hs64). cbn [andb].
  rewrite (at_getPiece p _ _ Hob').
  destruct (getPiece p (sq_of (x + dx) (y + dy)) =? EMPTY); cbn [negb]; [|reflexivity].
  apply IH; assumption.
Qed.

Definition allDirs : list (Z * Z) := rook_dirs ++ bishop_dirs.
Definition list_eqb (a b : list square) : bool :=
  (length a =? length b)%nat && forallb (fun xy => fst xy =? snd xy) (combine a b).
Lemma list_eqb_eq : forall a b, list_eqb a b = true -> a = b.
Proof.
  induction a as [|x a IH]; intros [|y b] H; unfold list_eqb in H; cbn in H; try discriminate; [reflexivity|].
  rewrite !andb_true_iff in H. destruct H as [Hl [Hx Hr]]. apply N.eqb_eq in Hx. subst y. f_equal.
  apply IH. unfold list_eqb. rewrite Hl, Hr. reflexivity.
Qed.

(** fuel 7 (Spec) and fuel 8 (model) give the same ray from every board square *)
Lemma ray_fuel_ok : forallb (fun s => forallb (fun d =>
    list_eqb (ray s d) (rayList 7 (zf s) (zr s) (fst d) (snd d) false)) allDirs) allSquares = true.
Proof. vm_compute. reflexivity. Qed.

Lemma ray_fuel : forall s d, s < 64 -> In d allDirs -> ray s d = rayList 7 (zf s) (zr s) (fst d) (snd d) false.
Proof.
  intros s d Hs Hd. pose proof (sweep1 _ ray_fuel_ok s Hs) as H. rewrite forallb_forall in H.
  apply list_eqb_eq. apply H. exact Hd.
Qed.

Section SliderAttack.
Variable p : position.
Hypothesis HWF : BoardOK p.

Lemma slider_attack_bridge : forall (atk : square -> N -> N) (dirs : list (Z * Z)) (d1 d2 d3 d4 : Z * Z) pcA pcB s,
  dirs = [d1; d2; d3; d4] -> incl dirs allDirs ->
  (forall occ, atk s occ = lorBits 0 (cutAt occ (ray s d1) ++ cutAt occ (ray s d2) ++ cutAt occ (ray s d3) ++ cutAt occ (ray s d4))) ->
  s < 64 -> In pcA pieceCodes -> In pcB pieceCodes ->
  nz (N.land (atk s (occupiedBB p)) (N.lor (ptBB p pcA) (ptBB p pcB))) =
  existsb (fun d => let pc := ray_first (squares p) 7 (zf s) (zr s) (fst d) (snd d) in (pc =? pcA) || (pc =? pcB)) dirs.
Proof.
  intros atk dirs d1 d2 d3 d4 pcA pcB s Edirs Hincl Hatk Hs HA HB.
  set (occ := occupiedBB p).
  set (Q := fun t => t < 64 /\ (getPiece p t = pcA \/ getPiece p t = pcB)).
  assert (HQocc : forall t, Q t -> occb occ t = true).
  { intros t [Ht Hp]. rewrite occb_testbit. unfold occ. rewrite (occupied_testbit_B p t HWF).
    apply andb_true_iff. split; [apply N.ltb_lt; exact Ht|]. apply negb_true_iff, N.eqb_neq.
    destruct Hp as [E|E]; rewrite E; apply pieceCodes_nonzero; assumption. }
  assert (HbbQ : forall t, N.testbit (N.lor (ptBB p pcA) (ptBB p pcB)) t = true <-> Q t).
  { intro t. rewrite N.lor_spec, (BoardOK_ptBB p pcA t HWF HA), (BoardOK_ptBB p pcB t HWF HB). unfold Q.
    destruct (N.ltb_spec t 64); cbn [andb]; rewrite ?orb_true_iff, ?N.eqb_eq; intuition (try lia; try discriminate). }
  destruct (coords_of_sq s Hs) as [Hob _].
  apply eq_true_iff_eq. rewrite nz_exists, existsb_exists. split.
  - intros [t Ht]. rewrite N.land_spec in Ht. apply andb_true_iff in Ht. destruct Ht as [Ht1 Ht2].
    rewrite Hatk, lorBits_testbit, N.bits_0 in Ht1. cbn [orb] in Ht1. rewrite existsb_eqb_In in Ht1.
    rewrite (in_four (fun d => cutAt occ (ray s d))) in Ht1. destruct Ht1 as [d [Hd Hin]].
    apply HbbQ in Ht2.
    assert (Hex : exists t, In t (cutAt occ (ray s d)) /\ Q t) by (exists t; auto).
    apply (cutAt_firstHit occ Q _ HQocc) in Hex. destruct Hex as [t' [Hf Hq]].
    assert (Hd' : In d dirs) by (rewrite Edirs; exact Hd).
    exists d. split; [exact Hd'|]. cbv zeta.
    rewrite (ray_first_firstHit p HWF 7 _ _ _ _ Hob) by (rewrite <- surjective_pairing; apply Hincl; exact Hd').
    rewrite <- (ray_fuel s d Hs (Hincl d Hd')). fold occ. rewrite Hf.
    destruct Hq as [_ [E|E]]; rewrite E, N.eqb_refl; [reflexivity | apply orb_true_r].
  - intros [d [Hd He]]. cbv zeta in He.
    rewrite (ray_first_firstHit p HWF 7 _ _ _ _ Hob) in He by (rewrite <- surjective_pairing; apply Hincl; exact Hd).
    rewrite <- (ray_fuel s d Hs (Hincl d Hd)) in He. fold occ in He.
    destruct (firstHit occ (ray s d)) as [t|] eqn:Ef.
    + assert (Hex : exists t, firstHit occ (ray s d) = Some t /\ Q t).
      { exists t. split; [exact Ef|]. unfold Q.
        assert (Ht64 : t < 64).
        { assert (Hin : In t (ray s d)).
          { clear -Ef. induction (ray s d) as [|x l IH]; cbn [firstHit] in Ef; [discriminate|].
            destruct (occb occ x); [injection Ef as <-; left; reflexivity | right; apply IH, Ef]. }
          destruct (in_app_or _ _ _ (Hincl d Hd)) as [Hr|Hb].
          - exact (ray_lt64 rook_dirs rookAligned rookRay_ok s d t Hs Hr Hin).
          - exact (ray_lt64 bishop_dirs bishopAligned bishopRay_ok s d t Hs Hb Hin). }
        split; [exact Ht64|]. rewrite orb_true_iff, !N.eqb_eq in He. exact He. }
      apply (cutAt_firstHit occ Q _ HQocc) in Hex. destruct Hex as [t' [Hin Hq]].
      exists t'. rewrite N.land_spec. apply andb_true_iff. split; [|apply HbbQ; exact Hq].
      rewrite Hatk, lorBits_testbit, N.bits_0. cbn [orb]. rewrite existsb_eqb_In.
      rewrite (in_four (fun d => cutAt occ (ray s d))). exists d. split; [rewrite <- Edirs; exact Hd | exact Hin].
    + exfalso. rewrite orb_true_iff, !N.eqb_eq in He.
      destruct He as [E|E]; symmetry in E; apply pieceCodes_nonzero in E; assumption.
Qed.
End SliderAttack.

(** * sqAttacked = attacked_by *)
Lemma is_piece_eqb : forall w k x, is_piece w k x = (x =? mk_piece w k).
Proof. reflexivity. Qed.

Theorem sqAttacked_spec_B : forall p wtm sq, BoardOK p -> sq < 64 ->
  sqAttackedT wtm p sq (occupiedBB p) = attacked_by (squares p) (negb wtm) (zf sq) (zr sq).
Proof.
  intros p wtm sq H Hs. unfold sqAttackedT, attacked_by.
  set (a := negb wtm).
  assert (EN : myPiece a WKNIGHT = mk_piece a Knight) by (destruct a; reflexivity).
  assert (EK : myPiece a WKING = mk_piece a King) by (destruct a; reflexivity).
  assert (EP : myPiece a WPAWN = mk_piece a Pawn) by (destruct a; reflexivity).
  assert (EQ : myPiece a WQUEEN = mk_piece a Queen) by (destruct a; reflexivity).
  assert (ER : myPiece a WROOK = mk_piece a Rook) by (destruct a; reflexivity).
  assert (EB : myPiece a WBISHOP = mk_piece a Bishop) by (destruct a; reflexivity).
  assert (Hc : forall k, In (mk_piece a k) pieceCodes) by (intro k; destruct a, k; cbn; tauto).
  rewrite EN, EK, EP, EQ, ER, EB.
  rewrite (step_attack_bridge p knightAttacks knight_offsets H knightAttacks_spec sq _ Hs (Hc Knight)).
  rewrite (step_attack_bridge p kingAttacks king_offsets H kingAttacks_spec sq _ Hs (Hc King)).
  rewrite (slider_attack_bridge p H bishopAttacks bishop_dirs (1, 1)%Z (-1, -1)%Z (1, -1)%Z (-1, 1)%Z
             (mk_piece a Bishop) (mk_piece a Queen) sq eq_refl) by
    (try apply bishopAttacks_rays; try assumption; try apply Hc; unfold allDirs; apply incl_appr, incl_refl).
  rewrite (slider_attack_bridge p H rookAttacks rook_dirs (1, 0)%Z (-1, 0)%Z (0, 1)%Z (0, -1)%Z
             (mk_piece a Rook) (mk_piece a Queen) sq eq_refl) by
    (try apply rookAttacks_rays; try assumption; try apply Hc; unfold allDirs; apply incl_appl, incl_refl).
  assert (Hpawn : (if wtm then nz (N.land (wPawnAttacks sq) (ptBB p (mk_piece a Pawn)))
                   else nz (N.land (bPawnAttacks sq) (ptBB p (mk_piece a Pawn)))) =
                  (is_piece a Pawn (at_ (squares p) (zf sq - 1) (if a then zr sq - 1 else zr sq + 1))
                   || is_piece a Pawn (at_ (squares p) (zf sq + 1) (if a then zr sq - 1 else zr sq + 1)))%Z).
  { subst a. destruct wtm; cbn [negb] in *.
    - rewrite (step_attack_bridge p wPawnAttacks wpawn_offsets H wPawnAttacks_spec sq _ Hs (Hc Pawn)).
      cbn [existsb wpawn_offsets fst snd]. rewrite orb_false_r, !is_piece_eqb.
      replace (zf sq + -1)%Z with (zf sq - 1)%Z by lia. reflexivity.
    - rewrite (step_attack_bridge p bPawnAttacks bpawn_offsets H bPawnAttacks_spec sq _ Hs (Hc Pawn)).
      cbn [existsb bpawn_offsets fst snd]. rewrite orb_false_r, !is_piece_eqb.
      replace (zf sq + -1)%Z with (zf sq - 1)%Z by lia. replace (zr sq + -1)%Z with (zr sq - 1)%Z by lia. reflexivity. }
  rewrite Hpawn. clear Hpawn.
  (* both sides are now "or"s of the same five tests *)
  cbv zeta. unfold is_piece.
  match goal with |- context [existsb ?f knight_offsets] => set (tN := existsb f knight_offsets) end.
  match goal with |- context [existsb ?f king_offsets] => set (tK := existsb f king_offsets) end.
  match goal with |- context [existsb ?f bishop_dirs] => set (tB := existsb f bishop_dirs) end.
  match goal with |- context [existsb ?f rook_dirs] => set (tR := existsb f rook_dirs) end.
  match goal with |- context [if ?c || ?d then true else _] => set (tP := c || d) end.
  destruct tN, tK, tP, tB, tR; reflexivity.
Qed.

Lemma occupied_testbit : forall p k, WF p ->
  N.testbit (occupiedBB p) k = (k <? 64) && negb (getPiece p k =? EMPTY).
Proof. intros p k H. apply occupied_testbit_B, WF_BoardOK, H. Qed.

Theorem sqAttacked_spec : forall p wtm sq, WF p -> sq < 64 ->
  sqAttackedT wtm p sq (occupiedBB p) = attacked_by (squares p) (negb wtm) (zf sq) (zr sq).
Proof. intros p wtm sq H Hs. apply sqAttacked_spec_B; [apply WF_BoardOK, H | exact Hs]. Qed.

(** * inCheck = in_checkb *)
Lemma all_coords_ok : forallb (fun c => on_board (fst c) (snd c)) all_coords = true
                      /\ forallb (fun s => existsb (fun c => (fst c =? zf s)%Z && (snd c =? zr s)%Z) all_coords) allSquares = true.
Proof. split; vm_compute; reflexivity. Qed.

(** for any colour w with exactly one king on a BoardOK board *)
Theorem kingAttacked_spec_B : forall p w, BoardOK p ->
  (exists s, s < 64 /\ getPiece p s = mk_piece w King) ->
  (forall s1 s2, s1 < 64 -> s2 < 64 -> getPiece p s1 = mk_piece w King -> getPiece p s2 = mk_piece w King -> s1 = s2) ->
  sqAttackedT w p (kingSq p w) (occupiedBB p) = in_checkb (squares p) w.
Proof.
  intros p w H Hex Huniq. unfold in_checkb.
  destruct (kingSq_spec_B p w H Hex) as [Hk64 Hkp].
  assert (Hfind : find_king (squares p) w = Some (zf (kingSq p w), zr (kingSq p w))).
  { unfold find_king. destruct (find _ all_coords) as [[f r]|] eqn:Ef.
    - apply find_some in Ef. destruct Ef as [Hin Hk]. cbn [fst snd] in Hk.
      destruct all_coords_ok as [Hob _]. rewrite forallb_forall in Hob. specialize (Hob _ Hin). cbn [fst snd] in Hob.
      destruct (sq_of_coords f r Hob) as [Hs [Hf [Hr _]]].
      rewrite is_piece_eqb in Hk. apply N.eqb_eq in Hk. rewrite (at_getPiece p f r Hob) in Hk.
      rewrite <- (Huniq _ _ Hs Hk64 Hk Hkp). rewrite Hf, Hr. reflexivity.
    - exfalso. destruct all_coords_ok as [_ Hall]. pose proof (sweep1 _ Hall _ Hk64) as Hex'.
      apply existsb_exists in Hex'. destruct Hex' as [[f r] [Hin He]]. cbn [fst snd] in He.
      apply andb_true_iff in He. destruct He as [He1 He2]. apply Z.eqb_eq in He1, He2. subst f r.
      pose proof (find_none _ _ Ef _ Hin) as Hn. cbn [fst snd] in Hn.
      rewrite is_piece_eqb, <- (getPiece_at p _ Hk64), Hkp, N.eqb_refl in Hn. discriminate. }
  rewrite Hfind. apply sqAttacked_spec_B; assumption.
Qed.

Theorem inCheck_spec : forall p, WF p -> inCheck p = in_checkb (squares p) (whiteMove p).
Proof.
  intros p H. unfold inCheck, sqAttacked, sqAttackedOcc, in_checkb. set (w := whiteMove p).
  destruct (kingSq_spec p w H) as [Hk64 Hkp].
  assert (Hfind : find_king (squares p) w = Some (zf (kingSq p w), zr (kingSq p w))).
  { unfold find_king. destruct (find _ all_coords) as [[f r]|] eqn:Ef.
    - apply find_some in Ef. destruct Ef as [Hin Hk]. cbn [fst snd] in Hk.
      destruct all_coords_ok as [Hob _]. rewrite forallb_forall in Hob. specialize (Hob _ Hin). cbn [fst snd] in Hob.
      destruct (sq_of_coords f r Hob) as [Hs [Hf [Hr _]]].
      rewrite is_piece_eqb in Hk. apply N.eqb_eq in Hk. rewrite (at_getPiece p f r Hob) in Hk.
      rewrite <- (king_unique p w _ _ H Hs Hk64 Hk Hkp). rewrite Hf, Hr. reflexivity.
    - exfalso. destruct all_coords_ok as [_ Hall]. pose proof (sweep1 _ Hall _ Hk64) as Hex.
      apply existsb_exists in Hex. destruct Hex as [[f r] [Hin He]]. cbn [fst snd] in He.
      apply andb_true_iff in He. destruct He as [He1 He2]. apply Z.eqb_eq in He1, He2. subst f r.
      pose proof (find_none _ _ Ef _ Hin) as Hn. cbn [fst snd] in Hn.
      rewrite is_piece_eqb, <- (getPiece_at p _ Hk64), Hkp, N.eqb_refl in Hn. discriminate. }
  rewrite Hfind. apply sqAttacked_spec; assumption.
Qed.

(** non-vacuity: the pinned en-passant position, black king not in check; after a rook check it is *)
Example inCheck_examples :
  inCheck epPinPosition = false /\ in_checkb (squares epPinPosition) false = false /\
  inCheck (positionOfBoard (Spec.upd 30 WROOK epPinBoard) false 0 (-1)) = true.
Proof. vm_compute. auto. Qed.
