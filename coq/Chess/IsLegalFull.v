(** C01_isLegal: the two branches of MoveGen::isLegal left open by IsLegalProofs -
    (a) king moves when the side to move is not in check (attack test on the target square
        with the king lifted from the occupancy; castling included),
    (b) the "moves along the king's line" exit for a piece that the king sees -
    and the full statement: for every move of any of the four generators, in every
    well-formed position (no assumption on hash / material fields), isLegal's verdict is the
    Spec's legality and the position is handed back unchanged. *)
From Coq Require Import ZArith NArith List Bool Lia.
From Texel Require Import Chess.Types Chess.Position Chess.PositionSpec Chess.PositionFacts Chess.PositionProofs
  Chess.PositionProofs2 Chess.PositionProofs4 Chess.PositionTheorems Chess.PositionB
  Chess.BitBoard Chess.MoveGen Chess.Spec Chess.MoveGenWF
  Chess.BitBoardProofs Chess.RayProofs Chess.MoveGenProofs Chess.AttackProofs Chess.SliderProofs Chess.PawnProofs
  Chess.PseudoProofs Chess.MakeSpecProofs Chess.TryMoveProofs Chess.CastleProofs Chess.LegalProofs Chess.ShortcutProofs
  Chess.IsLegalProofs Chess.CapturesProofs Chess.NoDupProofs Chess.WfProofs gen.BitBoardTables.
Import ListNotations.
Local Open Scope N_scope.

(** * Geometry of squaresBetween / getDirection (finite sweeps) *)
Definition SB := squaresBetween.

Definition G0P (a b : square) : bool :=
  let sb := SB a b in negb (N.testbit sb a) && negb (N.testbit sb b) && (SB b a =? sb)
  && Bool.eqb (rookAligned a b) (rookAligned b a) && Bool.eqb (bishopAligned a b) (bishopAligned b a).
Lemma G0_ok : forallb (fun a => forallb (G0P a) allSquares) allSquares = true.
Proof. vm_compute. reflexivity. Qed.

Definition G1P (ks y : square) : bool :=
  let sb := SB ks y in let d := getDirection ks y in
  forallb (fun f => if N.testbit sb f then (getDirection ks f =? d)%Z else true) allSquares.
Lemma G1_ok : forallb (fun a => forallb (G1P a) allSquares) allSquares = true.
Proof. vm_compute. reflexivity. Qed.

Definition G2P (ks y : square) : bool :=
  if rookAligned ks y || bishopAligned ks y then
    let sb := SB ks y in let d := getDirection ks y in
    forallb (fun t => if (getDirection ks t =? d)%Z then if (t =? y) then true else if N.testbit sb t then true else N.testbit (SB ks t) y else true) allSquares
  else true.
Lemma G2_ok : forallb (fun a => forallb (G2P a) allSquares) allSquares = true.
Proof. vm_compute. reflexivity. Qed.

Definition G3P (ks t : square) : bool :=
  let sbt := SB ks t in
  forallb (fun y => if N.testbit sbt y then
                      let sby := SB ks y in
                      forallb (fun f => if N.testbit sby f then N.testbit (SB f t) y else true) allSquares
                    else true) allSquares.
Lemma G3_ok : forallb (fun a => forallb (G3P a) allSquares) allSquares = true.
Proof. vm_compute. reflexivity. Qed.

Definition G4P (t y : square) : bool :=
  let ra := rookAligned t y in let ba := bishopAligned t y in
  if ra || ba then
    let sb := SB t y in
    forallb (fun s => if N.testbit sb s then
                        let sbs := SB s y in
                        Bool.eqb ra (rookAligned s y) && Bool.eqb ba (bishopAligned s y) && (N.ldiff sbs sb =? 0) && negb (N.testbit sbs s)
                      else true) allSquares
  else true.
Lemma G4_ok : forallb (fun a => forallb (G4P a) allSquares) allSquares = true.
Proof. vm_compute. reflexivity. Qed.

Lemma inner_sweep : forall (P : square -> bool) s, forallb P allSquares = true -> s < 64 -> P s = true.
Proof. intros P s H Hs. rewrite forallb_forall in H. apply H. apply sq_in_all. exact Hs. Qed.

Lemma G0 : forall a b, a < 64 -> b < 64 ->
  N.testbit (SB a b) a = false /\ N.testbit (SB a b) b = false /\ SB b a = SB a b /\
  rookAligned a b = rookAligned b a /\ bishopAligned a b = bishopAligned b a.
Proof.
  intros a b Ha Hb. pose proof (sweep2 G0P G0_ok a b Ha Hb) as H. unfold G0P in H. cbv zeta in H.
  rewrite !andb_true_iff, !negb_true_iff in H. destruct H as [[[[H1 H2] H3] H4] H5].
  apply N.eqb_eq in H3. apply eqb_prop in H4, H5. auto.
Qed.

Lemma G1 : forall ks y f, ks < 64 -> y < 64 -> f < 64 -> N.testbit (SB ks y) f = true ->
  getDirection ks f = getDirection ks y.
Proof.
  intros ks y f Hk Hy Hf Hb. pose proof (sweep2 G1P G1_ok ks y Hk Hy) as H. unfold G1P in H. cbv zeta in H.
  pose proof (inner_sweep _ f H Hf) as H'. cbv beta in H'. rewrite Hb in H'. apply Z.eqb_eq in H'. exact H'.
Qed.

Lemma G2 : forall ks y t, ks < 64 -> y < 64 -> t < 64 -> rookAligned ks y || bishopAligned ks y = true ->
  getDirection ks t = getDirection ks y -> t <> y -> N.testbit (SB ks y) t = false -> N.testbit (SB ks t) y = true.
Proof.
  intros ks y t Hk Hy Ht Hal Hd Hne Hb. pose proof (sweep2 G2P G2_ok ks y Hk Hy) as H. unfold G2P in H. rewrite Hal in H.
  cbv zeta in H. pose proof (inner_sweep _ t H Ht) as H'. cbv beta in H'.
  rewrite Hd, Z.eqb_refl, Hb in H'. replace (t =? y) with false in H' by (symmetry; apply N.eqb_neq; exact Hne). exact H'.
Qed.

Lemma G3 : forall ks t y f, ks < 64 -> t < 64 -> y < 64 -> f < 64 ->
  N.testbit (SB ks t) y = true -> N.testbit (SB ks y) f = true -> N.testbit (SB f t) y = true.
Proof.
  intros ks t y f Hk Ht Hy Hf H1 H2. pose proof (sweep2 G3P G3_ok ks t Hk Ht) as H. unfold G3P in H. cbv zeta in H.
  pose proof (inner_sweep _ y H Hy) as H'. cbv beta in H'. rewrite H1 in H'.
  pose proof (inner_sweep _ f H' Hf) as H''. cbv beta in H''. rewrite H2 in H''. exact H''.
Qed.

Lemma G4 : forall t y s, t < 64 -> y < 64 -> s < 64 -> rookAligned t y || bishopAligned t y = true ->
  N.testbit (SB t y) s = true ->
  rookAligned s y = rookAligned t y /\ bishopAligned s y = bishopAligned t y /\
  N.ldiff (SB s y) (SB t y) = 0 /\ N.testbit (SB s y) s = false.
Proof.
  intros t y s Ht Hy Hs Hal Hb. pose proof (sweep2 G4P G4_ok t y Ht Hy) as H. unfold G4P in H. cbv zeta in H. rewrite Hal in H.
  pose proof (inner_sweep _ s H Hs) as H'. cbv beta in H'. rewrite Hb in H'.
  rewrite !andb_true_iff, negb_true_iff in H'. destruct H' as [[[H1 H2] H3] H4].
  apply eqb_prop in H1, H2. apply N.eqb_eq in H3. auto.
Qed.

Lemma SB_lt64 : forall a b x, a < 64 -> b < 64 -> N.testbit (SB a b) x = true -> x < 64.
Proof. intros a b x Ha Hb H. destruct (squaresBetween_spec a b Ha Hb) as [Hlt _]. exact (bits_below_64 _ Hlt x H). Qed.

Lemma land_zero_iff : forall a o, N.land a o = 0 <-> forall x, N.testbit a x = true -> N.testbit o x = false.
Proof.
  intros a o. split.
  - intros H x Hx. assert (Hb : N.testbit (N.land a o) x = false) by (rewrite H; apply N.bits_0).
    rewrite N.land_spec, Hx in Hb. exact Hb.
  - intro H. apply N.bits_inj. intro x. rewrite N.land_spec, N.bits_0.
    destruct (N.testbit a x) eqn:E; [rewrite (H x E) | ]; reflexivity.
Qed.

(** * The attack test, as a disjunction over attackers *)
Lemma sqAttackedT_iff : forall w x s o, sqAttackedT w x s o = true <->
  (exists y, N.testbit (knightAttacks s) y = true /\ N.testbit (ptBB x (myPiece (negb w) WKNIGHT)) y = true) \/
  (exists y, N.testbit (kingAttacks s) y = true /\ N.testbit (ptBB x (myPiece (negb w) WKING)) y = true) \/
  (exists y, N.testbit (if w then wPawnAttacks s else bPawnAttacks s) y = true /\ N.testbit (ptBB x (myPiece (negb w) WPAWN)) y = true) \/
  (exists y, N.testbit (bishopAttacks s o) y = true /\
             (N.testbit (ptBB x (myPiece (negb w) WBISHOP)) y = true \/ N.testbit (ptBB x (myPiece (negb w) WQUEEN)) y = true)) \/
  (exists y, N.testbit (rookAttacks s o) y = true /\
             (N.testbit (ptBB x (myPiece (negb w) WROOK)) y = true \/ N.testbit (ptBB x (myPiece (negb w) WQUEEN)) y = true)).
Proof.
  intros w x s o. unfold sqAttackedT.
  assert (Hnz : forall a c, nz (N.land a c) = true <-> exists y, N.testbit a y = true /\ N.testbit c y = true).
  { intros a c. rewrite nz_exists. split; intros [y H]; exists y; rewrite N.land_spec in *; [apply andb_true_iff in H | apply andb_true_iff]; exact H. }
  assert (Hnz2 : forall a c e, nz (N.land a (N.lor c e)) = true <-> exists y, N.testbit a y = true /\ (N.testbit c y = true \/ N.testbit e y = true)).
  { intros a c e. rewrite Hnz. split; intros [y [H1 H2]]; exists y; (split; [exact H1|]); rewrite N.lor_spec in *; [apply orb_true_iff in H2 | apply orb_true_iff]; exact H2. }
  assert (Hp : nz (if w then N.land (wPawnAttacks s) (ptBB x (myPiece (negb w) WPAWN)) else N.land (bPawnAttacks s) (ptBB x (myPiece (negb w) WPAWN))) = true <->
               exists y, N.testbit (if w then wPawnAttacks s else bPawnAttacks s) y = true /\ N.testbit (ptBB x (myPiece (negb w) WPAWN)) y = true)
    by (destruct w; apply Hnz).
  assert (Hpe : (if w then nz (N.land (wPawnAttacks s) (ptBB x (myPiece (negb w) WPAWN))) else nz (N.land (bPawnAttacks s) (ptBB x (myPiece (negb w) WPAWN))))
                = nz (if w then N.land (wPawnAttacks s) (ptBB x (myPiece (negb w) WPAWN)) else N.land (bPawnAttacks s) (ptBB x (myPiece (negb w) WPAWN))))
    by (destruct w; reflexivity).
  rewrite Hpe. rewrite <- (Hnz (knightAttacks s)), <- (Hnz (kingAttacks s)), <- Hp, <- !Hnz2.
  destruct (nz (N.land (knightAttacks s) _)); [tauto|].
  destruct (nz (N.land (kingAttacks s) _)); [tauto|].
  destruct (nz (if w then _ else _)); [tauto|].
  destruct (nz (N.land (bishopAttacks s o) _)); [tauto|].
  destruct (nz (N.land (rookAttacks s o) _)); [tauto|].
  intuition discriminate.
Qed.

(** attack sets of a square do not depend on the occupancy of the square itself, grow when the
    occupancy shrinks *)
Lemma rookAttacks_testbit : forall s o y, s < 64 ->
  (N.testbit (rookAttacks s o) y = true <-> y < 64 /\ rookAligned s y = true /\ N.land (SB s y) o = 0).
Proof.
  intros s o y Hs. split.
  - intro H. pose proof (rookAttacks_in_board s y o Hs H) as Hy. split; [exact Hy|]. apply (rookAttacks_spec s y o Hs Hy). exact H.
  - intros [Hy H]. apply (rookAttacks_spec s y o Hs Hy). exact H.
Qed.
Lemma bishopAttacks_testbit : forall s o y, s < 64 ->
  (N.testbit (bishopAttacks s o) y = true <-> y < 64 /\ bishopAligned s y = true /\ N.land (SB s y) o = 0).
Proof.
  intros s o y Hs. split.
  - intro H. pose proof (bishopAttacks_in_board s y o Hs H) as Hy. split; [exact Hy|]. apply (bishopAttacks_spec s y o Hs Hy). exact H.
  - intros [Hy H]. apply (bishopAttacks_spec s y o Hs Hy). exact H.
Qed.

(** more finite geometry: step moves have nothing between; a double pawn step has the middle square *)
Definition G6P (a b : square) : bool :=
  (if N.testbit (knightAttacks a) b || N.testbit (kingAttacks a) b then SB a b =? 0 else true)
  && (let d := (Z.of_N a - Z.of_N b)%Z in
      (if ((d =? 8) || (d =? -8) || (((d =? -7) || (d =? 9)) && negb (zf b =? 7)) || (((d =? -9) || (d =? 7)) && negb (zf b =? 0)))%Z
       then SB a b =? 0 else true)
      && (if ((d =? 16) || (d =? -16))%Z then SB a b =? bit (Z.to_N ((Z.of_N a + Z.of_N b) / 2)) else true)
      && (if N.testbit (kingAttacks a) b then negb (d =? 2)%Z && negb (d =? -2)%Z else true))
  && negb (N.testbit (knightAttacks a) a) && negb (N.testbit (kingAttacks a) a)
  && negb (N.testbit (wPawnAttacks a) a) && negb (N.testbit (bPawnAttacks a) a).
Lemma G6_ok : forallb (fun a => forallb (G6P a) allSquares) allSquares = true.
Proof. vm_compute. reflexivity. Qed.

Lemma G6 : forall a b, a < 64 -> b < 64 ->
  (N.testbit (knightAttacks a) b = true \/ N.testbit (kingAttacks a) b = true -> SB a b = 0) /\
  (forall d : Z, d = (Z.of_N a - Z.of_N b)%Z ->
     (d = 8 \/ d = -8 \/ ((d = -7 \/ d = 9) /\ zf b <> 7) \/ ((d = -9 \/ d = 7) /\ zf b <> 0))%Z -> SB a b = 0) /\
  ((Z.of_N a - Z.of_N b = 16 \/ Z.of_N a - Z.of_N b = -16)%Z -> SB a b = bit (Z.to_N ((Z.of_N a + Z.of_N b) / 2))) /\
  (N.testbit (kingAttacks a) b = true -> (Z.of_N a - Z.of_N b <> 2 /\ Z.of_N a - Z.of_N b <> -2)%Z) /\
  N.testbit (knightAttacks a) a = false /\ N.testbit (kingAttacks a) a = false /\
  N.testbit (wPawnAttacks a) a = false /\ N.testbit (bPawnAttacks a) a = false.
Proof.
  intros a b Ha Hb. pose proof (sweep2 G6P G6_ok a b Ha Hb) as H. unfold G6P in H. cbv zeta in H.
  rewrite !andb_true_iff, !negb_true_iff in H. destruct H as [[[[[H1 [[H2 H3] H4]] H5] H6] H7] H8].
  repeat split; try assumption.
  - intros [E|E]; rewrite E in H1; rewrite ?orb_true_r in H1; cbn [orb] in H1; apply N.eqb_eq; exact H1.
  - intros d -> Hd.
    assert (Hc : ((Z.of_N a - Z.of_N b =? 8) || (Z.of_N a - Z.of_N b =? -8)
                  || (((Z.of_N a - Z.of_N b =? -7) || (Z.of_N a - Z.of_N b =? 9)) && negb (zf b =? 7))
                  || (((Z.of_N a - Z.of_N b =? -9) || (Z.of_N a - Z.of_N b =? 7)) && negb (zf b =? 0)))%Z = true).
    { rewrite !orb_true_iff, !andb_true_iff, !orb_true_iff, !negb_true_iff, !Z.eqb_eq, !Z.eqb_neq. tauto. }
    rewrite Hc in H2. apply N.eqb_eq. exact H2.
  - intro Hd. assert (Hc : ((Z.of_N a - Z.of_N b =? 16) || (Z.of_N a - Z.of_N b =? -16))%Z = true)
      by (rewrite orb_true_iff, !Z.eqb_eq; exact Hd).
    rewrite Hc in H3. apply N.eqb_eq. exact H3.
  - rewrite H in H4. apply andb_true_iff in H4. destruct H4 as [A _]. apply negb_true_iff, Z.eqb_neq in A. exact A.
  - rewrite H in H4. apply andb_true_iff in H4. destruct H4 as [_ A]. apply negb_true_iff, Z.eqb_neq in A. exact A.
Qed.

Section Full.
Variable zk : zkeys.
Hypothesis EKZ : emptyKeysZero zk.
Variable p : position.
Hypothesis HWF : WF p.
Hypothesis HC : Consistent zk p.
Let w := whiteMove p.
Let ks := kingSq p w.
Let occ := occupiedBB p.
Let own := colorBB p w.

Lemma HBp : BoardOK p.
Proof. exact (WF_BoardOK p HWF). Qed.

Lemma ks64 : ks < 64 /\ getPiece p ks = mk_piece w King.
Proof. apply kingSq_spec. exact HWF. Qed.

Lemma occ_bit : forall s, N.testbit occ s = (s <? 64) && negb (getPiece p s =? EMPTY).
Proof. intro s. apply occupied_testbit_B. exact HBp. Qed.

(** castling moves with their emptiness conditions *)
Lemma lC_cond : forall m, In m (lC p) ->
  ks = (if w then E1 else E8) /\ mpromote m = EMPTY /\ mfrom m = ks /\
  ((mto m = sqAdd ks 2 /\ N.testbit occ (sqAdd ks 1) = false /\ N.testbit occ (sqAdd ks 2) = false) \/
   (mto m = sqAdd ks (-2) /\ N.testbit occ (sqAdd ks (-1)) = false /\ N.testbit occ (sqAdd ks (-2)) = false)).
Proof.
  intros m Hin. unfold lC in Hin. fold w ks occ in Hin. rewrite castleMoves_normal in Hin. cbv zeta in Hin.
  match type of Hin with context [ks =? ?k] => destruct (N.eqb_spec ks k) as [E|E] end; [|destruct Hin].
  split; [exact E|]. cbn [app] in Hin. apply in_app_iff in Hin.
  destruct Hin as [Hin|Hin]; apply In_single_if in Hin; destruct Hin as [Hc ->]; cbn [mfrom mto mpromote];
    rewrite <- E; (split; [reflexivity|]); (split; [reflexivity|]); rewrite !andb_true_iff in Hc;
    destruct Hc as [[[[_ Hocc] _] _] _]; apply N.eqb_eq in Hocc; rewrite land_zero_iff in Hocc.
  - left. split; [reflexivity|]. rewrite E. unfold w in *. destruct (whiteMove p); split; apply Hocc; vm_compute; reflexivity.
  - right. split; [reflexivity|]. rewrite E. unfold w in *. destruct (whiteMove p); split; apply Hocc; vm_compute; reflexivity.
Qed.

(** the squares strictly between the two squares of a pseudo-legal move are empty *)
Lemma path_clear : forall m, In m (pseudoLegalMoves p) -> N.land (SB (mfrom m) (mto m)) occ = 0.
Proof.
  intros m Hm. rewrite pseudo_list in Hm.
  destruct (bounds p HWF) as (Hp & H1 & H2 & H3 & H4 & HgQ & HgR & HgB & HgN).
  assert (Hbb : forall wp, In wp [2; 3; 4; 5] -> ptBB p (myPiece w wp) < 2 ^ 64).
  { intros wp Hwp. apply ptBB_lt; [exact HWF|]. apply myPiece_codes. cbn [In] in Hwp |- *. tauto. }
  assert (Hloop : forall wp (g : square -> N), In wp [2; 3; 4; 5] -> (forall sq, sq < 64 -> g sq < 2 ^ 64) ->
            In m (loopMoves (ptBB p (myPiece w wp)) g) -> mfrom m < 64 /\ N.testbit (g (mfrom m)) (mto m) = true).
  { intros wp g Hwp Hg Hin. apply loopMoves_In in Hin; [|apply Hbb; exact Hwp]. destruct Hin as (Hb & _ & Ht).
    assert (Hf : mfrom m < 64) by (exact (bits_below_64 _ (Hbb wp Hwp) _ Hb)).
    split; [exact Hf|]. apply bitsOf_In; [apply Hg; exact Hf | exact Ht]. }
  assert (Hrook : forall s t, s < 64 -> N.testbit (rookAttacks s occ) t = true -> N.land (SB s t) occ = 0)
    by (intros s t Hs Hb; apply (rookAttacks_testbit s occ t Hs) in Hb; apply Hb).
  assert (Hbish : forall s t, s < 64 -> N.testbit (bishopAttacks s occ) t = true -> N.land (SB s t) occ = 0)
    by (intros s t Hs Hb; apply (bishopAttacks_testbit s occ t Hs) in Hb; apply Hb).
  assert (Hz : N.land 0 occ = 0) by apply N.land_0_l.
  (apply in_app_or in Hm; destruct Hm as [Hm|Hm]); [|(apply in_app_or in Hm; destruct Hm as [Hm|Hm]); [|(apply in_app_or in Hm; destruct Hm as [Hm|Hm]); [|(apply in_app_or in Hm; destruct Hm as [Hm|Hm]); [|(apply in_app_or in Hm; destruct Hm as [Hm|Hm]); [|(apply in_app_or in Hm; destruct Hm as [Hm|Hm]); [|(apply in_app_or in Hm; destruct Hm as [Hm|Hm]); [|(apply in_app_or in Hm; destruct Hm as [Hm|Hm]); [|(apply in_app_or in Hm; destruct Hm as [Hm|Hm])]]]]]]]].
  - destruct (Hloop WQUEEN (gQ p) ltac:(cbn; tauto) HgQ Hm) as [Hf Hb]. unfold gQ, andn in Hb.
    rewrite N.ldiff_spec, N.lor_spec in Hb. apply andb_true_iff in Hb. destruct Hb as [Hb _]. apply orb_true_iff in Hb.
    destruct Hb as [Hb|Hb]; [apply Hrook | apply Hbish]; assumption.
  - destruct (Hloop WROOK (gR p) ltac:(cbn; tauto) HgR Hm) as [Hf Hb]. unfold gR, andn in Hb.
    rewrite N.ldiff_spec in Hb. apply andb_true_iff in Hb. destruct Hb as [Hb _]. apply Hrook; assumption.
  - destruct (Hloop WBISHOP (gB p) ltac:(cbn; tauto) HgB Hm) as [Hf Hb]. unfold gB, andn in Hb.
    rewrite N.ldiff_spec in Hb. apply andb_true_iff in Hb. destruct Hb as [Hb _]. apply Hbish; assumption.
  - unfold lK in Hm. apply movesTo_In in Hm. destruct Hm as (Ef & _ & Ht). fold w ks in Ef, Ht.
    apply bitsOf_In in Ht; [|apply ldiff_lt, kingAttacks_lt]. unfold andn in Ht. rewrite N.ldiff_spec in Ht.
    apply andb_true_iff in Ht. destruct Ht as [Ht _]. destruct ks64 as [Hk _].
    pose proof (bits_below_64 _ (kingAttacks_lt ks) _ Ht) as Ht64. rewrite Ef.
    destruct (G6 ks (mto m) Hk Ht64) as (A & _). rewrite A by (right; exact Ht). exact Hz.
  - assert (HSB : forall (k : square) (c : bool), k = (if c then E1 else E8) ->
              SB k (sqAdd k 2) = bit (sqAdd k 1) /\ SB k (sqAdd k (-2)) = bit (sqAdd k (-1)))
      by (intros k c ->; destruct c; split; vm_compute; reflexivity).
    destruct (lC_cond m Hm) as (Ek & _ & Ef & [(Et & O1 & _)|(Et & O1 & _)]); destruct (HSB ks w Ek) as [S1 S2]; rewrite Ef, Et.
    + rewrite S1. apply land_zero_iff. intros x Hx. rewrite bit_testbit in Hx. apply N.eqb_eq in Hx. subst x. exact O1.
    + rewrite S2. apply land_zero_iff. intros x Hx. rewrite bit_testbit in Hx. apply N.eqb_eq in Hx. subst x. exact O1.
  - destruct (Hloop WKNIGHT (gN p) ltac:(cbn; tauto) HgN Hm) as [Hf Hb]. unfold gN, andn in Hb.
    rewrite N.ldiff_spec in Hb. apply andb_true_iff in Hb. destruct Hb as [Hb _].
    pose proof (bits_below_64 _ (proj2 (knightAttacks_lt (mfrom m))) _ Hb) as Ht64.
    destruct (G6 (mfrom m) (mto m) Hf Ht64) as (A & _). rewrite A by (left; exact Hb). exact Hz.
  - (* single push *)
    apply pawnTo_In in Hm; [|exact H1]. destruct Hm as [Hb Ef]. fold w in Hb, Ef.
    unfold andn in Hb. rewrite N.ldiff_spec in Hb. apply andb_true_iff in Hb. destruct Hb as [Hb _].
    apply (fwd_testbit w _ 8 _ Hp) in Hb. destruct Hb as (Ht & Hpb & Hz'). rewrite <- Ef in Hpb, Hz'.
    pose proof (bits_below_64 _ Hp _ Hpb) as Hf.
    destruct (G6 (mfrom m) (mto m) Hf Ht) as (_ & A & _). rewrite (A _ eq_refl); [exact Hz|].
    rewrite Hz'. unfold delta. change (Z.of_N 8) with 8%Z. destruct w; lia.
  - (* double push *)
    apply plainTo_In in Hm. destruct Hm as (Hb & Ef & _). fold w in Hb, Ef. apply bitsOf_In in Hb; [|exact H2].
    unfold andn in Hb. rewrite N.ldiff_spec in Hb. apply andb_true_iff in Hb. destruct Hb as [Hb _].
    apply (fwd_testbit w _ 8 _) in Hb; [|apply land_lt_l; exact H1]. destruct Hb as (Ht & Hmid & Hzm).
    rewrite N.land_spec in Hmid. apply andb_true_iff in Hmid. destruct Hmid as [Hmid _].
    pose proof Hmid as Hmid0. unfold andn in Hmid. rewrite N.ldiff_spec in Hmid. apply andb_true_iff in Hmid.
    destruct Hmid as [Hmf Hmo]. apply negb_true_iff in Hmo.
    apply (fwd_testbit w _ 8 _ Hp) in Hmf. destruct Hmf as (Hm64 & Hpb & Hz2).
    assert (E : sqAdd (sqAdd (mto m) (delta w 8)) (delta w 8) = mfrom m).
    { rewrite Ef. unfold sqAdd in *. rewrite delta_16. f_equal. lia. }
    rewrite E in Hpb, Hz2. pose proof (bits_below_64 _ Hp _ Hpb) as Hf.
    destruct (G6 (mfrom m) (mto m) Hf Ht) as (_ & _ & A & _). rewrite A.
    + replace (Z.to_N ((Z.of_N (mfrom m) + Z.of_N (mto m)) / 2)) with (sqAdd (mto m) (delta w 8)).
      * apply land_zero_iff. intros x Hx. rewrite bit_testbit in Hx. apply N.eqb_eq in Hx. subst x. exact Hmo.
      * unfold sqAdd. f_equal. rewrite Hz2, Hzm.
        replace (Z.of_N (mto m) + delta w 8 + delta w 8 + Z.of_N (mto m))%Z with ((Z.of_N (mto m) + delta w 8) * 2)%Z by ring.
        rewrite Z.div_mul by lia. reflexivity.
    + rewrite Hz2, Hzm. unfold delta. change (Z.of_N 8) with 8%Z. destruct w; lia.
  - (* capture towards the a-file *)
    apply pawnTo_In in Hm; [|exact H3]. destruct Hm as [Hb Ef]. fold w in Hb, Ef.
    rewrite !N.land_spec in Hb. rewrite !andb_true_iff in Hb. destruct Hb as [[Hb Hfile] _].
    apply (fwd_testbit w _ _ _ Hp) in Hb. destruct Hb as (Ht & Hpb & Hz'). rewrite <- Ef in Hpb, Hz'.
    pose proof (bits_below_64 _ Hp _ Hpb) as Hf.
    destruct (masks_spec _ Ht) as (_ & _ & _ & HA & _). rewrite HA in Hfile. apply negb_true_iff, Z.eqb_neq in Hfile.
    destruct (G6 (mfrom m) (mto m) Hf Ht) as (_ & A & _). rewrite (A _ eq_refl); [exact Hz|].
    rewrite Hz'. unfold delta. right. right. left. split; [|exact Hfile]. destruct w; [change (Z.of_N 7) with 7%Z | change (Z.of_N 9) with 9%Z]; lia.
  - (* capture towards the h-file *)
    apply pawnTo_In in Hm; [|exact H4]. destruct Hm as [Hb Ef]. fold w in Hb, Ef.
    rewrite !N.land_spec in Hb. rewrite !andb_true_iff in Hb. destruct Hb as [[Hb Hfile] _].
    apply (fwd_testbit w _ _ _ Hp) in Hb. destruct Hb as (Ht & Hpb & Hz'). rewrite <- Ef in Hpb, Hz'.
    pose proof (bits_below_64 _ Hp _ Hpb) as Hf.
    destruct (masks_spec _ Ht) as (_ & _ & _ & _ & HBm). rewrite HBm in Hfile. apply negb_true_iff, Z.eqb_neq in Hfile.
    destruct (G6 (mfrom m) (mto m) Hf Ht) as (_ & A & _). rewrite (A _ eq_refl); [exact Hz|].
    rewrite Hz'. unfold delta. right. right. right. split; [|exact Hfile]. destruct w; [change (Z.of_N 9) with 9%Z | change (Z.of_N 7) with 7%Z]; lia.
Qed.

Lemma inCheck_unfold : inCheck p = sqAttackedT w p ks occ.
Proof. reflexivity. Qed.

(** enemy piece codes *)
Lemma enemy_code : forall X, In X [1; 2; 3; 4; 5; 6] ->
  In (myPiece (negb w) X) pieceCodes /\ has_color w (myPiece (negb w) X) = false /\ myPiece (negb w) X <> EMPTY.
Proof.
  intros X HX. split; [apply myPiece_codes; exact HX|]. cbn [In] in HX.
  unfold w. destruct (whiteMove p); repeat (destruct HX as [<-|HX]; [split; [reflexivity | discriminate]|]); destruct HX.
Qed.

Lemma occupied_enemy : forall X y, In X [1; 2; 3; 4; 5; 6] -> N.testbit (ptBB p (myPiece (negb w) X)) y = true ->
  N.testbit occ y = true /\ y < 64.
Proof.
  intros X y HX Hb. destruct (enemy_code X HX) as (Hc & _ & Hne).
  rewrite (BoardOK_ptBB p _ y HBp Hc) in Hb. apply andb_true_iff in Hb. destruct Hb as [Hy Hp]. apply N.eqb_eq in Hp.
  rewrite occ_bit, Hy, Hp. split; [|apply N.ltb_lt; exact Hy]. cbn [andb]. apply negb_true_iff, N.eqb_neq. exact Hne.
Qed.

(** (b) a piece the king sees moves along the king's line: legal when not in check *)
Theorem same_dir_legal : forall m, In m (pseudoLegalMoves p) -> inCheck p = false -> mfrom m <> ks ->
  Z.of_N (mto m) <> epSquare p ->
  getDirection ks (mfrom m) = getDirection ks (mto m) ->
  legal_specb (abs p) m = true.
Proof.
  intros m Hm Hnc Hnk Hnep Hdir.
  apply legal_specb_spec. apply (safe_iff_legal zk EKZ p HWF HC m Hm).
  rewrite (in_check_after zk EKZ p HWF HC m Hm Hnk Hnep). fold w ks.
  destruct (simple_facts zk EKZ p HWF HC m Hm Hnk Hnep) as (_ & _ & Hf & Ht & Hne & Hown & Hcapn & HXl & Htk & HBq).
  fold w in Hown, Hcapn, HXl.
  pose proof (getPiece_q zk EKZ p HWF HC m Hm Hnk Hnep) as Hgq.
  destruct (occ_q zk EKZ p HWF HC m Hm Hnk Hnep) as (Hoff & Hof & Hot). fold occ in Hoff.
  set (q := fst (makeMoveB p m)) in *. destruct ks64 as [Hk Hkp].
  rewrite <- (sqAttacked_spec_B q w ks HBq Hk).
  destruct (sqAttackedT w q ks (occupiedBB q)) eqn:E; [exfalso | reflexivity].
  rewrite inCheck_unfold in Hnc. apply sqAttackedT_iff in E.
  assert (Hyes : sqAttackedT w p ks occ = true -> False) by (intro H; rewrite H in Hnc; discriminate).
  apply Hyes. apply sqAttackedT_iff.
  (* enemy sets only shrink *)
  assert (Hsub : forall X y, In X [1; 2; 3; 4; 5; 6] -> N.testbit (ptBB q (myPiece (negb w) X)) y = true ->
            N.testbit (ptBB p (myPiece (negb w) X)) y = true /\ y <> mfrom m /\ y <> mto m /\ y < 64).
  { intros X y HX Hb. destruct (enemy_code X HX) as (Hc & Hcol & Hne0).
    rewrite (BoardOK_ptBB q _ y HBq Hc) in Hb. apply andb_true_iff in Hb. destruct Hb as [Hy Hp]. apply N.eqb_eq in Hp.
    apply N.ltb_lt in Hy. rewrite (Hgq y Hy) in Hp.
    destruct (N.eqb_spec y (mto m)) as [->|N1]; [rewrite Hp in HXl; congruence|].
    destruct (N.eqb_spec y (mfrom m)) as [->|N2]; [exfalso; apply Hne0; symmetry; exact Hp|].
    rewrite (BoardOK_ptBB p _ y HBp Hc), Hp, N.eqb_refl. replace (y <? 64) with true by (symmetry; apply N.ltb_lt; exact Hy). auto. }
  (* a slider that attacks after the move attacked before *)
  assert (Hslide : forall (al : square -> square -> bool) y,
            (forall a c, al a c = rookAligned a c) \/ (forall a c, al a c = bishopAligned a c) ->
            y < 64 -> al ks y = true -> N.land (SB ks y) (occupiedBB q) = 0 -> y <> mfrom m -> y <> mto m ->
            N.testbit occ y = true -> N.land (SB ks y) occ = 0).
  { intros al y Hal Hy Haly Hz N2 N1 Hoy.
    destruct (N.eq_dec (N.land (SB ks y) occ) 0) as [|Hnz]; [assumption|]. exfalso.
    assert (Hex : exists z, N.testbit (N.land (SB ks y) occ) z = true) by (apply nz_exists; unfold nz; apply negb_true_iff, N.eqb_neq; exact Hnz).
    destruct Hex as [z Hzb]. rewrite N.land_spec in Hzb. apply andb_true_iff in Hzb. destruct Hzb as [Hz1 Hz2].
    rewrite land_zero_iff in Hz. pose proof (Hz z Hz1) as Hzq.
    assert (Ezf : z = mfrom m).
    { destruct (N.eq_dec z (mfrom m)) as [|Nf]; [assumption|]. exfalso.
      destruct (N.eq_dec z (mto m)) as [Et|Nt].
      - rewrite Et, <- occb_testbit, Hot in Hzq. discriminate.
      - pose proof (Hoff z Nf Nt) as Ho. rewrite !occb_testbit in Ho. congruence. }
    subst z.
    assert (Htn : N.testbit (SB ks y) (mto m) = false).
    { destruct (N.testbit (SB ks y) (mto m)) eqn:Et; [|reflexivity]. specialize (Hz _ Et). rewrite <- occb_testbit, Hot in Hz. discriminate. }
    assert (Hal2 : rookAligned ks y || bishopAligned ks y = true)
      by (destruct Hal as [Ha|Ha]; rewrite Ha in Haly; rewrite Haly; [reflexivity | apply orb_true_r]).
    pose proof (G1 ks y (mfrom m) Hk Hy Hf Hz1) as D1.
    assert (D2 : getDirection ks (mto m) = getDirection ks y) by congruence.
    pose proof (G2 ks y (mto m) Hk Hy Ht Hal2 D2 (not_eq_sym N1) Htn) as B1.
    pose proof (G3 ks (mto m) y (mfrom m) Hk Ht Hy Hf B1 Hz1) as B2.
    pose proof (path_clear m Hm) as Hpc. rewrite land_zero_iff in Hpc. specialize (Hpc y B2). congruence. }
  destruct E as [[y [A Bq]]|[[y [A Bq]]|[[y [A Bq]]|[[y [A Bq]]|[y [A Bq]]]]]].
  - left. exists y. split; [exact A|]. apply (Hsub WKNIGHT y); [cbn; tauto | exact Bq].
  - right. left. exists y. split; [exact A|]. apply (Hsub WKING y); [cbn; tauto | exact Bq].
  - right. right. left. exists y. split; [exact A|]. apply (Hsub WPAWN y); [cbn; tauto | exact Bq].
  - right. right. right. left. exists y.
    assert (Bp : (N.testbit (ptBB p (myPiece (negb w) WBISHOP)) y = true \/ N.testbit (ptBB p (myPiece (negb w) WQUEEN)) y = true)
                 /\ y <> mfrom m /\ y <> mto m /\ y < 64).
    { destruct Bq as [Bq|Bq]; [destruct (Hsub WBISHOP y ltac:(cbn; tauto) Bq) as (B1 & B2) | destruct (Hsub WQUEEN y ltac:(cbn; tauto) Bq) as (B1 & B2)]; auto. }
    destruct Bp as (Bp & N2 & N1 & Hy). split; [|exact Bp].
    apply (bishopAttacks_testbit ks _ y Hk) in A. destruct A as (_ & Haly & Hz).
    apply (bishopAttacks_testbit ks occ y Hk). split; [exact Hy|]. split; [exact Haly|].
    apply (Hslide bishopAligned y); auto.
    destruct Bp as [Bp|Bp]; [apply (occupied_enemy WBISHOP y) | apply (occupied_enemy WQUEEN y)]; auto; cbn; tauto.
  - right. right. right. right. exists y.
    assert (Bp : (N.testbit (ptBB p (myPiece (negb w) WROOK)) y = true \/ N.testbit (ptBB p (myPiece (negb w) WQUEEN)) y = true)
                 /\ y <> mfrom m /\ y <> mto m /\ y < 64).
    { destruct Bq as [Bq|Bq]; [destruct (Hsub WROOK y ltac:(cbn; tauto) Bq) as (B1 & B2) | destruct (Hsub WQUEEN y ltac:(cbn; tauto) Bq) as (B1 & B2)]; auto. }
    destruct Bp as (Bp & N2 & N1 & Hy). split; [|exact Bp].
    apply (rookAttacks_testbit ks _ y Hk) in A. destruct A as (_ & Haly & Hz).
    apply (rookAttacks_testbit ks occ y Hk). split; [exact Hy|]. split; [exact Haly|].
    apply (Hslide rookAligned y); auto.
    destruct Bp as [Bp|Bp]; [apply (occupied_enemy WROOK y) | apply (occupied_enemy WQUEEN y)]; auto; cbn; tauto.
Qed.

(** lifting the king from the occupancy does not change the verdict of the attack test on any
    square when the king is not in check: a slider that comes to see the square through the
    king's square would see the king *)
Lemma lift_irrelevant : inCheck p = false -> forall t, t < 64 ->
  sqAttackedT w p t (andn occ (bit ks)) = sqAttackedT w p t occ.
Proof.
  intros Hnc t Ht. rewrite inCheck_unfold in Hnc. destruct ks64 as [Hk Hkp].
  assert (Ho' : forall x, N.testbit (andn occ (bit ks)) x = N.testbit occ x && negb (ks =? x))
    by (intro x; unfold andn; rewrite N.ldiff_spec, bit_testbit; reflexivity).
  assert (Hmono : forall a, N.land a occ = 0 -> N.land a (andn occ (bit ks)) = 0).
  { intros a Hz. rewrite land_zero_iff in *. intros x Hx. rewrite Ho', (Hz x Hx). reflexivity. }
  assert (Hback : forall y, y < 64 -> rookAligned t y || bishopAligned t y = true ->
            N.land (SB t y) (andn occ (bit ks)) = 0 -> N.land (SB t y) occ <> 0 ->
            rookAligned ks y = rookAligned t y /\ bishopAligned ks y = bishopAligned t y /\ N.land (SB ks y) occ = 0).
  { intros y Hy Hal Hz Hnz.
    assert (Hex : exists z, N.testbit (N.land (SB t y) occ) z = true) by (apply nz_exists; unfold nz; apply negb_true_iff, N.eqb_neq; exact Hnz).
    destruct Hex as [z Hzb]. rewrite N.land_spec in Hzb. apply andb_true_iff in Hzb. destruct Hzb as [Hz1 Hz2].
    rewrite land_zero_iff in Hz. pose proof (Hz z Hz1) as Hzq. rewrite Ho', Hz2 in Hzq. cbn [andb] in Hzq.
    apply negb_false_iff, N.eqb_eq in Hzq. subst z.
    destruct (G4 t y ks Ht Hy Hk Hal Hz1) as (A1 & A2 & A3 & A4). split; [exact A1|]. split; [exact A2|].
    apply land_zero_iff. intros x Hx.
    assert (Hx2 : N.testbit (SB t y) x = true).
    { assert (Hd : N.testbit (N.ldiff (SB ks y) (SB t y)) x = false) by (rewrite A3; apply N.bits_0).
      rewrite N.ldiff_spec, Hx in Hd. cbn [andb] in Hd. apply negb_false_iff in Hd. exact Hd. }
    pose proof (Hz x Hx2) as Hxo. rewrite Ho' in Hxo. apply andb_false_iff in Hxo. destruct Hxo as [Hxo|Hxo]; [exact Hxo|].
    apply negb_false_iff, N.eqb_eq in Hxo. subst x. congruence. }
  assert (Hyes : sqAttackedT w p ks occ = true -> False) by (intro H; rewrite H in Hnc; discriminate).
  apply eq_true_iff_eq. rewrite !sqAttackedT_iff. split.
  - intros [H|[H|[H|[[y [A Bq]]|[y [A Bq]]]]]]; [left; exact H | right; left; exact H | right; right; left; exact H | |].
    + right. right. right. left. exists y. split; [|exact Bq].
      apply (bishopAttacks_testbit t _ y Ht) in A. destruct A as (Hy & Hal & Hz).
      apply (bishopAttacks_testbit t occ y Ht). split; [exact Hy|]. split; [exact Hal|].
      destruct (N.eq_dec (N.land (SB t y) occ) 0) as [|Hnz]; [assumption|]. exfalso.
      destruct (Hback y Hy ltac:(rewrite Hal; apply orb_true_r) Hz Hnz) as (_ & A2 & A3).
      apply Hyes. apply sqAttackedT_iff. right. right. right. left. exists y. split; [|exact Bq].
      apply (bishopAttacks_testbit ks occ y Hk). rewrite A2. auto.
    + right. right. right. right. exists y. split; [|exact Bq].
      apply (rookAttacks_testbit t _ y Ht) in A. destruct A as (Hy & Hal & Hz).
      apply (rookAttacks_testbit t occ y Ht). split; [exact Hy|]. split; [exact Hal|].
      destruct (N.eq_dec (N.land (SB t y) occ) 0) as [|Hnz]; [assumption|]. exfalso.
      destruct (Hback y Hy ltac:(rewrite Hal; reflexivity) Hz Hnz) as (A1 & _ & A3).
      apply Hyes. apply sqAttackedT_iff. right. right. right. right. exists y. split; [|exact Bq].
      apply (rookAttacks_testbit ks occ y Hk). rewrite A1. auto.
  - intros [H|[H|[H|[[y [A Bq]]|[y [A Bq]]]]]]; [left; exact H | right; left; exact H | right; right; left; exact H | |].
    + right. right. right. left. exists y. split; [|exact Bq].
      apply (bishopAttacks_testbit t _ y Ht) in A. destruct A as (Hy & Hal & Hz).
      apply (bishopAttacks_testbit t _ y Ht). auto.
    + right. right. right. right. exists y. split; [|exact Bq].
      apply (rookAttacks_testbit t _ y Ht) in A. destruct A as (Hy & Hal & Hz).
      apply (rookAttacks_testbit t _ y Ht). auto.
Qed.

(** a king move of the pseudo-legal list is a king step or a castling move *)
Lemma king_moves_blocks : forall m, In m (pseudoLegalMoves p) -> mfrom m = ks -> In m (lK p) \/ In m (lC p).
Proof.
  intros m Hm Ef. destruct ks64 as [Hk Hkp].
  assert (Hcls : cls p m = 100%Z \/ cls p m = 101%Z).
  { unfold cls. cbv zeta. rewrite Ef. fold w ks. rewrite Hkp, N.eqb_refl. destruct (N.testbit _ _); auto. }
  rewrite pseudo_list in Hm.
  assert (Hno : forall c : Z, cls p m = c -> c <> 100%Z -> c <> 101%Z -> False) by (intros c E1 E2 E3; destruct Hcls; congruence).
  (apply in_app_or in Hm; destruct Hm as [Hm|Hm]); [|(apply in_app_or in Hm; destruct Hm as [Hm|Hm]); [|(apply in_app_or in Hm; destruct Hm as [Hm|Hm]); [|(apply in_app_or in Hm; destruct Hm as [Hm|Hm]); [|(apply in_app_or in Hm; destruct Hm as [Hm|Hm]); [|(apply in_app_or in Hm; destruct Hm as [Hm|Hm]); [|(apply in_app_or in Hm; destruct Hm as [Hm|Hm]); [|(apply in_app_or in Hm; destruct Hm as [Hm|Hm]); [|(apply in_app_or in Hm; destruct Hm as [Hm|Hm])]]]]]]]].
  - exfalso. apply (Hno _ (loop_cls p HWF WQUEEN _ m ltac:(cbn; tauto) Hm)); destruct (whiteMove p); discriminate.
  - exfalso. apply (Hno _ (loop_cls p HWF WROOK _ m ltac:(cbn; tauto) Hm)); destruct (whiteMove p); discriminate.
  - exfalso. apply (Hno _ (loop_cls p HWF WBISHOP _ m ltac:(cbn; tauto) Hm)); destruct (whiteMove p); discriminate.
  - left. exact Hm.
  - right. exact Hm.
  - exfalso. apply (Hno _ (loop_cls p HWF WKNIGHT _ m ltac:(cbn; tauto) Hm)); destruct (whiteMove p); discriminate.
  - exfalso. apply (Hno _ (lP1_cls p HWF m Hm)); destruct (whiteMove p); discriminate.
  - exfalso. apply (Hno _ (lP2_cls p HWF m Hm)); destruct (whiteMove p); discriminate.
  - exfalso. apply (Hno _ (lP3_cls p HWF m Hm)); destruct (whiteMove p); discriminate.
  - exfalso. apply (Hno _ (lP4_cls p HWF m Hm)); destruct (whiteMove p); discriminate.
Qed.

(** the verdict of the make / test / unmake path in terms of the board after the move *)
Lemma legal_is_safe : forall m, In m (pseudoLegalMoves p) ->
  legal_specb (abs p) m = negb (in_checkb (sp_board (make_spec (abs p) m)) w).
Proof.
  intros m Hm. destruct (tryMoveB_verdict zk EKZ p HWF HC m Hm) as [<- _].
  destruct (tryMoveB_spec zk EKZ p HWF HC m Hm) as [-> _]. reflexivity.
Qed.

(** (a1) king steps: the test with the king lifted is the test on the board after the move *)
Theorem king_step_legal : forall m, In m (pseudoLegalMoves p) -> In m (lK p) ->
  legal_specb (abs p) m = negb (sqAttackedT w p (mto m) (andn occ (bit ks))).
Proof.
  intros m Hm HmK. rewrite (legal_is_safe m Hm). f_equal.
  destruct ks64 as [Hk Hkp].
  unfold lK in HmK. apply movesTo_In in HmK. fold w ks in HmK. destruct HmK as (Ef & Epro & Ht).
  apply bitsOf_In in Ht; [|apply ldiff_lt, kingAttacks_lt]. unfold andn in Ht. rewrite N.ldiff_spec in Ht.
  apply andb_true_iff in Ht. destruct Ht as [Hka Hnown]. apply negb_true_iff in Hnown.
  pose proof (bits_below_64 _ (kingAttacks_lt ks) _ Hka) as Ht.
  set (t := mto m) in *.
  destruct (G6 ks t Hk Ht) as (_ & _ & _ & Hn2 & _). specialize (Hn2 Hka).
  assert (Htk : t <> ks).
  { intro E. rewrite E in Hka. destruct (G6 ks ks Hk Hk) as (_ & _ & _ & _ & _ & A & _). congruence. }
  destruct (made_facts zk EKZ p HWF HC m Hm) as (Hb & Hok & HBq & _ & _ & _ & Hun). fold w in Hun.
  set (q := fst (makeMoveB p m)) in *.
  assert (HK : isKingPc (getPiece p (mfrom m)) = true) by (rewrite Ef, Hkp; unfold w; destruct (whiteMove p); reflexivity).
  assert (HP : isPawnPc (getPiece p (mfrom m)) = false) by (rewrite Ef, Hkp; unfold w; destruct (whiteMove p); reflexivity).
  assert (Hsq : squares q = updN t (mk_piece w King) (updN ks EMPTY (squares p))).
  { unfold q. rewrite (makeMoveB_simple p m HBp); [unfold landing; rewrite Epro, N.eqb_refl, Ef, Hkp; reflexivity | rewrite Ef; exact Hk | | |].
    - intro E. rewrite HP in E. discriminate.
    - intros _. rewrite Ef. unfold sqPlus. fold t. lia.
    - intros _. exact Epro. }
  destruct (WF_parts p HWF) as [Hl _].
  assert (Hgq : forall s, getPiece q s = if s =? t then mk_piece w King else if s =? ks then EMPTY else getPiece p s).
  { intro s. unfold getPiece at 1. rewrite Hsq.
    destruct (N.eqb_spec s t) as [->|N1]; [apply nth_updN_eq; rewrite length_updN; lia|].
    rewrite nth_updN_neq by auto.
    destruct (N.eqb_spec s ks) as [->|N2]; [apply nth_updN_eq; lia|].
    rewrite nth_updN_neq by auto. reflexivity. }
  (* the king after the move *)
  assert (Hkq : nth (N.to_nat t) (sp_board (make_spec (abs p) m)) EMPTY = mk_piece w King).
  { rewrite <- Hb. fold (getPiece q t). rewrite Hgq, N.eqb_refl. reflexivity. }
  unfold in_checkb. rewrite (find_king_spec _ w t Ht Hkq Hun). rewrite <- Hb.
  rewrite <- (sqAttacked_spec_B q w t HBq Ht).
  (* compare the two attack tests *)
  assert (Hoq : forall s, s <> t -> N.testbit (occupiedBB q) s = N.testbit (andn occ (bit ks)) s).
  { intros s Hs. rewrite (occupied_testbit_B q s HBq), Hgq. unfold andn. rewrite N.ldiff_spec, bit_testbit, occ_bit.
    replace (s =? t) with false by (symmetry; apply N.eqb_neq; exact Hs). rewrite (N.eqb_sym ks s).
    destruct (N.eqb_spec s ks) as [->|N2]; [change (EMPTY =? EMPTY) with true; cbn [negb]; rewrite !andb_false_r; reflexivity | cbn [negb]; rewrite andb_true_r; reflexivity]. }
  assert (Hset : forall X s, In X [1; 2; 3; 4; 5; 6] -> s <> t ->
            N.testbit (ptBB q (myPiece (negb w) X)) s = N.testbit (ptBB p (myPiece (negb w) X)) s).
  { intros X s HX Hs. destruct (enemy_code X HX) as (Hc & Hcol & Hne0).
    rewrite (BoardOK_ptBB q _ s HBq Hc), (BoardOK_ptBB p _ s HBp Hc), Hgq.
    replace (s =? t) with false by (symmetry; apply N.eqb_neq; exact Hs).
    destruct (N.eqb_spec s ks) as [->|N2]; [|reflexivity].
    rewrite Hkp. f_equal. transitivity false; [apply N.eqb_neq; auto | symmetry; apply N.eqb_neq].
    intro E. rewrite <- E in Hcol. unfold w in Hcol. destruct (whiteMove p); discriminate. }
  assert (HzSB : forall y o o', y < 64 -> (forall s, s <> t -> N.testbit o s = N.testbit o' s) ->
            N.land (SB t y) o = 0 -> N.land (SB t y) o' = 0).
  { intros y o o' Hy Hoo Hz. rewrite land_zero_iff in *. intros x Hx.
    assert (Hxt : x <> t) by (intro E; subst x; destruct (G0 t y Ht Hy) as (A & _); congruence).
    rewrite <- (Hoo x Hxt). apply Hz. exact Hx. }
  destruct (G6 t t Ht Ht) as (_ & _ & _ & _ & Sn & Sk & Swp & Sbp).
  assert (Hself : forall (a : N) y, N.testbit a t = false -> N.testbit a y = true -> y <> t) by (intros a y H0 H1 E; subst y; congruence).
  assert (Hpawn : N.testbit (if w then wPawnAttacks t else bPawnAttacks t) t = false) by (destruct w; assumption).
  assert (HRA : forall o, N.testbit (rookAttacks t o) t = false).
  { intro o. destruct (N.testbit (rookAttacks t o) t) eqn:E; [|reflexivity]. apply (rookAttacks_testbit t o t Ht) in E.
    destruct E as (_ & E & _). unfold rookAligned in E. rewrite N.eqb_refl in E. discriminate. }
  assert (HBA : forall o, N.testbit (bishopAttacks t o) t = false).
  { intro o. destruct (N.testbit (bishopAttacks t o) t) eqn:E; [|reflexivity]. apply (bishopAttacks_testbit t o t Ht) in E.
    destruct E as (_ & E & _). unfold bishopAligned in E. rewrite N.eqb_refl in E. discriminate. }
  apply eq_true_iff_eq. rewrite !sqAttackedT_iff. split.
  - intros [[y [A B]]|[[y [A B]]|[[y [A B]]|[[y [A B]]|[y [A B]]]]]].
    + left. exists y. split; [exact A|]. rewrite <- (Hset WKNIGHT y ltac:(cbn; tauto) (Hself _ y Sn A)). exact B.
    + right. left. exists y. split; [exact A|]. rewrite <- (Hset WKING y ltac:(cbn; tauto) (Hself _ y Sk A)). exact B.
    + right. right. left. exists y. split; [exact A|]. rewrite <- (Hset WPAWN y ltac:(cbn; tauto) (Hself _ y Hpawn A)). exact B.
    + right. right. right. left. exists y. pose proof (Hself _ y (HBA _) A) as Hy.
      split; [|rewrite <- (Hset WBISHOP y ltac:(cbn; tauto) Hy), <- (Hset WQUEEN y ltac:(cbn; tauto) Hy); exact B].
      apply (bishopAttacks_testbit t _ y Ht) in A. destruct A as (Hy64 & Hal & Hz).
      apply (bishopAttacks_testbit t _ y Ht). split; [exact Hy64|]. split; [exact Hal|]. apply (HzSB y _ _ Hy64 Hoq Hz).
    + right. right. right. right. exists y. pose proof (Hself _ y (HRA _) A) as Hy.
      split; [|rewrite <- (Hset WROOK y ltac:(cbn; tauto) Hy), <- (Hset WQUEEN y ltac:(cbn; tauto) Hy); exact B].
      apply (rookAttacks_testbit t _ y Ht) in A. destruct A as (Hy64 & Hal & Hz).
      apply (rookAttacks_testbit t _ y Ht). split; [exact Hy64|]. split; [exact Hal|]. apply (HzSB y _ _ Hy64 Hoq Hz).
  - assert (Hoq' : forall s, s <> t -> N.testbit (andn occ (bit ks)) s = N.testbit (occupiedBB q) s) by (intros s Hs; symmetry; apply Hoq; exact Hs).
    intros [[y [A B]]|[[y [A B]]|[[y [A B]]|[[y [A B]]|[y [A B]]]]]].
    + left. exists y. split; [exact A|]. rewrite (Hset WKNIGHT y ltac:(cbn; tauto) (Hself _ y Sn A)). exact B.
    + right. left. exists y. split; [exact A|]. rewrite (Hset WKING y ltac:(cbn; tauto) (Hself _ y Sk A)). exact B.
    + right. right. left. exists y. split; [exact A|]. rewrite (Hset WPAWN y ltac:(cbn; tauto) (Hself _ y Hpawn A)). exact B.
    + right. right. right. left. exists y. pose proof (Hself _ y (HBA _) A) as Hy.
      split; [|rewrite (Hset WBISHOP y ltac:(cbn; tauto) Hy), (Hset WQUEEN y ltac:(cbn; tauto) Hy); exact B].
      apply (bishopAttacks_testbit t _ y Ht) in A. destruct A as (Hy64 & Hal & Hz).
      apply (bishopAttacks_testbit t _ y Ht). split; [exact Hy64|]. split; [exact Hal|]. apply (HzSB y _ _ Hy64 Hoq' Hz).
    + right. right. right. right. exists y. pose proof (Hself _ y (HRA _) A) as Hy.
      split; [|rewrite (Hset WROOK y ltac:(cbn; tauto) Hy), (Hset WQUEEN y ltac:(cbn; tauto) Hy); exact B].
      apply (rookAttacks_testbit t _ y Ht) in A. destruct A as (Hy64 & Hal & Hz).
      apply (rookAttacks_testbit t _ y Ht). split; [exact Hy64|]. split; [exact Hal|]. apply (HzSB y _ _ Hy64 Hoq' Hz).
Qed.

(** (a2) castling: after it the king is attacked iff its target square is attacked before *)
Lemma castle_after : forall m, In m (pseudoLegalMoves p) -> In m (lC p) ->
  mto m < 64 /\
  in_checkb (sp_board (make_spec (abs p) m)) w = attacked_by (squares p) (negb w) (zf (mto m)) (zr (mto m)).
Proof.
  intros m Hm HmC. set (b := squares p).
  assert (Hin : In m (castle_moves_pseudo (abs p))) by (apply (proj1 (castleMoves_spec p HWF m)); unfold lC in HmC; exact HmC).
  destruct (made_facts zk EKZ p HWF HC m Hm) as (_ & _ & _ & _ & _ & Hex & Hun). fold w in Hex, Hun.
  destruct (WF_parts p HWF) as [Hl _]. fold b in Hl.
  set (r := (if w then 0 else 7)%Z).
  assert (Hr : (r = 0 \/ r = 7)%Z) by (unfold r, w; destruct (whiteMove p); [left | right]; reflexivity).
  assert (Hob : forall f, (0 <= f <= 7)%Z -> on_board f r = true)
    by (intros f Hf; unfold on_board; rewrite !andb_true_iff, !Z.leb_le; lia).
  unfold castle_moves_pseudo in Hin. cbn [abs sp_board sp_white] in Hin. fold w b in Hin. cbv beta zeta in Hin. fold r in Hin.
  destruct (is_piece w King (at_ b 4 r) && negb (attacked_by b (negb w) 4 r)) eqn:E0; [|destruct Hin].
  apply andb_true_iff in E0. destruct E0 as [EK _]. rewrite is_piece_eqb in EK. apply N.eqb_eq in EK.
  assert (HcK : has_color (negb w) (mk_piece w King) = false) by (unfold w; destruct (whiteMove p); reflexivity).
  assert (HcR : has_color (negb w) (mk_piece w Rook) = false) by (unfold w; destruct (whiteMove p); reflexivity).
  assert (HnK : (mk_piece w King =? EMPTY) = false) by (unfold w; destruct (whiteMove p); reflexivity).
  assert (HnR : (mk_piece w Rook =? EMPTY) = false) by (unfold w; destruct (whiteMove p); reflexivity).
  assert (H4 : sq_of 4 r < 64) by (apply sq_of_coords, Hob; lia).
  assert (Hget : forall f, (0 <= f <= 7)%Z -> at_ b f r = nth (N.to_nat (sq_of f r)) b EMPTY).
  { intros f Hf. unfold at_. rewrite (Hob f Hf). destruct (sq_of_coords f r (Hob f Hf)) as [_ [_ [_ ->]]]. reflexivity. }
  assert (Hboard : forall kside : bool,
            at_ b (if kside then 6 else 2)%Z r = EMPTY ->
            sp_board (make_spec (abs p) (mv 4 r (if kside then 6 else 2)%Z r EMPTY)) =
            updN (sq_of (if kside then 5 else 3)%Z r) (mk_piece w Rook)
              (updN (sq_of (if kside then 7 else 0)%Z r) EMPTY
                 (updN (sq_of (if kside then 6 else 2)%Z r) (mk_piece w King) (updN (sq_of 4 r) EMPTY b)))).
  { intros kside Hte.
    assert (Ht : sq_of (if kside then 6 else 2)%Z r < 64) by (apply sq_of_coords, Hob; destruct kside; lia).
    unfold mv. rewrite (make_spec_board (abs p) (mkMove (sq_of 4 r) (sq_of (if kside then 6 else 2)%Z r) EMPTY) H4 Ht). cbv zeta. cbn [mfrom mto mpromote abs sp_board sp_white]. fold w b.
    rewrite <- (Hget 4%Z) by lia. rewrite EK.
    replace (nth (N.to_nat (sq_of (if kside then 6 else 2)%Z r)) b EMPTY) with EMPTY
      by (rewrite <- Hget by (destruct kside; lia); symmetry; exact Hte).
    replace (is_piece w Pawn (mk_piece w King)) with false by (unfold w; destruct (whiteMove p); reflexivity).
    replace (is_piece w King (mk_piece w King)) with true by (unfold w; destruct (whiteMove p); reflexivity).
    assert (Hz4 : zf (sq_of 4 r) = 4%Z /\ zr (sq_of 4 r) = r) by (split; apply sq_of_coords, Hob; lia).
    assert (Hzt : zf (sq_of (if kside then 6 else 2)%Z r) = (if kside then 6 else 2)%Z)
      by (apply sq_of_coords, Hob; destruct kside; lia).
    destruct Hz4 as [-> ->]. rewrite Hzt. cbn [andb]. change (EMPTY =? EMPTY) with true. cbv iota.
    destruct kside; reflexivity. }
  apply in_app_iff in Hin. destruct Hin as [Hin|Hin]; apply In_single_if in Hin; destruct Hin as [Hc ->].
  - rewrite !andb_true_iff in Hc. destruct Hc as [[[[_ HR] H5] H6] _].
    rewrite is_piece_eqb in HR. apply N.eqb_eq in HR, H5, H6.
    assert (H6' : sq_of 6 r < 64) by (apply sq_of_coords, Hob; lia).
    destruct (mv_fields 4 r 6 r EMPTY) as (_ & -> & _). split; [exact H6'|].
    rewrite (Hboard true H6) in Hun |- *.
    assert (Hk6 : nth (N.to_nat (sq_of 6 r))
              (updN (sq_of 5 r) (mk_piece w Rook) (updN (sq_of 7 r) EMPTY (updN (sq_of 6 r) (mk_piece w King) (updN (sq_of 4 r) EMPTY b))))
              EMPTY = mk_piece w King).
    { rewrite !nth_updN_neq by (unfold sq_of; lia). apply nth_updN_eq. rewrite length_updN. unfold sq_of. lia. }
    unfold in_checkb. rewrite (find_king_spec _ w _ H6' Hk6 Hun).
    destruct (sq_of_coords 6 r (Hob 6%Z ltac:(lia))) as [_ [Hzf [Hzr _]]]. rewrite Hzf, Hzr.
    apply (castle_attack_kingside b (negb w) r _ _ Hl Hr EK H5 H6 HR HcK HcR HnK HnR).
  - rewrite !andb_true_iff in Hc. destruct Hc as [[[[[_ HR] H1] H2] H3] _].
    rewrite is_piece_eqb in HR. apply N.eqb_eq in HR, H1, H2, H3.
    assert (H2' : sq_of 2 r < 64) by (apply sq_of_coords, Hob; lia).
    destruct (mv_fields 4 r 2 r EMPTY) as (_ & -> & _). split; [exact H2'|].
    rewrite (Hboard false H2) in Hun |- *.
    assert (Hk2 : nth (N.to_nat (sq_of 2 r))
              (updN (sq_of 3 r) (mk_piece w Rook) (updN (sq_of 0 r) EMPTY (updN (sq_of 2 r) (mk_piece w King) (updN (sq_of 4 r) EMPTY b))))
              EMPTY = mk_piece w King).
    { rewrite !nth_updN_neq by (unfold sq_of; lia). apply nth_updN_eq. rewrite length_updN. unfold sq_of. lia. }
    unfold in_checkb. rewrite (find_king_spec _ w _ H2' Hk2 Hun).
    destruct (sq_of_coords 2 r (Hob 2%Z ltac:(lia))) as [_ [Hzf [Hzr _]]]. rewrite Hzf, Hzr.
    apply (castle_attack_queenside b (negb w) r _ _ Hl Hr EK H3 H2 H1 HR HcK HcR HnK HnR).
Qed.

Theorem castle_legal : forall m, In m (pseudoLegalMoves p) -> In m (lC p) -> inCheck p = false ->
  legal_specb (abs p) m = negb (sqAttackedT w p (mto m) (andn occ (bit ks))).
Proof.
  intros m Hm HmC Hnc. rewrite (legal_is_safe m Hm). f_equal.
  destruct (castle_after m Hm HmC) as [Ht ->].
  rewrite (lift_irrelevant Hnc _ Ht). symmetry. apply (sqAttacked_spec p w (mto m) HWF Ht).
Qed.

(** * isLegal: every branch *)
Theorem isLegal_full : forall m, In m (pseudoLegalMoves p) ->
  snd (isLegal p m (inCheck p)) = legal_specb (abs p) m /\ restoredB p (fst (isLegal p m (inCheck p))).
Proof.
  intros m Hm. destruct (inCheck p) eqn:Hc.
  - apply (isLegal_in_check zk EKZ p HWF HC m Hm Hc).
  - destruct (N.eq_dec (mfrom m) ks) as [Ek|Hnk].
    + unfold isLegal. cbv zeta. fold w. fold ks. fold occ. rewrite Ek, N.eqb_refl. cbn [fst snd].
      split; [|apply restoredB_refl]. unfold sqAttackedOcc. fold w.
      destruct (king_moves_blocks m Hm Ek) as [HK|HCs]; symmetry;
        [apply (king_step_legal m Hm HK) | apply (castle_legal m Hm HCs Hc)].
    + destruct (Z.eq_dec (Z.of_N (mto m)) (epSquare p)) as [Eep|Hnep];
        [apply (isLegal_not_in_check_nonking zk EKZ p HWF HC m Hm Hc Hnk); left; exact Eep|].
      destruct (N.testbit (N.lor (rookAttacks ks occ) (bishopAttacks ks occ)) (mfrom m)) eqn:Evis;
        [|apply (isLegal_not_in_check_nonking zk EKZ p HWF HC m Hm Hc Hnk); right; left; exact Evis].
      destruct (Z.eq_dec (getDirection ks (mfrom m)) (getDirection ks (mto m))) as [Ed|Hnd];
        [|apply (isLegal_not_in_check_nonking zk EKZ p HWF HC m Hm Hc Hnk); right; right; exact Hnd].
      unfold isLegal. cbv zeta. fold w. fold ks. fold occ.
      replace (mfrom m =? ks) with false by (symmetry; apply N.eqb_neq; exact Hnk).
      replace (Z.of_N (mto m) =? epSquare p)%Z with false by (symmetry; apply Z.eqb_neq; exact Hnep). cbn [negb].
      rewrite Ed, Z.eqb_refl.
      assert (Early : (if (N.land (rookAttacks ks occ) (bit (mfrom m)) =? 0) && (N.land (bishopAttacks ks occ) (bit (mfrom m)) =? 0) then true else true) = true)
        by (destruct (_ && _); reflexivity).
      rewrite Early. cbn [fst snd]. split; [|apply restoredB_refl].
      symmetry. apply (same_dir_legal m Hm Hc Hnk Hnep Ed).
Qed.
End Full.
