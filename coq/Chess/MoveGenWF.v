(** Well-formed positions for the C01 theorems: the representation invariant that ties the
    bitboards to the mailbox board (the part of C02's invariant that move generation reads)
    together with what the FEN reader enforces ([Spec.accepted]).  Executable (boolean). *)
From Coq Require Import ZArith NArith List Bool.
From Texel Require Import Chess.Types Chess.Position Chess.BitBoard Chess.MoveGen Chess.Spec.
Import ListNotations.
Local Open Scope N_scope.

Definition pieceCodes : list piece := [1; 2; 3; 4; 5; 6; 7; 8; 9; 10; 11; 12].

(** bitboards = what the board says *)
Definition bbConsistentb (p : position) : bool :=
  (length (squares p) =? 64)%nat && (length (pieceTypeBB p) =? 13)%nat
  && forallb (fun pc => ptBB p pc =? bbOfPiece (squares p) pc) pieceCodes
  && (whiteBB p =? fold_left N.lor (map (bbOfPiece (squares p)) [1; 2; 3; 4; 5; 6]) 0)
  && (blackBB p =? fold_left N.lor (map (bbOfPiece (squares p)) [7; 8; 9; 10; 11; 12]) 0).

Definition wfb (p : position) : bool := bbConsistentb p && accepted (abs p).
Definition WF (p : position) : Prop := wfb p = true.

(** positions agree on everything except pieceTypeBB[EMPTY], which the C++ leaves
    history-dependent and never reads *)
Definition samePosition (p q : position) : Prop :=
  squares p = squares q /\ tl (pieceTypeBB p) = tl (pieceTypeBB q) /\ whiteBB p = whiteBB q /\ blackBB p = blackBB q /\
  whiteMove p = whiteMove q /\ halfMoveClock p = halfMoveClock q /\ fullMoveCounter p = fullMoveCounter q /\
  castleMask p = castleMask q /\ epSquare p = epSquare q /\ hashKey p = hashKey q /\ pHashKey p = pHashKey q /\
  matId p = matId q /\ wMtrl p = wMtrl q /\ bMtrl p = bMtrl q /\ wMtrlPawns p = wMtrlPawns q /\ bMtrlPawns p = bMtrlPawns q.

(** the move classes of the specialised generators (DESIGN.md C01) *)
Definition underPromotionRB (m : move) : bool :=
  (mpromote m =? WROOK) || (mpromote m =? BROOK) || (mpromote m =? WBISHOP) || (mpromote m =? BBISHOP).
Definition captureClass (sp : spos) (m : move) : bool :=
  (is_capture_spec sp m || negb (mpromote m =? EMPTY)) && negb (underPromotionRB m).
Definition captureCheckClass (sp : spos) (m : move) : bool :=
  (is_capture_spec sp m || negb (mpromote m =? EMPTY) || gives_check_spec sp m) && negb (underPromotionRB m).

(** Examples: the start position and the pinned-en-passant position (after e2e4 in
    8/2p5/3p4/KP5r/1R3p1k/8/4P1P1/8) are well-formed *)
Definition startPosition : position := positionOfBoard start_board true 15 (-1).
Example start_WF : WF startPosition.
Proof. vm_compute. reflexivity. Qed.

Definition epPinBoard : list piece :=
  [0;0;0;0;0;0;0;0;  0;0;0;0;0;0;WPAWN;0;  0;0;0;0;0;0;0;0;  0;WROOK;0;0;WPAWN;BPAWN;0;BKING;
   WKING;WPAWN;0;0;0;0;0;BROOK;  0;0;0;BPAWN;0;0;0;0;  0;0;BPAWN;0;0;0;0;0;  0;0;0;0;0;0;0;0].
Definition epPinPosition : position := positionOfBoard epPinBoard false 0 20.
Example epPin_WF : WF epPinPosition.
Proof. vm_compute. reflexivity. Qed.
(** ... and there the en-passant capture f4xe3 is pseudo-legal for the engine but not legal *)
Example epPin_ep_illegal :
  In (mkMove 29 20 EMPTY) (pseudoLegalMoves epPinPosition) /\
  ~ In (mkMove 29 20 EMPTY) (snd (removeIllegal zkDummy epPinPosition (pseudoLegalMoves epPinPosition))) /\
  legal_specb (abs epPinPosition) (mkMove 29 20 EMPTY) = false.
Proof.
  split; [|split].
  - vm_compute. tauto.
  - vm_compute. intuition discriminate.
  - vm_compute. reflexivity.
Qed.
