(** C01_nodup: pseudoLegalMoves of a well-formed position has no duplicates.
    The loops over set bits are rewritten as folds over the (duplicate-free, ascending) list
    of set bits [bitsOf mask]; every generator block then is an explicit [flat_map]; moves of
    one block differ in (from, to, promotion), moves of different blocks are told apart by a
    classifier (piece on the from-square; king step vs castling; pawn offset from - to). *)
From Coq Require Import ZArith NArith List Bool Lia.
From Texel Require Import Chess.Types Chess.Position Chess.BitBoard Chess.MoveGen Chess.Spec Chess.MoveGenWF
  Chess.BitBoardProofs Chess.RayProofs Chess.MoveGenProofs Chess.AttackProofs Chess.SliderProofs Chess.PawnProofs
  Chess.PseudoProofs Chess.PositionSpec Chess.ShortcutProofs gen.BitBoardTables.
Import ListNotations.
Local Open Scope N_scope.

(** * The list of set bits of a mask, as the loop visits them *)
Definition snocSq (l : list square) (s : square) : list square := l ++ [s].
Definition bitsOf (mask : N) : list square := forSquares mask snocSq [].

Lemma bbLoop_snoc : forall fuel mask l, bbLoop fuel mask snocSq l = l ++ bbLoop fuel mask snocSq [].
Proof.
  induction fuel as [|k IH]; intros mask l; cbn [bbLoop].
  - rewrite app_nil_r. reflexivity.
  - destruct (mask =? 0); [rewrite app_nil_r; reflexivity|].
    rewrite IH. rewrite (IH _ (snocSq [] _)). unfold snocSq. cbn [app]. rewrite <- app_assoc. reflexivity.
Qed.

Lemma bbLoop_fold : forall (A : Type) (f : A -> square -> A) fuel mask acc,
  bbLoop fuel mask f acc = fold_left f (bbLoop fuel mask snocSq []) acc.
Proof.
  intros A f. induction fuel as [|k IH]; intros mask acc; cbn [bbLoop].
  - reflexivity.
  - destruct (mask =? 0); [reflexivity|].
    rewrite bbLoop_snoc. unfold snocSq at 1. cbn [app fold_left]. apply IH.
Qed.

Lemma forSquares_fold : forall (A : Type) (f : A -> square -> A) mask acc,
  forSquares mask f acc = fold_left f (bitsOf mask) acc.
Proof. intros. unfold forSquares, bitsOf, forSquares. apply bbLoop_fold. Qed.

Lemma fold_left_app_flat : forall (A B : Type) (f : list B -> A -> list B) (g : A -> list B),
  (forall acc x, f acc x = acc ++ g x) ->
  forall l acc, fold_left f l acc = acc ++ flat_map g l.
Proof.
  intros A B f g Hf. induction l as [|x l IH]; intro acc; cbn [fold_left flat_map].
  - rewrite app_nil_r. reflexivity.
  - rewrite IH, Hf, <- app_assoc. reflexivity.
Qed.

Lemma forSquares_flat : forall (B : Type) (f : list B -> square -> list B) (g : square -> list B),
  (forall acc x, f acc x = acc ++ g x) ->
  forall mask acc, forSquares mask f acc = acc ++ flat_map g (bitsOf mask).
Proof. intros B f g Hf mask acc. rewrite forSquares_fold. apply fold_left_app_flat. exact Hf. Qed.

Lemma bitsOf_In : forall mask s, mask < 2 ^ 64 -> (In s (bitsOf mask) <-> N.testbit mask s = true).
Proof.
  intros mask s Hm. unfold bitsOf.
  rewrite (forSquares_In snocSq square (fun x l => In x l) (fun sq x => x = sq)); [| |exact Hm].
  - cbn [In]. split; [intros [[]|[sq [H ->]]]; exact H | intro H; right; exists s; auto].
  - intros acc sq x _. unfold snocSq. rewrite in_app_iff. cbn [In]. intuition.
Qed.

Lemma bbLoop_bits_NoDup : forall fuel mask,
  (forall i, N.testbit mask i = true -> 64 - N.of_nat fuel <= i /\ i < 64) ->
  NoDup (bbLoop fuel mask snocSq []).
Proof.
  induction fuel as [|k IH]; intros mask Hb; cbn [bbLoop]; [constructor|].
  destruct (N.eqb_spec mask 0) as [->|Hnz]; [constructor|].
  assert (Hpos : 0 < mask) by lia.
  assert (H64 : mask < 2 ^ 64) by (apply lt_2_64_of_bits; intros i Hi; apply Hb in Hi; lia).
  pose proof (firstBit_testbit mask Hpos) as Hfb.
  pose proof (clearLowest_spec mask Hpos) as Hcl.
  assert (Hb' : forall i, N.testbit (clearLowest mask) i = true -> 64 - N.of_nat k <= i /\ i < 64).
  { intros i Hi. rewrite Hcl in Hi. apply andb_true_iff in Hi. destruct Hi as [Hi Hne].
    apply negb_true_iff, N.eqb_neq in Hne.
    pose proof (firstBit_lowest mask i Hpos Hi) as Hlow.
    destruct (Hb _ Hfb) as [Hlo _]. destruct (Hb _ Hi) as [_ Hhi]. split; [|exact Hhi].
    rewrite Nat2N.inj_succ in Hlo. lia. }
  rewrite bbLoop_snoc. unfold snocSq at 1. cbn [app]. constructor; [|apply IH; exact Hb'].
  unfold firstSquare. rewrite (firstBitT_correct mask Hpos H64). intro Hin.
  apply (bbLoop_In snocSq square (fun x l => In x l) (fun sq x => x = sq)) in Hin; [| |exact Hb'].
  - destruct Hin as [[]|[sq [Hs E]]]. subst sq. rewrite Hcl, N.eqb_refl in Hs. rewrite andb_false_r in Hs. discriminate.
  - intros acc sq x _. unfold snocSq. rewrite in_app_iff. cbn [In]. intuition.
Qed.

Lemma bitsOf_NoDup : forall mask, mask < 2 ^ 64 -> NoDup (bitsOf mask).
Proof.
  intros mask Hm. unfold bitsOf, forSquares. apply bbLoop_bits_NoDup.
  intros i Hi. split; [unfold bbFuel; cbn; lia | exact (bits_below_64 mask Hm i Hi)].
Qed.

Lemma bitsOf_0 : bitsOf 0 = [].
Proof. reflexivity. Qed.

(** * NoDup toolkit *)
Lemma NoDup_app_intro : forall (A : Type) (l1 l2 : list A),
  NoDup l1 -> NoDup l2 -> (forall x, In x l1 -> In x l2 -> False) -> NoDup (l1 ++ l2).
Proof.
  intros A l1 l2 H1 H2 Hd. induction l1 as [|a l1 IH]; [exact H2|].
  cbn [app]. inversion H1 as [|? ? Hna Hnd]; subst. constructor.
  - rewrite in_app_iff. intros [H|H]; [exact (Hna H) | exact (Hd a (or_introl eq_refl) H)].
  - apply IH; [exact Hnd|]. intros x Hx. apply Hd. right. exact Hx.
Qed.

Lemma NoDup_flat_map_key : forall (A B : Type) (g : A -> list B) (key : B -> A) (l : list A),
  NoDup l -> (forall x, In x l -> NoDup (g x)) -> (forall x m, In x l -> In m (g x) -> key m = x) ->
  NoDup (flat_map g l).
Proof.
  intros A B g key l Hl. induction Hl as [|a l Hna Hnd IH]; intros Hg Hk; cbn [flat_map]; [constructor|].
  apply NoDup_app_intro.
  - apply Hg. left. reflexivity.
  - apply IH; [intros x Hx; apply Hg; right; exact Hx | intros x m Hx; apply Hk; right; exact Hx].
  - intros m H1 H2. apply in_flat_map in H2. destruct H2 as [x [Hx Hm]].
    assert (E1 : key m = a) by (apply Hk; [left; reflexivity | exact H1]).
    assert (E2 : key m = x) by (apply Hk; [right; exact Hx | exact Hm]).
    apply Hna. rewrite <- E1, E2. exact Hx.
Qed.

(** blocks told apart by a classifier *)
Lemma NoDup_concat_cls : forall (B : Type) (cls : B -> Z) (blocks : list (Z * list B)),
  NoDup (map fst blocks) ->
  (forall c l, In (c, l) blocks -> NoDup l /\ forall m, In m l -> cls m = c) ->
  NoDup (concat (map snd blocks)).
Proof.
  intros B cls blocks. induction blocks as [|[c l] bs IH]; intros Hnd Hb; cbn [map concat snd]; [constructor|].
  cbn [map fst] in Hnd. inversion Hnd as [|? ? Hna Hnd']; subst.
  destruct (Hb c l (or_introl eq_refl)) as [Hl Hc].
  apply NoDup_app_intro; [exact Hl | apply IH; [exact Hnd' | intros c' l' Hin; apply Hb; right; exact Hin] |].
  intros m H1 H2. apply in_concat in H2. destruct H2 as [l' [Hl' Hm]].
  apply in_map_iff in Hl'. destruct Hl' as [[c' l''] [E Hin]]. cbn [snd] in E. subst l''.
  destruct (Hb c' l' (or_intror Hin)) as [_ Hc']. apply Hna.
  rewrite <- (Hc m H1), (Hc' m Hm). apply in_map_iff. exists (c', l'). auto.
Qed.

(** * The generator blocks as explicit lists *)
Definition movesTo (sq0 : square) (mask : N) : list move :=
  flat_map (fun t => [mkMove sq0 t EMPTY]) (bitsOf mask).

Lemma addMovesByMask_list : forall l sq0 mask, addMovesByMask l sq0 mask = l ++ movesTo sq0 mask.
Proof.
  intros. unfold addMovesByMask, movesTo.
  apply (forSquares_flat move (fun l sq => addMove l sq0 sq EMPTY) (fun t => [mkMove sq0 t EMPTY])).
  intros acc x. reflexivity.
Qed.

Definition loopMoves (bb : N) (g : square -> N) : list move :=
  flat_map (fun sq => movesTo sq (g sq)) (bitsOf bb).

Lemma loop_list : forall bb (g : square -> N) l,
  forSquares bb (fun l sq => addMovesByMask l sq (g sq)) l = l ++ loopMoves bb g.
Proof.
  intros. unfold loopMoves.
  apply (forSquares_flat move (fun l sq => addMovesByMask l sq (g sq)) (fun sq => movesTo sq (g sq))).
  intros acc x. apply addMovesByMask_list.
Qed.

Lemma movesTo_In : forall sq0 mask m, In m (movesTo sq0 mask) -> mfrom m = sq0 /\ mpromote m = EMPTY /\ In (mto m) (bitsOf mask).
Proof.
  intros sq0 mask m H. unfold movesTo in H. apply in_flat_map in H. destruct H as [t [Ht [<-|[]]]]. cbn [mfrom mto mpromote]. auto.
Qed.

Lemma movesTo_NoDup : forall sq0 mask, mask < 2 ^ 64 -> NoDup (movesTo sq0 mask).
Proof.
  intros sq0 mask Hm. unfold movesTo. apply (NoDup_flat_map_key _ _ _ mto).
  - apply bitsOf_NoDup. exact Hm.
  - intros x _. constructor; [intros [] | constructor].
  - intros x m _ [<-|[]]. reflexivity.
Qed.

Lemma loopMoves_NoDup : forall bb g, bb < 2 ^ 64 -> (forall sq, sq < 64 -> g sq < 2 ^ 64) -> NoDup (loopMoves bb g).
Proof.
  intros bb g Hbb Hg. unfold loopMoves. apply (NoDup_flat_map_key _ _ _ mfrom).
  - apply bitsOf_NoDup. exact Hbb.
  - intros x Hx. apply movesTo_NoDup. apply Hg. apply (bits_below_64 bb Hbb). apply bitsOf_In; assumption.
  - intros x m _ Hm. apply movesTo_In in Hm. apply Hm.
Qed.

Lemma loopMoves_In : forall bb g m, bb < 2 ^ 64 -> In m (loopMoves bb g) ->
  N.testbit bb (mfrom m) = true /\ mpromote m = EMPTY /\ In (mto m) (bitsOf (g (mfrom m))).
Proof.
  intros bb g m Hbb H. unfold loopMoves in H. apply in_flat_map in H. destruct H as [sq [Hs Hm]].
  apply movesTo_In in Hm. destruct Hm as [E [Hp Ht]]. subst sq. split; [apply bitsOf_In; assumption | auto].
Qed.

(** pawn moves onto the squares of a mask *)
Definition promo4 (wtm : bool) (d : Z) (sq : square) : list move :=
  [mkMove (sqAdd sq d) sq (myPiece wtm WQUEEN); mkMove (sqAdd sq d) sq (myPiece wtm WKNIGHT);
   mkMove (sqAdd sq d) sq (myPiece wtm WROOK); mkMove (sqAdd sq d) sq (myPiece wtm WBISHOP)].
Definition plainTo (d : Z) (mask : N) : list move :=
  flat_map (fun sq => [mkMove (sqAdd sq d) sq EMPTY]) (bitsOf mask).
Definition pawnTo (wtm : bool) (mask : N) (d : Z) : list move :=
  flat_map (promo4 wtm d) (bitsOf (N.land mask maskRow1Row8)) ++ plainTo d (andn mask (N.land mask maskRow1Row8)).

Lemma addPawnMovesByMask_list : forall wtm l mask d,
  addPawnMovesByMask wtm l mask d true = l ++ pawnTo wtm mask d.
Proof.
  intros. unfold addPawnMovesByMask, pawnTo, plainTo.
  destruct (N.eqb_spec mask 0) as [->|Hnz].
  - rewrite N.land_0_l. unfold andn. rewrite N.ldiff_0_l, bitsOf_0. cbn. rewrite app_nil_r. reflexivity.
  - rewrite (forSquares_flat move _ (fun sq => [mkMove (sqAdd sq d) sq EMPTY])) by (intros; reflexivity).
    rewrite (forSquares_flat move _ (promo4 wtm d)).
    + rewrite <- app_assoc. reflexivity.
    + intros acc x. unfold addMove, promo4. rewrite <- !app_assoc. reflexivity.
Qed.

Lemma addPawnDoubleMovesByMask_list : forall l mask d, addPawnDoubleMovesByMask l mask d = l ++ plainTo d mask.
Proof.
  intros. unfold addPawnDoubleMovesByMask, plainTo.
  apply (forSquares_flat move _ (fun sq => [mkMove (sqAdd sq d) sq EMPTY])). intros; reflexivity.
Qed.

Lemma plainTo_In : forall d mask m, In m (plainTo d mask) ->
  In (mto m) (bitsOf mask) /\ mfrom m = sqAdd (mto m) d /\ mpromote m = EMPTY.
Proof. intros d mask m H. unfold plainTo in H. apply in_flat_map in H. destruct H as [t [Ht [<-|[]]]]. cbn [mfrom mto mpromote]. auto. Qed.

Lemma plainTo_NoDup : forall d mask, mask < 2 ^ 64 -> NoDup (plainTo d mask).
Proof.
  intros d mask Hm. unfold plainTo. apply (NoDup_flat_map_key _ _ _ mto).
  - apply bitsOf_NoDup. exact Hm.
  - intros x _. constructor; [intros [] | constructor].
  - intros x m _ [<-|[]]. reflexivity.
Qed.

Lemma promo4_In : forall wtm d sq m, In m (promo4 wtm d sq) -> mto m = sq /\ mfrom m = sqAdd sq d /\ mpromote m <> EMPTY.
Proof.
  intros wtm d sq m H. unfold promo4 in H. cbn [In] in H.
  destruct H as [<-|[<-|[<-|[<-|[]]]]]; cbn [mto mfrom mpromote]; (split; [reflexivity|]; split; [reflexivity|]);
    destruct wtm; vm_compute; discriminate.
Qed.

Lemma promo4_NoDup : forall wtm d sq, NoDup (promo4 wtm d sq).
Proof.
  intros. unfold promo4.
  assert (Hd : forall a b c d' : piece, a <> b -> mkMove (sqAdd sq d) sq a <> mkMove (sqAdd sq d) sq b)
    by (intros a b _ _ Hab H; apply Hab; exact (f_equal mpromote H)).
  repeat constructor; cbn [In]; intros H;
    repeat match goal with H : _ \/ _ |- _ => destruct H as [H|H] end; try contradiction;
    apply (f_equal mpromote) in H; destruct wtm; vm_compute in H; discriminate.
Qed.

Lemma pawnTo_In : forall wtm mask d m, mask < 2 ^ 64 -> In m (pawnTo wtm mask d) ->
  N.testbit mask (mto m) = true /\ mfrom m = sqAdd (mto m) d.
Proof.
  intros wtm mask d m Hm H. unfold pawnTo in H. apply in_app_iff in H. destruct H as [H|H].
  - apply in_flat_map in H. destruct H as [t [Ht Hin]]. apply promo4_In in Hin. destruct Hin as [E1 [E2 _]]. subst t.
    apply bitsOf_In in Ht; [|apply land_lt_l; exact Hm]. rewrite N.land_spec in Ht. apply andb_true_iff in Ht. split; [apply Ht | exact E2].
  - apply plainTo_In in H. destruct H as [Ht [E _]]. apply bitsOf_In in Ht; [|apply ldiff_lt; exact Hm].
    unfold andn in Ht. rewrite N.ldiff_spec in Ht. apply andb_true_iff in Ht. split; [apply Ht | exact E].
Qed.

Lemma pawnTo_NoDup : forall wtm mask d, mask < 2 ^ 64 -> NoDup (pawnTo wtm mask d).
Proof.
  intros wtm mask d Hm. unfold pawnTo. apply NoDup_app_intro.
  - apply (NoDup_flat_map_key _ _ _ mto).
    + apply bitsOf_NoDup, land_lt_l. exact Hm.
    + intros x _. apply promo4_NoDup.
    + intros x m _ Hin. apply promo4_In in Hin. apply Hin.
  - apply plainTo_NoDup, ldiff_lt. exact Hm.
  - intros m H1 H2. apply in_flat_map in H1. destruct H1 as [t [_ Hin]]. apply promo4_In in Hin.
    apply plainTo_In in H2. destruct Hin as [_ [_ Hne]]. destruct H2 as [_ [_ He]]. exact (Hne He).
Qed.

(** * pseudoLegalMoves as a concatenation of blocks *)
Section NoDupMoves.
Variable p : position.
Hypothesis HWF : WF p.
Let w := whiteMove p.
Let occ := occupiedBB p.
Let own := colorBB p w.
Let pawns := ptBB p (myPiece w WPAWN).
Let eoe := N.lor (colorBB p (negb w)) (epMaskOf p).
Let m1 := andn (fwd w pawns 8) occ.
Let m2 := andn (fwd w (N.land m1 (if w then maskRow3 else maskRow6)) 8) occ.
Let kL : N := if w then 7 else 9.
Let kR : N := if w then 9 else 7.
Let m3 := N.land (N.land (fwd w pawns kL) maskAToGFiles) eoe.
Let m4 := N.land (N.land (fwd w pawns kR) maskBToHFiles) eoe.
Let ks := kingSq p w.

Definition gQ (sq : square) : N := andn (N.lor (rookAttacks sq occ) (bishopAttacks sq occ)) own.
Definition gR (sq : square) : N := andn (rookAttacks sq occ) own.
Definition gB (sq : square) : N := andn (bishopAttacks sq occ) own.
Definition gN (sq : square) : N := andn (knightAttacks sq) own.

Definition lQ := loopMoves (ptBB p (myPiece w WQUEEN)) gQ.
Definition lR := loopMoves (ptBB p (myPiece w WROOK)) gR.
Definition lB := loopMoves (ptBB p (myPiece w WBISHOP)) gB.
Definition lK := movesTo ks (andn (kingAttacks ks) own).
Definition lC := castleMoves w p occ ks [].
Definition lN := loopMoves (ptBB p (myPiece w WKNIGHT)) gN.
Definition lP1 := pawnTo w m1 (delta w 8).
Definition lP2 := plainTo (delta w 16) m2.
Definition lP3 := pawnTo w m3 (delta w kL).
Definition lP4 := pawnTo w m4 (delta w kR).

Lemma castleMoves_list : forall l, castleMoves w p occ ks l = l ++ lC.
Proof.
  intro l. unfold lC. rewrite !castleMoves_normal. cbv zeta.
  match goal with |- context [ks =? ?k] => destruct (ks =? k) end; [|rewrite app_nil_r; reflexivity].
  cbn [app]. rewrite <- app_assoc. reflexivity.
Qed.

Lemma pseudo_list : pseudoLegalMoves p = lQ ++ lR ++ lB ++ lK ++ lC ++ lN ++ lP1 ++ lP2 ++ lP3 ++ lP4.
Proof.
  unfold pseudoLegalMoves, pseudoLegalMovesT. cbv zeta. fold w. rewrite pawnBlock_normal. cbv zeta.
  unfold knightBlock, kingBlock, bishopBlock, rookBlock, queenBlock. cbv zeta.
  fold occ own ks pawns. fold eoe. fold m1. fold m2. fold kL kR. fold m3 m4.
  rewrite !addPawnMovesByMask_list, addPawnDoubleMovesByMask_list.
  change (fun (l : moveList) (sq : square) => addMovesByMask l sq (andn (knightAttacks sq) own))
    with (fun (l : moveList) (sq : square) => addMovesByMask l sq (gN sq)).
  rewrite loop_list, castleMoves_list, addMovesByMask_list.
  change (fun (l : moveList) (sq : square) => addMovesByMask l sq (andn (bishopAttacks sq occ) own))
    with (fun (l : moveList) (sq : square) => addMovesByMask l sq (gB sq)).
  rewrite loop_list.
  change (fun (l : moveList) (sq : square) => addMovesByMask l sq (andn (rookAttacks sq occ) own))
    with (fun (l : moveList) (sq : square) => addMovesByMask l sq (gR sq)).
  rewrite loop_list.
  change (fun (l : moveList) (sq : square) => addMovesByMask l sq (andn (N.lor (rookAttacks sq occ) (bishopAttacks sq occ)) own))
    with (fun (l : moveList) (sq : square) => addMovesByMask l sq (gQ sq)).
  rewrite loop_list. cbn [app]. rewrite <- !app_assoc. reflexivity.
Qed.

(** the classifier *)
Definition cls (m : move) : Z :=
  let pc := getPiece p (mfrom m) in
  if pc =? mk_piece w King then (if N.testbit (kingAttacks (mfrom m)) (mto m) then 100 else 101)%Z
  else if pc =? mk_piece w Pawn then (200 + (Z.of_N (mfrom m) - Z.of_N (mto m)))%Z
  else Z.of_N pc.

Lemma bounds :
  pawns < 2 ^ 64 /\ m1 < 2 ^ 64 /\ m2 < 2 ^ 64 /\ m3 < 2 ^ 64 /\ m4 < 2 ^ 64 /\
  (forall sq, sq < 64 -> gQ sq < 2 ^ 64) /\ (forall sq, sq < 64 -> gR sq < 2 ^ 64) /\
  (forall sq, sq < 64 -> gB sq < 2 ^ 64) /\ (forall sq, sq < 64 -> gN sq < 2 ^ 64).
Proof.
  assert (Hp : pawns < 2 ^ 64) by (apply (pawns_lt p HWF w)).
  assert (H1 : m1 < 2 ^ 64) by (apply ldiff_lt, fwd_lt; exact Hp).
  repeat split; try assumption.
  - apply ldiff_lt, fwd_lt, land_lt_l; exact H1.
  - apply land_lt_l, land_lt_l, fwd_lt; exact Hp.
  - apply land_lt_l, land_lt_l, fwd_lt; exact Hp.
  - intros sq Hs. apply ldiff_lt. apply lt_2_64_of_bits. intros i Hi. rewrite N.lor_spec, orb_true_iff in Hi.
    destruct Hi as [Hi|Hi]; [exact (rookAttacks_in_board sq i _ Hs Hi) | exact (bishopAttacks_in_board sq i _ Hs Hi)].
  - intros sq Hs. apply ldiff_lt, rookAttacks_lt. exact Hs.
  - intros sq Hs. apply ldiff_lt, bishopAttacks_lt. exact Hs.
  - intros sq Hs. apply ldiff_lt, knightAttacks_lt.
Qed.

Lemma loop_cls : forall (wp : piece) g m, In wp [2; 3; 4; 5] ->
  In m (loopMoves (ptBB p (myPiece w wp)) g) -> cls m = Z.of_N (myPiece w wp).
Proof.
  intros wp g m Hwp Hin.
  assert (Hpc : In (myPiece w wp) pieceCodes) by (apply myPiece_codes; cbn [In] in Hwp |- *; tauto).
  apply loopMoves_In in Hin; [|apply ptBB_lt; assumption]. destruct Hin as [Hb _].
  rewrite (ptBB_testbit p _ _ HWF Hpc) in Hb. apply andb_true_iff in Hb. destruct Hb as [_ Hb]. apply N.eqb_eq in Hb.
  unfold cls. cbv zeta. rewrite Hb.
  cbn [In] in Hwp. destruct Hwp as [<-|[<-|[<-|[<-|[]]]]]; destruct w; reflexivity.
Qed.

Lemma ks_piece : ks < 64 /\ getPiece p ks = mk_piece w King.
Proof. apply kingSq_spec. exact HWF. Qed.

Lemma lK_cls : forall m, In m lK -> cls m = 100%Z.
Proof.
  intros m Hin. unfold lK in Hin. apply movesTo_In in Hin. destruct Hin as [Ef [_ Ht]].
  apply bitsOf_In in Ht; [|apply ldiff_lt, kingAttacks_lt].
  unfold andn in Ht. rewrite N.ldiff_spec in Ht. apply andb_true_iff in Ht. destruct Ht as [Ht _].
  unfold cls. cbv zeta. rewrite Ef. destruct ks_piece as [_ ->]. rewrite N.eqb_refl, Ht. reflexivity.
Qed.

Lemma lC_facts : forall m, In m lC ->
  ks = (if w then E1 else E8) /\ (m = mkMove ks (sqAdd ks 2) EMPTY \/ m = mkMove ks (sqAdd ks (-2)) EMPTY).
Proof.
  intros m Hin. unfold lC in Hin. rewrite castleMoves_normal in Hin. cbv zeta in Hin.
  match type of Hin with context [ks =? ?k] => destruct (N.eqb_spec ks k) as [E|E] end; [|destruct Hin].
  split; [exact E|]. rewrite <- E in Hin. cbn [app] in Hin. apply in_app_iff in Hin.
  destruct Hin as [Hin|Hin]; apply In_single_if in Hin; destruct Hin as [_ ->]; auto.
Qed.

Lemma lC_cls : forall m, In m lC -> cls m = 101%Z.
Proof.
  intros m Hin. destruct (lC_facts m Hin) as [Ek Hm]. unfold cls. cbv zeta.
  assert (Hf : mfrom m = ks) by (destruct Hm as [-> | ->]; reflexivity). rewrite Hf.
  destruct ks_piece as [_ ->]. rewrite N.eqb_refl.
  assert (Hk : forall (k : square) (ww : bool), k = (if ww then E1 else E8) ->
            N.testbit (kingAttacks k) (sqAdd k 2) = false /\ N.testbit (kingAttacks k) (sqAdd k (-2)) = false)
    by (intros k ww ->; destruct ww; split; vm_compute; reflexivity).
  destruct (Hk ks w Ek) as [Hk1 Hk2].
  assert (Ht : N.testbit (kingAttacks ks) (mto m) = false).
  { destruct Hm as [-> | ->]; cbn [mto]; assumption. }
  rewrite Ht. reflexivity.
Qed.

Lemma lC_NoDup : NoDup lC.
Proof.
  unfold lC. rewrite castleMoves_normal. cbv zeta.
  match goal with |- context [ks =? ?k] => destruct (ks =? k) end; [|constructor]. cbn [app].
  match goal with |- NoDup ((if ?a then _ else _) ++ (if ?b then _ else _)) => destruct a, b end;
    cbn [app]; repeat constructor; cbn [In]; try tauto.
  intros [H|[]]. destruct w; discriminate.
Qed.

Lemma pawn_from : forall (k : N) mask m, (forall t, N.testbit mask t = true -> N.testbit (fwd w pawns k) t = true) ->
  mask < 2 ^ 64 -> In m (pawnTo w mask (delta w k)) ->
  cls m = (200 + delta w k)%Z.
Proof.
  intros k mask m Hsub Hm Hin. destruct bounds as (Hp & _).
  apply pawnTo_In in Hin; [|exact Hm]. destruct Hin as [Ht Ef]. apply Hsub in Ht.
  apply (fwd_testbit w pawns k _ Hp) in Ht. destruct Ht as [_ [Hb Hz]]. rewrite <- Ef in Hb, Hz.
  apply (pawns_bit p HWF w) in Hb. destruct Hb as [_ Hb].
  unfold cls. cbv zeta. rewrite Hb.
  replace (mk_piece w Pawn =? mk_piece w King) with false by (destruct w; reflexivity). rewrite N.eqb_refl. lia.
Qed.

Lemma lP1_cls : forall m, In m lP1 -> cls m = (200 + delta w 8)%Z.
Proof.
  intros m Hin. destruct bounds as (_ & H1 & _). apply (pawn_from 8 m1 m); [|exact H1 | exact Hin].
  intros t Ht. unfold m1, andn in Ht. rewrite N.ldiff_spec in Ht. apply andb_true_iff in Ht. apply Ht.
Qed.
Lemma lP3_cls : forall m, In m lP3 -> cls m = (200 + delta w kL)%Z.
Proof.
  intros m Hin. destruct bounds as (_ & _ & _ & H3 & _). apply (pawn_from kL m3 m); [|exact H3 | exact Hin].
  intros t Ht. unfold m3 in Ht. rewrite !N.land_spec in Ht. rewrite !andb_true_iff in Ht. apply Ht.
Qed.
Lemma lP4_cls : forall m, In m lP4 -> cls m = (200 + delta w kR)%Z.
Proof.
  intros m Hin. destruct bounds as (_ & _ & _ & _ & H4 & _). apply (pawn_from kR m4 m); [|exact H4 | exact Hin].
  intros t Ht. unfold m4 in Ht. rewrite !N.land_spec in Ht. rewrite !andb_true_iff in Ht. apply Ht.
Qed.

Lemma lP2_cls : forall m, In m lP2 -> cls m = (200 + delta w 16)%Z.
Proof.
  intros m Hin. destruct bounds as (Hp & H1 & H2 & _).
  apply plainTo_In in Hin. destruct Hin as [Ht [Ef _]]. apply bitsOf_In in Ht; [|exact H2].
  unfold m2, andn in Ht. rewrite N.ldiff_spec in Ht. apply andb_true_iff in Ht. destruct Ht as [Ht _].
  apply (fwd_testbit w _ 8 _) in Ht; [|apply land_lt_l; exact H1]. destruct Ht as [_ [Hmid Hz]].
  rewrite N.land_spec in Hmid. apply andb_true_iff in Hmid. destruct Hmid as [Hmid _].
  unfold m1, andn in Hmid. rewrite N.ldiff_spec in Hmid. apply andb_true_iff in Hmid. destruct Hmid as [Hmid _].
  apply (fwd_testbit w pawns 8 _ Hp) in Hmid. destruct Hmid as [_ [Hb Hz2]].
  assert (E : sqAdd (sqAdd (mto m) (delta w 8)) (delta w 8) = mfrom m).
  { rewrite Ef. unfold sqAdd in *. rewrite delta_16. f_equal. lia. }
  rewrite E in Hb, Hz2. apply (pawns_bit p HWF w) in Hb. destruct Hb as [_ Hb].
  unfold cls. cbv zeta. rewrite Hb.
  replace (mk_piece w Pawn =? mk_piece w King) with false by (destruct w; reflexivity). rewrite N.eqb_refl.
  rewrite delta_16. lia.
Qed.

Theorem pseudoLegalMoves_NoDup : NoDup (pseudoLegalMoves p).
Proof.
  destruct bounds as (Hp & H1 & H2 & H3 & H4 & HgQ & HgR & HgB & HgN).
  assert (Hbb : forall wp, In wp [2; 3; 4; 5] -> ptBB p (myPiece w wp) < 2 ^ 64).
  { intros wp Hwp. apply ptBB_lt; [exact HWF|]. apply myPiece_codes. cbn [In] in Hwp |- *. tauto. }
  rewrite pseudo_list.
  pose (blocks := [(Z.of_N (myPiece w WQUEEN), lQ); (Z.of_N (myPiece w WROOK), lR); (Z.of_N (myPiece w WBISHOP), lB);
                   (100%Z, lK); (101%Z, lC); (Z.of_N (myPiece w WKNIGHT), lN);
                   ((200 + delta w 8)%Z, lP1); ((200 + delta w 16)%Z, lP2);
                   ((200 + delta w kL)%Z, lP3); ((200 + delta w kR)%Z, lP4)]).
  assert (E : lQ ++ lR ++ lB ++ lK ++ lC ++ lN ++ lP1 ++ lP2 ++ lP3 ++ lP4 = concat (map snd blocks)).
  { unfold blocks. cbn [map snd concat]. rewrite app_nil_r. reflexivity. }
  rewrite E. apply (NoDup_concat_cls move cls blocks).
  - unfold blocks, kL, kR. cbn [map fst]. generalize w. intros [|]; vm_compute; repeat constructor; cbn [In]; intuition discriminate.
  - intros c l Hin. unfold blocks in Hin. cbn [In] in Hin.
    repeat match goal with H : _ \/ _ |- _ => destruct H as [H|H] end; try contradiction; inversion Hin; subst c l; clear Hin.
    + split; [apply loopMoves_NoDup; [apply Hbb; cbn [In]; tauto | exact HgQ] | intros m Hm; apply (loop_cls WQUEEN gQ m); [cbn [In]; tauto | exact Hm]].
    + split; [apply loopMoves_NoDup; [apply Hbb; cbn [In]; tauto | exact HgR] | intros m Hm; apply (loop_cls WROOK gR m); [cbn [In]; tauto | exact Hm]].
    + split; [apply loopMoves_NoDup; [apply Hbb; cbn [In]; tauto | exact HgB] | intros m Hm; apply (loop_cls WBISHOP gB m); [cbn [In]; tauto | exact Hm]].
    + split; [apply movesTo_NoDup, ldiff_lt, kingAttacks_lt | exact lK_cls].
    + split; [exact lC_NoDup | exact lC_cls].
    + split; [apply loopMoves_NoDup; [apply Hbb; cbn [In]; tauto | exact HgN] | intros m Hm; apply (loop_cls WKNIGHT gN m); [cbn [In]; tauto | exact Hm]].
    + split; [apply pawnTo_NoDup; exact H1 | exact lP1_cls].
    + split; [apply plainTo_NoDup; exact H2 | exact lP2_cls].
    + split; [apply pawnTo_NoDup; exact H3 | exact lP3_cls].
    + split; [apply pawnTo_NoDup; exact H4 | exact lP4_cls].
Qed.
End NoDupMoves.

Theorem nodup_all : forall p, WF p -> NoDup (pseudoLegalMoves p).
Proof. exact pseudoLegalMoves_NoDup. Qed.

(** non-vacuity: kiwipete's 48 pseudo-legal moves are pairwise distinct *)
Example kiwipete_nodup : WF kiwipete /\ length (pseudoLegalMoves kiwipete) = 48%nat /\ NoDup (pseudoLegalMoves kiwipete).
Proof. split; [vm_compute; reflexivity | split; [vm_compute; reflexivity | apply nodup_all; vm_compute; reflexivity]]. Qed.

(** hence the list of legal moves computed by removeIllegal has no duplicates either *)
Theorem nodup_legal : forall zk p, emptyKeysZero zk -> WF p -> Consistent zk p ->
  NoDup (snd (removeIllegal zk p (pseudoLegalMoves p))).
Proof.
  intros zk p E H C. destruct (legal_exact zk p E H C) as [_ [Eq _]]. rewrite Eq.
  apply NoDup_filter. apply nodup_all. exact H.
Qed.
