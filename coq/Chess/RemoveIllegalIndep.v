(** removeIllegal's output does not depend on the Zobrist tables nor on the hash / material
    fields of the position: make, the king test and unmake read and write the board part
    (board, piece boards, colour boards) and the scalar fields (side, clocks, castle mask,
    e.p. square) only through operations that are functions of these.  Hence every theorem
    about removeIllegal proved under C02's invariant holds for any tables and any values of
    the redundant fields (via the twin position). *)
From Coq Require Import ZArith NArith List Bool Lia.
From Texel Require Import Chess.Types Chess.Position Chess.PositionSpec Chess.PositionFacts Chess.PositionProofs
  Chess.PositionProofs2 Chess.PositionProofs4 Chess.PositionTheorems Chess.PositionB
  Chess.BitBoard Chess.MoveGen Chess.Spec Chess.MoveGenWF Chess.WfProofs Chess.IsLegalAll gen.BitBoardTables.
Import ListNotations.
Local Open Scope N_scope.

Definition SE (x : position) := (bbpart x, scalars x).
Definition E (x y : position) : Prop := SE x = SE y.

Lemma E_refl : forall x, E x x. Proof. reflexivity. Qed.
Lemma E_twin : forall p, E p (twin p). Proof. reflexivity. Qed.

Lemma E_parts : forall x y, E x y -> bbpart x = bbpart y /\ scalars x = scalars y.
Proof. unfold E, SE. intros x y H. split; [exact (f_equal fst H) | exact (f_equal snd H)]. Qed.
Lemma E_make : forall x y, bbpart x = bbpart y -> scalars x = scalars y -> E x y.
Proof. unfold E, SE. intros x y -> ->. reflexivity. Qed.

Lemma E_reads : forall x y, E x y ->
  (forall s, getPiece x s = getPiece y s) /\ (forall pc, ptBB x pc = ptBB y pc) /\
  whiteMove x = whiteMove y /\ halfMoveClock x = halfMoveClock y /\ fullMoveCounter x = fullMoveCounter y /\
  castleMask x = castleMask y /\ epSquare x = epSquare y /\ occupiedBB x = occupiedBB y.
Proof.
  intros x y H. destruct (E_parts x y H) as [Hb Hs]. destruct (bbpart_eq_fields _ _ Hb) as (A & B & C & D).
  unfold scalars in Hs. inversion Hs. unfold getPiece, ptBB, occupiedBB. rewrite A, B, C, D. repeat split; auto.
Qed.

Section Indep.
Variable zk zk' : zkeys.

Ltac useE H := destruct (E_parts _ _ H) as [?Hb ?Hs].

Lemma E_setPiece : forall x y sq pc, E x y -> E (setPiece zk x sq pc) (setPiece zk' y sq pc).
Proof. intros x y sq pc H. useE H. apply E_make; [rewrite !bbpart_setPiece, Hb | rewrite !scalars_setPiece, Hs]; reflexivity. Qed.
Lemma E_clearPiece : forall x y sq, E x y -> E (clearPiece zk x sq) (clearPiece zk' y sq).
Proof. intros x y sq H. useE H. apply E_make; [rewrite !bbpart_clearPiece, Hb | rewrite !scalars_clearPiece, Hs]; reflexivity. Qed.
Lemma E_mPNP : forall x y f t, E x y -> E (movePieceNotPawn zk x f t) (movePieceNotPawn zk' y f t).
Proof. intros x y f t H. useE H. apply E_make; [rewrite !bbpart_mPNP, Hb | rewrite !scalars_movePieceNotPawn, Hs]; reflexivity. Qed.
Lemma E_setEp : forall x y e, E x y -> E (setEpSquare zk x e) (setEpSquare zk' y e).
Proof.
  intros x y e H. useE H. destruct (E_reads x y H) as (_ & _ & A & B & C & D & _).
  apply E_make; [rewrite !bbpart_setEp, Hb; reflexivity | rewrite !scalars_setEp, A, B, C, D; reflexivity].
Qed.
Lemma E_setCastle : forall x y c, E x y -> E (setCastleMask zk x c) (setCastleMask zk' y c).
Proof.
  intros x y c H. useE H. destruct (E_reads x y H) as (_ & _ & A & B & C & _ & D & _).
  apply E_make; [rewrite !bbpart_setCastle, Hb; reflexivity | rewrite !scalars_setCastle, A, B, C, D; reflexivity].
Qed.
Lemma E_set_hashKey_l : forall x y h, E x y -> E (set_hashKey x h) y.
Proof. intros x y h H. exact H. Qed.
Lemma E_set_hashKey : forall x y h h', E x y -> E (set_hashKey x h) (set_hashKey y h').
Proof. intros x y h h' H. exact H. Qed.
Lemma E_set_hmc : forall x y h, E x y -> E (set_halfMoveClock x h) (set_halfMoveClock y h).
Proof.
  intros x y h H. useE H. destruct (E_reads x y H) as (_ & _ & A & B & C & D & F & _).
  apply E_make; [exact Hb | unfold scalars; cbn [whiteMove halfMoveClock fullMoveCounter castleMask epSquare set_halfMoveClock]; congruence].
Qed.
Lemma E_set_fmc : forall x y h, E x y -> E (set_fullMoveCounter x h) (set_fullMoveCounter y h).
Proof.
  intros x y h H. useE H. destruct (E_reads x y H) as (_ & _ & A & B & C & D & F & _).
  apply E_make; [exact Hb | unfold scalars; cbn [whiteMove halfMoveClock fullMoveCounter castleMask epSquare set_fullMoveCounter]; congruence].
Qed.
Lemma E_set_wm : forall x y b, E x y -> E (set_whiteMove x b) (set_whiteMove y b).
Proof.
  intros x y b H. useE H. destruct (E_reads x y H) as (_ & _ & A & B & C & D & F & _).
  apply E_make; [exact Hb | unfold scalars; cbn [whiteMove halfMoveClock fullMoveCounter castleMask epSquare set_whiteMove]; congruence].
Qed.
Lemma E_setWhiteMove : forall x y b, E x y -> E (setWhiteMove zk x b) (setWhiteMove zk' y b).
Proof.
  intros x y b H. destruct (E_reads x y H) as (_ & _ & A & _). unfold setWhiteMove. rewrite A.
  destruct (negb (Bool.eqb b (whiteMove y))); [apply E_set_wm, E_set_hashKey; exact H | exact H].
Qed.

Lemma E_mmEpBlock : forall x y m pc ep, E x y -> E (mmEpBlock zk x m pc ep) (mmEpBlock zk' y m pc ep).
Proof.
  intros x y m pc ep H. destruct (E_reads x y H) as (_ & Hpt & _). unfold mmEpBlock. rewrite !Hpt.
  repeat match goal with |- context [if ?c then _ else _] => destruct c end;
    first [apply E_setEp | apply E_clearPiece | idtac]; exact H.
Qed.

Lemma E_mmCaptureBranch : forall x y m pc ep, E x y -> E (mmCaptureBranch zk x m pc ep) (mmCaptureBranch zk' y m pc ep).
Proof.
  intros x y m pc ep H. unfold mmCaptureBranch. cbv zeta.
  apply E_setPiece, E_clearPiece, E_mmEpBlock, E_set_hmc. exact H.
Qed.

Lemma E_mmCastleBlock : forall x y m mask, E x y -> E (mmCastleBlock zk x m mask) (mmCastleBlock zk' y m mask).
Proof.
  intros x y m mask H. destruct (E_reads x y H) as (_ & Hpt & _). unfold mmCastleBlock, kingsAt. rewrite !Hpt.
  repeat match goal with |- context [if ?c then _ else _] => destruct c end; first [apply E_mPNP | idtac]; exact H.
Qed.

Lemma E_mmQuietBranch : forall x y m mask, E x y -> E (mmQuietBranch zk x m mask) (mmQuietBranch zk' y m mask).
Proof.
  intros x y m mask H. destruct (E_reads x y H) as (_ & _ & _ & Hh & _). unfold mmQuietBranch. cbv zeta. rewrite Hh.
  apply E_mPNP, E_mmCastleBlock, E_set_hmc. exact H.
Qed.

Lemma E_mmEpilogue : forall x y m w, E x y -> E (mmEpilogue zk x m w) (mmEpilogue zk' y m w).
Proof.
  intros x y m w H. destruct (E_reads x y H) as (_ & _ & _ & _ & _ & Hc & _). unfold mmEpilogue. cbv zeta. rewrite Hc.
  assert (H1 : E (setCastleMask zk x (N.land (N.land (castleMask y) (castleSqMask (mfrom m))) (castleSqMask (mto m))))
                 (setCastleMask zk' y (N.land (N.land (castleMask y) (castleSqMask (mfrom m))) (castleSqMask (mto m)))))
    by (apply E_setCastle; exact H).
  destruct (E_reads _ _ H1) as (_ & _ & _ & _ & Hf & _).
  destruct (negb w); [rewrite Hf; apply E_set_wm, E_set_fmc; exact H1 | apply E_set_wm; exact H1].
Qed.

Lemma E_makeMove : forall x y m, E x y ->
  E (fst (makeMove zk x m)) (fst (makeMove zk' y m)) /\ snd (makeMove zk x m) = snd (makeMove zk' y m).
Proof.
  intros x y m H. destruct (E_reads x y H) as (Hg & Hpt & Hw & Hh & _ & Hc & He & _). split.
  - rewrite !makeMove_fst. rewrite !Hg, Hw, He.
    assert (H2 : E (setEpSquare zk (set_hashKey x (N.lxor (hashKey x) (zk_white zk))) (-1))
                   (setEpSquare zk' (set_hashKey y (N.lxor (hashKey y) (zk_white zk'))) (-1)))
      by (apply E_setEp, E_set_hashKey; exact H).
    destruct (E_reads _ _ H2) as (_ & Hpt2 & _). unfold pawnsAt. rewrite !Hpt2.
    apply E_mmEpilogue. destruct (negb (getPiece y (mto m) =? EMPTY) || _); [apply E_mmCaptureBranch | apply E_mmQuietBranch]; exact H2.
  - unfold makeMove. cbv zeta. cbn [snd]. rewrite Hg, Hc, He, Hh. reflexivity.
Qed.

(** unMakeMove *)
Lemma E_umRestore1 : forall x y m ui, E x y -> E (umRestore1 zk x m ui) (umRestore1 zk' y m ui).
Proof.
  intros x y m ui H. destruct (E_reads x y H) as (Hg & _ & Hw & _). unfold umRestore1. cbv zeta.
  assert (H1 : E (set_whiteMove (set_hashKey x (N.lxor (hashKey x) (zk_white zk))) (negb (whiteMove (set_hashKey x (N.lxor (hashKey x) (zk_white zk))))))
                 (set_whiteMove (set_hashKey y (N.lxor (hashKey y) (zk_white zk'))) (negb (whiteMove (set_hashKey y (N.lxor (hashKey y) (zk_white zk')))))))
    by (cbn [whiteMove set_hashKey]; rewrite Hw; apply E_set_wm, E_set_hashKey; exact H).
  destruct (E_reads _ _ H1) as (Hg1 & _). rewrite (Hg1 (mto m)).
  apply E_set_hmc, E_setEp, E_setCastle, E_setPiece, E_setPiece. exact H1.
Qed.

Lemma E_umRestoreBlock : forall x y m ui, E x y ->
  E (fst (umRestoreBlock zk x m ui)) (fst (umRestoreBlock zk' y m ui)) /\ snd (umRestoreBlock zk x m ui) = snd (umRestoreBlock zk' y m ui).
Proof.
  intros x y m ui H. destruct (E_reads x y H) as (Hg & _). rewrite !umRestoreBlock_unfold. cbv zeta.
  pose proof (E_umRestore1 x y m ui H) as H1. destruct (E_reads _ _ H1) as (_ & _ & Hw1 & _). rewrite Hw1, (Hg (mto m)).
  destruct (negb (mpromote m =? EMPTY)); cbn [fst snd].
  - assert (H2 : E (setPiece zk (umRestore1 zk x m ui) (mfrom m) (if whiteMove (umRestore1 zk' y m ui) then WPAWN else BPAWN))
                   (setPiece zk' (umRestore1 zk' y m ui) (mfrom m) (if whiteMove (umRestore1 zk' y m ui) then WPAWN else BPAWN)))
      by (apply E_setPiece; exact H1).
    destruct (E_reads _ _ H2) as (_ & _ & _ & _ & Hf & _).
    split; [|reflexivity]. destruct (negb (whiteMove (umRestore1 zk' y m ui))); [rewrite Hf; apply E_set_fmc; exact H2 | exact H2].
  - destruct (E_reads _ _ H1) as (_ & _ & _ & _ & Hf & _).
    split; [|reflexivity]. destruct (negb (whiteMove (umRestore1 zk' y m ui))); [rewrite Hf; apply E_set_fmc; exact H1 | exact H1].
Qed.

Lemma E_umCastleBlock : forall x y m pc, E x y -> E (umCastleBlock zk x m pc) (umCastleBlock zk' y m pc).
Proof.
  intros x y m pc H. destruct (E_reads x y H) as (_ & _ & Hw & _). unfold umCastleBlock. cbv zeta. rewrite Hw.
  repeat match goal with |- context [if ?c then _ else _] => destruct c end; first [apply E_mPNP | idtac]; exact H.
Qed.

Lemma E_umEpBlock : forall x y m pc, E x y -> E (umEpBlock zk x m pc) (umEpBlock zk' y m pc).
Proof.
  intros x y m pc H. destruct (E_reads x y H) as (_ & _ & _ & _ & _ & _ & He & _). unfold umEpBlock. rewrite He.
  repeat match goal with |- context [if ?c then _ else _] => destruct c end; first [apply E_setPiece | idtac]; exact H.
Qed.

Lemma E_unMakeMove : forall x y m ui, E x y -> E (unMakeMove zk x m ui) (unMakeMove zk' y m ui).
Proof.
  intros x y m ui H. rewrite !unMakeMove_unfold. destruct (E_umRestoreBlock x y m ui H) as [H1 H2]. rewrite H2.
  apply E_umEpBlock, E_umCastleBlock. exact H1.
Qed.

Lemma E_inCheck : forall x y, E x y -> inCheck x = inCheck y.
Proof. intros x y H. destruct (E_parts x y H) as [Hb _]. destruct (E_reads x y H) as (_ & _ & Hw & _). apply inCheck_dep; assumption. Qed.

Lemma E_tryMove : forall x y m, E x y ->
  E (fst (tryMove zk x m)) (fst (tryMove zk' y m)) /\ snd (tryMove zk x m) = snd (tryMove zk' y m).
Proof.
  intros x y m H. unfold tryMove. destruct (E_makeMove x y m H) as [H1 H2].
  destruct (makeMove zk x m) as [q ui]. destruct (makeMove zk' y m) as [q' ui']. cbn [fst snd] in *. subst ui'.
  destruct (E_reads _ _ H1) as (_ & _ & Hw & _).
  assert (H3 : E (setWhiteMove zk q (negb (whiteMove q))) (setWhiteMove zk' q' (negb (whiteMove q')))) by (rewrite Hw; apply E_setWhiteMove; exact H1).
  destruct (E_reads _ _ H3) as (_ & _ & Hw3 & _).
  split; [|f_equal; apply E_inCheck; exact H3].
  apply E_unMakeMove. rewrite Hw3. apply E_setWhiteMove. exact H3.
Qed.

Theorem E_removeIllegal : forall ml x y, E x y -> snd (removeIllegal zk x ml) = snd (removeIllegal zk' y ml).
Proof.
  intros ml x y H. unfold removeIllegal. cbv zeta.
  destruct (E_reads x y H) as (_ & Hpt & Hw & _ & _ & _ & He & Ho).
  rewrite (E_inCheck x y H), Ho, Hw, He. unfold kingSq. rewrite !Hpt.
  set (ks := firstSquare (ptBB y (if whiteMove y then WKING else BKING))).
  assert (Hfold : forall (skip : move -> bool) (keepSkipped : bool) ml (out : moveList) a c, E a c ->
            snd (fold_left (fun (st : position * moveList) m => let '(pos, out) := st in
                             if skip m then (pos, if keepSkipped then out ++ [m] else out)
                             else let '(pos, legal) := tryMove zk pos m in (pos, if legal then out ++ [m] else out)) ml (a, out)) =
            snd (fold_left (fun (st : position * moveList) m => let '(pos, out) := st in
                             if skip m then (pos, if keepSkipped then out ++ [m] else out)
                             else let '(pos, legal) := tryMove zk' pos m in (pos, if legal then out ++ [m] else out)) ml (c, out))).
  { intros skip ks0. induction ml0 as [|m ml0 IH]; intros out a c Hac; [reflexivity|]. cbn [fold_left].
    destruct (skip m); [apply IH; exact Hac|].
    destruct (E_tryMove a c m Hac) as [H1 H2]. destruct (tryMove zk a m) as [a1 l1]. destruct (tryMove zk' c m) as [c1 l2].
    cbn [fst snd] in *. subst l2. apply IH. exact H1. }
  destruct (inCheck y).
  - exact (Hfold (fun m => negb (mfrom m =? ks) && (N.land (N.lor (N.lor (rookAttacks ks (occupiedBB y)) (bishopAttacks ks (occupiedBB y))) (ptBB y (if whiteMove y then BKNIGHT else WKNIGHT))) (bit (mto m)) =? 0) && negb (Z.of_N (mto m) =? epSquare y)%Z)
                   false ml [] x y H).
  - exact (Hfold (fun m => negb (mfrom m =? ks) && (N.land (N.lor (rookAttacks ks (occupiedBB y)) (bishopAttacks ks (occupiedBB y))) (bit (mfrom m)) =? 0) && negb (Z.of_N (mto m) =? epSquare y)%Z)
                   true ml [] x y H).
Qed.
End Indep.

(** the list removeIllegal computes, for any tables and any redundant fields *)
Theorem removeIllegal_twin : forall zk p ml, snd (removeIllegal zk p ml) = snd (removeIllegal zkDummy (twin p) ml).
Proof. intros zk p ml. apply E_removeIllegal. apply E_twin. Qed.

(** C01_legal_exact for any Zobrist tables and any values of the redundant fields *)
From Texel Require Import Chess.PseudoProofs Chess.ShortcutProofs Chess.NoDupProofs.
Theorem legal_exact_any : forall zk p, WF p ->
  let r := removeIllegal zk p (pseudoLegalMoves p) in
  (forall m, In m (snd r) <-> legal_spec (abs p) m) /\
  snd r = filter (legal_specb (abs p)) (pseudoLegalMoves p) /\ NoDup (snd r).
Proof.
  intros zk p H. cbv zeta. rewrite removeIllegal_twin. set (p' := twin p).
  assert (W' : WF p') by exact H. pose proof (twin_consistent p H) as C'. fold p' in C'.
  rewrite <- (twin_pseudo_eq p). fold p'.
  destruct (legal_exact zkDummy p' zkDummy_empty W' C') as (A & B & _). change (abs p') with (abs p) in A, B.
  split; [exact A|]. split; [exact B|]. rewrite B. apply NoDup_filter. apply nodup_all. exact W'.
Qed.
