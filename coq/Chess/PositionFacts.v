(** Facts about list update, bitboards-from-board, key folds and sums used by the C02 proofs. *)
From Coq Require Import ZArith NArith List Bool Lia Btauto.
From Texel Require Import Chess.Types Chess.Position Chess.PositionSpec.
Import ListNotations.
Local Open Scope N_scope.

(* ------------------------------------------------------------------ *)
(** * list update *)
Lemma length_updL {A} n (x : A) l : length (updL n x l) = length l.
Proof. revert n; induction l; intros [|n]; simpl; auto. Qed.

Lemma nth_updL_eq {A} n (x d : A) l : (n < length l)%nat -> nth n (updL n x l) d = x.
Proof. revert n; induction l; intros [|n] H; simpl in *; try lia; auto. apply IHl; lia. Qed.

Lemma nth_updL_neq {A} n m (x d : A) l : n <> m -> nth m (updL n x l) d = nth m l d.
Proof.
  revert n m; induction l; intros [|n] [|m] H; simpl; auto; try congruence.
Qed.

Lemma updL_oob {A} n (x : A) l : (length l <= n)%nat -> updL n x l = l.
Proof. revert n; induction l; intros [|n] H; simpl in *; auto; try lia. f_equal; apply IHl; lia. Qed.

Lemma length_updN {A} n (x : A) l : length (updN n x l) = length l.
Proof. apply length_updL. Qed.

Lemma nth_updN_eq {A} n (x d : A) l : (N.to_nat n < length l)%nat -> nth (N.to_nat n) (updN n x l) d = x.
Proof. apply nth_updL_eq. Qed.

Lemma nth_updN_neq {A} n m (x d : A) l : n <> m -> nth (N.to_nat m) (updN n x l) d = nth (N.to_nat m) l d.
Proof. intro H; apply nth_updL_neq; lia. Qed.

Lemma Forall_updL {A} (P : A -> Prop) n x l : Forall P l -> P x -> Forall P (updL n x l).
Proof.
  intros H Hx; revert n; induction H; intros [|n]; simpl; auto.
Qed.

Lemma updL_updL_same {A} n (x y : A) l : updL n x (updL n y l) = updL n x l.
Proof. revert n; induction l; intros [|n]; simpl; auto. f_equal; auto. Qed.

Lemma updL_nth_id {A} n (d : A) l : updL n (nth n l d) l = l.
Proof. revert n; induction l; intros [|n]; simpl; auto. f_equal; auto. Qed.

Lemma updL_comm {A} n m (x y : A) l : n <> m -> updL n x (updL m y l) = updL m y (updL n x l).
Proof.
  revert n m; induction l; intros [|n] [|m] H; simpl; auto; try congruence.
  f_equal; apply IHl; congruence.
Qed.

(** lists of equal length with equal entries *)
Lemma list_ext {A} (d : A) l1 l2 :
  length l1 = length l2 -> (forall i, (i < length l1)%nat -> nth i l1 d = nth i l2 d) -> l1 = l2.
Proof. intros; eapply nth_ext; eauto. Qed.

(* ------------------------------------------------------------------ *)
(** * bits *)
Lemma testbit_sqMask s i : N.testbit (sqMask s) i = (s =? i).
Proof. unfold sqMask. rewrite N.shiftl_1_l. apply N.pow2_bits_eqb. Qed.

Lemma testbit_bbOfFrom f sqs : forall i j,
  N.testbit (bbOfFrom f i sqs) j =
  (i <=? j) && (j <? i + N.of_nat (length sqs)) && f (nth (N.to_nat (j - i)) sqs EMPTY).
Proof.
  induction sqs as [|pc t IH]; intros i j.
  - cbn [bbOfFrom length]. rewrite N.bits_0. destruct (i <=? j) eqn:E1; simpl; auto.
    replace (j <? i + 0) with false; auto. symmetry; apply N.ltb_ge. apply N.leb_le in E1. lia.
  - cbn [bbOfFrom length nth]. rewrite N.lor_spec, IH.
    assert (Hm : N.testbit (if f pc then sqMask i else 0) j = f pc && (i =? j)).
    { destruct (f pc); cbn [andb]; [apply testbit_sqMask | apply N.bits_0]. }
    rewrite Hm. clear Hm.
    destruct (N.eqb_spec i j) as [->|Hne].
    + replace (N.succ j <=? j) with false by (symmetry; apply N.leb_gt; lia).
      rewrite N.leb_refl. replace (j <? j + N.of_nat (S (length t))) with true by (symmetry; apply N.ltb_lt; lia).
      rewrite N.sub_diag. simpl. destruct (f pc); reflexivity.
    + rewrite andb_false_r. simpl.
      destruct (N.leb_spec i j) as [Hle|Hgt].
      * replace (N.succ i <=? j) with true by (symmetry; apply N.leb_le; lia).
        replace (j <? N.succ i + N.of_nat (length t)) with (j <? i + N.of_nat (S (length t))).
        2:{ destruct (N.ltb_spec j (i + N.of_nat (S (length t)))); destruct (N.ltb_spec j (N.succ i + N.of_nat (length t))); auto; lia. }
        replace (N.to_nat (j - i)) with (S (N.to_nat (j - N.succ i))) by lia.
        reflexivity.
      * replace (N.succ i <=? j) with false by (symmetry; apply N.leb_gt; lia). reflexivity.
Qed.

Lemma testbit_bbOf f sqs j :
  N.testbit (bbOf f sqs) j = (j <? N.of_nat (length sqs)) && f (nth (N.to_nat j) sqs EMPTY).
Proof. unfold bbOf. rewrite testbit_bbOfFrom. rewrite N.sub_0_r, N.add_0_l. replace (0 <=? j) with true by (symmetry; apply N.leb_le; lia). reflexivity. Qed.

(** generic "remove the old piece's bit, add the new piece's bit" on a class board *)
Definition updBB (f : piece -> bool) (bb : N) (removed pc : piece) (m : N) : N :=
  let b1 := if f removed then N.ldiff bb m else bb in
  if f pc then N.lor b1 m else b1.

Lemma bbOf_updN f sqs sq pc :
  sq < N.of_nat (length sqs) ->
  bbOf f (updN sq pc sqs) = updBB f (bbOf f sqs) (nth (N.to_nat sq) sqs EMPTY) pc (sqMask sq).
Proof.
  intro Hlt. apply N.bits_inj. intro j. unfold updBB.
  rewrite testbit_bbOf, length_updN.
  assert (Hj : forall b, N.testbit (bbOf f sqs) j = b -> b = (j <? N.of_nat (length sqs)) && f (nth (N.to_nat j) sqs EMPTY))
    by (intros b <-; apply testbit_bbOf).
  destruct (N.eqb_spec sq j) as [->|Hne].
  - rewrite nth_updN_eq by lia.
    replace (j <? N.of_nat (length sqs)) with true in * by (symmetry; apply N.ltb_lt; lia).
    simpl.
    destruct (f (nth (N.to_nat j) sqs EMPTY)) eqn:E1; destruct (f pc) eqn:E2;
      rewrite ?N.lor_spec, ?N.ldiff_spec, ?testbit_sqMask, ?N.eqb_refl, ?testbit_bbOf; simpl;
      rewrite ?andb_false_r, ?orb_true_r; auto.
    rewrite E1, andb_false_r; reflexivity.
  - rewrite nth_updN_neq by auto.
    destruct (f (nth (N.to_nat sq) sqs EMPTY)); destruct (f pc);
      rewrite ?N.lor_spec, ?N.ldiff_spec, ?testbit_sqMask, ?testbit_bbOf;
      replace (sq =? j) with false by (symmetry; apply N.eqb_neq; auto); simpl;
      rewrite ?andb_true_r, ?orb_false_r; auto.
Qed.

(* ------------------------------------------------------------------ *)
(** * xor and sums *)
Ltac xor_solve := apply N.bits_inj; intro; rewrite ?N.lxor_spec, ?N.bits_0; btauto.

Lemma lxor_cancel_r a b : N.lxor (N.lxor a b) b = a.
Proof. xor_solve. Qed.

Lemma sumZ_map_updL (g : piece -> Z) n x l :
  (n < length l)%nat -> sumZ (map g (updL n x l)) = (sumZ (map g l) - g (nth n l EMPTY) + g x)%Z.
Proof.
  revert n; induction l; intros [|n] H; simpl in *; try lia.
  rewrite IHl by lia. lia.
Qed.

Section Keys.
Variable zk : zkeys.

Definition keyIf (f : piece -> bool) (pc : piece) (sq : square) : N := if f pc then psKey zk pc sq else 0.

Lemma xorKeysFrom_updL f l : forall n i x,
  (n < length l)%nat ->
  xorKeysFrom zk f i (updL n x l) =
  N.lxor (N.lxor (xorKeysFrom zk f i l) (keyIf f (nth n l EMPTY) (i + N.of_nat n))) (keyIf f x (i + N.of_nat n)).
Proof.
  induction l as [|a t IH]; intros [|n] i x H; simpl in *; try lia.
  - rewrite N.add_0_r. unfold keyIf. xor_solve.
  - rewrite IH by lia. replace (N.succ i + N.of_nat n) with (i + N.pos (Pos.of_succ_nat n)) by lia.
    xor_solve.
Qed.

End Keys.
