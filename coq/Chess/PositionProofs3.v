(** C02 proofs, part 3: walking through makeMove / unMakeMove block by block.
    [St k sqs sc cur]: the position [cur] satisfies the invariant with key offset [k], its board is
    [sqs] and its scalar fields (side, clocks, castle mask, e.p. square) are [sc]. *)
From Coq Require Import ZArith NArith List Bool Lia Btauto.
From Texel Require Import Chess.Types Chess.Position Chess.PositionSpec Chess.PositionFacts
  Chess.PositionProofs Chess.PositionProofs2.
Import ListNotations.
Local Open Scope N_scope.

Definition nthP (sqs : list piece) (s : square) : piece := nth (N.to_nat s) sqs EMPTY.

Lemma nthP_updN_eq sqs s x : s < N.of_nat (length sqs) -> nthP (updN s x sqs) s = x.
Proof. intro H. unfold nthP. apply nth_updN_eq. lia. Qed.
Lemma nthP_updN_neq sqs s s' x : s <> s' -> nthP (updN s x sqs) s' = nthP sqs s'.
Proof. intro H. unfold nthP. apply nth_updN_neq. auto. Qed.

Ltac nth_eval :=
  repeat first [ rewrite nthP_updN_eq by (rewrite ?length_updN; lia)
               | rewrite nthP_updN_neq by lia ].

Section Walk.
Variable zk : zkeys.
Hypothesis EKZ : emptyKeysZero zk.

Definition St (k : N) (sqs : list piece) (sc : bool * Z * Z * N * Z) (cur : position) : Prop :=
  ConsistentX zk k cur /\ squares cur = sqs /\ scalars cur = sc.

Lemma St_len k sqs sc cur : St k sqs sc cur -> length sqs = 64%nat.
Proof. intros (C & <- & _). destruct C; auto. Qed.
Lemma St_pieces k sqs sc cur : St k sqs sc cur -> forall s, nthP sqs s < 13.
Proof. intros (C & <- & _) s. apply getPiece_lt. destruct C; auto. Qed.
Lemma St_getPiece k sqs sc cur s : St k sqs sc cur -> getPiece cur s = nthP sqs s.
Proof. intros (_ & <- & _). reflexivity. Qed.
Lemma St_scalars k sqs wm h fm cm ep cur :
  St k sqs (wm, h, fm, cm, ep) cur ->
  whiteMove cur = wm /\ halfMoveClock cur = h /\ fullMoveCounter cur = fm /\ castleMask cur = cm /\ epSquare cur = ep.
Proof. intros (_ & _ & E). unfold scalars in E. inversion E; auto. Qed.

Lemma St_setPiece k sqs sc cur sq pc :
  St k sqs sc cur -> sq < 64 -> pc < 13 -> St k (updN sq pc sqs) sc (setPiece zk cur sq pc).
Proof.
  intros (C & <- & <-) ? ?. split; [|split].
  - apply setPiece_consistent; auto.
  - apply squares_setPiece.
  - apply scalars_setPiece.
Qed.

Lemma St_clearPiece k sqs sc cur sq :
  St k sqs sc cur -> sq < 64 -> St k (updN sq EMPTY sqs) sc (clearPiece zk cur sq).
Proof.
  intros (C & <- & <-) ?. split; [|split].
  - apply clearPiece_consistent; auto.
  - apply squares_clearPiece.
  - apply scalars_clearPiece.
Qed.

Lemma St_mPNP k sqs sc cur f t :
  St k sqs sc cur -> f < 64 -> t < 64 -> f <> t ->
  1 <= nthP sqs f <= 12 -> isPawnPiece (nthP sqs f) = false -> nthP sqs t = EMPTY ->
  St k (updN t (nthP sqs f) (updN f EMPTY sqs)) sc (movePieceNotPawn zk cur f t).
Proof.
  intros (C & <- & <-) ? ? ? ? ? ?. split; [|split].
  - apply movePieceNotPawn_consistent; auto.
  - apply squares_movePieceNotPawn.
  - apply scalars_movePieceNotPawn.
Qed.

Lemma St_setEp k sqs wm h fm cm ep cur ep' :
  St k sqs (wm, h, fm, cm, ep) cur -> St k sqs (wm, h, fm, cm, ep') (setEpSquare zk cur ep').
Proof.
  intros (C & <- & E). split; [|split].
  - apply setEpSquare_consistent; auto.
  - unfold setEpSquare. destruct (negb _); reflexivity.
  - unfold scalars in *. inversion E; subst. unfold setEpSquare.
    destruct (Z.eqb_spec (epSquare cur) ep'); simpl; [congruence | reflexivity].
Qed.

Lemma St_setCastle k sqs wm h fm cm ep cur cm' :
  St k sqs (wm, h, fm, cm, ep) cur -> St k sqs (wm, h, fm, cm', ep) (setCastleMask zk cur cm').
Proof.
  intros (C & <- & E). split; [|split].
  - apply setCastleMask_consistent; auto.
  - unfold setCastleMask. destruct (negb _); reflexivity.
  - unfold scalars in *. inversion E; subst. unfold setCastleMask.
    destruct (N.eqb_spec cm' (castleMask cur)); simpl; [congruence | reflexivity].
Qed.

Lemma St_set_hmc k sqs wm h fm cm ep cur h' :
  St k sqs (wm, h, fm, cm, ep) cur -> St k sqs (wm, h', fm, cm, ep) (set_halfMoveClock cur h').
Proof.
  intros (C & <- & E). split; [|split].
  - apply set_halfMoveClock_consistent; auto.
  - reflexivity.
  - unfold scalars in *. inversion E; subst. reflexivity.
Qed.

Lemma St_set_fmc k sqs wm h fm cm ep cur fm' :
  St k sqs (wm, h, fm, cm, ep) cur -> St k sqs (wm, h, fm', cm, ep) (set_fullMoveCounter cur fm').
Proof.
  intros (C & <- & E). split; [|split].
  - apply set_fullMoveCounter_consistent; auto.
  - reflexivity.
  - unfold scalars in *. inversion E; subst. reflexivity.
Qed.

Lemma St_toggle k sqs sc cur :
  St k sqs sc cur -> St (N.lxor k (zk_white zk)) sqs sc (set_hashKey cur (N.lxor (hashKey cur) (zk_white zk))).
Proof.
  intros (C & <- & <-). split; [|split]; try reflexivity. apply toggle_white_key; auto.
Qed.

Lemma St_flip k sqs wm h fm cm ep cur :
  St (N.lxor k (zk_white zk)) sqs (wm, h, fm, cm, ep) cur ->
  St k sqs (negb wm, h, fm, cm, ep) (set_whiteMove cur (negb wm)).
Proof.
  intros (C & <- & E). unfold scalars in E. inversion E; subst. split; [|split]; try reflexivity.
  apply flip_side; auto.
Qed.

Lemma St_k k k' sqs sc cur : k = k' -> St k sqs sc cur -> St k' sqs sc cur.
Proof. intros ->; auto. Qed.

(* ------------------------------------------------------------------ *)
(** * two positions with the same board and scalars that satisfy the invariant are equal
      (up to the dead EMPTY board) *)
Lemma St_unique sqs sc a b : St 0 sqs sc a -> St 0 sqs sc b -> normEmpty a = normEmpty b.
Proof.
  intros (Ca & Sa & Ea) (Cb & Sb & Eb). destruct Ca, Cb. unfold scalars in *.
  destruct sc as [[[[wm h] fm] cm] ep]. inversion Ea; inversion Eb.
  assert (Hs : squares a = squares b) by congruence.
  assert (Hw : whiteMove a = whiteMove b) by congruence.
  assert (Hc : castleMask a = castleMask b) by congruence.
  assert (He : epSquare a = epSquare b) by congruence.
  unfold normEmpty. apply pos_eq; proj_simpl; try congruence.
  - apply (list_ext 0%N). { rewrite !length_updN. congruence. }
    intros i Hi. rewrite length_updN in Hi.
    destruct i as [|i].
    + change 0%nat with (N.to_nat 0). rewrite !nth_updN_eq by (simpl; lia). reflexivity.
    + change (S i) with (S i). replace (S i) with (N.to_nat (N.of_nat (S i))) by lia.
      rewrite !nth_updN_neq by lia.
      fold (ptBB a (N.of_nat (S i))). fold (ptBB b (N.of_nat (S i))).
      rewrite c_bb, c_bb0 by lia. congruence.
  - rewrite c_hash, c_hash0. unfold hashOf. rewrite Hs, Hw, Hc, He. reflexivity.
Qed.

Lemma list_ext_N sqs sqs' :
  length sqs = 64%nat -> length sqs' = 64%nat -> (forall s, s < 64 -> nthP sqs s = nthP sqs' s) -> sqs = sqs'.
Proof.
  intros H1 H2 H. apply (list_ext EMPTY); [congruence|].
  intros i Hi. specialize (H (N.of_nat i)). unfold nthP in H. rewrite Nat2N.id in H. apply H. lia.
Qed.

Lemma St_eq k sqs sqs' sc cur : sqs = sqs' -> St k sqs sc cur -> St k sqs' sc cur.
Proof. intros ->; auto. Qed.

(* ------------------------------------------------------------------ *)
(** * the blocks of makeMove *)
Lemma make_prologue sqs wm h fm cm ep p :
  St 0 sqs (wm, h, fm, cm, ep) p ->
  St (zk_white zk) sqs (wm, h, fm, cm, (-1)%Z)
     (setEpSquare zk (set_hashKey p (N.lxor (hashKey p) (zk_white zk))) (-1)).
Proof.
  intro S. apply St_setEp with (ep := ep). apply (St_k (N.lxor 0 (zk_white zk))). apply N.lxor_0_l.
  apply St_toggle; auto.
Qed.

Lemma make_epilogue sqs wm h fm cm ep cur m :
  St (zk_white zk) sqs (wm, h, fm, cm, ep) cur ->
  exists cm', St 0 sqs (negb wm, h, (if wm then fm else fm + 1)%Z, cm', ep) (mmEpilogue zk cur m wm).
Proof.
  intros S. unfold mmEpilogue. cbv zeta. eexists.
  apply St_flip. apply (St_k (zk_white zk)); [symmetry; apply N.lxor_0_l|].
  pose proof (St_setCastle _ _ _ _ _ _ _ _
                (N.land (N.land (castleMask cur) (castleSqMask (mfrom m))) (castleSqMask (mto m))) S) as S1.
  destruct wm; simpl.
  - exact S1.
  - destruct (St_scalars _ _ _ _ _ _ _ _ S1) as (_ & _ & Hfm & _). rewrite Hfm.
    apply St_set_fmc with (fm := fm). exact S1.
Qed.

Lemma toSq_plus s d : (0 <= d)%Z -> toSq (sqPlus s d) = s + Z.to_N d.
Proof. unfold toSq, sqPlus. lia. Qed.
Lemma toSq_minus s d : (0 <= d)%Z -> Z.to_N d <= s -> toSq (sqPlus s (- d)) = s - Z.to_N d.
Proof. unfold toSq, sqPlus. lia. Qed.

Lemma king_facts kg : isKingPiece kg = true -> 1 <= kg <= 12 /\ isPawnPiece kg = false.
Proof.
  unfold isKingPiece. intro Hx. apply orb_prop in Hx.
  destruct Hx as [Hx|Hx]; apply N.eqb_eq in Hx; subst kg; (split; [unfold WKING, BKING; lia | reflexivity]).
Qed.

Section Blocks.
Variable m : move.
Let f := mfrom m.
Let t := mto m.

Lemma quiet_plain k sqs wm h fm cm ep cur pc :
  St k sqs (wm, h, fm, cm, ep) cur -> f < 64 -> t < 64 -> f <> t ->
  nthP sqs f = pc -> 1 <= pc <= 12 -> isPawnPiece pc = false -> nthP sqs t = EMPTY ->
  (isKingPiece pc = false \/ (Z.of_N t <> sqPlus f 2 /\ Z.of_N t <> sqPlus f (-2))%Z) ->
  St k (updN t pc (updN f EMPTY sqs)) (wm, (h + 1)%Z, fm, cm, ep) (mmQuietBranch zk cur m (sqMask f)).
Proof.
  intros S Hf Ht Hne Hpc Hr Hnp Hte Hk.
  unfold mmQuietBranch. cbv zeta.
  destruct (St_scalars _ _ _ _ _ _ _ _ S) as (_ & Hh & _). rewrite Hh.
  pose proof (St_set_hmc _ _ _ _ _ _ _ _ (h + 1)%Z S) as S1.
  unfold mmCastleBlock. cbv zeta. fold f t.
  rewrite (kingsAt_spec zk k) by (try apply S1; auto).
  rewrite (St_getPiece _ _ _ _ f S1), Hpc.
  assert (G : St k (updN t pc (updN f EMPTY sqs)) (wm, (h + 1)%Z, fm, cm, ep)
                 (movePieceNotPawn zk (set_halfMoveClock cur (h + 1)%Z) f t)).
  { rewrite <- Hpc. apply St_mPNP; auto; rewrite ?Hpc; auto. }
  destruct Hk as [Hk|[Hk1 Hk2]].
  - rewrite Hk. exact G.
  - destruct (isKingPiece pc); auto.
    destruct (Z.eqb_spec (Z.of_N t) (sqPlus f 2)); [contradiction|].
    destruct (Z.eqb_spec (Z.of_N t) (sqPlus f (-2))); [contradiction|]. exact G.
Qed.

Lemma quiet_castleK k sqs wm h fm cm ep cur kg rk :
  St k sqs (wm, h, fm, cm, ep) cur -> f + 3 < 64 -> t = f + 2 ->
  nthP sqs f = kg -> isKingPiece kg = true -> nthP sqs t = EMPTY ->
  nthP sqs (f + 1) = EMPTY -> nthP sqs (f + 3) = rk -> 1 <= rk <= 12 -> isPawnPiece rk = false ->
  St k (updN t kg (updN f EMPTY (updN (f + 1) rk (updN (f + 3) EMPTY sqs)))) (wm, (h + 1)%Z, fm, cm, ep)
     (mmQuietBranch zk cur m (sqMask f)).
Proof.
  intros S Hf Ht Hkg Hk Hte H1 H3 Hr Hnp.
  assert (Hlen := St_len _ _ _ _ S).
  unfold mmQuietBranch. cbv zeta.
  destruct (St_scalars _ _ _ _ _ _ _ _ S) as (_ & Hh & _). rewrite Hh.
  pose proof (St_set_hmc _ _ _ _ _ _ _ _ (h + 1)%Z S) as S1.
  unfold mmCastleBlock. cbv zeta. fold f t.
  rewrite (kingsAt_spec zk k) by (try apply S1; auto; lia).
  rewrite (St_getPiece _ _ _ _ f S1), Hkg, Hk.
  replace (Z.of_N t =? sqPlus f 2)%Z with true by (symmetry; apply Z.eqb_eq; unfold sqPlus; lia).
  replace (toSq (sqPlus f 3)) with (f + 3) by (unfold toSq, sqPlus; lia).
  replace (toSq (sqPlus f 1)) with (f + 1) by (unfold toSq, sqPlus; lia).
  assert (S2 : St k (updN (f + 1) rk (updN (f + 3) EMPTY sqs)) (wm, (h + 1)%Z, fm, cm, ep)
                  (movePieceNotPawn zk (set_halfMoveClock cur (h + 1)%Z) (f + 3) (f + 1))).
  { rewrite <- H3. apply St_mPNP; auto; rewrite ?H3; auto; lia. }
  assert (Hkg2 : nthP (updN (f + 1) rk (updN (f + 3) EMPTY sqs)) f = kg) by (nth_eval; auto).
  rewrite <- Hkg2 at 1.
  pose proof (king_facts kg) as Hkf.
  apply St_mPNP; auto; try lia; rewrite ?Hkg2; try tauto.
  subst t. nth_eval. auto.
Qed.

Lemma quiet_castleQ k sqs wm h fm cm ep cur kg rk :
  St k sqs (wm, h, fm, cm, ep) cur -> 4 <= f -> f < 64 -> t = f - 2 ->
  nthP sqs f = kg -> isKingPiece kg = true -> nthP sqs t = EMPTY ->
  nthP sqs (f - 1) = EMPTY -> nthP sqs (f - 4) = rk -> 1 <= rk <= 12 -> isPawnPiece rk = false ->
  St k (updN t kg (updN f EMPTY (updN (f - 1) rk (updN (f - 4) EMPTY sqs)))) (wm, (h + 1)%Z, fm, cm, ep)
     (mmQuietBranch zk cur m (sqMask f)).
Proof.
  intros S Hf4 Hf Ht Hkg Hk Hte H1 H3 Hr Hnp.
  assert (Hlen := St_len _ _ _ _ S).
  unfold mmQuietBranch. cbv zeta.
  destruct (St_scalars _ _ _ _ _ _ _ _ S) as (_ & Hh & _). rewrite Hh.
  pose proof (St_set_hmc _ _ _ _ _ _ _ _ (h + 1)%Z S) as S1.
  unfold mmCastleBlock. cbv zeta. fold f t.
  rewrite (kingsAt_spec zk k) by (try apply S1; auto; lia).
  rewrite (St_getPiece _ _ _ _ f S1), Hkg, Hk.
  replace (Z.of_N t =? sqPlus f 2)%Z with false by (symmetry; apply Z.eqb_neq; unfold sqPlus; lia).
  replace (Z.of_N t =? sqPlus f (-2))%Z with true by (symmetry; apply Z.eqb_eq; unfold sqPlus; lia).
  replace (toSq (sqPlus f (-4))) with (f - 4) by (unfold toSq, sqPlus; lia).
  replace (toSq (sqPlus f (-1))) with (f - 1) by (unfold toSq, sqPlus; lia).
  assert (S2 : St k (updN (f - 1) rk (updN (f - 4) EMPTY sqs)) (wm, (h + 1)%Z, fm, cm, ep)
                  (movePieceNotPawn zk (set_halfMoveClock cur (h + 1)%Z) (f - 4) (f - 1))).
  { rewrite <- H3. apply St_mPNP; auto; rewrite ?H3; auto; lia. }
  assert (Hkg2 : nthP (updN (f - 1) rk (updN (f - 4) EMPTY sqs)) f = kg) by (nth_eval; auto).
  rewrite <- Hkg2 at 1.
  pose proof (king_facts kg) as Hkf.
  apply St_mPNP; auto; try lia; rewrite ?Hkg2; try tauto.
  subst t. nth_eval. auto.
Qed.

(** the capture / pawn-move branch when the move is not an e.p. capture *)
Lemma capture_plain k sqs wm h fm cm ep cur pc prevEp newpc :
  St k sqs (wm, h, fm, cm, ep) cur -> f < 64 -> t < 64 ->
  newpc = (if negb (mpromote m =? EMPTY) then mpromote m else pc) -> newpc < 13 ->
  (pc = WPAWN -> Z.of_N t <> sqPlus f 16 -> Z.of_N t <> prevEp)%Z ->
  (pc = BPAWN -> Z.of_N t <> sqPlus f (-16) -> Z.of_N t <> prevEp)%Z ->
  exists ep', St k (updN t newpc (updN f EMPTY sqs)) (wm, 0%Z, fm, cm, ep') (mmCaptureBranch zk cur m pc prevEp).
Proof.
  intros S Hf Ht Hnew Hlt HW HB.
  pose proof (St_set_hmc _ _ _ _ _ _ _ _ 0%Z S) as S1.
  unfold mmCaptureBranch, mmEpBlock. cbv zeta. fold f t. rewrite <- Hnew.
  assert (G0 : forall ep' q, St k sqs (wm, 0%Z, fm, cm, ep') q ->
               St k (updN t newpc (updN f EMPTY sqs)) (wm, 0%Z, fm, cm, ep') (setPiece zk (clearPiece zk q f) t newpc)).
  { intros ep' q Sq. apply St_setPiece; auto. apply St_clearPiece; auto. }
  destruct (N.eqb_spec pc WPAWN) as [E|E].
  - destruct (Z.eqb_spec (Z.of_N t) (sqPlus f 16)) as [E2|E2].
    + destruct (negb (N.land (epMaskW (sqX t)) (ptBB (set_halfMoveClock cur 0) BPAWN) =? 0)).
      * eexists. apply G0. eapply St_setEp. exact S1.
      * eexists. apply G0. exact S1.
    + destruct (Z.eqb_spec (Z.of_N t) prevEp) as [E3|E3]; [exfalso; exact (HW E E2 E3)|].
      eexists. apply G0. exact S1.
  - destruct (N.eqb_spec pc BPAWN) as [E'|E'].
    + destruct (Z.eqb_spec (Z.of_N t) (sqPlus f (-16))) as [E2|E2].
      * destruct (negb (N.land (epMaskB (sqX t)) (ptBB (set_halfMoveClock cur 0) WPAWN) =? 0)).
        -- eexists. apply G0. eapply St_setEp. exact S1.
        -- eexists. apply G0. exact S1.
      * destruct (Z.eqb_spec (Z.of_N t) prevEp) as [E3|E3]; [exfalso; exact (HB E' E2 E3)|].
        eexists. apply G0. exact S1.
    + eexists. apply G0. exact S1.
Qed.

Lemma capture_epW k sqs wm h fm cm ep cur prevEp :
  St k sqs (wm, h, fm, cm, ep) cur -> f < 64 -> t < 64 -> mpromote m = EMPTY ->
  (Z.of_N t <> sqPlus f 16)%Z -> Z.of_N t = prevEp -> 8 <= t ->
  St k (updN t WPAWN (updN f EMPTY (updN (t - 8) EMPTY sqs))) (wm, 0%Z, fm, cm, ep) (mmCaptureBranch zk cur m WPAWN prevEp).
Proof.
  intros S Hf Ht Hpr E2 E3 H8.
  pose proof (St_set_hmc _ _ _ _ _ _ _ _ 0%Z S) as S1.
  unfold mmCaptureBranch, mmEpBlock. cbv zeta. fold f t. rewrite Hpr.
  change (WPAWN =? WPAWN) with true. change (negb (EMPTY =? EMPTY)) with false. cbv iota.
  destruct (Z.eqb_spec (Z.of_N t) (sqPlus f 16)) as [E|E]; [contradiction|].
  destruct (Z.eqb_spec (Z.of_N t) prevEp) as [E'|E']; [|contradiction].
  replace (toSq (sqPlus t (-8))) with (t - 8) by (unfold toSq, sqPlus; lia).
  apply St_setPiece; auto; [|reflexivity]. apply St_clearPiece; auto. apply St_clearPiece; auto. lia.
Qed.

Lemma capture_epB k sqs wm h fm cm ep cur prevEp :
  St k sqs (wm, h, fm, cm, ep) cur -> f < 64 -> t < 64 -> mpromote m = EMPTY ->
  (Z.of_N t <> sqPlus f (-16))%Z -> Z.of_N t = prevEp -> t + 8 < 64 ->
  St k (updN t BPAWN (updN f EMPTY (updN (t + 8) EMPTY sqs))) (wm, 0%Z, fm, cm, ep) (mmCaptureBranch zk cur m BPAWN prevEp).
Proof.
  intros S Hf Ht Hpr E2 E3 H8.
  pose proof (St_set_hmc _ _ _ _ _ _ _ _ 0%Z S) as S1.
  unfold mmCaptureBranch, mmEpBlock. cbv zeta. fold f t. rewrite Hpr.
  change (BPAWN =? WPAWN) with false. change (BPAWN =? BPAWN) with true. change (negb (EMPTY =? EMPTY)) with false. cbv iota.
  destruct (Z.eqb_spec (Z.of_N t) (sqPlus f (-16))) as [E|E]; [contradiction|].
  destruct (Z.eqb_spec (Z.of_N t) prevEp) as [E'|E']; [|contradiction].
  replace (toSq (sqPlus t 8)) with (t + 8) by (unfold toSq, sqPlus; lia).
  apply St_setPiece; auto; [|reflexivity]. apply St_clearPiece; auto. apply St_clearPiece; auto.
Qed.

(* ------------------------------------------------------------------ *)
(** * the blocks of unMakeMove *)
Lemma um_restore1 sqs wm h fm cm ep q ui :
  St 0 sqs (wm, h, fm, cm, ep) q -> f < 64 -> t < 64 -> u_captured ui < 13 ->
  St 0 (updN f (nthP sqs t) (updN t (u_captured ui) sqs))
     (negb wm, u_halfMoveClock ui, fm, u_castleMask ui, u_epSquare ui) (umRestore1 zk q m ui).
Proof.
  intros S Hf Ht Hcap.
  unfold umRestore1. cbv zeta. fold f t.
  destruct (St_scalars _ _ _ _ _ _ _ _ S) as (Hwm & _).
  change (whiteMove (set_hashKey q (N.lxor (hashKey q) (zk_white zk)))) with (whiteMove q). rewrite Hwm.
  assert (S2 : St 0 sqs (negb wm, h, fm, cm, ep)
                  (set_whiteMove (set_hashKey q (N.lxor (hashKey q) (zk_white zk))) (negb wm))).
  { apply St_flip. apply St_toggle. exact S. }
  rewrite (St_getPiece _ _ _ _ t S2).
  apply St_set_hmc with (h := h). apply St_setEp with (ep := ep). apply St_setCastle with (cm := cm).
  apply St_setPiece; auto; [|eapply St_pieces; eauto].
  apply St_setPiece; auto.
Qed.

Lemma um_restore sqs wm h fm cm ep q ui :
  St 0 sqs (wm, h, fm, cm, ep) q -> f < 64 -> t < 64 -> u_captured ui < 13 ->
  let pc1 := if negb (mpromote m =? EMPTY) then (if negb wm then WPAWN else BPAWN) else nthP sqs t in
  snd (umRestoreBlock zk q m ui) = pc1 /\
  St 0 (updN f pc1 (updN t (u_captured ui) sqs))
     (negb wm, u_halfMoveClock ui, (if wm then fm - 1 else fm)%Z, u_castleMask ui, u_epSquare ui)
     (fst (umRestoreBlock zk q m ui)).
Proof.
  intros S Hf Ht Hcap pc1.
  pose proof (um_restore1 _ _ _ _ _ _ _ ui S Hf Ht Hcap) as S7.
  destruct (St_scalars _ _ _ _ _ _ _ _ S7) as (Hwm7 & _ & Hfm7 & _).
  unfold umRestoreBlock. cbv zeta. fold f t.
  rewrite (St_getPiece _ _ _ _ t S). rewrite Hwm7.
  unfold pc1. destruct (negb (mpromote m =? EMPTY)); cbv beta iota.
  - assert (Hpw : (if negb wm then WPAWN else BPAWN) < 13) by (destruct wm; reflexivity).
    pose proof (St_setPiece _ _ _ _ f _ S7 Hf Hpw) as S8.
    unfold updN in S8 at 1 2. rewrite updL_updL_same in S8.
    fold (updN f (if negb wm then WPAWN else BPAWN) (updN t (u_captured ui) sqs)) in S8.
    destruct (St_scalars _ _ _ _ _ _ _ _ S8) as (_ & _ & Hfm8 & _).
    destruct wm; cbn [negb fst snd] in *.
    + split; [reflexivity|]. rewrite Hfm8. apply St_set_fmc with (fm := fm). exact S8.
    + split; [reflexivity|]. exact S8.
  - destruct wm; cbn [negb fst snd] in *.
    + split; [reflexivity|]. rewrite Hfm7. apply St_set_fmc with (fm := fm). exact S7.
    + split; [reflexivity|]. exact S7.
Qed.

Lemma um_castle_none q pc1 :
  (pc1 =? (if whiteMove q then WKING else BKING)) = false \/
  ((Z.of_N t <> sqPlus f 2)%Z /\ (Z.of_N t <> sqPlus f (-2))%Z) ->
  umCastleBlock zk q m pc1 = q.
Proof.
  unfold umCastleBlock. cbv zeta. fold f t. intros [H|[H1 H2]].
  - match goal with |- (if ?c then _ else _) = _ => replace c with false by (symmetry; exact H) end. reflexivity.
  - match goal with |- (if ?c then _ else _) = _ => destruct c; auto end.
    destruct (Z.eqb_spec (Z.of_N t) (sqPlus f 2)); [contradiction|].
    destruct (Z.eqb_spec (Z.of_N t) (sqPlus f (-2))); [contradiction|]. reflexivity.
Qed.

Lemma um_castleK sqs wm h fm cm ep q pc1 rk :
  St 0 sqs (wm, h, fm, cm, ep) q -> pc1 = (if wm then WKING else BKING) -> t = f + 2 -> f + 3 < 64 ->
  nthP sqs (f + 1) = rk -> 1 <= rk <= 12 -> isPawnPiece rk = false -> nthP sqs (f + 3) = EMPTY ->
  St 0 (updN (f + 3) rk (updN (f + 1) EMPTY sqs)) (wm, h, fm, cm, ep) (umCastleBlock zk q m pc1).
Proof.
  intros S Hpc Ht Hf H1 Hr Hnp H3.
  unfold umCastleBlock. cbv zeta. fold f t.
  destruct (St_scalars _ _ _ _ _ _ _ _ S) as (Hwm & _). rewrite Hwm, Hpc, N.eqb_refl.
  replace (Z.of_N t =? sqPlus f 2)%Z with true by (symmetry; apply Z.eqb_eq; unfold sqPlus; lia).
  replace (toSq (sqPlus f 3)) with (f + 3) by (unfold toSq, sqPlus; lia).
  replace (toSq (sqPlus f 1)) with (f + 1) by (unfold toSq, sqPlus; lia).
  rewrite <- H1. apply St_mPNP; auto; rewrite ?H1; auto; lia.
Qed.

Lemma um_castleQ sqs wm h fm cm ep q pc1 rk :
  St 0 sqs (wm, h, fm, cm, ep) q -> pc1 = (if wm then WKING else BKING) -> t = f - 2 -> 4 <= f -> f < 64 ->
  nthP sqs (f - 1) = rk -> 1 <= rk <= 12 -> isPawnPiece rk = false -> nthP sqs (f - 4) = EMPTY ->
  St 0 (updN (f - 4) rk (updN (f - 1) EMPTY sqs)) (wm, h, fm, cm, ep) (umCastleBlock zk q m pc1).
Proof.
  intros S Hpc Ht Hf4 Hf H1 Hr Hnp H3.
  unfold umCastleBlock. cbv zeta. fold f t.
  destruct (St_scalars _ _ _ _ _ _ _ _ S) as (Hwm & _). rewrite Hwm, Hpc, N.eqb_refl.
  replace (Z.of_N t =? sqPlus f 2)%Z with false by (symmetry; apply Z.eqb_neq; unfold sqPlus; lia).
  replace (Z.of_N t =? sqPlus f (-2))%Z with true by (symmetry; apply Z.eqb_eq; unfold sqPlus; lia).
  replace (toSq (sqPlus f (-4))) with (f - 4) by (unfold toSq, sqPlus; lia).
  replace (toSq (sqPlus f (-1))) with (f - 1) by (unfold toSq, sqPlus; lia).
  rewrite <- H1. apply St_mPNP; auto; rewrite ?H1; auto; lia.
Qed.

Lemma um_ep_none q pc1 :
  (Z.of_N t <> epSquare q)%Z \/ (pc1 <> WPAWN /\ pc1 <> BPAWN) -> umEpBlock zk q m pc1 = q.
Proof.
  unfold umEpBlock. fold f t. intros [H|[H1 H2]].
  - destruct (Z.eqb_spec (Z.of_N t) (epSquare q)); [contradiction|reflexivity].
  - destruct (Z.of_N t =? epSquare q)%Z; auto.
    destruct (N.eqb_spec pc1 WPAWN); [contradiction|]. destruct (N.eqb_spec pc1 BPAWN); [contradiction|]. reflexivity.
Qed.

Lemma um_epW sqs wm h fm cm ep q :
  St 0 sqs (wm, h, fm, cm, ep) q -> Z.of_N t = ep -> 8 <= t -> t < 64 ->
  St 0 (updN (t - 8) BPAWN sqs) (wm, h, fm, cm, ep) (umEpBlock zk q m WPAWN).
Proof.
  intros S He H8 Ht. unfold umEpBlock. fold f t.
  destruct (St_scalars _ _ _ _ _ _ _ _ S) as (_ & _ & _ & _ & Hep). rewrite Hep.
  replace (Z.of_N t =? ep)%Z with true by (symmetry; apply Z.eqb_eq; auto).
  change (WPAWN =? WPAWN) with true. cbv iota.
  replace (toSq (sqPlus t (-8))) with (t - 8) by (unfold toSq, sqPlus; lia).
  apply St_setPiece; auto; [lia|reflexivity].
Qed.

Lemma um_epB sqs wm h fm cm ep q :
  St 0 sqs (wm, h, fm, cm, ep) q -> Z.of_N t = ep -> t + 8 < 64 ->
  St 0 (updN (t + 8) WPAWN sqs) (wm, h, fm, cm, ep) (umEpBlock zk q m BPAWN).
Proof.
  intros S He H8. unfold umEpBlock. fold f t.
  destruct (St_scalars _ _ _ _ _ _ _ _ S) as (_ & _ & _ & _ & Hep). rewrite Hep.
  replace (Z.of_N t =? ep)%Z with true by (symmetry; apply Z.eqb_eq; auto).
  change (BPAWN =? WPAWN) with false. change (BPAWN =? BPAWN) with true. cbv iota.
  replace (toSq (sqPlus t 8)) with (t + 8) by (unfold toSq, sqPlus; lia).
  apply St_setPiece; auto; reflexivity.
Qed.

End Blocks.

End Walk.
