(** The queen, rook and bishop blocks of pseudoLegalMoves generate exactly the Spec's
    pseudo-moves of those pieces (level L4 of the proof plan for the sliders). *)
From Coq Require Import ZArith NArith List Bool Lia.
From Texel Require Import Chess.Types Chess.Position Chess.BitBoard Chess.MoveGen Chess.Spec Chess.MoveGenWF
  Chess.BitBoardProofs Chess.RayProofs Chess.MoveGenProofs Chess.AttackProofs gen.BitBoardTables.
Import ListNotations.
Local Open Scope N_scope.

(** the Spec's ray walk = the engine's cut ray minus own pieces *)
Lemma ray_moves_cut : forall p w, WF p -> forall k f0 r0 x y dx dy,
  on_board x y = true -> In (dx, dy) allDirs ->
  ray_moves (squares p) w k f0 r0 x y dx dy =
  map (fun t => mkMove (sq_of f0 r0) t EMPTY)
      (filter (fun t => negb (has_color w (getPiece p t))) (cutAt (occupiedBB p) (rayList k x y dx dy false))).
Proof.
  intros p w H. induction k as [|k IH]; intros f0 r0 x y dx dy Hob Hd; [reflexivity|].
  cbn [ray_moves rayList].
  assert (Hdxy : (dx = 0 \/ dx = 1 \/ dx = -1)%Z /\ (dy = 0 \/ dy = 1 \/ dy = -1)%Z).
  { unfold allDirs in Hd. cbn in Hd. intuition (try congruence); match goal with E : (_, _) = (_, _) |- _ => injection E; intros; subst; auto end. }
  pose proof Hob as Hob0. unfold on_board in Hob. rewrite !andb_true_iff, !Z.leb_le in Hob.
  set (x' := (if (dx =? 0)%Z then x else (x + dx)%Z)). set (y' := (if (dy =? 0)%Z then y else (y + dy)%Z)).
  assert (Ex : x' = (x + dx)%Z) by (subst x'; destruct (Z.eqb_spec dx 0); lia).
  assert (Ey : y' = (y + dy)%Z) by (subst y'; destruct (Z.eqb_spec dy 0); lia).
  assert (Hb1 : negb (dx =? 0)%Z && ((x' <? 0)%Z || (x' >? 7)%Z) = negb ((0 <=? x + dx)%Z && (x + dx <=? 7)%Z)).
  { rewrite Ex. destruct (Z.eqb_spec dx 0), (Z.ltb_spec (x + dx) 0), (Z.leb_spec 0 (x + dx)), (Z.leb_spec (x + dx) 7);
      rewrite ?Z.gtb_ltb; try destruct (Z.ltb_spec 7 (x + dx)); cbn; try reflexivity; lia. }
  assert (Hb2 : negb (dy =? 0)%Z && ((y' <? 0)%Z || (y' >? 7)%Z) = negb ((0 <=? y + dy)%Z && (y + dy <=? 7)%Z)).
  { rewrite Ey. destruct (Z.eqb_spec dy 0), (Z.ltb_spec (y + dy) 0), (Z.leb_spec 0 (y + dy)), (Z.leb_spec (y + dy) 7);
      rewrite ?Z.gtb_ltb; try destruct (Z.ltb_spec 7 (y + dy)); cbn; try reflexivity; lia. }
  rewrite Hb1, Hb2. unfold on_board at 1.
  destruct ((0 <=? x + dx)%Z && (x + dx <=? 7)%Z) eqn:E1; cbn [negb andb]; [|reflexivity].
  destruct ((0 <=? y + dy)%Z && (y + dy <=? 7)%Z) eqn:E2; cbn [negb andb].
  2:{ reflexivity. }
  assert (Hob' : on_board (x + dx) (y + dy) = true).
  { unfold on_board. rewrite andb_true_iff in E1, E2. destruct E1 as [-> ->], E2 as [-> ->]. reflexivity. }
  replace ((0 <=? x + dx)%Z && (x + dx <=? 7)%Z && (0 <=? y + dy)%Z && (y + dy <=? 7)%Z) with true
    by (symmetry; exact Hob').
  rewrite Ex, Ey. fold (sq_of (x + dx) (y + dy)). cbn [cutAt].
  destruct (sq_of_coords _ _ Hob') as [Hs64 _].
  rewrite occb_testbit, (occupied_testbit p _ H).
  replace (sq_of (x + dx) (y + dy) <? 64) with true by (symmetry; apply N.ltb_lt; exact Hs64). cbn [andb].
  rewrite (at_getPiece p _ _ Hob'). unfold mv.
  set (t := sq_of (x + dx) (y + dy)) in *.
  destruct (getPiece p t =? EMPTY) eqn:Ee; cbn [negb].
  - cbn [filter]. apply N.eqb_eq in Ee. rewrite Ee. cbn [has_color color_of negb map]. unfold EMPTY. cbn [has_color color_of negb map].
    f_equal. apply IH; assumption.
  - cbn [filter].
    assert (Hcol : has_color (negb w) (getPiece p t) = negb (has_color w (getPiece p t))).
    { pose proof (WF_pieces_le_12 p t H) as Hle. apply N.eqb_neq in Ee. unfold EMPTY in Ee.
      destruct (le12_cases _ Hle) as [E|[E|[E|[E|[E|[E|[E|[E|[E|[E|[E|[E|E]]]]]]]]]]]]; try congruence;
        rewrite E; destruct w; reflexivity. }
    rewrite Hcol. destruct (has_color w (getPiece p t)); reflexivity.
Qed.

Section SliderBlock.
Variable p : position.
Hypothesis HWF : WF p.
Variable atk : square -> N.            (* attack set for the position's occupancy *)
Variable dirs : list (Z * Z).
Hypothesis dirs_ok : incl dirs allDirs.
Hypothesis atk_spec : forall s t, s < 64 ->
  (N.testbit (atk s) t = true <-> exists d, In d dirs /\ In t (cutAt (occupiedBB p) (ray s d))).
Hypothesis atk_lt : forall s, s < 64 -> atk s < 2 ^ 64.

Lemma ray_any_lt64 : forall s d t, s < 64 -> In d allDirs -> In t (ray s d) -> t < 64.
Proof.
  intros s d t Hs Hd Hin. unfold allDirs in Hd. destruct (in_app_or _ _ _ Hd) as [Hr|Hb].
  - exact (ray_lt64 rook_dirs rookAligned rookRay_ok s d t Hs Hr Hin).
  - exact (ray_lt64 bishop_dirs bishopAligned bishopRay_ok s d t Hs Hb Hin).
Qed.

Lemma slider_target_bridge : forall w s m, s < 64 ->
  ((exists t, N.testbit (andn (atk s) (colorBB p w)) t = true /\ m = mkMove s t EMPTY) <->
   In m (slider_moves (squares p) w (zf s) (zr s) dirs)).
Proof.
  intros w s m Hs. destruct (coords_of_sq s Hs) as [Hob [_ Hsq]].
  unfold slider_moves. rewrite in_flat_map. split.
  - intros [t [Ht ->]]. unfold andn in Ht. rewrite N.ldiff_spec in Ht. apply andb_true_iff in Ht.
    destruct Ht as [Ht1 Ht2]. apply (atk_spec s t Hs) in Ht1. destruct Ht1 as [d [Hd Hin]].
    exists d. split; [exact Hd|].
    rewrite (ray_moves_cut p w HWF 7 _ _ _ _ _ _ Hob) by (rewrite <- surjective_pairing; apply dirs_ok; exact Hd).
    rewrite <- (ray_fuel s d Hs (dirs_ok d Hd)). rewrite Hsq.
    apply in_map_iff. exists t. split; [reflexivity|]. apply filter_In. split; [exact Hin|].
    assert (Ht64 : t < 64) by (apply (ray_any_lt64 s d t Hs (dirs_ok d Hd)); apply (cutAt_incl _ _ _ Hin)).
    rewrite (colorBB_testbit p w t HWF) in Ht2.
    replace (t <? 64) with true in Ht2 by (symmetry; apply N.ltb_lt; exact Ht64). exact Ht2.
  - intros [d [Hd Hin]].
    rewrite (ray_moves_cut p w HWF 7 _ _ _ _ _ _ Hob) in Hin by (rewrite <- surjective_pairing; apply dirs_ok; exact Hd).
    rewrite <- (ray_fuel s d Hs (dirs_ok d Hd)) in Hin. rewrite Hsq in Hin.
    apply in_map_iff in Hin. destruct Hin as [t [<- Hf]]. apply filter_In in Hf. destruct Hf as [Hin Hc].
    exists t. split; [|reflexivity].
    assert (Ht64 : t < 64) by (apply (ray_any_lt64 s d t Hs (dirs_ok d Hd)); apply (cutAt_incl _ _ _ Hin)).
    unfold andn. rewrite N.ldiff_spec. apply andb_true_iff. split.
    + apply (atk_spec s t Hs). exists d. auto.
    + rewrite (colorBB_testbit p w t HWF).
      replace (t <? 64) with true by (symmetry; apply N.ltb_lt; exact Ht64). exact Hc.
Qed.

Lemma slider_block_spec : forall w (wp : piece) (k : kind) m,
  In wp [1; 2; 3; 4; 5; 6] -> myPiece w wp = mk_piece w k ->
  (In m (forSquares (ptBB p (myPiece w wp)) (fun l sq => addMovesByMask l sq (andn (atk sq) (colorBB p w))) []) <->
   exists f r, on_board f r = true /\ at_ (squares p) f r = mk_piece w k /\
               In m (slider_moves (squares p) w f r dirs)).
Proof.
  intros w wp k m Hwp Emk.
  assert (Hpc : In (myPiece w wp) pieceCodes) by (apply myPiece_codes; exact Hwp).
  rewrite (forSquares_moves_In (fun sq => andn (atk sq) (colorBB p w))).
  - cbn [In]. split.
    + intros [[]|[sq [t [Hs [Ht ->]]]]]. rewrite (ptBB_testbit p _ sq HWF Hpc) in Hs.
      apply andb_true_iff in Hs. destruct Hs as [Hs1 Hs2]. apply N.ltb_lt in Hs1. apply N.eqb_eq in Hs2.
      destruct (coords_of_sq sq Hs1) as [Hob _]. exists (zf sq), (zr sq). split; [exact Hob|]. split.
      * rewrite <- (getPiece_at p sq Hs1), <- Emk. exact Hs2.
      * apply (slider_target_bridge w sq _ Hs1). exists t. auto.
    + intros [f [r [Hob [Hat Hin]]]]. right. destruct (sq_of_coords f r Hob) as [Hs [Hf [Hr _]]].
      assert (Hin' : In m (slider_moves (squares p) w (zf (sq_of f r)) (zr (sq_of f r)) dirs))
        by (rewrite Hf, Hr; exact Hin).
      apply (slider_target_bridge w _ _ Hs) in Hin'. destruct Hin' as [t [Ht ->]].
      exists (sq_of f r), t. split; [|auto].
      rewrite (ptBB_testbit p _ _ HWF Hpc). apply andb_true_iff. split; [apply N.ltb_lt; exact Hs|].
      apply N.eqb_eq. rewrite <- (at_getPiece p f r Hob), Hat, Emk. reflexivity.
  - apply ptBB_lt; assumption.
  - intros sq Hsq. apply ldiff_lt. apply atk_lt. exact Hsq.
Qed.
End SliderBlock.

(** * Instances *)
Lemma rookAttacks_lt : forall s occ, s < 64 -> rookAttacks s occ < 2 ^ 64.
Proof. intros s occ Hs. apply lt_2_64_of_bits. intros i Hi. exact (rookAttacks_in_board s i occ Hs Hi). Qed.
Lemma bishopAttacks_lt : forall s occ, s < 64 -> bishopAttacks s occ < 2 ^ 64.
Proof. intros s occ Hs. apply lt_2_64_of_bits. intros i Hi. exact (bishopAttacks_in_board s i occ Hs Hi). Qed.

Lemma rookAttacks_cut : forall s t occ,
  N.testbit (rookAttacks s occ) t = true <-> exists d, In d rook_dirs /\ In t (cutAt occ (ray s d)).
Proof.
  intros. rewrite rookAttacks_rays, lorBits_testbit, N.bits_0. cbn [orb]. rewrite existsb_eqb_In.
  apply (in_four (fun d => cutAt occ (ray s d))).
Qed.
Lemma bishopAttacks_cut : forall s t occ,
  N.testbit (bishopAttacks s occ) t = true <-> exists d, In d bishop_dirs /\ In t (cutAt occ (ray s d)).
Proof.
  intros. rewrite bishopAttacks_rays, lorBits_testbit, N.bits_0. cbn [orb]. rewrite existsb_eqb_In.
  apply (in_four (fun d => cutAt occ (ray s d))).
Qed.

Theorem slider_blocks_spec : forall p m, WF p ->
  let w := whiteMove p in let b := squares p in
  (In m (rookBlock w p []) <->
   exists f r, on_board f r = true /\ at_ b f r = mk_piece w Rook /\ In m (slider_moves b w f r rook_dirs)) /\
  (In m (bishopBlock w p []) <->
   exists f r, on_board f r = true /\ at_ b f r = mk_piece w Bishop /\ In m (slider_moves b w f r bishop_dirs)) /\
  (In m (queenBlock w p []) <->
   exists f r, on_board f r = true /\ at_ b f r = mk_piece w Queen /\ In m (slider_moves b w f r (rook_dirs ++ bishop_dirs))).
Proof.
  intros p m H w b. split; [|split].
  - unfold rookBlock. cbv zeta.
    apply (slider_block_spec p H (fun s => rookAttacks s (occupiedBB p)) rook_dirs).
    + unfold allDirs. apply incl_appl, incl_refl.
    + intros s t _. apply rookAttacks_cut.
    + intros s Hs. apply rookAttacks_lt. exact Hs.
    + cbn; tauto.
    + destruct w; reflexivity.
  - unfold bishopBlock. cbv zeta.
    apply (slider_block_spec p H (fun s => bishopAttacks s (occupiedBB p)) bishop_dirs).
    + unfold allDirs. apply incl_appr, incl_refl.
    + intros s t _. apply bishopAttacks_cut.
    + intros s Hs. apply bishopAttacks_lt. exact Hs.
    + cbn; tauto.
    + destruct w; reflexivity.
  - unfold queenBlock. cbv zeta.
    apply (slider_block_spec p H (fun s => N.lor (rookAttacks s (occupiedBB p)) (bishopAttacks s (occupiedBB p))) (rook_dirs ++ bishop_dirs)).
    + apply incl_refl.
    + intros s t _. rewrite N.lor_spec, orb_true_iff, rookAttacks_cut, bishopAttacks_cut. split.
      * intros [[d [Hd Hin]]|[d [Hd Hin]]]; exists d; (split; [apply in_or_app; auto | exact Hin]).
      * intros [d [Hd Hin]]. apply in_app_or in Hd. destruct Hd as [Hd|Hd]; [left | right]; exists d; auto.
    + intros s Hs. apply lt_2_64_of_bits. intros i Hi. rewrite N.lor_spec, orb_true_iff in Hi.
      destruct Hi as [Hi|Hi]; [exact (rookAttacks_in_board s i _ Hs Hi) | exact (bishopAttacks_in_board s i _ Hs Hi)].
    + cbn; tauto.
    + destruct w; reflexivity.
Qed.

(** non-vacuity: kiwipete's queen on f3 has 9 pseudo-moves in both worlds *)
Definition kiwipeteBoard : list piece :=
  [WROOK;0;0;0;WKING;0;0;WROOK;  WPAWN;WPAWN;WPAWN;WBISHOP;WBISHOP;WPAWN;WPAWN;WPAWN;
   0;0;WKNIGHT;0;0;WQUEEN;0;BPAWN;  0;BPAWN;0;0;WPAWN;0;0;0;  0;0;0;WPAWN;WKNIGHT;0;0;0;
   BBISHOP;BKNIGHT;0;0;BPAWN;BKNIGHT;BPAWN;0;  BPAWN;0;BPAWN;BPAWN;BQUEEN;BPAWN;BBISHOP;0;
   BROOK;0;0;0;BKING;0;0;BROOK].
Definition kiwipete : position := positionOfBoard kiwipeteBoard true 15 (-1).
Example kiwipete_queen : WF kiwipete /\ length (queenBlock true kiwipete []) = 9%nat
  /\ length (slider_moves kiwipeteBoard true 5 2 (rook_dirs ++ bishop_dirs)) = 9%nat.
Proof. vm_compute. auto. Qed.
