(** C01_captures_checks_complete: pseudoLegalCapturesAndChecks contains every legal move of its
    class - captures (incl. en passant), promotions to queen or knight, and checking moves
    (castling is always generated) - so removeIllegal keeps it; for any Zobrist tables and any
    values of the redundant fields.  Uses the Spec-side characterisation of checks by quiet
    non-special moves (direct / discovered) from GivesCheckProofs. *)
From Coq Require Import ZArith NArith List Bool Lia.
From Texel Require Import Chess.Types Chess.Position Chess.PositionSpec Chess.PositionFacts Chess.PositionProofs
  Chess.PositionProofs2 Chess.PositionProofs4 Chess.PositionTheorems Chess.PositionB
  Chess.BitBoard Chess.MoveGen Chess.Spec Chess.MoveGenWF
  Chess.BitBoardProofs Chess.RayProofs Chess.MoveGenProofs Chess.AttackProofs Chess.SliderProofs Chess.PawnProofs
  Chess.PseudoProofs Chess.MakeSpecProofs Chess.TryMoveProofs Chess.CastleProofs Chess.LegalProofs Chess.ShortcutProofs
  Chess.IsLegalProofs Chess.CapturesProofs Chess.NoDupProofs Chess.WfProofs Chess.IsLegalFull Chess.EvasionsIn Chess.IsLegalAll
  Chess.RemoveIllegalIndep Chess.EvasionsComplete Chess.CapChecksSub Chess.GivesCheckProofs gen.BitBoardTables.
Import ListNotations.
Local Open Scope N_scope.

Definition promoOKF (wtm : bool) (t : square) (pr : piece) : Prop :=
  (N.testbit maskRow1Row8 t = true /\ In pr [myPiece wtm WQUEEN; myPiece wtm WKNIGHT]) \/
  (N.testbit maskRow1Row8 t = false /\ pr = EMPTY).

Lemma pawnToF_iff : forall wtm mask d m, mask < 2 ^ 64 ->
  (In m (pawnToF wtm mask d) <-> N.testbit mask (mto m) = true /\ mfrom m = sqAdd (mto m) d /\ promoOKF wtm (mto m) (mpromote m)).
Proof.
  intros wtm mask d m Hm. unfold pawnToF, promoOKF. rewrite in_app_iff, in_flat_map. split.
  - intros [[t [Ht Hin]]|H].
    + apply bitsOf_In in Ht; [|apply land_lt_l; exact Hm]. rewrite N.land_spec in Ht. apply andb_true_iff in Ht. destruct Ht as [A B].
      unfold promo2 in Hin. cbn [In] in Hin.
      destruct Hin as [<-|[<-|[]]]; cbn [mfrom mto mpromote]; (split; [exact A|]); (split; [reflexivity|]); left; (split; [exact B|]); cbn [In]; auto.
    + apply plainTo_iff in H; [|apply ldiff_lt; exact Hm]. destruct H as (A & B & C). unfold andn in A.
      rewrite N.ldiff_spec, N.land_spec in A. apply andb_true_iff in A. destruct A as [A1 A2]. rewrite A1 in A2. cbn [andb] in A2.
      apply negb_true_iff in A2. auto.
  - intros (A & B & [[C D]|[C D]]).
    + left. exists (mto m). split; [apply bitsOf_In; [apply land_lt_l; exact Hm | rewrite N.land_spec, A, C; reflexivity]|].
      unfold promo2. destruct m as [f t pr]. cbn [mfrom mto mpromote In] in *. subst f.
      destruct D as [<-|[<-|[]]]; auto.
    + right. apply plainTo_iff; [apply ldiff_lt; exact Hm|]. split; [|auto].
      unfold andn. rewrite N.ldiff_spec, N.land_spec, A, C. reflexivity.
Qed.

Lemma cc_dep : forall sq bb wb kb wm hc fc cm ep h1 h2 h3 h4 h5 h6 h7 g1 g2 g3 g4 g5 g6 g7,
  pseudoLegalCapturesAndChecks (mkPos sq bb wb kb wm hc fc cm ep h1 h2 h3 h4 h5 h6 h7) =
  pseudoLegalCapturesAndChecks (mkPos sq bb wb kb wm hc fc cm ep g1 g2 g3 g4 g5 g6 g7).
Proof.
  intros. unfold pseudoLegalCapturesAndChecks, pseudoLegalCapturesAndChecksT, castleMoves, kingSq, sqAttacked, sqAttackedOcc, sqAttackedT,
    epMaskOf, ptBB, occupiedBB, colorBB, getPiece.
  cbn [squares pieceTypeBB whiteBB blackBB whiteMove castleMask epSquare]. reflexivity.
Qed.
Lemma cc_twin : forall p, pseudoLegalCapturesAndChecks (twin p) = pseudoLegalCapturesAndChecks p.
Proof. intros [sq bb wb kb wm hc fc cm ep h1 h2 h3 h4 h5 h6 h7]. unfold twin. cbn [squares pieceTypeBB whiteBB blackBB whiteMove halfMoveClock fullMoveCounter castleMask epSquare]. apply cc_dep. Qed.

Section CC.
Variable p : position.
Hypothesis HWF : WF p.
Let w := whiteMove p.
Let occ := occupiedBB p.
Let own := colorBB p w.
Let enemy := colorBB p (negb w).
Let oks := kingSq p (negb w).
Let disc := discoveredOf w p.
Let kR := rookAttacks oks occ.
Let kB := bishopAttacks oks occ.
Let kN := knightAttacks oks.
Let ks := kingSq p w.
Let pawns := ptBB p (myPiece w WPAWN).
Let eoe := N.lor enemy (epMaskOf p).
Let pawnAll := N.lor disc (if w then maskRow7 else maskRow2).
Let ma := andn (fwd w (N.land pawns pawnAll) 8) occ.
Let mb := andn (fwd w (andn pawns pawnAll) 8) occ.
Let oka := if w then bPawnAttacks oks else wPawnAttacks oks.
Let row := if w then maskRow3 else maskRow6.

Definition ccQ (sq : square) : N :=
  andn (if N.land disc (bit sq) =? 0
        then N.land (N.lor (rookAttacks sq occ) (bishopAttacks sq occ)) (N.lor (N.lor enemy kR) kB)
        else N.lor (rookAttacks sq occ) (bishopAttacks sq occ)) own.
Definition ccR (sq : square) : N :=
  andn (if N.land disc (bit sq) =? 0 then N.land (rookAttacks sq occ) (N.lor enemy kR) else rookAttacks sq occ) own.
Definition ccB (sq : square) : N :=
  andn (if N.land disc (bit sq) =? 0 then N.land (bishopAttacks sq occ) (N.lor enemy kB) else bishopAttacks sq occ) own.
Definition ccK : N := if N.land disc (bit ks) =? 0 then N.land (kingAttacks ks) enemy else andn (kingAttacks ks) own.
Definition ccN (sq : square) : N :=
  if N.land disc (bit sq) =? 0 then N.land (andn (knightAttacks sq) own) (N.lor enemy kN) else andn (knightAttacks sq) own.

Lemma capchecks_list :
  pseudoLegalCapturesAndChecks p =
  loopMoves (ptBB p (myPiece w WQUEEN)) ccQ ++ loopMoves (ptBB p (myPiece w WROOK)) ccR ++ loopMoves (ptBB p (myPiece w WBISHOP)) ccB ++
  movesTo ks ccK ++ lC p ++ loopMoves (ptBB p (myPiece w WKNIGHT)) ccN ++
  pawnToF w (N.land (N.land (fwd w pawns (if w then 7 else 9)) maskAToGFiles) eoe) (delta w (if w then 7 else 9)) ++
  pawnToF w (N.land (N.land (fwd w pawns (if w then 9 else 7)) maskBToHFiles) eoe) (delta w (if w then 9 else 7)) ++
  pawnToF w ma (delta w 8) ++ plainTo (delta w 16) (andn (fwd w (N.land ma row) 8) occ) ++
  pawnToF w (N.land mb oka) (delta w 8) ++ plainTo (delta w 16) (N.land (andn (fwd w (N.land mb row) 8) occ) oka).
Proof.
  unfold pseudoLegalCapturesAndChecks. fold w. rewrite capChecksT_normal. cbv zeta.
  fold occ own enemy oks. fold disc kR kB kN ks pawns. fold eoe. fold pawnAll. fold ma mb oka row.
  rewrite !addPawnDoubleMovesByMask_list, !addPawnMovesByMask_listF.
  change (fun (l : moveList) (sq : square) => addMovesByMask l sq
            (if N.land disc (bit sq) =? 0 then N.land (andn (knightAttacks sq) own) (N.lor enemy kN) else andn (knightAttacks sq) own))
    with (fun (l : moveList) (sq : square) => addMovesByMask l sq (ccN sq)).
  rewrite loop_list. unfold occ, ks, w. rewrite (castleMoves_list p). fold w occ ks.
  change (if N.land disc (bit ks) =? 0 then N.land (kingAttacks ks) enemy else andn (kingAttacks ks) own) with ccK.
  rewrite addMovesByMask_list.
  change (fun (l : moveList) (sq : square) => addMovesByMask l sq
            (andn (if N.land disc (bit sq) =? 0 then N.land (bishopAttacks sq occ) (N.lor enemy kB) else bishopAttacks sq occ) own))
    with (fun (l : moveList) (sq : square) => addMovesByMask l sq (ccB sq)).
  rewrite loop_list.
  change (fun (l : moveList) (sq : square) => addMovesByMask l sq
            (andn (if N.land disc (bit sq) =? 0 then N.land (rookAttacks sq occ) (N.lor enemy kR) else rookAttacks sq occ) own))
    with (fun (l : moveList) (sq : square) => addMovesByMask l sq (ccR sq)).
  rewrite loop_list.
  change (fun (l : moveList) (sq : square) => addMovesByMask l sq
            (andn (if N.land disc (bit sq) =? 0
                   then N.land (N.lor (rookAttacks sq occ) (bishopAttacks sq occ)) (N.lor (N.lor enemy kR) kB)
                   else N.lor (rookAttacks sq occ) (bishopAttacks sq occ)) own))
    with (fun (l : moveList) (sq : square) => addMovesByMask l sq (ccQ sq)).
  rewrite loop_list. cbn [app]. rewrite <- !app_assoc. reflexivity.
Qed.
End CC.

(** finite facts: a pawn that promotes by a push stands on its 7th rank; king steps change the file by at most one *)
Definition R7P (f t : square) : bool :=
  forallb (fun wtm : bool =>
    (if (Z.of_N f =? Z.of_N t + delta wtm 8)%Z && N.testbit maskRow1Row8 t then N.testbit (if wtm then maskRow7 else maskRow2) f else true)
    && (if (Z.of_N f =? Z.of_N t + delta wtm 16)%Z then negb (N.testbit (if wtm then maskRow7 else maskRow2) f) || true else true)) [true; false]
  && (if N.testbit (kingAttacks f) t then negb (zf t - zf f =? 2)%Z && negb (zf t - zf f =? -2)%Z else true).
Lemma R7_ok : forallb (fun a => forallb (R7P a) allSquares) allSquares = true.
Proof. vm_compute. reflexivity. Qed.
Lemma R7 : forall f t (wtm : bool), f < 64 -> t < 64 ->
  (Z.of_N f = Z.of_N t + delta wtm 8 -> N.testbit maskRow1Row8 t = true -> N.testbit (if wtm then maskRow7 else maskRow2) f = true)%Z /\
  (N.testbit (kingAttacks f) t = true -> (zf t - zf f =? 2)%Z = false /\ (zf t - zf f =? -2)%Z = false).
Proof.
  intros f t wtm Hf Ht. pose proof (sweep2 R7P R7_ok f t Hf Ht) as H. unfold R7P in H. apply andb_true_iff in H. destruct H as [A B]. split.
  - intros E Hr. rewrite forallb_forall in A. assert (Hin : In wtm [true; false]) by (destruct wtm; cbn; tauto).
    specialize (A wtm Hin). apply andb_true_iff in A. destruct A as [A _]. rewrite E, Z.eqb_refl, Hr in A. exact A.
  - intro Hk. rewrite Hk in B. apply andb_true_iff in B. destruct B as [B1 B2]. apply negb_true_iff in B1, B2. auto.
Qed.

Section CC2.
Variable p : position.
Hypothesis HWF : WF p.
Variable m : move.
Hypothesis Hleg : legal_spec (abs p) m.
Hypothesis Hcls : captureCheckClass (abs p) m = true.
Let w := whiteMove p.
Let occ := occupiedBB p.
Let own := colorBB p w.
Let enemy := colorBB p (negb w).
Let oks := kingSq p (negb w).
Let disc := discoveredOf w p.

Lemma cHB : BoardOK p. Proof. exact (WF_BoardOK p HWF). Qed.

Lemma class_dec : underPromotionRB m = false /\
  (getPiece p (mto m) <> EMPTY \/ (is_piece w Pawn (getPiece p (mfrom m)) = true /\ zf (mto m) <> zf (mfrom m)) \/
   mpromote m <> EMPTY \/ gives_check_spec (abs p) m = true).
Proof.
  destruct (g_move p HWF m Hleg) as (Hf & Ht & _).
  unfold captureCheckClass, is_capture_spec in Hcls. cbn [abs sp_board sp_white] in Hcls. fold w in Hcls.
  change (file_of (mto m)) with (zf (mto m)) in Hcls. change (rank_of (mto m)) with (zr (mto m)) in Hcls.
  change (file_of (mfrom m)) with (zf (mfrom m)) in Hcls. change (rank_of (mfrom m)) with (zr (mfrom m)) in Hcls.
  rewrite <- (getPiece_at p _ Ht), <- (getPiece_at p _ Hf) in Hcls.
  apply andb_true_iff in Hcls. destruct Hcls as [A B]. apply negb_true_iff in B. split; [exact B|].
  rewrite !orb_true_iff in A. destruct A as [[[A|A]|A]|A].
  - left. apply negb_true_iff, N.eqb_neq in A. exact A.
  - right. left. apply andb_true_iff in A. destruct A as [A1 A2]. apply negb_true_iff, Z.eqb_neq in A2. auto.
  - right. right. left. apply negb_true_iff, N.eqb_neq in A. exact A.
  - right. right. right. exact A.
Qed.

Lemma enemy_bit_of : forall t, t < 64 -> getPiece p t <> EMPTY -> has_color w (getPiece p t) = false -> N.testbit enemy t = true.
Proof.
  intros t Ht Hne Hc. unfold enemy. rewrite (colorBB_testbit p _ t HWF).
  replace (t <? 64) with true by (symmetry; apply N.ltb_lt; exact Ht). cbn [andb]. apply (nonempty_not_own_is_enemy p HWF t Hne Hc).
Qed.

(** the from-square of a discovered check is in the generator's [discovered] set *)
Lemma disc_in : DiscP p m -> N.testbit disc (mfrom m) = true.
Proof.
  intros (y & Hy & Nyt & Nyf & Hbf & Hbt & Hall & Hs).
  destruct (g_move p HWF m Hleg) as (Hf & Ht & _).
  destruct (kingSq_spec p (negb w) HWF) as [Hk _]. fold oks in Hk.
  fold w oks occ in Hbf, Hbt, Hall, Hs.
  destruct (H3 oks y (mfrom m) Hk Hy Hf Hbf) as (E1 & _ & Hr & ER & EB & _).
  destruct (D1 (mfrom m) oks Hf Hk) as (DR & DB & _). destruct (G0 (mfrom m) oks Hf Hk) as (_ & _ & _ & SR & SBs).
  assert (Hvis : N.land (SB oks (mfrom m)) occ = 0).
  { apply land_zero_iff. intros x Hx. apply Hall; [rewrite E1, !N.lor_spec, Hx; reflexivity|].
    intro E. subst x. destruct (G0 oks (mfrom m) Hk Hf) as (_ & A & _). congruence. }
  assert (Hmp : forall X, In X [1; 2; 3; 4; 5; 6] -> mine p X y -> N.testbit (ptBB p (myPiece w X)) y = true) by (intros X _ H; exact H).
  unfold disc, discoveredOf. cbv zeta. fold w oks occ.
  set (kRa := rookAttacks oks occ). set (kBa := bishopAttacks oks occ).
  assert (Hx : forall (atk : N) x, N.testbit atk (mfrom m) = true -> N.testbit (SB oks y) x = true -> N.testbit (andn occ atk) x = false).
  { intros atk x Ha Hxb. unfold andn. rewrite N.ldiff_spec. destruct (N.eq_dec x (mfrom m)) as [->|Nx]; [rewrite Ha; apply andb_false_r|].
    rewrite (Hall x Hxb Nx). reflexivity. }
  destruct Hs as [[Hal Hm]|[Hal Hm]].
  - assert (HfR : N.testbit kRa (mfrom m) = true).
    { apply (rookAttacks_testbit oks occ _ Hk). split; [exact Hf|]. split; [|exact Hvis]. rewrite <- SR, <- DR, ER. exact Hal. }
    assert (Hnz : nz (N.land (rookAttacks oks (andn occ kRa)) (N.lor (ptBB p (myPiece w WQUEEN)) (ptBB p (myPiece w WROOK)))) = true).
    { apply nz_exists. exists y. rewrite N.land_spec, N.lor_spec. apply andb_true_iff. split.
      - apply (rookAttacks_testbit oks _ y Hk). split; [exact Hy|]. split; [exact Hal|]. apply land_zero_iff. intros x Hxb. apply (Hx kRa x HfR Hxb).
      - apply orb_true_iff. destruct Hm as [Hm|Hm]; [right | left]; exact Hm. }
    rewrite Hnz. cbv iota. rewrite N.lor_0_l. match goal with |- context [if ?c then _ else _] => destruct c end; [rewrite N.lor_spec, HfR; reflexivity | exact HfR].
  - assert (HfB : N.testbit kBa (mfrom m) = true).
    { apply (bishopAttacks_testbit oks occ _ Hk). split; [exact Hf|]. split; [|exact Hvis]. rewrite <- SBs, <- DB, EB. exact Hal. }
    assert (Hnz : nz (N.land (bishopAttacks oks (andn occ kBa)) (N.lor (ptBB p (myPiece w WQUEEN)) (ptBB p (myPiece w WBISHOP)))) = true).
    { apply nz_exists. exists y. rewrite N.land_spec, N.lor_spec. apply andb_true_iff. split.
      - apply (bishopAttacks_testbit oks _ y Hk). split; [exact Hy|]. split; [exact Hal|]. apply land_zero_iff. intros x Hxb. apply (Hx kBa x HfB Hxb).
      - apply orb_true_iff. destruct Hm as [Hm|Hm]; [right | left]; exact Hm. }
    rewrite Hnz. cbv iota. rewrite N.lor_spec, HfB. apply orb_true_r.
Qed.

(** why a quiet-looking move of the class is in the class *)
Lemma reason : mpromote m = EMPTY -> isEp p m = false -> isCK p m = false -> isCQ p m = false ->
  N.testbit enemy (mto m) = true \/ DirectP p m \/ N.testbit disc (mfrom m) = true.
Proof.
  intros Hpro Hep HcK HcQ. destruct (g_move p HWF m Hleg) as (Hf & Ht & _ & _ & Hcap). fold w in Hcap.
  destruct class_dec as [_ [A|[[A1 A2]|[A|A]]]].
  - left. apply enemy_bit_of; assumption.
  - destruct (N.eq_dec (getPiece p (mto m)) EMPTY) as [E|Ne]; [|left; apply enemy_bit_of; assumption].
    exfalso. unfold isEp in Hep. fold w in Hep. rewrite A1, E in Hep. change (EMPTY =? EMPTY) with true in Hep.
    replace (zf (mto m) =? zf (mfrom m))%Z with false in Hep by (symmetry; apply Z.eqb_neq; exact A2). discriminate Hep.
  - contradiction.
  - apply (g_spec_iff p HWF m Hleg Hpro Hep HcK HcQ) in A. destruct A as [A|A]; [right; left; exact A | right; right; apply disc_in; exact A].
Qed.
End CC2.

Section CC3.
Variable p : position.
Hypothesis HWF : WF p.
Variable m : move.
Hypothesis Hleg : legal_spec (abs p) m.
Hypothesis Hcls : captureCheckClass (abs p) m = true.
Let w := whiteMove p.
Let occ := occupiedBB p.
Let own := colorBB p w.
Let enemy := colorBB p (negb w).
Let oks := kingSq p (negb w).
Let disc := discoveredOf w p.
Let kR := rookAttacks oks occ.
Let kB := bishopAttacks oks occ.
Let pawns := ptBB p (myPiece w WPAWN).
Let pawnAll := N.lor disc (if w then maskRow7 else maskRow2).
Let ma := andn (fwd w (N.land pawns pawnAll) 8) occ.
Let mb := andn (fwd w (andn pawns pawnAll) 8) occ.
Let oka := if w then bPawnAttacks oks else wPawnAttacks oks.
Let row := if w then maskRow3 else maskRow6.
Let m1 := andn (fwd w pawns 8) occ.

Lemma oksK : oks < 64. Proof. apply (kingSq_spec p (negb w) HWF). Qed.

Lemma promoF : forall t pr, promoOK w t pr -> underPromotionRB m = false -> pr = mpromote m -> promoOKF w t pr.
Proof.
  intros t pr [[A B]|[A B]] Hu E; [left | right; auto]. split; [exact A|]. cbn [In] in B |- *. unfold underPromotionRB in Hu.
  destruct B as [B|[B|[B|[B|[]]]]]; auto; exfalso; rewrite <- E, <- B in Hu; unfold w in Hu; destruct (whiteMove p); discriminate Hu.
Qed.

Lemma notDisc : forall s, (N.land disc (bit s) =? 0) = negb (N.testbit disc s).
Proof. intro s. apply land_bit_zero. Qed.

Lemma slider_reason : forall X, In X [2; 3; 4; 5] -> getPiece p (mfrom m) = myPiece w X -> mpromote m = EMPTY ->
  N.testbit enemy (mto m) = true \/ DirectP p m \/ N.testbit disc (mfrom m) = true.
Proof.
  intros X HX Epc Hpro. apply (reason p HWF m Hleg Hcls Hpro); unfold isEp, isCK, isCQ; fold w; rewrite Epc, is_piece_eqb;
    cbn [In] in HX; destruct HX as [<-|[<-|[<-|[<-|[]]]]]; unfold w; destruct (whiteMove p); reflexivity.
Qed.

Lemma direct_cases : forall X, In X [1; 2; 3; 4; 5; 6] -> getPiece p (mfrom m) = myPiece w X -> DirectP p m ->
  (X = WKNIGHT /\ N.testbit (knightAttacks oks) (mto m) = true) \/
  (X = WPAWN /\ N.testbit oka (mto m) = true) \/
  ((X = WBISHOP \/ X = WQUEEN) /\ N.testbit kB (mto m) = true) \/
  ((X = WROOK \/ X = WQUEEN) /\ N.testbit kR (mto m) = true).
Proof.
  intros X HX Epc HD. destruct (g_move p HWF m Hleg) as (_ & Ht & _). pose proof oksK as Hk.
  unfold DirectP in HD. cbv zeta in HD. fold w oks occ in HD. rewrite Epc in HD.
  assert (I2 : In WQUEEN [1; 2; 3; 4; 5; 6]) by (cbn; tauto). assert (I3 : In WROOK [1; 2; 3; 4; 5; 6]) by (cbn; tauto).
  assert (I4 : In WBISHOP [1; 2; 3; 4; 5; 6]) by (cbn; tauto). assert (I5 : In WKNIGHT [1; 2; 3; 4; 5; 6]) by (cbn; tauto).
  assert (I6 : In WPAWN [1; 2; 3; 4; 5; 6]) by (cbn; tauto).
  rewrite !(myPiece_inj w X) in HD by assumption.
  destruct HD as [[E A]|[[E A]|[[E [A1 A2]]|[E [A1 A2]]]]].
  - left. auto.
  - right. left. split; [exact E|]. unfold oka, patkOf in *. unfold w in *. destruct (whiteMove p); exact A.
  - right. right. left. split; [exact E|]. apply (bishopAttacks_testbit oks occ _ Hk). auto.
  - right. right. right. split; [exact E|]. apply (rookAttacks_testbit oks occ _ Hk). auto.
Qed.

Theorem capchecks_generated : In m (pseudoLegalCapturesAndChecks p).
Proof.
  rewrite (capchecks_list p). fold w occ own enemy oks. fold disc kR kB pawns. fold pawnAll. fold ma mb oka row.
  pose proof (gHm p HWF m Hleg) as Hm. rewrite pseudo_list in Hm.
  destruct (bounds p HWF) as (Hp & H1 & H2 & H3 & H4 & HgQ & HgR & HgB & HgN). fold w occ pawns in Hp, H1, H2, H3, H4. fold m1 in H1, H2.
  destruct (class_dec p HWF m Hleg Hcls) as [Hunder _].
  destruct (g_move p HWF m Hleg) as (Hf & Ht & Hne & Hown & Hcap). fold w in Hown, Hcap.
  pose proof oksK as Hk.
  assert (Hbb : forall wp, In wp [2; 3; 4; 5] -> ptBB p (myPiece w wp) < 2 ^ 64).
  { intros wp Hwp. apply ptBB_lt; [exact HWF|]. apply myPiece_codes. cbn [In] in Hwp |- *. tauto. }
  assert (IQ : In WQUEEN [2; 3; 4; 5]) by (left; reflexivity). assert (IR : In WROOK [2; 3; 4; 5]) by (right; left; reflexivity).
  assert (IB : In WBISHOP [2; 3; 4; 5]) by (right; right; left; reflexivity). assert (IN : In WKNIGHT [2; 3; 4; 5]) by (right; right; right; left; reflexivity).
  assert (I6 : forall X, In X [2; 3; 4; 5] -> In X [1; 2; 3; 4; 5; 6]) by (intros X H; cbn [In] in *; tauto).
  (* generic step for the four piece loops *)
  assert (Hloop : forall X (g cc : square -> N), In X [2; 3; 4; 5] -> (forall sq, sq < 64 -> g sq < 2 ^ 64) ->
            (forall sq t, sq < 64 -> N.testbit (cc sq) t = true -> N.testbit (g sq) t = true) ->
            In m (loopMoves (ptBB p (myPiece w X)) g) ->
            (getPiece p (mfrom m) = myPiece w X -> mpromote m = EMPTY -> N.testbit (g (mfrom m)) (mto m) = true -> N.testbit (cc (mfrom m)) (mto m) = true) ->
            In m (loopMoves (ptBB p (myPiece w X)) cc)).
  { intros X g cc HX Hg Hsub Hin Himp.
    assert (Hcc : forall sq, sq < 64 -> cc sq < 2 ^ 64).
    { intros sq Hs. apply lt_2_64_of_bits. intros i Hi. apply (bits_below_64 _ (Hg sq Hs)). apply Hsub; assumption. }
    apply loopMoves_iff in Hin; [|apply Hbb; exact HX | exact Hg]. destruct Hin as (A & B & C).
    apply loopMoves_iff; [apply Hbb; exact HX | exact Hcc|]. split; [exact A|]. split; [exact B|]. apply Himp; [|exact B | exact C].
    rewrite (ptBB_testbit p _ _ HWF (myPiece_codes w X (I6 X HX))) in A. apply andb_true_iff in A. destruct A as [_ A]. apply N.eqb_eq. exact A. }
  (apply in_app_or in Hm; destruct Hm as [Hm|Hm]); [|(apply in_app_or in Hm; destruct Hm as [Hm|Hm]); [|(apply in_app_or in Hm; destruct Hm as [Hm|Hm]); [|(apply in_app_or in Hm; destruct Hm as [Hm|Hm]); [|(apply in_app_or in Hm; destruct Hm as [Hm|Hm]); [|(apply in_app_or in Hm; destruct Hm as [Hm|Hm]); [|(apply in_app_or in Hm; destruct Hm as [Hm|Hm]); [|(apply in_app_or in Hm; destruct Hm as [Hm|Hm]); [|(apply in_app_or in Hm; destruct Hm as [Hm|Hm])]]]]]]]].
  - (* queen *) apply in_or_app. left. unfold lQ in Hm. fold w in Hm.
    apply (Hloop WQUEEN (gQ p) (ccQ p) IQ HgQ); [| exact Hm |].
    + intros sq t Hs Hb. unfold ccQ, gQ in *. fold w occ own enemy oks disc kR kB in Hb |- *. unfold andn in *. rewrite N.ldiff_spec in *.
      apply andb_true_iff in Hb. destruct Hb as [A B]. apply andb_true_iff. split; [|exact B].
      destruct (N.land disc (bit sq) =? 0); [rewrite N.land_spec in A; apply andb_true_iff in A; apply A | exact A].
    + intros Epc Hpro Hb. unfold ccQ, gQ in *. fold w occ own enemy oks disc kR kB in Hb |- *. unfold andn in *. rewrite N.ldiff_spec in *.
      apply andb_true_iff in Hb. destruct Hb as [A B]. apply andb_true_iff. split; [|exact B].
      rewrite notDisc. destruct (N.testbit disc (mfrom m)) eqn:Ed; cbn [negb]; [exact A|].
      rewrite N.land_spec, A, !N.lor_spec. cbn [andb].
      destruct (slider_reason WQUEEN IQ Epc Hpro) as [He|[HD|Hd]]; [rewrite He; reflexivity | | congruence].
      destruct (direct_cases WQUEEN (I6 _ IQ) Epc HD) as [[E _]|[[E _]|[[_ A']|[_ A']]]]; try discriminate E; rewrite A'; rewrite ?orb_true_r; reflexivity.
  - (* rook *) apply in_or_app. right. apply in_or_app. left. unfold lR in Hm. fold w in Hm.
    apply (Hloop WROOK (gR p) (ccR p) IR HgR); [| exact Hm |].
    + intros sq t Hs Hb. unfold ccR, gR in *. fold w occ own enemy oks disc kR in Hb |- *. unfold andn in *. rewrite N.ldiff_spec in *.
      apply andb_true_iff in Hb. destruct Hb as [A B]. apply andb_true_iff. split; [|exact B].
      destruct (N.land disc (bit sq) =? 0); [rewrite N.land_spec in A; apply andb_true_iff in A; apply A | exact A].
    + intros Epc Hpro Hb. unfold ccR, gR in *. fold w occ own enemy oks disc kR in Hb |- *. unfold andn in *. rewrite N.ldiff_spec in *.
      apply andb_true_iff in Hb. destruct Hb as [A B]. apply andb_true_iff. split; [|exact B].
      rewrite notDisc. destruct (N.testbit disc (mfrom m)) eqn:Ed; cbn [negb]; [exact A|].
      rewrite N.land_spec, A, !N.lor_spec. cbn [andb].
      destruct (slider_reason WROOK IR Epc Hpro) as [He|[HD|Hd]]; [rewrite He; reflexivity | | congruence].
      destruct (direct_cases WROOK (I6 _ IR) Epc HD) as [[E _]|[[E _]|[[[E|E] _]|[_ A']]]]; try discriminate E; rewrite A'; rewrite ?orb_true_r; reflexivity.
  - (* bishop *) apply in_or_app. right. apply in_or_app. right. apply in_or_app. left. unfold lB in Hm. fold w in Hm.
    apply (Hloop WBISHOP (gB p) (ccB p) IB HgB); [| exact Hm |].
    + intros sq t Hs Hb. unfold ccB, gB in *. fold w occ own enemy oks disc kB in Hb |- *. unfold andn in *. rewrite N.ldiff_spec in *.
      apply andb_true_iff in Hb. destruct Hb as [A B]. apply andb_true_iff. split; [|exact B].
      destruct (N.land disc (bit sq) =? 0); [rewrite N.land_spec in A; apply andb_true_iff in A; apply A | exact A].
    + intros Epc Hpro Hb. unfold ccB, gB in *. fold w occ own enemy oks disc kB in Hb |- *. unfold andn in *. rewrite N.ldiff_spec in *.
      apply andb_true_iff in Hb. destruct Hb as [A B]. apply andb_true_iff. split; [|exact B].
      rewrite notDisc. destruct (N.testbit disc (mfrom m)) eqn:Ed; cbn [negb]; [exact A|].
      rewrite N.land_spec, A, !N.lor_spec. cbn [andb].
      destruct (slider_reason WBISHOP IB Epc Hpro) as [He|[HD|Hd]]; [rewrite He; reflexivity | | congruence].
      destruct (direct_cases WBISHOP (I6 _ IB) Epc HD) as [[E _]|[[E _]|[[_ A']|[[E|E] _]]]]; try discriminate E; rewrite A'; rewrite ?orb_true_r; reflexivity.
  - (* king steps *) do 3 (apply in_or_app; right). apply in_or_app. left.
    unfold lK in Hm. fold w own in Hm. apply movesTo_iff in Hm; [|apply ldiff_lt, kingAttacks_lt]. destruct Hm as (Ef & Epro & Hb).
    destruct (kingSq_spec p w HWF) as [Hks Hkp].
    assert (HccK : ccK p < 2 ^ 64).
    { unfold ccK. fold w occ own enemy oks disc. destruct (_ =? 0); [apply land_lt_l | apply ldiff_lt]; apply kingAttacks_lt. }
    apply movesTo_iff; [exact HccK|]. split; [exact Ef|]. split; [exact Epro|].
    unfold ccK. fold w occ own enemy oks disc. rewrite notDisc. rewrite <- Ef.
    destruct (N.testbit disc (mfrom m)) eqn:Ed; cbn [negb]; [rewrite Ef; exact Hb|].
    unfold andn in Hb. rewrite N.ldiff_spec in Hb. apply andb_true_iff in Hb. destruct Hb as [A B].
    rewrite N.land_spec, Ef, A. cbn [andb].
    assert (Epc : getPiece p (mfrom m) = mk_piece w King) by (rewrite Ef; exact Hkp).
    destruct (R7 (kingSq p w) (mto m) w Hks Ht) as [_ HK]. destruct (HK A) as [Z1 Z2]. rewrite <- Ef in Z1, Z2.
    destruct (reason p HWF m Hleg Hcls Epro) as [He|[HD|Hd]]; try (unfold isEp, isCK, isCQ; fold w; rewrite Epc, is_piece_eqb).
    + unfold w. destruct (whiteMove p); reflexivity.
    + rewrite Z1. apply andb_false_r.
    + rewrite Z2. apply andb_false_r.
    + fold w in He. fold enemy in He. exact He.
    + exfalso. assert (I1 : In WKING [1; 2; 3; 4; 5; 6]) by (cbn; tauto).
      assert (Epc' : getPiece p (mfrom m) = myPiece w WKING) by (rewrite Epc; unfold w; destruct (whiteMove p); reflexivity).
      destruct (direct_cases WKING I1 Epc' HD) as [[E _]|[[E _]|[[[E|E] _]|[[E|E] _]]]]; discriminate E.
    + fold w in Hd. fold disc in Hd. congruence.
  - (* castling *) do 4 (apply in_or_app; right). apply in_or_app. left. exact Hm.
  - (* knight *) do 5 (apply in_or_app; right). apply in_or_app. left. unfold lN in Hm. fold w in Hm.
    apply (Hloop WKNIGHT (gN p) (ccN p) IN HgN); [| exact Hm |].
    + intros sq t Hs Hb. unfold ccN, gN in *. fold w occ own enemy oks disc in Hb |- *.
      destruct (N.land disc (bit sq) =? 0); [rewrite N.land_spec in Hb; apply andb_true_iff in Hb; apply Hb | exact Hb].
    + intros Epc Hpro Hb. unfold ccN, gN in *. fold w occ own enemy oks disc in Hb |- *.
      rewrite notDisc. destruct (N.testbit disc (mfrom m)) eqn:Ed; cbn [negb]; [exact Hb|].
      rewrite N.land_spec, Hb, !N.lor_spec. cbn [andb].
      destruct (slider_reason WKNIGHT IN Epc Hpro) as [He|[HD|Hd]]; [rewrite He; reflexivity | | congruence].
      destruct (direct_cases WKNIGHT (I6 _ IN) Epc HD) as [[_ A']|[[E _]|[[[E|E] _]|[[E|E] _]]]]; try discriminate E. rewrite A'. apply orb_true_r.
  - (* single pushes *) do 6 (apply in_or_app; right).
    unfold lP1 in Hm. fold w occ pawns in Hm. fold m1 in Hm. apply pawnTo_iff in Hm; [|exact H1]. destruct Hm as (Hb & Ef & Hpo).
    unfold m1, andn in Hb. rewrite N.ldiff_spec in Hb. apply andb_true_iff in Hb. destruct Hb as [Hfw Hno]. apply negb_true_iff in Hno.
    apply (fwd_testbit w pawns 8 _ Hp) in Hfw. destruct Hfw as (_ & Hpb & Hz). rewrite <- Ef in Hpb, Hz.
    destruct (N.testbit pawnAll (mfrom m)) eqn:Epa.
    + do 2 (apply in_or_app; right). apply in_or_app. left.
      apply pawnToF_iff; [apply ldiff_lt, fwd_lt, land_lt_l; exact Hp|].
      split; [|split; [exact Ef | apply (promoF _ _ Hpo Hunder eq_refl)]].
      unfold ma, andn. rewrite N.ldiff_spec, Hno, andb_true_r. apply (fwd_testbit w _ 8 _ (land_lt_l _ _ _ Hp)).
      split; [exact Ht|]. rewrite <- Ef. split; [rewrite N.land_spec, Hpb, Epa; reflexivity | exact Hz].
    + assert (Epro : mpromote m = EMPTY).
      { destruct Hpo as [[Hr _]|[_ E]]; [|exact E]. exfalso. destruct (R7 (mfrom m) (mto m) w Hf Ht) as [A _]. specialize (A Hz Hr).
        unfold pawnAll in Epa. rewrite N.lor_spec, A, orb_true_r in Epa. discriminate Epa. }
      destruct (proj1 (pawns_bit p HWF w (mfrom m)) Hpb) as [_ Epc].
      assert (Ezf : zf (mto m) = zf (mfrom m)).
      { symmetry. apply (zf_shift _ _ (if w then -1 else 1)%Z). rewrite Hz. unfold delta. change (Z.of_N 8) with 8%Z. destruct w; lia. }
      do 4 (apply in_or_app; right). apply in_or_app. left.
      apply pawnToF_iff; [apply land_lt_l, ldiff_lt, fwd_lt, ldiff_lt; exact Hp|].
      split; [|split; [exact Ef | right; split; [|exact Epro]]].
      2:{ destruct Hpo as [[Hr _]|[Hr _]]; [|exact Hr]. exfalso. destruct (R7 (mfrom m) (mto m) w Hf Ht) as [A _]. specialize (A Hz Hr).
          unfold pawnAll in Epa. rewrite N.lor_spec, A, orb_true_r in Epa. discriminate Epa. }
      rewrite N.land_spec. apply andb_true_iff. split.
      * unfold mb, andn. rewrite !N.ldiff_spec, Hno, andb_true_r. apply (fwd_testbit w _ 8 _ (ldiff_lt _ _ _ Hp)).
        split; [exact Ht|]. rewrite <- Ef. split; [rewrite N.ldiff_spec, Hpb, Epa; reflexivity | exact Hz].
      * destruct (reason p HWF m Hleg Hcls Epro) as [He|[HD|Hd]]; try (unfold isEp, isCK, isCQ; fold w; rewrite Epc, is_piece_eqb).
        -- rewrite Ezf, Z.eqb_refl. cbn [negb]. rewrite andb_false_r. reflexivity.
        -- unfold w. destruct (whiteMove p); reflexivity.
        -- unfold w. destruct (whiteMove p); reflexivity.
        -- exfalso. fold w in He. unfold occ, occupiedBB in Hno. rewrite N.lor_spec in Hno. apply orb_false_iff in Hno. destruct Hno as [N1 N2].
           unfold colorBB in He. destruct (negb w); congruence.
        -- assert (I1 : In WPAWN [1; 2; 3; 4; 5; 6]) by (cbn; tauto).
           assert (Epc' : getPiece p (mfrom m) = myPiece w WPAWN) by (rewrite Epc; unfold w; destruct (whiteMove p); reflexivity).
           destruct (direct_cases WPAWN I1 Epc' HD) as [[E _]|[[_ A]|[[[E|E] _]|[[E|E] _]]]]; try discriminate E. exact A.
        -- exfalso. fold w in Hd. fold disc in Hd. unfold pawnAll in Epa. rewrite N.lor_spec, Hd in Epa. discriminate Epa.
  - (* double pushes *) do 6 (apply in_or_app; right).
    unfold lP2 in Hm. fold w occ pawns in Hm. fold m1 in Hm. apply plainTo_iff in Hm; [|exact H2]. destruct Hm as (Hb & Ef & Epro).
    unfold andn in Hb. rewrite N.ldiff_spec in Hb. apply andb_true_iff in Hb. destruct Hb as [Hfw Hno]. apply negb_true_iff in Hno.
    apply (fwd_testbit w _ 8 _ (land_lt_l _ _ _ H1)) in Hfw. destruct Hfw as (_ & Hmid & Hzm).
    set (mid := sqAdd (mto m) (delta w 8)) in *.
    rewrite N.land_spec in Hmid. apply andb_true_iff in Hmid. destruct Hmid as [Hmid Hrow]. fold row in Hrow.
    unfold m1, andn in Hmid. rewrite N.ldiff_spec in Hmid. apply andb_true_iff in Hmid. destruct Hmid as [Hmf Hmo]. apply negb_true_iff in Hmo.
    apply (fwd_testbit w pawns 8 _ Hp) in Hmf. destruct Hmf as (Hm64 & Hpb & Hz2).
    assert (E : sqAdd mid (delta w 8) = mfrom m).
    { rewrite Ef. unfold mid, sqAdd in *. rewrite delta_16. f_equal. lia. }
    rewrite E in Hpb, Hz2.
    destruct (proj1 (pawns_bit p HWF w (mfrom m)) Hpb) as [_ Epc].
    assert (Ezf : zf (mto m) = zf (mfrom m)).
    { symmetry. apply (zf_shift _ _ (if w then -2 else 2)%Z). rewrite Hz2, Hzm. unfold delta. change (Z.of_N 8) with 8%Z. destruct w; lia. }
    assert (Hmask : forall x, x < 2 ^ 64 -> N.testbit x (mfrom m) = true ->
              N.testbit (andn (fwd w (N.land (andn (fwd w x 8) occ) row) 8) occ) (mto m) = true).
    { intros x Hx Hxf. unfold andn at 1. rewrite N.ldiff_spec, Hno, andb_true_r.
      apply (fwd_testbit w _ 8 _ (land_lt_l _ _ _ (ldiff_lt _ _ _ (fwd_lt w x 8 Hx)))). split; [exact Ht|]. fold mid. split; [|exact Hzm].
      rewrite N.land_spec, Hrow, andb_true_r. unfold andn. rewrite N.ldiff_spec, Hmo, andb_true_r.
      apply (fwd_testbit w x 8 _ Hx). split; [exact Hm64|]. rewrite E. auto. }
    destruct (N.testbit pawnAll (mfrom m)) eqn:Epa.
    + do 3 (apply in_or_app; right). apply in_or_app. left.
      apply plainTo_iff; [apply ldiff_lt, fwd_lt, land_lt_l, ldiff_lt, fwd_lt, land_lt_l; exact Hp|].
      split; [|auto]. apply (Hmask (N.land pawns pawnAll) (land_lt_l _ _ _ Hp)). rewrite N.land_spec, Hpb, Epa. reflexivity.
    + do 5 (apply in_or_app; right).
      apply plainTo_iff; [apply land_lt_l, ldiff_lt, fwd_lt, land_lt_l, ldiff_lt, fwd_lt, ldiff_lt; exact Hp|].
      split; [|auto]. rewrite N.land_spec. apply andb_true_iff. split.
      * apply (Hmask (andn pawns pawnAll) (ldiff_lt _ _ _ Hp)). unfold andn. rewrite N.ldiff_spec, Hpb, Epa. reflexivity.
      * destruct (reason p HWF m Hleg Hcls Epro) as [He|[HD|Hd]]; try (unfold isEp, isCK, isCQ; fold w; rewrite Epc, is_piece_eqb).
        -- rewrite Ezf, Z.eqb_refl. cbn [negb]. rewrite andb_false_r. reflexivity.
        -- unfold w. destruct (whiteMove p); reflexivity.
        -- unfold w. destruct (whiteMove p); reflexivity.
        -- exfalso. fold w in He. unfold occ, occupiedBB in Hno. rewrite N.lor_spec in Hno. apply orb_false_iff in Hno. destruct Hno as [N1 N2].
           unfold colorBB in He. destruct (negb w); congruence.
        -- assert (I1 : In WPAWN [1; 2; 3; 4; 5; 6]) by (cbn; tauto).
           assert (Epc' : getPiece p (mfrom m) = myPiece w WPAWN) by (rewrite Epc; unfold w; destruct (whiteMove p); reflexivity).
           destruct (direct_cases WPAWN I1 Epc' HD) as [[E0 _]|[[_ A]|[[[E0|E0] _]|[[E0|E0] _]]]]; try discriminate E0. exact A.
        -- exfalso. fold w in Hd. fold disc in Hd. unfold pawnAll in Epa. rewrite N.lor_spec, Hd in Epa. discriminate Epa.
  - (* captures towards the a-file *) do 6 (apply in_or_app; right). apply in_or_app. left.
    unfold lP3 in Hm. fold w occ pawns enemy in Hm. apply pawnTo_iff in Hm; [|exact H3]. destruct Hm as (Hb & Ef & Hpo).
    apply pawnToF_iff; [exact H3|]. split; [exact Hb|]. split; [exact Ef | apply (promoF _ _ Hpo Hunder eq_refl)].
  - (* captures towards the h-file *) do 7 (apply in_or_app; right). apply in_or_app. left.
    unfold lP4 in Hm. fold w occ pawns enemy in Hm. apply pawnTo_iff in Hm; [|exact H4]. destruct Hm as (Hb & Ef & Hpo).
    apply pawnToF_iff; [exact H4|]. split; [exact Hb|]. split; [exact Ef | apply (promoF _ _ Hpo Hunder eq_refl)].
Qed.
End CC3.

(** C01_captures_checks_complete *)
Theorem captures_checks_complete : forall zk p m, WF p -> legal_spec (abs p) m -> captureCheckClass (abs p) m = true ->
  In m (snd (removeIllegal zk p (pseudoLegalCapturesAndChecks p))).
Proof.
  intros zk p m H Hl Hc. rewrite removeIllegal_twin. set (p' := twin p).
  assert (W' : WF p') by exact H. pose proof (twin_consistent p H) as C'. fold p' in C'.
  rewrite <- (cc_twin p). fold p'.
  destruct (removeIllegal_sublist zkDummy p' (pseudoLegalCapturesAndChecks p') zkDummy_empty W' C' (capchecks_sub p' W')) as [Hiff _].
  apply Hiff. split; [|exact Hl]. apply (capchecks_generated p' W' m); [exact Hl | exact Hc].
Qed.

(** non-vacuity: in the position of GivesCheckProofs the quiet rook move Rh1-h8 (a check) is generated and kept,
    the quiet knight move Ne2-c3 (no check) is not generated *)
Example capchecks_example :
  captureCheckClass (abs gcPosition) (mkMove 7 63 EMPTY) = true /\
  In (mkMove 7 63 EMPTY) (snd (removeIllegal zkDummy gcPosition (pseudoLegalCapturesAndChecks gcPosition))) /\
  captureCheckClass (abs gcPosition) (mkMove 12 18 EMPTY) = false /\
  ~ In (mkMove 12 18 EMPTY) (pseudoLegalCapturesAndChecks gcPosition).
Proof. vm_compute. intuition discriminate. Qed.
