(** C02: decidable form of the invariant, concrete examples (non-vacuity) and the refuted
    statements, on the tables regenerated from the engine. *)
From Coq Require Import ZArith NArith List Bool Lia.
From Texel Require Import Chess.Types Chess.Position Chess.PositionSpec Chess.PositionFacts
  Chess.PositionProofs Chess.PositionProofs2 Chess.PositionProofs3 Chess.PositionProofs4
  Chess.PositionTheorems Chess.Fen Chess.PositionInst.
Import ListNotations.
Local Open Scope N_scope.

Lemma consistentb_sound zk p : consistentb zk p = true -> Consistent zk p.
Proof.
  unfold consistentb. intro H.
  apply andb_prop in H as [H Hbits]. apply andb_prop in H as [H Hpcs]. apply andb_prop in H as [Hl1 Hl2].
  apply Nat.eqb_eq in Hl1. apply Nat.eqb_eq in Hl2.
  unfold consistencyBits in Hbits. cbv zeta in Hbits.
  match type of Hbits with context [forallb ?f [1;2;3;4;5;6;7;8;9;10;11;12]] =>
    set (b1 := forallb f [1;2;3;4;5;6;7;8;9;10;11;12]) in Hbits end.
  cbn [firstn forallb] in Hbits.
  repeat (apply andb_prop in Hbits; let X := fresh "B" in destruct Hbits as [X Hbits]).
  constructor; auto.
  - apply Forall_forall. intros x Hx. rewrite forallb_forall in Hpcs. apply N.ltb_lt. auto.
  - intros pc Hpc. unfold b1 in B. rewrite forallb_forall in B. apply N.eqb_eq. apply B.
    assert (E : pc = 1 \/ pc = 2 \/ pc = 3 \/ pc = 4 \/ pc = 5 \/ pc = 6 \/ pc = 7 \/ pc = 8 \/ pc = 9 \/
                pc = 10 \/ pc = 11 \/ pc = 12) by lia.
    simpl. intuition.
  - apply N.eqb_eq; auto.
  - apply N.eqb_eq; auto.
  - rewrite N.lxor_0_r. apply N.eqb_eq; auto.
  - apply N.eqb_eq; auto.
  - apply Z.eqb_eq; auto.
  - apply Z.eqb_eq; auto.
  - apply Z.eqb_eq; auto.
  - apply Z.eqb_eq; auto.
  - apply Z.eqb_eq; auto.
Qed.

Lemma zk0_emptyKeysZero : emptyKeysZero zk0.
Proof.
  intro sq. unfold psKey. change (nth (N.to_nat EMPTY) (zk_ps zk0) []) with (repeat 0 64).
  generalize (N.to_nat sq). intro n. do 65 (destruct n as [|n]; [reflexivity|]). reflexivity.
Qed.

(** strings *)
Definition ascii (s : list nat) : list N := map N.of_nat s.
(** "rnbqkbnr/pppppppp/8/8/8/8/PPPPPPPP/RNBQKBNR w KQkq - 0 1" *)
Definition startFEN : list N :=
  [114;110;98;113;107;98;110;114;47;112;112;112;112;112;112;112;112;47;56;47;56;47;56;47;56;47;
   80;80;80;80;80;80;80;80;47;82;78;66;81;75;66;78;82;32;119;32;75;81;107;113;32;45;32;48;32;49].
Definition posOf (fen : list N) : position :=
  match readFEN zk0 fen with FenOk p => p | FenErr _ => emptyPosition zk0 end.
Definition startPos : position := posOf startFEN.

Lemma startPos_consistent : Consistent zk0 startPos.
Proof. apply consistentb_sound. vm_compute. reflexivity. Qed.

Definition e2e4 : move := mkMove 12 28 EMPTY.
Definition g1f3 : move := mkMove 6 21 EMPTY.

(** non-vacuity of C02_unmake_make *)
Example unmake_make_example :
  Consistent zk0 startPos /\ moveOk startPos e2e4 = true /\ moveOk startPos g1f3 = true /\
  fst (makeMove zk0 startPos e2e4) <> startPos.
Proof.
  split; [exact startPos_consistent|]. split; [vm_compute; reflexivity|]. split; [vm_compute; reflexivity|].
  intro H. apply (f_equal whiteMove) in H. vm_compute in H. discriminate.
Qed.

(** the dead EMPTY board is NOT restored (finding F10): after 1.e4 and take-back from a
    position produced by the FEN reader, pieceTypeBB_[EMPTY] has bit e4 set *)
Lemma unmake_make_emptyBB_refuted :
  exists p m, Consistent zk0 p /\ moveOk p m = true /\
    unMakeMove zk0 (fst (makeMove zk0 p m)) m (snd (makeMove zk0 p m)) <> p.
Proof.
  exists startPos, e2e4. split; [exact startPos_consistent|]. split; [vm_compute; reflexivity|].
  intro H. apply (f_equal (fun q => ptBB q EMPTY)) in H. vm_compute in H. discriminate.
Qed.

(** six black queens (finding F1): "qqqqqq1k/8/8/8/8/8/8/7K w - - 0 1" *)
Definition sixQueensFEN : list N :=
  [113;113;113;113;113;113;49;107;47;56;47;56;47;56;47;56;47;56;47;56;47;55;75;32;119;32;45;32;45;32;48;32;49].
Definition sixQueens : position := posOf sixQueensFEN.

Lemma matid_overflow_refuted :
  exists p, Consistent zk0 p /\ readFEN zk0 sixQueensFEN = FenOk p /\ fitsInt (matId p) = false /\
            matId p = 2321154048%Z /\ wrapInt (matId p) = (-1973813248)%Z.
Proof.
  exists sixQueens. split; [apply consistentb_sound; vm_compute; reflexivity|].
  split; [vm_compute; reflexivity|]. split; [vm_compute; reflexivity|]. split; vm_compute; reflexivity.
Qed.

(** serialisation keeps 8 bits of the half-move clock and 16 of the move number (finding F6) *)
(** "4k3/8/8/8/8/8/8/4K3 w - - 300 1" and "... 0 70000" *)
Definition kk300FEN : list N :=
  [52;107;51;47;56;47;56;47;56;47;56;47;56;47;56;47;52;75;51;32;119;32;45;32;45;32;51;48;48;32;49].
Definition kk70000FEN : list N :=
  [52;107;51;47;56;47;56;47;56;47;56;47;56;47;56;47;52;75;51;32;119;32;45;32;45;32;48;32;55;48;48;48;48].

Lemma serialize_roundtrip_refuted :
  (exists p, readFEN zk0 kk300FEN = FenOk p /\ Consistent zk0 p /\ halfMoveClock p = 300%Z /\
             halfMoveClock (deSerialize zk0 (serialize p)) = 44%Z) /\
  (exists p, readFEN zk0 kk70000FEN = FenOk p /\ Consistent zk0 p /\ fullMoveCounter p = 70000%Z /\
             fullMoveCounter (deSerialize zk0 (serialize p)) = 4464%Z).
Proof.
  split.
  - exists (posOf kk300FEN). split; [vm_compute; reflexivity|]. split; [apply consistentb_sound; vm_compute; reflexivity|].
    split; vm_compute; reflexivity.
  - exists (posOf kk70000FEN). split; [vm_compute; reflexivity|]. split; [apply consistentb_sound; vm_compute; reflexivity|].
    split; vm_compute; reflexivity.
Qed.

(** round trips on concrete positions (examples, not the general theorems) *)
Example serialize_roundtrip_example : normEmpty (deSerialize zk0 (serialize startPos)) = normEmpty startPos.
Proof. vm_compute. reflexivity. Qed.
Example fen_roundtrip_example : toFEN startPos = startFEN /\ readFEN zk0 (toFEN startPos) = FenOk startPos.
Proof. split; vm_compute; reflexivity. Qed.

(* ------------------------------------------------------------------ *)
(** * the material identifier fits [int] while the black weight stays below 2^15 *)
Definition wgtW (pc : piece) : Z := nth (N.to_nat pc) [0; 0; 5903; 9; 767; 91; 1; 0; 0; 0; 0; 0; 0]%Z 0%Z.
Definition wgtB (pc : piece) : Z := nth (N.to_nat pc) [0; 0; 0; 0; 0; 0; 0; 0; 5903; 9; 767; 91; 1]%Z 0%Z.
Definition whiteWeight (sqs : list piece) : Z := sumZ (map wgtW sqs).
Definition blackWeight (sqs : list piece) : Z := sumZ (map wgtB sqs).

Lemma matIdOf_split sqs :
  Forall (fun pc => pc < 13) sqs -> matIdOf sqs = (whiteWeight sqs + 65536 * blackWeight sqs)%Z.
Proof.
  unfold matIdOf, whiteWeight, blackWeight. induction 1 as [|pc t Hpc _ IH]; [reflexivity|].
  cbn [map sumZ fold_right]. fold (sumZ (map materialId t)) (sumZ (map wgtW t)) (sumZ (map wgtB t)). rewrite IH. assert (E : materialId pc = (wgtW pc + 65536 * wgtB pc)%Z).
  { revert pc Hpc. apply piece_cases; reflexivity. }
  rewrite E. lia.
Qed.

Lemma weights_nonneg sqs : (0 <= whiteWeight sqs /\ 0 <= blackWeight sqs)%Z.
Proof.
  unfold whiteWeight, blackWeight. induction sqs as [|pc t IH]; [simpl; lia|].
  cbn [map sumZ fold_right]. fold (sumZ (map wgtW t)) (sumZ (map wgtB t)).
  assert (0 <= wgtW pc /\ 0 <= wgtB pc)%Z.
  { unfold wgtW, wgtB. generalize (N.to_nat pc). intro n.
    do 13 (destruct n as [|n]; [simpl; lia|]). destruct n; simpl; lia. }
  lia.
Qed.

Lemma matid_range zk p :
  Consistent zk p -> (whiteWeight (squares p) < 65536)%Z -> (blackWeight (squares p) < 32768)%Z ->
  fitsInt (matId p) = true /\ matId p = (whiteWeight (squares p) + 65536 * blackWeight (squares p))%Z.
Proof.
  intros C Hw Hb. destruct C. rewrite c_matId, matIdOf_split by auto.
  destruct (weights_nonneg (squares p)). split; [|reflexivity].
  unfold fitsInt, INT_MIN, INT_MAX. apply andb_true_intro. split; apply Z.leb_le; lia.
Qed.

(** and it does not fit as soon as the black weight reaches 2^15 (six queens: 35418) *)
Lemma matid_overflow_iff zk p :
  Consistent zk p -> (whiteWeight (squares p) < 65536)%Z ->
  (fitsInt (matId p) = true <-> (blackWeight (squares p) < 32768)%Z).
Proof.
  intros C Hw. split.
  - intro Hf. destruct C. rewrite c_matId, matIdOf_split in Hf by auto.
    destruct (weights_nonneg (squares p)).
    unfold fitsInt, INT_MIN, INT_MAX in Hf. apply andb_prop in Hf as [_ Hf]. apply Z.leb_le in Hf. lia.
  - intro Hb. apply (matid_range zk p C Hw Hb).
Qed.

Example matid_range_example :
  (whiteWeight (squares startPos) < 65536)%Z /\ (blackWeight (squares startPos) < 32768)%Z /\
  blackWeight (squares sixQueens) = 35418%Z.
Proof. vm_compute. repeat split; reflexivity. Qed.

(* ------------------------------------------------------------------ *)
(** * array indices *)
Lemma epIndex_range ep : (-1 <= ep)%Z -> epIndex ep < 9.
Proof.
  intro H. unfold epIndex. destruct (Z.eqb_spec ep (-1)); [reflexivity|].
  change 7%Z with (Z.ones 3). rewrite Z.land_ones by lia.
  assert (0 <= ep mod 2 ^ 3 < 8)%Z by (apply Z.mod_pos_bound; lia). lia.
Qed.

Lemma index_ranges zk p s :
  Consistent zk p -> getPiece p s < 13 /\ (epInb (epSquare p) = true -> epIndex (epSquare p) < 9) /\
  ((0 <= halfMoveClock p)%Z -> moveCntInb (Z.min (halfMoveClock p) 100) = true) /\
  castleSqMask s < 16 /\ N.land (N.land (castleMask p) (castleSqMask (mfrom (mkMove s s 0)))) (castleSqMask s) < 16.
Proof.
  intro C. split; [apply getPiece_lt; destruct C; auto|]. split.
  - unfold epInb. intro H. apply andb_prop in H as [H _]. apply Z.leb_le in H. apply epIndex_range; auto.
  - split.
    + intro H. unfold moveCntInb. apply andb_true_intro. split; apply Z.leb_le; lia.
    + assert (Hc : castleSqMask s < 16).
      { unfold castleSqMask. repeat match goal with |- context [if ?b then _ else _] => destruct b end; reflexivity. }
      split; auto. cbn [mfrom].
      assert (Hl : forall a b, b < 16 -> N.land a b < 16).
      { intros a b Hb. destruct (N.eq_dec (N.land a b) 0) as [->|Hn]; [reflexivity|].
        apply N.log2_lt_pow2 with (b := 4); [lia|].
        destruct (N.eq_dec b 0) as [->|Hb0]; [rewrite N.land_0_r in Hn; contradiction|].
        eapply N.le_lt_trans; [apply N.log2_land|]. apply N.min_lt_iff. right.
        apply N.log2_lt_pow2; [lia|exact Hb]. }
      apply Hl; auto.
Qed.

(** with the accumulator made unsigned (hooks/fix-matid-unsigned.patch) the value the engine
    holds is the exact identifier modulo 2^32 read as [int]: incremental = from scratch *)
Lemma matid_wrap_consistent zk p : Consistent zk p -> wrapInt (matId p) = wrapInt (matIdOf (squares p)).
Proof. intro C. destruct C. rewrite c_matId. reflexivity. Qed.
