(** Executable model of lib/texellib/moveGen.{hpp,cpp}, written line for line like the C++.
    Move lists are Coq lists in the order in which the C++ appends to its MoveList.
    [while (mask != 0) { sq = extractSquare(mask); ... }] loops are fuelled folds over the set
    bits; [nextPiece] (an unbounded walk in the C++) is fuelled and returns [pieceErr] when it
    would leave the board or run out of fuel.  No proofs in this file. *)
From Coq Require Import ZArith NArith List Bool.
From Texel Require Import Chess.Types Chess.Position Chess.BitBoard gen.BitBoardTables.
Import ListNotations.
Local Open Scope N_scope.

(** * Helpers standing for C++ idioms *)
Definition sqAdd (sq : square) (d : Z) : square := Z.to_N (Z.of_N sq + d).     (* Square + int *)
Definition nz (x : N) : bool := negb (x =? 0).                                  (* x != 0 *)
Definition hasBit (bb : N) (sq : square) : bool := nz (N.land bb (bit sq)).     (* (bb & (1ULL<<sq)) != 0 *)

(** ColorTraits<wtm>::X for a white piece code X *)
Definition myPiece (wtm : bool) (wp : piece) : piece := if wtm then wp else wp + 6.
Definition makeWhite (pc : piece) : piece := if pc <? BKING then pc else pc - 6.   (* Piece::makeWhite *)

Definition bbFuel : nat := 64.
Fixpoint bbLoop {A : Type} (fuel : nat) (mask : N) (f : A -> square -> A) (acc : A) : A :=
  match fuel with
  | O => acc
  | S k => if mask =? 0 then acc else bbLoop k (clearLowest mask) f (f acc (firstSquare mask))
  end.
(** while (mask != 0) { Square sq = BitBoard::extractSquare(mask); acc = f(acc, sq); } *)
Definition forSquares {A : Type} (mask : N) (f : A -> square -> A) (acc : A) : A := bbLoop bbFuel mask f acc.

Definition moveList := list move.
Definition addMove (l : moveList) (from to : square) (promo : piece) : moveList := l ++ [mkMove from to promo].

Definition F1 : square := 5.  Definition G1 : square := 6.
Definition B1 : square := 1.  Definition C1 : square := 2.  Definition D1 : square := 3.
Definition F8 : square := 61. Definition G8 : square := 62.
Definition B8 : square := 57. Definition C8 : square := 58. Definition D8 : square := 59.

(** Position::getKingSq through BitBoard::firstSquare (table based firstBit) *)
Definition kingSq (pos : position) (white : bool) : square :=
  firstSquare (ptBB pos (if white then WKING else BKING)).

(** * moveGen.hpp *)
Definition addMovesByMask (l : moveList) (sq0 : square) (mask : N) : moveList :=
  forSquares mask (fun l sq => addMove l sq0 sq EMPTY) l.

Definition addPawnMovesByMask (wtm : bool) (l : moveList) (mask : N) (delta : Z) (allPromotions : bool) : moveList :=
  if mask =? 0 then l else
  let promMask := N.land mask maskRow1Row8 in
  let mask := andn mask promMask in
  let l := forSquares promMask (fun l sq =>
             let sq0 := sqAdd sq delta in
             let l := addMove l sq0 sq (myPiece wtm WQUEEN) in
             let l := addMove l sq0 sq (myPiece wtm WKNIGHT) in
             if allPromotions then
               let l := addMove l sq0 sq (myPiece wtm WROOK) in
               addMove l sq0 sq (myPiece wtm WBISHOP)
             else l) l in
  forSquares mask (fun l sq => addMove l (sqAdd sq delta) sq EMPTY) l.

Definition addPawnDoubleMovesByMask (l : moveList) (mask : N) (delta : Z) : moveList :=
  forSquares mask (fun l sq => addMove l (sqAdd sq delta) sq EMPTY) l.

(** template <bool wtm> MoveGen::sqAttacked(pos, sq, occupied) *)
Definition sqAttackedT (wtm : bool) (pos : position) (sq : square) (occupied : N) : bool :=
  if nz (N.land (knightAttacks sq) (ptBB pos (myPiece (negb wtm) WKNIGHT))) then true else
  if nz (N.land (kingAttacks sq) (ptBB pos (myPiece (negb wtm) WKING))) then true else
  if (if wtm then nz (N.land (wPawnAttacks sq) (ptBB pos (myPiece (negb wtm) WPAWN)))
      else nz (N.land (bPawnAttacks sq) (ptBB pos (myPiece (negb wtm) WPAWN)))) then true else
  let bbQueen := ptBB pos (myPiece (negb wtm) WQUEEN) in
  if nz (N.land (bishopAttacks sq occupied) (N.lor (ptBB pos (myPiece (negb wtm) WBISHOP)) bbQueen)) then true else
  if nz (N.land (rookAttacks sq occupied) (N.lor (ptBB pos (myPiece (negb wtm) WROOK)) bbQueen)) then true else
  false.

Definition sqAttackedOcc (pos : position) (sq : square) (occupied : N) : bool :=
  sqAttackedT (whiteMove pos) pos sq occupied.
Definition sqAttacked (pos : position) (sq : square) : bool := sqAttackedOcc pos sq (occupiedBB pos).

Definition inCheck (pos : position) : bool := sqAttacked pos (kingSq pos (whiteMove pos)).

Definition pieceErr : piece := 255.

(** MoveGen::nextPiece *)
Fixpoint nextPieceLoop (fuel : nat) (pos : position) (sq : Z) (delta : Z) : piece :=
  match fuel with
  | O => pieceErr
  | S k =>
      let sq := (sq + delta)%Z in
      if ((sq <? 0) || (63 <? sq))%Z then pieceErr else
      let p := getPiece pos (Z.to_N sq) in
      if negb (p =? EMPTY) then p else nextPieceLoop k pos sq delta
  end.
Definition nextPiece (pos : position) (sq : square) (delta : Z) : piece := nextPieceLoop 8 pos (Z.of_N sq) delta.

(** MoveGen::nextPieceSafe *)
Fixpoint nextPieceSafeLoop (fuel : nat) (pos : position) (x y dx dy : Z) : piece :=
  match fuel with
  | O => pieceErr
  | S k =>
      let x := (x + dx)%Z in
      let y := (y + dy)%Z in
      if ((x <? 0) || (x >? 7) || (y <? 0) || (y >? 7))%Z then EMPTY else
      let p := getPiece pos (Z.to_N (y * 8 + x)) in
      if negb (p =? EMPTY) then p else nextPieceSafeLoop k pos x y dx dy
  end.
Definition deltaToDxDy (delta : Z) : Z * Z :=
  match delta with
  | 1 => (1, 0) | 9 => (1, 1) | 8 => (0, 1) | 7 => (-1, 1)
  | -1 => (-1, 0) | -9 => (-1, -1) | -8 => (0, -1) | -7 => (1, -1)
  | _ => (0, 0)
  end%Z.
Definition nextPieceSafe (pos : position) (sq : square) (delta : Z) : piece :=
  let '(dx, dy) := deltaToDxDy delta in
  if ((dx =? 0) && (dy =? 0))%Z then pieceErr      (* the C++ would loop forever; never called so *)
  else nextPieceSafeLoop 8 pos (zX sq) (zY sq) dx dy.

(** * moveGen.cpp: the generators *)
Definition castleMoves (wtm : bool) (pos : position) (occupied : N) (sq : square) (l : moveList) : moveList :=
  let k0 := if wtm then E1 else E8 in
  if sq =? k0 then
    let OO_SQ := if wtm then N.lor (bit F1) (bit G1) else N.lor (bit F8) (bit G8) in
    let OOO_SQ := if wtm then N.lor (N.lor (bit B1) (bit C1)) (bit D1) else N.lor (N.lor (bit B8) (bit C8)) (bit D8) in
    let hCastle := if wtm then H1_CASTLE else H8_CASTLE in
    let aCastle := if wtm then A1_CASTLE else A8_CASTLE in
    let l :=
      if nz (N.land (castleMask pos) (bit hCastle)) then
      if N.land OO_SQ occupied =? 0 then
      if getPiece pos (sqAdd k0 3) =? myPiece wtm WROOK then
      if negb (sqAttacked pos k0) then
      if negb (sqAttacked pos (sqAdd k0 1)) then addMove l k0 (sqAdd k0 2) EMPTY
      else l else l else l else l else l in
    let l :=
      if nz (N.land (castleMask pos) (bit aCastle)) then
      if N.land OOO_SQ occupied =? 0 then
      if getPiece pos (sqAdd k0 (-4)) =? myPiece wtm WROOK then
      if negb (sqAttacked pos k0) then
      if negb (sqAttacked pos (sqAdd k0 (-1))) then addMove l k0 (sqAdd k0 (-2)) EMPTY
      else l else l else l else l else l in
    l
  else l.

Definition epMaskOf (pos : position) : N :=
  if (0 <=? epSquare pos)%Z then bit (Z.to_N (epSquare pos)) else 0.     (* epSquare.isValid() ? 1ULL << epSquare : 0 *)

(** the piece blocks of pseudoLegalMoves (named so that theorems can speak about them) *)
Definition queenBlock (wtm : bool) (pos : position) (l : moveList) : moveList :=
  let occupied := occupiedBB pos in
  forSquares (ptBB pos (myPiece wtm WQUEEN)) (fun l sq =>
    let m := andn (N.lor (rookAttacks sq occupied) (bishopAttacks sq occupied)) (colorBB pos wtm) in
    addMovesByMask l sq m) l.
Definition rookBlock (wtm : bool) (pos : position) (l : moveList) : moveList :=
  let occupied := occupiedBB pos in
  forSquares (ptBB pos (myPiece wtm WROOK)) (fun l sq =>
    let m := andn (rookAttacks sq occupied) (colorBB pos wtm) in
    addMovesByMask l sq m) l.
Definition bishopBlock (wtm : bool) (pos : position) (l : moveList) : moveList :=
  let occupied := occupiedBB pos in
  forSquares (ptBB pos (myPiece wtm WBISHOP)) (fun l sq =>
    let m := andn (bishopAttacks sq occupied) (colorBB pos wtm) in
    addMovesByMask l sq m) l.
(** king moves without castling *)
Definition kingBlock (wtm : bool) (pos : position) (l : moveList) : moveList :=
  let sq := kingSq pos wtm in
  let m := andn (kingAttacks sq) (colorBB pos wtm) in
  addMovesByMask l sq m.
Definition knightBlock (wtm : bool) (pos : position) (l : moveList) : moveList :=
  forSquares (ptBB pos (myPiece wtm WKNIGHT)) (fun l sq =>
    let m := andn (knightAttacks sq) (colorBB pos wtm) in
    addMovesByMask l sq m) l.

(** the pawn part of pseudoLegalMoves *)
Definition pawnBlock (wtm : bool) (pos : position) (l : moveList) : moveList :=
  let occupied := occupiedBB pos in
  let pawns := ptBB pos (myPiece wtm WPAWN) in
  let epMask := epMaskOf pos in
  if wtm then
    let m := andn (shl pawns 8) occupied in
    let l := addPawnMovesByMask wtm l m (-8) true in
    let m := andn (shl (N.land m maskRow3) 8) occupied in
    let l := addPawnDoubleMovesByMask l m (-16) in
    let m := N.land (N.land (shl pawns 7) maskAToGFiles) (N.lor (colorBB pos (negb wtm)) epMask) in
    let l := addPawnMovesByMask wtm l m (-7) true in
    let m := N.land (N.land (shl pawns 9) maskBToHFiles) (N.lor (colorBB pos (negb wtm)) epMask) in
    addPawnMovesByMask wtm l m (-9) true
  else
    let m := andn (shr pawns 8) occupied in
    let l := addPawnMovesByMask wtm l m 8 true in
    let m := andn (shr (N.land m maskRow6) 8) occupied in
    let l := addPawnDoubleMovesByMask l m 16 in
    let m := N.land (N.land (shr pawns 9) maskAToGFiles) (N.lor (colorBB pos (negb wtm)) epMask) in
    let l := addPawnMovesByMask wtm l m 9 true in
    let m := N.land (N.land (shr pawns 7) maskBToHFiles) (N.lor (colorBB pos (negb wtm)) epMask) in
    addPawnMovesByMask wtm l m 7 true.

Definition pseudoLegalMovesT (wtm : bool) (pos : position) : moveList :=
  let l : moveList := [] in
  let occupied := occupiedBB pos in
  (* Queen moves *)
  let l := queenBlock wtm pos l in
  (* Rook moves *)
  let l := rookBlock wtm pos l in
  (* Bishop moves *)
  let l := bishopBlock wtm pos l in
  (* King moves *)
  let l := kingBlock wtm pos l in
  let l := castleMoves wtm pos occupied (kingSq pos wtm) l in
  (* Knight moves *)
  let l := knightBlock wtm pos l in
  (* Pawn moves *)
  pawnBlock wtm pos l.

Definition pseudoLegalMoves (pos : position) : moveList := pseudoLegalMovesT (whiteMove pos) pos.

Definition checkEvasionsT (wtm : bool) (pos : position) : moveList :=
  let l : moveList := [] in
  let occupied := occupiedBB pos in
  let kSq := kingSq pos wtm in
  let kingThreats := N.land (ptBB pos (myPiece (negb wtm) WKNIGHT)) (knightAttacks kSq) in
  let rookPieces := N.lor (ptBB pos (myPiece (negb wtm) WROOK)) (ptBB pos (myPiece (negb wtm) WQUEEN)) in
  let kingThreats := if nz rookPieces then N.lor kingThreats (N.land rookPieces (rookAttacks kSq occupied)) else kingThreats in
  let bishPieces := N.lor (ptBB pos (myPiece (negb wtm) WBISHOP)) (ptBB pos (myPiece (negb wtm) WQUEEN)) in
  let kingThreats := if nz bishPieces then N.lor kingThreats (N.land bishPieces (bishopAttacks kSq occupied)) else kingThreats in
  let myPawnAttacks := if wtm then wPawnAttacks kSq else bPawnAttacks kSq in
  let kingThreats := N.lor kingThreats (N.land (ptBB pos (myPiece (negb wtm) WPAWN)) myPawnAttacks) in
  let validTargets :=
    if nz kingThreats && (N.land kingThreats (N.pred kingThreats) =? 0) then    (* exactly one attacking piece *)
      let threatSq := firstSquare kingThreats in
      N.lor kingThreats (squaresBetween kSq threatSq)
    else 0 in
  (* Queen moves *)
  let l := forSquares (ptBB pos (myPiece wtm WQUEEN)) (fun l sq =>
             let m := N.land (andn (N.lor (rookAttacks sq occupied) (bishopAttacks sq occupied)) (colorBB pos wtm)) validTargets in
             addMovesByMask l sq m) l in
  (* Rook moves *)
  let l := forSquares (ptBB pos (myPiece wtm WROOK)) (fun l sq =>
             let m := N.land (andn (rookAttacks sq occupied) (colorBB pos wtm)) validTargets in
             addMovesByMask l sq m) l in
  (* Bishop moves *)
  let l := forSquares (ptBB pos (myPiece wtm WBISHOP)) (fun l sq =>
             let m := N.land (andn (bishopAttacks sq occupied) (colorBB pos wtm)) validTargets in
             addMovesByMask l sq m) l in
  (* King moves *)
  let sq := kingSq pos wtm in
  let m := andn (kingAttacks sq) (colorBB pos wtm) in
  let l := addMovesByMask l sq m in
  (* Knight moves *)
  let l := forSquares (ptBB pos (myPiece wtm WKNIGHT)) (fun l sq =>
             let m := N.land (andn (knightAttacks sq) (colorBB pos wtm)) validTargets in
             addMovesByMask l sq m) l in
  (* Pawn moves *)
  let pawns := ptBB pos (myPiece wtm WPAWN) in
  let epMask := epMaskOf pos in
  if wtm then
    let m := andn (shl pawns 8) occupied in
    let l := addPawnMovesByMask wtm l (N.land m validTargets) (-8) true in
    let m := andn (shl (N.land m maskRow3) 8) occupied in
    let l := addPawnDoubleMovesByMask l (N.land m validTargets) (-16) in
    let m := N.land (N.land (shl pawns 7) maskAToGFiles) (N.lor (N.land (colorBB pos (negb wtm)) validTargets) epMask) in
    let l := addPawnMovesByMask wtm l m (-7) true in
    let m := N.land (N.land (shl pawns 9) maskBToHFiles) (N.lor (N.land (colorBB pos (negb wtm)) validTargets) epMask) in
    addPawnMovesByMask wtm l m (-9) true
  else
    let m := andn (shr pawns 8) occupied in
    let l := addPawnMovesByMask wtm l (N.land m validTargets) 8 true in
    let m := andn (shr (N.land m maskRow6) 8) occupied in
    let l := addPawnDoubleMovesByMask l (N.land m validTargets) 16 in
    let m := N.land (N.land (shr pawns 9) maskAToGFiles) (N.lor (N.land (colorBB pos (negb wtm)) validTargets) epMask) in
    let l := addPawnMovesByMask wtm l m 9 true in
    let m := N.land (N.land (shr pawns 7) maskBToHFiles) (N.lor (N.land (colorBB pos (negb wtm)) validTargets) epMask) in
    addPawnMovesByMask wtm l m 7 true.

Definition checkEvasions (pos : position) : moveList := checkEvasionsT (whiteMove pos) pos.

Definition pseudoLegalCapturesAndChecksT (wtm : bool) (pos : position) : moveList :=
  let l : moveList := [] in
  let occupied := occupiedBB pos in
  let oKingSq := kingSq pos (negb wtm) in
  let discovered := 0 in        (* squares that could generate discovered checks *)
  let kRookAtk := rookAttacks oKingSq occupied in
  let discovered :=
    if nz (N.land (rookAttacks oKingSq (andn occupied kRookAtk))
                  (N.lor (ptBB pos (myPiece wtm WQUEEN)) (ptBB pos (myPiece wtm WROOK))))
    then N.lor discovered kRookAtk else discovered in
  let kBishAtk := bishopAttacks oKingSq occupied in
  let discovered :=
    if nz (N.land (bishopAttacks oKingSq (andn occupied kBishAtk))
                  (N.lor (ptBB pos (myPiece wtm WQUEEN)) (ptBB pos (myPiece wtm WBISHOP))))
    then N.lor discovered kBishAtk else discovered in
  (* Queen moves *)
  let l := forSquares (ptBB pos (myPiece wtm WQUEEN)) (fun l sq =>
             let m := N.lor (rookAttacks sq occupied) (bishopAttacks sq occupied) in
             let m := if N.land discovered (bit sq) =? 0
                      then N.land m (N.lor (N.lor (colorBB pos (negb wtm)) kRookAtk) kBishAtk) else m in
             let m := andn m (colorBB pos wtm) in
             addMovesByMask l sq m) l in
  (* Rook moves *)
  let l := forSquares (ptBB pos (myPiece wtm WROOK)) (fun l sq =>
             let m := rookAttacks sq occupied in
             let m := if N.land discovered (bit sq) =? 0 then N.land m (N.lor (colorBB pos (negb wtm)) kRookAtk) else m in
             let m := andn m (colorBB pos wtm) in
             addMovesByMask l sq m) l in
  (* Bishop moves *)
  let l := forSquares (ptBB pos (myPiece wtm WBISHOP)) (fun l sq =>
             let m := bishopAttacks sq occupied in
             let m := if N.land discovered (bit sq) =? 0 then N.land m (N.lor (colorBB pos (negb wtm)) kBishAtk) else m in
             let m := andn m (colorBB pos wtm) in
             addMovesByMask l sq m) l in
  (* King moves *)
  let sq := kingSq pos wtm in
  let m := kingAttacks sq in
  let m := if N.land discovered (bit sq) =? 0 then N.land m (colorBB pos (negb wtm)) else andn m (colorBB pos wtm) in
  let l := addMovesByMask l sq m in
  let l := castleMoves wtm pos occupied sq l in
  (* Knight moves *)
  let kKnightAtk := knightAttacks oKingSq in
  let l := forSquares (ptBB pos (myPiece wtm WKNIGHT)) (fun l sq =>
             let m := andn (knightAttacks sq) (colorBB pos wtm) in
             let m := if N.land discovered (bit sq) =? 0 then N.land m (N.lor (colorBB pos (negb wtm)) kKnightAtk) else m in
             addMovesByMask l sq m) l in
  (* Pawn moves *)
  let pawns := ptBB pos (myPiece wtm WPAWN) in
  let epMask := epMaskOf pos in
  if wtm then
    (* Captures *)
    let m := N.land (N.land (shl pawns 7) maskAToGFiles) (N.lor (colorBB pos (negb wtm)) epMask) in
    let l := addPawnMovesByMask wtm l m (-7) false in
    let m := N.land (N.land (shl pawns 9) maskBToHFiles) (N.lor (colorBB pos (negb wtm)) epMask) in
    let l := addPawnMovesByMask wtm l m (-9) false in
    (* Discovered checks and promotions *)
    let pawnAll := N.lor discovered maskRow7 in
    let m := andn (shl (N.land pawns pawnAll) 8) occupied in
    let l := addPawnMovesByMask wtm l m (-8) false in
    let m := andn (shl (N.land m maskRow3) 8) occupied in
    let l := addPawnDoubleMovesByMask l m (-16) in
    (* Normal checks *)
    let m := andn (shl (andn pawns pawnAll) 8) occupied in
    let l := addPawnMovesByMask wtm l (N.land m (bPawnAttacks oKingSq)) (-8) false in
    let m := andn (shl (N.land m maskRow3) 8) occupied in
    addPawnDoubleMovesByMask l (N.land m (bPawnAttacks oKingSq)) (-16)
  else
    let m := N.land (N.land (shr pawns 9) maskAToGFiles) (N.lor (colorBB pos (negb wtm)) epMask) in
    let l := addPawnMovesByMask wtm l m 9 false in
    let m := N.land (N.land (shr pawns 7) maskBToHFiles) (N.lor (colorBB pos (negb wtm)) epMask) in
    let l := addPawnMovesByMask wtm l m 7 false in
    let pawnAll := N.lor discovered maskRow2 in
    let m := andn (shr (N.land pawns pawnAll) 8) occupied in
    let l := addPawnMovesByMask wtm l m 8 false in
    let m := andn (shr (N.land m maskRow6) 8) occupied in
    let l := addPawnDoubleMovesByMask l m 16 in
    let m := andn (shr (andn pawns pawnAll) 8) occupied in
    let l := addPawnMovesByMask wtm l (N.land m (wPawnAttacks oKingSq)) 8 false in
    let m := andn (shr (N.land m maskRow6) 8) occupied in
    addPawnDoubleMovesByMask l (N.land m (wPawnAttacks oKingSq)) 16.

Definition pseudoLegalCapturesAndChecks (pos : position) : moveList :=
  pseudoLegalCapturesAndChecksT (whiteMove pos) pos.

Definition pseudoLegalCapturesT (wtm : bool) (pos : position) : moveList :=
  let l : moveList := [] in
  let occupied := occupiedBB pos in
  (* Queen moves *)
  let l := forSquares (ptBB pos (myPiece wtm WQUEEN)) (fun l sq =>
             let m := N.land (N.lor (rookAttacks sq occupied) (bishopAttacks sq occupied)) (colorBB pos (negb wtm)) in
             addMovesByMask l sq m) l in
  (* Rook moves *)
  let l := forSquares (ptBB pos (myPiece wtm WROOK)) (fun l sq =>
             let m := N.land (rookAttacks sq occupied) (colorBB pos (negb wtm)) in
             addMovesByMask l sq m) l in
  (* Bishop moves *)
  let l := forSquares (ptBB pos (myPiece wtm WBISHOP)) (fun l sq =>
             let m := N.land (bishopAttacks sq occupied) (colorBB pos (negb wtm)) in
             addMovesByMask l sq m) l in
  (* Knight moves *)
  let l := forSquares (ptBB pos (myPiece wtm WKNIGHT)) (fun l sq =>
             let m := N.land (knightAttacks sq) (colorBB pos (negb wtm)) in
             addMovesByMask l sq m) l in
  (* King moves *)
  let sq := kingSq pos wtm in
  let m := N.land (kingAttacks sq) (colorBB pos (negb wtm)) in
  let l := addMovesByMask l sq m in
  (* Pawn moves *)
  let pawns := ptBB pos (myPiece wtm WPAWN) in
  let epMask := epMaskOf pos in
  if wtm then
    let m := andn (shl pawns 8) occupied in
    let m := N.land m maskRow8 in
    let l := addPawnMovesByMask wtm l m (-8) false in
    let m := N.land (N.land (shl pawns 7) maskAToGFiles) (N.lor (colorBB pos (negb wtm)) epMask) in
    let l := addPawnMovesByMask wtm l m (-7) false in
    let m := N.land (N.land (shl pawns 9) maskBToHFiles) (N.lor (colorBB pos (negb wtm)) epMask) in
    addPawnMovesByMask wtm l m (-9) false
  else
    let m := andn (shr pawns 8) occupied in
    let m := N.land m maskRow1 in
    let l := addPawnMovesByMask wtm l m 8 false in
    let m := N.land (N.land (shr pawns 9) maskAToGFiles) (N.lor (colorBB pos (negb wtm)) epMask) in
    let l := addPawnMovesByMask wtm l m 9 false in
    let m := N.land (N.land (shr pawns 7) maskBToHFiles) (N.lor (colorBB pos (negb wtm)) epMask) in
    addPawnMovesByMask wtm l m 7 false.

Definition pseudoLegalCaptures (pos : position) : moveList := pseudoLegalCapturesT (whiteMove pos) pos.

(** * givesCheck *)
Local Open Scope Z_scope.
Definition isRookDir (d : Z) : bool := (d =? 8) || (d =? -8) || (d =? 1) || (d =? -1).
Definition isBishopDir (d : Z) : bool := (d =? 9) || (d =? 7) || (d =? -9) || (d =? -7).
Local Open Scope N_scope.

Definition givesCheck (pos : position) (m : move) : bool :=
  let wtm := whiteMove pos in
  let oKingSq := kingSq pos (negb wtm) in
  let oKing := if wtm then BKING else WKING in
  let p := makeWhite (if mpromote m =? EMPTY then getPiece pos (mfrom m) else mpromote m) in
  let d1 := getDirection (mto m) oKingSq in
  let r1 :=
    if isRookDir d1 then
      if (p =? WQUEEN) || (p =? WROOK) then
        if negb (d1 =? 0)%Z then nextPiece pos (mto m) d1 =? oKing else false
      else false
    else if isBishopDir d1 then
      if (p =? WQUEEN) || (p =? WBISHOP) then
        if negb (d1 =? 0)%Z then nextPiece pos (mto m) d1 =? oKing else false
      else if p =? WPAWN then
        if Bool.eqb (0 <? d1)%Z wtm then getPiece pos (sqAdd (mto m) d1) =? oKing else false
      else false
    else
      if negb (d1 =? 0)%Z then p =? WKNIGHT else false in
  if r1 then true else
  let d2 := getDirection (mfrom m) oKingSq in
  let r2 :=
    if negb (d2 =? 0)%Z && negb (d2 =? d1)%Z then
      if nextPiece pos (mfrom m) d2 =? oKing then
        let p2 := nextPieceSafe pos (mfrom m) (- d2)%Z in
        if isRookDir d2 then (p2 =? myPiece wtm WQUEEN) || (p2 =? myPiece wtm WROOK)
        else if isBishopDir d2 then (p2 =? myPiece wtm WQUEEN) || (p2 =? myPiece wtm WBISHOP)
        else false
      else false
    else false in
  if r2 then true else
  let r3 :=
    if negb (mpromote m =? EMPTY) && negb (d1 =? 0)%Z && (d1 =? d2)%Z then
      if isRookDir d1 then
        if (p =? WQUEEN) || (p =? WROOK) then nextPiece pos (mfrom m) d1 =? oKing else false
      else if isBishopDir d1 then
        if (p =? WQUEEN) || (p =? WBISHOP) then nextPiece pos (mfrom m) d1 =? oKing else false
      else false
    else false in
  if r3 then true else
  if p =? WKING then
    if mto m =? mfrom m + 2 then          (* O-O *)
      if nextPieceSafe pos (mfrom m) (-1)%Z =? oKing then true
      else nextPieceSafe pos (sqAdd (mfrom m) 1) (if wtm then 8 else -8)%Z =? oKing
    else if (Z.of_N (mto m) =? Z.of_N (mfrom m) - 2)%Z then      (* O-O-O *)
      if nextPieceSafe pos (mfrom m) 1%Z =? oKing then true
      else nextPieceSafe pos (sqAdd (mfrom m) (-1)) (if wtm then 8 else -8)%Z =? oKing
    else false
  else if p =? WPAWN then
    if getPiece pos (mto m) =? EMPTY then
      let dx := (zX (mto m) - zX (mfrom m))%Z in
      if negb (dx =? 0)%Z then          (* en passant *)
        let epSq := sqAdd (mfrom m) dx in
        let d3 := getDirection epSq oKingSq in
        if isBishopDir d3 then
          if nextPiece pos epSq d3 =? oKing then
            let p2 := nextPieceSafe pos epSq (- d3)%Z in
            (p2 =? myPiece wtm WQUEEN) || (p2 =? myPiece wtm WBISHOP)
          else false
        else if (d3 =? 1)%Z then
          let maxS := N.max epSq (mfrom m) in
          let minS := N.min epSq (mfrom m) in
          if nextPiece pos maxS d3 =? oKing then
            let p2 := nextPieceSafe pos minS (- d3)%Z in
            (p2 =? myPiece wtm WQUEEN) || (p2 =? myPiece wtm WROOK)
          else false
        else if (d3 =? -1)%Z then
          let maxS := N.max epSq (mfrom m) in
          let minS := N.min epSq (mfrom m) in
          if nextPiece pos minS d3 =? oKing then
            let p2 := nextPieceSafe pos maxS (- d3)%Z in
            (p2 =? myPiece wtm WQUEEN) || (p2 =? myPiece wtm WROOK)
          else false
        else false
      else false
    else false
  else false.

(** * removeIllegal, isLegal, canTakeKing (they mutate and restore the position) *)
Section WithKeys.
Variable zk : zkeys.

(** pos.makeMove(m, ui); flip side; legal = !inCheck(pos); flip side; pos.unMakeMove(m, ui) *)
Definition tryMove (pos : position) (m : move) : position * bool :=
  let '(pos, ui) := makeMove zk pos m in
  let pos := setWhiteMove zk pos (negb (whiteMove pos)) in
  let legal := negb (inCheck pos) in
  let pos := setWhiteMove zk pos (negb (whiteMove pos)) in
  let pos := unMakeMove zk pos m ui in
  (pos, legal).

Definition removeIllegal (pos : position) (ml : moveList) : position * moveList :=
  let isInCheck := inCheck pos in
  let occupied := occupiedBB pos in
  let kSq := kingSq pos (whiteMove pos) in
  let kingAtks := N.lor (rookAttacks kSq occupied) (bishopAttacks kSq occupied) in
  let epSq := epSquare pos in
  if isInCheck then
    let kingAtks := N.lor kingAtks (ptBB pos (if whiteMove pos then BKNIGHT else WKNIGHT)) in
    fold_left (fun (st : position * moveList) m =>
                 let '(pos, out) := st in
                 if negb (mfrom m =? kSq) && (N.land kingAtks (bit (mto m)) =? 0) && negb (Z.of_N (mto m) =? epSq)%Z
                 then (pos, out)
                 else let '(pos, legal) := tryMove pos m in
                      (pos, if legal then out ++ [m] else out))
              ml (pos, [])
  else
    fold_left (fun (st : position * moveList) m =>
                 let '(pos, out) := st in
                 if negb (mfrom m =? kSq) && (N.land kingAtks (bit (mfrom m)) =? 0) && negb (Z.of_N (mto m) =? epSq)%Z
                 then (pos, out ++ [m])
                 else let '(pos, legal) := tryMove pos m in
                      (pos, if legal then out ++ [m] else out))
              ml (pos, []).

End WithKeys.

Definition tryMoveB (pos : position) (m : move) : position * bool :=
  let '(pos, ui) := makeMoveB pos m in
  let legal := negb (inCheck pos) in
  let pos := unMakeMoveB pos m ui in
  (pos, legal).

Definition isLegal (pos : position) (m : move) (isInCheck : bool) : position * bool :=
  let kSq := kingSq pos (whiteMove pos) in
  let epSq := epSquare pos in
  if isInCheck then
    let early :=
      if negb (mfrom m =? kSq) && negb (Z.of_N (mto m) =? epSq)%Z then
        let occupied := occupiedBB pos in
        let toMask := bit (mto m) in
        let knight := if whiteMove pos then BKNIGHT else WKNIGHT in
        (N.land (rookAttacks kSq occupied) toMask =? 0)
        && (N.land (bishopAttacks kSq occupied) toMask =? 0)
        && (N.land (N.land (knightAttacks kSq) (ptBB pos knight)) toMask =? 0)
      else false in
    if early then (pos, false) else tryMoveB pos m
  else
    if mfrom m =? kSq then
      let occupied := andn (occupiedBB pos) (bit (mfrom m)) in
      (pos, negb (sqAttackedOcc pos (mto m) occupied))
    else
      let early :=
        if negb (Z.of_N (mto m) =? epSq)%Z then
          let occupied := occupiedBB pos in
          let fromMask := bit (mfrom m) in
          if (N.land (rookAttacks kSq occupied) fromMask =? 0) && (N.land (bishopAttacks kSq occupied) fromMask =? 0)
          then true
          else (getDirection kSq (mfrom m) =? getDirection kSq (mto m))%Z
        else false in
      if early then (pos, true) else tryMoveB pos m.

(** canTakeKing: flips the side to move, tests inCheck, flips back *)
Definition canTakeKing (zk : zkeys) (pos : position) : position * bool :=
  let pos := setWhiteMove zk pos (negb (whiteMove pos)) in
  let ret := inCheck pos in
  let pos := setWhiteMove zk pos (negb (whiteMove pos)) in
  (pos, ret).

(** * Building a position from a board (harness side: Position::setPiece on every square) *)
Definition bbOfPiece (sqs : list piece) (pc : piece) : N :=
  fold_left (fun acc sp => if snd sp =? pc then N.lor acc (bit (fst sp)) else acc)
            (combine allSquares sqs) 0.

Definition positionOfBoard (sqs : list piece) (wtm : bool) (cm : N) (ep : Z) : position :=
  let pbb := map (fun pc => if pc =? 0 then 0 else bbOfPiece sqs pc) (map N.of_nat (seq 0 13)) in
  let wbb := fold_left N.lor (firstn 6 (skipn 1 pbb)) 0 in
  let bbb := fold_left N.lor (skipn 7 pbb) 0 in
  mkPos sqs pbb wbb bbb wtm 0%Z 1%Z cm ep 0 0 0%Z 0%Z 0%Z 0%Z 0%Z.

Definition zkDummy : zkeys := mkZKeys [] 0 [] [] [] 0.
