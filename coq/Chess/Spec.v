(** Specification side of C01: the FIDE rules of chess as an executable, mailbox-style
    definition.  Independent of the engine: a board is a list of 64 piece codes addressed by
    coordinates (file, rank) in 0..7; rays are scanned square by square; there are no
    bitboards, no attack tables and none of the engine's legality shortcuts here.
    The only things shared with the engine are the numbering of pieces and squares
    (Chess/Types.v) and the representation of a move (from, to, promotion piece).

    The en-passant right is a square (as in FEN); a position as the engine sees it is mapped
    to a specification position by [abs]. *)
From Coq Require Import ZArith NArith List Bool.
From Texel Require Import Chess.Types.
Import ListNotations.
Local Open Scope Z_scope.

(** * Pieces *)
Inductive kind := King | Queen | Rook | Bishop | Knight | Pawn.

Definition kind_of (pc : piece) : option kind :=
  match pc with
  | 1%N | 7%N => Some King
  | 2%N | 8%N => Some Queen
  | 3%N | 9%N => Some Rook
  | 4%N | 10%N => Some Bishop
  | 5%N | 11%N => Some Knight
  | 6%N | 12%N => Some Pawn
  | _ => None
  end.

(** [Some true] = white piece, [Some false] = black piece, [None] = empty / not a piece *)
Definition color_of (pc : piece) : option bool :=
  match pc with
  | 1%N | 2%N | 3%N | 4%N | 5%N | 6%N => Some true
  | 7%N | 8%N | 9%N | 10%N | 11%N | 12%N => Some false
  | _ => None
  end.

Definition mk_piece (white : bool) (k : kind) : piece :=
  match k, white with
  | King, true => WKING | Queen, true => WQUEEN | Rook, true => WROOK
  | Bishop, true => WBISHOP | Knight, true => WKNIGHT | Pawn, true => WPAWN
  | King, false => BKING | Queen, false => BQUEEN | Rook, false => BROOK
  | Bishop, false => BBISHOP | Knight, false => BKNIGHT | Pawn, false => BPAWN
  end.

Definition has_color (white : bool) (pc : piece) : bool :=
  match color_of pc with Some c => Bool.eqb c white | None => false end.

Definition is_piece (white : bool) (k : kind) (pc : piece) : bool := N.eqb pc (mk_piece white k).

(** * Boards *)
Definition board := list piece.

Definition on_board (f r : Z) : bool := (0 <=? f) && (f <=? 7) && (0 <=? r) && (r <=? 7).

Definition idx (f r : Z) : nat := Z.to_nat (r * 8 + f).

(** piece on (f,r); EMPTY outside the board *)
Definition at_ (b : board) (f r : Z) : piece :=
  if on_board f r then nth (idx f r) b EMPTY else EMPTY.

Fixpoint upd {A : Type} (n : nat) (x : A) (l : list A) : list A :=
  match l, n with
  | [], _ => []
  | _ :: t, O => x :: t
  | h :: t, S k => h :: upd k x t
  end.

Definition put (b : board) (f r : Z) (pc : piece) : board :=
  if on_board f r then upd (idx f r) pc b else b.

Definition sq_of (f r : Z) : square := Z.to_N (r * 8 + f).
Definition file_of (s : square) : Z := Z.of_N s mod 8.
Definition rank_of (s : square) : Z := Z.of_N s / 8.

(** * Specification positions *)
Record spos := mkSpos {
  sp_board : board;
  sp_white : bool;       (* side to move *)
  sp_castle : N;         (* rights, bit 0 = white queen side (a1), 1 = white king side (h1),
                            2 = black queen side (a8), 3 = black king side (h8) *)
  sp_ep : Z              (* en-passant target square, -1 if none *)
}.

Definition abs (p : position) : spos :=
  mkSpos (squares p) (whiteMove p) (castleMask p) (epSquare p).

Definition has_right (sp : spos) (white kingside : bool) : bool :=
  N.testbit (sp_castle sp)
    (match white, kingside with
     | true, false => 0 | true, true => 1 | false, false => 2 | false, true => 3 end)%N.

(** * Attacks *)
Definition knight_offsets : list (Z * Z) :=
  [(1, 2); (2, 1); (2, -1); (1, -2); (-1, -2); (-2, -1); (-2, 1); (-1, 2)].
Definition king_offsets : list (Z * Z) :=
  [(1, 0); (1, 1); (0, 1); (-1, 1); (-1, 0); (-1, -1); (0, -1); (1, -1)].
Definition rook_dirs : list (Z * Z) := [(1, 0); (-1, 0); (0, 1); (0, -1)].
Definition bishop_dirs : list (Z * Z) := [(1, 1); (-1, -1); (1, -1); (-1, 1)].

(** first piece met when walking from (f,r) (exclusive) in direction (df,dr) *)
Fixpoint ray_first (b : board) (fuel : nat) (f r df dr : Z) : piece :=
  match fuel with
  | O => EMPTY
  | S k =>
      let f' := f + df in
      let r' := r + dr in
      if on_board f' r' then
        let pc := at_ b f' r' in
        if N.eqb pc EMPTY then ray_first b k f' r' df dr else pc
      else EMPTY
  end.

(** is square (f,r) attacked by a piece of colour [white]? *)
Definition attacked_by (b : board) (white : bool) (f r : Z) : bool :=
  existsb (fun d => is_piece white Knight (at_ b (f + fst d) (r + snd d))) knight_offsets
  || existsb (fun d => is_piece white King (at_ b (f + fst d) (r + snd d))) king_offsets
  || (let pr := if white then r - 1 else r + 1 in      (* a white pawn attacks upwards *)
      is_piece white Pawn (at_ b (f - 1) pr) || is_piece white Pawn (at_ b (f + 1) pr))
  || existsb (fun d => let pc := ray_first b 7 f r (fst d) (snd d) in
                       is_piece white Rook pc || is_piece white Queen pc) rook_dirs
  || existsb (fun d => let pc := ray_first b 7 f r (fst d) (snd d) in
                       is_piece white Bishop pc || is_piece white Queen pc) bishop_dirs.

Definition all_coords : list (Z * Z) :=
  flat_map (fun r => map (fun f => (f, r)) [0; 1; 2; 3; 4; 5; 6; 7]) [0; 1; 2; 3; 4; 5; 6; 7].

Definition find_king (b : board) (white : bool) : option (Z * Z) :=
  find (fun c => is_piece white King (at_ b (fst c) (snd c))) all_coords.

(** the king of colour [white] stands on an attacked square *)
Definition in_checkb (b : board) (white : bool) : bool :=
  match find_king b white with
  | Some (f, r) => attacked_by b (negb white) f r
  | None => false
  end.

(** * Pseudo-moves per piece kind *)
Definition mv (f r f' r' : Z) (promo : piece) : move := mkMove (sq_of f r) (sq_of f' r') promo.

Definition step_moves (b : board) (white : bool) (f r : Z) (offs : list (Z * Z)) : list move :=
  flat_map (fun d =>
              let f' := f + fst d in
              let r' := r + snd d in
              if on_board f' r' && negb (has_color white (at_ b f' r')) then [mv f r f' r' EMPTY] else [])
           offs.

Fixpoint ray_moves (b : board) (white : bool) (fuel : nat) (f0 r0 f r df dr : Z) : list move :=
  match fuel with
  | O => []
  | S k =>
      let f' := f + df in
      let r' := r + dr in
      if on_board f' r' then
        let pc := at_ b f' r' in
        if N.eqb pc EMPTY then mv f0 r0 f' r' EMPTY :: ray_moves b white k f0 r0 f' r' df dr
        else if has_color (negb white) pc then [mv f0 r0 f' r' EMPTY] else []
      else []
  end.

Definition slider_moves (b : board) (white : bool) (f r : Z) (dirs : list (Z * Z)) : list move :=
  flat_map (fun d => ray_moves b white 7 f r f r (fst d) (snd d)) dirs.

(** a pawn move to (f',r'): four promotion moves on the last rank, one plain move otherwise *)
Definition pawn_arrive (white : bool) (f r f' r' : Z) : list move :=
  if r' =? (if white then 7 else 0)
  then [mv f r f' r' (mk_piece white Queen); mv f r f' r' (mk_piece white Rook);
        mv f r f' r' (mk_piece white Bishop); mv f r f' r' (mk_piece white Knight)]
  else [mv f r f' r' EMPTY].

Definition pawn_moves (sp : spos) (f r : Z) : list move :=
  let b := sp_board sp in
  let white := sp_white sp in
  let dr := if white then 1 else -1 in
  let r1 := r + dr in
  let push :=
    if on_board f r1 && N.eqb (at_ b f r1) EMPTY then
      pawn_arrive white f r f r1
      ++ (if (r =? (if white then 1 else 6)) && N.eqb (at_ b f (r1 + dr)) EMPTY
          then [mv f r f (r1 + dr) EMPTY] else [])
    else [] in
  let capture f' :=
    if on_board f' r1 then
      if has_color (negb white) (at_ b f' r1) then pawn_arrive white f r f' r1
      else if (Z.of_N (sq_of f' r1) =? sp_ep sp) && N.eqb (at_ b f' r1) EMPTY then [mv f r f' r1 EMPTY]   (* en passant *)
      else []
    else [] in
  push ++ capture (f - 1) ++ capture (f + 1).

(** castling: right present, king and rook on their squares, squares between empty, king not
    in check, transit square and target square not attacked *)
Definition castle_moves (sp : spos) : list move :=
  let b := sp_board sp in
  let w := sp_white sp in
  let r := if w then 0 else 7 in
  let emptyb f := N.eqb (at_ b f r) EMPTY in
  let safe f := negb (attacked_by b (negb w) f r) in
  if is_piece w King (at_ b 4 r) && safe 4 then
    (if has_right sp w true && is_piece w Rook (at_ b 7 r) && emptyb 5 && emptyb 6 && safe 5 && safe 6
     then [mv 4 r 6 r EMPTY] else [])
    ++ (if has_right sp w false && is_piece w Rook (at_ b 0 r) && emptyb 1 && emptyb 2 && emptyb 3 && safe 3 && safe 2
        then [mv 4 r 2 r EMPTY] else [])
  else [].

Definition piece_moves (sp : spos) (f r : Z) : list move :=
  let b := sp_board sp in
  let w := sp_white sp in
  let pc := at_ b f r in
  if has_color w pc then
    match kind_of pc with
    | Some King => step_moves b w f r king_offsets
    | Some Knight => step_moves b w f r knight_offsets
    | Some Rook => slider_moves b w f r rook_dirs
    | Some Bishop => slider_moves b w f r bishop_dirs
    | Some Queen => slider_moves b w f r (rook_dirs ++ bishop_dirs)
    | Some Pawn => pawn_moves sp f r
    | None => []
    end
  else [].

Definition pseudo_moves (sp : spos) : list move :=
  flat_map (fun c => piece_moves sp (fst c) (snd c)) all_coords ++ castle_moves sp.

(** * Playing a move *)
Definition clear_right (c : N) (bit : N) : N := N.clearbit c bit.

Definition make_spec (sp : spos) (m : move) : spos :=
  let b := sp_board sp in
  let w := sp_white sp in
  let ff := file_of (mfrom m) in let fr := rank_of (mfrom m) in
  let tf := file_of (mto m) in let tr := rank_of (mto m) in
  let pc := at_ b ff fr in
  let target := at_ b tf tr in
  let is_pawn := is_piece w Pawn pc in
  let is_king := is_piece w King pc in
  let is_ep := is_pawn && negb (tf =? ff) && N.eqb target EMPTY in
  let b1 := put b ff fr EMPTY in
  let b2 := if is_ep then put b1 tf fr EMPTY else b1 in
  let b3 := put b2 tf tr (if N.eqb (mpromote m) EMPTY then pc else mpromote m) in
  let b4 := if is_king && (tf - ff =? 2) then put (put b3 7 fr EMPTY) 5 fr (mk_piece w Rook)
            else if is_king && (tf - ff =? -2) then put (put b3 0 fr EMPTY) 3 fr (mk_piece w Rook)
            else b3 in
  (* castling rights: lost by a king move, by a rook leaving its corner, by a capture on a corner *)
  let hr := if w then 0 else 7 in          (* own home rank *)
  let orr := if w then 7 else 0 in         (* opponent's home rank *)
  let ownQ := if w then 0%N else 2%N in let ownK := if w then 1%N else 3%N in
  let oppQ := if w then 2%N else 0%N in let oppK := if w then 3%N else 1%N in
  let c0 := sp_castle sp in
  let c1 := if is_king then clear_right (clear_right c0 ownQ) ownK else c0 in
  let c2 := if is_piece w Rook pc && (fr =? hr) && (ff =? 0) then clear_right c1 ownQ else c1 in
  let c3 := if is_piece w Rook pc && (fr =? hr) && (ff =? 7) then clear_right c2 ownK else c2 in
  let c4 := if (tr =? orr) && (tf =? 0) then clear_right c3 oppQ else c3 in
  let c5 := if (tr =? orr) && (tf =? 7) then clear_right c4 oppK else c4 in
  (* en-passant right: after a double push next to an enemy pawn *)
  let ep := if is_pawn && (Z.abs (tr - fr) =? 2)
               && (is_piece (negb w) Pawn (at_ b (tf - 1) tr) || is_piece (negb w) Pawn (at_ b (tf + 1) tr))
            then Z.of_N (sq_of ff ((fr + tr) / 2)) else -1 in
  mkSpos b4 (negb w) c5 ep.

(** * Legality *)
Definition move_eqb (a b : move) : bool :=
  N.eqb (mfrom a) (mfrom b) && N.eqb (mto a) (mto b) && N.eqb (mpromote a) (mpromote b).

(** the mover's king is not attacked after the move *)
Definition safe_after (sp : spos) (m : move) : bool :=
  negb (in_checkb (sp_board (make_spec sp m)) (sp_white sp)).

Definition legal_specb (sp : spos) (m : move) : bool :=
  existsb (move_eqb m) (pseudo_moves sp) && safe_after sp m.

Definition legal_spec (sp : spos) (m : move) : Prop :=
  In m (pseudo_moves sp) /\ in_checkb (sp_board (make_spec sp m)) (sp_white sp) = false.

Definition legal_moves_spec (sp : spos) : list move := filter (safe_after sp) (pseudo_moves sp).

(** the move gives check: after it the king of the side now to move is attacked *)
Definition gives_check_spec (sp : spos) (m : move) : bool :=
  let sp' := make_spec sp m in in_checkb (sp_board sp') (sp_white sp').

Definition is_capture_spec (sp : spos) (m : move) : bool :=
  let b := sp_board sp in
  negb (N.eqb (at_ b (file_of (mto m)) (rank_of (mto m))) EMPTY)
  || (is_piece (sp_white sp) Pawn (at_ b (file_of (mfrom m)) (rank_of (mfrom m)))
      && negb (file_of (mto m) =? file_of (mfrom m))).

(** * Accepted positions (what the FEN reader enforces, in coordinates) *)
Definition count_piece (b : board) (pc : piece) : nat := length (filter (N.eqb pc) b).

Definition accepted (sp : spos) : bool :=
  let b := sp_board sp in
  let w := sp_white sp in
  (length b =? 64)%nat
  && forallb (fun pc => N.leb pc 12) b
  && (count_piece b WKING =? 1)%nat && (count_piece b BKING =? 1)%nat
  && forallb (fun f => negb (is_piece true Pawn (at_ b f 0)) && negb (is_piece false Pawn (at_ b f 0))
                       && negb (is_piece true Pawn (at_ b f 7)) && negb (is_piece false Pawn (at_ b f 7)))
             [0; 1; 2; 3; 4; 5; 6; 7]
  && negb (in_checkb b (negb w))                                  (* the side that moved is not in check *)
  && (N.ltb (sp_castle sp) 16)
  && (negb (has_right sp true true) || (is_piece true King (at_ b 4 0) && is_piece true Rook (at_ b 7 0)))
  && (negb (has_right sp true false) || (is_piece true King (at_ b 4 0) && is_piece true Rook (at_ b 0 0)))
  && (negb (has_right sp false true) || (is_piece false King (at_ b 4 7) && is_piece false Rook (at_ b 7 7)))
  && (negb (has_right sp false false) || (is_piece false King (at_ b 4 7) && is_piece false Rook (at_ b 0 7)))
  && ((sp_ep sp =? -1)
      || ((0 <=? sp_ep sp) && (sp_ep sp <? 64)
          && (let ef := sp_ep sp mod 8 in let er := sp_ep sp / 8 in
              (er =? (if w then 5 else 2))
              && N.eqb (at_ b ef er) EMPTY
              && is_piece (negb w) Pawn (at_ b ef (if w then 4 else 3))))).

(** * Reflection *)
Lemma move_eqb_eq : forall a b, move_eqb a b = true <-> a = b.
Proof.
  intros [a1 a2 a3] [b1 b2 b3]; unfold move_eqb; simpl.
  rewrite !andb_true_iff, !N.eqb_eq. split.
  - intros [[-> ->] ->]; reflexivity.
  - intros H; inversion H; auto.
Qed.

Lemma legal_specb_spec : forall sp m, legal_specb sp m = true <-> legal_spec sp m.
Proof.
  intros sp m. unfold legal_specb, legal_spec, safe_after.
  rewrite andb_true_iff, negb_true_iff, existsb_exists. split.
  - intros [[x [Hin Heq]] Hs]. apply move_eqb_eq in Heq. subst x. auto.
  - intros [Hin Hs]. split; auto. exists m. split; auto. apply move_eqb_eq; reflexivity.
Qed.

Lemma legal_spec_reflect : forall sp m, reflect (legal_spec sp m) (legal_specb sp m).
Proof.
  intros sp m. destruct (legal_specb sp m) eqn:E; constructor.
  - apply legal_specb_spec; exact E.
  - intro H. apply legal_specb_spec in H. congruence.
Qed.

Lemma legal_moves_spec_In : forall sp m, In m (legal_moves_spec sp) <-> legal_spec sp m.
Proof.
  intros sp m. unfold legal_moves_spec, legal_spec, safe_after.
  rewrite filter_In, negb_true_iff. tauto.
Qed.

(** * Examples *)
Definition start_board : board :=
  [WROOK; WKNIGHT; WBISHOP; WQUEEN; WKING; WBISHOP; WKNIGHT; WROOK;
   WPAWN; WPAWN; WPAWN; WPAWN; WPAWN; WPAWN; WPAWN; WPAWN;
   EMPTY; EMPTY; EMPTY; EMPTY; EMPTY; EMPTY; EMPTY; EMPTY;
   EMPTY; EMPTY; EMPTY; EMPTY; EMPTY; EMPTY; EMPTY; EMPTY;
   EMPTY; EMPTY; EMPTY; EMPTY; EMPTY; EMPTY; EMPTY; EMPTY;
   EMPTY; EMPTY; EMPTY; EMPTY; EMPTY; EMPTY; EMPTY; EMPTY;
   BPAWN; BPAWN; BPAWN; BPAWN; BPAWN; BPAWN; BPAWN; BPAWN;
   BROOK; BKNIGHT; BBISHOP; BQUEEN; BKING; BBISHOP; BKNIGHT; BROOK].

Definition start_spos : spos := mkSpos start_board true 15%N (-1).

Example start_accepted : accepted start_spos = true.
Proof. vm_compute. reflexivity. Qed.

Example start_has_20_moves : length (legal_moves_spec start_spos) = 20%nat.
Proof. vm_compute. reflexivity. Qed.

(** perft 3 from the start position is 8902 *)
Fixpoint perft_spec (d : nat) (sp : spos) : N :=
  match d with
  | O => 1%N
  | S k => fold_left (fun acc m => (acc + perft_spec k (make_spec sp m))%N) (legal_moves_spec sp) 0%N
  end.

Example start_perft3 : perft_spec 3 start_spos = 8902%N.
Proof. vm_compute. reflexivity. Qed.
