(** C02 proofs, part 2: movePieceNotPawn, the scalar edits, the bitboard tests of makeMove. *)
From Coq Require Import ZArith NArith List Bool Lia Btauto.
From Texel Require Import Chess.Types Chess.Position Chess.PositionSpec Chess.PositionFacts Chess.PositionProofs.
Import ListNotations.
Local Open Scope N_scope.

Ltac proj_simpl :=
  cbn [squares pieceTypeBB whiteBB blackBB whiteMove halfMoveClock fullMoveCounter castleMask epSquare
       hashKey pHashKey matId wMtrl bMtrl wMtrlPawns bMtrlPawns
       set_squares set_pieceTypeBB set_whiteBB set_blackBB set_whiteMove set_halfMoveClock set_fullMoveCounter
       set_castleMask set_epSquare set_hashKey set_pHashKey set_matId set_wMtrl set_bMtrl set_wMtrlPawns
       set_bMtrlPawns bbClear bbSet].
Ltac proj_simpl_in H :=
  cbn [squares pieceTypeBB whiteBB blackBB whiteMove halfMoveClock fullMoveCounter castleMask epSquare
       hashKey pHashKey matId wMtrl bMtrl wMtrlPawns bMtrlPawns
       set_squares set_pieceTypeBB set_whiteBB set_blackBB set_whiteMove set_halfMoveClock set_fullMoveCounter
       set_castleMask set_epSquare set_hashKey set_pHashKey set_matId set_wMtrl set_bMtrl set_wMtrlPawns
       set_bMtrlPawns bbClear bbSet] in H.

Lemma nth_bb_update2 (l : list N) (r pc pc0 : N) (m1 m2 : N) :
  r < N.of_nat (length l) -> pc < N.of_nat (length l) ->
  let bb1 := updN r (N.ldiff (nth (N.to_nat r) l 0) m1) l in
  nth (N.to_nat pc0) (updN pc (N.lor (nth (N.to_nat pc) bb1 0) m2) bb1) 0 =
  lorIf (pc0 =? pc) (ldiffIf (pc0 =? r) (nth (N.to_nat pc0) l 0) m1) m2.
Proof.
  intros Hr Hpc bb1. unfold lorIf, ldiffIf.
  destruct (N.eqb_spec pc0 pc) as [->|Hne].
  - rewrite nth_updN_eq by (unfold bb1; rewrite length_updN; lia).
    unfold bb1. destruct (N.eqb_spec pc r) as [->|Hne2].
    + rewrite nth_updN_eq by lia. reflexivity.
    + rewrite nth_updN_neq by auto. reflexivity.
  - rewrite nth_updN_neq by auto.
    unfold bb1. destruct (N.eqb_spec pc0 r) as [->|Hne2].
    + rewrite nth_updN_eq by lia. reflexivity.
    + rewrite nth_updN_neq by auto. reflexivity.
Qed.

Lemma land_sqMask bb s : (N.land bb (sqMask s) =? 0) = negb (N.testbit bb s).
Proof.
  destruct (N.testbit bb s) eqn:E; simpl.
  - apply N.eqb_neq. intro H.
    assert (N.testbit (N.land bb (sqMask s)) s = true).
    { rewrite N.land_spec, E, testbit_sqMask, N.eqb_refl. reflexivity. }
    rewrite H, N.bits_0 in H0. discriminate.
  - apply N.eqb_eq. apply N.bits_inj. intro j. rewrite N.land_spec, testbit_sqMask, N.bits_0.
    destruct (N.eqb_spec s j) as [->|]; [rewrite E|]; auto using andb_false_r.
Qed.

Section Ops2.
Variable zk : zkeys.
Hypothesis EKZ : emptyKeysZero zk.

Lemma setEpSquare_consistent k p ep : ConsistentX zk k p -> ConsistentX zk k (setEpSquare zk p ep).
Proof.
  intros C. unfold setEpSquare. destruct (negb (epSquare p =? ep)%Z); auto.
  destruct C. constructor; proj_simpl; auto.
  rewrite c_hash. unfold hashOf. proj_simpl. xor_solve.
Qed.

Lemma setCastleMask_consistent k p cm : ConsistentX zk k p -> ConsistentX zk k (setCastleMask zk p cm).
Proof.
  intros C. unfold setCastleMask. destruct (negb (cm =? castleMask p)); auto.
  destruct C. constructor; proj_simpl; auto.
  rewrite c_hash. unfold hashOf. proj_simpl. xor_solve.
Qed.

Lemma setWhiteMove_consistent k p b : ConsistentX zk k p -> ConsistentX zk k (setWhiteMove zk p b).
Proof.
  intros C. unfold setWhiteMove. destruct (negb (eqb b (whiteMove p))) eqn:E; auto.
  destruct C. constructor; proj_simpl; auto.
  rewrite c_hash. unfold hashOf. proj_simpl.
  destruct b, (whiteMove p); simpl in E; try discriminate; xor_solve.
Qed.

Lemma set_halfMoveClock_consistent k p v : ConsistentX zk k p -> ConsistentX zk k (set_halfMoveClock p v).
Proof. intros C; destruct C; constructor; proj_simpl; auto. Qed.
Lemma set_fullMoveCounter_consistent k p v : ConsistentX zk k p -> ConsistentX zk k (set_fullMoveCounter p v).
Proof. intros C; destruct C; constructor; proj_simpl; auto. Qed.

Lemma toggle_white_key k p :
  ConsistentX zk k p -> ConsistentX zk (N.lxor k (zk_white zk)) (set_hashKey p (N.lxor (hashKey p) (zk_white zk))).
Proof.
  intros C; destruct C; constructor; proj_simpl; auto.
  rewrite c_hash. unfold hashOf. proj_simpl. xor_solve.
Qed.

Lemma flip_side k p b :
  b = negb (whiteMove p) ->
  ConsistentX zk (N.lxor k (zk_white zk)) p -> ConsistentX zk k (set_whiteMove p b).
Proof.
  intros -> C; destruct C; constructor; proj_simpl; auto.
  rewrite c_hash. unfold hashOf. proj_simpl. destruct (whiteMove p); simpl; xor_solve.
Qed.

Lemma ConsistentX_0 k p : ConsistentX zk (N.lxor (N.lxor k (zk_white zk)) (zk_white zk)) p -> ConsistentX zk k p.
Proof. rewrite lxor_cancel_r. auto. Qed.

(** movePieceNotPawn in closed form *)
Definition mPNPSpec (p : position) (f t : square) : position :=
  let pc := getPiece p f in
  let mF := sqMask f in
  let mT := sqMask t in
  let bb1 := updN pc (N.ldiff (ptBB p pc) mF) (pieceTypeBB p) in
  mkPos (updN t pc (updN f EMPTY (squares p)))
        (updN pc (N.lor (nth (N.to_nat pc) bb1 0) mT) bb1)
        (if isWhite pc then N.lor (N.ldiff (whiteBB p) mF) mT else whiteBB p)
        (if isWhite pc then blackBB p else N.lor (N.ldiff (blackBB p) mF) mT)
        (whiteMove p) (halfMoveClock p) (fullMoveCounter p) (castleMask p) (epSquare p)
        (N.lxor (N.lxor (hashKey p) (psKey zk pc f)) (psKey zk pc t))
        (pHashKey p) (matId p) (wMtrl p) (bMtrl p) (wMtrlPawns p) (bMtrlPawns p).

Lemma mPNP_eq p f t : movePieceNotPawn zk p f t = mPNPSpec p f t.
Proof. unfold movePieceNotPawn, mPNPSpec. cbv zeta. destruct (isWhite (getPiece p f)); reflexivity. Qed.

Lemma movePieceNotPawn_consistent k p f t :
  ConsistentX zk k p -> f < 64 -> t < 64 -> f <> t ->
  1 <= getPiece p f <= 12 -> isPawnPiece (getPiece p f) = false -> getPiece p t = EMPTY ->
  ConsistentX zk k (movePieceNotPawn zk p f t).
Proof.
  intros C Hf Ht Hne Hpc Hnp Hte. destruct C.
  rewrite mPNP_eq. unfold mPNPSpec. cbv zeta.
  set (pc := getPiece p f) in *.
  assert (Hlf : f < N.of_nat (length (squares p))) by (rewrite c_len; lia).
  assert (Hlt : t < N.of_nat (length (updN f EMPTY (squares p)))) by (rewrite length_updN, c_len; lia).
  assert (Hnt : nth (N.to_nat t) (updN f EMPTY (squares p)) EMPTY = EMPTY).
  { rewrite nth_updN_neq by auto. exact Hte. }
  assert (Hnf : nth (N.to_nat f) (squares p) EMPTY = pc) by reflexivity.
  assert (Hw : isWhite pc = isWhitePiece pc).
  { unfold isWhite, isWhitePiece, BKING. destruct (N.ltb_spec pc 7), (N.leb_spec 1 pc), (N.leb_spec pc 6); simpl; auto; lia. }
  assert (Hb : isBlackPiece pc = negb (isWhitePiece pc)).
  { unfold isBlackPiece, isWhitePiece. destruct (N.leb_spec 7 pc), (N.leb_spec pc 12), (N.leb_spec 1 pc), (N.leb_spec pc 6); simpl; auto; lia. }
  rewrite Hw.
  constructor; cbn [squares pieceTypeBB whiteBB blackBB whiteMove halfMoveClock fullMoveCounter castleMask
                    epSquare hashKey pHashKey matId wMtrl bMtrl wMtrlPawns bMtrlPawns].
  - rewrite !length_updN; auto.
  - rewrite !length_updN; auto.
  - apply Forall_updL; [apply Forall_updL; auto; reflexivity|]. lia.
  - intros pc0 H0. unfold ptBB at 1. cbn [pieceTypeBB]. unfold ptBB.
    rewrite nth_bb_update2 by (rewrite c_bblen; lia).
    rewrite bbOf_updN by auto. rewrite Hnt. rewrite bbOf_updN by auto. rewrite Hnf.
    rewrite !updBB_alt.
    replace (pc0 =? EMPTY) with false by (symmetry; apply N.eqb_neq; unfold EMPTY; lia).
    fold (ptBB p pc0). rewrite c_bb by auto. reflexivity.
  - rewrite bbOf_updN by auto. rewrite Hnt. rewrite bbOf_updN by auto. rewrite Hnf.
    rewrite !updBB_alt. change (isWhitePiece EMPTY) with false. rewrite c_white.
    destruct (isWhitePiece pc); reflexivity.
  - rewrite bbOf_updN by auto. rewrite Hnt. rewrite bbOf_updN by auto. rewrite Hnf.
    rewrite !updBB_alt. change (isBlackPiece EMPTY) with false. rewrite c_black, Hb.
    destruct (isWhitePiece pc); reflexivity.
  - rewrite c_hash. unfold hashOf. cbn [squares whiteMove castleMask epSquare].
    unfold boardKey. rewrite xorKeys_updN by auto. rewrite Hnt. rewrite xorKeys_updN by auto. rewrite Hnf.
    rewrite !keyIf_true, !EKZ. xor_solve.
  - rewrite c_phash. unfold pawnKey. rewrite xorKeys_updN by auto. rewrite Hnt. rewrite xorKeys_updN by auto.
    rewrite Hnf. unfold keyIf. change ((pc =? WPAWN) || (pc =? BPAWN)) with (isPawnPiece pc). rewrite Hnp.
    change ((EMPTY =? WPAWN) || (EMPTY =? BPAWN)) with false. cbv iota. xor_solve.
  - rewrite matIdOf_updN by auto. rewrite Hnt. rewrite matIdOf_updN by auto. rewrite Hnf, c_matId.
    change (materialId EMPTY) with 0%Z. lia.
  - rewrite mtrlOf_updN by auto. rewrite Hnt. rewrite mtrlOf_updN by auto. rewrite Hnf, c_wMtrl.
    change (isWhitePiece EMPTY) with false. cbv iota. lia.
  - rewrite mtrlOf_updN by auto. rewrite Hnt. rewrite mtrlOf_updN by auto. rewrite Hnf, c_bMtrl.
    change (isBlackPiece EMPTY) with false. cbv iota. lia.
  - rewrite mtrlOf_updN by auto. rewrite Hnt. rewrite mtrlOf_updN by auto. rewrite Hnf, c_wMtrlPawns.
    change (WPAWN =? EMPTY) with false. cbv iota. lia.
  - rewrite mtrlOf_updN by auto. rewrite Hnt. rewrite mtrlOf_updN by auto. rewrite Hnf, c_bMtrlPawns.
    change (BPAWN =? EMPTY) with false. cbv iota. lia.
Qed.

(** the bitboard tests of makeMove *)
Lemma testbit_ptBB k p pc s :
  ConsistentX zk k p -> 1 <= pc <= 12 -> s < 64 -> N.testbit (ptBB p pc) s = (pc =? getPiece p s).
Proof.
  intros C Hpc Hs. destruct C. rewrite c_bb by auto. rewrite testbit_bbOf, c_len.
  replace (s <? N.of_nat 64) with true by (symmetry; apply N.ltb_lt; lia). reflexivity.
Qed.

Lemma pawnsAt_spec k p f : ConsistentX zk k p -> f < 64 -> pawnsAt p (sqMask f) = isPawnPiece (getPiece p f).
Proof.
  intros C Hf. unfold pawnsAt. rewrite land_sqMask, negb_involutive, N.lor_spec.
  rewrite !(testbit_ptBB k) by (auto; unfold WPAWN, BPAWN; lia).
  unfold isPawnPiece. rewrite (N.eqb_sym WPAWN), (N.eqb_sym BPAWN). reflexivity.
Qed.

Definition isKingPiece (pc : piece) : bool := (pc =? WKING) || (pc =? BKING).
Lemma kingsAt_spec k p f : ConsistentX zk k p -> f < 64 -> kingsAt p (sqMask f) = isKingPiece (getPiece p f).
Proof.
  intros C Hf. unfold kingsAt. rewrite land_sqMask, negb_involutive, N.lor_spec.
  rewrite !(testbit_ptBB k) by (auto; unfold WKING, BKING; lia).
  unfold isKingPiece. rewrite (N.eqb_sym WKING), (N.eqb_sym BKING). reflexivity.
Qed.

End Ops2.
