(** checkEvasions as an explicit concatenation of blocks, each the corresponding block of
    pseudoLegalMoves restricted to the valid target squares: membership, and the inclusion in
    the pseudo-legal list.  Also: pseudoLegalCapturesAndChecks generates pseudo-legal moves only. *)
From Coq Require Import ZArith NArith List Bool Lia.
From Texel Require Import Chess.Types Chess.Position Chess.BitBoard Chess.MoveGen Chess.Spec Chess.MoveGenWF
  Chess.BitBoardProofs Chess.RayProofs Chess.MoveGenProofs Chess.AttackProofs Chess.SliderProofs Chess.PawnProofs
  Chess.PseudoProofs Chess.NoDupProofs gen.BitBoardTables.
Import ListNotations.
Local Open Scope N_scope.

(** * Membership in the explicit lists *)
Lemma movesTo_iff : forall sq0 mask m, mask < 2 ^ 64 ->
  (In m (movesTo sq0 mask) <-> mfrom m = sq0 /\ mpromote m = EMPTY /\ N.testbit mask (mto m) = true).
Proof.
  intros sq0 mask m Hm. split.
  - intro H. apply movesTo_In in H. destruct H as (A & B & C). apply bitsOf_In in C; auto.
  - intros (A & B & C). unfold movesTo. apply in_flat_map. exists (mto m). split; [apply bitsOf_In; assumption|].
    left. destruct m as [f t pr]. cbn in *. subst. reflexivity.
Qed.

Lemma loopMoves_iff : forall bb g m, bb < 2 ^ 64 -> (forall sq, sq < 64 -> g sq < 2 ^ 64) ->
  (In m (loopMoves bb g) <-> N.testbit bb (mfrom m) = true /\ mpromote m = EMPTY /\ N.testbit (g (mfrom m)) (mto m) = true).
Proof.
  intros bb g m Hbb Hg. unfold loopMoves. rewrite in_flat_map. split.
  - intros [sq [Hs Hin]]. apply bitsOf_In in Hs; [|exact Hbb].
    apply movesTo_iff in Hin; [|apply Hg; exact (bits_below_64 _ Hbb _ Hs)]. destruct Hin as (A & B & C). subst sq. auto.
  - intros (A & B & C). exists (mfrom m). split; [apply bitsOf_In; assumption|].
    apply movesTo_iff; [apply Hg; exact (bits_below_64 _ Hbb _ A) | auto].
Qed.

Lemma plainTo_iff : forall d mask m, mask < 2 ^ 64 ->
  (In m (plainTo d mask) <-> N.testbit mask (mto m) = true /\ mfrom m = sqAdd (mto m) d /\ mpromote m = EMPTY).
Proof.
  intros d mask m Hm. split.
  - intro H. apply plainTo_In in H. destruct H as (A & B & C). apply bitsOf_In in A; auto.
  - intros (A & B & C). unfold plainTo. apply in_flat_map. exists (mto m). split; [apply bitsOf_In; assumption|].
    left. destruct m as [f t pr]. cbn in *. subst. reflexivity.
Qed.

Definition promoOK (wtm : bool) (t : square) (pr : piece) : Prop :=
  (N.testbit maskRow1Row8 t = true /\ In pr [myPiece wtm WQUEEN; myPiece wtm WKNIGHT; myPiece wtm WROOK; myPiece wtm WBISHOP]) \/
  (N.testbit maskRow1Row8 t = false /\ pr = EMPTY).

Lemma pawnTo_iff : forall wtm mask d m, mask < 2 ^ 64 ->
  (In m (pawnTo wtm mask d) <-> N.testbit mask (mto m) = true /\ mfrom m = sqAdd (mto m) d /\ promoOK wtm (mto m) (mpromote m)).
Proof.
  intros wtm mask d m Hm. unfold pawnTo, promoOK. rewrite in_app_iff, in_flat_map. split.
  - intros [[t [Ht Hin]]|H].
    + apply bitsOf_In in Ht; [|apply land_lt_l; exact Hm]. rewrite N.land_spec in Ht. apply andb_true_iff in Ht. destruct Ht as [A B].
      unfold promo4 in Hin. cbn [In] in Hin.
      destruct Hin as [<-|[<-|[<-|[<-|[]]]]]; cbn [mfrom mto mpromote]; (split; [exact A|]); (split; [reflexivity|]); left; (split; [exact B|]); cbn [In]; auto.
    + apply plainTo_iff in H; [|apply ldiff_lt; exact Hm]. destruct H as (A & B & C). unfold andn in A.
      rewrite N.ldiff_spec, N.land_spec in A. apply andb_true_iff in A. destruct A as [A1 A2]. rewrite A1 in A2. cbn [andb] in A2.
      apply negb_true_iff in A2. auto.
  - intros (A & B & [[C D]|[C D]]).
    + left. exists (mto m). split; [apply bitsOf_In; [apply land_lt_l; exact Hm | rewrite N.land_spec, A, C; reflexivity]|].
      unfold promo4. destruct m as [f t pr]. cbn [mfrom mto mpromote In] in *. subst f.
      destruct D as [<-|[<-|[<-|[<-|[]]]]]; auto.
    + right. apply plainTo_iff; [apply ldiff_lt; exact Hm|]. split; [|auto].
      unfold andn. rewrite N.ldiff_spec, N.land_spec, A, C. reflexivity.
Qed.

(** * checkEvasions *)
Definition kingThreatsOf (wtm : bool) (pos : position) : N :=
  let occupied := occupiedBB pos in
  let kSq := kingSq pos wtm in
  let kingThreats := N.land (ptBB pos (myPiece (negb wtm) WKNIGHT)) (knightAttacks kSq) in
  let rookPieces := N.lor (ptBB pos (myPiece (negb wtm) WROOK)) (ptBB pos (myPiece (negb wtm) WQUEEN)) in
  let kingThreats := if nz rookPieces then N.lor kingThreats (N.land rookPieces (rookAttacks kSq occupied)) else kingThreats in
  let bishPieces := N.lor (ptBB pos (myPiece (negb wtm) WBISHOP)) (ptBB pos (myPiece (negb wtm) WQUEEN)) in
  let kingThreats := if nz bishPieces then N.lor kingThreats (N.land bishPieces (bishopAttacks kSq occupied)) else kingThreats in
  let myPawnAttacks := if wtm then wPawnAttacks kSq else bPawnAttacks kSq in
  N.lor kingThreats (N.land (ptBB pos (myPiece (negb wtm) WPAWN)) myPawnAttacks).

Definition validTargetsOf (wtm : bool) (pos : position) : N :=
  let kingThreats := kingThreatsOf wtm pos in
  if nz kingThreats && (N.land kingThreats (N.pred kingThreats) =? 0) then
    N.lor kingThreats (squaresBetween (kingSq pos wtm) (firstSquare kingThreats))
  else 0.

Lemma checkEvasionsT_normal : forall w pos,
  checkEvasionsT w pos =
  let occupied := occupiedBB pos in
  let own := colorBB pos w in
  let vt := validTargetsOf w pos in
  let l := forSquares (ptBB pos (myPiece w WQUEEN)) (fun l sq =>
             addMovesByMask l sq (N.land (andn (N.lor (rookAttacks sq occupied) (bishopAttacks sq occupied)) own) vt)) [] in
  let l := forSquares (ptBB pos (myPiece w WROOK)) (fun l sq => addMovesByMask l sq (N.land (andn (rookAttacks sq occupied) own) vt)) l in
  let l := forSquares (ptBB pos (myPiece w WBISHOP)) (fun l sq => addMovesByMask l sq (N.land (andn (bishopAttacks sq occupied) own) vt)) l in
  let l := addMovesByMask l (kingSq pos w) (andn (kingAttacks (kingSq pos w)) own) in
  let l := forSquares (ptBB pos (myPiece w WKNIGHT)) (fun l sq => addMovesByMask l sq (N.land (andn (knightAttacks sq) own) vt)) l in
  let pawns := ptBB pos (myPiece w WPAWN) in
  let m1 := andn (fwd w pawns 8) occupied in
  let l := addPawnMovesByMask w l (N.land m1 vt) (delta w 8) true in
  let m2 := andn (fwd w (N.land m1 (if w then maskRow3 else maskRow6)) 8) occupied in
  let l := addPawnDoubleMovesByMask l (N.land m2 vt) (delta w 16) in
  let eoe := N.lor (N.land (colorBB pos (negb w)) vt) (epMaskOf pos) in
  let l := addPawnMovesByMask w l (N.land (N.land (fwd w pawns (if w then 7 else 9)) maskAToGFiles) eoe) (delta w (if w then 7 else 9)) true in
  addPawnMovesByMask w l (N.land (N.land (fwd w pawns (if w then 9 else 7)) maskBToHFiles) eoe) (delta w (if w then 9 else 7)) true.
Proof.
  intros. destruct w; cbv beta iota zeta delta [checkEvasionsT validTargetsOf kingThreatsOf fwd delta myPiece negb]; reflexivity.
Qed.

Section Evasions.
Variable p : position.
Hypothesis HWF : WF p.
Let w := whiteMove p.
Let occ := occupiedBB p.
Let own := colorBB p w.
Let vt := validTargetsOf w p.
Let ks := kingSq p w.
Let pawns := ptBB p (myPiece w WPAWN).
Let m1 := andn (fwd w pawns 8) occ.
Let m2 := andn (fwd w (N.land m1 (if w then maskRow3 else maskRow6)) 8) occ.
Let kL : N := if w then 7 else 9.
Let kR : N := if w then 9 else 7.
Let eoe := N.lor (colorBB p (negb w)) (epMaskOf p).
Let eoeV := N.lor (N.land (colorBB p (negb w)) vt) (epMaskOf p).
Let m3 := N.land (N.land (fwd w pawns kL) maskAToGFiles) eoe.
Let m4 := N.land (N.land (fwd w pawns kR) maskBToHFiles) eoe.

Definition eQ := loopMoves (ptBB p (myPiece w WQUEEN)) (fun sq => N.land (gQ p sq) vt).
Definition eR := loopMoves (ptBB p (myPiece w WROOK)) (fun sq => N.land (gR p sq) vt).
Definition eB := loopMoves (ptBB p (myPiece w WBISHOP)) (fun sq => N.land (gB p sq) vt).
Definition eN := loopMoves (ptBB p (myPiece w WKNIGHT)) (fun sq => N.land (gN p sq) vt).
Definition eP1 := pawnTo w (N.land m1 vt) (delta w 8).
Definition eP2 := plainTo (delta w 16) (N.land m2 vt).
Definition eP3 := pawnTo w (N.land (N.land (fwd w pawns kL) maskAToGFiles) eoeV) (delta w kL).
Definition eP4 := pawnTo w (N.land (N.land (fwd w pawns kR) maskBToHFiles) eoeV) (delta w kR).

Lemma evasions_list : checkEvasions p = eQ ++ eR ++ eB ++ lK p ++ eN ++ eP1 ++ eP2 ++ eP3 ++ eP4.
Proof.
  unfold checkEvasions. fold w. rewrite checkEvasionsT_normal. cbv zeta.
  fold occ own vt ks pawns. fold m1. fold m2. fold kL kR. fold eoeV.
  rewrite !addPawnMovesByMask_list, addPawnDoubleMovesByMask_list.
  change (fun (l : moveList) (sq : square) => addMovesByMask l sq (N.land (andn (knightAttacks sq) own) vt))
    with (fun (l : moveList) (sq : square) => addMovesByMask l sq ((fun sq => N.land (gN p sq) vt) sq)).
  rewrite loop_list, addMovesByMask_list.
  change (fun (l : moveList) (sq : square) => addMovesByMask l sq (N.land (andn (bishopAttacks sq occ) own) vt))
    with (fun (l : moveList) (sq : square) => addMovesByMask l sq ((fun sq => N.land (gB p sq) vt) sq)).
  rewrite loop_list.
  change (fun (l : moveList) (sq : square) => addMovesByMask l sq (N.land (andn (rookAttacks sq occ) own) vt))
    with (fun (l : moveList) (sq : square) => addMovesByMask l sq ((fun sq => N.land (gR p sq) vt) sq)).
  rewrite loop_list.
  change (fun (l : moveList) (sq : square) => addMovesByMask l sq (N.land (andn (N.lor (rookAttacks sq occ) (bishopAttacks sq occ)) own) vt))
    with (fun (l : moveList) (sq : square) => addMovesByMask l sq ((fun sq => N.land (gQ p sq) vt) sq)).
  rewrite loop_list. cbn [app]. rewrite <- !app_assoc. reflexivity.
Qed.

(** membership: a move of the corresponding pseudo-legal block whose target square is valid
    (for pawn captures: valid, or the en-passant square) *)
Theorem evasions_iff : forall m,
  In m (checkEvasions p) <->
  (In m (lQ p) /\ N.testbit vt (mto m) = true) \/ (In m (lR p) /\ N.testbit vt (mto m) = true) \/
  (In m (lB p) /\ N.testbit vt (mto m) = true) \/ In m (lK p) \/ (In m (lN p) /\ N.testbit vt (mto m) = true) \/
  (In m (lP1 p) /\ N.testbit vt (mto m) = true) \/ (In m (lP2 p) /\ N.testbit vt (mto m) = true) \/
  (In m (lP3 p) /\ (N.testbit vt (mto m) = true \/ N.testbit (epMaskOf p) (mto m) = true)) \/
  (In m (lP4 p) /\ (N.testbit vt (mto m) = true \/ N.testbit (epMaskOf p) (mto m) = true)).
Proof.
  intro m. rewrite evasions_list, !in_app_iff.
  destruct (bounds p HWF) as (Hp & H1 & H2 & H3 & H4 & HgQ & HgR & HgB & HgN).
  assert (Hbb : forall wp, In wp [2; 3; 4; 5] -> ptBB p (myPiece w wp) < 2 ^ 64).
  { intros wp Hwp. apply ptBB_lt; [exact HWF|]. apply myPiece_codes. cbn [In] in Hwp |- *. tauto. }
  assert (Hloop : forall wp (g : square -> N), In wp [2; 3; 4; 5] -> (forall sq, sq < 64 -> g sq < 2 ^ 64) ->
            (In m (loopMoves (ptBB p (myPiece w wp)) (fun sq => N.land (g sq) vt)) <->
             In m (loopMoves (ptBB p (myPiece w wp)) g) /\ N.testbit vt (mto m) = true)).
  { intros wp g Hwp Hg. rewrite !loopMoves_iff; try (apply Hbb; exact Hwp); try exact Hg; [|intros sq Hs; apply land_lt_l, Hg, Hs].
    rewrite N.land_spec, andb_true_iff. tauto. }
  assert (IQ : In WQUEEN [2; 3; 4; 5]) by (left; reflexivity).
  assert (IR : In WROOK [2; 3; 4; 5]) by (right; left; reflexivity).
  assert (IB : In WBISHOP [2; 3; 4; 5]) by (right; right; left; reflexivity).
  assert (IN : In WKNIGHT [2; 3; 4; 5]) by (right; right; right; left; reflexivity).
  unfold eQ, eR, eB, eN.
  rewrite (Hloop WQUEEN (gQ p) IQ HgQ), (Hloop WROOK (gR p) IR HgR), (Hloop WBISHOP (gB p) IB HgB), (Hloop WKNIGHT (gN p) IN HgN).
  assert (E1 : In m eP1 <-> In m (lP1 p) /\ N.testbit vt (mto m) = true).
  { unfold eP1, lP1. fold w occ pawns. fold m1. rewrite !pawnTo_iff; [|exact H1 | apply land_lt_l; exact H1].
    rewrite N.land_spec, andb_true_iff. tauto. }
  assert (E2 : In m eP2 <-> In m (lP2 p) /\ N.testbit vt (mto m) = true).
  { unfold eP2, lP2. fold w occ pawns. fold m1. fold m2. rewrite !plainTo_iff; [|exact H2 | apply land_lt_l; exact H2].
    rewrite N.land_spec, andb_true_iff. tauto. }
  assert (Hcap : forall x, N.testbit (N.land x eoeV) (mto m) = true <->
                           N.testbit (N.land x eoe) (mto m) = true /\ (N.testbit vt (mto m) = true \/ N.testbit (epMaskOf p) (mto m) = true)).
  { intro x. unfold eoeV, eoe. rewrite !N.land_spec, !N.lor_spec, N.land_spec.
    destruct (N.testbit x (mto m)), (N.testbit (colorBB p (negb w)) (mto m)), (N.testbit vt (mto m)), (N.testbit (epMaskOf p) (mto m));
      cbn; intuition discriminate. }
  assert (E3 : In m eP3 <-> In m (lP3 p) /\ (N.testbit vt (mto m) = true \/ N.testbit (epMaskOf p) (mto m) = true)).
  { unfold eP3, lP3. fold w pawns kL. fold eoe. rewrite !pawnTo_iff; [|exact H3 | apply land_lt_l, land_lt_l, fwd_lt; exact Hp].
    rewrite Hcap. tauto. }
  assert (E4 : In m eP4 <-> In m (lP4 p) /\ (N.testbit vt (mto m) = true \/ N.testbit (epMaskOf p) (mto m) = true)).
  { unfold eP4, lP4. fold w pawns kR. fold eoe. rewrite !pawnTo_iff; [|exact H4 | apply land_lt_l, land_lt_l, fwd_lt; exact Hp].
    rewrite Hcap. tauto. }
  rewrite E1, E2, E3, E4. reflexivity.
Qed.

Theorem evasions_sub : forall m, In m (checkEvasions p) -> In m (pseudoLegalMoves p).
Proof.
  intros m H. apply evasions_iff in H. rewrite pseudo_list, !in_app_iff.
  destruct H as [[H _]|[[H _]|[[H _]|[H|[[H _]|[[H _]|[[H _]|[[H _]|[H _]]]]]]]]];
    [ left; exact H
    | right; left; exact H
    | right; right; left; exact H
    | right; right; right; left; exact H
    | right; right; right; right; right; left; exact H
    | right; right; right; right; right; right; left; exact H
    | right; right; right; right; right; right; right; left; exact H
    | right; right; right; right; right; right; right; right; left; exact H
    | right; right; right; right; right; right; right; right; right; exact H ].
Qed.
End Evasions.
