(** C01_magic, finite part: with the regenerated magic numbers and shift counts, for every
    square the table built like staticInitialize (a) is built without a failed assert and
    without an index outside the square's table, and (b) returns, for every subset of the
    relevant-occupancy mask (102 400 rook + 5 248 bishop patterns), the ray-walk attack set.
    (b) subsumes "two patterns share an entry only if they have the same attack set".
    Sweeps by vm_compute (about 15 s). *)
From Coq Require Import ZArith NArith List Bool Lia FMapPositive.
From Texel Require Import Chess.Types Chess.BitBoard Chess.Spec Chess.BitBoardProofs Chess.RayProofs gen.BitBoardTables.
Import ListNotations.
Local Open Scope N_scope.

(** all subsets of a set of squares, as bitboards *)
Fixpoint subsets (l : list square) : list N :=
  match l with
  | [] => [0]
  | b :: t => let r := subsets t in r ++ map (N.lor (bit b)) r
  end.

Definition innerRay (s : square) (d : Z * Z) : list square :=
  rayList rayFuel (zX s) (zY s) (fst d) (snd d) true.
Definition rMaskSquares (s : square) : list square := flat_map (innerRay s) rook_dirs.
Definition bMaskSquares (s : square) : list square := flat_map (innerRay s) bishop_dirs.

Definition magicOkR (sq : square) : bool :=
  match rTableOf sq with
  | Some t =>
      let magic := nthN rMagics sq in
      let bits := nthN rBits sq in
      forallb (fun sub => tget t (magicIndex sub magic bits) =? rookAttacks sq sub) (subsets (rMaskSquares sq))
  | None => false
  end.

Definition magicOkB (sq : square) : bool :=
  match bTableOf sq with
  | Some t =>
      let magic := nthN bMagics sq in
      let bits := nthN bBits sq in
      forallb (fun sub => tget t (magicIndex sub magic bits) =? bishopAttacks sq sub) (subsets (bMaskSquares sq))
  | None => false
  end.

Lemma magicR_ok : forallb magicOkR allSquares = true.
Proof. vm_compute. reflexivity. Qed.

Lemma magicB_ok : forallb magicOkB allSquares = true.
Proof. vm_compute. reflexivity. Qed.

(** the masks are the "or" of the inner rays, and every ray square except the last one of a
    ray lies in the mask (so the mask is exactly what the ray walk can depend on) *)
Definition maskOkR (s : square) : bool :=
  (rMasks s =? lorBits 0 (rMaskSquares s))
  && forallb (fun d => forallb (fun x => N.testbit (rMasks s) x) (removelast (ray s d))) rook_dirs.
Definition maskOkB (s : square) : bool :=
  (bMasks s =? lorBits 0 (bMaskSquares s))
  && forallb (fun d => forallb (fun x => N.testbit (bMasks s) x) (removelast (ray s d))) bishop_dirs.

Lemma maskR_ok : forallb maskOkR allSquares = true.
Proof. vm_compute. reflexivity. Qed.
Lemma maskB_ok : forallb maskOkB allSquares = true.
Proof. vm_compute. reflexivity. Qed.

(** number of patterns swept (non-vacuity of the sweep) *)
Example rook_pattern_count :
  fold_left (fun acc s => acc + N.of_nat (length (subsets (rMaskSquares s)))) allSquares 0 = 102400.
Proof. vm_compute. reflexivity. Qed.
Example bishop_pattern_count :
  fold_left (fun acc s => acc + N.of_nat (length (subsets (bMaskSquares s)))) allSquares 0 = 5248.
Proof. vm_compute. reflexivity. Qed.
