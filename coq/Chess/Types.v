(** Shared chess types for all chess-related models (interface fixed by the coordinator).
    Squares: N in 0..63, a1 = 0, b1 = 1, ..., h8 = 63 (x = sq mod 8 file, y = sq / 8 rank),
    exactly lib/texellib/square.hpp.  Pieces: Piece::Type numbering of piece.hpp. *)
From Coq Require Import ZArith NArith List Bool.
Import ListNotations.

Definition square := N.
Definition piece := N.

Definition EMPTY : piece := 0%N.
Definition WKING : piece := 1%N.
Definition WQUEEN : piece := 2%N.
Definition WROOK : piece := 3%N.
Definition WBISHOP : piece := 4%N.
Definition WKNIGHT : piece := 5%N.
Definition WPAWN : piece := 6%N.
Definition BKING : piece := 7%N.
Definition BQUEEN : piece := 8%N.
Definition BROOK : piece := 9%N.
Definition BBISHOP : piece := 10%N.
Definition BKNIGHT : piece := 11%N.
Definition BPAWN : piece := 12%N.
Definition nPieceTypes : N := 13%N.

Definition isWhite (p : piece) : bool := (p <? BKING)%N.        (* Piece::isWhite; unspecified for EMPTY *)
Definition sqX (s : square) : N := (s mod 8)%N.
Definition sqY (s : square) : N := (s / 8)%N.
Definition mkSq (x y : N) : square := (y * 8 + x)%N.

(** Move (move.hpp) without the score field *)
Record move := mkMove { mfrom : square; mto : square; mpromote : piece }.

(** UndoInfo (undoInfo.hpp); epSquare -1 = no en-passant square *)
Record undoInfo := mkUndo { u_captured : piece; u_castleMask : N; u_epSquare : Z; u_halfMoveClock : Z }.

(** PositionBase (position.hpp), every field.  [squares] has 64 entries, [pieceTypeBB] 13.
    Bitboards and hash keys are 64-bit words as N.  Castle mask bits: A1=0, H1=1, A8=2, H8=3.
    epSquare = -1 when there is none.  matId is the MatId hash as the C++ int (Z). *)
Record position := mkPos {
  squares : list piece;
  pieceTypeBB : list N;
  whiteBB : N;
  blackBB : N;
  whiteMove : bool;
  halfMoveClock : Z;
  fullMoveCounter : Z;
  castleMask : N;
  epSquare : Z;
  hashKey : N;
  pHashKey : N;
  matId : Z;
  wMtrl : Z;
  bMtrl : Z;
  wMtrlPawns : Z;
  bMtrlPawns : Z
}.

Definition getPiece (p : position) (s : square) : piece := nth (N.to_nat s) (squares p) EMPTY.
Definition ptBB (p : position) (pc : piece) : N := nth (N.to_nat pc) (pieceTypeBB p) 0%N.
Definition occupiedBB (p : position) : N := N.lor (whiteBB p) (blackBB p).
Definition colorBB (p : position) (white : bool) : N := if white then whiteBB p else blackBB p.
Definition bbMem (bb : N) (s : square) : bool := N.testbit bb s.
