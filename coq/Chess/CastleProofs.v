(** A Spec-level fact: when castling is otherwise possible (king and rook on their squares, the
    squares between them empty), the king's target square is attacked in the position before
    the move iff the king is attacked on it after the move (king and rook moved).  This is what
    lets the engine leave the target-square test to its legality filter. *)
From Coq Require Import ZArith NArith List Bool Lia.
From Texel Require Import Chess.Types Chess.Position Chess.PositionFacts Chess.Spec.
Import ListNotations.
Local Open Scope N_scope.

Ltac nth_simpl :=
  repeat first [ rewrite nth_updL_neq by (intro; discriminate)
               | rewrite nth_updL_eq by (rewrite ?length_updL; unfold board, piece in *; lia) ].

Lemma castle_attack_kingside : forall (b : board) (A : bool) (r : Z) (K R : piece),
  length b = 64%nat -> (r = 0 \/ r = 7)%Z ->
  at_ b 4 r = K -> at_ b 5 r = EMPTY -> at_ b 6 r = EMPTY -> at_ b 7 r = R ->
  has_color A K = false -> has_color A R = false -> (K =? EMPTY) = false -> (R =? EMPTY) = false ->
  attacked_by (updN (sq_of 5 r) R (updN (sq_of 7 r) EMPTY (updN (sq_of 6 r) K (updN (sq_of 4 r) EMPTY b)))) A 6 r
  = attacked_by b A 6 r.
Proof.
  intros b A r K R Hl Hr H4 H5 H6 H7 HcK HcR HnK HnR.
  assert (HK : forall k, is_piece A k K = false) by (intro k; unfold is_piece; apply N.eqb_neq; intro E; rewrite E in HcK; destruct A, k; discriminate).
  assert (HR : forall k, is_piece A k R = false) by (intro k; unfold is_piece; apply N.eqb_neq; intro E; rewrite E in HcR; destruct A, k; discriminate).
  assert (HE : forall k, is_piece A k EMPTY = false) by (intro k; destruct A, k; reflexivity).
  destruct Hr as [-> | ->]; destruct A.
  all: cbv -[nth updL is_piece N.eqb EMPTY] in H4, H5, H6, H7 |- *;
    nth_simpl; rewrite ?H4, ?H5, ?H6, ?H7, ?HnK, ?HnR, ?HK, ?HR, ?HE, ?N.eqb_refl; cbv beta iota; reflexivity.
Qed.

Lemma castle_attack_queenside : forall (b : board) (A : bool) (r : Z) (K R : piece),
  length b = 64%nat -> (r = 0 \/ r = 7)%Z ->
  at_ b 4 r = K -> at_ b 3 r = EMPTY -> at_ b 2 r = EMPTY -> at_ b 1 r = EMPTY -> at_ b 0 r = R ->
  has_color A K = false -> has_color A R = false -> (K =? EMPTY) = false -> (R =? EMPTY) = false ->
  attacked_by (updN (sq_of 3 r) R (updN (sq_of 0 r) EMPTY (updN (sq_of 2 r) K (updN (sq_of 4 r) EMPTY b)))) A 2 r
  = attacked_by b A 2 r.
Proof.
  intros b A r K R Hl Hr H4 H3 H2 H1 H0 HcK HcR HnK HnR.
  assert (HK : forall k, is_piece A k K = false) by (intro k; unfold is_piece; apply N.eqb_neq; intro E; rewrite E in HcK; destruct A, k; discriminate).
  assert (HR : forall k, is_piece A k R = false) by (intro k; unfold is_piece; apply N.eqb_neq; intro E; rewrite E in HcR; destruct A, k; discriminate).
  assert (HE : forall k, is_piece A k EMPTY = false) by (intro k; destruct A, k; reflexivity).
  destruct Hr as [-> | ->]; destruct A.
  all: cbv -[nth updL is_piece N.eqb EMPTY] in H4, H3, H2, H1, H0 |- *;
    nth_simpl; rewrite ?H4, ?H3, ?H2, ?H1, ?H0, ?HnK, ?HnR, ?HK, ?HR, ?HE, ?N.eqb_refl; cbv beta iota; reflexivity.
Qed.
