(** C02 proofs, part 4: unMakeMove (makeMove p m) = p, and the invariant over histories. *)
From Coq Require Import ZArith NArith List Bool Lia Btauto.
From Texel Require Import Chess.Types Chess.Position Chess.PositionSpec Chess.PositionFacts
  Chess.PositionProofs Chess.PositionProofs2 Chess.PositionProofs3.
Import ListNotations.
Local Open Scope N_scope.

(** what [moveOk] says, as propositions *)
Lemma moveOk_facts p m : moveOk p m = true ->
  let f := mfrom m in let t := mto m in
  let pc := getPiece p f in let cap := getPiece p t in let wtm := whiteMove p in
  let pawn := if wtm then WPAWN else BPAWN in
  let king := if wtm then WKING else BKING in
  let rook := if wtm then WROOK else BROOK in
  f < 64 /\ t < 64 /\ f <> t /\ ownPiece wtm pc = true /\ ownPiece wtm cap = false /\
  (mpromote m <> EMPTY -> pc = pawn /\ ownPiece wtm (mpromote m) = true) /\
  (pc = pawn -> Z.of_N t = epSquare p ->
     cap = EMPTY /\ mpromote m = EMPTY /\
     (if wtm then 8 <= t /\ getPiece p (t - 8) = BPAWN /\ t <> f + 16
      else t + 8 < 64 /\ getPiece p (t + 8) = WPAWN /\ t + 16 <> f)) /\
  (pc = king -> t = f + 2 -> cap = EMPTY /\ f + 3 < 64 /\ getPiece p (f + 1) = EMPTY /\ getPiece p (f + 3) = rook) /\
  (pc = king -> 2 <= f -> t = f - 2 -> cap = EMPTY /\ 4 <= f /\ getPiece p (f - 1) = EMPTY /\ getPiece p (f - 4) = rook).
Proof.
  unfold moveOk. cbv zeta. intro H.
  apply andb_prop in H as [H Hcas]. apply andb_prop in H as [H Hep]. apply andb_prop in H as [H Hpro].
  apply andb_prop in H as [H Hcapn]. apply andb_prop in H as [H Hown]. apply andb_prop in H as [H Hne].
  apply andb_prop in H as [Hf Ht].
  apply N.ltb_lt in Hf. apply N.ltb_lt in Ht. apply negb_true_iff in Hne. apply N.eqb_neq in Hne.
  apply negb_true_iff in Hcapn.
  split; [auto|]. split; [auto|]. split; [auto|]. split; [auto|]. split; [auto|].
  split; [|split; [|split]].
  - intro Hp. destruct (N.eqb_spec (mpromote m) EMPTY); [contradiction|].
    apply andb_prop in Hpro as [Hpro _]. apply andb_prop in Hpro as [Hpro _]. apply andb_prop in Hpro as [Hp1 Hp2].
    apply N.eqb_eq in Hp1. split; auto.
  - intros Hpc Hte. rewrite Hpc, Hte, N.eqb_refl, Z.eqb_refl in Hep. cbn [andb] in Hep.
    apply andb_prop in Hep as [Hep He3]. apply andb_prop in Hep as [He1 He2].
    apply N.eqb_eq in He1. apply N.eqb_eq in He2. split; [auto|]. split; [auto|].
    destruct (whiteMove p).
    + apply andb_prop in He3 as [He3 He6]. apply andb_prop in He3 as [He4 He5].
      apply N.leb_le in He4. apply N.eqb_eq in He5. apply negb_true_iff in He6. apply N.eqb_neq in He6. auto.
    + apply andb_prop in He3 as [He3 He6]. apply andb_prop in He3 as [He4 He5].
      apply N.ltb_lt in He4. apply N.eqb_eq in He5. apply negb_true_iff in He6. apply N.eqb_neq in He6. auto.
  - intros Hpc Hte. rewrite Hpc, N.eqb_refl in Hcas. apply andb_prop in Hcas as [Hc _].
    rewrite Hte, N.eqb_refl in Hc.
    apply andb_prop in Hc as [Hc Hc4]. apply andb_prop in Hc as [Hc Hc3]. apply andb_prop in Hc as [Hc1 Hc2].
    apply N.eqb_eq in Hc1. apply N.ltb_lt in Hc2. apply N.eqb_eq in Hc3. apply N.eqb_eq in Hc4.
    rewrite Hte. repeat split; auto.
  - intros Hpc Hf2 Hte. rewrite Hpc, N.eqb_refl in Hcas. apply andb_prop in Hcas as [_ Hc].
    rewrite Hte, N.eqb_refl in Hc. replace (2 <=? mfrom m) with true in Hc by (symmetry; apply N.leb_le; auto).
    cbn [andb] in Hc.
    apply andb_prop in Hc as [Hc Hc4]. apply andb_prop in Hc as [Hc Hc3]. apply andb_prop in Hc as [Hc1 Hc2].
    apply N.eqb_eq in Hc1. apply N.leb_le in Hc2. apply N.eqb_eq in Hc3. apply N.eqb_eq in Hc4.
    rewrite Hte. repeat split; auto.
Qed.

(** pure board algebra: the board after make followed by unmake, for each kind of move *)
Ltac sq_cases s l :=
  match l with
  | nil => idtac
  | cons ?a ?r => destruct (N.eq_dec s a) as [->|?]; [nth_eval; auto | sq_cases s r]
  end.

Lemma nthP_top sqs s x : length sqs = 64%nat -> s < 64 -> nthP (updN s x sqs) s = x.
Proof. intros H1 H2. apply nthP_updN_eq. lia. Qed.

Lemma board_plain sqs f t pc cap x y :
  length sqs = 64%nat -> f < 64 -> t < 64 -> nthP sqs f = pc -> nthP sqs t = cap ->
  updN f pc (updN t cap (updN t x (updN f y sqs))) = sqs.
Proof.
  intros Hl Hf Ht H1 H2. apply list_ext_N; [rewrite !length_updN; auto | auto |]. intros s Hs.
  destruct (N.eq_dec s f) as [->|?]; [nth_eval; auto|].
  destruct (N.eq_dec s t) as [->|?]; [nth_eval; auto|]. nth_eval. reflexivity.
Qed.

Lemma board_ep sqs f t e pc cap pe x y z :
  length sqs = 64%nat -> f < 64 -> t < 64 -> e < 64 -> e <> f -> e <> t ->
  nthP sqs f = pc -> nthP sqs t = cap -> nthP sqs e = pe ->
  updN e pe (updN f pc (updN t cap (updN t x (updN f y (updN e z sqs))))) = sqs.
Proof.
  intros Hl Hf Ht He N1 N2 H1 H2 H3. apply list_ext_N; [rewrite !length_updN; auto | auto |]. intros s Hs.
  destruct (N.eq_dec s e) as [->|?]; [nth_eval; auto|].
  destruct (N.eq_dec s f) as [->|?]; [nth_eval; auto|].
  destruct (N.eq_dec s t) as [->|?]; [nth_eval; auto|]. nth_eval. reflexivity.
Qed.

Lemma board_castle sqs f t r1 r3 kg rk :
  length sqs = 64%nat -> f < 64 -> t < 64 -> r1 < 64 -> r3 < 64 ->
  f <> t -> f <> r1 -> f <> r3 -> t <> r1 -> t <> r3 -> r1 <> r3 ->
  nthP sqs f = kg -> nthP sqs t = EMPTY -> nthP sqs r1 = EMPTY -> nthP sqs r3 = rk ->
  updN r3 rk (updN r1 EMPTY (updN f kg (updN t EMPTY (updN t kg (updN f EMPTY (updN r1 rk (updN r3 EMPTY sqs))))))) = sqs.
Proof.
  intros Hl Hf Ht Hr1 Hr3 N1 N2 N3 N4 N5 N6 H1 H2 H3 H4.
  apply list_ext_N; [rewrite !length_updN; auto | auto |]. intros s Hs.
  destruct (N.eq_dec s r3) as [->|?]; [nth_eval; auto|].
  destruct (N.eq_dec s r1) as [->|?]; [nth_eval; auto|].
  destruct (N.eq_dec s f) as [->|?]; [nth_eval; auto|].
  destruct (N.eq_dec s t) as [->|?]; [nth_eval; auto|]. nth_eval. reflexivity.
Qed.

Lemma castle_eval1 sqs f t r1 r3 kg rk :
  length sqs = 64%nat -> f < 64 -> t < 64 -> r1 < 64 -> r3 < 64 ->
  f <> t -> f <> r1 -> f <> r3 -> t <> r1 -> t <> r3 -> r1 <> r3 ->
  nthP (updN f kg (updN t EMPTY (updN t kg (updN f EMPTY (updN r1 rk (updN r3 EMPTY sqs)))))) r1 = rk.
Proof. intros. nth_eval. reflexivity. Qed.
Lemma castle_eval3 sqs f t r1 r3 kg rk :
  length sqs = 64%nat -> f < 64 -> t < 64 -> r1 < 64 -> r3 < 64 ->
  f <> t -> f <> r1 -> f <> r3 -> t <> r1 -> t <> r3 -> r1 <> r3 ->
  nthP (updN f kg (updN t EMPTY (updN t kg (updN f EMPTY (updN r1 rk (updN r3 EMPTY sqs)))))) r3 = EMPTY.
Proof. intros. nth_eval. reflexivity. Qed.

Lemma notPawn_facts pc : isPawnPiece pc = false -> pc <> WPAWN /\ pc <> BPAWN.
Proof.
  unfold isPawnPiece. intro H. apply orb_false_elim in H as [H1 H2].
  apply N.eqb_neq in H1. apply N.eqb_neq in H2. auto.
Qed.

Lemma len_upd1 (sqs : list piece) a x : length sqs = 64%nat -> length (updN a x sqs) = 64%nat.
Proof. intro; rewrite length_updN; auto. Qed.
#[local] Hint Resolve len_upd1 : len.

Section Main.
Variable zk : zkeys.
Hypothesis EKZ : emptyKeysZero zk.

Lemma makeMove_fst p m :
  fst (makeMove zk p m) =
  mmEpilogue zk
    (if negb (getPiece p (mto m) =? EMPTY) ||
        pawnsAt (setEpSquare zk (set_hashKey p (N.lxor (hashKey p) (zk_white zk))) (-1)) (sqMask (mfrom m))
     then mmCaptureBranch zk (setEpSquare zk (set_hashKey p (N.lxor (hashKey p) (zk_white zk))) (-1)) m
                          (getPiece p (mfrom m)) (epSquare p)
     else mmQuietBranch zk (setEpSquare zk (set_hashKey p (N.lxor (hashKey p) (zk_white zk))) (-1)) m
                        (sqMask (mfrom m)))
    m (whiteMove p).
Proof. reflexivity. Qed.

Lemma unMakeMove_unfold q m ui :
  unMakeMove zk q m ui =
  umEpBlock zk (umCastleBlock zk (fst (umRestoreBlock zk q m ui)) m (snd (umRestoreBlock zk q m ui))) m
            (snd (umRestoreBlock zk q m ui)).
Proof. unfold unMakeMove. destruct (umRestoreBlock zk q m ui). reflexivity. Qed.

Lemma St_finish sqs sc r p : St zk 0 sqs sc r -> sqs = squares p -> sc = scalars p -> St zk 0 (squares p) (scalars p) r.
Proof. intros S <- <-. exact S. Qed.

Lemma isWhitePiece_range pc : isWhitePiece pc = true -> 1 <= pc <= 6.
Proof. unfold isWhitePiece. intro H. apply andb_prop in H as [H1 H2]. apply N.leb_le in H1. apply N.leb_le in H2. lia. Qed.
Lemma isBlackPiece_range pc : isBlackPiece pc = true -> 7 <= pc <= 12.
Proof. unfold isBlackPiece. intro H. apply andb_prop in H as [H1 H2]. apply N.leb_le in H1. apply N.leb_le in H2. lia. Qed.

Lemma make_unmake_St_white p m :
  ConsistentX zk 0 p -> moveOk p m = true -> whiteMove p = true ->
  exists sqs' h' cm' ep',
    St zk 0 sqs' (false, h', fullMoveCounter p, cm', ep') (fst (makeMove zk p m)) /\
    forall q h2 cm2 ep2, St zk 0 sqs' (false, h2, fullMoveCounter p, cm2, ep2) q ->
      St zk 0 (squares p) (scalars p) (unMakeMove zk q m (snd (makeMove zk p m))).
Proof.
  intros C Hok Ewm.
  pose proof (moveOk_facts p m Hok) as F. cbv zeta in F. rewrite Ewm in F.
  destruct F as (Hf & Ht & Hne & Hown & Hcapn & Hpro & Hep & HcK & HcQ).
  rewrite makeMove_fst.
  change (snd (makeMove zk p m)) with (mkUndo (getPiece p (mto m)) (castleMask p) (epSquare p) (halfMoveClock p)).
  assert (S0 : St zk 0 (squares p) (true, halfMoveClock p, fullMoveCounter p, castleMask p, epSquare p) p).
  { split; [auto | split; [reflexivity|]]. unfold scalars. rewrite Ewm. reflexivity. }
  assert (Esc : scalars p = (true, halfMoveClock p, fullMoveCounter p, castleMask p, epSquare p)).
  { unfold scalars. rewrite Ewm. reflexivity. }
  assert (Hlen : length (squares p) = 64%nat) by (destruct C; auto).
  pose proof (make_prologue zk _ _ _ _ _ _ _ S0) as S2.
  rewrite Ewm.
  rewrite (pawnsAt_spec zk (zk_white zk)) by (apply S2 || auto).
  rewrite (St_getPiece zk _ _ _ _ (mfrom m) S2).
  unfold getPiece in *. fold (nthP (squares p) (mfrom m)) in *. fold (nthP (squares p) (mto m)) in *.
  set (sqs := squares p) in *. set (f := mfrom m) in *. set (t := mto m) in *.
  set (pc := nthP sqs f) in *. set (cap := nthP sqs t) in *.
  cbn [ownPiece] in *.
  assert (Hpcr := isWhitePiece_range _ Hown).
  assert (Hcaplt : cap < 13) by (eapply St_pieces; eauto).
  destruct (negb (cap =? EMPTY) || isPawnPiece pc) eqn:Ebr.
  - (* capture or pawn move *)
    assert (Hnk : pc = WKING -> (Z.of_N t <> sqPlus f 2 /\ Z.of_N t <> sqPlus f (-2))%Z).
    { intro Ek. assert (Hc : cap <> EMPTY).
      { intro E0. rewrite E0, Ek in Ebr. discriminate. }
      unfold sqPlus. split; intro E.
      - apply Hc. apply (HcK Ek). lia.
      - apply Hc. apply (HcQ Ek); lia. }
    destruct (N.eqb_spec pc WPAWN) as [Ep|Ep]; [destruct (Z.eqb_spec (Z.of_N t) (epSquare p)) as [Ee|Ee]|].
    + (* en passant capture *)
      destruct (Hep Ep Ee) as (Hc0 & Hpr0 & H8 & Hbp & H16).
      fold (nthP sqs (t - 8)) in Hbp.
      assert (E16 : (Z.of_N t <> sqPlus f 16)%Z) by (unfold sqPlus; lia).
      pose proof (capture_epW zk EKZ m _ _ _ _ _ _ _ _ (epSquare p) S2 Hf Ht Hpr0 E16 Ee H8) as Sc.
      rewrite Ep. fold f t in Sc.
      destruct (make_epilogue zk _ _ _ _ _ _ _ m Sc) as (cm' & Sm).
      eexists _, _, _, _. split; [exact Sm|].
      intros q h2 cm2 ep2 Sq.
      rewrite unMakeMove_unfold.
      destruct (um_restore zk m _ _ _ _ _ _ q (mkUndo cap (castleMask p) (epSquare p) (halfMoveClock p)) Sq Hf Ht Hcaplt)
        as (Hsnd & Sr).
      fold f t in Hsnd, Sr. cbn [u_captured u_castleMask u_epSquare u_halfMoveClock negb] in Hsnd, Sr.
      rewrite Hpr0 in Hsnd, Sr. change (negb (EMPTY =? EMPTY)) with false in Hsnd, Sr. cbv iota in Hsnd, Sr.
      assert (Ept : nthP (updN t WPAWN (updN f EMPTY (updN (t - 8) EMPTY sqs))) t = WPAWN)
        by (apply nthP_top; auto with len).
      rewrite Ept in Hsnd, Sr. rewrite Hsnd.
      destruct (St_scalars zk _ _ _ _ _ _ _ _ Sr) as (Hwr & _).
      rewrite um_castle_none by (left; rewrite Hwr; reflexivity).
      pose proof (um_epW zk m _ _ _ _ _ _ _ Sr Ee H8 Ht) as Se. fold t in Se.
      apply (St_finish _ _ _ _ Se); [|symmetry; exact Esc].
      rewrite <- Hc0. apply board_ep; auto; try (clear - H8 Ht; lia).
      intro E. clear - E Ep Hbp. rewrite E in Hbp. fold pc in Hbp. rewrite Ep in Hbp. discriminate.
    + (* pawn move that is not an e.p. capture *)
      set (newpc := if negb (mpromote m =? EMPTY) then mpromote m else pc).
      assert (Hnew : newpc < 13).
      { unfold newpc. destruct (N.eqb_spec (mpromote m) EMPTY) as [|n]; cbn [negb]; [clear - Hpcr; lia|].
        destruct (Hpro n) as (_ & Hw). apply isWhitePiece_range in Hw. clear - Hw. lia. }
      assert (HB : pc = BPAWN -> (Z.of_N t <> sqPlus f (-16))%Z -> Z.of_N t <> epSquare p).
      { intro E. exfalso. clear - E Hpcr. unfold BPAWN in E. lia. }
      destruct (capture_plain zk EKZ m _ _ _ _ _ _ _ _ pc (epSquare p) newpc S2 Hf Ht eq_refl Hnew (fun _ _ => Ee) HB)
        as (ep' & Sc).
      fold f t in Sc.
      destruct (make_epilogue zk _ _ _ _ _ _ _ m Sc) as (cm' & Sm).
      eexists _, _, _, _. split; [exact Sm|].
      intros q h2 cm2 ep2 Sq.
      rewrite unMakeMove_unfold.
      destruct (um_restore zk m _ _ _ _ _ _ q (mkUndo cap (castleMask p) (epSquare p) (halfMoveClock p)) Sq Hf Ht Hcaplt)
        as (Hsnd & Sr).
      fold f t in Hsnd, Sr. cbn [u_captured u_castleMask u_epSquare u_halfMoveClock negb] in Hsnd, Sr.
      assert (Epc1 : (if negb (mpromote m =? EMPTY) then WPAWN else nthP (updN t newpc (updN f EMPTY sqs)) t) = pc).
      { rewrite nthP_top by auto with len. unfold newpc.
        destruct (N.eqb_spec (mpromote m) EMPTY) as [|n]; cbn [negb]; auto. }
      rewrite Epc1 in Hsnd, Sr. rewrite Hsnd.
      destruct (St_scalars zk _ _ _ _ _ _ _ _ Sr) as (Hwr & _ & _ & _ & Hepr).
      rewrite um_castle_none by (left; rewrite Hwr, Ep; reflexivity).
      rewrite um_ep_none by (left; rewrite Hepr; exact Ee).
      apply (St_finish _ _ _ _ Sr); [|symmetry; exact Esc].
      apply board_plain; auto.
    + (* capture by a piece *)
      assert (Hmp : mpromote m = EMPTY).
      { destruct (N.eqb_spec (mpromote m) EMPTY) as [|n]; auto. destruct (Hpro n) as (E & _). contradiction. }
      assert (HW : pc = WPAWN -> (Z.of_N t <> sqPlus f 16)%Z -> Z.of_N t <> epSquare p) by (intro; contradiction).
      assert (HB : pc = BPAWN -> (Z.of_N t <> sqPlus f (-16))%Z -> Z.of_N t <> epSquare p).
      { intro E. exfalso. clear - E Hpcr. unfold BPAWN in E. lia. }
      assert (Hnew : pc < 13) by (clear - Hpcr; lia).
      assert (Enew : pc = (if negb (mpromote m =? EMPTY) then mpromote m else pc)) by (rewrite Hmp; reflexivity).
      destruct (capture_plain zk EKZ m _ _ _ _ _ _ _ _ pc (epSquare p) pc S2 Hf Ht Enew Hnew HW HB) as (ep' & Sc).
      fold f t in Sc.
      destruct (make_epilogue zk _ _ _ _ _ _ _ m Sc) as (cm' & Sm).
      eexists _, _, _, _. split; [exact Sm|].
      intros q h2 cm2 ep2 Sq.
      rewrite unMakeMove_unfold.
      destruct (um_restore zk m _ _ _ _ _ _ q (mkUndo cap (castleMask p) (epSquare p) (halfMoveClock p)) Sq Hf Ht Hcaplt)
        as (Hsnd & Sr).
      fold f t in Hsnd, Sr. cbn [u_captured u_castleMask u_epSquare u_halfMoveClock negb] in Hsnd, Sr.
      rewrite Hmp in Hsnd, Sr. change (negb (EMPTY =? EMPTY)) with false in Hsnd, Sr. cbv iota in Hsnd, Sr.
      rewrite nthP_top in Hsnd, Sr by auto with len. rewrite Hsnd.
      destruct (St_scalars zk _ _ _ _ _ _ _ _ Sr) as (Hwr & _ & _ & _ & Hepr).
      rewrite um_castle_none.
      2:{ rewrite Hwr. cbn [negb]. destruct (N.eqb_spec pc WKING) as [Ek|Ek]; [right; exact (Hnk Ek) | left; reflexivity]. }
      rewrite um_ep_none.
      2:{ right. split; [exact Ep|]. intro E. clear - E Hpcr. unfold BPAWN in E. lia. }
      apply (St_finish _ _ _ _ Sr); [|symmetry; exact Esc].
      apply board_plain; auto.
  - (* quiet move *)
    apply orb_false_elim in Ebr as [Ec Enp]. apply negb_false_iff in Ec. apply N.eqb_eq in Ec.
    assert (Hmp : mpromote m = EMPTY).
    { destruct (N.eqb_spec (mpromote m) EMPTY) as [|n]; auto. destruct (Hpro n) as (E & _).
      rewrite E in Enp. discriminate. }
    destruct (notPawn_facts _ Enp) as (Hnw & Hnb).
    assert (Hr12 : 1 <= pc <= 12) by (clear - Hpcr; lia).
    assert (Hum : forall inner q h2 cm2 ep2,
               St zk 0 (updN t pc inner) (false, h2, fullMoveCounter p, cm2, ep2) q -> length inner = 64%nat ->
               snd (umRestoreBlock zk q m (mkUndo cap (castleMask p) (epSquare p) (halfMoveClock p))) = pc /\
               St zk 0 (updN f pc (updN t EMPTY (updN t pc inner)))
                  (true, halfMoveClock p, fullMoveCounter p, castleMask p, epSquare p)
                  (fst (umRestoreBlock zk q m (mkUndo cap (castleMask p) (epSquare p) (halfMoveClock p))))).
    { intros inner q h2 cm2 ep2 Sq Hl.
      destruct (um_restore zk m _ _ _ _ _ _ q (mkUndo cap (castleMask p) (epSquare p) (halfMoveClock p)) Sq Hf Ht Hcaplt)
        as (Hsnd & Sr).
      fold f t in Hsnd, Sr. cbn [u_captured u_castleMask u_epSquare u_halfMoveClock negb] in Hsnd, Sr.
      rewrite Hmp in Hsnd, Sr. change (negb (EMPTY =? EMPTY)) with false in Hsnd, Sr. cbv iota in Hsnd, Sr.
      rewrite nthP_top in Hsnd, Sr by auto. replace (updN t cap (updN t pc inner)) with (updN t EMPTY (updN t pc inner)) in Sr by (rewrite Ec; reflexivity).
      split; assumption. }
    destruct (N.eqb_spec pc WKING) as [Ek|Ek].
    + destruct (N.eq_dec t (f + 2)) as [Et|Et]; [|destruct (N.le_gt_cases 2 f) as [H2f|H2f]; [destruct (N.eq_dec t (f - 2)) as [Et2|Et2]|]].
      * (* O-O *)
        destruct (HcK Ek Et) as (_ & Hf3 & Hr1 & Hr3).
        fold (nthP sqs (f + 1)) in Hr1. fold (nthP sqs (f + 3)) in Hr3.
        assert (Hik : isKingPiece pc = true) by (rewrite Ek; reflexivity).
        assert (Hrk : 1 <= WROOK <= 12) by (unfold WROOK; lia).
        pose proof (quiet_castleK zk EKZ m _ _ _ _ _ _ _ _ pc WROOK S2 Hf3 Et eq_refl Hik Ec Hr1 Hr3 Hrk eq_refl) as Sc.
        fold f t in Sc.
        destruct (make_epilogue zk _ _ _ _ _ _ _ m Sc) as (cm' & Sm).
        eexists _, _, _, _. split; [exact Sm|].
        intros q h2 cm2 ep2 Sq.
        rewrite unMakeMove_unfold.
        edestruct Hum as (Hsnd & Sr); [exact Sq | auto with len |].
        rewrite Hsnd.
        assert (D1 : f <> f + 1) by (clear; lia). assert (D2 : f <> f + 3) by (clear; lia).
        assert (D3 : t <> f + 1) by (clear - Et; lia). assert (D4 : t <> f + 3) by (clear - Et; lia).
        assert (D5 : f + 1 <> f + 3) by (clear; lia). assert (D6 : f + 1 < 64) by (clear - Hf3; lia).
        pose proof (um_castleK zk EKZ m _ _ _ _ _ _ _ pc WROOK Sr Ek Et Hf3
                      (castle_eval1 sqs f t (f + 1) (f + 3) pc WROOK Hlen Hf Ht D6 Hf3 Hne D1 D2 D3 D4 D5)
                      Hrk eq_refl
                      (castle_eval3 sqs f t (f + 1) (f + 3) pc WROOK Hlen Hf Ht D6 Hf3 Hne D1 D2 D3 D4 D5)) as Su.
        fold f t in Su.
        rewrite um_ep_none by (right; split; assumption).
        apply (St_finish _ _ _ _ Su); [|symmetry; exact Esc].
        apply board_castle; auto.
      * (* O-O-O *)
        destruct (HcQ Ek H2f Et2) as (_ & Hf4 & Hr1 & Hr3).
        fold (nthP sqs (f - 1)) in Hr1. fold (nthP sqs (f - 4)) in Hr3.
        assert (Hik : isKingPiece pc = true) by (rewrite Ek; reflexivity).
        assert (Hrk : 1 <= WROOK <= 12) by (unfold WROOK; lia).
        pose proof (quiet_castleQ zk EKZ m _ _ _ _ _ _ _ _ pc WROOK S2 Hf4 Hf Et2 eq_refl Hik Ec Hr1 Hr3 Hrk eq_refl) as Sc.
        fold f t in Sc.
        destruct (make_epilogue zk _ _ _ _ _ _ _ m Sc) as (cm' & Sm).
        eexists _, _, _, _. split; [exact Sm|].
        intros q h2 cm2 ep2 Sq.
        rewrite unMakeMove_unfold.
        edestruct Hum as (Hsnd & Sr); [exact Sq | auto with len |].
        rewrite Hsnd.
        assert (D1 : f <> f - 1) by (clear - Hf4; lia). assert (D2 : f <> f - 4) by (clear - Hf4; lia).
        assert (D3 : t <> f - 1) by (clear - Et2 Hf4; lia). assert (D4 : t <> f - 4) by (clear - Et2 Hf4; lia).
        assert (D5 : f - 1 <> f - 4) by (clear - Hf4; lia). assert (D6 : f - 1 < 64) by (clear - Hf; lia).
        assert (D7 : f - 4 < 64) by (clear - Hf; lia).
        pose proof (um_castleQ zk EKZ m _ _ _ _ _ _ _ pc WROOK Sr Ek Et2 Hf4 Hf
                      (castle_eval1 sqs f t (f - 1) (f - 4) pc WROOK Hlen Hf Ht D6 D7 Hne D1 D2 D3 D4 D5)
                      Hrk eq_refl
                      (castle_eval3 sqs f t (f - 1) (f - 4) pc WROOK Hlen Hf Ht D6 D7 Hne D1 D2 D3 D4 D5)) as Su.
        fold f t in Su.
        rewrite um_ep_none by (right; split; assumption).
        apply (St_finish _ _ _ _ Su); [|symmetry; exact Esc].
        apply board_castle; auto.
      * (* king move, not castling *)
        assert (Hk : (Z.of_N t <> sqPlus f 2 /\ Z.of_N t <> sqPlus f (-2))%Z).
        { unfold sqPlus. clear - Et Et2 H2f. split; lia. }
        pose proof (quiet_plain zk EKZ m _ _ _ _ _ _ _ _ pc S2 Hf Ht Hne eq_refl Hr12 Enp Ec (or_intror Hk)) as Sc.
        fold f t in Sc.
        destruct (make_epilogue zk _ _ _ _ _ _ _ m Sc) as (cm' & Sm).
        eexists _, _, _, _. split; [exact Sm|].
        intros q h2 cm2 ep2 Sq.
        rewrite unMakeMove_unfold.
        edestruct Hum as (Hsnd & Sr); [exact Sq | auto with len |].
        rewrite Hsnd.
        rewrite um_castle_none by (right; exact Hk).
        rewrite um_ep_none by (right; split; assumption).
        apply (St_finish _ _ _ _ Sr); [|symmetry; exact Esc].
        rewrite <- Ec. apply board_plain; auto.
      * assert (Hk : (Z.of_N t <> sqPlus f 2 /\ Z.of_N t <> sqPlus f (-2))%Z).
        { unfold sqPlus. clear - Et H2f. split; lia. }
        pose proof (quiet_plain zk EKZ m _ _ _ _ _ _ _ _ pc S2 Hf Ht Hne eq_refl Hr12 Enp Ec (or_intror Hk)) as Sc.
        fold f t in Sc.
        destruct (make_epilogue zk _ _ _ _ _ _ _ m Sc) as (cm' & Sm).
        eexists _, _, _, _. split; [exact Sm|].
        intros q h2 cm2 ep2 Sq.
        rewrite unMakeMove_unfold.
        edestruct Hum as (Hsnd & Sr); [exact Sq | auto with len |].
        rewrite Hsnd.
        rewrite um_castle_none by (right; exact Hk).
        rewrite um_ep_none by (right; split; assumption).
        apply (St_finish _ _ _ _ Sr); [|symmetry; exact Esc].
        rewrite <- Ec. apply board_plain; auto.
    + (* not a king *)
      assert (Hik : isKingPiece pc = false).
      { unfold isKingPiece. apply orb_false_intro; apply N.eqb_neq; [exact Ek|]. clear - Hpcr. unfold BKING. lia. }
      pose proof (quiet_plain zk EKZ m _ _ _ _ _ _ _ _ pc S2 Hf Ht Hne eq_refl Hr12 Enp Ec (or_introl Hik)) as Sc.
      fold f t in Sc.
      destruct (make_epilogue zk _ _ _ _ _ _ _ m Sc) as (cm' & Sm).
      eexists _, _, _, _. split; [exact Sm|].
      intros q h2 cm2 ep2 Sq.
      rewrite unMakeMove_unfold.
      edestruct Hum as (Hsnd & Sr); [exact Sq | auto with len |].
      rewrite Hsnd.
      destruct (St_scalars zk _ _ _ _ _ _ _ _ Sr) as (Hwr & _).
      rewrite um_castle_none.
      2:{ left. rewrite Hwr. apply N.eqb_neq. exact Ek. }
      rewrite um_ep_none by (right; split; assumption).
      apply (St_finish _ _ _ _ Sr); [|symmetry; exact Esc].
      rewrite <- Ec. apply board_plain; auto.
Qed.

Lemma make_unmake_St_black p m :
  ConsistentX zk 0 p -> moveOk p m = true -> whiteMove p = false ->
  exists sqs' h' cm' ep',
    St zk 0 sqs' (true, h', (fullMoveCounter p + 1)%Z, cm', ep') (fst (makeMove zk p m)) /\
    forall q h2 cm2 ep2, St zk 0 sqs' (true, h2, (fullMoveCounter p + 1)%Z, cm2, ep2) q ->
      St zk 0 (squares p) (scalars p) (unMakeMove zk q m (snd (makeMove zk p m))).
Proof.
  intros C Hok Ewm.
  pose proof (moveOk_facts p m Hok) as F. cbv zeta in F. rewrite Ewm in F.
  destruct F as (Hf & Ht & Hne & Hown & Hcapn & Hpro & Hep & HcK & HcQ).
  rewrite makeMove_fst.
  change (snd (makeMove zk p m)) with (mkUndo (getPiece p (mto m)) (castleMask p) (epSquare p) (halfMoveClock p)).
  assert (S0 : St zk 0 (squares p) (false, halfMoveClock p, fullMoveCounter p, castleMask p, epSquare p) p).
  { split; [auto | split; [reflexivity|]]. unfold scalars. rewrite Ewm. reflexivity. }
  assert (Esc : scalars p = (false, halfMoveClock p, fullMoveCounter p, castleMask p, epSquare p)).
  { unfold scalars. rewrite Ewm. reflexivity. }
  assert (Hlen : length (squares p) = 64%nat) by (destruct C; auto).
  pose proof (make_prologue zk _ _ _ _ _ _ _ S0) as S2.
  rewrite Ewm.
  rewrite (pawnsAt_spec zk (zk_white zk)) by (apply S2 || auto).
  rewrite (St_getPiece zk _ _ _ _ (mfrom m) S2).
  unfold getPiece in *. fold (nthP (squares p) (mfrom m)) in *. fold (nthP (squares p) (mto m)) in *.
  set (sqs := squares p) in *. set (f := mfrom m) in *. set (t := mto m) in *.
  set (pc := nthP sqs f) in *. set (cap := nthP sqs t) in *.
  cbn [ownPiece] in *.
  assert (Hpcr := isBlackPiece_range _ Hown).
  assert (Hcaplt : cap < 13) by (eapply St_pieces; eauto).
  destruct (negb (cap =? EMPTY) || isPawnPiece pc) eqn:Ebr.
  - (* capture or pawn move *)
    assert (Hnk : pc = BKING -> (Z.of_N t <> sqPlus f 2 /\ Z.of_N t <> sqPlus f (-2))%Z).
    { intro Ek. assert (Hc : cap <> EMPTY).
      { intro E0. rewrite E0, Ek in Ebr. discriminate. }
      unfold sqPlus. split; intro E.
      - apply Hc. apply (HcK Ek). lia.
      - apply Hc. apply (HcQ Ek); lia. }
    destruct (N.eqb_spec pc BPAWN) as [Ep|Ep]; [destruct (Z.eqb_spec (Z.of_N t) (epSquare p)) as [Ee|Ee]|].
    + (* en passant capture *)
      destruct (Hep Ep Ee) as (Hc0 & Hpr0 & H8 & Hbp & H16).
      fold (nthP sqs (t + 8)) in Hbp.
      assert (E16 : (Z.of_N t <> sqPlus f (-16))%Z) by (unfold sqPlus; lia).
      pose proof (capture_epB zk EKZ m _ _ _ _ _ _ _ _ (epSquare p) S2 Hf Ht Hpr0 E16 Ee H8) as Sc.
      rewrite Ep. fold f t in Sc.
      destruct (make_epilogue zk _ _ _ _ _ _ _ m Sc) as (cm' & Sm).
      eexists _, _, _, _. split; [exact Sm|].
      intros q h2 cm2 ep2 Sq.
      rewrite unMakeMove_unfold.
      destruct (um_restore zk m _ _ _ _ _ _ q (mkUndo cap (castleMask p) (epSquare p) (halfMoveClock p)) Sq Hf Ht Hcaplt)
        as (Hsnd & Sr).
      fold f t in Hsnd, Sr. cbn [u_captured u_castleMask u_epSquare u_halfMoveClock negb] in Hsnd, Sr.
      replace (fullMoveCounter p + 1 - 1)%Z with (fullMoveCounter p) in Sr by (clear; lia).
      rewrite Hpr0 in Hsnd, Sr. change (negb (EMPTY =? EMPTY)) with false in Hsnd, Sr. cbv iota in Hsnd, Sr.
      assert (Ept : nthP (updN t BPAWN (updN f EMPTY (updN (t + 8) EMPTY sqs))) t = BPAWN)
        by (apply nthP_top; auto with len).
      rewrite Ept in Hsnd, Sr. rewrite Hsnd.
      destruct (St_scalars zk _ _ _ _ _ _ _ _ Sr) as (Hwr & _).
      rewrite um_castle_none by (left; rewrite Hwr; reflexivity).
      pose proof (um_epB zk m _ _ _ _ _ _ _ Sr Ee H8) as Se. fold t in Se.
      apply (St_finish _ _ _ _ Se); [|symmetry; exact Esc].
      rewrite <- Hc0. apply board_ep; auto; try (clear - H8 Ht; lia).
      intro E. clear - E Ep Hbp. rewrite E in Hbp. fold pc in Hbp. rewrite Ep in Hbp. discriminate.
    + (* pawn move that is not an e.p. capture *)
      set (newpc := if negb (mpromote m =? EMPTY) then mpromote m else pc).
      assert (Hnew : newpc < 13).
      { unfold newpc. destruct (N.eqb_spec (mpromote m) EMPTY) as [|n]; cbn [negb]; [clear - Hpcr; lia|].
        destruct (Hpro n) as (_ & Hw). apply isBlackPiece_range in Hw. clear - Hw. lia. }
      assert (HW : pc = WPAWN -> (Z.of_N t <> sqPlus f 16)%Z -> Z.of_N t <> epSquare p).
      { intro E. exfalso. clear - E Hpcr. unfold WPAWN in E. lia. }
      destruct (capture_plain zk EKZ m _ _ _ _ _ _ _ _ pc (epSquare p) newpc S2 Hf Ht eq_refl Hnew HW (fun _ _ => Ee))
        as (ep' & Sc).
      fold f t in Sc.
      destruct (make_epilogue zk _ _ _ _ _ _ _ m Sc) as (cm' & Sm).
      eexists _, _, _, _. split; [exact Sm|].
      intros q h2 cm2 ep2 Sq.
      rewrite unMakeMove_unfold.
      destruct (um_restore zk m _ _ _ _ _ _ q (mkUndo cap (castleMask p) (epSquare p) (halfMoveClock p)) Sq Hf Ht Hcaplt)
        as (Hsnd & Sr).
      fold f t in Hsnd, Sr. cbn [u_captured u_castleMask u_epSquare u_halfMoveClock negb] in Hsnd, Sr.
      replace (fullMoveCounter p + 1 - 1)%Z with (fullMoveCounter p) in Sr by (clear; lia).
      assert (Epc1 : (if negb (mpromote m =? EMPTY) then BPAWN else nthP (updN t newpc (updN f EMPTY sqs)) t) = pc).
      { rewrite nthP_top by auto with len. unfold newpc.
        destruct (N.eqb_spec (mpromote m) EMPTY) as [|n]; cbn [negb]; auto. }
      rewrite Epc1 in Hsnd, Sr. rewrite Hsnd.
      destruct (St_scalars zk _ _ _ _ _ _ _ _ Sr) as (Hwr & _ & _ & _ & Hepr).
      rewrite um_castle_none by (left; rewrite Hwr, Ep; reflexivity).
      rewrite um_ep_none by (left; rewrite Hepr; exact Ee).
      apply (St_finish _ _ _ _ Sr); [|symmetry; exact Esc].
      apply board_plain; auto.
    + (* capture by a piece *)
      assert (Hmp : mpromote m = EMPTY).
      { destruct (N.eqb_spec (mpromote m) EMPTY) as [|n]; auto. destruct (Hpro n) as (E & _). contradiction. }
      assert (HB : pc = BPAWN -> (Z.of_N t <> sqPlus f (-16))%Z -> Z.of_N t <> epSquare p) by (intro; contradiction).
      assert (HW : pc = WPAWN -> (Z.of_N t <> sqPlus f 16)%Z -> Z.of_N t <> epSquare p).
      { intro E. exfalso. clear - E Hpcr. unfold WPAWN in E. lia. }
      assert (Hnew : pc < 13) by (clear - Hpcr; lia).
      assert (Enew : pc = (if negb (mpromote m =? EMPTY) then mpromote m else pc)) by (rewrite Hmp; reflexivity).
      destruct (capture_plain zk EKZ m _ _ _ _ _ _ _ _ pc (epSquare p) pc S2 Hf Ht Enew Hnew HW HB) as (ep' & Sc).
      fold f t in Sc.
      destruct (make_epilogue zk _ _ _ _ _ _ _ m Sc) as (cm' & Sm).
      eexists _, _, _, _. split; [exact Sm|].
      intros q h2 cm2 ep2 Sq.
      rewrite unMakeMove_unfold.
      destruct (um_restore zk m _ _ _ _ _ _ q (mkUndo cap (castleMask p) (epSquare p) (halfMoveClock p)) Sq Hf Ht Hcaplt)
        as (Hsnd & Sr).
      fold f t in Hsnd, Sr. cbn [u_captured u_castleMask u_epSquare u_halfMoveClock negb] in Hsnd, Sr.
      replace (fullMoveCounter p + 1 - 1)%Z with (fullMoveCounter p) in Sr by (clear; lia).
      rewrite Hmp in Hsnd, Sr. change (negb (EMPTY =? EMPTY)) with false in Hsnd, Sr. cbv iota in Hsnd, Sr.
      rewrite nthP_top in Hsnd, Sr by auto with len. rewrite Hsnd.
      destruct (St_scalars zk _ _ _ _ _ _ _ _ Sr) as (Hwr & _ & _ & _ & Hepr).
      rewrite um_castle_none.
      2:{ rewrite Hwr. cbn [negb]. destruct (N.eqb_spec pc BKING) as [Ek|Ek]; [right; exact (Hnk Ek) | left; reflexivity]. }
      rewrite um_ep_none.
      2:{ right. split; [|exact Ep]. intro E. clear - E Hpcr. unfold WPAWN in E. lia. }
      apply (St_finish _ _ _ _ Sr); [|symmetry; exact Esc].
      apply board_plain; auto.
  - (* quiet move *)
    apply orb_false_elim in Ebr as [Ec Enp]. apply negb_false_iff in Ec. apply N.eqb_eq in Ec.
    assert (Hmp : mpromote m = EMPTY).
    { destruct (N.eqb_spec (mpromote m) EMPTY) as [|n]; auto. destruct (Hpro n) as (E & _).
      rewrite E in Enp. discriminate. }
    destruct (notPawn_facts _ Enp) as (Hnw & Hnb).
    assert (Hr12 : 1 <= pc <= 12) by (clear - Hpcr; lia).
    assert (Hum : forall inner q h2 cm2 ep2,
               St zk 0 (updN t pc inner) (true, h2, (fullMoveCounter p + 1)%Z, cm2, ep2) q -> length inner = 64%nat ->
               snd (umRestoreBlock zk q m (mkUndo cap (castleMask p) (epSquare p) (halfMoveClock p))) = pc /\
               St zk 0 (updN f pc (updN t EMPTY (updN t pc inner)))
                  (false, halfMoveClock p, fullMoveCounter p, castleMask p, epSquare p)
                  (fst (umRestoreBlock zk q m (mkUndo cap (castleMask p) (epSquare p) (halfMoveClock p))))).
    { intros inner q h2 cm2 ep2 Sq Hl.
      destruct (um_restore zk m _ _ _ _ _ _ q (mkUndo cap (castleMask p) (epSquare p) (halfMoveClock p)) Sq Hf Ht Hcaplt)
        as (Hsnd & Sr).
      fold f t in Hsnd, Sr. cbn [u_captured u_castleMask u_epSquare u_halfMoveClock negb] in Hsnd, Sr.
      replace (fullMoveCounter p + 1 - 1)%Z with (fullMoveCounter p) in Sr by (clear; lia).
      rewrite Hmp in Hsnd, Sr. change (negb (EMPTY =? EMPTY)) with false in Hsnd, Sr. cbv iota in Hsnd, Sr.
      rewrite nthP_top in Hsnd, Sr by auto. replace (updN t cap (updN t pc inner)) with (updN t EMPTY (updN t pc inner)) in Sr by (rewrite Ec; reflexivity).
      split; assumption. }
    destruct (N.eqb_spec pc BKING) as [Ek|Ek].
    + destruct (N.eq_dec t (f + 2)) as [Et|Et]; [|destruct (N.le_gt_cases 2 f) as [H2f|H2f]; [destruct (N.eq_dec t (f - 2)) as [Et2|Et2]|]].
      * (* O-O *)
        destruct (HcK Ek Et) as (_ & Hf3 & Hr1 & Hr3).
        fold (nthP sqs (f + 1)) in Hr1. fold (nthP sqs (f + 3)) in Hr3.
        assert (Hik : isKingPiece pc = true) by (rewrite Ek; reflexivity).
        assert (Hrk : 1 <= BROOK <= 12) by (unfold BROOK; lia).
        pose proof (quiet_castleK zk EKZ m _ _ _ _ _ _ _ _ pc BROOK S2 Hf3 Et eq_refl Hik Ec Hr1 Hr3 Hrk eq_refl) as Sc.
        fold f t in Sc.
        destruct (make_epilogue zk _ _ _ _ _ _ _ m Sc) as (cm' & Sm).
        eexists _, _, _, _. split; [exact Sm|].
        intros q h2 cm2 ep2 Sq.
        rewrite unMakeMove_unfold.
        edestruct Hum as (Hsnd & Sr); [exact Sq | auto with len |].
        rewrite Hsnd.
        assert (D1 : f <> f + 1) by (clear; lia). assert (D2 : f <> f + 3) by (clear; lia).
        assert (D3 : t <> f + 1) by (clear - Et; lia). assert (D4 : t <> f + 3) by (clear - Et; lia).
        assert (D5 : f + 1 <> f + 3) by (clear; lia). assert (D6 : f + 1 < 64) by (clear - Hf3; lia).
        pose proof (um_castleK zk EKZ m _ _ _ _ _ _ _ pc BROOK Sr Ek Et Hf3
                      (castle_eval1 sqs f t (f + 1) (f + 3) pc BROOK Hlen Hf Ht D6 Hf3 Hne D1 D2 D3 D4 D5)
                      Hrk eq_refl
                      (castle_eval3 sqs f t (f + 1) (f + 3) pc BROOK Hlen Hf Ht D6 Hf3 Hne D1 D2 D3 D4 D5)) as Su.
        fold f t in Su.
        rewrite um_ep_none by (right; split; assumption).
        apply (St_finish _ _ _ _ Su); [|symmetry; exact Esc].
        apply board_castle; auto.
      * (* O-O-O *)
        destruct (HcQ Ek H2f Et2) as (_ & Hf4 & Hr1 & Hr3).
        fold (nthP sqs (f - 1)) in Hr1. fold (nthP sqs (f - 4)) in Hr3.
        assert (Hik : isKingPiece pc = true) by (rewrite Ek; reflexivity).
        assert (Hrk : 1 <= BROOK <= 12) by (unfold BROOK; lia).
        pose proof (quiet_castleQ zk EKZ m _ _ _ _ _ _ _ _ pc BROOK S2 Hf4 Hf Et2 eq_refl Hik Ec Hr1 Hr3 Hrk eq_refl) as Sc.
        fold f t in Sc.
        destruct (make_epilogue zk _ _ _ _ _ _ _ m Sc) as (cm' & Sm).
        eexists _, _, _, _. split; [exact Sm|].
        intros q h2 cm2 ep2 Sq.
        rewrite unMakeMove_unfold.
        edestruct Hum as (Hsnd & Sr); [exact Sq | auto with len |].
        rewrite Hsnd.
        assert (D1 : f <> f - 1) by (clear - Hf4; lia). assert (D2 : f <> f - 4) by (clear - Hf4; lia).
        assert (D3 : t <> f - 1) by (clear - Et2 Hf4; lia). assert (D4 : t <> f - 4) by (clear - Et2 Hf4; lia).
        assert (D5 : f - 1 <> f - 4) by (clear - Hf4; lia). assert (D6 : f - 1 < 64) by (clear - Hf; lia).
        assert (D7 : f - 4 < 64) by (clear - Hf; lia).
        pose proof (um_castleQ zk EKZ m _ _ _ _ _ _ _ pc BROOK Sr Ek Et2 Hf4 Hf
                      (castle_eval1 sqs f t (f - 1) (f - 4) pc BROOK Hlen Hf Ht D6 D7 Hne D1 D2 D3 D4 D5)
                      Hrk eq_refl
                      (castle_eval3 sqs f t (f - 1) (f - 4) pc BROOK Hlen Hf Ht D6 D7 Hne D1 D2 D3 D4 D5)) as Su.
        fold f t in Su.
        rewrite um_ep_none by (right; split; assumption).
        apply (St_finish _ _ _ _ Su); [|symmetry; exact Esc].
        apply board_castle; auto.
      * (* king move, not castling *)
        assert (Hk : (Z.of_N t <> sqPlus f 2 /\ Z.of_N t <> sqPlus f (-2))%Z).
        { unfold sqPlus. clear - Et Et2 H2f. split; lia. }
        pose proof (quiet_plain zk EKZ m _ _ _ _ _ _ _ _ pc S2 Hf Ht Hne eq_refl Hr12 Enp Ec (or_intror Hk)) as Sc.
        fold f t in Sc.
        destruct (make_epilogue zk _ _ _ _ _ _ _ m Sc) as (cm' & Sm).
        eexists _, _, _, _. split; [exact Sm|].
        intros q h2 cm2 ep2 Sq.
        rewrite unMakeMove_unfold.
        edestruct Hum as (Hsnd & Sr); [exact Sq | auto with len |].
        rewrite Hsnd.
        rewrite um_castle_none by (right; exact Hk).
        rewrite um_ep_none by (right; split; assumption).
        apply (St_finish _ _ _ _ Sr); [|symmetry; exact Esc].
        rewrite <- Ec. apply board_plain; auto.
      * assert (Hk : (Z.of_N t <> sqPlus f 2 /\ Z.of_N t <> sqPlus f (-2))%Z).
        { unfold sqPlus. clear - Et H2f. split; lia. }
        pose proof (quiet_plain zk EKZ m _ _ _ _ _ _ _ _ pc S2 Hf Ht Hne eq_refl Hr12 Enp Ec (or_intror Hk)) as Sc.
        fold f t in Sc.
        destruct (make_epilogue zk _ _ _ _ _ _ _ m Sc) as (cm' & Sm).
        eexists _, _, _, _. split; [exact Sm|].
        intros q h2 cm2 ep2 Sq.
        rewrite unMakeMove_unfold.
        edestruct Hum as (Hsnd & Sr); [exact Sq | auto with len |].
        rewrite Hsnd.
        rewrite um_castle_none by (right; exact Hk).
        rewrite um_ep_none by (right; split; assumption).
        apply (St_finish _ _ _ _ Sr); [|symmetry; exact Esc].
        rewrite <- Ec. apply board_plain; auto.
    + (* not a king *)
      assert (Hik : isKingPiece pc = false).
      { unfold isKingPiece. apply orb_false_intro; apply N.eqb_neq; [|exact Ek]. clear - Hpcr. unfold WKING. lia. }
      pose proof (quiet_plain zk EKZ m _ _ _ _ _ _ _ _ pc S2 Hf Ht Hne eq_refl Hr12 Enp Ec (or_introl Hik)) as Sc.
      fold f t in Sc.
      destruct (make_epilogue zk _ _ _ _ _ _ _ m Sc) as (cm' & Sm).
      eexists _, _, _, _. split; [exact Sm|].
      intros q h2 cm2 ep2 Sq.
      rewrite unMakeMove_unfold.
      edestruct Hum as (Hsnd & Sr); [exact Sq | auto with len |].
      rewrite Hsnd.
      destruct (St_scalars zk _ _ _ _ _ _ _ _ Sr) as (Hwr & _).
      rewrite um_castle_none.
      2:{ left. rewrite Hwr. apply N.eqb_neq. exact Ek. }
      rewrite um_ep_none by (right; split; assumption).
      apply (St_finish _ _ _ _ Sr); [|symmetry; exact Esc].
      rewrite <- Ec. apply board_plain; auto.
Qed.


End Main.
