(** C02 proofs, part 4: unMakeMove (makeMove p m) = p, and the invariant over histories. *)
From Coq Require Import ZArith NArith List Bool Lia Btauto.
From Texel Require Import Chess.Types Chess.Position Chess.PositionSpec Chess.PositionFacts
  Chess.PositionProofs Chess.PositionProofs2 Chess.PositionProofs3.
Import ListNotations.
Local Open Scope N_scope.

(** what [moveOk] says, as propositions *)
Lemma moveOk_facts p m : moveOk p m = true ->
  let f := mfrom m in let t := mto m in
  let pc := getPiece p f in let cap := getPiece p t in let wtm := whiteMove p in
  let pawn := if wtm then WPAWN else BPAWN in
  let king := if wtm then WKING else BKING in
  let rook := if wtm then WROOK else BROOK in
  f < 64 /\ t < 64 /\ f <> t /\ ownPiece wtm pc = true /\ ownPiece wtm cap = false /\
  (mpromote m <> EMPTY -> pc = pawn /\ ownPiece wtm (mpromote m) = true) /\
  (pc = pawn -> Z.of_N t = epSquare p ->
     cap = EMPTY /\ mpromote m = EMPTY /\
     (if wtm then 8 <= t /\ getPiece p (t - 8) = BPAWN /\ t <> f + 16
      else t + 8 < 64 /\ getPiece p (t + 8) = WPAWN /\ t + 16 <> f)) /\
  (pc = king -> t = f + 2 -> cap = EMPTY /\ f + 3 < 64 /\ getPiece p (f + 1) = EMPTY /\ getPiece p (f + 3) = rook) /\
  (pc = king -> 2 <= f -> t = f - 2 -> cap = EMPTY /\ 4 <= f /\ getPiece p (f - 1) = EMPTY /\ getPiece p (f - 4) = rook).
Proof.
  unfold moveOk. cbv zeta. intro H.
  apply andb_prop in H as [H Hcas]. apply andb_prop in H as [H Hep]. apply andb_prop in H as [H Hpro].
  apply andb_prop in H as [H Hcapn]. apply andb_prop in H as [H Hown]. apply andb_prop in H as [H Hne].
  apply andb_prop in H as [Hf Ht].
  apply N.ltb_lt in Hf. apply N.ltb_lt in Ht. apply negb_true_iff in Hne. apply N.eqb_neq in Hne.
  apply negb_true_iff in Hcapn.
  split; [auto|]. split; [auto|]. split; [auto|]. split; [auto|]. split; [auto|].
  split; [|split; [|split]].
  - intro Hp. destruct (N.eqb_spec (mpromote m) EMPTY); [contradiction|].
    apply andb_prop in Hpro as [Hpro _]. apply andb_prop in Hpro as [Hpro _]. apply andb_prop in Hpro as [Hp1 Hp2].
    apply N.eqb_eq in Hp1. split; auto.
  - intros Hpc Hte. rewrite Hpc, Hte, N.eqb_refl, Z.eqb_refl in Hep. cbn [andb] in Hep.
    apply andb_prop in Hep as [Hep He3]. apply andb_prop in Hep as [He1 He2].
    apply N.eqb_eq in He1. apply N.eqb_eq in He2. split; [auto|]. split; [auto|].
    destruct (whiteMove p).
    + apply andb_prop in He3 as [He3 He6]. apply andb_prop in He3 as [He4 He5].
      apply N.leb_le in He4. apply N.eqb_eq in He5. apply negb_true_iff in He6. apply N.eqb_neq in He6. auto.
    + apply andb_prop in He3 as [He3 He6]. apply andb_prop in He3 as [He4 He5].
      apply N.ltb_lt in He4. apply N.eqb_eq in He5. apply negb_true_iff in He6. apply N.eqb_neq in He6. auto.
  - intros Hpc Hte. rewrite Hpc, N.eqb_refl in Hcas. apply andb_prop in Hcas as [Hc _].
    rewrite Hte, N.eqb_refl in Hc.
    apply andb_prop in Hc as [Hc Hc4]. apply andb_prop in Hc as [Hc Hc3]. apply andb_prop in Hc as [Hc1 Hc2].
    apply N.eqb_eq in Hc1. apply N.ltb_lt in Hc2. apply N.eqb_eq in Hc3. apply N.eqb_eq in Hc4.
    rewrite Hte. repeat split; auto.
  - intros Hpc Hf2 Hte. rewrite Hpc, N.eqb_refl in Hcas. apply andb_prop in Hcas as [_ Hc].
    rewrite Hte, N.eqb_refl in Hc. replace (2 <=? mfrom m) with true in Hc by (symmetry; apply N.leb_le; auto).
    cbn [andb] in Hc.
    apply andb_prop in Hc as [Hc Hc4]. apply andb_prop in Hc as [Hc Hc3]. apply andb_prop in Hc as [Hc1 Hc2].
    apply N.eqb_eq in Hc1. apply N.leb_le in Hc2. apply N.eqb_eq in Hc3. apply N.eqb_eq in Hc4.
    rewrite Hte. repeat split; auto.
Qed.
