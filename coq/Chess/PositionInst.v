(** Position model instantiated with the Zobrist tables regenerated from the engine on every run
    (coq/gen/ZobristTables.v, written by props/c02.py).  The constants mirrored by hand in
    Position.v are checked here against the regenerated ones: a changed constant in the C++
    breaks these proofs. *)
From Coq Require Import ZArith NArith List Bool.
From Texel Require Import Chess.Types Chess.Position gen.ZobristTables.
Import ListNotations.
Local Open Scope N_scope.

Definition zk0 : zkeys := mkZKeys gen_ps gen_white gen_castle gen_ep gen_moveCnt gen_empty.
(** TBProbeData::maxPieces after ComputerPlayer::initEngine without tablebases *)
Definition maxPieces0 : Z := 4%Z.

Lemma gen_pieceValue_ok : gen_pieceValue = pieceValueTbl.
Proof. reflexivity. Qed.
Lemma gen_materialId_ok : gen_materialId = materialIdTbl.
Proof. reflexivity. Qed.
Lemma gen_kV_ok : gen_kV = kV.
Proof. reflexivity. Qed.
Lemma gen_castleSqMask_ok : gen_castleSqMask = map (fun k => castleSqMask (N.of_nat k)) (seq 0 64).
Proof. vm_compute. reflexivity. Qed.
Lemma gen_epMaskW_ok : gen_epMaskW = map (fun k => epMaskW (N.of_nat k)) (seq 0 8).
Proof. vm_compute. reflexivity. Qed.
Lemma gen_epMaskB_ok : gen_epMaskB = map (fun k => epMaskB (N.of_nat k)) (seq 0 8).
Proof. vm_compute. reflexivity. Qed.

(** shape of the tables: every lookup of the model is inside its array and below 2^64 *)
Definition keysWF (zk : zkeys) : bool :=
  (length (zk_ps zk) =? 13)%nat && forallb (fun r => (length r =? 64)%nat && forallb (fun k => k <? 2^64) r) (zk_ps zk) &&
  (length (zk_castle zk) =? 16)%nat && forallb (fun k => k <? 2^64) (zk_castle zk) &&
  (length (zk_ep zk) =? 9)%nat && forallb (fun k => k <? 2^64) (zk_ep zk) &&
  (length (zk_moveCnt zk) =? 101)%nat && forallb (fun k => k <? 2^64) (zk_moveCnt zk) &&
  (zk_white zk <? 2^64) && (zk_empty zk <? 2^64) &&
  forallb (fun k => k =? 0) (nth 0 (zk_ps zk) []).
Lemma zk0_wf : keysWF zk0 = true.
Proof. vm_compute. reflexivity. Qed.
