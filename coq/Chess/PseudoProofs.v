(** pseudoLegalMoves = the Spec's pseudo-moves, as sets, in every well-formed position.
    The only difference between the engine's notion of pseudo-legal and the Spec's is stated
    explicitly: the engine's castling moves do not yet test the king's target square (that test
    is left to the legality filter); [pseudo_moves_engine] is the Spec list with that one test
    removed. *)
From Coq Require Import ZArith NArith List Bool Lia.
From Texel Require Import Chess.Types Chess.Position Chess.BitBoard Chess.MoveGen Chess.Spec Chess.MoveGenWF
  Chess.BitBoardProofs Chess.RayProofs Chess.MoveGenProofs Chess.AttackProofs Chess.SliderProofs Chess.PawnProofs
  gen.BitBoardTables.
Import ListNotations.
Local Open Scope N_scope.

(** * Castling *)
Definition castle_moves_pseudo (sp : spos) : list move :=
  let b := sp_board sp in
  let w := sp_white sp in
  let r := (if w then 0 else 7)%Z in
  let emptyb f := N.eqb (at_ b f r) EMPTY in
  let safe f := negb (attacked_by b (negb w) f r) in
  if is_piece w King (at_ b 4 r) && safe 4%Z then
    (if has_right sp w true && is_piece w Rook (at_ b 7 r) && emptyb 5%Z && emptyb 6%Z && safe 5%Z
     then [mv 4 r 6 r EMPTY] else [])
    ++ (if has_right sp w false && is_piece w Rook (at_ b 0 r) && emptyb 1%Z && emptyb 2%Z && emptyb 3%Z && safe 3%Z
        then [mv 4 r 2 r EMPTY] else [])
  else [].

Definition pseudo_moves_engine (sp : spos) : list move :=
  flat_map (fun c => piece_moves sp (fst c) (snd c)) all_coords ++ castle_moves_pseudo sp.

(** the Spec's castling = the relaxed one + "target square not attacked" *)
Lemma castle_moves_relax : forall sp m,
  In m (castle_moves sp) <->
  In m (castle_moves_pseudo sp) /\
  let r := (if sp_white sp then 0 else 7)%Z in
  (m = mv 4 r 6 r EMPTY -> attacked_by (sp_board sp) (negb (sp_white sp)) 6 r = false) /\
  (m = mv 4 r 2 r EMPTY -> attacked_by (sp_board sp) (negb (sp_white sp)) 2 r = false).
Proof.
  intros sp m. unfold castle_moves, castle_moves_pseudo. cbv beta zeta.
  set (b := sp_board sp). set (w := sp_white sp). set (r := (if w then 0 else 7)%Z).
  assert (Hne : mv 4 r 6 r EMPTY <> mv 4 r 2 r EMPTY) by (unfold mv, r; destruct w; discriminate).
  destruct (is_piece w King (at_ b 4 r) && negb (attacked_by b (negb w) 4 r)); [|cbn; tauto].
  rewrite !in_app_iff.
  destruct (has_right sp w true && is_piece w Rook (at_ b 7 r) && (at_ b 5 r =? EMPTY) && (at_ b 6 r =? EMPTY)
            && negb (attacked_by b (negb w) 5 r)) eqn:E1;
    destruct (has_right sp w false && is_piece w Rook (at_ b 0 r) && (at_ b 1 r =? EMPTY) && (at_ b 2 r =? EMPTY)
              && (at_ b 3 r =? EMPTY) && negb (attacked_by b (negb w) 3 r)) eqn:E2;
    destruct (attacked_by b (negb w) 6 r) eqn:A6; destruct (attacked_by b (negb w) 2 r) eqn:A2;
    cbn [negb andb In]; rewrite ?andb_true_r, ?andb_false_r; cbn [In];
    intuition (try subst m;
               repeat match goal with
                      | H : ?x = ?x -> _ |- _ => specialize (H eq_refl)
                      | H : ?x = ?y -> _, H' : ?y = ?x |- _ => specialize (H (eq_sym H'))
                      end; try contradiction; try congruence; try discriminate; auto).
Qed.

Section Castle.
Variable p : position.
Hypothesis HWF : WF p.
Let w := whiteMove p.
Let b := squares p.

Lemma occ_at : forall f r, on_board f r = true ->
  N.testbit (occupiedBB p) (sq_of f r) = negb (at_ b f r =? EMPTY).
Proof.
  intros f r Hob. destruct (sq_of_coords f r Hob) as [Hs _]. rewrite (occupied_testbit p _ HWF).
  replace (sq_of f r <? 64) with true by (symmetry; apply N.ltb_lt; exact Hs). cbn [andb].
  unfold b. rewrite (at_getPiece p f r Hob). reflexivity.
Qed.

Lemma land_two_bits : forall occ a c, a < 64 -> c < 64 ->
  (N.land (N.lor (bit a) (bit c)) occ =? 0) = negb (N.testbit occ a) && negb (N.testbit occ c).
Proof.
  intros occ a c Ha Hc. apply eq_true_iff_eq. rewrite N.eqb_eq, andb_true_iff, !negb_true_iff. split.
  - intro H. split.
    + assert (Hb : N.testbit (N.land (N.lor (bit a) (bit c)) occ) a = false) by (rewrite H; apply N.bits_0).
      rewrite N.land_spec, N.lor_spec, !bit_testbit, N.eqb_refl in Hb. cbn [orb andb] in Hb. exact Hb.
    + assert (Hb : N.testbit (N.land (N.lor (bit a) (bit c)) occ) c = false) by (rewrite H; apply N.bits_0).
      rewrite N.land_spec, N.lor_spec, !bit_testbit, N.eqb_refl, orb_true_r in Hb. cbn [andb] in Hb. exact Hb.
  - intros [H1 H2]. apply N.bits_inj. intro k. rewrite N.land_spec, N.lor_spec, !bit_testbit, N.bits_0.
    destruct (N.eqb_spec a k) as [<-|]; [rewrite H1; apply andb_false_r|].
    destruct (N.eqb_spec c k) as [<-|]; [rewrite H2; apply andb_false_r | reflexivity].
Qed.

Lemma land_three_bits : forall occ a c d, a < 64 -> c < 64 -> d < 64 ->
  (N.land (N.lor (N.lor (bit a) (bit c)) (bit d)) occ =? 0)
  = negb (N.testbit occ a) && negb (N.testbit occ c) && negb (N.testbit occ d).
Proof.
  intros occ a c d Ha Hc Hd. apply eq_true_iff_eq. rewrite N.eqb_eq, !andb_true_iff, !negb_true_iff. split.
  - intro H. assert (Hb : forall k, N.testbit (N.land (N.lor (N.lor (bit a) (bit c)) (bit d)) occ) k = false)
      by (intro k; rewrite H; apply N.bits_0).
    repeat split.
    + specialize (Hb a). rewrite N.land_spec, !N.lor_spec, !bit_testbit, N.eqb_refl in Hb. cbn [orb andb] in Hb. exact Hb.
    + specialize (Hb c). rewrite N.land_spec, !N.lor_spec, !bit_testbit, N.eqb_refl, orb_true_r in Hb. cbn [orb andb] in Hb. exact Hb.
    + specialize (Hb d). rewrite N.land_spec, !N.lor_spec, !bit_testbit, N.eqb_refl, orb_true_r in Hb. cbn [andb] in Hb. exact Hb.
  - intros [[H1 H2] H3]. apply N.bits_inj. intro k. rewrite N.land_spec, !N.lor_spec, !bit_testbit, N.bits_0.
    destruct (N.eqb_spec a k) as [<-|]; [rewrite H1; apply andb_false_r|].
    destruct (N.eqb_spec c k) as [<-|]; [rewrite H2; apply andb_false_r|].
    destruct (N.eqb_spec d k) as [<-|]; [rewrite H3; apply andb_false_r | reflexivity].
Qed.

Lemma sqAttacked_at : forall sq, sq < 64 ->
  sqAttacked p sq = attacked_by b (negb w) (zf sq) (zr sq).
Proof. intros sq Hs. unfold sqAttacked, sqAttackedOcc. apply sqAttacked_spec; assumption. Qed.

Lemma nz_bit : forall cm k, nz (N.land cm (bit k)) = N.testbit cm k.
Proof.
  intros. unfold nz. destruct (N.testbit cm k) eqn:E.
  - apply negb_true_iff, N.eqb_neq. intro H.
    assert (Hb : N.testbit (N.land cm (bit k)) k = false) by (rewrite H; apply N.bits_0).
    rewrite N.land_spec, E, bit_testbit, N.eqb_refl in Hb. discriminate.
  - apply negb_false_iff, N.eqb_eq. apply N.bits_inj. intro j. rewrite N.land_spec, bit_testbit, N.bits_0.
    destruct (N.eqb_spec k j) as [<-|]; [rewrite E; reflexivity | apply andb_false_r].
Qed.

Lemma castleMoves_normal : forall wtm pos occ sq l,
  castleMoves wtm pos occ sq l =
  let k0 := if wtm then E1 else E8 in
  if sq =? k0 then
    let cH := nz (N.land (castleMask pos) (bit (if wtm then H1_CASTLE else H8_CASTLE)))
              && (N.land (if wtm then N.lor (bit F1) (bit G1) else N.lor (bit F8) (bit G8)) occ =? 0)
              && (getPiece pos (sqAdd k0 3) =? myPiece wtm WROOK)
              && negb (sqAttacked pos k0) && negb (sqAttacked pos (sqAdd k0 1)) in
    let cA := nz (N.land (castleMask pos) (bit (if wtm then A1_CASTLE else A8_CASTLE)))
              && (N.land (if wtm then N.lor (N.lor (bit B1) (bit C1)) (bit D1) else N.lor (N.lor (bit B8) (bit C8)) (bit D8)) occ =? 0)
              && (getPiece pos (sqAdd k0 (-4)) =? myPiece wtm WROOK)
              && negb (sqAttacked pos k0) && negb (sqAttacked pos (sqAdd k0 (-1))) in
    (l ++ (if cH then [mkMove k0 (sqAdd k0 2) EMPTY] else []))
      ++ (if cA then [mkMove k0 (sqAdd k0 (-2)) EMPTY] else [])
  else l.
Proof.
  intros. unfold castleMoves, addMove. destruct wtm; cbv beta iota zeta.
  - destruct (sq =? E1); [|reflexivity].
    destruct (nz (N.land (castleMask pos) (bit H1_CASTLE))); destruct (N.land (N.lor (bit F1) (bit G1)) occ =? 0);
    destruct (getPiece pos (sqAdd E1 3) =? myPiece true WROOK); destruct (sqAttacked pos E1);
    destruct (sqAttacked pos (sqAdd E1 1)); destruct (nz (N.land (castleMask pos) (bit A1_CASTLE)));
    destruct (N.land (N.lor (N.lor (bit B1) (bit C1)) (bit D1)) occ =? 0);
    destruct (getPiece pos (sqAdd E1 (-4)) =? myPiece true WROOK); destruct (sqAttacked pos (sqAdd E1 (-1)));
    cbn [andb negb]; rewrite ?app_nil_r; reflexivity.
  - destruct (sq =? E8); [|reflexivity].
    destruct (nz (N.land (castleMask pos) (bit H8_CASTLE))); destruct (N.land (N.lor (bit F8) (bit G8)) occ =? 0);
    destruct (getPiece pos (sqAdd E8 3) =? myPiece false WROOK); destruct (sqAttacked pos E8);
    destruct (sqAttacked pos (sqAdd E8 1)); destruct (nz (N.land (castleMask pos) (bit A8_CASTLE)));
    destruct (N.land (N.lor (N.lor (bit B8) (bit C8)) (bit D8)) occ =? 0);
    destruct (getPiece pos (sqAdd E8 (-4)) =? myPiece false WROOK); destruct (sqAttacked pos (sqAdd E8 (-1)));
    cbn [andb negb]; rewrite ?app_nil_r; reflexivity.
Qed.

Lemma In_single_if : forall (c : bool) (x m : move), In m (if c then [x] else []) <-> c = true /\ m = x.
Proof. intros. destruct c; cbn; intuition (try discriminate; auto). Qed.

Theorem castleMoves_spec : forall m,
  In m (castleMoves w p (occupiedBB p) (kingSq p w) []) <-> In m (castle_moves_pseudo (abs p)).
Proof.
  intro m. destruct (kingSq_spec p w HWF) as [Hk64 Hkp].
  assert (Hking : forall k0 f r, on_board f r = true -> sq_of f r = k0 ->
                  (kingSq p w =? k0) = is_piece w King (at_ b f r)).
  { intros k0 f r Hob Hsq. destruct (sq_of_coords f r Hob) as [Hs _]. rewrite is_piece_eqb.
    unfold b. rewrite (at_getPiece p f r Hob), Hsq.
    destruct (N.eqb_spec (kingSq p w) k0) as [<-|Hne].
    - rewrite Hkp. symmetry. apply N.eqb_refl.
    - symmetry. apply N.eqb_neq. intro E. apply Hne. rewrite <- Hsq in *.
      apply (king_unique p w _ _ HWF Hk64 Hs Hkp E). }
  assert (Hat : forall sq, sq < 64 -> sqAttacked p sq = attacked_by b (negb w) (zf sq) (zr sq)) by (apply sqAttacked_at).
  rewrite castleMoves_normal. unfold castle_moves_pseudo, has_right. cbn [abs sp_board sp_white sp_castle]. fold w b.
  cbv beta zeta. revert Hking Hat Hkp. generalize (kingSq p w). intros ks Hking Hat Hkp.
  destruct w eqn:Ew.
  - (* white *)
    change E1 with 4. rewrite (Hking 4 4%Z 0%Z eq_refl eq_refl).
    destruct (is_piece true King (at_ b 4 0)) eqn:EK; cbn [andb]; [|reflexivity].
    change (sqAdd 4 3) with 7. change (sqAdd 4 1) with 5. change (sqAdd 4 2) with 6.
    change (sqAdd 4 (-4)) with 0. change (sqAdd 4 (-1)) with 3. change (sqAdd 4 (-2)) with 2.
    change (N.lor (bit F1) (bit G1)) with (N.lor (bit (sq_of 5 0)) (bit (sq_of 6 0))).
    change (N.lor (N.lor (bit B1) (bit C1)) (bit D1)) with (N.lor (N.lor (bit (sq_of 1 0)) (bit (sq_of 2 0))) (bit (sq_of 3 0))).
    rewrite land_two_bits, land_three_bits by reflexivity.
    rewrite !nz_bit. change H1_CASTLE with 1. change A1_CASTLE with 0.
    rewrite (Hat 4), (Hat 5), (Hat 3) by reflexivity. cbn [negb].
    change (zf 4) with 4%Z. change (zr 4) with 0%Z. change (zf 5) with 5%Z. change (zr 5) with 0%Z.
    change (zf 3) with 3%Z. change (zr 3) with 0%Z.
    rewrite !occ_at by reflexivity. rewrite !negb_involutive.
    change (getPiece p 7) with (at_ b 7 0). change (getPiece p 0) with (at_ b 0 0).
    rewrite !is_piece_eqb. change (myPiece true WROOK) with (mk_piece true Rook).
    unfold mv. change (sq_of 4 0) with 4. change (sq_of 6 0) with 6. change (sq_of 2 0) with 2.
    cbn [app]. rewrite !in_app_iff, !In_single_if.
    destruct (attacked_by b false 4 0); cbn [negb andb]; rewrite ?andb_false_r, ?andb_true_r.
    + cbn [In]. intuition discriminate.
    + rewrite !in_app_iff, !In_single_if. rewrite !andb_true_iff. tauto.
  - (* black *)
    change E8 with 60. rewrite (Hking 60 4%Z 7%Z eq_refl eq_refl).
    destruct (is_piece false King (at_ b 4 7)) eqn:EK; cbn [andb]; [|reflexivity].
    change (sqAdd 60 3) with 63. change (sqAdd 60 1) with 61. change (sqAdd 60 2) with 62.
    change (sqAdd 60 (-4)) with 56. change (sqAdd 60 (-1)) with 59. change (sqAdd 60 (-2)) with 58.
    change (N.lor (bit F8) (bit G8)) with (N.lor (bit (sq_of 5 7)) (bit (sq_of 6 7))).
    change (N.lor (N.lor (bit B8) (bit C8)) (bit D8)) with (N.lor (N.lor (bit (sq_of 1 7)) (bit (sq_of 2 7))) (bit (sq_of 3 7))).
    rewrite land_two_bits, land_three_bits by reflexivity.
    rewrite !nz_bit. change H8_CASTLE with 3. change A8_CASTLE with 2.
    rewrite (Hat 60), (Hat 61), (Hat 59) by reflexivity. cbn [negb].
    change (zf 60) with 4%Z. change (zr 60) with 7%Z. change (zf 61) with 5%Z. change (zr 61) with 7%Z.
    change (zf 59) with 3%Z. change (zr 59) with 7%Z.
    rewrite !occ_at by reflexivity. rewrite !negb_involutive.
    change (getPiece p 63) with (at_ b 7 7). change (getPiece p 56) with (at_ b 0 7).
    rewrite !is_piece_eqb. change (myPiece false WROOK) with (mk_piece false Rook).
    unfold mv. change (sq_of 4 7) with 60. change (sq_of 6 7) with 62. change (sq_of 2 7) with 58.
    cbn [app]. rewrite !in_app_iff, !In_single_if.
    destruct (attacked_by b true 4 7); cbn [negb andb]; rewrite ?andb_false_r, ?andb_true_r.
    + cbn [In]. intuition discriminate.
    + rewrite !in_app_iff, !In_single_if. rewrite !andb_true_iff. tauto.
Qed.
End Castle.

(** * All coordinates *)
Lemma all_coords_on_board : forall f r, In (f, r) all_coords <-> on_board f r = true.
Proof.
  intros f r. destruct all_coords_ok as [H1 H2]. split.
  - intro Hin. rewrite forallb_forall in H1. apply (H1 _ Hin).
  - intro Hob. destruct (sq_of_coords f r Hob) as [Hs [Hf [Hr _]]].
    pose proof (sweep1 _ H2 _ Hs) as Hex. apply existsb_exists in Hex. destruct Hex as [[f' r'] [Hin He]].
    cbn [fst snd] in He. apply andb_true_iff in He. destruct He as [E1 E2]. apply Z.eqb_eq in E1, E2.
    rewrite Hf in E1. rewrite Hr in E2. subst. exact Hin.
Qed.

(** * piece_moves by kind *)
Lemma piece_moves_In : forall sp f r m, at_ (sp_board sp) f r <= 12 ->
  let b := sp_board sp in let w := sp_white sp in
  (In m (piece_moves sp f r) <->
   (at_ b f r = mk_piece w King /\ In m (step_moves b w f r king_offsets)) \/
   (at_ b f r = mk_piece w Knight /\ In m (step_moves b w f r knight_offsets)) \/
   (at_ b f r = mk_piece w Rook /\ In m (slider_moves b w f r rook_dirs)) \/
   (at_ b f r = mk_piece w Bishop /\ In m (slider_moves b w f r bishop_dirs)) \/
   (at_ b f r = mk_piece w Queen /\ In m (slider_moves b w f r (rook_dirs ++ bishop_dirs))) \/
   (at_ b f r = mk_piece w Pawn /\ In m (pawn_moves sp f r))).
Proof.
  intros sp f r m Hle. cbv zeta. unfold piece_moves.
  set (pc := at_ (sp_board sp) f r) in *. set (w := sp_white sp).
  destruct (le12_cases _ Hle) as [E|[E|[E|[E|[E|[E|[E|[E|[E|[E|[E|[E|E]]]]]]]]]]]]; rewrite E; destruct w;
    cbn [has_color color_of Bool.eqb kind_of mk_piece In];
    unfold WKING, WQUEEN, WROOK, WBISHOP, WKNIGHT, WPAWN, BKING, BQUEEN, BROOK, BBISHOP, BKNIGHT, BPAWN;
    intuition (try discriminate; auto).
Qed.

Lemma or5_shift : forall A X1 X2 X3 X4 : Prop,
  ((((A \/ X1) \/ X2) \/ X3) \/ X4) <-> A \/ ((((False \/ X1) \/ X2) \/ X3) \/ X4).
Proof. tauto. Qed.

(** * The blocks append to the list *)
Section Blocks.
Variable p : position.
Hypothesis HWF : WF p.
Let w := whiteMove p.

Lemma slider_like_app : forall (g : square -> N) (pc : piece) l m,
  In pc pieceCodes -> (forall sq, sq < 64 -> g sq < 2 ^ 64) ->
  (In m (forSquares (ptBB p pc) (fun l sq => addMovesByMask l sq (g sq)) l) <->
   In m l \/ In m (forSquares (ptBB p pc) (fun l sq => addMovesByMask l sq (g sq)) [])).
Proof.
  intros g pc l m Hpc Hg. rewrite !(forSquares_moves_In g) by (try apply ptBB_lt; assumption). cbn [In]. tauto.
Qed.

Lemma queenBlock_app : forall l m, In m (queenBlock w p l) <-> In m l \/ In m (queenBlock w p []).
Proof.
  intros. unfold queenBlock. cbv zeta. apply slider_like_app; [apply myPiece_codes; cbn; tauto|].
  intros sq Hs. apply ldiff_lt. apply lt_2_64_of_bits. intros i Hi. rewrite N.lor_spec, orb_true_iff in Hi.
  destruct Hi as [Hi|Hi]; [exact (rookAttacks_in_board sq i _ Hs Hi) | exact (bishopAttacks_in_board sq i _ Hs Hi)].
Qed.
Lemma rookBlock_app : forall l m, In m (rookBlock w p l) <-> In m l \/ In m (rookBlock w p []).
Proof.
  intros. unfold rookBlock. cbv zeta. apply slider_like_app; [apply myPiece_codes; cbn; tauto|].
  intros sq Hs. apply ldiff_lt, rookAttacks_lt. exact Hs.
Qed.
Lemma bishopBlock_app : forall l m, In m (bishopBlock w p l) <-> In m l \/ In m (bishopBlock w p []).
Proof.
  intros. unfold bishopBlock. cbv zeta. apply slider_like_app; [apply myPiece_codes; cbn; tauto|].
  intros sq Hs. apply ldiff_lt, bishopAttacks_lt. exact Hs.
Qed.
Lemma knightBlock_app : forall l m, In m (knightBlock w p l) <-> In m l \/ In m (knightBlock w p []).
Proof.
  intros. unfold knightBlock. apply slider_like_app; [apply myPiece_codes; cbn; tauto|].
  intros sq _. apply ldiff_lt, knightAttacks_lt.
Qed.
Lemma kingBlock_app : forall l m, In m (kingBlock w p l) <-> In m l \/ In m (kingBlock w p []).
Proof.
  intros. unfold kingBlock. cbv zeta. rewrite !addMovesByMask_In by (apply ldiff_lt, kingAttacks_lt). cbn [In]. tauto.
Qed.
Lemma castleMoves_app : forall occ sq l m,
  In m (castleMoves w p occ sq l) <-> In m l \/ In m (castleMoves w p occ sq []).
Proof.
  intros. rewrite !castleMoves_normal. cbv zeta. destruct (N.eqb sq _); [|cbn [In]; tauto].
  rewrite !in_app_iff. cbn [In]. tauto.
Qed.
Lemma pawnBlock_app : forall l m, In m (pawnBlock w p l) <-> In m l \/ In m (pawnBlock w p []).
Proof.
  intros. rewrite !pawnBlock_normal. cbv zeta.
  pose proof (pawns_lt p HWF w) as Hpl.
  set (pawns := ptBB p (myPiece w WPAWN)) in *. set (occ := occupiedBB p).
  set (m1 := andn (fwd w pawns 8) occ).
  assert (Hm1 : m1 < 2 ^ 64) by (apply ldiff_lt, fwd_lt; exact Hpl).
  rewrite !addPawnMovesByMask_In, !addPawnDoubleMovesByMask_In, !addPawnMovesByMask_In
    by (first [exact Hm1 | apply ldiff_lt, fwd_lt, land_lt_l; exact Hm1 | apply land_lt_l, land_lt_l, fwd_lt; exact Hpl]).
  cbn [In]. apply or5_shift.
Qed.
End Blocks.

(** * pseudoLegalMoves = Spec pseudo-moves (with the engine's castling convention) *)
Theorem pseudoLegalMoves_spec : forall p m, WF p ->
  (In m (pseudoLegalMoves p) <-> In m (pseudo_moves_engine (abs p))).
Proof.
  intros p m H. unfold pseudoLegalMoves, pseudoLegalMovesT. cbv zeta.
  rewrite (pawnBlock_app p H), (knightBlock_app p H), (castleMoves_app p), (kingBlock_app p),
          (bishopBlock_app p H), (rookBlock_app p H), (queenBlock_app p H). cbn [In].
  unfold pseudo_moves_engine. rewrite in_app_iff, in_flat_map.
  rewrite (castleMoves_spec p H m).
  destruct (slider_blocks_spec p m H) as [HR [HB HQ]]. cbv zeta in HR, HB, HQ.
  destruct (step_blocks_spec p m H) as [HN HK].
  pose proof (pawnBlock_spec p m H) as HP.
  rewrite HR, HB, HQ, HN, HK, HP. clear HR HB HQ HN HK HP.
  assert (Hle : forall f r, at_ (squares p) f r <= 12).
  { intros f r. unfold at_. destruct (on_board f r) eqn:Hob; [|unfold EMPTY; lia].
    destruct (sq_of_coords f r Hob) as [_ [_ [_ Hi]]]. rewrite Hi. apply (WF_pieces_le_12 p (sq_of f r) H). }
  split.
  - intros [[[[[[[[]|HQ]|HR]|HB]|HK]|HC]|HN]|HP]; try (right; exact HC);
      left;
      match goal with
      | Hx : exists f r, _ |- _ =>
          destruct Hx as [f [r [Hob [Hat Hin]]]]; exists (f, r); split; [apply all_coords_on_board; exact Hob|];
          cbn [fst snd]; apply (piece_moves_In (abs p) f r m (Hle f r)); cbn [abs sp_board sp_white]; tauto
      end.
  - intros [[[f r] [Hc Hin]]|HC]; [|left; left; right; exact HC].
    apply all_coords_on_board in Hc. cbn [fst snd] in Hin.
    apply (piece_moves_In (abs p) f r m (Hle f r)) in Hin. cbn [abs sp_board sp_white] in Hin.
    destruct Hin as [[Hat Hin]|[[Hat Hin]|[[Hat Hin]|[[Hat Hin]|[[Hat Hin]|[Hat Hin]]]]]].
    + left. left. left. right. exists f, r. auto.
    + left. right. exists f, r. auto.
    + left. left. left. left. left. right. exists f, r. auto.
    + left. left. left. left. right. exists f, r. auto.
    + left. left. left. left. left. left. right. exists f, r. auto.
    + right. exists f, r. auto.
Qed.

(** the Spec's own pseudo-moves are the engine's minus castlings onto an attacked square *)
Theorem pseudo_moves_relax : forall sp m,
  In m (pseudo_moves sp) <->
  In m (flat_map (fun c => piece_moves sp (fst c) (snd c)) all_coords) \/ In m (castle_moves sp).
Proof. intros. unfold pseudo_moves. apply in_app_iff. Qed.

Theorem pseudo_spec_incl_engine : forall sp m, In m (pseudo_moves sp) -> In m (pseudo_moves_engine sp).
Proof.
  intros sp m H. unfold pseudo_moves_engine. apply pseudo_moves_relax in H. apply in_app_iff.
  destruct H as [H|H]; [left; exact H | right; apply castle_moves_relax in H; apply H].
Qed.

(** non-vacuity: kiwipete has 48 pseudo-legal moves in both worlds (both castlings included) *)
Example kiwipete_pseudo :
  length (pseudoLegalMoves kiwipete) = 48%nat /\ length (pseudo_moves_engine (abs kiwipete)) = 48%nat /\
  In (mkMove 4 6 EMPTY) (pseudoLegalMoves kiwipete) /\ In (mkMove 4 2 EMPTY) (pseudoLegalMoves kiwipete).
Proof. vm_compute. intuition. Qed.

Theorem pseudo_exact_all : forall p m, WF p ->
  (In m (pseudoLegalMoves p) <-> In m (pseudo_moves_engine (abs p))) /\
  (In m (pseudo_moves (abs p)) -> In m (pseudoLegalMoves p)) /\
  (legal_spec (abs p) m -> In m (pseudoLegalMoves p)).
Proof.
  intros p m H. split; [apply pseudoLegalMoves_spec; exact H|]. split.
  - intro Hin. apply (pseudoLegalMoves_spec p m H). apply pseudo_spec_incl_engine. exact Hin.
  - intros [Hin _]. apply (pseudoLegalMoves_spec p m H). apply pseudo_spec_incl_engine. exact Hin.
Qed.
