(** MoveGen::givesCheck (partial form of C01_givesCheck): for a legal move that is not a
    promotion, not an en-passant capture and not castling, givesCheck's verdict is the Spec's
    "the opponent's king is attacked after the move": direct checks by the moved piece (per
    piece kind, through nextPiece) and discovered checks (the from-square leaves the line
    between an own slider and the king: nextPiece towards the king, nextPieceSafe away from it). *)
From Coq Require Import ZArith NArith List Bool Lia.
From Texel Require Import Chess.Types Chess.Position Chess.PositionSpec Chess.PositionFacts Chess.PositionProofs
  Chess.PositionProofs2 Chess.PositionProofs4 Chess.PositionTheorems Chess.PositionB
  Chess.BitBoard Chess.MoveGen Chess.Spec Chess.MoveGenWF
  Chess.BitBoardProofs Chess.RayProofs Chess.MoveGenProofs Chess.AttackProofs Chess.SliderProofs Chess.PawnProofs
  Chess.PseudoProofs Chess.MakeSpecProofs Chess.TryMoveProofs Chess.CastleProofs Chess.LegalProofs Chess.ShortcutProofs
  Chess.IsLegalProofs Chess.CapturesProofs Chess.NoDupProofs Chess.WfProofs Chess.IsLegalFull Chess.EvasionsIn Chess.IsLegalAll
  Chess.RemoveIllegalIndep Chess.EvasionsComplete gen.BitBoardTables.
Import ListNotations.
Local Open Scope N_scope.

Definition rayDir (d : Z) : bool := isRookDir d || isBishopDir d.

(** * nextPiece towards a uniquely placed piece *)
Definition W1P (s k : square) : bool :=
  let d := getDirection s k in
  if rayDir d then
    let s' := (Z.of_N s + d)%Z in
    (0 <=? s')%Z && (s' <=? 63)%Z &&
    (let s1 := Z.to_N s' in
     if s1 =? k then SB s k =? 0
     else (getDirection s1 k =? d)%Z && (SB s k =? N.lor (bit s1) (SB s1 k)) && (getKingDistance s1 k =? getKingDistance s k - 1)%Z)
    && (1 <=? getKingDistance s k)%Z
  else true.
Lemma W1_ok : forallb (fun a => forallb (W1P a) allSquares) allSquares = true.
Proof. vm_compute. reflexivity. Qed.

Lemma land_lor_bit : forall s X o, N.land (N.lor (bit s) X) o =? 0 = negb (N.testbit o s) && (N.land X o =? 0).
Proof.
  intros s X o. apply eq_true_iff_eq. rewrite andb_true_iff, negb_true_iff, !N.eqb_eq, !land_zero_iff. split.
  - intro H. split; [apply H; rewrite N.lor_spec, bit_testbit, N.eqb_refl; reflexivity|].
    intros x Hx. apply H. rewrite N.lor_spec, Hx. apply orb_true_r.
  - intros [H1 H2] x Hx. rewrite N.lor_spec, bit_testbit in Hx. apply orb_true_iff in Hx.
    destruct Hx as [Hx|Hx]; [apply N.eqb_eq in Hx; subst x; exact H1 | apply H2; exact Hx].
Qed.

Section NextPiece.
Variable p : position.
Hypothesis HB : BoardOK p.
Variable Kp : piece.
Variable k : square.
Hypothesis Hk : k < 64.
Hypothesis HKk : getPiece p k = Kp.
Hypothesis HKne : Kp <> EMPTY.
Hypothesis HKu : forall s, s < 64 -> getPiece p s = Kp -> s = k.

Lemma nextPieceLoop_king : forall fuel s, s < 64 -> rayDir (getDirection s k) = true ->
  (Z.to_nat (getKingDistance s k) <= fuel)%nat ->
  (nextPieceLoop fuel p (Z.of_N s) (getDirection s k) =? Kp) = (N.land (SB s k) (occupiedBB p) =? 0).
Proof.
  induction fuel as [|fuel IH]; intros s Hs Hd Hf.
  - exfalso. pose proof (sweep2 W1P W1_ok s k Hs Hk) as H. unfold W1P in H. cbv zeta in H. rewrite Hd in H.
    rewrite !andb_true_iff in H. destruct H as [_ H1]. apply Z.leb_le in H1. lia.
  - pose proof (sweep2 W1P W1_ok s k Hs Hk) as H. unfold W1P in H. cbv zeta in H. rewrite Hd in H.
    rewrite !andb_true_iff in H. destruct H as [[[A1 A2] A3] A4]. apply Z.leb_le in A1, A2, A4.
    cbn [nextPieceLoop]. set (d := getDirection s k) in *.
    replace ((Z.of_N s + d <? 0) || (63 <? Z.of_N s + d))%Z with false
      by (symmetry; apply orb_false_iff; split; apply Z.ltb_ge; lia).
    set (s1 := Z.to_N (Z.of_N s + d)) in *. assert (Hs1 : s1 < 64) by (unfold s1; lia).
    assert (Es1 : (Z.of_N s + d)%Z = Z.of_N s1) by (unfold s1; lia).
    destruct (N.eqb_spec s1 k) as [E|Ne].
    + apply N.eqb_eq in A3. rewrite E, HKk. replace (Kp =? EMPTY) with false by (symmetry; apply N.eqb_neq; exact HKne).
      cbn [negb]. rewrite N.eqb_refl, A3, N.land_0_l. reflexivity.
    + rewrite !andb_true_iff in A3. destruct A3 as [[B1 B2] B3]. apply Z.eqb_eq in B1, B3. apply N.eqb_eq in B2.
      rewrite B2, land_lor_bit, (occupied_testbit_B p s1 HB).
      replace (s1 <? 64) with true by (symmetry; apply N.ltb_lt; exact Hs1). cbn [andb].
      destruct (N.eqb_spec (getPiece p s1) EMPTY) as [Ee|Ene]; cbn [negb andb].
      * rewrite Es1, <- B1. apply IH; [exact Hs1 | rewrite B1; exact Hd | lia].
      * apply N.eqb_neq. intro E. apply Ne. apply HKu; assumption.
Qed.

Lemma nextPiece_king : forall s, s < 64 -> rayDir (getDirection s k) = true ->
  (nextPiece p s (getDirection s k) =? Kp) = (N.land (SB s k) (occupiedBB p) =? 0).
Proof.
  intros s Hs Hd. unfold nextPiece. apply nextPieceLoop_king; [exact Hs | exact Hd|].
  unfold getKingDistance. assert (0 <= zX s <= 7 /\ 0 <= zY s <= 7 /\ 0 <= zX k <= 7 /\ 0 <= zY k <= 7)%Z.
  { rewrite !zX_zf, !zY_zr. destruct (sq_decomp s Hs) as (_ & A & B). destruct (sq_decomp k Hk) as (_ & C & D). lia. }
  lia.
Qed.
End NextPiece.

(** * nextPieceSafe = the Spec's ray walk = the first hit on the engine's ray *)
Definition room (x dx : Z) : Z := if (dx =? 1)%Z then 7 - x else if (dx =? -1)%Z then x else 7.

Ltac elim_min :=
  repeat match goal with
         | H : context [Z.min ?a ?b] |- _ => let E := fresh "E" in destruct (Z.min_spec a b) as [[? E]|[? E]]; rewrite E in *; clear E
         | |- context [Z.min ?a ?b] => let E := fresh "E" in destruct (Z.min_spec a b) as [[? E]|[? E]]; rewrite E in *; clear E
         end.

Lemma nextPieceSafeLoop_ray_first : forall pos dx dy, In (dx, dy) allDirs ->
  forall fuel x y, on_board x y = true -> (Z.min (room x dx) (room y dy) < Z.of_nat fuel)%Z ->
  nextPieceSafeLoop fuel pos x y dx dy = ray_first (squares pos) fuel x y dx dy.
Proof.
  intros pos dx dy Hd.
  assert (Hdd : ((dx = 0 \/ dx = 1 \/ dx = -1) /\ (dy = 0 \/ dy = 1 \/ dy = -1) /\ (dx <> 0 \/ dy <> 0))%Z).
  { unfold allDirs in Hd. cbn in Hd. intuition (try congruence); match goal with E : (_, _) = (_, _) |- _ => injection E; intros; subst; lia end. }
  assert (R0 : forall z, room z 0 = 7%Z) by reflexivity.
  assert (R1 : forall z, room z 1 = (7 - z)%Z) by reflexivity.
  assert (Rm : forall z, room z (-1) = z) by reflexivity.
  induction fuel as [|fuel IH]; intros x y Hob Hr.
  - exfalso. unfold on_board in Hob. rewrite !andb_true_iff, !Z.leb_le in Hob.
    destruct Hdd as ([->|[->| ->]] & [->|[->| ->]] & Hnz); rewrite ?R0, ?R1, ?Rm in Hr; change (Z.of_nat 0) with 0%Z in Hr; elim_min; lia.
  - cbn [nextPieceSafeLoop ray_first]. unfold on_board at 1.
    pose proof Hob as Hob0. unfold on_board in Hob0. rewrite !andb_true_iff, !Z.leb_le in Hob0.
    destruct (Z.ltb_spec (x + dx) 0), (Z.leb_spec 0 (x + dx)); try lia; cbn [orb andb]; try reflexivity.
    rewrite Z.gtb_ltb. destruct (Z.ltb_spec 7 (x + dx)), (Z.leb_spec (x + dx) 7); try lia; cbn [orb andb]; try reflexivity.
    destruct (Z.ltb_spec (y + dy) 0), (Z.leb_spec 0 (y + dy)); try lia; cbn [orb andb]; try reflexivity.
    rewrite Z.gtb_ltb. destruct (Z.ltb_spec 7 (y + dy)), (Z.leb_spec (y + dy) 7); try lia; cbn [orb andb]; try reflexivity.
    assert (Hob' : on_board (x + dx) (y + dy) = true) by (unfold on_board; rewrite !andb_true_iff, !Z.leb_le; lia).
    unfold at_. rewrite Hob'. unfold getPiece, idx. rewrite Z_N_nat.
    destruct (nth (Z.to_nat ((y + dy) * 8 + (x + dx))) (squares pos) EMPTY =? EMPTY); cbn [negb]; [|reflexivity].
    apply IH; [exact Hob'|]. rewrite Nat2Z.inj_succ in Hr.
    destruct Hdd as ([->|[->| ->]] & [->|[->| ->]] & Hnz); rewrite ?R0, ?R1, ?Rm in *; elim_min; lia.
Qed.

Definition dirCode (d : Z * Z) : Z := (8 * snd d + fst d)%Z.

Lemma deltaToDxDy_code : forall d, In d allDirs -> deltaToDxDy (dirCode d) = d.
Proof. intros d H. unfold allDirs in H. cbn in H. repeat (destruct H as [<-|H]; [reflexivity|]). destruct H. Qed.

Lemma rayDir_code : forall delta, rayDir delta = true -> exists d, In d allDirs /\ dirCode d = delta /\
  (isRookDir delta = true -> In d rook_dirs) /\ (isBishopDir delta = true -> In d bishop_dirs).
Proof.
  intros delta H. unfold rayDir, isRookDir, isBishopDir in *. rewrite !orb_true_iff, !Z.eqb_eq in H.
  destruct H as [[[[->| ->]| ->]| ->]|[[[->| ->]| ->]| ->]];
    [exists (0, 1)%Z | exists (0, -1)%Z | exists (1, 0)%Z | exists (-1, 0)%Z | exists (1, 1)%Z | exists (-1, 1)%Z | exists (-1, -1)%Z | exists (1, -1)%Z];
    (split; [unfold allDirs; cbn; tauto|]); (split; [reflexivity|]); split; intro E; try discriminate E; cbn; tauto.
Qed.

Lemma nextPieceSafe_hit : forall pos f d, BoardOK pos -> f < 64 -> In d allDirs ->
  nextPieceSafe pos f (dirCode d) =
  match firstHit (occupiedBB pos) (ray f d) with Some s => getPiece pos s | None => EMPTY end.
Proof.
  intros pos f d HB Hf Hd. unfold nextPieceSafe. rewrite (deltaToDxDy_code d Hd). destruct d as [dx dy].
  assert (Hnz : ((dx =? 0) && (dy =? 0))%Z = false).
  { unfold allDirs in Hd. cbn in Hd. repeat (destruct Hd as [E|Hd]; [injection E; intros; subst; reflexivity|]). destruct Hd. }
  rewrite Hnz. destruct (coords_of_sq f Hf) as [Hob _]. rewrite <- zX_zf, <- zY_zr in Hob.
  rewrite (nextPieceSafeLoop_ray_first pos dx dy Hd 8 _ _ Hob).
  - rewrite (ray_first_firstHit pos HB 8 _ _ _ _ Hob Hd). reflexivity.
  - unfold on_board in Hob. rewrite !andb_true_iff, !Z.leb_le in Hob. change (Z.of_nat 8) with 8%Z.
    unfold allDirs in Hd. cbn [app rook_dirs bishop_dirs In] in Hd.
    repeat (destruct Hd as [E|Hd]; [injection E; intros; subst; unfold room; cbn [Z.eqb Pos.eqb]; elim_min; lia|]). destruct Hd.
Qed.

(** * Geometry (finite sweeps) *)
Definition patkOf (wtm : bool) (b : square) : N := if negb wtm then wPawnAttacks b else bPawnAttacks b.

Definition D1P (a b : square) : bool :=
  let d := getDirection a b in
  Bool.eqb (isRookDir d) (rookAligned a b) && Bool.eqb (isBishopDir d) (bishopAligned a b)
  && Bool.eqb (negb (rayDir d) && negb (d =? 0)%Z) (N.testbit (knightAttacks b) a)
  && forallb (fun wtm : bool => Bool.eqb (isBishopDir d && Bool.eqb (0 <? d)%Z wtm && (sqAdd a d =? b)) (N.testbit (patkOf wtm b) a)) [true; false]
  && (getDirection b a =? - d)%Z.
Lemma D1_ok : forallb (fun a => forallb (D1P a) allSquares) allSquares = true.
Proof. vm_compute. reflexivity. Qed.

Lemma D1 : forall a b, a < 64 -> b < 64 ->
  isRookDir (getDirection a b) = rookAligned a b /\ isBishopDir (getDirection a b) = bishopAligned a b /\
  (negb (rayDir (getDirection a b)) && negb (getDirection a b =? 0)%Z) = N.testbit (knightAttacks b) a /\
  (forall wtm : bool, (isBishopDir (getDirection a b) && Bool.eqb (0 <? getDirection a b)%Z wtm && (sqAdd a (getDirection a b) =? b))
                       = N.testbit (patkOf wtm b) a) /\
  getDirection b a = (- getDirection a b)%Z.
Proof.
  intros a b Ha Hb. pose proof (sweep2 D1P D1_ok a b Ha Hb) as H. unfold D1P in H. cbv zeta in H.
  rewrite !andb_true_iff in H. destruct H as [[[[H1 H2] H3] H4] H5].
  apply eqb_prop in H1, H2, H3. apply Z.eqb_eq in H5. repeat split; try assumption.
  intro wtm. rewrite forallb_forall in H4. apply eqb_prop. apply H4. destruct wtm; cbn; auto.
Qed.

(** a square between x and k looks at k in the same direction as x does *)
Definition H1P (a k : square) : bool :=
  let sb := SB a k in let d := getDirection a k in
  forallb (fun x => if N.testbit sb x then (getDirection x k =? d)%Z else true) allSquares.
Lemma H1_ok : forallb (fun a => forallb (H1P a) allSquares) allSquares = true.
Proof. vm_compute. reflexivity. Qed.
Lemma H1 : forall a k x, a < 64 -> k < 64 -> x < 64 -> N.testbit (SB a k) x = true -> getDirection x k = getDirection a k.
Proof.
  intros a k x Ha Hk Hx Hb. pose proof (sweep2 H1P H1_ok a k Ha Hk) as H. unfold H1P in H. cbv zeta in H.
  pose proof (inner_sweep _ x H Hx) as H'. cbv beta in H'. rewrite Hb in H'. apply Z.eqb_eq in H'. exact H'.
Qed.

(** f between k and y: the line splits at f *)
Definition H3P (k y : square) : bool :=
  let sb := SB k y in
  forallb (fun f => if N.testbit sb f then
                      let d := getDirection f k in
                      (sb =? N.lor (N.lor (SB k f) (bit f)) (SB f y)) && (getDirection f y =? - d)%Z && rayDir d
                      && Bool.eqb (isRookDir d) (rookAligned k y) && Bool.eqb (isBishopDir d) (bishopAligned k y)
                      && forallb (fun t => if (getDirection t k =? d)%Z then
                                             if t =? f then true else if N.testbit sb t then true else if t =? y then true else N.testbit (SB f t) y
                                           else negb (N.testbit (SB f y) t)) allSquares
                    else true) allSquares.
Lemma H3_ok : forallb (fun a => forallb (H3P a) allSquares) allSquares = true.
Proof. vm_compute. reflexivity. Qed.
Lemma H3 : forall k y f, k < 64 -> y < 64 -> f < 64 -> N.testbit (SB k y) f = true ->
  SB k y = N.lor (N.lor (SB k f) (bit f)) (SB f y) /\ getDirection f y = (- getDirection f k)%Z /\ rayDir (getDirection f k) = true /\
  isRookDir (getDirection f k) = rookAligned k y /\ isBishopDir (getDirection f k) = bishopAligned k y /\
  (forall t, t < 64 -> getDirection t k = getDirection f k -> t <> f -> N.testbit (SB k y) t = false -> t <> y -> N.testbit (SB f t) y = true) /\
  (forall t, t < 64 -> N.testbit (SB f y) t = true -> getDirection t k = getDirection f k).
Proof.
  intros k y f Hk Hy Hf Hb. pose proof (sweep2 H3P H3_ok k y Hk Hy) as H. unfold H3P in H. cbv zeta in H.
  pose proof (inner_sweep _ f H Hf) as H'. cbv beta in H'. rewrite Hb in H'.
  rewrite !andb_true_iff in H'. destruct H' as [[[[[A1 A2] A3] A4] A5] A6].
  apply N.eqb_eq in A1. apply Z.eqb_eq in A2. apply eqb_prop in A4, A5.
  split; [exact A1|]. split; [exact A2|]. split; [exact A3|]. split; [exact A4|]. split; [exact A5|]. split.
  - intros t Ht Hd N1 N2 N3. pose proof (inner_sweep _ t A6 Ht) as H6. cbv beta in H6.
    rewrite Hd, Z.eqb_refl, N2 in H6.
    replace (t =? f) with false in H6 by (symmetry; apply N.eqb_neq; exact N1).
    replace (t =? y) with false in H6 by (symmetry; apply N.eqb_neq; exact N3). exact H6.
  - intros t Ht Hbt. pose proof (inner_sweep _ t A6 Ht) as H6. cbv beta in H6.
    destruct (Z.eqb_spec (getDirection t k) (getDirection f k)) as [E|_]; [exact E|]. rewrite Hbt in H6. discriminate.
Qed.

(** f looks at k and at y in opposite ray directions: f is between them *)
Definition H6P (f k : square) : bool :=
  let d := getDirection f k in
  if rayDir d then forallb (fun y => if (getDirection f y =? - d)%Z then N.testbit (SB k y) f else true) allSquares else true.
Lemma H6_ok : forallb (fun a => forallb (H6P a) allSquares) allSquares = true.
Proof. vm_compute. reflexivity. Qed.
Lemma H6 : forall f k y, f < 64 -> k < 64 -> y < 64 -> rayDir (getDirection f k) = true ->
  getDirection f y = (- getDirection f k)%Z -> N.testbit (SB k y) f = true.
Proof.
  intros f k y Hf Hk Hy Hr Hd. pose proof (sweep2 H6P H6_ok f k Hf Hk) as H. unfold H6P in H. cbv zeta in H. rewrite Hr in H.
  pose proof (inner_sweep _ y H Hy) as H'. cbv beta in H'. rewrite Hd, Z.eqb_refl in H'. exact H'.
Qed.

Lemma rayDir_neg : forall d, rayDir (- d) = rayDir d.
Proof.
  intro d. unfold rayDir, isRookDir, isBishopDir.
  destruct (Z.eqb_spec d 8), (Z.eqb_spec d (-8)), (Z.eqb_spec d 1), (Z.eqb_spec d (-1)),
           (Z.eqb_spec d 9), (Z.eqb_spec d 7), (Z.eqb_spec d (-9)), (Z.eqb_spec d (-7)); try lia; subst; try reflexivity;
  destruct (Z.eqb_spec (- d) 8), (Z.eqb_spec (- d) (-8)), (Z.eqb_spec (- d) 1), (Z.eqb_spec (- d) (-1)),
           (Z.eqb_spec (- d) 9), (Z.eqb_spec (- d) 7), (Z.eqb_spec (- d) (-9)), (Z.eqb_spec (- d) (-7)); try lia; reflexivity.
Qed.

(** ray lists and direction codes *)
Definition H5P (s : square) : bool :=
  forallb (fun d => forallb (fun y => (y <? 64) && (getDirection s y =? dirCode d)%Z) (ray s d)) allDirs
  && forallb (fun y => let dl := getDirection s y in if rayDir dl then existsb (N.eqb y) (ray s (deltaToDxDy dl)) else true) allSquares.
Lemma H5_ok : forallb H5P allSquares = true.
Proof. vm_compute. reflexivity. Qed.
Lemma H5 : forall s, s < 64 ->
  (forall d y, In d allDirs -> In y (ray s d) -> y < 64 /\ getDirection s y = dirCode d) /\
  (forall y, y < 64 -> rayDir (getDirection s y) = true -> In y (ray s (deltaToDxDy (getDirection s y)))).
Proof.
  intros s Hs. pose proof (sweep1 _ H5_ok s Hs) as H. unfold H5P in H. apply andb_true_iff in H. destruct H as [A B]. split.
  - intros d y Hd Hy. rewrite forallb_forall in A. specialize (A d Hd). rewrite forallb_forall in A. specialize (A y Hy).
    apply andb_true_iff in A. destruct A as [A1 A2]. apply N.ltb_lt in A1. apply Z.eqb_eq in A2. auto.
  - intros y Hy Hr. pose proof (inner_sweep _ y B Hy) as B'. cbv beta zeta in B'. rewrite Hr in B'.
    apply existsb_exists in B'. destruct B' as [x [Hx E]]. apply N.eqb_eq in E. subst x. exact Hx.
Qed.

Lemma dir_excl : forall d, (isRookDir d = true -> isBishopDir d = false /\ (d =? 0)%Z = false) /\
                           (isBishopDir d = true -> isRookDir d = false /\ (d =? 0)%Z = false).
Proof.
  intro d. unfold isRookDir, isBishopDir. split; intro H; rewrite !orb_true_iff, !Z.eqb_eq in H;
    destruct H as [[[H|H]|H]|H]; subst d; split; reflexivity.
Qed.

(** * The first piece behind a square, in terms of attack sets *)
Lemma behind_iff : forall pos f delta X, BoardOK pos -> f < 64 -> rayDir delta = true -> X <> EMPTY ->
  (nextPieceSafe pos f delta = X <->
   exists y, y < 64 /\ getDirection f y = delta /\ getPiece pos y = X /\ N.land (SB f y) (occupiedBB pos) = 0).
Proof.
  intros pos f delta X HB Hf Hr HX. destruct (rayDir_code delta Hr) as (d & Hd & Ec & HdR & HdB). subst delta.
  rewrite (nextPieceSafe_hit pos f d HB Hf Hd). destruct (H5 f Hf) as [H5a H5b]. split.
  - intro E. destruct (firstHit (occupiedBB pos) (ray f d)) as [y|] eqn:Eh; [|congruence].
    destruct (firstHit_in_cut _ _ _ Eh) as [Hin Ho]. pose proof (cutAt_incl _ _ _ Hin) as Hin'.
    destruct (H5a d y Hd Hin') as [Hy Hdir]. exists y. split; [exact Hy|]. split; [exact Hdir|]. split; [exact E|].
    unfold rayDir in Hr. apply orb_true_iff in Hr. destruct Hr as [Hr|Hr].
    + assert (Hb : N.testbit (rookAttacks f (occupiedBB pos)) y = true) by (apply rookAttacks_cut; exists d; split; [apply HdR; exact Hr | exact Hin]).
      apply (rookAttacks_testbit f _ y Hf) in Hb. apply Hb.
    + assert (Hb : N.testbit (bishopAttacks f (occupiedBB pos)) y = true) by (apply bishopAttacks_cut; exists d; split; [apply HdB; exact Hr | exact Hin]).
      apply (bishopAttacks_testbit f _ y Hf) in Hb. apply Hb.
  - intros (y & Hy & Hdir & Hp & Hz).
    assert (Hin' : In y (ray f d)).
    { pose proof (H5b y Hy) as Hx. rewrite Hdir in Hx. rewrite (deltaToDxDy_code d Hd) in Hx. apply Hx. exact Hr. }
    assert (Hocc : occb (occupiedBB pos) y = true).
    { rewrite occb_testbit, (occupied_testbit_B pos y HB). replace (y <? 64) with true by (symmetry; apply N.ltb_lt; exact Hy).
      rewrite Hp. cbn [andb]. apply negb_true_iff, N.eqb_neq. exact HX. }
    destruct (D1 f y Hf Hy) as (DR & DB & _). rewrite Hdir in DR, DB.
    assert (Hcut : In y (cutAt (occupiedBB pos) (ray f d))).
    { unfold rayDir in Hr. apply orb_true_iff in Hr. destruct Hr as [Hr|Hr].
      - assert (Hb : N.testbit (rookAttacks f (occupiedBB pos)) y = true) by (apply (rookAttacks_testbit f _ y Hf); rewrite <- DR; auto).
        apply rookAttacks_cut in Hb. destruct Hb as [d' [Hd' Hin]].
        assert (Hd'a : In d' allDirs) by (unfold allDirs; apply in_or_app; left; exact Hd').
        destruct (H5a d' y Hd'a (cutAt_incl _ _ _ Hin)) as [_ E']. rewrite Hdir in E'.
        assert (d' = d) by (rewrite <- (deltaToDxDy_code d Hd), <- (deltaToDxDy_code d' Hd'a); f_equal; auto). subst d'. exact Hin.
      - assert (Hb : N.testbit (bishopAttacks f (occupiedBB pos)) y = true) by (apply (bishopAttacks_testbit f _ y Hf); rewrite <- DB; auto).
        apply bishopAttacks_cut in Hb. destruct Hb as [d' [Hd' Hin]].
        assert (Hd'a : In d' allDirs) by (unfold allDirs; apply in_or_app; right; exact Hd').
        destruct (H5a d' y Hd'a (cutAt_incl _ _ _ Hin)) as [_ E']. rewrite Hdir in E'.
        assert (d' = d) by (rewrite <- (deltaToDxDy_code d Hd), <- (deltaToDxDy_code d' Hd'a); f_equal; auto). subst d'. exact Hin. }
    rewrite (cut_occupied_is_hit _ _ _ Hcut Hocc). exact Hp.
Qed.

Lemma own_cases : forall (w : bool) pc, pc <= 12 -> has_color w pc = true ->
  exists X, In X [1; 2; 3; 4; 5; 6] /\ pc = myPiece w X.
Proof.
  intros w pc Hle Hc.
  destruct (le12_cases _ Hle) as [E|[E|[E|[E|[E|[E|[E|[E|[E|[E|[E|[E|E]]]]]]]]]]]]; subst pc; destruct w; try discriminate Hc;
    [exists 1 | exists 2 | exists 3 | exists 4 | exists 5 | exists 6 | exists 1 | exists 2 | exists 3 | exists 4 | exists 5 | exists 6];
    (split; [cbn; tauto | reflexivity]).
Qed.

Section GivesCheck.
Variable p : position.
Hypothesis HWF : WF p.
Variable m : move.
Hypothesis Hleg : legal_spec (abs p) m.
Hypothesis Hpro : mpromote m = EMPTY.
Hypothesis Hep : isEp p m = false.
Hypothesis HcK : isCK p m = false.
Hypothesis HcQ : isCQ p m = false.
Let w := whiteMove p.
Let oks := kingSq p (negb w).
Let occ := occupiedBB p.
Let q := fst (makeMove zkDummy p m).

Lemma gHm : In m (pseudoLegalMoves p).
Proof. apply (pseudo_exact_all p m HWF). exact Hleg. Qed.
Lemma gWFq : WF q.
Proof. exact (made_WF zkDummy p HWF m Hleg). Qed.
Lemma gHBp : BoardOK p. Proof. exact (WF_BoardOK p HWF). Qed.
Lemma gHBq : BoardOK q. Proof. exact (WF_BoardOK q gWFq). Qed.

Lemma g_move : mfrom m < 64 /\ mto m < 64 /\ mfrom m <> mto m /\
  has_color w (getPiece p (mfrom m)) = true /\ has_color w (getPiece p (mto m)) = false.
Proof.
  pose proof (leg_facts zkDummy p HWF m Hleg) as (_ & (_ & Hok & _) & _).
  pose proof (moveOk_facts p m Hok) as F. cbv zeta in F. destruct F as (Hf & Ht & Hne & Hown & Hcapn & _). fold w in Hown, Hcapn.
  rewrite (ownPiece_has_color w _ (BoardOK_le12 p _ gHBp)) in Hown. rewrite (ownPiece_has_color w _ (BoardOK_le12 p _ gHBp)) in Hcapn. auto.
Qed.

Lemma g_q : forall s, getPiece q s = if s =? mto m then getPiece p (mfrom m) else if s =? mfrom m then EMPTY else getPiece p s.
Proof.
  intro s. destruct g_move as (Hf & Ht & _).
  unfold q. rewrite (q_get zkDummy p HWF m Hleg), (b'_form zkDummy p HWF m Hleg). cbv zeta. rewrite HcK, HcQ, Hep.
  unfold landing. rewrite Hpro, N.eqb_refl. destruct (WF_parts p HWF) as [Hl _].
  destruct (N.eqb_spec s (mto m)) as [->|N1]; [apply nth_updN_eq; rewrite length_updN; lia|].
  rewrite nth_updN_neq by auto.
  destruct (N.eqb_spec s (mfrom m)) as [->|N2]; [apply nth_updN_eq; lia|].
  rewrite nth_updN_neq by auto. reflexivity.
Qed.

Lemma g_oks : oks < 64 /\ getPiece p oks = mk_piece (negb w) King /\ oks <> mfrom m /\ oks <> mto m /\
  getPiece q oks = mk_piece (negb w) King.
Proof.
  destruct (kingSq_spec p (negb w) HWF) as [Hk Hkp]. fold oks in Hk, Hkp. destruct g_move as (_ & _ & _ & Hown & _).
  assert (N1 : oks <> mfrom m) by (intro E; rewrite <- E, Hkp in Hown; unfold w in Hown; destruct (whiteMove p); discriminate).
  assert (N2 : oks <> mto m) by (intro E; apply (cap_not_king zkDummy p HWF m Hleg (negb w)); rewrite <- E; exact Hkp).
  repeat split; try assumption. rewrite g_q.
  replace (oks =? mto m) with false by (symmetry; apply N.eqb_neq; exact N2).
  replace (oks =? mfrom m) with false by (symmetry; apply N.eqb_neq; exact N1). exact Hkp.
Qed.

Lemma g_occq : forall s, N.testbit (occupiedBB q) s = if s =? mto m then true else if s =? mfrom m then false else N.testbit occ s.
Proof.
  intro s. destruct g_move as (Hf & Ht & _ & Hown & _). rewrite (occupied_testbit_B q s gHBq), g_q.
  destruct (N.eqb_spec s (mto m)) as [->|N1].
  - replace (mto m <? 64) with true by (symmetry; apply N.ltb_lt; exact Ht). cbn [andb]. apply negb_true_iff, N.eqb_neq.
    intro E. rewrite E in Hown. destruct w; discriminate.
  - destruct (N.eqb_spec s (mfrom m)) as [->|N2]; [change (EMPTY =? EMPTY) with true; apply andb_false_r|].
    symmetry. apply (occupied_testbit_B p s gHBp).
Qed.

Lemma g_mine : forall X y, In X [1; 2; 3; 4; 5; 6] ->
  N.testbit (ptBB q (myPiece w X)) y =
  if y =? mto m then (getPiece p (mfrom m) =? myPiece w X) else if y =? mfrom m then false else N.testbit (ptBB p (myPiece w X)) y.
Proof.
  intros X y HX. destruct g_move as (Hf & Ht & _).
  assert (Hc : In (myPiece w X) pieceCodes) by (apply myPiece_codes; exact HX).
  rewrite (BoardOK_ptBB q _ y gHBq Hc), (BoardOK_ptBB p _ y gHBp Hc), g_q.
  destruct (N.eqb_spec y (mto m)) as [->|N1]; [replace (mto m <? 64) with true by (symmetry; apply N.ltb_lt; exact Ht); reflexivity|].
  destruct (N.eqb_spec y (mfrom m)) as [->|N2]; [|reflexivity].
  replace (EMPTY =? myPiece w X) with false; [apply andb_false_r|].
  symmetry. apply N.eqb_neq. cbn [In] in HX. unfold w. destruct (whiteMove p); repeat (destruct HX as [<-|HX]; [discriminate|]); destruct HX.
Qed.

(** the Spec's verdict as the engine's attack test on the position after the move *)
Lemma g_spec : gives_check_spec (abs p) m = sqAttackedT (negb w) q oks (occupiedBB q).
Proof.
  destruct g_oks as (Hk & _ & _ & _ & HkQ).
  pose proof (leg_facts zkDummy p HWF m Hleg) as (_ & _ & _ & Esq & _). fold q in Esq.
  unfold gives_check_spec. cbv zeta.
  replace (sp_white (make_spec (abs p) m)) with (negb w) by reflexivity.
  rewrite <- Esq. unfold in_checkb.
  rewrite (find_king_spec (squares q) (negb w) oks Hk HkQ)
    by (intros s1 s2 H1 H2 K1 K2; apply (king_unique q (negb w) s1 s2 gWFq H1 H2 K1 K2)).
  symmetry. apply (sqAttacked_spec q (negb w) oks gWFq Hk).
Qed.

(** the opponent is not in check before the move *)
Lemma g_before : sqAttackedT (negb w) p oks occ = false.
Proof.
  destruct g_oks as (Hk & Hkp & _).
  destruct (WF_parts p HWF) as [_ [_ [_ [_ Hacc]]]]. destruct (accepted_parts _ Hacc) as (_ & _ & _ & _ & Hnc & _).
  cbn [abs sp_board sp_white] in Hnc. fold w in Hnc. unfold in_checkb in Hnc.
  rewrite (find_king_spec (squares p) (negb w) oks Hk Hkp) in Hnc
    by (intros s1 s2 H1 H2 K1 K2; apply (king_unique p (negb w) s1 s2 HWF H1 H2 K1 K2)).
  rewrite <- (sqAttacked_spec p (negb w) oks HWF Hk) in Hnc. exact Hnc.
Qed.

Definition mine (X : piece) (y : square) : Prop := N.testbit (ptBB p (myPiece w X)) y = true.

Definition DirectP : Prop :=
  let pc := getPiece p (mfrom m) in let t := mto m in
  (pc = myPiece w WKNIGHT /\ N.testbit (knightAttacks oks) t = true) \/
  (pc = myPiece w WPAWN /\ N.testbit (patkOf w oks) t = true) \/
  ((pc = myPiece w WBISHOP \/ pc = myPiece w WQUEEN) /\ bishopAligned oks t = true /\ N.land (SB oks t) occ = 0) \/
  ((pc = myPiece w WROOK \/ pc = myPiece w WQUEEN) /\ rookAligned oks t = true /\ N.land (SB oks t) occ = 0).

Definition DiscP : Prop :=
  exists y, y < 64 /\ y <> mto m /\ y <> mfrom m /\ N.testbit (SB oks y) (mfrom m) = true /\ N.testbit (SB oks y) (mto m) = false /\
    (forall x, N.testbit (SB oks y) x = true -> x <> mfrom m -> N.testbit occ x = false) /\
    ((rookAligned oks y = true /\ (mine WROOK y \/ mine WQUEEN y)) \/ (bishopAligned oks y = true /\ (mine WBISHOP y \/ mine WQUEEN y))).

Lemma g_attack_old : forall X y, In X [1; 2; 3; 4; 5; 6] -> y <> mto m -> y <> mfrom m ->
  N.testbit (ptBB q (myPiece w X)) y = true -> mine X y.
Proof.
  intros X y HX N1 N2 H. rewrite (g_mine X y HX) in H.
  replace (y =? mto m) with false in H by (symmetry; apply N.eqb_neq; exact N1).
  replace (y =? mfrom m) with false in H by (symmetry; apply N.eqb_neq; exact N2). exact H.
Qed.

Lemma g_attack_cases : forall X y, In X [1; 2; 3; 4; 5; 6] -> N.testbit (ptBB q (myPiece w X)) y = true ->
  (y = mto m /\ getPiece p (mfrom m) = myPiece w X) \/ (y <> mto m /\ y <> mfrom m /\ mine X y).
Proof.
  intros X y HX H. pose proof H as H0. rewrite (g_mine X y HX) in H.
  destruct (N.eqb_spec y (mto m)) as [E|N1]; [left; split; [exact E | apply N.eqb_eq; exact H]|].
  destruct (N.eqb_spec y (mfrom m)) as [E|N2]; [discriminate|]. right. auto.
Qed.

Lemma g_notatt : sqAttackedT (negb w) p oks occ = true -> False.
Proof. intro H. rewrite g_before in H. discriminate. Qed.

(** occupancy between the king and a square, before and after *)
Lemma g_clear_after : forall y, N.testbit (SB oks y) (mto m) = false ->
  (forall x, N.testbit (SB oks y) x = true -> x <> mfrom m -> N.testbit occ x = false) -> N.land (SB oks y) (occupiedBB q) = 0.
Proof.
  intros y Ht Hall. apply land_zero_iff. intros x Hx. rewrite g_occq.
  destruct (N.eqb_spec x (mto m)) as [E|N1]; [subst x; congruence|].
  destruct (N.eqb_spec x (mfrom m)) as [E|N2]; [reflexivity | apply Hall; assumption].
Qed.

Lemma g_slider_now : forall (al : square -> square -> bool) y, y < 64 ->
  N.land (SB oks y) (occupiedBB q) = 0 -> N.testbit (SB oks y) (mfrom m) = false -> N.land (SB oks y) occ = 0.
Proof.
  intros al y Hy Hz Hf. apply land_zero_iff. intros x Hx. rewrite land_zero_iff in Hz. pose proof (Hz x Hx) as Hq. rewrite g_occq in Hq.
  destruct (N.eqb_spec x (mto m)) as [E|N1]; [discriminate|].
  destruct (N.eqb_spec x (mfrom m)) as [E|N2]; [subst x; congruence | exact Hq].
Qed.

Theorem g_spec_iff : gives_check_spec (abs p) m = true <-> DirectP \/ DiscP.
Proof.
  rewrite g_spec. destruct g_oks as (Hk & Hkp & Nkf & Nkt & HkQ). destruct g_move as (Hf & Ht & Hne & Hown & Hcapn).
  rewrite sqAttackedT_iff. rewrite negb_involutive. fold (patkOf w oks).
  assert (I1 : In WKING [1; 2; 3; 4; 5; 6]) by (cbn; tauto). assert (I2 : In WQUEEN [1; 2; 3; 4; 5; 6]) by (cbn; tauto).
  assert (I3 : In WROOK [1; 2; 3; 4; 5; 6]) by (cbn; tauto). assert (I4 : In WBISHOP [1; 2; 3; 4; 5; 6]) by (cbn; tauto).
  assert (I5 : In WKNIGHT [1; 2; 3; 4; 5; 6]) by (cbn; tauto). assert (I6 : In WPAWN [1; 2; 3; 4; 5; 6]) by (cbn; tauto).
  (* a slider on the from-square between king and target would have attacked already *)
  assert (Hfrom_between : forall (isR : bool), N.testbit (SB oks (mto m)) (mfrom m) = true ->
            N.land (SB oks (mto m)) (occupiedBB q) = 0 ->
            (if isR then rookAligned oks (mto m) = true /\ (getPiece p (mfrom m) = myPiece w WROOK \/ getPiece p (mfrom m) = myPiece w WQUEEN)
             else bishopAligned oks (mto m) = true /\ (getPiece p (mfrom m) = myPiece w WBISHOP \/ getPiece p (mfrom m) = myPiece w WQUEEN)) -> False).
  { intros isR Hb Hz Hal. destruct (H3 oks (mto m) (mfrom m) Hk Ht Hf Hb) as (E1 & _ & _ & ER & EB & _).
    destruct (D1 (mfrom m) oks Hf Hk) as (DR & DB & _). destruct (G0 (mfrom m) oks Hf Hk) as (_ & _ & _ & SR & SBs).
    assert (Hz' : N.land (SB oks (mfrom m)) occ = 0).
    { apply land_zero_iff. intros x Hx. rewrite land_zero_iff in Hz.
      assert (Hx2 : N.testbit (SB oks (mto m)) x = true) by (rewrite E1, !N.lor_spec, Hx; reflexivity).
      pose proof (Hz x Hx2) as Hq. rewrite g_occq in Hq.
      destruct (N.eqb_spec x (mto m)) as [E|N1]; [discriminate|].
      destruct (N.eqb_spec x (mfrom m)) as [E|N2]; [|exact Hq].
      subst x. destruct (G0 oks (mfrom m) Hk Hf) as (_ & A & _). congruence. }
    apply g_notatt. apply sqAttackedT_iff. rewrite negb_involutive.
    assert (Hbit : forall X, In X [1; 2; 3; 4; 5; 6] -> getPiece p (mfrom m) = myPiece w X -> N.testbit (ptBB p (myPiece w X)) (mfrom m) = true).
    { intros X HX E. rewrite (BoardOK_ptBB p _ _ gHBp (myPiece_codes w X HX)), E, N.eqb_refl.
      replace (mfrom m <? 64) with true by (symmetry; apply N.ltb_lt; exact Hf). reflexivity. }
    destruct isR.
    - destruct Hal as [Hal Hpc]. right. right. right. right. exists (mfrom m). split.
      + apply (rookAttacks_testbit oks occ _ Hk). split; [exact Hf|]. split; [|exact Hz']. rewrite <- SR, <- DR, ER. exact Hal.
      + destruct Hpc as [E|E]; [left; apply (Hbit WROOK I3 E) | right; apply (Hbit WQUEEN I2 E)].
    - destruct Hal as [Hal Hpc]. right. right. right. left. exists (mfrom m). split.
      + apply (bishopAttacks_testbit oks occ _ Hk). split; [exact Hf|]. split; [|exact Hz']. rewrite <- SBs, <- DB, EB. exact Hal.
      + destruct Hpc as [E|E]; [left; apply (Hbit WBISHOP I4 E) | right; apply (Hbit WQUEEN I2 E)]. }
  (* an old slider that attacks now: discovered through the from-square *)
  assert (Hdisc : forall (isR : bool) y, y <> mto m -> y <> mfrom m -> y < 64 ->
            (if isR then rookAligned oks y = true /\ (mine WROOK y \/ mine WQUEEN y) else bishopAligned oks y = true /\ (mine WBISHOP y \/ mine WQUEEN y)) ->
            N.land (SB oks y) (occupiedBB q) = 0 -> DiscP).
  { intros isR y N1 N2 Hy Hal Hz.
    assert (Hbf : N.testbit (SB oks y) (mfrom m) = true).
    { destruct (N.testbit (SB oks y) (mfrom m)) eqn:E; [reflexivity|]. exfalso.
      pose proof (g_slider_now rookAligned y Hy Hz E) as Hz'. apply g_notatt. apply sqAttackedT_iff. rewrite negb_involutive.
      destruct isR; destruct Hal as [Hal Hm].
      - right. right. right. right. exists y. split; [apply (rookAttacks_testbit oks occ y Hk); auto | exact Hm].
      - right. right. right. left. exists y. split; [apply (bishopAttacks_testbit oks occ y Hk); auto | exact Hm]. }
    assert (Hbt : N.testbit (SB oks y) (mto m) = false).
    { destruct (N.testbit (SB oks y) (mto m)) eqn:E; [|reflexivity]. rewrite land_zero_iff in Hz. specialize (Hz _ E).
      rewrite g_occq, N.eqb_refl in Hz. discriminate. }
    exists y. split; [exact Hy|]. split; [exact N1|]. split; [exact N2|]. split; [exact Hbf|]. split; [exact Hbt|]. split.
    - intros x Hx Nx. rewrite land_zero_iff in Hz. pose proof (Hz x Hx) as Hq. rewrite g_occq in Hq.
      destruct (N.eqb_spec x (mto m)) as [E|N3]; [discriminate|].
      destruct (N.eqb_spec x (mfrom m)) as [E|N4]; [contradiction | exact Hq].
    - destruct isR; [left | right]; exact Hal. }
  split.
  - intros [[y [A B]]|[[y [A B]]|[[y [A B]]|[[y [A B]]|[y [A B]]]]]].
    + destruct (g_attack_cases WKNIGHT y I5 B) as [[-> E]|(N1 & N2 & Hm)]; [left; left; auto|].
      exfalso. apply g_notatt. apply sqAttackedT_iff. rewrite negb_involutive. left. exists y. auto.
    + exfalso. destruct (g_attack_cases WKING y I1 B) as [[-> E]|(N1 & N2 & Hm)].
      * (* our king would stand next to theirs *)
        pose proof (made_scalars zkDummy p m) as (Ewq & _). fold q w in Ewq.
        assert (Eks : kingSq q (whiteMove q) = oks).
        { rewrite Ewq. destruct (kingSq_spec q (negb w) gWFq) as [Hk' Hkp']. apply (king_unique q (negb w) _ _ gWFq Hk' Hk Hkp' HkQ). }
        assert (G1 : N.testbit (kingAttacks (kingSq q (whiteMove q))) (mto m) = true) by (rewrite Eks; exact A).
        assert (G2 : N.testbit (ptBB q (myPiece (negb (whiteMove q)) WKING)) (mto m) = true) by (rewrite Ewq, negb_involutive; exact B).
        exact (no_king_contact q gWFq (mto m) G1 G2).
      * apply g_notatt. apply sqAttackedT_iff. rewrite negb_involutive. right. left. exists y. auto.
    + destruct (g_attack_cases WPAWN y I6 B) as [[-> E]|(N1 & N2 & Hm)]; [left; right; left; auto|].
      exfalso. apply g_notatt. apply sqAttackedT_iff. rewrite negb_involutive. right. right. left. exists y. auto.
    + apply (bishopAttacks_testbit oks _ y Hk) in A. destruct A as (Hy & Hal & Hz).
      assert (Bc : (y = mto m /\ (getPiece p (mfrom m) = myPiece w WBISHOP \/ getPiece p (mfrom m) = myPiece w WQUEEN)) \/
                   (y <> mto m /\ y <> mfrom m /\ (mine WBISHOP y \/ mine WQUEEN y))).
      { destruct B as [B|B]; [destruct (g_attack_cases WBISHOP y I4 B) as [[E1 E2]|(N1 & N2 & Hm)] | destruct (g_attack_cases WQUEEN y I2 B) as [[E1 E2]|(N1 & N2 & Hm)]]; auto. }
      destruct Bc as [[-> Hpc]|(N1 & N2 & Hm)].
      * left. right. right. left. split; [exact Hpc|]. split; [exact Hal|].
        apply (g_slider_now bishopAligned _ Ht Hz).
        destruct (N.testbit (SB oks (mto m)) (mfrom m)) eqn:E; [|reflexivity]. exfalso. apply (Hfrom_between false eq_refl Hz). auto.
      * right. apply (Hdisc false y N1 N2 Hy); auto.
    + apply (rookAttacks_testbit oks _ y Hk) in A. destruct A as (Hy & Hal & Hz).
      assert (Bc : (y = mto m /\ (getPiece p (mfrom m) = myPiece w WROOK \/ getPiece p (mfrom m) = myPiece w WQUEEN)) \/
                   (y <> mto m /\ y <> mfrom m /\ (mine WROOK y \/ mine WQUEEN y))).
      { destruct B as [B|B]; [destruct (g_attack_cases WROOK y I3 B) as [[E1 E2]|(N1 & N2 & Hm)] | destruct (g_attack_cases WQUEEN y I2 B) as [[E1 E2]|(N1 & N2 & Hm)]]; auto. }
      destruct Bc as [[-> Hpc]|(N1 & N2 & Hm)].
      * left. right. right. right. split; [exact Hpc|]. split; [exact Hal|].
        apply (g_slider_now rookAligned _ Ht Hz).
        destruct (N.testbit (SB oks (mto m)) (mfrom m)) eqn:E; [|reflexivity]. exfalso. apply (Hfrom_between true eq_refl Hz). auto.
      * right. apply (Hdisc true y N1 N2 Hy); auto.
  - assert (Hq_to : forall X, In X [1; 2; 3; 4; 5; 6] -> getPiece p (mfrom m) = myPiece w X -> N.testbit (ptBB q (myPiece w X)) (mto m) = true)
      by (intros X HX E; rewrite (g_mine X _ HX), N.eqb_refl, E; apply N.eqb_refl).
    assert (Hq_old : forall X y, In X [1; 2; 3; 4; 5; 6] -> y <> mto m -> y <> mfrom m -> mine X y -> N.testbit (ptBB q (myPiece w X)) y = true).
    { intros X y HX N1 N2 Hm. rewrite (g_mine X y HX).
      replace (y =? mto m) with false by (symmetry; apply N.eqb_neq; exact N1).
      replace (y =? mfrom m) with false by (symmetry; apply N.eqb_neq; exact N2). exact Hm. }
    assert (Hclear_to : N.land (SB oks (mto m)) occ = 0 -> N.land (SB oks (mto m)) (occupiedBB q) = 0).
    { intro Hz. apply g_clear_after; [destruct (G0 oks (mto m) Hk Ht) as (_ & A & _); exact A|].
      intros x Hx _. rewrite land_zero_iff in Hz. apply Hz. exact Hx. }
    intros [[[E A]|[[E A]|[[E [Hal Hz]]|[E [Hal Hz]]]]]|(y & Hy & N1 & N2 & Hbf & Hbt & Hall & Hs)].
    + left. exists (mto m). split; [exact A | apply (Hq_to WKNIGHT I5 E)].
    + right. right. left. exists (mto m). split; [exact A | apply (Hq_to WPAWN I6 E)].
    + right. right. right. left. exists (mto m). split; [apply (bishopAttacks_testbit oks _ _ Hk); auto|].
      destruct E as [E|E]; [left; apply (Hq_to WBISHOP I4 E) | right; apply (Hq_to WQUEEN I2 E)].
    + right. right. right. right. exists (mto m). split; [apply (rookAttacks_testbit oks _ _ Hk); auto|].
      destruct E as [E|E]; [left; apply (Hq_to WROOK I3 E) | right; apply (Hq_to WQUEEN I2 E)].
    + pose proof (g_clear_after y Hbt Hall) as Hz.
      destruct Hs as [[Hal Hm]|[Hal Hm]].
      * right. right. right. right. exists y. split; [apply (rookAttacks_testbit oks _ y Hk); auto|].
        destruct Hm as [Hm|Hm]; [left; apply (Hq_old WROOK y I3 N1 N2 Hm) | right; apply (Hq_old WQUEEN y I2 N1 N2 Hm)].
      * right. right. right. left. exists y. split; [apply (bishopAttacks_testbit oks _ y Hk); auto|].
        destruct Hm as [Hm|Hm]; [left; apply (Hq_old WBISHOP y I4 N1 N2 Hm) | right; apply (Hq_old WQUEEN y I2 N1 N2 Hm)].
Qed.
End GivesCheck.

(** * The engine side *)
Definition gcR1 (pos : position) (m : move) : bool :=
  let wtm := whiteMove pos in
  let oKingSq := kingSq pos (negb wtm) in
  let oKing := if wtm then BKING else WKING in
  let p := makeWhite (getPiece pos (mfrom m)) in
  let d1 := getDirection (mto m) oKingSq in
  if isRookDir d1 then
    if (p =? WQUEEN) || (p =? WROOK) then
      if negb (d1 =? 0)%Z then nextPiece pos (mto m) d1 =? oKing else false
    else false
  else if isBishopDir d1 then
    if (p =? WQUEEN) || (p =? WBISHOP) then
      if negb (d1 =? 0)%Z then nextPiece pos (mto m) d1 =? oKing else false
    else if p =? WPAWN then
      if Bool.eqb (0 <? d1)%Z wtm then getPiece pos (sqAdd (mto m) d1) =? oKing else false
    else false
  else
    if negb (d1 =? 0)%Z then p =? WKNIGHT else false.

Definition gcR2 (pos : position) (m : move) : bool :=
  let wtm := whiteMove pos in
  let oKingSq := kingSq pos (negb wtm) in
  let oKing := if wtm then BKING else WKING in
  let d1 := getDirection (mto m) oKingSq in
  let d2 := getDirection (mfrom m) oKingSq in
  if negb (d2 =? 0)%Z && negb (d2 =? d1)%Z then
    if nextPiece pos (mfrom m) d2 =? oKing then
      let p2 := nextPieceSafe pos (mfrom m) (- d2)%Z in
      if isRookDir d2 then (p2 =? myPiece wtm WQUEEN) || (p2 =? myPiece wtm WROOK)
      else if isBishopDir d2 then (p2 =? myPiece wtm WQUEEN) || (p2 =? myPiece wtm WBISHOP)
      else false
    else false
  else false.

Definition gcTailSimple (pos : position) (m : move) : Prop :=
  let p := makeWhite (getPiece pos (mfrom m)) in
  (p = WKING -> mto m <> mfrom m + 2 /\ (Z.of_N (mto m) <> Z.of_N (mfrom m) - 2)%Z) /\
  (p = WPAWN -> getPiece pos (mto m) = EMPTY -> zX (mto m) = zX (mfrom m)).

Lemma givesCheck_simple : forall pos m, mpromote m = EMPTY -> gcTailSimple pos m ->
  givesCheck pos m = gcR1 pos m || gcR2 pos m.
Proof.
  intros pos m Hp [HK HP]. unfold givesCheck, gcR1, gcR2. cbv zeta in *. rewrite Hp. change (EMPTY =? EMPTY) with true. cbv iota.
  set (P := makeWhite (getPiece pos (mfrom m))) in *.
  match goal with |- (if ?a then true else _) = _ => destruct a end; [reflexivity|].
  match goal with |- (if ?a then true else _) = _ => destruct a end; [reflexivity|].
  cbn [negb andb orb]. cbv iota.
  destruct (N.eqb_spec P WKING) as [EK|_].
  - destruct (HK EK) as [A B].
    replace (mto m =? mfrom m + 2) with false by (symmetry; apply N.eqb_neq; exact A).
    replace (Z.of_N (mto m) =? Z.of_N (mfrom m) - 2)%Z with false by (symmetry; apply Z.eqb_neq; exact B). reflexivity.
  - destruct (N.eqb_spec P WPAWN) as [EP|_]; [|reflexivity].
    destruct (N.eqb_spec (getPiece pos (mto m)) EMPTY) as [EE|_]; [|reflexivity].
    rewrite (HP EP EE), Z.sub_diag. reflexivity.
Qed.

Lemma makeWhite_my : forall (w : bool) X, In X [1; 2; 3; 4; 5; 6] -> makeWhite (myPiece w X) = X.
Proof. intros w X H. cbn [In] in H. destruct w; repeat (destruct H as [<-|H]; [reflexivity|]); destruct H. Qed.

Lemma myPiece_inj : forall (w : bool) X Y, In X [1; 2; 3; 4; 5; 6] -> In Y [1; 2; 3; 4; 5; 6] -> (myPiece w X = myPiece w Y <-> X = Y).
Proof.
  intros w X Y HX HY. split; [|intros ->; reflexivity]. intro E. apply (f_equal makeWhite) in E.
  rewrite !makeWhite_my in E by assumption. exact E.
Qed.

Section GivesCheck2.
Variable p : position.
Hypothesis HWF : WF p.
Variable m : move.
Hypothesis Hleg : legal_spec (abs p) m.
Hypothesis Hpro : mpromote m = EMPTY.
Hypothesis Hep : isEp p m = false.
Hypothesis HcK : isCK p m = false.
Hypothesis HcQ : isCQ p m = false.
Let w := whiteMove p.
Let oks := kingSq p (negb w).
Let occ := occupiedBB p.

Lemma oKing_eq : (if w then BKING else WKING) = mk_piece (negb w) King.
Proof. unfold w. destruct (whiteMove p); reflexivity. Qed.

(** nextPiece towards the opponent's king *)
Lemma np_king : forall s, s < 64 -> rayDir (getDirection s oks) = true ->
  (nextPiece p s (getDirection s oks) =? mk_piece (negb w) King) = (N.land (SB s oks) occ =? 0).
Proof.
  intros s Hs Hr. destruct (g_oks p HWF m Hleg Hpro Hep HcK HcQ) as (Hk & Hkp & _). fold w oks in Hk, Hkp.
  apply (nextPiece_king p (gHBp p HWF) (mk_piece (negb w) King) oks Hk Hkp); [apply mk_piece_nonempty | | exact Hs | exact Hr].
  intros s0 Hs0 E. apply (king_unique p (negb w) s0 oks HWF Hs0 Hk E Hkp).
Qed.

Lemma piece_is_king : forall s, (getPiece p s =? mk_piece (negb w) King) = (s =? oks).
Proof.
  intro s. destruct (g_oks p HWF m Hleg Hpro Hep HcK HcQ) as (Hk & Hkp & _). fold w oks in Hk, Hkp.
  destruct (N.eqb_spec s oks) as [->|Ne]; [rewrite Hkp; apply N.eqb_refl|].
  apply N.eqb_neq. intro E. apply Ne. destruct (N.lt_ge_cases s 64) as [Hs|Hs].
  - apply (king_unique p (negb w) s oks HWF Hs Hk E Hkp).
  - exfalso. unfold getPiece in E. destruct (WF_parts p HWF) as [Hl _]. rewrite nth_overflow in E by lia.
    symmetry in E. exact (mk_piece_nonempty _ _ E).
Qed.

Theorem g_r1 : gcR1 p m = true <-> DirectP p m.
Proof.
  destruct (g_oks p HWF m Hleg Hpro Hep HcK HcQ) as (Hk & Hkp & _). fold w oks in Hk, Hkp.
  destruct (g_move p HWF m Hleg) as (Hf & Ht & Hne & Hown & _). fold w in Hown.
  destruct (own_cases w _ (BoardOK_le12 p (mfrom m) (gHBp p HWF)) Hown) as [X [HX Epc]].
  unfold gcR1, DirectP. cbv zeta. fold w oks occ. rewrite oKing_eq, Epc, (makeWhite_my w X HX).
  set (t := mto m) in *. set (d1 := getDirection t oks).
  destruct (D1 t oks Ht Hk) as (ER & EB & EN & EP & _). fold d1 in ER, EB, EN, EP.
  destruct (G0 t oks Ht Hk) as (_ & _ & ESB & SR & SBs). rewrite <- ER in SR. rewrite <- EB in SBs.
  rewrite <- SR, <- SBs, <- EN, <- (EP w). change SB with squaresBetween in ESB |- *. rewrite ESB.
  pose proof (np_king t Ht) as NP. fold d1 in NP. change SB with squaresBetween in NP.
  rewrite piece_is_king.
  assert (I1 : In WKING [1; 2; 3; 4; 5; 6]) by (cbn; tauto). assert (I2 : In WQUEEN [1; 2; 3; 4; 5; 6]) by (cbn; tauto).
  assert (I3 : In WROOK [1; 2; 3; 4; 5; 6]) by (cbn; tauto). assert (I4 : In WBISHOP [1; 2; 3; 4; 5; 6]) by (cbn; tauto).
  assert (I5 : In WKNIGHT [1; 2; 3; 4; 5; 6]) by (cbn; tauto). assert (I6 : In WPAWN [1; 2; 3; 4; 5; 6]) by (cbn; tauto).
  rewrite !(myPiece_inj w X) by assumption.
  destruct (dir_excl d1) as [XR XB]. unfold rayDir in *.
  destruct (isRookDir d1) eqn:Er;
    [destruct (XR eq_refl) as [Eb Ez]; rewrite Eb, Ez in *; cbn [negb orb andb] in *; rewrite (NP eq_refl)
    | destruct (isBishopDir d1) eqn:Eb;
      [destruct (XB eq_refl) as [_ Ez]; rewrite Ez in *; cbn [negb orb andb] in *; rewrite (NP eq_refl)
      | cbn [negb orb andb] in *; destruct (d1 =? 0)%Z]];
    destruct (N.eqb_spec (N.land (squaresBetween t oks) occ) 0) as [EC|EC];
    destruct (Bool.eqb (0 <? d1)%Z w); destruct (sqAdd t d1 =? oks);
    cbn [In] in HX; destruct HX as [<-|[<-|[<-|[<-|[<-|[<-|[]]]]]]];
    unfold WKING, WQUEEN, WROOK, WBISHOP, WKNIGHT, WPAWN; cbn [N.eqb Pos.eqb orb andb negb];
    intuition (try discriminate; try congruence).
Qed.

Lemma mine_piece : forall X y, In X [1; 2; 3; 4; 5; 6] ->
  (mine p X y <-> y < 64 /\ getPiece p y = myPiece w X).
Proof.
  intros X y HX. unfold mine. fold w. rewrite (BoardOK_ptBB p _ y (gHBp p HWF) (myPiece_codes w X HX)).
  rewrite andb_true_iff, N.ltb_lt, N.eqb_eq. tauto.
Qed.

Theorem g_r2 : gcR2 p m = true <-> DiscP p m.
Proof.
  destruct (g_oks p HWF m Hleg Hpro Hep HcK HcQ) as (Hk & Hkp & Nkf & Nkt & _). fold w oks in Hk, Hkp, Nkf, Nkt.
  destruct (g_move p HWF m Hleg) as (Hf & Ht & Hne & Hown & Hcapn). fold w in Hown, Hcapn.
  pose proof (gHBp p HWF) as HB.
  assert (I2 : In WQUEEN [1; 2; 3; 4; 5; 6]) by (cbn; tauto). assert (I3 : In WROOK [1; 2; 3; 4; 5; 6]) by (cbn; tauto).
  assert (I4 : In WBISHOP [1; 2; 3; 4; 5; 6]) by (cbn; tauto).
  assert (Hownc : forall X, In X [1; 2; 3; 4; 5; 6] -> has_color w (myPiece w X) = true /\ myPiece w X <> EMPTY).
  { intros X HX. cbn [In] in HX. unfold w. destruct (whiteMove p); repeat (destruct HX as [<-|HX]; [split; [reflexivity | discriminate]|]); destruct HX. }
  unfold gcR2, DiscP. cbv zeta. fold w oks occ. rewrite oKing_eq.
  set (f := mfrom m) in *. set (t := mto m) in *.
  set (d1 := getDirection t oks). set (d2 := getDirection f oks).
  destruct (G0 f oks Hf Hk) as (_ & _ & ESB & _). change SB with squaresBetween in ESB.
  split.
  - intro H.
    destruct (Z.eqb_spec d2 0) as [|Hd20]; [discriminate|]. destruct (Z.eqb_spec d2 d1) as [|Hd21]; [discriminate|]. cbn [negb andb] in H.
    destruct (nextPiece p f d2 =? mk_piece (negb w) King) eqn:Enp; [|discriminate].
    assert (Hcase : (isRookDir d2 = true /\ (nextPieceSafe p f (- d2) = myPiece w WQUEEN \/ nextPieceSafe p f (- d2) = myPiece w WROOK)) \/
                    (isRookDir d2 = false /\ isBishopDir d2 = true /\ (nextPieceSafe p f (- d2) = myPiece w WQUEEN \/ nextPieceSafe p f (- d2) = myPiece w WBISHOP))).
    { destruct (isRookDir d2); [left; split; [reflexivity|] | right; split; [reflexivity|]; destruct (isBishopDir d2); [split; [reflexivity|] | discriminate]];
        apply orb_true_iff in H; destruct H as [H|H]; apply N.eqb_eq in H; auto. }
    assert (Hr : rayDir d2 = true) by (unfold rayDir; destruct Hcase as [[-> _]|[_ [-> _]]]; [reflexivity | apply orb_true_r]).
    pose proof (np_king f Hf Hr) as NPf. fold d2 in NPf. rewrite NPf in Enp. apply N.eqb_eq in Enp.
    assert (Hbehind : exists X y, (X = WQUEEN \/ (isRookDir d2 = true /\ X = WROOK) \/ (isRookDir d2 = false /\ isBishopDir d2 = true /\ X = WBISHOP)) /\
                        In X [1; 2; 3; 4; 5; 6] /\ y < 64 /\ getDirection f y = (- d2)%Z /\ getPiece p y = myPiece w X /\ N.land (SB f y) occ = 0).
    { assert (Hb : forall X, In X [1; 2; 3; 4; 5; 6] -> nextPieceSafe p f (- d2) = myPiece w X ->
                exists y, y < 64 /\ getDirection f y = (- d2)%Z /\ getPiece p y = myPiece w X /\ N.land (SB f y) occ = 0).
      { intros X HX E. apply (behind_iff p f (- d2) (myPiece w X) HB Hf); [rewrite rayDir_neg; exact Hr | apply Hownc; exact HX | exact E]. }
      destruct Hcase as [[Er [E|E]]|[Er [Eb [E|E]]]].
      - destruct (Hb WQUEEN I2 E) as [y Hy]. exists WQUEEN, y. split; [left; reflexivity | split; [exact I2 | exact Hy]].
      - destruct (Hb WROOK I3 E) as [y Hy]. exists WROOK, y. split; [right; left; auto | split; [exact I3 | exact Hy]].
      - destruct (Hb WQUEEN I2 E) as [y Hy]. exists WQUEEN, y. split; [left; reflexivity | split; [exact I2 | exact Hy]].
      - destruct (Hb WBISHOP I4 E) as [y Hy]. exists WBISHOP, y. split; [right; right; auto | split; [exact I4 | exact Hy]]. }
    destruct Hbehind as (X & y & HXc & HX & Hy & Hdy & Hpy & Hzy).
    pose proof (H6 f oks y Hf Hk Hy Hr Hdy) as Hbf.
    destruct (H3 oks y f Hk Hy Hf Hbf) as (E1 & _ & _ & ER & EB & _ & CB). fold d2 in ER, EB.
    exists y. split; [exact Hy|].
    assert (Nyt : y <> t).
    { intro E. rewrite E in Hpy. rewrite Hpy in Hcapn. destruct (Hownc X HX) as [Hc _]. congruence. }
    assert (Nyf : y <> f).
    { intro E. subst y. destruct (G0 oks f Hk Hf) as (_ & A & _). congruence. }
    assert (Hbt : N.testbit (SB oks y) t = false).
    { rewrite E1, !N.lor_spec, bit_testbit. apply orb_false_iff. split; [apply orb_false_iff; split|].
      - destruct (N.testbit (SB oks f) t) eqn:E; [|reflexivity]. exfalso. apply Hd21. symmetry.
        apply (H1 f oks t Hf Hk Ht). change SB with squaresBetween in E |- *. rewrite <- ESB. exact E.
      - apply N.eqb_neq. exact Hne.
      - destruct (N.testbit (SB f y) t) eqn:E; [|reflexivity]. exfalso. apply Hd21. symmetry. apply (CB t Ht E). }
    split; [exact Nyt|]. split; [exact Nyf|]. split; [exact Hbf|]. split; [exact Hbt|]. split.
    + intros x Hx Nx. rewrite E1, !N.lor_spec, bit_testbit in Hx. apply orb_true_iff in Hx. destruct Hx as [Hx|Hx]; [apply orb_true_iff in Hx; destruct Hx as [Hx|Hx]|].
      * rewrite land_zero_iff in Enp. apply Enp. change SB with squaresBetween in Hx |- *. rewrite <- ESB. exact Hx.
      * apply N.eqb_eq in Hx. congruence.
      * rewrite land_zero_iff in Hzy. apply Hzy. exact Hx.
    + assert (Hmine : mine p X y) by (apply (mine_piece X y HX); auto).
      destruct HXc as [->|[[Er ->]|[Er [Eb ->]]]].
      * destruct (isRookDir d2) eqn:Er; [left; split; [symmetry; exact ER | right; exact Hmine]|].
        right. split; [|right; exact Hmine]. rewrite <- EB. unfold rayDir in Hr. rewrite Er in Hr. exact Hr.
      * left. split; [rewrite <- ER; exact Er | left; exact Hmine].
      * right. split; [rewrite <- EB; exact Eb | left; exact Hmine].
  - intros (y & Hy & Nyt & Nyf & Hbf & Hbt & Hall & Hs).
    destruct (H3 oks y f Hk Hy Hf Hbf) as (E1 & Edy & Hr & ER & EB & CA & _). fold d2 in Edy, Hr, ER, EB, CA.
    assert (Hd20 : (d2 =? 0)%Z = false).
    { unfold rayDir in Hr. apply orb_true_iff in Hr. destruct (dir_excl d2) as [A B]. destruct Hr as [Hr|Hr]; [apply (A Hr) | apply (B Hr)]. }
    assert (Hocc_y : N.testbit occ y = true).
    { assert (Hpy : exists X, In X [1; 2; 3; 4; 5; 6] /\ mine p X y) by (destruct Hs as [[_ [Hm|Hm]]|[_ [Hm|Hm]]]; eauto).
      destruct Hpy as (X & HX & Hm). apply (mine_piece X y HX) in Hm. destruct Hm as [_ Hp].
      unfold occ. rewrite (occupied_testbit_B p y HB), Hp. replace (y <? 64) with true by (symmetry; apply N.ltb_lt; exact Hy).
      cbn [andb]. apply negb_true_iff, N.eqb_neq. apply Hownc. exact HX. }
    assert (Hd21 : (d2 =? d1)%Z = false).
    { apply Z.eqb_neq. intro E. pose proof (CA t Ht (eq_sym E) (not_eq_sym Hne) Hbt (not_eq_sym Nyt)) as Hyb.
      pose proof (path_clear p HWF m (gHm p HWF m Hleg)) as Hpc. fold f t occ in Hpc. rewrite land_zero_iff in Hpc. specialize (Hpc y Hyb). congruence. }
    rewrite Hd20, Hd21. cbn [negb andb].
    assert (Hnp : N.land (SB f oks) occ = 0).
    { apply land_zero_iff. intros x Hx. change SB with squaresBetween in Hx. rewrite <- ESB in Hx.
      apply Hall; [rewrite E1, !N.lor_spec; change SB with squaresBetween; rewrite Hx; reflexivity|].
      intro E. subst x. destruct (G0 oks f Hk Hf) as (_ & A & _). change SB with squaresBetween in A. congruence. }
    pose proof (np_king f Hf Hr) as NPf. fold d2 in NPf. rewrite NPf, Hnp, N.eqb_refl.
    assert (Hzy : N.land (SB f y) occ = 0).
    { apply land_zero_iff. intros x Hx. apply Hall; [rewrite E1, !N.lor_spec, Hx; apply orb_true_r|].
      intro E. subst x. destruct (G0 f y Hf Hy) as (A & _). congruence. }
    assert (Hp2 : forall X, In X [1; 2; 3; 4; 5; 6] -> mine p X y -> nextPieceSafe p f (- d2) = myPiece w X).
    { intros X HX Hm. apply (mine_piece X y HX) in Hm. destruct Hm as [_ Hp].
      apply (behind_iff p f (- d2) (myPiece w X) HB Hf); [rewrite rayDir_neg; exact Hr | apply Hownc; exact HX|].
      exists y. auto. }
    destruct Hs as [[Hal Hm]|[Hal Hm]].
    + rewrite ER, Hal. destruct Hm as [Hm|Hm]; [rewrite (Hp2 WROOK I3 Hm) | rewrite (Hp2 WQUEEN I2 Hm)]; rewrite N.eqb_refl; [apply orb_true_r | reflexivity].
    + assert (Er : isRookDir d2 = false) by (destruct (dir_excl d2) as [_ B]; apply B; rewrite EB; exact Hal).
      rewrite Er, EB, Hal. destruct Hm as [Hm|Hm]; [rewrite (Hp2 WBISHOP I4 Hm) | rewrite (Hp2 WQUEEN I2 Hm)]; rewrite N.eqb_refl; [apply orb_true_r | reflexivity].
Qed.

Lemma g_tail : gcTailSimple p m.
Proof.
  destruct (g_move p HWF m Hleg) as (Hf & Ht & Hne & Hown & _). fold w in Hown.
  destruct (own_cases w _ (BoardOK_le12 p (mfrom m) (gHBp p HWF)) Hown) as [X [HX Epc]].
  unfold gcTailSimple. cbv zeta. rewrite Epc, (makeWhite_my w X HX). split.
  - intros ->. assert (EK : getPiece p (mfrom m) = mk_piece w King) by (rewrite Epc; unfold w; destruct (whiteMove p); reflexivity).
    destruct (kingSq_spec p w HWF) as [Hk Hkp].
    assert (Ef : mfrom m = kingSq p w) by (apply (king_unique p w _ _ HWF Hf Hk EK Hkp)).
    destruct (king_moves_blocks p HWF m (gHm p HWF m Hleg) Ef) as [HK|HC].
    + unfold lK in HK. apply movesTo_In in HK. fold w in HK. destruct HK as (_ & _ & Hb).
      apply bitsOf_In in Hb; [|apply ldiff_lt, kingAttacks_lt]. unfold andn in Hb. rewrite N.ldiff_spec in Hb. apply andb_true_iff in Hb.
      destruct Hb as [Hb _]. destruct (G6 (kingSq p w) (mto m) Hk Ht) as (_ & _ & _ & A & _). specialize (A Hb). rewrite Ef. lia.
    + exfalso. destruct (lC_cond p m HC) as (Ek & _ & _ & Hto). fold w in Ek, Hto.
      assert (Hz : forall (k : square) (c : bool), k = (if c then E1 else E8) ->
                (zf (sqAdd k 2) - zf k =? 2)%Z = true /\ (zf (sqAdd k (-2)) - zf k =? -2)%Z = true)
        by (intros k c ->; destruct c; split; reflexivity).
      destruct (Hz _ _ Ek) as [Z1 Z2]. rewrite <- Ef in Z1, Z2, Hto.
      destruct Hto as [(Et & _)|(Et & _)]; rewrite <- Et in *.
      * unfold isCK in HcK. fold w in HcK. rewrite EK, is_piece_eqb, N.eqb_refl, Z1 in HcK. discriminate HcK.
      * unfold isCQ in HcQ. fold w in HcQ. rewrite EK, is_piece_eqb, N.eqb_refl, Z2 in HcQ. discriminate HcQ.
  - intros -> He. unfold isEp in Hep. fold w in Hep. rewrite Epc, He, is_piece_eqb in Hep.
    replace (myPiece w WPAWN =? mk_piece w Pawn) with true in Hep by (unfold w; destruct (whiteMove p); reflexivity).
    change (EMPTY =? EMPTY) with true in Hep. rewrite andb_true_r in Hep. cbn [andb] in Hep.
    apply negb_false_iff, Z.eqb_eq in Hep. rewrite !zX_zf. exact Hep.
Qed.

Theorem g_main : givesCheck p m = gives_check_spec (abs p) m.
Proof.
  rewrite (givesCheck_simple p m Hpro g_tail). apply eq_true_iff_eq.
  rewrite orb_true_iff, g_r1, g_r2, (g_spec_iff p HWF m Hleg Hpro Hep HcK HcQ). reflexivity.
Qed.
End GivesCheck2.

(** C01_givesCheck, partial form: legal moves other than promotions, en-passant captures and castling *)
Theorem givesCheck_partial : forall p m, WF p -> legal_spec (abs p) m ->
  mpromote m = EMPTY -> isEp p m = false -> isCK p m = false -> isCQ p m = false ->
  givesCheck p m = gives_check_spec (abs p) m.
Proof. intros p m H Hl A B C D. exact (g_main p H m Hl A B C D). Qed.

(** non-vacuity: from the kiwipete-like position a discovered and a direct check *)
Definition gcBoard : list piece :=
  [0;0;0;0;WKING;0;0;WROOK;  0;0;0;0;WKNIGHT;0;0;0;  0;0;0;0;0;0;0;0;  0;0;0;0;0;0;0;0;
   0;0;0;0;0;0;0;0;  0;0;0;0;0;0;0;0;  0;0;0;0;0;0;0;0;  0;0;0;0;BKING;0;0;0].
Definition gcPosition : position := positionOfBoard gcBoard true 0 (-1).
Example givesCheck_examples :
  WF gcPosition /\
  (* Ne2-c3 does not check; Rh1-h8 is a direct check *)
  legal_spec (abs gcPosition) (mkMove 12 18 EMPTY) /\ givesCheck gcPosition (mkMove 12 18 EMPTY) = false /\
  legal_spec (abs gcPosition) (mkMove 7 63 EMPTY) /\ givesCheck gcPosition (mkMove 7 63 EMPTY) = true /\
  gives_check_spec (abs gcPosition) (mkMove 7 63 EMPTY) = true.
Proof.
  split; [vm_compute; reflexivity|]. split; [apply legal_specb_spec; vm_compute; reflexivity|]. split; [vm_compute; reflexivity|].
  split; [apply legal_specb_spec; vm_compute; reflexivity|]. split; vm_compute; reflexivity.
Qed.
