(** C02: readFEN (toFEN p) gives back p (up to the e.p. fix-up) for every acceptable position. *)
From Coq Require Import ZArith NArith List Bool Lia.
From Texel Require Import Chess.Types Chess.Position Chess.PositionSpec Chess.PositionFacts
  Chess.PositionProofs Chess.PositionProofs2 Chess.PositionProofs3 Chess.PositionProofs4
  Chess.PositionTheorems Chess.Fen Chess.PositionSources Chess.PositionNoUB.
Import ListNotations.
Local Open Scope N_scope.

(* ------------------------------------------------------------------ *)
(** * numbers *)
Definition allDigits (l : str) : Prop := Forall (fun c => isDigit c = true) l.
Definition valOf (l : str) : Z := fold_left (fun a c => (a * 10 + Z.of_N (c - 48))%Z) l 0%Z.

Lemma digitsVal_app l : forall r a n, allDigits l ->
  digitsVal (l ++ r) a n = digitsVal r (fold_left (fun a c => (a * 10 + Z.of_N (c - 48))%Z) l a) (n + length l)%nat.
Proof.
  induction l as [|c l IH]; intros r a n H; simpl.
  - f_equal. lia.
  - inversion H; subst. rewrite H2. rewrite IH by auto. f_equal. lia.
Qed.

Lemma fold_digits_app l1 l2 a :
  fold_left (fun a c => (a * 10 + Z.of_N (c - 48))%Z) (l1 ++ l2) a =
  fold_left (fun a c => (a * 10 + Z.of_N (c - 48))%Z) l2 (fold_left (fun a c => (a * 10 + Z.of_N (c - 48))%Z) l1 a).
Proof. apply fold_left_app. Qed.

Lemma digitsOfP_spec fuel : forall z acc, (0 <= z < 10 ^ Z.of_nat fuel)%Z -> (0 < fuel)%nat ->
  exists l, digitsOfP fuel z acc = l ++ acc /\ allDigits l /\ valOf l = z /\ l <> [].
Proof.
  induction fuel as [|f IH]; intros z acc Hz Hf; [lia|].
  cbn [digitsOfP].
  assert (Hd : isDigit (48 + Z.to_N (z mod 10)) = true).
  { assert (0 <= z mod 10 < 10)%Z by (apply Z.mod_pos_bound; lia). unfold isDigit.
    apply andb_true_intro. split; apply N.leb_le; lia. }
  assert (Hv : Z.of_N (48 + Z.to_N (z mod 10) - 48) = (z mod 10)%Z).
  { assert (0 <= z mod 10 < 10)%Z by (apply Z.mod_pos_bound; lia). lia. }
  destruct (Z.ltb_spec z 10) as [Hlt|Hge].
  - exists [48 + Z.to_N (z mod 10)]. split; [reflexivity|]. split; [repeat constructor; exact Hd|].
    split; [|discriminate]. unfold valOf. cbn [fold_left]. rewrite Hv. rewrite Z.mod_small by lia. lia.
  - destruct f as [|f'].
    { change (10 ^ Z.of_nat 1)%Z with 10%Z in Hz. lia. }
    destruct (IH (z / 10)%Z ((48 + Z.to_N (z mod 10)) :: acc)) as (l & El & Dl & Vl & Nl); [|lia|].
    + split; [apply Z.div_pos; lia|]. apply Z.div_lt_upper_bound; [lia|].
      replace (Z.of_nat (S (S f'))) with (1 + Z.of_nat (S f'))%Z in Hz by lia.
      rewrite Z.pow_add_r in Hz by lia. change (10 ^ 1)%Z with 10%Z in Hz. lia.
    + exists (l ++ [48 + Z.to_N (z mod 10)]). split; [rewrite El, <- app_assoc; reflexivity|].
      split; [apply Forall_app; split; [exact Dl | repeat constructor; exact Hd]|].
      split; [|destruct l; discriminate].
      unfold valOf in *. rewrite fold_left_app. cbn [fold_left]. rewrite Vl, Hv.
      pose proof (Z.div_mod z 10). lia.
Qed.

Lemma num2Str_spec z : (0 <= z)%Z ->
  exists l, num2Str z = l /\ allDigits l /\ valOf l = z /\ l <> [].
Proof.
  intro Hz. unfold num2Str. replace (z <? 0)%Z with false by (symmetry; apply Z.ltb_ge; lia).
  destruct (digitsOfP_spec (S (Z.to_nat (Z.log2 z + 1))) z []) as (l & El & Dl & Vl & Nl).
  - split; [lia|]. destruct (Z.eq_dec z 0) as [->|Hn]; [simpl; lia|].
    assert (Hl : (z < 2 ^ (Z.log2 z + 1))%Z) by (apply Z.log2_spec; lia).
    assert (0 <= Z.log2 z)%Z by apply Z.log2_nonneg.
    replace (Z.of_nat (S (Z.to_nat (Z.log2 z + 1)))) with (1 + (Z.log2 z + 1))%Z by lia.
    rewrite Z.pow_add_r by lia.
    assert (2 ^ (Z.log2 z + 1) <= 10 ^ (Z.log2 z + 1))%Z by (apply Z.pow_le_mono_l; lia).
    change (10 ^ 1)%Z with 10%Z. lia.
  - lia.
  - exists l. rewrite app_nil_r in El. auto.
Qed.

Lemma digit_not_space c : isDigit c = true -> (c =? ch_space) = false /\ isSpaceC c = false /\
  (c =? ch_dash) = false /\ (c =? ch_plus) = false.
Proof.
  unfold isDigit, isSpaceC, ch_space, ch_dash, ch_plus. intro H. apply andb_prop in H as [H1 H2].
  apply N.leb_le in H1. apply N.leb_le in H2.
  assert (E1 : (c =? 32) = false) by (apply N.eqb_neq; lia).
  assert (E2 : (c <=? 13) = false) by (apply N.leb_gt; lia).
  rewrite E1, E2, andb_false_r. repeat split; apply N.eqb_neq; lia.
Qed.

Lemma digitsVal_all l : allDigits l -> digitsVal l 0%Z 0%nat = (valOf l, length l).
Proof.
  intro D. pose proof (digitsVal_app l [] 0%Z 0%nat D) as H. rewrite app_nil_r in H. rewrite H. reflexivity.
Qed.

Lemma stoi_digits l : allDigits l -> l <> [] -> fitsInt (valOf l) = true -> stoi l = Some (valOf l).
Proof.
  intros D N F. unfold stoi.
  destruct l as [|c t]; [contradiction|]. inversion D; subst.
  destruct (digit_not_space c H1) as (_ & S1 & S2 & S3).
  cbn [skipSpaceC]. rewrite S1, S2, S3.
  rewrite (digitsVal_all (c :: t) D). cbn [length]. rewrite F. reflexivity.
Qed.

Lemma token_digits l rest : allDigits l -> token (l ++ ch_space :: rest) = (l, ch_space :: rest).
Proof.
  induction 1 as [|c l Hc _ IH]; cbn [app token].
  - rewrite N.eqb_refl. reflexivity.
  - destruct (digit_not_space c Hc) as (-> & _). rewrite IH. reflexivity.
Qed.
Lemma token_digits_end l : allDigits l -> token l = (l, []).
Proof.
  induction 1 as [|c l Hc _ IH]; cbn [token]; [reflexivity|].
  destruct (digit_not_space c Hc) as (-> & _). rewrite IH. reflexivity.
Qed.

(* ------------------------------------------------------------------ *)
(** * piece placement *)
Lemma pieceChar_facts pc : 1 <= pc <= 12 ->
  let c := pieceToFenChar pc in
  (c =? ch_space) = false /\ ((49 <=? c) && (c <=? 56)) = false /\ (c =? ch_slash) = false /\
  fenCharToPiece c = Some pc.
Proof.
  intro H.
  assert (E : pc = 1 \/ pc = 2 \/ pc = 3 \/ pc = 4 \/ pc = 5 \/ pc = 6 \/ pc = 7 \/ pc = 8 \/ pc = 9 \/
              pc = 10 \/ pc = 11 \/ pc = 12) by lia.
  repeat (destruct E as [->|E]; [cbv zeta; repeat split|]). subst. cbv zeta. repeat split.
Qed.

Section Placement.
Variable zk : zkeys.
Variable p : position.
Hypothesis Hpieces : Forall (fun pc => pc < 13) (squares p).
Hypothesis Hpawns : forall s, s < 8 \/ 56 <= s < 64 -> getPiece p s <> WPAWN /\ getPiece p s <> BPAWN.

Definition rowStep (r : N) (st : str * N) (c : nat) : str * N :=
  let '(out, numEmpty) := st in
  let pc := getPiece p (mkSq (N.of_nat c) r) in
  if pc =? EMPTY then (out, numEmpty + 1)
  else
    let out := if 0 <? numEmpty then out ++ [48 + numEmpty] else out in
    (out ++ [pieceToFenChar pc], 0).

Lemma fenRow_unfold r :
  fenRow p r = (let '(out, ne) := fold_left (rowStep r) (seq 0 8) ([], 0) in if 0 <? ne then out ++ [48 + ne] else out).
Proof. reflexivity. Qed.

Lemma rowStep_prefix r cs : forall out ne,
  fold_left (rowStep r) cs (out, ne) =
  (out ++ fst (fold_left (rowStep r) cs ([], ne)), snd (fold_left (rowStep r) cs ([], ne))).
Proof.
  induction cs as [|c cs IH]; intros out ne; cbn [fold_left].
  - rewrite app_nil_r. reflexivity.
  - unfold rowStep at 2 4 6. destruct (getPiece p (mkSq (N.of_nat c) r) =? EMPTY).
    + apply IH.
    + rewrite IH. rewrite (IH ((if 0 <? ne then [] ++ [48 + ne] else []) ++ _)). cbn [fst snd].
      f_equal. destruct (0 <? ne); rewrite <- ?app_assoc; reflexivity.
Qed.

(** conditional placement of the pieces of [p] on the squares of a list *)
Definition placeStep (q : position) (s : square) : position :=
  if getPiece p s =? EMPTY then q else setPiece zk q s (getPiece p s).
Definition rowSquares (r : N) (cs : list nat) : list square := map (fun c => mkSq (N.of_nat c) r) cs.

Lemma read_digit d rest q row col : 1 <= d <= 8 ->
  readPlacement zk ((48 + d) :: rest) q row col = readPlacement zk rest q row (col + Z.of_N d)%Z.
Proof.
  intro H. cbn [readPlacement].
  replace (48 + d =? ch_space) with false by (symmetry; apply N.eqb_neq; unfold ch_space; lia).
  replace ((49 <=? 48 + d) && (48 + d <=? 56)) with true
    by (symmetry; apply andb_true_intro; split; apply N.leb_le; lia).
  f_equal. lia.
Qed.

Lemma read_row r : forall (n : nat) (c0 : nat) ne q col k,
  r < 8 -> (c0 + n = 8)%nat -> (0 <= col)%Z -> (col + Z.of_N ne = Z.of_nat c0)%Z ->
  let W := fold_left (rowStep r) (seq c0 n) ([], ne) in
  readPlacement zk (fst W ++ (if 0 <? snd W then [48 + snd W] else []) ++ k) q (Z.of_N r) col =
  readPlacement zk k (fold_left placeStep (rowSquares r (seq c0 n)) q) (Z.of_N r) 8%Z.
Proof.
  induction n as [|n IH]; intros c0 ne q col k Hr Hc Hcol Hsum; cbv zeta.
  - cbn [seq fold_left fst snd rowSquares map app].
    destruct (N.ltb_spec 0 ne) as [Hne|Hne].
    + cbn [app]. rewrite read_digit by lia. f_equal. lia.
    + cbn [app]. f_equal. lia.
  - cbn [seq fold_left rowSquares map]. fold (rowSquares r (seq (S c0) n)).
    set (pc := getPiece p (mkSq (N.of_nat c0) r)).
    assert (Est : rowStep r ([], ne) c0 =
                  (if pc =? EMPTY then ([], ne + 1)
                   else ((if 0 <? ne then [] ++ [48 + ne] else []) ++ [pieceToFenChar pc], 0))) by reflexivity.
    assert (Epl : placeStep q (mkSq (N.of_nat c0) r) = if pc =? EMPTY then q else setPiece zk q (mkSq (N.of_nat c0) r) pc)
      by reflexivity.
    rewrite Est, Epl. clear Est Epl.
    destruct (N.eqb_spec pc EMPTY) as [Ee|Ee].
    + apply (IH (S c0) (ne + 1) q col k); auto; lia.
    + rewrite rowStep_prefix. cbn [fst snd].
      assert (Hpc : 1 <= pc <= 12).
      { assert (pc < 13) by (apply getPiece_lt; exact Hpieces). unfold EMPTY in Ee. lia. }
      destruct (pieceChar_facts pc Hpc) as (F1 & F2 & F3 & F4). cbv zeta in F1, F2, F3, F4.
      assert (Hread : forall col', (col' = Z.of_nat c0)%Z -> forall rest,
                readPlacement zk (pieceToFenChar pc :: rest) q (Z.of_N r) col' =
                readPlacement zk rest (setPiece zk q (mkSq (N.of_nat c0) r) pc) (Z.of_N r) (Z.of_nat (S c0))).
      { intros col' -> rest. cbn [readPlacement]. rewrite F1, F2, F3, F4.
        unfold safeSetPiece.
        replace (7 <? Z.of_nat c0)%Z with false by (symmetry; apply Z.ltb_ge; lia).
        assert (Hpw : ((pc =? WPAWN) || (pc =? BPAWN)) && ((Z.of_N r =? 0)%Z || (Z.of_N r =? 7)%Z) = false).
        { destruct ((pc =? WPAWN) || (pc =? BPAWN)) eqn:Epw; [|reflexivity]. cbn [andb].
          destruct ((Z.of_N r =? 0)%Z || (Z.of_N r =? 7)%Z) eqn:Er; [|reflexivity]. exfalso.
          assert (Hs : mkSq (N.of_nat c0) r < 8 \/ 56 <= mkSq (N.of_nat c0) r < 64).
          { unfold mkSq. apply orb_prop in Er as [Er|Er]; apply Z.eqb_eq in Er; lia. }
          destruct (Hpawns _ Hs) as (P1 & P2). fold pc in P1, P2.
          apply orb_prop in Epw as [E|E]; apply N.eqb_eq in E; contradiction. }
        rewrite Hpw.
        replace (Z.to_N (Z.of_N r * 8 + Z.of_nat c0)) with (mkSq (N.of_nat c0) r) by (unfold mkSq; lia).
        f_equal. lia. }
      destruct (N.ltb_spec 0 ne) as [Hne|Hne].
      * rewrite <- !app_assoc. cbn [app]. rewrite read_digit by lia.
        rewrite Hread by lia.
        apply (IH (S c0) 0 _ (Z.of_nat (S c0)) k); auto; lia.
      * rewrite <- !app_assoc. cbn [app].
        rewrite Hread by lia.
        apply (IH (S c0) 0 _ (Z.of_nat (S c0)) k); auto; lia.
Qed.


Lemma read_fenRow r q k : r < 8 ->
  readPlacement zk (fenRow p r ++ k) q (Z.of_N r) 0%Z =
  readPlacement zk k (fold_left placeStep (rowSquares r (seq 0 8)) q) (Z.of_N r) 8%Z.
Proof.
  intro Hr. pose proof (read_row r 8 0 0 q 0%Z k Hr eq_refl ltac:(lia) eq_refl) as H. cbv zeta in H.
  rewrite <- H. f_equal. rewrite fenRow_unfold.
  destruct (fold_left (rowStep r) (seq 0 8) ([], 0)) as [out ne]. cbn [fst snd].
  destruct (0 <? ne); rewrite <- ?app_assoc; cbn [app]; rewrite ?app_nil_r; reflexivity.
Qed.

Definition rowsText (ks : list nat) : str :=
  flat_map (fun k : nat => let r := 7 - N.of_nat k in fenRow p r ++ (if 0 <? r then [ch_slash] else [])) ks.
Definition allSquaresOf (ks : list nat) : list square :=
  flat_map (fun k : nat => rowSquares (7 - N.of_nat k) (seq 0 8)) ks.

Lemma read_rows n : forall k0 q rest, (k0 + n = 8)%nat ->
  readPlacement zk (rowsText (seq k0 n) ++ ch_space :: rest) q (Z.of_N (7 - N.of_nat k0)) 0%Z =
  inr (fold_left placeStep (allSquaresOf (seq k0 n)) q, ch_space :: rest).
Proof.
  induction n as [|n IH]; intros k0 q rest Hk.
  - cbn [seq rowsText allSquaresOf flat_map app fold_left readPlacement]. rewrite N.eqb_refl. reflexivity.
  - cbn [seq rowsText allSquaresOf flat_map]. fold (rowsText (seq (S k0) n)). fold (allSquaresOf (seq (S k0) n)).
    cbv zeta. rewrite fold_left_app. rewrite <- !app_assoc.
    rewrite read_fenRow by lia.
    set (q' := fold_left placeStep (rowSquares (7 - N.of_nat k0) (seq 0 8)) q).
    destruct (N.ltb_spec 0 (7 - N.of_nat k0)) as [Hpos|Hz].
    + cbn [app readPlacement].
      change (ch_slash =? ch_space) with false. change ((49 <=? ch_slash) && (ch_slash <=? 56)) with false.
      change (ch_slash =? ch_slash) with true. cbv iota.
      replace (Z.of_N (7 - N.of_nat k0) - 1 <? 0)%Z with false by (symmetry; apply Z.ltb_ge; lia).
      replace (Z.of_N (7 - N.of_nat k0) - 1)%Z with (Z.of_N (7 - N.of_nat (S k0))) by lia.
      apply IH. lia.
    + assert (n = 0)%nat by lia. subst n.
      cbn [seq rowsText allSquaresOf flat_map app fold_left readPlacement]. rewrite N.eqb_refl. reflexivity.
Qed.

(** the board after conditional placement *)
Definition condUpd (l0 : list piece) (SQ : list square) : list piece :=
  fold_left (fun l s => if getPiece p s =? EMPTY then l else updN s (getPiece p s) l) SQ l0.

Lemma squares_place SQ : forall q, squares (fold_left placeStep SQ q) = condUpd (squares q) SQ.
Proof.
  unfold condUpd. induction SQ as [|s SQ IH]; intro q; cbn [fold_left]; [reflexivity|].
  rewrite IH. unfold placeStep. destruct (getPiece p s =? EMPTY); [reflexivity|].
  rewrite squares_setPiece. reflexivity.
Qed.

Lemma condUpd_nth SQ : forall l0 x, length l0 = 64%nat -> Forall (fun s => s < 64) SQ ->
  length (condUpd l0 SQ) = 64%nat /\
  nthP (condUpd l0 SQ) x =
  if existsb (N.eqb x) SQ && negb (getPiece p x =? EMPTY) then getPiece p x else nthP l0 x.
Proof.
  unfold condUpd. induction SQ as [|s SQ IH]; intros l0 x Hl F; cbn [fold_left existsb]; [auto|].
  inversion F as [|? ? Hs F']; subst. cbv beta in Hs.
  destruct (N.eqb_spec (getPiece p s) EMPTY) as [Ee|Ee].
  - destruct (IH l0 x Hl F') as (L & Nn). split; [exact L|]. rewrite Nn.
    destruct (N.eqb_spec x s) as [->|Hne]; cbn [orb]; [|reflexivity].
    rewrite Ee. cbn [negb N.eqb EMPTY]. rewrite andb_false_r.
    destruct (existsb (N.eqb s) SQ); cbn [andb]; reflexivity.
  - destruct (IH (updN s (getPiece p s) l0) x) as (L & Nn); [rewrite length_updN; exact Hl | exact F' |].
    split; [exact L|]. rewrite Nn.
    destruct (N.eqb_spec x s) as [->|Hne]; cbn [orb].
    + replace (negb (getPiece p s =? EMPTY)) with true by (symmetry; apply negb_true_iff; apply N.eqb_neq; exact Ee).
      cbn [andb]. destruct (existsb (N.eqb s) SQ); cbn [andb]; [reflexivity|].
      apply nthP_updN_eq. unfold piece in *. rewrite Hl. exact Hs.
    + destruct (existsb (N.eqb x) SQ && negb (getPiece p x =? EMPTY)); [reflexivity|].
      apply nthP_updN_neq. auto.
Qed.

Lemma allSquares_facts :
  Forall (fun s => s < 64) (allSquaresOf (seq 0 8)) /\
  forallb (fun k => existsb (N.eqb (N.of_nat k)) (allSquaresOf (seq 0 8))) (seq 0 64) = true.
Proof.
  split; [|vm_compute; reflexivity].
  apply Forall_forall. intros x Hx.
  assert (H : forallb (fun s => s <? 64) (allSquaresOf (seq 0 8)) = true) by (vm_compute; reflexivity).
  rewrite forallb_forall in H. apply N.ltb_lt. auto.
Qed.

(** reading the placement text of [p] from the empty board gives the board of [p] *)
Lemma placement_roundtrip q0 rest :
  squares q0 = repeat EMPTY 64 -> length (squares p) = 64%nat ->
  let q := fold_left placeStep (allSquaresOf (seq 0 8)) q0 in
  readPlacement zk (rowsText (seq 0 8) ++ ch_space :: rest) q0 7%Z 0%Z = inr (q, ch_space :: rest) /\
  squares q = squares p.
Proof.
  intros H0 Hl. cbv zeta. split; [apply (read_rows 8 0 q0 rest eq_refl)|].
  rewrite squares_place. destruct allSquares_facts as (AF & AC).
  apply list_ext_N.
  - assert (L0 : length (squares q0) = 64%nat) by (rewrite H0; apply repeat_length).
    destruct (condUpd_nth (allSquaresOf (seq 0 8)) (squares q0) 0 L0 AF) as (L & _). exact L.
  - exact Hl.
  - intros s Hs.
    assert (L0 : length (squares q0) = 64%nat) by (rewrite H0; apply repeat_length).
    destruct (condUpd_nth (allSquaresOf (seq 0 8)) (squares q0) s L0 AF) as (_ & Nn).
    rewrite Nn. rewrite forallb_forall in AC.
    assert (E : existsb (N.eqb s) (allSquaresOf (seq 0 8)) = true).
    { specialize (AC (N.to_nat s)). rewrite N2Nat.id in AC. apply AC. apply in_seq. lia. }
    rewrite E. cbn [andb]. change (nthP (squares p) s) with (getPiece p s).
    destruct (N.eqb_spec (getPiece p s) EMPTY) as [Ee|Ee]; cbn [negb]; [|reflexivity].
    rewrite Ee. unfold nthP. rewrite H0. apply nth_repeat.
Qed.


Lemma place_frame SQ : forall q k, ConsistentX zk k q -> Forall (fun s => s < 64) SQ ->
  ConsistentX zk k (fold_left placeStep SQ q) /\ scalars (fold_left placeStep SQ q) = scalars q.
Proof.
  induction SQ as [|s SQ IH]; intros q k C F; cbn [fold_left]; [auto|].
  inversion F as [|? ? Hs F']; subst. cbv beta in Hs.
  unfold placeStep at 2 4. destruct (getPiece p s =? EMPTY); [apply IH; auto|].
  destruct (IH (setPiece zk q s (getPiece p s)) k) as (C' & S'); auto.
  - apply setPiece_consistent; auto. apply getPiece_lt. exact Hpieces.
  - split; [exact C'|]. rewrite S'. apply scalars_setPiece.
Qed.

End Placement.

(* ------------------------------------------------------------------ *)
(** * the other fields *)
Lemma readCastle_string cm rest : cm < 16 ->
  readCastle (castleMaskToString cm ++ ch_space :: rest) 0 = inr (cm, ch_space :: rest) /\
  skipSpaces (castleMaskToString cm ++ ch_space :: rest) = castleMaskToString cm ++ ch_space :: rest.
Proof.
  intro H.
  assert (E : cm = 0 \/ cm = 1 \/ cm = 2 \/ cm = 3 \/ cm = 4 \/ cm = 5 \/ cm = 6 \/ cm = 7 \/ cm = 8 \/ cm = 9 \/
              cm = 10 \/ cm = 11 \/ cm = 12 \/ cm = 13 \/ cm = 14 \/ cm = 15) by lia.
  repeat (destruct E as [->|E]; [split; reflexivity|]). subst. split; reflexivity.
Qed.

Lemma getSquare_chars ep : (0 <= ep < 64)%Z ->
  getSquare (ch_a + Z.to_N (Z.land ep 7)) (ch_1 + Z.to_N (Z.shiftr ep 3)) = ep /\
  (ch_a + Z.to_N (Z.land ep 7) =? ch_dash) = false /\ (ch_a + Z.to_N (Z.land ep 7) =? ch_space) = false /\
  (ch_1 + Z.to_N (Z.shiftr ep 3) =? ch_space) = false.
Proof.
  intro H.
  assert (Hx : (0 <= Z.land ep 7 < 8)%Z).
  { change 7%Z with (Z.ones 3). rewrite Z.land_ones by lia. apply Z.mod_pos_bound. lia. }
  assert (Hy : (0 <= Z.shiftr ep 3 < 8)%Z).
  { rewrite Z.shiftr_div_pow2 by lia. change (2 ^ 3)%Z with 8%Z. split; [apply Z.div_pos; lia|].
    apply Z.div_lt_upper_bound; lia. }
  assert (Hs : (Z.shiftr ep 3 * 8 + Z.land ep 7 = ep)%Z).
  { change 7%Z with (Z.ones 3). rewrite Z.land_ones by lia. rewrite Z.shiftr_div_pow2 by lia.
    change (2 ^ 3)%Z with 8%Z. pose proof (Z.div_mod ep 8). lia. }
  unfold ch_a, ch_1, ch_dash, ch_space.
  split; [|repeat split; apply N.eqb_neq; lia].
  unfold getSquare, scharVal.
  replace (97 + Z.to_N (Z.land ep 7) <? 128) with true by (symmetry; apply N.ltb_lt; lia).
  replace (49 + Z.to_N (Z.shiftr ep 3) <? 128) with true by (symmetry; apply N.ltb_lt; lia).
  replace (Z.of_N (97 + Z.to_N (Z.land ep 7)) - 97)%Z with (Z.land ep 7) by lia.
  replace (Z.of_N (49 + Z.to_N (Z.shiftr ep 3)) - 49)%Z with (Z.shiftr ep 3) by lia.
  replace (Z.land ep 7 <? 0)%Z with false by (symmetry; apply Z.ltb_ge; lia).
  replace (7 <? Z.land ep 7)%Z with false by (symmetry; apply Z.ltb_ge; lia).
  replace (Z.shiftr ep 3 <? 0)%Z with false by (symmetry; apply Z.ltb_ge; lia).
  replace (7 <? Z.shiftr ep 3)%Z with false by (symmetry; apply Z.ltb_ge; lia).
  cbn [orb]. exact Hs.
Qed.

Lemma fixCastleMask_squares a b cm : squares a = squares b -> fixCastleMask a cm = fixCastleMask b cm.
Proof. intro H. unfold fixCastleMask, getPiece. rewrite H. reflexivity. Qed.

Lemma countPiece_squares a b pc : squares a = squares b -> countPiece a pc = countPiece b pc.
Proof. intro H. unfold countPiece. rewrite H. reflexivity. Qed.

Lemma exb_ext {A} (f g : A -> bool) l : (forall x, f x = g x) -> existsb f l = existsb g l.
Proof. intro H. induction l; simpl; [reflexivity|]. rewrite H, IHl. reflexivity. Qed.

Lemma attackedBy_squares a b s w : squares a = squares b -> attackedBy a s w = attackedBy b s w.
Proof.
  intro H.
  assert (P : forall x y, pieceAtXY a x y = pieceAtXY b x y) by (intros; unfold pieceAtXY, getPiece; rewrite H; reflexivity).
  assert (R : forall fuel x y dx dy, rayPiece a fuel x y dx dy = rayPiece b fuel x y dx dy).
  { induction fuel; intros; cbn [rayPiece]; [reflexivity|]. rewrite P, IHfuel. reflexivity. }
  unfold attackedBy. cbv zeta.
  apply (f_equal2 orb); [apply (f_equal2 orb); [apply (f_equal2 orb); [apply (f_equal2 orb)|]|]|].
  - apply exb_ext. intros. rewrite P. reflexivity.
  - apply exb_ext. intros. rewrite P. reflexivity.
  - rewrite !P. reflexivity.
  - apply exb_ext. intros. rewrite R. reflexivity.
  - apply exb_ext. intros. rewrite R. reflexivity.
Qed.

Lemma inCheck_eq zk a b : Consistent zk a -> Consistent zk b -> squares a = squares b -> whiteMove a = whiteMove b ->
  inCheck a = inCheck b.
Proof.
  intros Ca Cb Hs Hw. unfold inCheck. rewrite Hw.
  assert (K : getKingSq a (whiteMove b) = getKingSq b (whiteMove b)).
  { unfold getKingSq, wKingSq, bKingSq. destruct Ca, Cb.
    rewrite (c_bb WKING), (c_bb0 WKING), (c_bb BKING), (c_bb0 BKING) by (unfold WKING, BKING; lia).
    rewrite Hs. reflexivity. }
  rewrite K. apply attackedBy_squares. exact Hs.
Qed.

(* ------------------------------------------------------------------ *)
(** * the theorem *)
Definition fenAcceptable (zk : zkeys) (p : position) : Prop :=
  Consistent zk p /\ countPiece p WKING = 1%nat /\ countPiece p BKING = 1%nat /\
  (forall s, s < 8 \/ 56 <= s < 64 -> getPiece p s <> WPAWN /\ getPiece p s <> BPAWN) /\
  inCheck (setWhiteMove zk p (negb (whiteMove p))) = false /\
  castleMask p < 16 /\ fixCastleMask p (castleMask p) = castleMask p /\
  (0 <= halfMoveClock p <= INT_MAX)%Z /\ (0 <= fullMoveCounter p <= INT_MAX)%Z /\
  (epSquare p = (-1)%Z \/
   (0 <= epSquare p < 64)%Z /\ getPiece p (Z.to_N (epSquare p)) = EMPTY /\
   (if whiteMove p then Z.shiftr (epSquare p) 3 = 5%Z /\ getPiece p (Z.to_N (epSquare p) - 8) = BPAWN
    else Z.shiftr (epSquare p) 3 = 2%Z /\ getPiece p (Z.to_N (epSquare p) + 8) = WPAWN)).

Lemma skip1 c r : (c =? ch_space) = false -> skipSpaces (ch_space :: c :: r) = c :: r.
Proof. intro H. cbn [skipSpaces]. rewrite N.eqb_refl, H. reflexivity. Qed.

Lemma token_two c0 c1 r : (c0 =? ch_space) = false -> (c1 =? ch_space) = false ->
  token (c0 :: c1 :: ch_space :: r) = ([c0; c1], ch_space :: r).
Proof. intros H0 H1. cbn [token]. rewrite H0, H1, N.eqb_refl. reflexivity. Qed.

Section Final.
Variable zk : zkeys.
Hypothesis EKZ : emptyKeysZero zk.

Lemma squares_setWhiteMove x b : squares (setWhiteMove zk x b) = squares x.
Proof. unfold setWhiteMove. break_if; reflexivity. Qed.
Lemma squares_setCastleMask x c : squares (setCastleMask zk x c) = squares x.
Proof. unfold setCastleMask. break_if; reflexivity. Qed.
Lemma squares_setEpSquare x e : squares (setEpSquare zk x e) = squares x.
Proof. unfold setEpSquare. break_if; reflexivity. Qed.
Lemma whiteMove_setWhiteMove x b : whiteMove (setWhiteMove zk x b) = b.
Proof. unfold setWhiteMove. destruct b, (whiteMove x) eqn:E; cbn; auto. Qed.

Lemma emptyPosition_facts :
  squares (emptyPosition zk) = repeat EMPTY 64 /\ scalars (emptyPosition zk) = (true, 0%Z, 1%Z, 0, (-1)%Z).
Proof.
  unfold emptyPosition, computeZobristHash. cbv zeta. destruct (boardHashes zk _) as [[h ph] mid]. split; reflexivity.
Qed.

(** the counters *)
Lemma fenCounters_digits x h f :
  (0 <= h <= INT_MAX)%Z -> (0 <= f <= INT_MAX)%Z ->
  fenCounters x (ch_space :: num2Str h ++ ch_space :: num2Str f) = setFullMoveCounter (setHalfMoveClock x h) f.
Proof.
  intros Hh Hf.
  destruct (num2Str_spec h (proj1 Hh)) as (l1 & E1 & D1 & V1 & N1).
  destruct (num2Str_spec f (proj1 Hf)) as (l2 & E2 & D2 & V2 & N2).
  rewrite E1, E2. unfold fenCounters. cbv zeta.
  assert (S1 : skipSpaces (ch_space :: l1 ++ ch_space :: l2) = l1 ++ ch_space :: l2).
  { destruct l1 as [|c t]; [contradiction|]. inversion D1; subst. apply skip1. apply (digit_not_space c H1). }
  rewrite S1, token_digits by exact D1.
  assert (S2 : skipSpaces (ch_space :: l2) = l2).
  { destruct l2 as [|c t]; [contradiction|]. inversion D2; subst. apply skip1. apply (digit_not_space c H1). }
  rewrite S2, token_digits_end by exact D2.
  assert (F1 : fitsInt (valOf l1) = true).
  { rewrite V1. unfold fitsInt, INT_MIN, INT_MAX in *. apply andb_true_intro. split; apply Z.leb_le; lia. }
  assert (F2 : fitsInt (valOf l2) = true).
  { rewrite V2. unfold fitsInt, INT_MIN, INT_MAX in *. apply andb_true_intro. split; apply Z.leb_le; lia. }
  rewrite (stoi_digits l1 D1 N1 F1), (stoi_digits l2 D2 N2 F2), V1, V2.
  destruct l1; [contradiction|]. destruct l2; [contradiction|]. reflexivity.
Qed.

Theorem fen_roundtrip p : fenAcceptable zk p ->
  exists q, normEmpty q = normEmpty p /\ readFEN zk (toFEN p) = FenOk (fixupEPSquare zk q).
Proof.
  intros (C & K1 & K2 & Hpw & Hchk & Hcm & Hfix & Hh & Hf & Hep).
  assert (Hpieces : Forall (fun pc => pc < 13) (squares p)) by (destruct C; auto).
  assert (Hlen : length (squares p) = 64%nat) by (destruct C; auto).
  destruct emptyPosition_facts as (E0s & E0c).
  (* 1. placement *)
  set (REST := (if whiteMove p then [ch_w; ch_space] else [ch_b; ch_space]) ++
               castleMaskToString (castleMask p) ++ [ch_space] ++
               (if negb (epSquare p =? -1)%Z
                then [ch_a + Z.to_N (Z.land (epSquare p) 7); ch_1 + Z.to_N (Z.shiftr (epSquare p) 3)]
                else [ch_dash]) ++
               [ch_space] ++ num2Str (halfMoveClock p) ++ [ch_space] ++ num2Str (fullMoveCounter p)).
  assert (ET : toFEN p = rowsText p (seq 0 8) ++ ch_space :: REST).
  { unfold toFEN, REST, rowsText. cbv zeta. f_equal. destruct (whiteMove p); reflexivity. }
  destruct (placement_roundtrip zk p Hpieces Hpw (emptyPosition zk) REST E0s Hlen) as (Rd & Sq1). cbv zeta in Rd, Sq1.
  destruct allSquares_facts as (AF & _).
  destruct (place_frame zk p Hpieces (allSquaresOf (seq 0 8)) (emptyPosition zk) 0
              (emptyPosition_consistent zk EKZ) AF) as (C1 & Sc1).
  set (q1 := fold_left (placeStep zk p) (allSquaresOf (seq 0 8)) (emptyPosition zk)) in *.
  rewrite E0c in Sc1.
  unfold readFEN. rewrite ET, Rd. cbv beta iota zeta.
  (* 2. side to move *)
  set (c := if whiteMove p then ch_w else ch_b).
  assert (ER : REST = c :: ch_space :: castleMaskToString (castleMask p) ++ ch_space ::
               (if negb (epSquare p =? -1)%Z
                then [ch_a + Z.to_N (Z.land (epSquare p) 7); ch_1 + Z.to_N (Z.shiftr (epSquare p) 3)]
                else [ch_dash]) ++
               ch_space :: num2Str (halfMoveClock p) ++ ch_space :: num2Str (fullMoveCounter p)).
  { unfold REST, c. destruct (whiteMove p); reflexivity. }
  rewrite ER. clear ER ET Rd.
  rewrite skip1 by (unfold c; destruct (whiteMove p); reflexivity).
  set (p2 := setWhiteMove zk q1 (c =? ch_w)).
  assert (C2 : Consistent zk p2) by (apply setWhiteMove_consistent; exact C1).
  assert (Sq2 : squares p2 = squares p).
  { unfold p2. rewrite squares_setWhiteMove. exact Sq1. }
  assert (Sc2 : scalars p2 = (whiteMove p, 0%Z, 1%Z, 0, (-1)%Z)).
  { destruct (scalars_proj _ _ _ _ _ _ Sc1) as (A1 & A2 & A3 & A4 & A5).
    unfold scalars. unfold p2 at 1. rewrite whiteMove_setWhiteMove.
    assert (Eo : forall x b, (halfMoveClock (setWhiteMove zk x b), fullMoveCounter (setWhiteMove zk x b),
                              castleMask (setWhiteMove zk x b), epSquare (setWhiteMove zk x b)) =
                             (halfMoveClock x, fullMoveCounter x, castleMask x, epSquare x))
      by (intros; unfold setWhiteMove; break_if; reflexivity).
    pose proof (Eo q1 (c =? ch_w)) as Eq. fold p2 in Eq. inversion Eq as [[B1 B2 B3 B4]].
    rewrite B1, B2, B3, B4, A2, A3, A4, A5. unfold c. destruct (whiteMove p); reflexivity. }
  (* 3. castling rights *)
  destruct (readCastle_string (castleMask p)
              ((if negb (epSquare p =? -1)%Z
                then [ch_a + Z.to_N (Z.land (epSquare p) 7); ch_1 + Z.to_N (Z.shiftr (epSquare p) 3)]
                else [ch_dash]) ++ ch_space :: num2Str (halfMoveClock p) ++ ch_space :: num2Str (fullMoveCounter p)) Hcm)
    as (RC & SK).
  cbn [skipSpaces]. rewrite N.eqb_refl. rewrite SK, RC. cbv beta iota zeta.
  rewrite (fixCastleMask_squares p2 p _ Sq2), Hfix.
  set (p3 := setCastleMask zk p2 (castleMask p)).
  assert (C3 : Consistent zk p3) by (apply setCastleMask_consistent; exact C2).
  assert (Sq3 : squares p3 = squares p).
  { unfold p3. rewrite squares_setCastleMask. exact Sq2. }
  assert (Sc3 : scalars p3 = (whiteMove p, 0%Z, 1%Z, castleMask p, (-1)%Z)).
  { unfold p3. rewrite (scalars_setCastle zk). destruct (scalars_proj _ _ _ _ _ _ Sc2) as (A1 & A2 & A3 & A4 & A5).
    rewrite A1, A2, A3, A5. reflexivity. }
  (* 4. en-passant field *)
  assert (EP : exists p4,
     (let s := skipSpaces (ch_space ::
                 (if negb (epSquare p =? -1)%Z
                  then [ch_a + Z.to_N (Z.land (epSquare p) 7); ch_1 + Z.to_N (Z.shiftr (epSquare p) 3)]
                  else [ch_dash]) ++ ch_space :: num2Str (halfMoveClock p) ++ ch_space :: num2Str (fullMoveCounter p)) in
      (match s with [] => inr p3 | _ :: _ => readEp zk p3 s end = inr p4) /\
      snd (token s) = ch_space :: num2Str (halfMoveClock p) ++ ch_space :: num2Str (fullMoveCounter p)) /\
     Consistent zk p4 /\ squares p4 = squares p /\
     scalars p4 = (whiteMove p, 0%Z, 1%Z, castleMask p, epSquare p)).
  { destruct Hep as [He|(Her & Hemp & Hrank)].
    - rewrite He. change (negb (-1 =? -1)%Z) with false. cbv iota.
      exists p3. split; [split; reflexivity|]. rewrite He in *. auto.
    - destruct (getSquare_chars (epSquare p) Her) as (G1 & G2 & G3 & G4).
      replace (negb (epSquare p =? -1)%Z) with true by (symmetry; apply negb_true_iff; apply Z.eqb_neq; lia).
      cbv iota. cbn [app]. rewrite skip1 by exact G3. cbv zeta.
      exists (setEpSquare zk p3 (epSquare p)). split; [split|].
      + unfold readEp. rewrite G2. cbn [negb]. rewrite G1.
        replace (negb (epSquare p =? -1)%Z) with true by (symmetry; apply negb_true_iff; apply Z.eqb_neq; lia).
        destruct (scalars_proj _ _ _ _ _ _ Sc3) as (A1 & _). rewrite A1.
        unfold getPiece in *. rewrite Sq3.
        destruct (whiteMove p); destruct Hrank as (R1 & R2); rewrite R1, Hemp, R2; reflexivity.
      + rewrite token_two by assumption. reflexivity.
      + split; [apply setEpSquare_consistent; exact C3|]. split.
        * rewrite squares_setEpSquare. exact Sq3.
        * rewrite (scalars_setEp zk). destruct (scalars_proj _ _ _ _ _ _ Sc3) as (A1 & A2 & A3 & A4 & A5).
          rewrite A1, A2, A3, A4. reflexivity. }
  destruct EP as (p4 & (RE & TK) & C4 & Sq4 & Sc4). cbv zeta in RE, TK.
  rewrite RE. cbv beta iota. rewrite TK.
  (* 5. counters *)
  rewrite (fenCounters_digits p4 _ _ Hh Hf).
  set (p6 := setFullMoveCounter (setHalfMoveClock p4 (halfMoveClock p)) (fullMoveCounter p)).
  assert (C6 : Consistent zk p6).
  { apply set_fullMoveCounter_consistent. apply set_halfMoveClock_consistent. exact C4. }
  assert (Sq6 : squares p6 = squares p) by exact Sq4.
  assert (Sc6 : scalars p6 = scalars p).
  { destruct (scalars_proj _ _ _ _ _ _ Sc4) as (A1 & A2 & A3 & A4 & A5).
    unfold p6, scalars. cbn. rewrite A1, A4, A5. reflexivity. }
  (* 6. final checks *)
  unfold fenFinish.
  rewrite (countPiece_squares p6 p WKING Sq6), (countPiece_squares p6 p BKING Sq6), K1, K2.
  cbn [Nat.eqb negb]. cbv zeta.
  assert (Hw6 : whiteMove p6 = whiteMove p) by (apply (f_equal (fun t => fst (fst (fst (fst t))))) in Sc6; exact Sc6).
  rewrite Hw6.
  rewrite (inCheck_eq zk (setWhiteMove zk p6 (negb (whiteMove p))) (setWhiteMove zk p (negb (whiteMove p)))).
  - rewrite Hchk. exists p6. split; [|reflexivity].
    apply (St_unique zk (squares p) (scalars p)); [split; [exact C6 | split; [exact Sq6 | exact Sc6]] | apply St_self; exact C].
  - apply setWhiteMove_consistent; exact C6.
  - apply setWhiteMove_consistent; exact C.
  - rewrite !squares_setWhiteMove. exact Sq6.
  - rewrite !whiteMove_setWhiteMove. reflexivity.
Qed.

End Final.

(** without an e.p. square the fix-up is the identity *)
Corollary fen_roundtrip_no_ep zk (EKZ : emptyKeysZero zk) p : fenAcceptable zk p -> epSquare p = (-1)%Z ->
  exists q, normEmpty q = normEmpty p /\ readFEN zk (toFEN p) = FenOk q.
Proof.
  intros A He. destruct (fen_roundtrip zk EKZ p A) as (q & Hn & Hr). exists q. split; [exact Hn|].
  rewrite Hr. f_equal. unfold fixupEPSquare.
  assert (Eq : epSquare q = epSquare p) by (apply (normEmpty_fields _ _ Hn)).
  rewrite Eq, He. reflexivity.
Qed.
