(** Specification side for C02: what the redundant fields of a position must be, as functions of
    the board (and of side/castle mask/e.p. square for the hash key).  Independent of the
    incremental update code in Position.v. *)
From Coq Require Import ZArith NArith List Bool.
From Texel Require Import Chess.Types Chess.Position.
Import ListNotations.
Local Open Scope N_scope.

(** set of squares (as a bitboard) whose piece satisfies [f]; the board is scanned from square [i] *)
Fixpoint bbOfFrom (f : piece -> bool) (i : N) (sqs : list piece) : N :=
  match sqs with
  | [] => 0
  | pc :: t => N.lor (if f pc then sqMask i else 0) (bbOfFrom f (N.succ i) t)
  end.
Definition bbOf (f : piece -> bool) (sqs : list piece) : N := bbOfFrom f 0 sqs.

Definition isWhitePiece (pc : piece) : bool := (1 <=? pc) && (pc <=? 6).
Definition isBlackPiece (pc : piece) : bool := (7 <=? pc) && (pc <=? 12).

Definition sumZ (l : list Z) : Z := fold_right Z.add 0%Z l.
(** material sums: the constructor starts both totals at -kV, so that one king gives 0 *)
Definition mtrlOf (f : piece -> bool) (sqs : list piece) : Z :=
  sumZ (map (fun pc => if f pc then pieceValue pc else 0%Z) sqs).
Definition matIdOf (sqs : list piece) : Z := sumZ (map materialId sqs).

Section WithKeys.
Variable zk : zkeys.

(** Zobrist keys from scratch *)
Fixpoint xorKeysFrom (f : piece -> bool) (i : N) (sqs : list piece) : N :=
  match sqs with
  | [] => 0
  | pc :: t => N.lxor (if f pc then psKey zk pc i else 0) (xorKeysFrom f (N.succ i) t)
  end.
Definition boardKey (sqs : list piece) : N := N.lxor (zk_empty zk) (xorKeysFrom (fun _ => true) 0 sqs).
Definition pawnKey (sqs : list piece) : N :=
  N.lxor (zk_empty zk) (xorKeysFrom (fun pc => (pc =? WPAWN) || (pc =? BPAWN)) 0 sqs).
Definition hashOf (p : position) : N :=
  N.lxor (N.lxor (N.lxor (boardKey (squares p)) (if whiteMove p then zk_white zk else 0))
                 (castleKey zk (castleMask p)))
         (epKey zk (epSquare p)).

(** the representation invariant.  [ConsistentX k] is the invariant "up to the key offset [k]"
    that holds in the middle of makeMove (the side-to-move key is toggled at the start, the
    side itself at the end); [Consistent] is offset 0. *)
Record ConsistentX (k : N) (p : position) : Prop := mkConsistent {
  c_len : length (squares p) = 64%nat;
  c_bblen : length (pieceTypeBB p) = 13%nat;
  c_pieces : Forall (fun pc => pc < 13) (squares p);
  c_bb : forall pc, 1 <= pc <= 12 -> ptBB p pc = bbOf (N.eqb pc) (squares p);
  c_white : whiteBB p = bbOf isWhitePiece (squares p);
  c_black : blackBB p = bbOf isBlackPiece (squares p);
  c_hash : hashKey p = N.lxor (hashOf p) k;
  c_phash : pHashKey p = pawnKey (squares p);
  c_matId : matId p = matIdOf (squares p);
  c_wMtrl : wMtrl p = (mtrlOf isWhitePiece (squares p) - kV)%Z;
  c_bMtrl : bMtrl p = (mtrlOf isBlackPiece (squares p) - kV)%Z;
  c_wMtrlPawns : wMtrlPawns p = mtrlOf (N.eqb WPAWN) (squares p);
  c_bMtrlPawns : bMtrlPawns p = mtrlOf (N.eqb BPAWN) (squares p)
}.
Definition Consistent (p : position) : Prop := ConsistentX 0 p.

(** the code relies on the EMPTY row of psHashKeys being zero (clearPiece and movePieceNotPawn
    do not toggle a key for the square that becomes empty) *)
Definition emptyKeysZero : Prop := forall sq, psKey zk EMPTY sq = 0.

(** executable form, one flag per group, in the order the C++ harness prints them:
    piece boards 1..12, white, black, hash, pawn hash, matId, wMtrl, bMtrl, wMtrlPawns,
    bMtrlPawns, the repo's own oracle (computeZobristHash), exact matId fits int *)
Definition consistencyBits (p : position) : list bool :=
  let sqs := squares p in
  let q := computeZobristHash zk p in
  [ forallb (fun pc => ptBB p pc =? bbOf (N.eqb pc) sqs) [1;2;3;4;5;6;7;8;9;10;11;12];
    whiteBB p =? bbOf isWhitePiece sqs;
    blackBB p =? bbOf isBlackPiece sqs;
    hashKey p =? hashOf p;
    pHashKey p =? pawnKey sqs;
    (matId p =? matIdOf sqs)%Z;
    (wMtrl p =? mtrlOf isWhitePiece sqs - kV)%Z;
    (bMtrl p =? mtrlOf isBlackPiece sqs - kV)%Z;
    (wMtrlPawns p =? mtrlOf (N.eqb WPAWN) sqs)%Z;
    (bMtrlPawns p =? mtrlOf (N.eqb BPAWN) sqs)%Z;
    (hashKey q =? hashKey p) && (pHashKey q =? pHashKey p) && (matId q =? matId p)%Z;
    fitsInt (matIdOf sqs) ].

Definition consistentb (p : position) : bool :=
  (length (squares p) =? 64)%nat && (length (pieceTypeBB p) =? 13)%nat &&
  forallb (fun pc => pc <? 13) (squares p) &&
  forallb (fun b => b) (firstn 10 (consistencyBits p)).

End WithKeys.

(** Shape of a pseudo-legal move, as far as make/unmake depend on it (every move produced by the
    engine's generators in a position accepted by the FEN reader has this shape; the check
    evaluates [moveOk] on every move it plays):
    own piece moves to a square not holding an own piece; a promotion is made by an own pawn
    to an own piece other than pawn and king; a pawn arriving on the e.p. square is the e.p.
    capture (target empty, enemy pawn behind it, not a double step); a king moving two files
    is castling (rook in place, squares passed are empty). *)
Definition ownPiece (wtm : bool) (pc : piece) : bool := if wtm then isWhitePiece pc else isBlackPiece pc.
Definition moveOk (p : position) (m : move) : bool :=
  let f := mfrom m in let t := mto m in
  let pc := getPiece p f in let cap := getPiece p t in let wtm := whiteMove p in
  let pawn := if wtm then WPAWN else BPAWN in
  let king := if wtm then WKING else BKING in
  let rook := if wtm then WROOK else BROOK in
  (f <? 64) && (t <? 64) && negb (f =? t) &&
  ownPiece wtm pc && negb (ownPiece wtm cap) &&
  (if mpromote m =? EMPTY then true
   else (pc =? pawn) && ownPiece wtm (mpromote m) && negb (mpromote m =? pawn) && negb (mpromote m =? king)) &&
  (if (pc =? pawn) && (Z.of_N t =? epSquare p)%Z then
     (cap =? EMPTY) && (mpromote m =? EMPTY) &&
     (if wtm then (8 <=? t) && (getPiece p (t - 8) =? BPAWN) && negb (t =? f + 16)
      else (t + 8 <? 64) && (getPiece p (t + 8) =? WPAWN) && negb (t + 16 =? f))
   else true) &&
  (if pc =? king then
     (if t =? f + 2 then (cap =? EMPTY) && (f + 3 <? 64) && (getPiece p (f + 1) =? EMPTY) && (getPiece p (f + 3) =? rook)
      else true) &&
     (if (2 <=? f) && (t =? f - 2) then (cap =? EMPTY) && (4 <=? f) && (getPiece p (f - 1) =? EMPTY) && (getPiece p (f - 4) =? rook)
      else true)
   else true).

(** the EMPTY piece board (pieceTypeBB_[Piece::EMPTY]) is dead state: no code reads it and it
    is not kept in any relation to the board; positions are compared modulo that entry *)
Definition normEmpty (p : position) : position := set_pieceTypeBB p (updN 0 0 (pieceTypeBB p)).
