(** C01_evasions_complete: when the side to move is in check, checkEvasions contains every
    legal move; so removeIllegal (checkEvasions p) is the list of legal moves - for any Zobrist
    tables and any values of the redundant fields.
    Chess content: a legal non-king move must capture the checking piece or land between it and
    the king (an en-passant capture apart, which the generator always emits); with two checking
    pieces no square does both, so only king moves are legal; castling is not pseudo-legal in check. *)
From Coq Require Import ZArith NArith List Bool Lia.
From Texel Require Import Chess.Types Chess.Position Chess.PositionSpec Chess.PositionFacts Chess.PositionProofs
  Chess.PositionProofs2 Chess.PositionProofs4 Chess.PositionTheorems Chess.PositionB
  Chess.BitBoard Chess.MoveGen Chess.Spec Chess.MoveGenWF
  Chess.BitBoardProofs Chess.RayProofs Chess.MoveGenProofs Chess.AttackProofs Chess.SliderProofs Chess.PawnProofs
  Chess.PseudoProofs Chess.MakeSpecProofs Chess.TryMoveProofs Chess.CastleProofs Chess.LegalProofs Chess.ShortcutProofs
  Chess.IsLegalProofs Chess.CapturesProofs Chess.NoDupProofs Chess.WfProofs Chess.IsLegalFull Chess.EvasionsIn Chess.IsLegalAll
  Chess.RemoveIllegalIndep gen.BitBoardTables.
Import ListNotations.
Local Open Scope N_scope.

(** two "between" sets from one square that share a square lie on one ray *)
Definition G7P (ks y1 : square) : bool :=
  let s1 := SB ks y1 in
  forallb (fun y2 => if y2 =? y1 then true else
                     let s2 := SB ks y2 in
                     if N.land s1 s2 =? 0 then true else N.testbit s2 y1 || N.testbit s1 y2) allSquares.
Lemma G7_ok : forallb (fun a => forallb (G7P a) allSquares) allSquares = true.
Proof. vm_compute. reflexivity. Qed.

Lemma G7 : forall ks y1 y2 t, ks < 64 -> y1 < 64 -> y2 < 64 -> y1 <> y2 ->
  N.testbit (SB ks y1) t = true -> N.testbit (SB ks y2) t = true ->
  N.testbit (SB ks y2) y1 = true \/ N.testbit (SB ks y1) y2 = true.
Proof.
  intros ks y1 y2 t Hk H1 H2 Hne B1 B2. pose proof (sweep2 G7P G7_ok ks y1 Hk H1) as H. unfold G7P in H. cbv zeta in H.
  pose proof (inner_sweep _ y2 H H2) as H'. cbv beta in H'.
  replace (y2 =? y1) with false in H' by (symmetry; apply N.eqb_neq; auto).
  destruct (N.eqb_spec (N.land (SB ks y1) (SB ks y2)) 0) as [Ez|_].
  - exfalso. assert (Hb : N.testbit (N.land (SB ks y1) (SB ks y2)) t = false) by (rewrite Ez; apply N.bits_0).
    rewrite N.land_spec, B1, B2 in Hb. discriminate.
  - apply orb_true_iff in H'. exact H'.
Qed.

Definition G8P (a b : square) : bool := Bool.eqb (N.testbit (kingAttacks a) b) (N.testbit (kingAttacks b) a).
Lemma G8_ok : forallb (fun a => forallb (G8P a) allSquares) allSquares = true.
Proof. vm_compute. reflexivity. Qed.

(** single-bit words *)
Lemma single_bit : forall T y, (forall z, N.testbit T z = true -> z = y) -> N.testbit T y = true -> T = bit y.
Proof.
  intros T y Hall Hy. apply N.bits_inj. intro k. rewrite bit_testbit.
  destruct (N.eqb_spec y k) as [<-|Hne]; [exact Hy|].
  destruct (N.testbit T k) eqn:E; [exfalso; apply Hne; symmetry; apply Hall; exact E | reflexivity].
Qed.

Lemma bit_single_test : forall y, nz (bit y) = true /\ N.land (bit y) (N.pred (bit y)) = 0.
Proof.
  intro y. split.
  - apply nz_exists. exists y. rewrite bit_testbit. apply N.eqb_refl.
  - unfold bit. rewrite N.shiftl_1_l. rewrite <- N.ones_equiv. apply N.bits_inj. intro k.
    rewrite N.land_spec, N.pow2_bits_eqb, N.bits_0.
    destruct (N.eqb_spec y k) as [<-|Hne]; [rewrite N.ones_spec_high by lia; reflexivity | reflexivity].
Qed.

Lemma if_nz_lor : forall a X r y,
  N.testbit (if nz X then N.lor a (N.land X r) else a) y = N.testbit a y || (N.testbit X y && N.testbit r y).
Proof.
  intros a X r y. destruct (nz X) eqn:E.
  - rewrite N.lor_spec, N.land_spec. reflexivity.
  - unfold nz in E. apply negb_false_iff, N.eqb_eq in E. subst X. rewrite N.bits_0. cbn [andb]. rewrite orb_false_r. reflexivity.
Qed.

Lemma ce_dep : forall sq bb wb kb wm hc fc cm ep h1 h2 h3 h4 h5 h6 h7 g1 g2 g3 g4 g5 g6 g7,
  checkEvasions (mkPos sq bb wb kb wm hc fc cm ep h1 h2 h3 h4 h5 h6 h7) =
  checkEvasions (mkPos sq bb wb kb wm hc fc cm ep g1 g2 g3 g4 g5 g6 g7).
Proof.
  intros. unfold checkEvasions, checkEvasionsT, kingSq, epMaskOf, ptBB, occupiedBB, colorBB, getPiece.
  cbn [squares pieceTypeBB whiteBB blackBB whiteMove castleMask epSquare]. reflexivity.
Qed.
Lemma ce_twin : forall p, checkEvasions (twin p) = checkEvasions p.
Proof. intros [sq bb wb kb wm hc fc cm ep h1 h2 h3 h4 h5 h6 h7]. unfold twin. cbn [squares pieceTypeBB whiteBB blackBB whiteMove halfMoveClock fullMoveCounter castleMask epSquare]. apply ce_dep. Qed.

Section Complete.
Variable p : position.
Hypothesis HWF : WF p.
Hypothesis Hchk : inCheck p = true.
Let w := whiteMove p.
Let ks := kingSq p w.
Let occ := occupiedBB p.
Let T := kingThreatsOf w p.
Let HBp : BoardOK p := WF_BoardOK p HWF.

Definition patk : N := if w then wPawnAttacks ks else bPawnAttacks ks.

(** the set of checking pieces *)
Lemma T_iff : forall y, N.testbit T y = true <->
  (N.testbit (ptBB p (myPiece (negb w) WKNIGHT)) y = true /\ N.testbit (knightAttacks ks) y = true) \/
  ((N.testbit (ptBB p (myPiece (negb w) WROOK)) y = true \/ N.testbit (ptBB p (myPiece (negb w) WQUEEN)) y = true) /\ N.testbit (rookAttacks ks occ) y = true) \/
  ((N.testbit (ptBB p (myPiece (negb w) WBISHOP)) y = true \/ N.testbit (ptBB p (myPiece (negb w) WQUEEN)) y = true) /\ N.testbit (bishopAttacks ks occ) y = true) \/
  (N.testbit (ptBB p (myPiece (negb w) WPAWN)) y = true /\ N.testbit patk y = true).
Proof.
  intro y. unfold T, kingThreatsOf. cbv zeta. fold ks occ. fold patk.
  rewrite N.lor_spec, !if_nz_lor, !N.land_spec, !N.lor_spec.
  rewrite !orb_true_iff, !andb_true_iff, !orb_true_iff. tauto.
Qed.

Lemma ksK : ks < 64 /\ getPiece p ks = mk_piece w King.
Proof. apply kingSq_spec. exact HWF. Qed.

(** the enemy king is never next to ours *)
Lemma no_king_contact : forall y, N.testbit (kingAttacks ks) y = true -> N.testbit (ptBB p (myPiece (negb w) WKING)) y = true -> False.
Proof.
  intros y Ha Hb. destruct ksK as [Hk Hkp].
  destruct (enemy_code p WKING ltac:(cbn; tauto)) as (Hc & _ & _). fold w in Hc.
  rewrite (BoardOK_ptBB p _ y HBp Hc) in Hb. apply andb_true_iff in Hb. destruct Hb as [Hy Hpy]. apply N.ltb_lt in Hy. apply N.eqb_eq in Hpy.
  assert (EK : myPiece (negb w) WKING = mk_piece (negb w) King) by (unfold w; destruct (whiteMove p); reflexivity).
  rewrite EK in Hpy.
  destruct (WF_parts p HWF) as [_ [_ [_ [_ Hacc]]]]. destruct (accepted_parts _ Hacc) as (_ & _ & _ & _ & Hnc & _).
  cbn [abs sp_board sp_white] in Hnc. fold w in Hnc. unfold in_checkb in Hnc.
  rewrite (find_king_spec (squares p) (negb w) y Hy Hpy) in Hnc
    by (intros s1 s2 H1 H2 K1 K2; apply (king_unique p (negb w) s1 s2 HWF H1 H2 K1 K2)).
  rewrite <- (sqAttacked_spec p (negb w) y HWF Hy) in Hnc.
  assert (Hyes : sqAttackedT (negb w) p y (occupiedBB p) = true); [|congruence].
  apply sqAttackedT_iff. right. left. exists ks. split.
  - pose proof (sweep2 G8P G8_ok ks y Hk Hy) as H. unfold G8P in H. apply eqb_prop in H. rewrite <- H. exact Ha.
  - rewrite negb_involutive.
    assert (Hc2 : In (myPiece w WKING) pieceCodes) by (apply myPiece_codes; cbn; tauto).
    rewrite (BoardOK_ptBB p _ ks HBp Hc2), Hkp.
    replace (ks <? 64) with true by (symmetry; apply N.ltb_lt; exact Hk).
    unfold w. destruct (whiteMove p); reflexivity.
Qed.

Lemma some_checker : exists y, N.testbit T y = true.
Proof.
  pose proof Hchk as H. change (inCheck p) with (sqAttackedT w p ks occ) in H. apply sqAttackedT_iff in H.
  destruct H as [[y [A B]]|[[y [A B]]|[[y [A B]]|[[y [A B]]|[y [A B]]]]]].
  - exists y. apply T_iff. left. auto.
  - exfalso. exact (no_king_contact y A B).
  - exists y. apply T_iff. right. right. right. auto.
  - exists y. apply T_iff. right. right. left. auto.
  - exists y. apply T_iff. right. left. auto.
Qed.

(** a checker is an enemy piece on an occupied square; what stands between it and the king is empty *)
Lemma checker_facts : forall y, N.testbit T y = true ->
  y < 64 /\ N.testbit occ y = true /\ has_color w (getPiece p y) = false /\ getPiece p y <> EMPTY /\
  N.land (SB ks y) occ = 0.
Proof.
  intros y Hy. destruct ksK as [Hk _]. apply T_iff in Hy.
  assert (Hen : forall X, In X [1; 2; 3; 4; 5; 6] -> N.testbit (ptBB p (myPiece (negb w) X)) y = true ->
            y < 64 /\ N.testbit occ y = true /\ has_color w (getPiece p y) = false /\ getPiece p y <> EMPTY).
  { intros X HX Hb. destruct (enemy_code p X HX) as (Hc & Hcol & Hne). fold w in Hc, Hcol, Hne.
    destruct (occupied_enemy p HWF X y HX Hb) as [Ho Hy64]. fold occ in Ho.
    rewrite (BoardOK_ptBB p _ y HBp Hc) in Hb. apply andb_true_iff in Hb. destruct Hb as [_ Hp]. apply N.eqb_eq in Hp.
    rewrite Hp. auto. }
  destruct Hy as [[A B]|[[A B]|[[A B]|[A B]]]].
  - destruct (Hen WKNIGHT ltac:(cbn; tauto) A) as (H1 & H2 & H3 & H4). repeat split; try assumption.
    destruct (G6 ks y Hk H1) as (G & _). change SB with squaresBetween in G |- *. rewrite G by (left; exact B). apply N.land_0_l.
  - assert (HH : y < 64 /\ N.testbit occ y = true /\ has_color w (getPiece p y) = false /\ getPiece p y <> EMPTY)
      by (destruct A as [A|A]; [apply (Hen WROOK) | apply (Hen WQUEEN)]; auto; cbn; tauto).
    destruct HH as (H1 & H2 & H3 & H4). repeat split; try assumption. apply (rookAttacks_testbit ks occ y Hk) in B. apply B.
  - assert (HH : y < 64 /\ N.testbit occ y = true /\ has_color w (getPiece p y) = false /\ getPiece p y <> EMPTY)
      by (destruct A as [A|A]; [apply (Hen WBISHOP) | apply (Hen WQUEEN)]; auto; cbn; tauto).
    destruct HH as (H1 & H2 & H3 & H4). repeat split; try assumption. apply (bishopAttacks_testbit ks occ y Hk) in B. apply B.
  - destruct (Hen WPAWN ltac:(cbn; tauto) A) as (H1 & H2 & H3 & H4). repeat split; try assumption.
    assert (Hadj : N.testbit (kingAttacks ks) y = true).
    { assert (Hsub : forallb (fun a => (N.ldiff (wPawnAttacks a) (kingAttacks a) =? 0) && (N.ldiff (bPawnAttacks a) (kingAttacks a) =? 0)) allSquares = true)
        by (vm_compute; reflexivity).
      pose proof (sweep1 _ Hsub ks Hk) as Hs. cbv beta in Hs. apply andb_true_iff in Hs. destruct Hs as [S1 S2]. apply N.eqb_eq in S1, S2.
      unfold patk in B.
      assert (Hd : forall a, N.ldiff a (kingAttacks ks) = 0 -> N.testbit a y = true -> N.testbit (kingAttacks ks) y = true).
      { intros a Ha Hb. assert (Hz : N.testbit (N.ldiff a (kingAttacks ks)) y = false) by (rewrite Ha; apply N.bits_0).
        rewrite N.ldiff_spec, Hb in Hz. cbn [andb] in Hz. apply negb_false_iff in Hz. exact Hz. }
      destruct w; [apply (Hd _ S1 B) | apply (Hd _ S2 B)]. }
    destruct (G6 ks y Hk H1) as (G & _). change SB with squaresBetween in G |- *. rewrite G by (right; exact Hadj). apply N.land_0_l.
Qed.
End Complete.

Section Complete2.
Variable p : position.
Hypothesis HWF : WF p.
Hypothesis Hchk : inCheck p = true.
Variable m : move.
Hypothesis Hleg : legal_spec (abs p) m.
Let w := whiteMove p.
Let ks := kingSq p w.
Let occ := occupiedBB p.
Let T := kingThreatsOf w p.
Let q := fst (makeMove zkDummy p m).

Lemma HmP : In m (pseudoLegalMoves p).
Proof. apply (pseudo_exact_all p m HWF). exact Hleg. Qed.

Lemma WFq : WF q.
Proof. exact (made_WF zkDummy p HWF m Hleg). Qed.

(** a non-king move that is neither an e.p. capture: the board after it *)
Lemma q_simple : mfrom m <> ks -> isEp p m = false ->
  forall s, getPiece q s = if s =? mto m then landing p m else if s =? mfrom m then EMPTY else getPiece p s.
Proof.
  intros Hnk Hep s. destruct (ksK p HWF) as [Hk Hkp]. fold w ks in Hk, Hkp.
  destruct (mf_lt zkDummy p HWF m Hleg) as (Hf & Ht & _).
  assert (HnK : is_piece w King (getPiece p (mfrom m)) = false).
  { rewrite is_piece_eqb. apply N.eqb_neq. intro E. apply Hnk. apply (king_unique p w _ _ HWF Hf Hk E Hkp). }
  unfold q. rewrite (q_get zkDummy p HWF m Hleg), (b'_form zkDummy p HWF m Hleg). cbv zeta.
  unfold isCK, isCQ. fold w. rewrite HnK, Hep. cbn [andb].
  destruct (WF_parts p HWF) as [Hl _].
  destruct (N.eqb_spec s (mto m)) as [->|N1]; [apply nth_updN_eq; rewrite length_updN; lia|].
  rewrite nth_updN_neq by auto.
  destruct (N.eqb_spec s (mfrom m)) as [->|N2]; [apply nth_updN_eq; lia|].
  rewrite nth_updN_neq by auto. reflexivity.
Qed.

(** a checking piece that is neither captured nor blocked still checks after the move *)
Lemma persist : mfrom m <> ks -> isEp p m = false ->
  forall y, N.testbit T y = true -> mto m <> y -> N.testbit (SB ks y) (mto m) = false -> False.
Proof.
  intros Hnk Hep y Hy Hty Htb. destruct (ksK p HWF) as [Hk Hkp]. fold w ks in Hk, Hkp.
  pose proof (q_simple Hnk Hep) as Hgq. pose proof WFq as Wq. pose proof (WF_BoardOK q Wq) as HBq.
  pose proof (leg_facts zkDummy p HWF m Hleg) as (_ & (_ & Hok & _) & _ & Esq & Hsafe). fold q w in Esq, Hsafe.
  pose proof (moveOk_facts p m Hok) as F. cbv zeta in F. destruct F as (Hf & Ht & Hne & Hown & Hcapn & _). fold w in Hown, Hcapn.
  destruct (checker_facts p HWF y Hy) as (Hy64 & Hoy & Hcol & Hney & Hclear). fold w ks occ in Hoy, Hcol, Hclear.
  assert (Htk : mto m <> ks).
  { intro E. rewrite E, Hkp in Hcapn. unfold w in Hcapn. destruct (whiteMove p); discriminate. }
  assert (Hyf : y <> mfrom m).
  { intro E. rewrite E in Hcol. pose proof (BoardOK_le12 p (mfrom m) (WF_BoardOK p HWF)) as Hle.
    rewrite (ownPiece_has_color w _ Hle) in Hown. congruence. }
  (* the king is where it was *)
  assert (HkQ : getPiece q ks = mk_piece w King).
  { rewrite Hgq. replace (ks =? mto m) with false by (symmetry; apply N.eqb_neq; auto).
    replace (ks =? mfrom m) with false by (symmetry; apply N.eqb_neq; auto). exact Hkp. }
  assert (Hcheck : in_checkb (squares q) w = sqAttackedT w q ks (occupiedBB q)).
  { unfold in_checkb. rewrite (find_king_spec (squares q) w ks Hk HkQ)
      by (intros s1 s2 H1 H2 K1 K2; apply (king_unique q w s1 s2 Wq H1 H2 K1 K2)).
    symmetry. apply (sqAttacked_spec q w ks Wq Hk). }
  rewrite <- Esq, Hcheck in Hsafe.
  assert (Hyes : sqAttackedT w q ks (occupiedBB q) = true); [|congruence].
  (* the piece on y is still there *)
  assert (Hpy : getPiece q y = getPiece p y).
  { rewrite Hgq. replace (y =? mto m) with false by (symmetry; apply N.eqb_neq; auto).
    replace (y =? mfrom m) with false by (symmetry; apply N.eqb_neq; auto). reflexivity. }
  assert (Hbitq : forall X, In X [1; 2; 3; 4; 5; 6] -> N.testbit (ptBB p (myPiece (negb w) X)) y = true ->
            N.testbit (ptBB q (myPiece (negb w) X)) y = true).
  { intros X HX Hb. destruct (enemy_code p X HX) as (Hc & _ & _). fold w in Hc.
    rewrite (BoardOK_ptBB p _ y (WF_BoardOK p HWF) Hc) in Hb. rewrite (BoardOK_ptBB q _ y HBq Hc), Hpy. exact Hb. }
  assert (Hclq : N.land (SB ks y) (occupiedBB q) = 0).
  { apply land_zero_iff. intros x Hx. rewrite land_zero_iff in Hclear. pose proof (Hclear x Hx) as Hox.
    rewrite (occupied_testbit_B q x HBq), Hgq.
    assert (Hxt : x <> mto m) by (intro E; subst x; congruence).
    replace (x =? mto m) with false by (symmetry; apply N.eqb_neq; auto).
    destruct (N.eqb_spec x (mfrom m)) as [_|N2]; [change (EMPTY =? EMPTY) with true; apply andb_false_r|].
    unfold occ in Hox. rewrite (occupied_testbit_B p x (WF_BoardOK p HWF)) in Hox. exact Hox. }
  apply sqAttackedT_iff. apply (T_iff p) in Hy. fold w ks occ in Hy.
  destruct Hy as [[A B]|[[A B]|[[A B]|[A B]]]].
  - left. exists y. split; [exact B | apply (Hbitq WKNIGHT); [cbn; tauto | exact A]].
  - right. right. right. right. exists y. split.
    + apply (rookAttacks_testbit ks occ y Hk) in B. destruct B as (_ & Hal & _).
      apply (rookAttacks_testbit ks _ y Hk). auto.
    + destruct A as [A|A]; [left; apply (Hbitq WROOK) | right; apply (Hbitq WQUEEN)]; auto; cbn; tauto.
  - right. right. right. left. exists y. split.
    + apply (bishopAttacks_testbit ks occ y Hk) in B. destruct B as (_ & Hal & _).
      apply (bishopAttacks_testbit ks _ y Hk). auto.
    + destruct A as [A|A]; [left; apply (Hbitq WBISHOP) | right; apply (Hbitq WQUEEN)]; auto; cbn; tauto.
  - right. right. left. exists y. split; [exact B | apply (Hbitq WPAWN); [cbn; tauto | exact A]].
Qed.

(** hence the target square is a valid target *)
Lemma target_valid : mfrom m <> ks -> isEp p m = false -> N.testbit (validTargetsOf w p) (mto m) = true.
Proof.
  intros Hnk Hep. destruct (ksK p HWF) as [Hk _]. fold w ks in Hk.
  assert (Hneut : forall y, N.testbit T y = true -> mto m = y \/ N.testbit (SB ks y) (mto m) = true).
  { intros y Hy. destruct (N.eq_dec (mto m) y) as [|Hne]; [left; assumption|].
    destruct (N.testbit (SB ks y) (mto m)) eqn:E; [right; reflexivity|]. exfalso. exact (persist Hnk Hep y Hy Hne E). }
  assert (Huniq : forall y1 y2, N.testbit T y1 = true -> N.testbit T y2 = true -> y1 = y2).
  { intros y1 y2 H1 H2. destruct (N.eq_dec y1 y2) as [|Hne]; [assumption|]. exfalso.
    destruct (checker_facts p HWF y1 H1) as (L1 & O1 & _ & _ & C1). destruct (checker_facts p HWF y2 H2) as (L2 & O2 & _ & _ & C2).
    fold w ks occ in O1, O2, C1, C2. rewrite land_zero_iff in C1, C2.
    destruct (Hneut y1 H1) as [E1|B1]; destruct (Hneut y2 H2) as [E2|B2].
    - congruence.
    - rewrite E1 in B2. specialize (C2 _ B2). congruence.
    - rewrite E2 in B1. specialize (C1 _ B1). congruence.
    - destruct (G7 ks y1 y2 (mto m) Hk L1 L2 Hne B1 B2) as [G|G]; [specialize (C2 _ G) | specialize (C1 _ G)]; congruence. }
  destruct (some_checker p HWF Hchk) as [y0 Hy0]. fold w T in Hy0.
  destruct (checker_facts p HWF y0 Hy0) as (L0 & _).
  assert (ET : T = bit y0) by (apply single_bit; [intros z Hz; apply (Huniq z y0 Hz Hy0) | exact Hy0]).
  unfold validTargetsOf. fold T ks. rewrite ET. destruct (bit_single_test y0) as [S1 S2]. rewrite S1, S2, N.eqb_refl. cbn [andb].
  unfold firstSquare. rewrite (firstBitT_bit y0 L0). rewrite N.lor_spec, bit_testbit.
  destruct (Hneut y0 Hy0) as [E|B]; [rewrite E, N.eqb_refl; reflexivity | fold (SB ks y0); rewrite B; apply orb_true_r].
Qed.
End Complete2.

Section Complete3.
Variable p : position.
Hypothesis HWF : WF p.
Hypothesis Hchk : inCheck p = true.
Variable m : move.
Hypothesis Hleg : legal_spec (abs p) m.
Let w := whiteMove p.
Let ks := kingSq p w.
Let occ := occupiedBB p.

Lemma cls_from : forall c : Z, cls p m = c -> c <> 100%Z -> c <> 101%Z -> mfrom m <> ks.
Proof.
  intros c Hc N1 N2 E. destruct (ksK p HWF) as [_ Hkp]. fold w ks in Hkp.
  unfold cls in Hc. cbv zeta in Hc. rewrite E in Hc. fold w ks in Hc. rewrite Hkp, N.eqb_refl in Hc.
  destruct (N.testbit _ _); congruence.
Qed.

Lemma cls_pawn : forall d : Z, cls p m = (200 + d)%Z -> (-20 <= d <= 20)%Z ->
  getPiece p (mfrom m) = mk_piece w Pawn /\ (Z.of_N (mfrom m) - Z.of_N (mto m) = d)%Z.
Proof.
  intros d Hc Hd. unfold cls in Hc. cbv zeta in Hc. fold w in Hc.
  destruct (getPiece p (mfrom m) =? mk_piece w King); [destruct (N.testbit _ _); lia|].
  destruct (N.eqb_spec (getPiece p (mfrom m)) (mk_piece w Pawn)) as [E|_]; [split; [exact E | lia]|].
  pose proof (BoardOK_le12 p (mfrom m) (WF_BoardOK p HWF)). lia.
Qed.

Theorem evasion_generated : In m (checkEvasions p).
Proof.
  apply (evasions_iff p HWF m). fold w.
  pose proof (HmP p HWF m Hleg) as Hm. rewrite pseudo_list in Hm.
  destruct (bounds p HWF) as (Hp & H1 & H2 & H3 & H4 & _).
  assert (Hloop : forall X (g : square -> N), In X [2; 3; 4; 5] -> In m (loopMoves (ptBB p (myPiece w X)) g) ->
            N.testbit (validTargetsOf w p) (mto m) = true).
  { intros X g HX Hin. pose proof (loop_cls p HWF X g m HX Hin) as Hc. fold w in Hc.
    assert (Hnk : mfrom m <> ks).
    { apply (cls_from _ Hc); cbn [In] in HX; destruct HX as [<-|[<-|[<-|[<-|[]]]]]; unfold w; destruct (whiteMove p); discriminate. }
    apply (target_valid p HWF Hchk m Hleg Hnk).
    assert (Hbb : ptBB p (myPiece w X) < 2 ^ 64) by (apply ptBB_lt; [exact HWF | apply myPiece_codes; cbn [In] in HX |- *; tauto]).
    apply loopMoves_In in Hin; [|exact Hbb]. destruct Hin as (Hb & _).
    assert (Hpc : In (myPiece w X) pieceCodes) by (apply myPiece_codes; cbn [In] in HX |- *; tauto).
    rewrite (ptBB_testbit p _ _ HWF Hpc) in Hb. apply andb_true_iff in Hb. destruct Hb as [_ Hb]. apply N.eqb_eq in Hb.
    unfold isEp. fold w. rewrite Hb, is_piece_eqb.
    replace (myPiece w X =? mk_piece w Pawn) with false; [reflexivity|].
    cbn [In] in HX; destruct HX as [<-|[<-|[<-|[<-|[]]]]]; unfold w; destruct (whiteMove p); reflexivity. }
  assert (Hpush : forall d : Z, cls p m = (200 + d)%Z -> (d = 8 \/ d = -8 \/ d = 16 \/ d = -16)%Z ->
            N.testbit (validTargetsOf w p) (mto m) = true).
  { intros d Hc Hd. assert (Hnk : mfrom m <> ks) by (apply (cls_from _ Hc); lia).
    apply (target_valid p HWF Hchk m Hleg Hnk).
    destruct (cls_pawn d Hc ltac:(lia)) as [_ Hdiff].
    assert (Hzf : zf (mto m) = zf (mfrom m)).
    { symmetry. apply (zf_shift _ _ (d / 8)). destruct Hd as [->|[->|[->| ->]]]; cbn; lia. }
    unfold isEp. rewrite Hzf, Z.eqb_refl. cbn [negb]. rewrite andb_false_r. reflexivity. }
  assert (Hcap : forall d : Z, cls p m = (200 + d)%Z -> (-20 <= d <= 20)%Z ->
            N.testbit (N.lor (colorBB p (negb w)) (epMaskOf p)) (mto m) = true ->
            N.testbit (validTargetsOf w p) (mto m) = true \/ N.testbit (epMaskOf p) (mto m) = true).
  { intros d Hc Hd Hb. destruct (N.testbit (epMaskOf p) (mto m)) eqn:Eep; [right; reflexivity | left].
    assert (Hnk : mfrom m <> ks) by (apply (cls_from _ Hc); lia).
    apply (target_valid p HWF Hchk m Hleg Hnk).
    rewrite N.lor_spec, Eep, orb_false_r, (colorBB_testbit p _ _ HWF) in Hb. apply andb_true_iff in Hb. destruct Hb as [_ Hb].
    unfold isEp. replace (getPiece p (mto m) =? EMPTY) with false; [apply andb_false_r|].
    symmetry. apply N.eqb_neq. intro E. rewrite E in Hb. destruct (negb w); discriminate. }
  (apply in_app_or in Hm; destruct Hm as [Hm|Hm]); [|(apply in_app_or in Hm; destruct Hm as [Hm|Hm]); [|(apply in_app_or in Hm; destruct Hm as [Hm|Hm]); [|(apply in_app_or in Hm; destruct Hm as [Hm|Hm]); [|(apply in_app_or in Hm; destruct Hm as [Hm|Hm]); [|(apply in_app_or in Hm; destruct Hm as [Hm|Hm]); [|(apply in_app_or in Hm; destruct Hm as [Hm|Hm]); [|(apply in_app_or in Hm; destruct Hm as [Hm|Hm]); [|(apply in_app_or in Hm; destruct Hm as [Hm|Hm])]]]]]]]].
  - left. split; [exact Hm | exact (Hloop WQUEEN _ ltac:(cbn; tauto) Hm)].
  - right. left. split; [exact Hm | exact (Hloop WROOK _ ltac:(cbn; tauto) Hm)].
  - right. right. left. split; [exact Hm | exact (Hloop WBISHOP _ ltac:(cbn; tauto) Hm)].
  - right. right. right. left. exact Hm.
  - exfalso. unfold lC in Hm. rewrite castleMoves_normal in Hm. cbv zeta in Hm. fold w ks occ in Hm.
    match type of Hm with context [ks =? ?k] => destruct (N.eqb_spec ks k) as [E|E] end; [|destruct Hm].
    rewrite <- E in Hm. change (sqAttacked p ks) with (inCheck p) in Hm. rewrite Hchk in Hm.
    cbn [negb] in Hm. rewrite !andb_false_r in Hm. cbn [andb app] in Hm. destruct Hm.
  - right. right. right. right. left. split; [exact Hm | exact (Hloop WKNIGHT _ ltac:(cbn; tauto) Hm)].
  - do 5 right. left. split; [exact Hm|]. apply (Hpush _ (lP1_cls p HWF m Hm)). unfold delta. destruct (whiteMove p); cbn; auto.
  - do 6 right. left. split; [exact Hm|]. apply (Hpush _ (lP2_cls p HWF m Hm)). unfold delta. destruct (whiteMove p); cbn; auto.
  - do 7 right. left. split; [exact Hm|]. apply (Hcap _ (lP3_cls p HWF m Hm)); [unfold delta; destruct (whiteMove p); cbn; lia|].
    unfold lP3 in Hm. apply pawnTo_In in Hm; [|exact H3]. destruct Hm as [Hb _]. rewrite N.land_spec in Hb. apply andb_true_iff in Hb. apply Hb.
  - do 8 right. split; [exact Hm|]. apply (Hcap _ (lP4_cls p HWF m Hm)); [unfold delta; destruct (whiteMove p); cbn; lia|].
    unfold lP4 in Hm. apply pawnTo_In in Hm; [|exact H4]. destruct Hm as [Hb _]. rewrite N.land_spec in Hb. apply andb_true_iff in Hb. apply Hb.
Qed.
End Complete3.

(** C01_evasions_complete *)
Theorem evasions_complete : forall zk p m, WF p -> inCheck p = true ->
  (In m (snd (removeIllegal zk p (checkEvasions p))) <-> legal_spec (abs p) m).
Proof.
  intros zk p m H Hc. rewrite removeIllegal_twin. set (p' := twin p).
  assert (W' : WF p') by exact H. pose proof (twin_consistent p H) as C'. fold p' in C'.
  rewrite <- (ce_twin p). fold p'.
  destruct (removeIllegal_sublist zkDummy p' (checkEvasions p') zkDummy_empty W' C' (evasions_sub p' W')) as [Hiff _].
  rewrite Hiff. change (abs p') with (abs p). split; [tauto|]. intro Hl. split; [|exact Hl].
  apply (evasion_generated p' W'); [exact Hc | exact Hl].
Qed.

(** non-vacuity: a position with the white king in check by a rook; the four evasions
    (Kd1, Kf1, Kf2 and the interposition Be3; Kd2 is not possible: own bishop) *)
Definition checkBoard : list piece :=
  [0;0;0;0;WKING;0;0;0;  0;0;0;WBISHOP;0;0;0;0;  0;0;0;0;0;0;0;0;  0;0;0;0;0;0;0;0;
   0;0;0;0;0;0;0;0;  0;0;0;0;0;0;0;0;  0;0;0;0;0;0;0;0;  BKING;0;0;0;BROOK;0;0;0].
Definition checkPosition : position := positionOfBoard checkBoard true 0 (-1).
Example evasions_example :
  WF checkPosition /\ inCheck checkPosition = true /\
  length (snd (removeIllegal zkDummy checkPosition (checkEvasions checkPosition))) = 4%nat /\
  length (legal_moves_spec (abs checkPosition)) = 4%nat.
Proof. vm_compute. auto. Qed.
