(** Board after makeMoveB / makeMove = board of Spec.make_spec, per move kind (quiet, capture,
    double push, promotion, en passant, castling), for the moves the generators produce in a
    well-formed position.  Built on the position model's own lemmas (Chess/Position*.v). *)
From Coq Require Import ZArith NArith List Bool Lia.
From Texel Require Import Chess.Types Chess.Position Chess.PositionSpec Chess.PositionFacts Chess.PositionProofs
  Chess.PositionProofs2 Chess.PositionTheorems Chess.PositionB
  Chess.BitBoard Chess.MoveGen Chess.Spec Chess.MoveGenWF
  Chess.BitBoardProofs Chess.RayProofs Chess.MoveGenProofs Chess.AttackProofs Chess.SliderProofs Chess.PawnProofs
  Chess.PseudoProofs gen.BitBoardTables.
Import ListNotations.
Local Open Scope N_scope.

(** * Board effect of the B operations *)
Lemma squares_setPieceB : forall p sq pc, squares (setPieceB p sq pc) = updN sq pc (squares p).
Proof.
  intros. unfold setPieceB. cbv zeta.
  repeat match goal with |- context [if ?c then _ else _] => destruct c end; reflexivity.
Qed.

Lemma squares_mPNPB : forall p f t,
  squares (movePieceNotPawnB p f t) = updN t (getPiece p f) (updN f EMPTY (squares p)).
Proof.
  intros. unfold movePieceNotPawnB. cbv zeta.
  repeat match goal with |- context [if ?c then _ else _] => destruct c end; reflexivity.
Qed.

Lemma getPiece_setPieceB_neq : forall p sq pc s, sq <> s -> getPiece (setPieceB p sq pc) s = getPiece p s.
Proof. intros. unfold getPiece. rewrite squares_setPieceB. now apply nth_updN_neq. Qed.

(** the Spec's list update is the position model's *)
Lemma upd_updL : forall (A : Type) n (x : A) l, Spec.upd n x l = updL n x l.
Proof. intros A n x l. revert n. induction l as [|a l IH]; intros [|n]; cbn; try reflexivity; f_equal; apply IH. Qed.

Lemma put_updN : forall b f r x, on_board f r = true -> put b f r x = updN (sq_of f r) x b.
Proof.
  intros b f r x H. unfold put. rewrite H. rewrite upd_updL. unfold updN.
  destruct (sq_of_coords f r H) as [_ [_ [_ ->]]]. reflexivity.
Qed.

Lemma updN_comm : forall (A : Type) (a c : N) (x y : A) l, a <> c -> updN a x (updN c y l) = updN c y (updN a x l).
Proof. intros. unfold updN. apply updL_comm. lia. Qed.

(** * pawnsAtB / kingsAtB on a BoardOK position *)
Lemma sqMask_bit : forall s, sqMask s = bit s.
Proof. reflexivity. Qed.

Lemma pawnsAtB_spec : forall p f, BoardOK p -> f < 64 ->
  pawnsAtB p (sqMask f) = (getPiece p f =? WPAWN) || (getPiece p f =? BPAWN).
Proof.
  intros p f H Hf. unfold pawnsAtB. rewrite sqMask_bit. fold (nz (N.land (N.lor (ptBB p WPAWN) (ptBB p BPAWN)) (bit f))).
  rewrite nz_bit, N.lor_spec.
  rewrite (BoardOK_ptBB p WPAWN f H), (BoardOK_ptBB p BPAWN f H) by (cbn; tauto).
  replace (f <? 64) with true by (symmetry; apply N.ltb_lt; exact Hf). reflexivity.
Qed.

Lemma kingsAtB_spec : forall p f, BoardOK p -> f < 64 ->
  kingsAtB p (sqMask f) = (getPiece p f =? WKING) || (getPiece p f =? BKING).
Proof.
  intros p f H Hf. unfold kingsAtB. rewrite sqMask_bit. fold (nz (N.land (N.lor (ptBB p WKING) (ptBB p BKING)) (bit f))).
  rewrite nz_bit, N.lor_spec.
  rewrite (BoardOK_ptBB p WKING f H), (BoardOK_ptBB p BKING f H) by (cbn; tauto).
  replace (f <? 64) with true by (symmetry; apply N.ltb_lt; exact Hf). reflexivity.
Qed.

(** * The board after makeMoveB, by kind of move *)
Definition isPawnPc (pc : piece) : bool := (pc =? WPAWN) || (pc =? BPAWN).
Definition isKingPc (pc : piece) : bool := (pc =? WKING) || (pc =? BKING).
Definition landing (p : position) (m : move) : piece :=
  if mpromote m =? EMPTY then getPiece p (mfrom m) else mpromote m.

(** no en-passant capture and no castling: the piece is lifted and put down *)
Lemma makeMoveB_simple : forall p m, BoardOK p -> mfrom m < 64 ->
  (isPawnPc (getPiece p (mfrom m)) = true -> Z.of_N (mto m) <> epSquare p) ->
  (isKingPc (getPiece p (mfrom m)) = true ->
     Z.of_N (mto m) <> sqPlus (mfrom m) 2 /\ Z.of_N (mto m) <> sqPlus (mfrom m) (-2)) ->
  (isPawnPc (getPiece p (mfrom m)) = false -> mpromote m = EMPTY) ->
  squares (fst (makeMoveB p m)) = updN (mto m) (landing p m) (updN (mfrom m) EMPTY (squares p)).
Proof.
  intros p m H Hf Hep Hcas Hpro. unfold makeMoveB, landing. cbv zeta.
  rewrite (pawnsAtB_spec p _ H Hf), (kingsAtB_spec p _ H Hf).
  fold (isPawnPc (getPiece p (mfrom m))). fold (isKingPc (getPiece p (mfrom m))).
  set (pc := getPiece p (mfrom m)) in *.
  destruct (negb (getPiece p (mto m) =? EMPTY) || isPawnPc pc) eqn:Eb; cbn [fst].
  - (* capture / pawn branch *)
    assert (E1 : (if pc =? WPAWN
                  then if (Z.of_N (mto m) =? epSquare p)%Z then setPieceB p (toSq (sqPlus (mto m) (-8))) EMPTY else p
                  else if pc =? BPAWN
                       then if (Z.of_N (mto m) =? epSquare p)%Z then setPieceB p (toSq (sqPlus (mto m) 8)) EMPTY else p
                       else p) = p).
    { destruct (pc =? WPAWN) eqn:EW.
      - destruct (Z.eqb_spec (Z.of_N (mto m)) (epSquare p)) as [E|]; [|reflexivity].
        exfalso. apply Hep; [unfold isPawnPc; rewrite EW; reflexivity | exact E].
      - destruct (pc =? BPAWN) eqn:EB; [|reflexivity].
        destruct (Z.eqb_spec (Z.of_N (mto m)) (epSquare p)) as [E|]; [|reflexivity].
        exfalso. apply Hep; [unfold isPawnPc; rewrite EW, EB; reflexivity | exact E]. }
    rewrite E1. destruct (negb (mpromote m =? EMPTY)) eqn:Ep.
    + apply negb_true_iff in Ep. rewrite Ep. rewrite !squares_setPieceB. reflexivity.
    + apply negb_false_iff in Ep. rewrite Ep. rewrite !squares_setPieceB. reflexivity.
  - (* quiet branch *)
    apply orb_false_iff in Eb. destruct Eb as [_ Epw]. rewrite (Hpro Epw), N.eqb_refl.
    assert (E1 : (if isKingPc pc
                  then if (Z.of_N (mto m) =? sqPlus (mfrom m) 2)%Z
                       then movePieceNotPawnB p (toSq (sqPlus (mfrom m) 3)) (toSq (sqPlus (mfrom m) 1))
                       else if (Z.of_N (mto m) =? sqPlus (mfrom m) (-2))%Z
                            then movePieceNotPawnB p (toSq (sqPlus (mfrom m) (-4))) (toSq (sqPlus (mfrom m) (-1)))
                            else p
                  else p) = p).
    { destruct (isKingPc pc) eqn:EK; [|reflexivity]. destruct (Hcas eq_refl) as [H1 H2].
      destruct (Z.eqb_spec (Z.of_N (mto m)) (sqPlus (mfrom m) 2)); [contradiction|].
      destruct (Z.eqb_spec (Z.of_N (mto m)) (sqPlus (mfrom m) (-2))); [contradiction | reflexivity]. }
    rewrite E1. rewrite squares_mPNPB. reflexivity.
Qed.

(** en passant by a pawn of colour w: the captured pawn is behind the target square *)
Lemma makeMoveB_ep : forall p m (w : bool), BoardOK p -> mfrom m < 64 ->
  getPiece p (mfrom m) = (if w then WPAWN else BPAWN) -> Z.of_N (mto m) = epSquare p -> mpromote m = EMPTY ->
  squares (fst (makeMoveB p m)) =
  updN (mto m) (getPiece p (mfrom m))
    (updN (mfrom m) EMPTY (updN (toSq (sqPlus (mto m) (if w then -8 else 8)%Z)) EMPTY (squares p))).
Proof.
  intros p m w H Hf Hpc Hep Hpro. unfold makeMoveB. cbv zeta.
  rewrite (pawnsAtB_spec p _ H Hf). rewrite Hpc, Hpro.
  rewrite Hep. destruct w.
  - change (WPAWN =? WPAWN) with true. cbn [orb]. rewrite orb_true_r. cbn [fst]. rewrite Z.eqb_refl.
    change (negb (EMPTY =? EMPTY)) with false. cbv iota. rewrite !squares_setPieceB. reflexivity.
  - change (BPAWN =? WPAWN) with false. change (BPAWN =? BPAWN) with true. cbn [orb]. rewrite orb_true_r. cbn [fst].
    rewrite Z.eqb_refl. change (negb (EMPTY =? EMPTY)) with false. cbv iota. rewrite !squares_setPieceB. reflexivity.
Qed.

(** castling: the rook is moved first, then the king *)
Lemma makeMoveB_castle : forall p m (kside : bool), BoardOK p -> mfrom m < 64 ->
  isKingPc (getPiece p (mfrom m)) = true -> getPiece p (mto m) = EMPTY ->
  Z.of_N (mto m) = sqPlus (mfrom m) (if kside then 2 else -2)%Z -> 4 <= mfrom m ->
  let r3 := toSq (sqPlus (mfrom m) (if kside then 3 else -4)%Z) in
  let r1 := toSq (sqPlus (mfrom m) (if kside then 1 else -1)%Z) in
  r3 <> mfrom m -> r1 <> mfrom m ->
  squares (fst (makeMoveB p m)) =
  updN (mto m) (getPiece p (mfrom m)) (updN (mfrom m) EMPTY (updN r1 (getPiece p r3) (updN r3 EMPTY (squares p)))).
Proof.
  intros p m kside H Hf HK Hcap Hto H4 r3 r1 Hr3 Hr1. unfold makeMoveB. cbv zeta.
  rewrite (pawnsAtB_spec p _ H Hf), (kingsAtB_spec p _ H Hf).
  fold (isKingPc (getPiece p (mfrom m))). rewrite HK, Hcap.
  assert (Epw : (getPiece p (mfrom m) =? WPAWN) || (getPiece p (mfrom m) =? BPAWN) = false).
  { unfold isKingPc in HK. apply orb_true_iff in HK. destruct HK as [E|E]; apply N.eqb_eq in E; rewrite E; reflexivity. }
  rewrite Epw. change (negb (EMPTY =? EMPTY) || false) with false. cbn [fst].
  destruct kside.
  - rewrite Hto, Z.eqb_refl. rewrite squares_mPNPB, squares_mPNPB.
    unfold getPiece at 1. rewrite squares_mPNPB.
    fold r3 r1. rewrite nth_updN_neq by exact Hr1. rewrite nth_updN_neq by exact Hr3. reflexivity.
  - replace (Z.of_N (mto m) =? sqPlus (mfrom m) 2)%Z with false by (symmetry; apply Z.eqb_neq; unfold sqPlus in *; lia).
    rewrite Hto, Z.eqb_refl. rewrite squares_mPNPB, squares_mPNPB.
    unfold getPiece at 1. rewrite squares_mPNPB.
    fold r3 r1. rewrite nth_updN_neq by exact Hr1. rewrite nth_updN_neq by exact Hr3. reflexivity.
Qed.

(** * Counting a piece kind across list updates *)
Lemma count_updL : forall (l : list piece) n x K, (n < length l)%nat ->
  (count_piece (updL n x l) K + (if (K =? nth n l EMPTY)%N then 1 else 0) = count_piece l K + (if (K =? x)%N then 1 else 0))%nat.
Proof.
  induction l as [|a l IH]; intros n x K Hn; cbn [length] in Hn; [lia|].
  destruct n as [|n]; cbn [updL nth]; unfold count_piece in *; cbn [filter].
  - destruct (K =? x), (K =? a); cbn [length]; lia.
  - specialize (IH n x K ltac:(lia)). destruct (K =? a); cbn [length]; lia.
Qed.

Lemma count_updN : forall (l : list piece) a x K, (N.to_nat a < length l)%nat ->
  (count_piece (updN a x l) K + (if (K =? nth (N.to_nat a) l EMPTY)%N then 1 else 0) = count_piece l K + (if (K =? x)%N then 1 else 0))%nat.
Proof. intros. unfold updN. apply count_updL. assumption. Qed.

Lemma count_simple_board : forall (b : list piece) f t X K, length b = 64%nat -> f < 64 -> t < 64 -> f <> t ->
  (K =? nth (N.to_nat t) b EMPTY) = false -> (K =? X) = (K =? nth (N.to_nat f) b EMPTY) ->
  count_piece (updN t X (updN f EMPTY b)) K = count_piece b K \/ K = EMPTY.
Proof.
  intros b f t X K Hl Hf Ht Hne Hcap HX. destruct (N.eqb_spec K EMPTY) as [->|HK]; [right; reflexivity | left].
  pose proof (count_updN b f EMPTY K ltac:(lia)) as H1.
  pose proof (count_updN (updN f EMPTY b) t X K ltac:(rewrite length_updN; lia)) as H2.
  rewrite nth_updN_neq in H2 by exact Hne. rewrite Hcap, HX in H2.
  replace (K =? EMPTY) with false in H1 by (symmetry; apply N.eqb_neq; exact HK).
  unfold piece in *. destruct (K =? nth (N.to_nat f) b EMPTY); lia.
Qed.

(** * The Spec's board after a move, as list updates on square indices *)
Lemma file_rank_zf : forall s, file_of s = zf s /\ rank_of s = zr s.
Proof. intro; split; reflexivity. Qed.

Lemma make_spec_board : forall sp m, mfrom m < 64 -> mto m < 64 ->
  let b := sp_board sp in let w := sp_white sp in
  let ff := zf (mfrom m) in let fr := zr (mfrom m) in let tf := zf (mto m) in let tr := zr (mto m) in
  let pc := nth (N.to_nat (mfrom m)) b EMPTY in
  let target := nth (N.to_nat (mto m)) b EMPTY in
  let is_ep := is_piece w Pawn pc && negb (tf =? ff)%Z && (target =? EMPTY) in
  let b1 := updN (mfrom m) EMPTY b in
  let b2 := if is_ep then updN (sq_of tf fr) EMPTY b1 else b1 in
  let b3 := updN (mto m) (if mpromote m =? EMPTY then pc else mpromote m) b2 in
  sp_board (make_spec sp m) =
  if is_piece w King pc && (tf - ff =? 2)%Z then updN (sq_of 5 fr) (mk_piece w Rook) (updN (sq_of 7 fr) EMPTY b3)
  else if is_piece w King pc && (tf - ff =? -2)%Z then updN (sq_of 3 fr) (mk_piece w Rook) (updN (sq_of 0 fr) EMPTY b3)
  else b3.
Proof.
  intros sp m Hf Ht. cbv zeta. unfold make_spec. cbv zeta. cbn [sp_board].
  destruct (coords_of_sq _ Hf) as [Hobf [Hif Hsf]]. destruct (coords_of_sq _ Ht) as [Hobt [Hit Hst]].
  change (file_of (mfrom m)) with (zf (mfrom m)). change (rank_of (mfrom m)) with (zr (mfrom m)).
  change (file_of (mto m)) with (zf (mto m)). change (rank_of (mto m)) with (zr (mto m)).
  assert (Eaf : at_ (sp_board sp) (zf (mfrom m)) (zr (mfrom m)) = nth (N.to_nat (mfrom m)) (sp_board sp) EMPTY)
    by (unfold at_; rewrite Hobf, Hif; reflexivity).
  assert (Eat : at_ (sp_board sp) (zf (mto m)) (zr (mto m)) = nth (N.to_nat (mto m)) (sp_board sp) EMPTY)
    by (unfold at_; rewrite Hobt, Hit; reflexivity).
  rewrite Eaf, Eat.
  assert (Hobc : on_board (zf (mto m)) (zr (mfrom m)) = true).
  { unfold on_board in *. rewrite !andb_true_iff in *. tauto. }
  assert (Hfr : (0 <= zr (mfrom m) <= 7)%Z).
  { unfold on_board in Hobf. rewrite !andb_true_iff, !Z.leb_le in Hobf. lia. }
  assert (Hob_k : forall f, (0 <= f <= 7)%Z -> on_board f (zr (mfrom m)) = true).
  { intros f Hf'. unfold on_board. rewrite !andb_true_iff, !Z.leb_le. lia. }
  rewrite (put_updN _ _ _ _ Hobf), Hsf.
  rewrite (put_updN _ _ _ _ Hobc).
  rewrite (put_updN _ _ _ _ Hobt), Hst.
  rewrite !(put_updN _ _ (zr (mfrom m))) by (apply Hob_k; lia).
  reflexivity.
Qed.

(** * Board equality per move kind *)
Section BoardEq.
Variable p : position.
Hypothesis HB : BoardOK p.
Variable m : move.
Hypothesis Hf : mfrom m < 64.
Hypothesis Ht : mto m < 64.
Let w := whiteMove p.
Let pc := getPiece p (mfrom m).

(** simple move: no e.p. capture, no castling (in the engine's and in the Spec's terms) *)
Lemma board_eq_simple :
  (isPawnPc pc = true -> Z.of_N (mto m) <> epSquare p) ->
  (isKingPc pc = true -> Z.of_N (mto m) <> sqPlus (mfrom m) 2 /\ Z.of_N (mto m) <> sqPlus (mfrom m) (-2)) ->
  (isPawnPc pc = false -> mpromote m = EMPTY) ->
  (is_piece w Pawn pc && negb (zf (mto m) =? zf (mfrom m))%Z && (getPiece p (mto m) =? EMPTY) = false) ->
  (is_piece w King pc = true -> (zf (mto m) - zf (mfrom m) <> 2 /\ zf (mto m) - zf (mfrom m) <> -2)%Z) ->
  squares (fst (makeMoveB p m)) = sp_board (make_spec (abs p) m).
Proof.
  intros Hep Hcas Hpro Hsep Hscas.
  rewrite (makeMoveB_simple p m HB Hf Hep Hcas Hpro).
  rewrite (make_spec_board (abs p) m Hf Ht). cbv zeta. cbn [abs sp_board sp_white]. fold w.
  fold (getPiece p (mfrom m)) (getPiece p (mto m)). fold pc. rewrite Hsep.
  destruct (is_piece w King pc) eqn:EK; cbn [andb]; [|reflexivity].
  destruct (Hscas eq_refl) as [H1 H2].
  replace (zf (mto m) - zf (mfrom m) =? 2)%Z with false by (symmetry; apply Z.eqb_neq; exact H1).
  replace (zf (mto m) - zf (mfrom m) =? -2)%Z with false by (symmetry; apply Z.eqb_neq; exact H2).
  reflexivity.
Qed.

(** en passant *)
Lemma board_eq_ep :
  pc = mk_piece w Pawn -> Z.of_N (mto m) = epSquare p -> mpromote m = EMPTY ->
  getPiece p (mto m) = EMPTY -> zf (mto m) <> zf (mfrom m) ->
  toSq (sqPlus (mto m) (if w then -8 else 8)%Z) = sq_of (zf (mto m)) (zr (mfrom m)) ->
  sq_of (zf (mto m)) (zr (mfrom m)) <> mfrom m ->
  squares (fst (makeMoveB p m)) = sp_board (make_spec (abs p) m).
Proof.
  intros Hpc Hep Hpro Hcap Hfile Hcsq Hne.
  assert (Hpc' : getPiece p (mfrom m) = (if w then WPAWN else BPAWN)) by (fold pc; rewrite Hpc; destruct w; reflexivity).
  rewrite (makeMoveB_ep p m w HB Hf Hpc' Hep Hpro).
  rewrite (make_spec_board (abs p) m Hf Ht). cbv zeta. cbn [abs sp_board sp_white]. fold w.
  fold (getPiece p (mfrom m)) (getPiece p (mto m)). fold pc. rewrite Hcap, Hpro, Hpc.
  replace (is_piece w Pawn (mk_piece w Pawn)) with true by (destruct w; reflexivity).
  replace (is_piece w King (mk_piece w Pawn)) with false by (destruct w; reflexivity).
  replace (zf (mto m) =? zf (mfrom m))%Z with false by (symmetry; apply Z.eqb_neq; exact Hfile).
  cbn [andb negb]. change (EMPTY =? EMPTY) with true. cbv iota.
  rewrite Hcsq. f_equal. apply updN_comm. intro E. apply Hne. symmetry. exact E.
Qed.

(** castling (king side: rook from file 7 to file 5; queen side: from file 0 to file 3) *)
Lemma board_eq_castle : forall kside : bool,
  pc = mk_piece w King -> getPiece p (mto m) = EMPTY -> mpromote m = EMPTY ->
  zf (mfrom m) = 4%Z -> mfrom m = sq_of 4 (zr (mfrom m)) ->
  mto m = sq_of (if kside then 6 else 2)%Z (zr (mfrom m)) ->
  getPiece p (sq_of (if kside then 7 else 0)%Z (zr (mfrom m))) = mk_piece w Rook ->
  squares (fst (makeMoveB p m)) = sp_board (make_spec (abs p) m).
Proof.
  intros kside Hpc Hcap Hpro Hff Hfsq Htsq Hrook.
  destruct (coords_of_sq _ Hf) as [Hobf _].
  assert (Hr : (0 <= zr (mfrom m) <= 7)%Z).
  { unfold on_board in Hobf. rewrite !andb_true_iff, !Z.leb_le in Hobf. lia. }
  set (r := zr (mfrom m)) in *.
  assert (Hsq : forall f, (0 <= f <= 7)%Z -> sq_of f r = Z.to_N (r * 8 + f)) by reflexivity.
  assert (Hfrom : Z.of_N (mfrom m) = (r * 8 + 4)%Z) by (rewrite Hfsq; unfold sq_of; lia).
  assert (Htf : zf (mto m) = (if kside then 6 else 2)%Z).
  { rewrite Htsq. apply sq_of_coords. unfold on_board. rewrite !andb_true_iff, !Z.leb_le. destruct kside; lia. }
  assert (HK : isKingPc (getPiece p (mfrom m)) = true) by (fold pc; rewrite Hpc; destruct w; reflexivity).
  assert (Hto : Z.of_N (mto m) = sqPlus (mfrom m) (if kside then 2 else -2)%Z).
  { rewrite Htsq. unfold sqPlus, sq_of. rewrite Hfrom. destruct kside; lia. }
  assert (H4 : 4 <= mfrom m) by lia.
  assert (Er3 : toSq (sqPlus (mfrom m) (if kside then 3 else -4)%Z) = sq_of (if kside then 7 else 0)%Z r).
  { unfold toSq, sqPlus, sq_of. rewrite Hfrom. destruct kside; f_equal; lia. }
  assert (Er1 : toSq (sqPlus (mfrom m) (if kside then 1 else -1)%Z) = sq_of (if kside then 5 else 3)%Z r).
  { unfold toSq, sqPlus, sq_of. rewrite Hfrom. destruct kside; f_equal; lia. }
  assert (Hne3 : sq_of (if kside then 7 else 0)%Z r <> mfrom m) by (unfold sq_of; destruct kside; lia).
  assert (Hne1 : sq_of (if kside then 5 else 3)%Z r <> mfrom m) by (unfold sq_of; destruct kside; lia).
  rewrite (makeMoveB_castle p m kside HB Hf HK Hcap Hto H4); [|rewrite Er3; exact Hne3 | rewrite Er1; exact Hne1].
  rewrite Er3, Er1, Hrook.
  rewrite (make_spec_board (abs p) m Hf Ht). cbv zeta. cbn [abs sp_board sp_white]. fold w.
  fold (getPiece p (mfrom m)) (getPiece p (mto m)). fold pc. fold r. rewrite Hcap, Hpro, Hpc, Htf, Hff.
  replace (is_piece w Pawn (mk_piece w King)) with false by (destruct w; reflexivity).
  replace (is_piece w King (mk_piece w King)) with true by (destruct w; reflexivity).
  cbn [andb]. change (EMPTY =? EMPTY) with true. cbv iota.
  assert (Hd : forall a c : Z, (0 <= a <= 7)%Z -> (0 <= c <= 7)%Z -> a <> c -> sq_of a r <> sq_of c r)
    by (intros a c Ha Hc Hac; unfold sq_of; lia).
  destruct kside; cbn [Z.sub Z.eqb Z.add Pos.eqb Z.pos_sub Z.opp Pos.pred_double]; cbv iota.
  - (* engine: to K (from E (f1 R (h1 E b)))  ;  spec: f1 R (h1 E (to K (from E b))) *)
    rewrite Htsq, Hfsq.
    rewrite (updN_comm _ (sq_of 5 r) (sq_of 7 r)) by (apply Hd; lia).
    rewrite (updN_comm _ (sq_of 4 r) (sq_of 7 r)) by (apply Hd; lia).
    rewrite (updN_comm _ (sq_of 6 r) (sq_of 7 r)) by (apply Hd; lia).
    rewrite (updN_comm _ (sq_of 4 r) (sq_of 5 r)) by (apply Hd; lia).
    rewrite (updN_comm _ (sq_of 6 r) (sq_of 5 r)) by (apply Hd; lia).
    rewrite (updN_comm _ (sq_of 7 r) (sq_of 5 r)) by (apply Hd; lia).
    reflexivity.
  - rewrite Htsq, Hfsq.
    rewrite (updN_comm _ (sq_of 3 r) (sq_of 0 r)) by (apply Hd; lia).
    rewrite (updN_comm _ (sq_of 4 r) (sq_of 0 r)) by (apply Hd; lia).
    rewrite (updN_comm _ (sq_of 2 r) (sq_of 0 r)) by (apply Hd; lia).
    rewrite (updN_comm _ (sq_of 4 r) (sq_of 3 r)) by (apply Hd; lia).
    rewrite (updN_comm _ (sq_of 2 r) (sq_of 3 r)) by (apply Hd; lia).
    rewrite (updN_comm _ (sq_of 0 r) (sq_of 3 r)) by (apply Hd; lia).
    reflexivity.
Qed.
End BoardEq.

(** * moveOk (the position model's notion of a well-shaped move) from its parts *)
Definition okBase (p : position) (m : move) : bool :=
  (mfrom m <? 64) && (mto m <? 64) && negb (mfrom m =? mto m) &&
  ownPiece (whiteMove p) (getPiece p (mfrom m)) && negb (ownPiece (whiteMove p) (getPiece p (mto m))).
Definition okPromo (p : position) (m : move) : bool :=
  let wtm := whiteMove p in let pc := getPiece p (mfrom m) in
  let pawn := if wtm then WPAWN else BPAWN in let king := if wtm then WKING else BKING in
  if mpromote m =? EMPTY then true
  else (pc =? pawn) && ownPiece wtm (mpromote m) && negb (mpromote m =? pawn) && negb (mpromote m =? king).
Definition okEp (p : position) (m : move) : bool :=
  let f := mfrom m in let t := mto m in let wtm := whiteMove p in let pc := getPiece p f in let cap := getPiece p t in
  let pawn := if wtm then WPAWN else BPAWN in
  if (pc =? pawn) && (Z.of_N t =? epSquare p)%Z then
     (cap =? EMPTY) && (mpromote m =? EMPTY) &&
     (if wtm then (8 <=? t) && (getPiece p (t - 8) =? BPAWN) && negb (t =? f + 16)
      else (t + 8 <? 64) && (getPiece p (t + 8) =? WPAWN) && negb (t + 16 =? f))
  else true.
Definition okCastle (p : position) (m : move) : bool :=
  let f := mfrom m in let t := mto m in let wtm := whiteMove p in let pc := getPiece p f in let cap := getPiece p t in
  let king := if wtm then WKING else BKING in let rook := if wtm then WROOK else BROOK in
  if pc =? king then
     (if t =? f + 2 then (cap =? EMPTY) && (f + 3 <? 64) && (getPiece p (f + 1) =? EMPTY) && (getPiece p (f + 3) =? rook)
      else true) &&
     (if (2 <=? f) && (t =? f - 2) then (cap =? EMPTY) && (4 <=? f) && (getPiece p (f - 1) =? EMPTY) && (getPiece p (f - 4) =? rook)
      else true)
  else true.

Lemma moveOk_parts : forall p m, moveOk p m = okBase p m && okPromo p m && okEp p m && okCastle p m.
Proof. intros. unfold moveOk, okBase, okPromo, okEp, okCastle. cbv zeta. reflexivity. Qed.

Lemma ownPiece_has_color : forall w pc, pc <= 12 -> ownPiece w pc = has_color w pc.
Proof.
  intros w pc Hle. destruct (le12_cases _ Hle) as [E|[E|[E|[E|[E|[E|[E|[E|[E|[E|[E|[E|E]]]]]]]]]]]]; rewrite E; destruct w; reflexivity.
Qed.

Lemma sq_decomp : forall s, s < 64 -> (Z.of_N s = zr s * 8 + zf s /\ 0 <= zf s <= 7 /\ 0 <= zr s <= 7)%Z.
Proof.
  intros s H. unfold zf, zr. pose proof (Z.div_mod (Z.of_N s) 8 ltac:(lia)). pose proof (Z.mod_pos_bound (Z.of_N s) 8 ltac:(lia)).
  assert (0 <= Z.of_N s / 8 <= 7)%Z by (split; [apply Z.div_pos; lia | apply Z.lt_succ_r, Z.div_lt_upper_bound; lia]). lia.
Qed.

(** * Non-pawn, non-castling moves *)
Definition kingCountKept (p : position) (m : move) : Prop :=
  count_piece (squares (fst (makeMoveB p m))) (mk_piece (whiteMove p) King) =
  count_piece (squares p) (mk_piece (whiteMove p) King).

Lemma king_not_at : forall p (w : bool) t, has_color w (getPiece p t) = false ->
  (mk_piece w King =? nth (N.to_nat t) (squares p) EMPTY) = false.
Proof.
  intros p w t H. apply N.eqb_neq. intro E. unfold getPiece in H. rewrite <- E in H. destruct w; discriminate.
Qed.

Section NonPawn.
Variable p : position.
Hypothesis HB : BoardOK p.
Hypothesis HL : length (squares p) = 64%nat.
Let w := whiteMove p.

Lemma nonpawn_move_ok : forall s t,
  s < 64 -> t < 64 -> s <> t ->
  has_color w (getPiece p s) = true -> isPawnPc (getPiece p s) = false ->
  has_color w (getPiece p t) = false ->
  (isKingPc (getPiece p s) = true -> (Z.abs (zf t - zf s) <= 1)%Z) ->
  squares (fst (makeMoveB p (mkMove s t EMPTY))) = sp_board (make_spec (abs p) (mkMove s t EMPTY)) /\
  moveOk p (mkMove s t EMPTY) = true /\ kingCountKept p (mkMove s t EMPTY).
Proof.
  intros s t Hs Ht Hne Hown Hnp Hcap Hking.
  destruct (sq_decomp s Hs) as [Es [Hfs Hrs]]. destruct (sq_decomp t Ht) as [Et [Hft Hrt]].
  pose proof (BoardOK_le12 p s HB) as Hle. pose proof (BoardOK_le12 p t HB) as Hlet.
  assert (Hk2 : isKingPc (getPiece p s) = true -> Z.of_N t <> sqPlus s 2 /\ Z.of_N t <> sqPlus s (-2)).
  { intro HK. specialize (Hking HK). unfold sqPlus. lia. }
  assert (Hnotpawn : is_piece w Pawn (getPiece p s) = false).
  { unfold isPawnPc in Hnp. apply orb_false_iff in Hnp. destruct Hnp as [H1 H2]. rewrite is_piece_eqb.
    destruct w; cbn [mk_piece]; assumption. }
  split; [|split].
  3:{ unfold kingCountKept. rewrite (makeMoveB_simple p (mkMove s t EMPTY) HB); cbn [mfrom mto mpromote]; try assumption.
      - unfold landing. cbn [mfrom mto mpromote]. change (EMPTY =? EMPTY) with true. cbv iota. fold w.
        destruct (count_simple_board (squares p) s t (getPiece p s) (mk_piece w King) HL Hs Ht Hne) as [E|E].
        + apply king_not_at. exact Hcap.
        + reflexivity.
        + exact E.
        + destruct w; discriminate.
      - intro Hp. rewrite Hnp in Hp. discriminate.
      - intros _. reflexivity. }
  - apply (board_eq_simple p HB (mkMove s t EMPTY)); cbn [mfrom mto mpromote]; try assumption.
    + intro Hp. rewrite Hnp in Hp. discriminate.
    + intros _. reflexivity.
    + fold w. rewrite Hnotpawn. reflexivity.
    + fold w. intro HK. assert (HK' : isKingPc (getPiece p s) = true).
      { rewrite is_piece_eqb in HK. apply N.eqb_eq in HK. rewrite HK. destruct w; reflexivity. }
      specialize (Hking HK'). lia.
  - rewrite moveOk_parts. unfold okBase, okPromo, okEp, okCastle. cbn [mfrom mto mpromote]. cbv zeta. fold w.
    rewrite !ownPiece_has_color by assumption. rewrite Hown, Hcap.
    replace (s <? 64) with true by (symmetry; apply N.ltb_lt; exact Hs).
    replace (t <? 64) with true by (symmetry; apply N.ltb_lt; exact Ht).
    replace (s =? t) with false by (symmetry; apply N.eqb_neq; exact Hne).
    change (EMPTY =? EMPTY) with true. cbn [andb negb].
    unfold isPawnPc in Hnp. apply orb_false_iff in Hnp. destruct Hnp as [Hnw Hnb].
    unfold w in *. destruct (whiteMove p); cbv iota.
    + rewrite Hnw. cbn [andb].
      destruct (getPiece p s =? WKING) eqn:EK; [|reflexivity].
      assert (HK' : isKingPc (getPiece p s) = true) by (unfold isKingPc; rewrite EK; reflexivity).
      destruct (Hk2 HK') as [H1 H2]. unfold sqPlus in H1, H2. specialize (Hking HK').
      replace (t =? s + 2) with false by (symmetry; apply N.eqb_neq; lia).
      replace ((2 <=? s) && (t =? s - 2)) with false
        by (symmetry; apply andb_false_iff; destruct (N.leb_spec 2 s); [right; apply N.eqb_neq; lia | left; reflexivity]).
      reflexivity.
    + rewrite Hnb. cbn [andb].
      destruct (getPiece p s =? BKING) eqn:EK; [|reflexivity].
      assert (HK' : isKingPc (getPiece p s) = true) by (unfold isKingPc; rewrite EK; apply orb_true_r).
      destruct (Hk2 HK') as [H1 H2]. unfold sqPlus in H1, H2. specialize (Hking HK').
      replace (t =? s + 2) with false by (symmetry; apply N.eqb_neq; lia).
      replace ((2 <=? s) && (t =? s - 2)) with false
        by (symmetry; apply andb_false_iff; destruct (N.leb_spec 2 s); [right; apply N.eqb_neq; lia | left; reflexivity]).
      reflexivity.
Qed.
End NonPawn.

(** * Pawn moves *)
Section PawnMoves.
Variable p : position.
Hypothesis HB : BoardOK p.
Hypothesis HL : length (squares p) = 64%nat.
Let w := whiteMove p.

Lemma pawn_simple_ok : forall s t X,
  s < 64 -> t < 64 -> s <> t ->
  getPiece p s = mk_piece w Pawn -> has_color w (getPiece p t) = false ->
  Z.of_N t <> epSquare p ->
  (zf t = zf s \/ getPiece p t <> EMPTY) ->
  (X = EMPTY \/ exists k, In k promoKinds /\ X = mk_piece w k) ->
  squares (fst (makeMoveB p (mkMove s t X))) = sp_board (make_spec (abs p) (mkMove s t X)) /\
  moveOk p (mkMove s t X) = true /\ kingCountKept p (mkMove s t X).
Proof.
  intros s t X Hs Ht Hne Hpc Hcap Hnep Hsp HX.
  pose proof (BoardOK_le12 p t HB) as Hlet.
  assert (HP : isPawnPc (getPiece p s) = true) by (rewrite Hpc; unfold w; destruct (whiteMove p); reflexivity).
  assert (HK : isKingPc (getPiece p s) = false) by (rewrite Hpc; unfold w; destruct (whiteMove p); reflexivity).
  split; [|split].
  3:{ unfold kingCountKept. rewrite (makeMoveB_simple p (mkMove s t X) HB); cbn [mfrom mto mpromote]; try assumption.
      - unfold landing. cbn [mfrom mto mpromote]. fold w.
        destruct (count_simple_board (squares p) s t (if X =? EMPTY then getPiece p s else X) (mk_piece w King) HL Hs Ht Hne) as [E|E].
        + apply king_not_at. exact Hcap.
        + fold (getPiece p s). rewrite Hpc.
          destruct HX as [->|[k [Hk ->]]].
          * change (EMPTY =? EMPTY) with true. cbv iota. reflexivity.
          * unfold w. cbn in Hk. destruct Hk as [<-|[<-|[<-|[<-|[]]]]]; destruct (whiteMove p); reflexivity.
        + exact E.
        + destruct w; discriminate.
      - intros _. exact Hnep.
      - intro H. rewrite HK in H. discriminate.
      - intro H. rewrite HP in H. discriminate. }
  - apply (board_eq_simple p HB (mkMove s t X)); cbn [mfrom mto mpromote]; try assumption.
    + intros _. exact Hnep.
    + intro H. rewrite HK in H. discriminate.
    + intro H. rewrite HP in H. discriminate.
    + fold w. destruct Hsp as [E|E].
      * rewrite E, Z.eqb_refl. cbn [negb]. rewrite andb_false_r. reflexivity.
      * replace (getPiece p t =? EMPTY) with false by (symmetry; apply N.eqb_neq; exact E). apply andb_false_r.
    + fold w. intro H. rewrite Hpc in H. unfold w in H. destruct (whiteMove p); discriminate.
  - rewrite moveOk_parts. unfold okBase, okPromo, okEp, okCastle. cbn [mfrom mto mpromote]. cbv zeta. fold w.
    rewrite (ownPiece_has_color w (getPiece p t)) by assumption. rewrite Hcap, Hpc.
    replace (s <? 64) with true by (symmetry; apply N.ltb_lt; exact Hs).
    replace (t <? 64) with true by (symmetry; apply N.ltb_lt; exact Ht).
    replace (s =? t) with false by (symmetry; apply N.eqb_neq; exact Hne).
    replace (Z.of_N t =? epSquare p)%Z with false by (symmetry; apply Z.eqb_neq; exact Hnep).
    unfold w in *. destruct (whiteMove p); cbv iota; cbn [mk_piece ownPiece isWhitePiece isBlackPiece];
      destruct HX as [->|[k [Hk ->]]];
      try (cbn in Hk; destruct Hk as [<-|[<-|[<-|[<-|[]]]]]); reflexivity.
Qed.

(** en-passant capture *)
Lemma pawn_ep_ok : forall s t,
  s < 64 -> t < 64 ->
  getPiece p s = mk_piece w Pawn -> getPiece p t = EMPTY -> Z.of_N t = epSquare p ->
  (zr t = zr s + dirOf w)%Z -> (Z.abs (zf t - zf s) = 1)%Z ->
  getPiece p (sq_of (zf t) (zr s)) = mk_piece (negb w) Pawn ->
  squares (fst (makeMoveB p (mkMove s t EMPTY))) = sp_board (make_spec (abs p) (mkMove s t EMPTY)) /\
  moveOk p (mkMove s t EMPTY) = true /\ kingCountKept p (mkMove s t EMPTY).
Proof.
  intros s t Hs Ht Hpc Hcap Hep Hzr Hzf Hcp.
  destruct (sq_decomp s Hs) as [Es [Hfs Hrs]]. destruct (sq_decomp t Ht) as [Et [Hft Hrt]].
  assert (Hcsq : toSq (sqPlus t (if w then -8 else 8)%Z) = sq_of (zf t) (zr s)).
  { unfold toSq, sqPlus, sq_of. f_equal. unfold dirOf in Hzr. unfold w in *. destruct (whiteMove p); lia. }
  assert (Hne : sq_of (zf t) (zr s) <> s) by (unfold sq_of; lia).
  assert (Hst : s <> t) by (intro E; subst t; lia).
  split; [|split].
  3:{ unfold kingCountKept. fold w.
      assert (Hpc' : getPiece p s = (if w then WPAWN else BPAWN)) by (rewrite Hpc; destruct w; reflexivity).
      rewrite (makeMoveB_ep p (mkMove s t EMPTY) w HB Hs Hpc' Hep eq_refl). cbn [mfrom mto mpromote].
      rewrite Hcsq. set (c := sq_of (zf t) (zr s)) in *.
      assert (Hc64 : c < 64) by (unfold c, sq_of; lia).
      assert (Hct : c <> t) by (unfold c, sq_of; unfold dirOf in Hzr; destruct w; lia).
      pose proof (count_updN (squares p) c EMPTY (mk_piece w King) ltac:(lia)) as H1.
      fold (getPiece p c) in H1. rewrite Hcp in H1.
      replace (mk_piece w King =? mk_piece (negb w) Pawn) with false in H1 by (destruct w; reflexivity).
      replace (mk_piece w King =? EMPTY) with false in H1 by (destruct w; reflexivity).
      destruct (count_simple_board (updN c EMPTY (squares p)) s t (getPiece p s) (mk_piece w King)) as [E|E];
        try assumption.
      - rewrite length_updN. exact HL.
      - rewrite nth_updN_neq by exact Hct. fold (getPiece p t). rewrite Hcap. destruct w; reflexivity.
      - rewrite nth_updN_neq by exact Hne. reflexivity.
      - unfold piece, square in *. lia.
      - destruct w; discriminate. }
  - apply (board_eq_ep p HB (mkMove s t EMPTY)); cbn [mfrom mto mpromote]; try assumption; try reflexivity.
    lia.
  - rewrite moveOk_parts. unfold okBase, okPromo, okEp, okCastle. cbn [mfrom mto mpromote]. cbv zeta. fold w.
    rewrite Hcap, Hpc, Hep, Z.eqb_refl.
    replace (s <? 64) with true by (symmetry; apply N.ltb_lt; exact Hs).
    replace (t <? 64) with true by (symmetry; apply N.ltb_lt; exact Ht).
    replace (s =? t) with false by (symmetry; apply N.eqb_neq; exact Hst).
    change (EMPTY =? EMPTY) with true.
    unfold toSq, sqPlus in Hcsq. unfold dirOf in Hzr.
    unfold w in *. destruct (whiteMove p); cbv iota; cbn [mk_piece ownPiece isWhitePiece isBlackPiece negb] in *.
    + change (WPAWN =? WPAWN) with true. change (WPAWN =? WKING) with false. cbn [andb negb N.leb N.eqb].
      replace (t - 8) with (sq_of (zf t) (zr s)) by (rewrite <- Hcsq; lia). rewrite Hcp.
      change (BPAWN =? BPAWN) with true.
      replace (8 <=? t) with true by (symmetry; apply N.leb_le; lia).
      replace (t =? s + 16) with false by (symmetry; apply N.eqb_neq; lia). reflexivity.
    + change (BPAWN =? BPAWN) with true. change (BPAWN =? BKING) with false. cbn [andb negb N.leb N.eqb].
      replace (t + 8) with (sq_of (zf t) (zr s)) by (rewrite <- Hcsq; lia). rewrite Hcp.
      change (WPAWN =? WPAWN) with true.
      replace (sq_of (zf t) (zr s) <? 64) with true by (symmetry; apply N.ltb_lt; unfold sq_of; lia).
      replace (t + 16 =? s) with false by (symmetry; apply N.eqb_neq; lia). reflexivity.
Qed.
End PawnMoves.

(** * Facts about the moves of each generator clause *)
Lemma ray_not_self : forall s d t, s < 64 -> In d allDirs -> In t (ray s d) -> t < 64 /\ s <> t.
Proof.
  intros s d t Hs Hd Hin. unfold allDirs in Hd. apply (@In_nth square _ _ 64) in Hin. destruct Hin as [i [Hi Hn]].
  destruct (in_app_or _ _ _ Hd) as [Hr|Hb].
  - destruct (ray_index_facts rook_dirs rookAligned rookRay_ok s d i Hs Hr Hi) as [H1 [H2 _]]. rewrite Hn in H1, H2.
    split; [exact H1|]. unfold rookAligned in H2. apply andb_true_iff in H2. destruct H2 as [H2 _].
    apply negb_true_iff, N.eqb_neq in H2. exact H2.
  - destruct (ray_index_facts bishop_dirs bishopAligned bishopRay_ok s d i Hs Hb Hi) as [H1 [H2 _]]. rewrite Hn in H1, H2.
    split; [exact H1|]. unfold bishopAligned in H2. apply andb_true_iff in H2. destruct H2 as [H2 _].
    apply negb_true_iff, N.eqb_neq in H2. exact H2.
Qed.

Lemma slider_moves_facts : forall p w f r dirs m, WF p -> on_board f r = true -> incl dirs allDirs ->
  In m (slider_moves (squares p) w f r dirs) ->
  exists t, m = mkMove (sq_of f r) t EMPTY /\ t < 64 /\ sq_of f r <> t /\ has_color w (getPiece p t) = false.
Proof.
  intros p w f r dirs m H Hob Hincl Hin. unfold slider_moves in Hin. apply in_flat_map in Hin.
  destruct Hin as [d [Hd Hin]]. destruct (sq_of_coords f r Hob) as [Hs [Hzf [Hzr _]]].
  rewrite (ray_moves_cut p w H 7 _ _ _ _ _ _ Hob) in Hin by (rewrite <- surjective_pairing; apply Hincl; exact Hd).
  apply in_map_iff in Hin. destruct Hin as [t [<- Hf]]. apply filter_In in Hf. destruct Hf as [Hc Hcol].
  apply cutAt_incl in Hc.
  assert (Hray : In t (ray (sq_of f r) d)).
  { rewrite (ray_fuel _ d Hs (Hincl d Hd)). rewrite Hzf, Hzr. exact Hc. }
  destruct (ray_not_self _ d t Hs (Hincl d Hd) Hray) as [Ht Hne].
  exists t. repeat split; try assumption. apply negb_true_iff in Hcol. exact Hcol.
Qed.

Lemma offsets_facts : forall d, In d king_offsets \/ In d knight_offsets ->
  (fst d <> 0 \/ snd d <> 0)%Z /\ (In d king_offsets -> Z.abs (fst d) <= 1)%Z.
Proof.
  assert (HK : forallb (fun d => (negb (fst d =? 0) || negb (snd d =? 0)) && (Z.abs (fst d) <=? 1))%Z king_offsets = true) by reflexivity.
  assert (HN : forallb (fun d => (negb (fst d =? 0) || negb (snd d =? 0)))%Z knight_offsets = true) by reflexivity.
  rewrite forallb_forall in HK, HN. intros d Hd. split.
  - destruct Hd as [Hd|Hd].
    + apply HK in Hd. apply andb_true_iff in Hd. destruct Hd as [Hd _]. apply orb_true_iff in Hd.
      destruct Hd as [Hd|Hd]; apply negb_true_iff, Z.eqb_neq in Hd; auto.
    + apply HN in Hd. apply orb_true_iff in Hd.
      destruct Hd as [Hd|Hd]; apply negb_true_iff, Z.eqb_neq in Hd; auto.
  - intro Hk. apply HK in Hk. apply andb_true_iff in Hk. destruct Hk as [_ Hk]. apply Z.leb_le in Hk. exact Hk.
Qed.

Section Assemble.
Variable p : position.
Hypothesis HWF : WF p.
Let w := whiteMove p.
Let b := squares p.
Let HB : BoardOK p := WF_BoardOK p HWF.
Let HL : length (squares p) = 64%nat := proj1 (WF_parts p HWF).

Definition goodMove (m : move) : Prop :=
  squares (fst (makeMoveB p m)) = sp_board (make_spec (abs p) m) /\ moveOk p m = true /\ kingCountKept p m.

Lemma has_color_mk : forall k, has_color w (mk_piece w k) = true.
Proof. intro k. unfold w. destruct (whiteMove p), k; reflexivity. Qed.

Lemma step_good : forall f r k offs m, on_board f r = true -> at_ b f r = mk_piece w k ->
  (k = King /\ offs = king_offsets) \/ (k = Knight /\ offs = knight_offsets) ->
  In m (step_moves b w f r offs) -> goodMove m.
Proof.
  intros f r k offs m Hob Hat Hk Hin. apply step_moves_In in Hin. destruct Hin as [d [Hd [Hob2 [Hcol ->]]]].
  destruct (sq_of_coords f r Hob) as [Hs [Hzf [Hzr _]]]. destruct (sq_of_coords _ _ Hob2) as [Ht [Htf [Htr _]]].
  unfold b in Hat, Hcol. rewrite (at_getPiece p _ _ Hob) in Hat. rewrite (at_getPiece p _ _ Hob2) in Hcol.
  assert (Hoff : (fst d <> 0 \/ snd d <> 0)%Z /\ (In d king_offsets -> Z.abs (fst d) <= 1)%Z).
  { apply offsets_facts. destruct Hk as [[_ ->]|[_ ->]]; auto. }
  unfold mv. apply (nonpawn_move_ok p HB HL); try assumption.
  - intro E. rewrite <- E in Htf, Htr. rewrite Hzf in Htf. rewrite Hzr in Htr. destruct Hoff as [[H|H] _]; lia.
  - fold w. rewrite Hat. apply has_color_mk.
  - rewrite Hat. unfold w. destruct Hk as [[-> _]|[-> _]]; destruct (whiteMove p); reflexivity.
  - intro HK. rewrite Htf, Hzf. destruct Hk as [[_ ->]|[-> _]].
    + destruct Hoff as [_ Ho]. specialize (Ho Hd). lia.
    + rewrite Hat in HK. unfold w in HK. destruct (whiteMove p); discriminate.
Qed.

Lemma slider_good : forall f r k dirs m, on_board f r = true -> at_ b f r = mk_piece w k ->
  k = Rook \/ k = Bishop \/ k = Queen -> incl dirs allDirs ->
  In m (slider_moves b w f r dirs) -> goodMove m.
Proof.
  intros f r k dirs m Hob Hat Hk Hincl Hin.
  destruct (slider_moves_facts p w f r dirs m HWF Hob Hincl Hin) as [t [-> [Ht [Hne Hcol]]]].
  destruct (sq_of_coords f r Hob) as [Hs _]. unfold b in Hat. rewrite (at_getPiece p _ _ Hob) in Hat.
  apply (nonpawn_move_ok p HB HL); try assumption.
  - fold w. rewrite Hat. apply has_color_mk.
  - rewrite Hat. unfold w. destruct Hk as [->|[->| ->]]; destruct (whiteMove p); reflexivity.
  - intro HK. rewrite Hat in HK. unfold w in HK. destruct Hk as [->|[->| ->]]; destruct (whiteMove p); discriminate.
Qed.

(** what WF says about the en-passant square, incl. the enemy pawn in front of it *)
Lemma ep_facts : epSquare p = (-1)%Z \/
  (0 <= epSquare p < 64 /\ epSquare p / 8 = (if w then 5 else 2) /\
   at_ b (epSquare p mod 8) (epSquare p / 8) = EMPTY /\
   at_ b (epSquare p mod 8) (if w then 4 else 3) = mk_piece (negb w) Pawn)%Z.
Proof.
  pose proof (WF_parts p HWF) as Hparts. destruct Hparts as [_ [_ [_ [_ Ha]]]]. unfold accepted in Ha. cbv zeta in Ha.
  apply andb_true_iff in Ha. destruct Ha as [_ Ha]. cbn [abs sp_ep sp_white sp_board] in Ha. fold w b in Ha.
  apply orb_true_iff in Ha. destruct Ha as [Ha|Ha]; [left; apply Z.eqb_eq; exact Ha|]. right.
  rewrite !andb_true_iff in Ha. destruct Ha as [[H1 H2] [[H3 H4] H5]].
  apply Z.leb_le in H1. apply Z.ltb_lt in H2. apply Z.eqb_eq in H3. apply N.eqb_eq in H4.
  rewrite is_piece_eqb in H5. apply N.eqb_eq in H5. auto.
Qed.

Lemma pawn_good : forall f r m, on_board f r = true -> at_ b f r = mk_piece w Pawn ->
  In m (pawn_moves (abs p) f r) -> goodMove m.
Proof.
  intros f r m Hob Hat Hin. apply pawn_moves_In in Hin. cbn [abs sp_board sp_white sp_ep] in Hin. fold w b in Hin.
  destruct (sq_of_coords f r Hob) as [Hs [Hzf [Hzr _]]].
  unfold b in Hat. rewrite (at_getPiece p _ _ Hob) in Hat.
  assert (Hfr : (0 <= f <= 7 /\ 0 <= r <= 7)%Z) by (unfold on_board in Hob; rewrite !andb_true_iff, !Z.leb_le in Hob; lia).
  assert (Hdir : (dirOf w = 1 \/ dirOf w = -1)%Z) by (unfold dirOf; destruct w; auto).
  assert (Hpromo : forall f' r', In m (pawn_arrive w f r f' r') ->
            exists X, m = mkMove (sq_of f r) (sq_of f' r') X /\ (X = EMPTY \/ exists k, In k promoKinds /\ X = mk_piece w k)).
  { intros f' r' Ha. apply pawn_arrive_In in Ha. destruct Ha as [[_ [k [Hk ->]]]|[_ ->]].
    - exists (mk_piece w k). split; [reflexivity | right; exists k; auto].
    - exists EMPTY. split; [reflexivity | left; reflexivity]. }
  destruct Hin as [Hp|[Hp|[Hp|Hp]]].
  - (* single push *)
    destruct Hp as [Hob2 [He Ha]]. destruct (Hpromo _ _ Ha) as [X [-> HX]].
    destruct (sq_of_coords _ _ Hob2) as [Ht [Htf [Htr _]]]. unfold b in He. rewrite (at_getPiece p _ _ Hob2) in He.
    apply (pawn_simple_ok p HB HL); try assumption.
    + intro E. rewrite <- E in Htr. rewrite Hzr in Htr. lia.
    + rewrite He. reflexivity.
    + intro Eep. destruct ep_facts as [Hn|[Hr [Hrank [_ Hpawn]]]]; [lia|].
      assert (Ef : (epSquare p mod 8 = f)%Z) by (rewrite <- Eep; fold (zf (sq_of f (r + dirOf w))); exact Htf).
      assert (Er : (epSquare p / 8 = r + dirOf w)%Z) by (rewrite <- Eep; fold (zr (sq_of f (r + dirOf w))); exact Htr).
      rewrite Ef in Hpawn. assert (Er4 : (r = if w then 4 else 3)%Z) by (unfold dirOf in *; destruct w; lia).
      rewrite <- Er4 in Hpawn. unfold b in Hpawn. rewrite (at_getPiece p _ _ Hob), Hat in Hpawn.
      unfold w in Hpawn. destruct (whiteMove p); discriminate.
    + left. rewrite Htf, Hzf. reflexivity.
  - (* double push *)
    destruct Hp as [Hob1 [He1 [Hst [He2 ->]]]].
    assert (Hob2 : on_board f (r + dirOf w + dirOf w) = true).
    { unfold on_board. rewrite !andb_true_iff, !Z.leb_le. unfold startRank, dirOf in *. destruct w; lia. }
    destruct (sq_of_coords _ _ Hob2) as [Ht [Htf [Htr _]]]. unfold b in He2. rewrite (at_getPiece p _ _ Hob2) in He2.
    unfold mv. apply (pawn_simple_ok p HB HL); try assumption.
    + intro E. rewrite <- E in Htr. rewrite Hzr in Htr. lia.
    + rewrite He2. reflexivity.
    + intro Eep. destruct ep_facts as [Hn|[Hr [Hrank _]]]; [lia|].
      assert (Er : (epSquare p / 8 = r + dirOf w + dirOf w)%Z) by (rewrite <- Eep; fold (zr (sq_of f (r + dirOf w + dirOf w))); exact Htr).
      unfold startRank, dirOf in *. destruct w; lia.
    + left. rewrite Htf, Hzf. reflexivity.
    + left. reflexivity.
  - (* capture towards the a-file / en passant *)
    destruct Hp as [Hob2 [[Hc Ha]|[Hc [Eep [He ->]]]]];
      destruct (sq_of_coords _ _ Hob2) as [Ht [Htf [Htr _]]]; unfold b in *; rewrite (at_getPiece p _ _ Hob2) in *.
    + destruct (Hpromo _ _ Ha) as [X [-> HX]].
      assert (Hne0 : getPiece p (sq_of (f - 1) (r + dirOf w)) <> EMPTY) by (intro E; rewrite E in Hc; destruct w; discriminate).
      apply (pawn_simple_ok p HB HL); try assumption.
      * intro E. rewrite <- E in Htr. rewrite Hzr in Htr. lia.
      * pose proof (BoardOK_le12 p (sq_of (f - 1) (r + dirOf w)) HB) as Hle.
        destruct (le12_cases _ Hle) as [E|[E|[E|[E|[E|[E|[E|[E|[E|[E|[E|[E|E]]]]]]]]]]]]; rewrite E in *; unfold w in *; destruct (whiteMove p); try reflexivity; try discriminate.
      * intro Eep. destruct ep_facts as [Hn|[Hr [_ [Hemp _]]]]; [lia|].
        rewrite <- Eep in Hemp. fold (zf (sq_of (f - 1) (r + dirOf w))) (zr (sq_of (f - 1) (r + dirOf w))) in Hemp.
        rewrite Htf, Htr in Hemp. unfold b in Hemp. rewrite (at_getPiece p _ _ Hob2) in Hemp. contradiction.
      * right. exact Hne0.
    + unfold mv. apply (pawn_ep_ok p HB HL); try assumption.
      * rewrite Htr, Hzr. reflexivity.
      * rewrite Htf, Hzf. lia.
      * destruct ep_facts as [Hn|[Hr [Hrank [_ Hpawn]]]]; [lia|].
        rewrite <- Eep in Hrank, Hpawn. fold (zf (sq_of (f - 1) (r + dirOf w))) in Hpawn. fold (zr (sq_of (f - 1) (r + dirOf w))) in Hrank.
        rewrite Htf in Hpawn. rewrite Htr in Hrank. rewrite Htf, Hzr.
        assert (Er4 : (r = if w then 4 else 3)%Z) by (unfold dirOf in *; destruct w; lia).
        rewrite <- Er4 in Hpawn. unfold b in Hpawn.
        assert (Hob3 : on_board (f - 1) r = true) by (unfold on_board in *; rewrite !andb_true_iff, !Z.leb_le in *; lia).
        rewrite (at_getPiece p _ _ Hob3) in Hpawn. exact Hpawn.
  - (* capture towards the h-file / en passant *)
    destruct Hp as [Hob2 [[Hc Ha]|[Hc [Eep [He ->]]]]];
      destruct (sq_of_coords _ _ Hob2) as [Ht [Htf [Htr _]]]; unfold b in *; rewrite (at_getPiece p _ _ Hob2) in *.
    + destruct (Hpromo _ _ Ha) as [X [-> HX]].
      assert (Hne0 : getPiece p (sq_of (f + 1) (r + dirOf w)) <> EMPTY) by (intro E; rewrite E in Hc; destruct w; discriminate).
      apply (pawn_simple_ok p HB HL); try assumption.
      * intro E. rewrite <- E in Htr. rewrite Hzr in Htr. lia.
      * pose proof (BoardOK_le12 p (sq_of (f + 1) (r + dirOf w)) HB) as Hle.
        destruct (le12_cases _ Hle) as [E|[E|[E|[E|[E|[E|[E|[E|[E|[E|[E|[E|E]]]]]]]]]]]]; rewrite E in *; unfold w in *; destruct (whiteMove p); try reflexivity; try discriminate.
      * intro Eep. destruct ep_facts as [Hn|[Hr [_ [Hemp _]]]]; [lia|].
        rewrite <- Eep in Hemp. fold (zf (sq_of (f + 1) (r + dirOf w))) (zr (sq_of (f + 1) (r + dirOf w))) in Hemp.
        rewrite Htf, Htr in Hemp. unfold b in Hemp. rewrite (at_getPiece p _ _ Hob2) in Hemp. contradiction.
      * right. exact Hne0.
    + unfold mv. apply (pawn_ep_ok p HB HL); try assumption.
      * rewrite Htr, Hzr. reflexivity.
      * rewrite Htf, Hzf. lia.
      * destruct ep_facts as [Hn|[Hr [Hrank [_ Hpawn]]]]; [lia|].
        rewrite <- Eep in Hrank, Hpawn. fold (zf (sq_of (f + 1) (r + dirOf w))) in Hpawn. fold (zr (sq_of (f + 1) (r + dirOf w))) in Hrank.
        rewrite Htf in Hpawn. rewrite Htr in Hrank. rewrite Htf, Hzr.
        assert (Er4 : (r = if w then 4 else 3)%Z) by (unfold dirOf in *; destruct w; lia).
        rewrite <- Er4 in Hpawn. unfold b in Hpawn.
        assert (Hob3 : on_board (f + 1) r = true) by (unfold on_board in *; rewrite !andb_true_iff, !Z.leb_le in *; lia).
        rewrite (at_getPiece p _ _ Hob3) in Hpawn. exact Hpawn.
Qed.

Lemma castle_good : forall m, In m (castle_moves_pseudo (abs p)) -> goodMove m.
Proof.
  intros m Hin. unfold castle_moves_pseudo in Hin. cbn [abs sp_board sp_white] in Hin. fold w b in Hin. cbv beta zeta in Hin.
  set (r := (if w then 0 else 7)%Z) in *.
  assert (Hr : (r = 0 \/ r = 7)%Z) by (unfold r; destruct w; auto).
  assert (Hob : forall f, (0 <= f <= 7)%Z -> on_board f r = true)
    by (intros f Hf; unfold on_board; rewrite !andb_true_iff, !Z.leb_le; lia).
  assert (Hget : forall f, (0 <= f <= 7)%Z -> at_ b f r = getPiece p (sq_of f r))
    by (intros f Hf; unfold b; apply at_getPiece, Hob, Hf).
  destruct (is_piece w King (at_ b 4 r) && negb (attacked_by b (negb w) 4 r)) eqn:E0; [|destruct Hin].
  apply andb_true_iff in E0. destruct E0 as [EK _]. rewrite is_piece_eqb in EK. apply N.eqb_eq in EK.
  rewrite (Hget 4%Z) in EK by lia.
  assert (H4 : sq_of 4 r < 64) by (apply sq_of_coords, Hob; lia).
  assert (Hz4 : zf (sq_of 4 r) = 4%Z /\ zr (sq_of 4 r) = r) by (split; apply sq_of_coords, Hob; lia).
  destruct Hz4 as [Hzf4 Hzr4].
  assert (Hcore : forall kside : bool,
            getPiece p (sq_of (if kside then 7 else 0)%Z r) = mk_piece w Rook ->
            getPiece p (sq_of (if kside then 6 else 2)%Z r) = EMPTY ->
            getPiece p (sq_of (if kside then 5 else 3)%Z r) = EMPTY ->
            goodMove (mkMove (sq_of 4 r) (sq_of (if kside then 6 else 2)%Z r) EMPTY)).
  { intros kside HR HE2 HE1.
    assert (Ht : sq_of (if kside then 6 else 2)%Z r < 64) by (apply sq_of_coords, Hob; destruct kside; lia).
    split; [|split].
    3:{ unfold kingCountKept. fold w.
        assert (HKc : isKingPc (getPiece p (sq_of 4 r)) = true) by (rewrite EK; unfold w; destruct (whiteMove p); reflexivity).
        assert (Hfrom : Z.of_N (sq_of 4 r) = (r * 8 + 4)%Z) by (unfold sq_of; lia).
        assert (Hto : Z.of_N (sq_of (if kside then 6 else 2)%Z r) = sqPlus (sq_of 4 r) (if kside then 2 else -2)%Z)
          by (unfold sqPlus; rewrite Hfrom; unfold sq_of; destruct kside; lia).
        assert (Er3 : toSq (sqPlus (sq_of 4 r) (if kside then 3 else -4)%Z) = sq_of (if kside then 7 else 0)%Z r)
          by (unfold toSq, sqPlus; rewrite Hfrom; unfold sq_of; destruct kside; f_equal; lia).
        assert (Er1 : toSq (sqPlus (sq_of 4 r) (if kside then 1 else -1)%Z) = sq_of (if kside then 5 else 3)%Z r)
          by (unfold toSq, sqPlus; rewrite Hfrom; unfold sq_of; destruct kside; f_equal; lia).
        rewrite (makeMoveB_castle p (mkMove (sq_of 4 r) (sq_of (if kside then 6 else 2)%Z r) EMPTY) kside HB);
          cbn [mfrom mto mpromote]; try assumption;
          [| unfold sq_of; lia | rewrite Er3; unfold sq_of; destruct kside; lia | rewrite Er1; unfold sq_of; destruct kside; lia].
        rewrite Er3, Er1, HR, EK.
        set (K := mk_piece w King). set (R := mk_piece w Rook).
        set (s3 := sq_of (if kside then 7 else 0)%Z r). set (s1 := sq_of (if kside then 5 else 3)%Z r).
        set (s4 := sq_of 4 r). set (s2 := sq_of (if kside then 6 else 2)%Z r).
        assert (Hd : s3 < 64 /\ s1 < 64 /\ s4 < 64 /\ s2 < 64 /\ s1 <> s3 /\ s4 <> s1 /\ s4 <> s3 /\ s2 <> s4 /\ s2 <> s1 /\ s2 <> s3)
          by (unfold s1, s2, s3, s4, sq_of; destruct kside; lia).
        destruct Hd as (L3 & L1 & L4 & L2 & D13 & D41 & D43 & D24 & D21 & D23).
        pose proof (count_updN (squares p) s3 EMPTY K ltac:(lia)) as C1.
        pose proof (count_updN (updN s3 EMPTY (squares p)) s1 R K ltac:(rewrite length_updN; lia)) as C2.
        pose proof (count_updN (updN s1 R (updN s3 EMPTY (squares p))) s4 EMPTY K ltac:(rewrite !length_updN; lia)) as C3.
        pose proof (count_updN (updN s4 EMPTY (updN s1 R (updN s3 EMPTY (squares p)))) s2 K K ltac:(rewrite !length_updN; lia)) as C4.
        rewrite !nth_updN_neq in C2 by lia. rewrite !nth_updN_neq in C3 by lia. rewrite !nth_updN_neq in C4 by lia.
        assert (V3 : nth (N.to_nat s3) (squares p) EMPTY = R) by exact HR.
        assert (V1 : nth (N.to_nat s1) (squares p) EMPTY = EMPTY) by exact HE1.
        assert (V4 : nth (N.to_nat s4) (squares p) EMPTY = K) by exact EK.
        assert (V2 : nth (N.to_nat s2) (squares p) EMPTY = EMPTY) by exact HE2.
        unfold piece, square in *. rewrite V3 in C1. rewrite V1 in C2. rewrite V4 in C3. rewrite V2 in C4.
        rewrite N.eqb_refl in C3, C4.
        replace (K =? R) with false in * by (unfold K, R, w; destruct (whiteMove p); reflexivity).
        replace (K =? EMPTY) with false in * by (unfold K, w; destruct (whiteMove p); reflexivity).
        lia. }
    - apply (board_eq_castle p HB (mkMove (sq_of 4 r) (sq_of (if kside then 6 else 2)%Z r) EMPTY) H4 Ht kside); cbn [mfrom mto mpromote]; rewrite ?Hzr4; try assumption; try reflexivity.
    - rewrite moveOk_parts. unfold okBase, okPromo, okEp, okCastle. cbn [mfrom mto mpromote]. cbv zeta. fold w.
      rewrite EK, HE2.
      replace (sq_of 4 r <? 64) with true by (symmetry; apply N.ltb_lt; exact H4).
      replace (sq_of (if kside then 6 else 2)%Z r <? 64) with true by (symmetry; apply N.ltb_lt; exact Ht).
      change (EMPTY =? EMPTY) with true.
      assert (E1 : sq_of 4 r + 1 = sq_of 5 r) by (unfold sq_of; lia).
      assert (E2 : sq_of 4 r + 2 = sq_of 6 r) by (unfold sq_of; lia).
      assert (E3 : sq_of 4 r + 3 = sq_of 7 r) by (unfold sq_of; lia).
      assert (E1' : sq_of 4 r - 1 = sq_of 3 r) by (unfold sq_of; lia).
      assert (E2' : sq_of 4 r - 2 = sq_of 2 r) by (unfold sq_of; lia).
      assert (E4' : sq_of 4 r - 4 = sq_of 0 r) by (unfold sq_of; lia).
      rewrite E1, E2, E3, E1', E2', E4'.
      assert (H7 : sq_of 7 r < 64) by (apply sq_of_coords, Hob; lia).
      replace (sq_of 7 r <? 64) with true by (symmetry; apply N.ltb_lt; exact H7).
      replace (2 <=? sq_of 4 r) with true by (symmetry; apply N.leb_le; unfold sq_of; lia).
      replace (4 <=? sq_of 4 r) with true by (symmetry; apply N.leb_le; unfold sq_of; lia).
      destruct kside.
      + rewrite HR, HE1. replace (sq_of 4 r =? sq_of 6 r) with false by (symmetry; apply N.eqb_neq; unfold sq_of; lia).
        replace (sq_of 6 r =? sq_of 2 r) with false by (symmetry; apply N.eqb_neq; unfold sq_of; lia).
        rewrite !N.eqb_refl. unfold w. destruct (whiteMove p); reflexivity.
      + rewrite HR, HE1. replace (sq_of 4 r =? sq_of 2 r) with false by (symmetry; apply N.eqb_neq; unfold sq_of; lia).
        replace (sq_of 2 r =? sq_of 6 r) with false by (symmetry; apply N.eqb_neq; unfold sq_of; lia).
        rewrite !N.eqb_refl. unfold w. destruct (whiteMove p); reflexivity. }
  apply in_app_iff in Hin. destruct Hin as [Hin|Hin]; apply In_single_if in Hin; destruct Hin as [Hc ->].
  - rewrite !andb_true_iff in Hc. destruct Hc as [[[[_ HR] H5] H6] _].
    rewrite is_piece_eqb in HR. apply N.eqb_eq in HR, H5, H6.
    rewrite (Hget 7%Z) in HR by lia. rewrite (Hget 5%Z) in H5 by lia. rewrite (Hget 6%Z) in H6 by lia.
    unfold mv. apply (Hcore true); assumption.
  - rewrite !andb_true_iff in Hc. destruct Hc as [[[[[_ HR] H1] H2] H3] _].
    rewrite is_piece_eqb in HR. apply N.eqb_eq in HR, H2, H3.
    rewrite (Hget 0%Z) in HR by lia. rewrite (Hget 2%Z) in H2 by lia. rewrite (Hget 3%Z) in H3 by lia.
    unfold mv. apply (Hcore false); assumption.
Qed.

(** every pseudo-legal move: makeMoveB's board = the Spec's, and the move is well-shaped *)
Theorem pseudo_move_good : forall m, In m (pseudoLegalMoves p) -> goodMove m.
Proof.
  intros m Hin. apply (pseudoLegalMoves_spec p m HWF) in Hin. unfold pseudo_moves_engine in Hin.
  apply in_app_iff in Hin. destruct Hin as [Hin|Hin]; [|apply castle_good; exact Hin].
  apply in_flat_map in Hin. destruct Hin as [[f r] [Hc Hin]]. apply all_coords_on_board in Hc. cbn [fst snd] in Hin.
  assert (Hle : at_ (sp_board (abs p)) f r <= 12).
  { cbn [abs sp_board]. rewrite (at_getPiece p f r Hc). apply (BoardOK_le12 p _ HB). }
  apply (piece_moves_In (abs p) f r m Hle) in Hin. cbn [abs sp_board sp_white] in Hin. fold w b in Hin.
  destruct Hin as [[Hat Hin]|[[Hat Hin]|[[Hat Hin]|[[Hat Hin]|[[Hat Hin]|[Hat Hin]]]]]].
  - apply (step_good f r King king_offsets m Hc Hat); auto.
  - apply (step_good f r Knight knight_offsets m Hc Hat); auto.
  - apply (slider_good f r Rook rook_dirs m Hc Hat); auto. unfold allDirs. apply incl_appl, incl_refl.
  - apply (slider_good f r Bishop bishop_dirs m Hc Hat); auto. unfold allDirs. apply incl_appr, incl_refl.
  - apply (slider_good f r Queen (rook_dirs ++ bishop_dirs) m Hc Hat); auto. apply incl_refl.
  - apply (pawn_good f r m Hc Hat Hin).
Qed.
End Assemble.
