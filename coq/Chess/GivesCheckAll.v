(** C01_givesCheck: MoveGen::givesCheck's verdict is the Spec's for every legal move -
    promotions (GivesCheckPromo), en-passant captures (GivesCheckEp), castling
    (GivesCheckCastle) and all other moves (GivesCheckProofs). *)
From Coq Require Import ZArith NArith List Bool.
From Texel Require Import Chess.Types Chess.Position Chess.PositionB Chess.BitBoard Chess.MoveGen Chess.Spec Chess.MoveGenWF
  Chess.MakeSpecProofs Chess.WfProofs Chess.GivesCheckProofs Chess.GivesCheckCommon Chess.GivesCheckPromo Chess.GivesCheckEp Chess.GivesCheckCastle.
Local Open Scope N_scope.

Theorem givesCheck_all : forall p m, WF p -> legal_spec (abs p) m -> givesCheck p m = gives_check_spec (abs p) m.
Proof.
  intros p m H Hl.
  destruct (N.eq_dec (mpromote m) EMPTY) as [Hp|Hp]; [|exact (givesCheck_promotion p m H Hl Hp)].
  destruct (isEp p m) eqn:He; [exact (givesCheck_enpassant p m H Hl He)|].
  destruct (isCK p m) eqn:HK; [exact (givesCheck_castling p m H Hl (or_introl HK))|].
  destruct (isCQ p m) eqn:HQ; [exact (givesCheck_castling p m H Hl (or_intror HQ))|].
  exact (givesCheck_partial p m H Hl Hp He HK HQ).
Qed.
