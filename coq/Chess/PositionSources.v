(** C02: the positions produced by TextIO::readFEN satisfy the representation invariant. *)
From Coq Require Import ZArith NArith List Bool Lia.
From Texel Require Import Chess.Types Chess.Position Chess.PositionSpec Chess.PositionFacts
  Chess.PositionProofs Chess.PositionProofs2 Chess.Fen.
Import ListNotations.
Local Open Scope N_scope.

Section Sources.
Variable zk : zkeys.
Hypothesis EKZ : emptyKeysZero zk.

Lemma fold_zobrist_empty n : forall i acc,
  fold_left (zobristStep zk) (indexFrom i (repeat EMPTY n)) acc = acc.
Proof.
  induction n; intros i [[h ph] mid]; simpl; [reflexivity|].
  rewrite EKZ, N.lxor_0_r. change (matAdd mid EMPTY) with (mid + 0)%Z. rewrite Z.add_0_r. apply IHn.
Qed.

Lemma bbOfFrom_empty f n : f EMPTY = false -> forall i, bbOfFrom f i (repeat EMPTY n) = 0.
Proof. intro H. induction n; intro i; simpl; [reflexivity|]. rewrite H, IHn. reflexivity. Qed.

Lemma xorKeysFrom_empty f n : forall i, xorKeysFrom zk f i (repeat EMPTY n) = 0.
Proof. induction n; intro i; simpl; [reflexivity|]. rewrite IHn, EKZ. destruct (f EMPTY); reflexivity. Qed.

Lemma emptyPosition_consistent : Consistent zk (emptyPosition zk).
Proof.
  unfold emptyPosition, computeZobristHash. cbv zeta. cbn [squares].
  unfold boardHashes. rewrite fold_zobrist_empty. cbv beta iota.
  constructor; proj_simpl.
  - apply repeat_length.
  - apply repeat_length.
  - apply Forall_forall. intros x Hx. apply repeat_spec in Hx. subst. reflexivity.
  - intros pc Hpc. unfold bbOf. rewrite bbOfFrom_empty.
    + unfold ptBB. proj_simpl. destruct (Nat.lt_ge_cases (N.to_nat pc) 13).
      * apply nth_repeat.
      * apply nth_overflow. rewrite repeat_length. auto.
    + apply N.eqb_neq. unfold EMPTY. lia.
  - reflexivity.
  - reflexivity.
  - unfold hashOf, fullHash, boardKey. proj_simpl. rewrite xorKeysFrom_empty.
    rewrite !N.lxor_0_r. reflexivity.
  - unfold pawnKey. rewrite xorKeysFrom_empty. rewrite N.lxor_0_r. reflexivity.
  - reflexivity.
  - reflexivity.
  - reflexivity.
  - reflexivity.
  - reflexivity.
Qed.

Lemma fenCharToPiece_lt c pc : fenCharToPiece c = Some pc -> pc < 13.
Proof.
  unfold fenCharToPiece.
  repeat match goal with |- context [if ?b then _ else _] => destruct b end;
    intro H; inversion H; reflexivity.
Qed.

Lemma readPlacement_consistent k s : forall p row col p' rest,
  ConsistentX zk k p -> (0 <= row <= 7)%Z -> (0 <= col)%Z ->
  readPlacement zk s p row col = inr (p', rest) -> ConsistentX zk k p'.
Proof.
  induction s as [|c t IH]; intros p row col p' rest C Hr Hc H; simpl in H.
  - inversion H; subst; auto.
  - destruct (c =? ch_space); [inversion H; subst; auto|].
    destruct ((49 <=? c) && (c <=? 56)).
    + eapply IH; [exact C | exact Hr | | exact H]. lia.
    + destruct (c =? ch_slash).
      * destruct (Z.ltb_spec (row - 1) 0); [discriminate|].
        eapply IH; [exact C | | | exact H]; lia.
      * destruct (fenCharToPiece c) as [pc|] eqn:Epc; [|discriminate].
        unfold safeSetPiece in H.
        destruct (Z.ltb_spec 7 col); [discriminate|].
        destruct (((pc =? WPAWN) || (pc =? BPAWN)) && ((row =? 0)%Z || (row =? 7)%Z)); [discriminate|].
        eapply IH; [| exact Hr | | exact H]; [|lia].
        apply setPiece_consistent; auto; [lia | eapply fenCharToPiece_lt; eauto].
Qed.

Lemma fixupEPSquare_consistent k p : ConsistentX zk k p -> ConsistentX zk k (fixupEPSquare zk p).
Proof.
  intro C. unfold fixupEPSquare. cbv zeta.
  destruct (negb (epSquare p =? -1)%Z); auto.
  destruct (_ || _); auto. apply setEpSquare_consistent; auto.
Qed.

Lemma readEp_consistent k p s p' : ConsistentX zk k p -> readEp zk p s = inr p' -> ConsistentX zk k p'.
Proof.
  intros C H. unfold readEp in H.
  destruct s as [|c0 t]; [inversion H; subst; auto|].
  destruct (negb (c0 =? ch_dash)); [|inversion H; subst; auto].
  destruct t as [|c1 t']; [discriminate|].
  destruct (negb (getSquare c0 c1 =? -1)%Z); [|inversion H; subst; auto].
  inversion H; subst. apply setEpSquare_consistent; auto.
Qed.

Lemma fenCounters_consistent k p s : ConsistentX zk k p -> ConsistentX zk k (fenCounters p s).
Proof.
  intro C. unfold fenCounters. cbv zeta.
  destruct (token (skipSpaces s)) as [tok1 s1].
  destruct (token (skipSpaces s1)) as [tok2 s2].
  repeat match goal with
  | |- ConsistentX _ _ (match ?t with [] => _ | _ :: _ => _ end) => destruct t
  | |- ConsistentX _ _ (match stoi ?t with Some _ => _ | None => _ end) => destruct (stoi t)
  | |- ConsistentX _ _ (setFullMoveCounter _ _) => apply set_fullMoveCounter_consistent
  | |- ConsistentX _ _ (setHalfMoveClock _ _) => apply set_halfMoveClock_consistent
  end; auto.
Qed.

Lemma fenFinish_consistent p q : Consistent zk p -> fenFinish zk p = FenOk q -> Consistent zk q.
Proof.
  intros C H. unfold fenFinish in H.
  destruct (negb (Nat.eqb (countPiece p WKING) 1)); [discriminate|].
  destruct (negb (Nat.eqb (countPiece p BKING) 1)); [discriminate|].
  cbv zeta in H. destruct (inCheck _); [discriminate|].
  inversion H; subst. apply fixupEPSquare_consistent; auto.
Qed.

Theorem readFEN_consistent s p : readFEN zk s = FenOk p -> Consistent zk p.
Proof.
  unfold readFEN. intro H.
  destruct (readPlacement zk s (emptyPosition zk) 7 0) as [e|[p1 s1]] eqn:E1; [discriminate|].
  assert (C1 : Consistent zk p1).
  { eapply readPlacement_consistent; [apply emptyPosition_consistent | | | exact E1]; lia. }
  cbv zeta in H.
  destruct (skipSpaces s1) as [|c s2]; [discriminate|].
  set (p2 := setWhiteMove zk p1 (c =? ch_w)) in *.
  assert (C2 : Consistent zk p2) by (apply setWhiteMove_consistent; auto).
  destruct (readCastle (skipSpaces s2) 0) as [e|[cm s3]] eqn:E3; [discriminate|].
  set (p3 := setCastleMask zk p2 (fixCastleMask p2 cm)) in *.
  assert (C3 : Consistent zk p3) by (apply setCastleMask_consistent; auto).
  destruct (match skipSpaces s3 with [] => inr p3 | _ :: _ => readEp zk p3 (skipSpaces s3) end) as [e|p4] eqn:E4;
    [discriminate|].
  assert (C4 : Consistent zk p4).
  { destruct (skipSpaces s3); [inversion E4; subst; auto|]. eapply readEp_consistent; eauto. }
  eapply fenFinish_consistent; [|exact H]. apply fenCounters_consistent. exact C4.
Qed.

End Sources.
