(** C01_legal_exact without the king-ray shortcut: filtering pseudoLegalMoves with the
    make / test / unmake verdict gives exactly the legal moves of chess. *)
From Coq Require Import ZArith NArith List Bool Lia.
From Texel Require Import Chess.Types Chess.Position Chess.PositionSpec Chess.PositionFacts Chess.PositionProofs
  Chess.PositionProofs2 Chess.PositionTheorems Chess.PositionB
  Chess.BitBoard Chess.MoveGen Chess.Spec Chess.MoveGenWF
  Chess.BitBoardProofs Chess.RayProofs Chess.MoveGenProofs Chess.AttackProofs Chess.SliderProofs Chess.PawnProofs
  Chess.PseudoProofs Chess.MakeSpecProofs Chess.TryMoveProofs Chess.CastleProofs gen.BitBoardTables.
Import ListNotations.
Local Open Scope N_scope.

(** the Spec's king search on a board with exactly one king of that colour *)
Lemma find_king_spec : forall (bd : board) (w : bool) s, s < 64 ->
  nth (N.to_nat s) bd EMPTY = mk_piece w King ->
  (forall s1 s2, s1 < 64 -> s2 < 64 -> nth (N.to_nat s1) bd EMPTY = mk_piece w King ->
                 nth (N.to_nat s2) bd EMPTY = mk_piece w King -> s1 = s2) ->
  find_king bd w = Some (zf s, zr s).
Proof.
  intros bd w s Hs Hk Hun. unfold find_king. destruct (find _ all_coords) as [[f r]|] eqn:Ef.
  - apply find_some in Ef. destruct Ef as [Hin Hkk]. cbn [fst snd] in Hkk.
    destruct all_coords_ok as [Hob _]. rewrite forallb_forall in Hob. specialize (Hob _ Hin). cbn [fst snd] in Hob.
    destruct (sq_of_coords f r Hob) as [Hs' [Hf [Hr Hi]]].
    rewrite is_piece_eqb in Hkk. apply N.eqb_eq in Hkk. unfold at_ in Hkk. rewrite Hob, Hi in Hkk.
    rewrite <- (Hun _ _ Hs' Hs Hkk Hk). rewrite Hf, Hr. reflexivity.
  - exfalso. destruct all_coords_ok as [_ Hall]. pose proof (sweep1 _ Hall _ Hs) as Hex.
    apply existsb_exists in Hex. destruct Hex as [[f r] [Hin He]]. cbn [fst snd] in He.
    apply andb_true_iff in He. destruct He as [He1 He2]. apply Z.eqb_eq in He1, He2. subst f r.
    pose proof (find_none _ _ Ef _ Hin) as Hn. cbn [fst snd] in Hn.
    destruct (coords_of_sq s Hs) as [Hob [Hi _]].
    rewrite is_piece_eqb in Hn. unfold at_ in Hn. rewrite Hob, Hi, Hk, N.eqb_refl in Hn. discriminate.
Qed.

Section Legal.
Variable zk : zkeys.
Hypothesis EKZ : emptyKeysZero zk.
Variable p : position.
Hypothesis HWF : WF p.
Hypothesis HC : Consistent zk p.
Let w := whiteMove p.
Let b := squares p.

(** castling onto an attacked square leaves the king in check: the engine's relaxed castling
    moves that survive the king test are the Spec's castling moves *)
Lemma castle_safe_is_spec : forall m, In m (pseudoLegalMoves p) -> In m (castle_moves_pseudo (abs p)) ->
  in_checkb (sp_board (make_spec (abs p) m)) w = false -> In m (castle_moves (abs p)).
Proof.
  intros m Hm Hin Hsafe. apply castle_moves_relax. split; [exact Hin|].
  destruct (made_facts zk EKZ p HWF HC m Hm) as (_ & _ & _ & _ & _ & Hex & Hun). fold w in Hex, Hun.
  destruct (WF_parts p HWF) as [Hl _]. fold b in Hl.
  cbn [abs sp_white sp_board]. fold w b. cbv zeta.
  set (r := (if w then 0 else 7)%Z).
  assert (Hr : (r = 0 \/ r = 7)%Z) by (unfold r; destruct w; auto).
  assert (Hob : forall f, (0 <= f <= 7)%Z -> on_board f r = true)
    by (intros f Hf; unfold on_board; rewrite !andb_true_iff, !Z.leb_le; lia).
  (* the preconditions carried by membership in the relaxed castling list *)
  unfold castle_moves_pseudo in Hin. cbn [abs sp_board sp_white] in Hin. fold w b in Hin. cbv beta zeta in Hin. fold r in Hin.
  destruct (is_piece w King (at_ b 4 r) && negb (attacked_by b (negb w) 4 r)) eqn:E0; [|destruct Hin].
  apply andb_true_iff in E0. destruct E0 as [EK _]. rewrite is_piece_eqb in EK. apply N.eqb_eq in EK.
  assert (HcK : has_color (negb w) (mk_piece w King) = false) by (destruct w; reflexivity).
  assert (HcR : has_color (negb w) (mk_piece w Rook) = false) by (destruct w; reflexivity).
  assert (HnK : (mk_piece w King =? EMPTY) = false) by (destruct w; reflexivity).
  assert (HnR : (mk_piece w Rook =? EMPTY) = false) by (destruct w; reflexivity).
  assert (H4 : sq_of 4 r < 64) by (apply sq_of_coords, Hob; lia).
  assert (Hget : forall f, (0 <= f <= 7)%Z -> at_ b f r = nth (N.to_nat (sq_of f r)) b EMPTY).
  { intros f Hf. unfold at_. rewrite (Hob f Hf). destruct (sq_of_coords f r (Hob f Hf)) as [_ [_ [_ ->]]]. reflexivity. }
  (* board after castling, explicitly *)
  assert (Hboard : forall kside : bool,
            at_ b (if kside then 6 else 2)%Z r = EMPTY ->
            sp_board (make_spec (abs p) (mv 4 r (if kside then 6 else 2)%Z r EMPTY)) =
            updN (sq_of (if kside then 5 else 3)%Z r) (mk_piece w Rook)
              (updN (sq_of (if kside then 7 else 0)%Z r) EMPTY
                 (updN (sq_of (if kside then 6 else 2)%Z r) (mk_piece w King) (updN (sq_of 4 r) EMPTY b)))).
  { intros kside Hte.
    assert (Ht : sq_of (if kside then 6 else 2)%Z r < 64) by (apply sq_of_coords, Hob; destruct kside; lia).
    unfold mv. rewrite (make_spec_board (abs p) (mkMove (sq_of 4 r) (sq_of (if kside then 6 else 2)%Z r) EMPTY) H4 Ht). cbv zeta. cbn [mfrom mto mpromote abs sp_board sp_white]. fold w b.
    rewrite <- (Hget 4%Z) by lia. rewrite EK.
    replace (nth (N.to_nat (sq_of (if kside then 6 else 2)%Z r)) b EMPTY) with EMPTY
      by (rewrite <- Hget by (destruct kside; lia); symmetry; exact Hte).
    replace (is_piece w Pawn (mk_piece w King)) with false by (destruct w; reflexivity).
    replace (is_piece w King (mk_piece w King)) with true by (destruct w; reflexivity).
    assert (Hz4 : zf (sq_of 4 r) = 4%Z /\ zr (sq_of 4 r) = r) by (split; apply sq_of_coords, Hob; lia).
    assert (Hzt : zf (sq_of (if kside then 6 else 2)%Z r) = (if kside then 6 else 2)%Z)
      by (apply sq_of_coords, Hob; destruct kside; lia).
    destruct Hz4 as [-> ->]. rewrite Hzt. cbn [andb]. change (EMPTY =? EMPTY) with true. cbv iota.
    destruct kside; reflexivity. }
  apply in_app_iff in Hin. destruct Hin as [Hin|Hin]; apply In_single_if in Hin; destruct Hin as [Hc ->].
  - (* king side *)
    rewrite !andb_true_iff in Hc. destruct Hc as [[[[_ HR] H5] H6] _].
    rewrite is_piece_eqb in HR. apply N.eqb_eq in HR, H5, H6.
    split; [|intro E; unfold mv in E; injection E as E; exfalso; unfold sq_of in E; destruct Hr; lia].
    intros _. rewrite (Hboard true H6) in Hsafe, Hex, Hun.
    assert (H6' : sq_of 6 r < 64) by (apply sq_of_coords, Hob; lia).
    assert (Hk6 : nth (N.to_nat (sq_of 6 r))
              (updN (sq_of 5 r) (mk_piece w Rook) (updN (sq_of 7 r) EMPTY (updN (sq_of 6 r) (mk_piece w King) (updN (sq_of 4 r) EMPTY b))))
              EMPTY = mk_piece w King).
    { rewrite !nth_updN_neq by (unfold sq_of; lia). apply nth_updN_eq. rewrite length_updN. unfold sq_of. lia. }
    unfold in_checkb in Hsafe. rewrite (find_king_spec _ w _ H6' Hk6 Hun) in Hsafe.
    destruct (sq_of_coords 6 r (Hob 6%Z ltac:(lia))) as [_ [Hzf [Hzr _]]]. rewrite Hzf, Hzr in Hsafe.
    rewrite (castle_attack_kingside b (negb w) r _ _ Hl Hr EK H5 H6 HR HcK HcR HnK HnR) in Hsafe. exact Hsafe.
  - (* queen side *)
    rewrite !andb_true_iff in Hc. destruct Hc as [[[[[_ HR] H1] H2] H3] _].
    rewrite is_piece_eqb in HR. apply N.eqb_eq in HR, H1, H2, H3.
    split; [intro E; unfold mv in E; injection E as E; exfalso; unfold sq_of in E; destruct Hr; lia|].
    intros _. rewrite (Hboard false H2) in Hsafe, Hex, Hun.
    assert (H2' : sq_of 2 r < 64) by (apply sq_of_coords, Hob; lia).
    assert (Hk2 : nth (N.to_nat (sq_of 2 r))
              (updN (sq_of 3 r) (mk_piece w Rook) (updN (sq_of 0 r) EMPTY (updN (sq_of 2 r) (mk_piece w King) (updN (sq_of 4 r) EMPTY b))))
              EMPTY = mk_piece w King).
    { rewrite !nth_updN_neq by (unfold sq_of; lia). apply nth_updN_eq. rewrite length_updN. unfold sq_of. lia. }
    unfold in_checkb in Hsafe. rewrite (find_king_spec _ w _ H2' Hk2 Hun) in Hsafe.
    destruct (sq_of_coords 2 r (Hob 2%Z ltac:(lia))) as [_ [Hzf [Hzr _]]]. rewrite Hzf, Hzr in Hsafe.
    rewrite (castle_attack_queenside b (negb w) r _ _ Hl Hr EK H3 H2 H1 HR HcK HcR HnK HnR) in Hsafe. exact Hsafe.
Qed.

(** a pseudo-legal move passes the king test iff it is a legal move of chess *)
Theorem safe_iff_legal : forall m, In m (pseudoLegalMoves p) ->
  (in_checkb (sp_board (make_spec (abs p) m)) w = false <-> legal_spec (abs p) m).
Proof.
  intros m Hm. split.
  - intro Hsafe. split; [|exact Hsafe].
    pose proof (proj1 (pseudoLegalMoves_spec p m HWF) Hm) as He. unfold pseudo_moves_engine in He.
    apply in_app_iff in He. unfold pseudo_moves. apply in_app_iff.
    destruct He as [He|He]; [left; exact He | right; apply castle_safe_is_spec; assumption].
  - intros [_ Hs]. exact Hs.
Qed.

Theorem tryMove_legal : forall m, In m (pseudoLegalMoves p) ->
  (snd (tryMove zk p m) = true <-> legal_spec (abs p) m) /\ normEmpty (fst (tryMove zk p m)) = normEmpty p.
Proof.
  intros m Hm. destruct (tryMove_spec zk EKZ p HWF HC m Hm) as [Hv Hr]. split; [|exact Hr].
  rewrite Hv, negb_true_iff. apply safe_iff_legal. exact Hm.
Qed.

Theorem tryMoveB_legal : forall m, In m (pseudoLegalMoves p) ->
  (snd (tryMoveB p m) = true <-> legal_spec (abs p) m).
Proof.
  intros m Hm. destruct (tryMoveB_spec zk EKZ p HWF HC m Hm) as [Hv _].
  rewrite Hv, negb_true_iff. apply safe_iff_legal. exact Hm.
Qed.

(** C01_legal_exact for the list obtained without the king-ray shortcut *)
Theorem legal_exact_noshortcut : forall m,
  In m (filter (fun m => snd (tryMove zk p m)) (pseudoLegalMoves p)) <-> legal_spec (abs p) m.
Proof.
  intro m. rewrite filter_In. split.
  - intros [Hm Ht]. apply (tryMove_legal m Hm). exact Ht.
  - intro Hl. assert (Hm : In m (pseudoLegalMoves p)) by (apply (pseudo_exact_all p m HWF); exact Hl).
    split; [exact Hm|]. apply (tryMove_legal m Hm). exact Hl.
Qed.
End Legal.
