(** MoveGen::givesCheck, facts shared by the three special branches (promotion, en passant,
    castling): the opponent's king after ANY legal move, the Spec's verdict as an attack test
    on the position after the move, the attack test as "some square holds an attacker", the
    two ray walks (nextPiece towards the king, nextPieceSafe away from a square) for any
    legal move, and the shape of pawn moves (push / capture / e.p.). *)
From Coq Require Import ZArith NArith List Bool Lia.
From Texel Require Import Chess.Types Chess.Position Chess.PositionSpec Chess.PositionFacts Chess.PositionProofs
  Chess.PositionProofs2 Chess.PositionProofs4 Chess.PositionTheorems Chess.PositionB
  Chess.BitBoard Chess.MoveGen Chess.Spec Chess.MoveGenWF
  Chess.BitBoardProofs Chess.RayProofs Chess.MoveGenProofs Chess.AttackProofs Chess.SliderProofs Chess.PawnProofs
  Chess.PseudoProofs Chess.MakeSpecProofs Chess.TryMoveProofs Chess.CastleProofs Chess.LegalProofs Chess.ShortcutProofs
  Chess.IsLegalProofs Chess.CapturesProofs Chess.NoDupProofs Chess.WfProofs Chess.IsLegalFull Chess.EvasionsIn Chess.IsLegalAll
  Chess.RemoveIllegalIndep Chess.EvasionsComplete Chess.GivesCheckProofs gen.BitBoardTables.
Import ListNotations.
Local Open Scope N_scope.

(** * "square k is attacked by side w in position x" as the existence of an attacker *)
Definition AttBy (x : position) (w : bool) (k y : square) : Prop :=
  y < 64 /\
  ((getPiece x y = myPiece w WKNIGHT /\ N.testbit (knightAttacks k) y = true) \/
   (getPiece x y = myPiece w WKING /\ N.testbit (kingAttacks k) y = true) \/
   (getPiece x y = myPiece w WPAWN /\ N.testbit (patkOf w k) y = true) \/
   ((getPiece x y = myPiece w WBISHOP \/ getPiece x y = myPiece w WQUEEN) /\ bishopAligned k y = true /\ N.land (SB k y) (occupiedBB x) = 0) \/
   ((getPiece x y = myPiece w WROOK \/ getPiece x y = myPiece w WQUEEN) /\ rookAligned k y = true /\ N.land (SB k y) (occupiedBB x) = 0)).

Lemma pt_iff : forall x (w : bool) X y, BoardOK x -> In X [1; 2; 3; 4; 5; 6] ->
  (N.testbit (ptBB x (myPiece w X)) y = true <-> y < 64 /\ getPiece x y = myPiece w X).
Proof.
  intros x w X y HB HX. rewrite (BoardOK_ptBB x _ y HB (myPiece_codes w X HX)).
  rewrite andb_true_iff, N.ltb_lt, N.eqb_eq. tauto.
Qed.

Lemma att_iff : forall x (w : bool) k, BoardOK x -> k < 64 ->
  (sqAttackedT (negb w) x k (occupiedBB x) = true <-> exists y, AttBy x w k y).
Proof.
  intros x w k HB Hk. rewrite sqAttackedT_iff, negb_involutive. fold (patkOf w k).
  assert (I1 : In WKING [1; 2; 3; 4; 5; 6]) by (cbn; tauto). assert (I2 : In WQUEEN [1; 2; 3; 4; 5; 6]) by (cbn; tauto).
  assert (I3 : In WROOK [1; 2; 3; 4; 5; 6]) by (cbn; tauto). assert (I4 : In WBISHOP [1; 2; 3; 4; 5; 6]) by (cbn; tauto).
  assert (I5 : In WKNIGHT [1; 2; 3; 4; 5; 6]) by (cbn; tauto). assert (I6 : In WPAWN [1; 2; 3; 4; 5; 6]) by (cbn; tauto).
  unfold AttBy. split.
  - intros [[y [A B]]|[[y [A B]]|[[y [A B]]|[[y [A B]]|[y [A B]]]]]].
    + apply (pt_iff x w _ y HB I5) in B. exists y. split; [apply B|]. left. split; [apply B | exact A].
    + apply (pt_iff x w _ y HB I1) in B. exists y. split; [apply B|]. right. left. split; [apply B | exact A].
    + apply (pt_iff x w _ y HB I6) in B. exists y. split; [apply B|]. right. right. left. split; [apply B | exact A].
    + apply (bishopAttacks_testbit k _ y Hk) in A. destruct A as (Hy & Hal & Hz). exists y. split; [exact Hy|].
      right. right. right. left. split; [|auto].
      destruct B as [B|B]; [apply (pt_iff x w _ y HB I4) in B; left; apply B | apply (pt_iff x w _ y HB I2) in B; right; apply B].
    + apply (rookAttacks_testbit k _ y Hk) in A. destruct A as (Hy & Hal & Hz). exists y. split; [exact Hy|].
      right. right. right. right. split; [|auto].
      destruct B as [B|B]; [apply (pt_iff x w _ y HB I3) in B; left; apply B | apply (pt_iff x w _ y HB I2) in B; right; apply B].
  - intros [y [Hy [[E A]|[[E A]|[[E A]|[[E [Hal Hz]]|[E [Hal Hz]]]]]]]].
    + left. exists y. split; [exact A | apply (pt_iff x w _ y HB I5); auto].
    + right. left. exists y. split; [exact A | apply (pt_iff x w _ y HB I1); auto].
    + right. right. left. exists y. split; [exact A | apply (pt_iff x w _ y HB I6); auto].
    + right. right. right. left. exists y. split; [apply (bishopAttacks_testbit k _ y Hk); auto|].
      destruct E as [E|E]; [left; apply (pt_iff x w _ y HB I4); auto | right; apply (pt_iff x w _ y HB I2); auto].
    + right. right. right. right. exists y. split; [apply (rookAttacks_testbit k _ y Hk); auto|].
      destruct E as [E|E]; [left; apply (pt_iff x w _ y HB I3); auto | right; apply (pt_iff x w _ y HB I2); auto].
Qed.

Lemma myPiece_own : forall (w : bool) X, In X [1; 2; 3; 4; 5; 6] -> has_color w (myPiece w X) = true /\ myPiece w X <> EMPTY.
Proof. intros w X HX. cbn [In] in HX. destruct w; repeat (destruct HX as [<-|HX]; [split; [reflexivity | discriminate]|]); destruct HX. Qed.

Lemma myPiece_mk : forall w : bool,
  myPiece w WKING = mk_piece w King /\ myPiece w WQUEEN = mk_piece w Queen /\ myPiece w WROOK = mk_piece w Rook /\
  myPiece w WBISHOP = mk_piece w Bishop /\ myPiece w WKNIGHT = mk_piece w Knight /\ myPiece w WPAWN = mk_piece w Pawn.
Proof. intros [|]; repeat split; reflexivity. Qed.

Section Common.
Variable p : position.
Hypothesis HWF : WF p.
Variable m : move.
Hypothesis Hleg : legal_spec (abs p) m.
Let w := whiteMove p.
Let oks := kingSq p (negb w).
Let occ := occupiedBB p.
Let q := fst (makeMove zkDummy p m).

Lemma c_ok : moveOk p m = true.
Proof. pose proof (leg_facts zkDummy p HWF m Hleg) as (_ & (_ & Hok & _) & _). exact Hok. Qed.

Lemma c_landing_own : has_color w (landing p m) = true.
Proof.
  pose proof (moveOk_facts p m c_ok) as F. cbv zeta in F. destruct F as (Hf & Ht & Hne & Hown & Hcapn & Hpro & _). fold w in Hown, Hpro.
  unfold landing. destruct (N.eqb_spec (mpromote m) EMPTY) as [E|E].
  - rewrite <- (ownPiece_has_color w _ (BoardOK_le12 p _ (gHBp p HWF))). exact Hown.
  - destruct (Hpro E) as [_ Ho]. unfold ownPiece, isWhitePiece, isBlackPiece in Ho.
    assert (Hle : mpromote m <= 12) by (destruct w; apply andb_true_iff in Ho; destruct Ho as [A B]; apply N.leb_le in A, B; lia).
    rewrite <- (ownPiece_has_color w _ Hle). exact Ho.
Qed.

Lemma c_oks : oks < 64 /\ getPiece p oks = mk_piece (negb w) King /\ oks <> mfrom m /\ oks <> mto m /\
  getPiece q oks = mk_piece (negb w) King.
Proof.
  destruct (kingSq_spec p (negb w) HWF) as [Hk Hkp]. fold oks in Hk, Hkp. destruct (g_move p HWF m Hleg) as (_ & _ & _ & Hown & _).
  assert (N1 : oks <> mfrom m) by (intro E; rewrite <- E, Hkp in Hown; destruct (whiteMove p); discriminate).
  assert (N2 : oks <> mto m) by (intro E; apply (cap_not_king zkDummy p HWF m Hleg (negb w)); rewrite <- E; exact Hkp).
  repeat split; try assumption.
  pose proof (gWFq p HWF m Hleg) as WFq. fold q in WFq.
  destruct (kingSq_spec q (negb w) WFq) as [Hk' Hkq].
  assert (E : kingSq q (negb w) = oks).
  { destruct (q_cases zkDummy p HWF m Hleg (kingSq q (negb w))) as [C|[C|[C|[Et C]]]]; fold q in C; rewrite Hkq in C.
    - apply (king_unique p (negb w) _ _ HWF Hk' Hk (eq_sym C) Hkp).
    - exfalso. exact (mk_piece_nonempty _ _ C).
    - exfalso. fold w in C. destruct w; discriminate.
    - exfalso. pose proof c_landing_own as Ho. rewrite <- C in Ho. destruct w; discriminate. }
  rewrite <- E. exact Hkq.
Qed.

(** the Spec's verdict as the engine's attack test on the position after the move *)
Lemma c_spec : gives_check_spec (abs p) m = sqAttackedT (negb w) q oks (occupiedBB q).
Proof.
  destruct c_oks as (Hk & _ & _ & _ & HkQ). pose proof (gWFq p HWF m Hleg) as WFq. fold q in WFq.
  pose proof (leg_facts zkDummy p HWF m Hleg) as (_ & _ & _ & Esq & _). fold q in Esq.
  unfold gives_check_spec. cbv zeta.
  replace (sp_white (make_spec (abs p) m)) with (negb w) by reflexivity.
  rewrite <- Esq. unfold in_checkb.
  rewrite (find_king_spec (squares q) (negb w) oks Hk HkQ)
    by (intros s1 s2 H1 H2 K1 K2; apply (king_unique q (negb w) s1 s2 WFq H1 H2 K1 K2)).
  symmetry. apply (sqAttacked_spec q (negb w) oks WFq Hk).
Qed.

Lemma c_spec_iff : gives_check_spec (abs p) m = true <-> exists y, AttBy q w oks y.
Proof. rewrite c_spec. apply att_iff; [exact (gHBq p HWF m Hleg) | apply c_oks]. Qed.

(** the opponent is not in check before the move *)
Lemma c_before : forall y, AttBy p w oks y -> False.
Proof.
  intros y Hy. destruct c_oks as (Hk & Hkp & _).
  assert (H : sqAttackedT (negb w) p oks occ = true) by (apply att_iff; [exact (gHBp p HWF) | exact Hk | exists y; exact Hy]).
  destruct (WF_parts p HWF) as [_ [_ [_ [_ Hacc]]]]. destruct (accepted_parts _ Hacc) as (_ & _ & _ & _ & Hnc & _).
  cbn [abs sp_board sp_white] in Hnc. fold w in Hnc. unfold in_checkb in Hnc.
  rewrite (find_king_spec (squares p) (negb w) oks Hk Hkp) in Hnc
    by (intros s1 s2 H1 H2 K1 K2; apply (king_unique p (negb w) s1 s2 HWF H1 H2 K1 K2)).
  rewrite <- (sqAttacked_spec p (negb w) oks HWF Hk) in Hnc. fold occ in Hnc. congruence.
Qed.

Lemma c_oKing : (if w then BKING else WKING) = mk_piece (negb w) King.
Proof. destruct w; reflexivity. Qed.

(** nextPiece towards the opponent's king *)
Lemma c_np_king : forall s, s < 64 -> rayDir (getDirection s oks) = true ->
  (nextPiece p s (getDirection s oks) =? mk_piece (negb w) King) = (N.land (SB s oks) occ =? 0).
Proof.
  intros s Hs Hr. destruct c_oks as (Hk & Hkp & _).
  apply (nextPiece_king p (gHBp p HWF) (mk_piece (negb w) King) oks Hk Hkp); [apply mk_piece_nonempty | | exact Hs | exact Hr].
  intros s0 Hs0 E. apply (king_unique p (negb w) s0 oks HWF Hs0 Hk E Hkp).
Qed.

Lemma c_piece_is_king : forall s, (getPiece p s =? mk_piece (negb w) King) = (s =? oks).
Proof.
  intro s. destruct c_oks as (Hk & Hkp & _).
  destruct (N.eqb_spec s oks) as [->|Ne]; [rewrite Hkp; apply N.eqb_refl|].
  apply N.eqb_neq. intro E. apply Ne. destruct (N.lt_ge_cases s 64) as [Hs|Hs].
  - apply (king_unique p (negb w) s oks HWF Hs Hk E Hkp).
  - exfalso. unfold getPiece in E. destruct (WF_parts p HWF) as [Hl _]. rewrite nth_overflow in E by lia.
    symmetry in E. exact (mk_piece_nonempty _ _ E).
Qed.

(** the first piece behind a square, away from the king *)
Lemma c_behind : forall f X, f < 64 -> rayDir (getDirection f oks) = true -> In X [1; 2; 3; 4; 5; 6] ->
  (nextPieceSafe p f (- getDirection f oks) = myPiece w X <->
   exists y, y < 64 /\ getDirection f y = (- getDirection f oks)%Z /\ getPiece p y = myPiece w X /\ N.land (SB f y) occ = 0).
Proof.
  intros f X Hf Hr HX. apply (behind_iff p f _ (myPiece w X) (gHBp p HWF) Hf); [rewrite rayDir_neg; exact Hr | apply myPiece_own; exact HX].
Qed.

Lemma c_occ : forall x s, BoardOK x -> s < 64 -> N.testbit (occupiedBB x) s = negb (getPiece x s =? EMPTY).
Proof. intros x s HB Hs. rewrite (occupied_testbit_B x s HB). replace (s <? 64) with true by (symmetry; apply N.ltb_lt; exact Hs). reflexivity. Qed.

(** * Pawn moves: push, or capture onto an enemy piece / the e.p. square *)
Lemma c_pawn_kinds : getPiece p (mfrom m) = mk_piece w Pawn ->
  (exists k, (k = 8 \/ k = 16) /\ (Z.of_N (mfrom m) - Z.of_N (mto m) = delta w k)%Z) \/
  (exists k, (k = 7 \/ k = 9) /\ (Z.of_N (mfrom m) - Z.of_N (mto m) = delta w k)%Z /\
             N.testbit (N.lor (colorBB p (negb w)) (epMaskOf p)) (mto m) = true /\
             N.testbit (if k =? (if w then 7 else 9) then maskAToGFiles else maskBToHFiles) (mto m) = true).
Proof.
  intro Hpc. destruct (g_move p HWF m Hleg) as (Hf & Ht & _).
  pose proof (HmP p HWF m Hleg) as Hm. rewrite pseudo_list in Hm by exact HWF.
  destruct (bounds p HWF) as (Hp & H1 & H2 & H3 & H4 & _).
  assert (Hcls : cls p m = (200 + (Z.of_N (mfrom m) - Z.of_N (mto m)))%Z).
  { unfold cls. cbv zeta. fold w. rewrite Hpc. replace (mk_piece w Pawn =? mk_piece w King) with false by (destruct w; reflexivity).
    rewrite N.eqb_refl. reflexivity. }
  assert (Hloop : forall X (g : square -> N), In X [2; 3; 4; 5] -> In m (loopMoves (ptBB p (myPiece w X)) g) -> False).
  { intros X g HX Hin. pose proof (loop_cls p HWF X g m HX Hin) as Hc. fold w in Hc. rewrite Hcls in Hc.
    assert (Hb : (Z.of_N (myPiece w X) <= 12)%Z) by (cbn [In] in HX; destruct HX as [<-|[<-|[<-|[<-|[]]]]]; unfold w; destruct (whiteMove p); cbn; lia).
    lia. }
  (apply in_app_or in Hm; destruct Hm as [Hm|Hm]); [|(apply in_app_or in Hm; destruct Hm as [Hm|Hm]); [|(apply in_app_or in Hm; destruct Hm as [Hm|Hm]); [|(apply in_app_or in Hm; destruct Hm as [Hm|Hm]); [|(apply in_app_or in Hm; destruct Hm as [Hm|Hm]); [|(apply in_app_or in Hm; destruct Hm as [Hm|Hm]); [|(apply in_app_or in Hm; destruct Hm as [Hm|Hm]); [|(apply in_app_or in Hm; destruct Hm as [Hm|Hm]); [|(apply in_app_or in Hm; destruct Hm as [Hm|Hm])]]]]]]]].
  - exfalso. exact (Hloop WQUEEN _ ltac:(cbn; tauto) Hm).
  - exfalso. exact (Hloop WROOK _ ltac:(cbn; tauto) Hm).
  - exfalso. exact (Hloop WBISHOP _ ltac:(cbn; tauto) Hm).
  - exfalso. pose proof (lK_cls p HWF m Hm) as Hc. rewrite Hcls in Hc. lia.
  - exfalso. pose proof (lC_cls p HWF m Hm) as Hc. rewrite Hcls in Hc. lia.
  - exfalso. exact (Hloop WKNIGHT _ ltac:(cbn; tauto) Hm).
  - left. exists 8. split; [auto|]. pose proof (lP1_cls p HWF m Hm) as Hc. fold w in Hc. rewrite Hcls in Hc. lia.
  - left. exists 16. split; [auto|]. pose proof (lP2_cls p HWF m Hm) as Hc. fold w in Hc. rewrite Hcls in Hc. lia.
  - right. exists (if w then 7 else 9). split; [destruct w; auto|]. pose proof (lP3_cls p HWF m Hm) as Hc. fold w in Hc. rewrite Hcls in Hc.
    split; [lia|]. unfold lP3 in Hm. apply pawnTo_In in Hm; [|exact H3]. destruct Hm as [Hb _]. rewrite !N.land_spec in Hb. rewrite !andb_true_iff in Hb.
    split; [apply Hb|]. rewrite N.eqb_refl. apply Hb.
  - right. exists (if w then 9 else 7). split; [destruct w; auto|]. pose proof (lP4_cls p HWF m Hm) as Hc. fold w in Hc. rewrite Hcls in Hc.
    split; [lia|]. unfold lP4 in Hm. apply pawnTo_In in Hm; [|exact H4]. destruct Hm as [Hb _]. rewrite !N.land_spec in Hb. rewrite !andb_true_iff in Hb.
    split; [apply Hb|]. replace ((if w then 9 else 7) =? (if w then 7 else 9)) with false by (unfold w; destruct (whiteMove p); reflexivity). apply Hb.
Qed.

(** a pawn that changes file onto an empty square moves onto the e.p. square *)
Lemma c_ep_square : isEp p m = true -> Z.of_N (mto m) = epSquare p.
Proof.
  intro H. unfold isEp in H. fold w in H. rewrite !andb_true_iff in H. destruct H as [[Hpc Hfile] Hemp].
  rewrite is_piece_eqb in Hpc. apply N.eqb_eq in Hpc, Hemp. apply negb_true_iff, Z.eqb_neq in Hfile.
  destruct (g_move p HWF m Hleg) as (Hf & Ht & _).
  destruct (c_pawn_kinds Hpc) as [(k & Hk & Hd)|(k & Hk & Hd & Hb & _)].
  - exfalso. apply Hfile. apply (zf_shift _ _ (- (delta w k / 8))). unfold delta in *. destruct Hk as [-> | ->]; destruct w; cbn in *; lia.
  - rewrite N.lor_spec, (colorBB_testbit p _ _ HWF), Hemp in Hb.
    replace (has_color (negb w) EMPTY) with false in Hb by (destruct w; reflexivity). rewrite andb_false_r in Hb. cbn [orb] in Hb.
    unfold epMaskOf in Hb. destruct (Z.leb_spec 0 (epSquare p)) as [Hge|Hlt]; [|rewrite N.bits_0 in Hb; discriminate].
    rewrite bit_testbit in Hb. apply N.eqb_eq in Hb. lia.
Qed.

(** a pawn move that changes file: one file aside, one rank ahead, onto an enemy piece or the e.p. square *)
Lemma c_capture_shape : getPiece p (mfrom m) = mk_piece w Pawn -> zf (mto m) <> zf (mfrom m) ->
  (zf (mto m) = zf (mfrom m) - 1 \/ zf (mto m) = zf (mfrom m) + 1)%Z /\ (zr (mto m) = zr (mfrom m) + (if w then 1 else -1))%Z.
Proof.
  intros Hpc Hfile. destruct (g_move p HWF m Hleg) as (Hf & Ht & _).
  destruct (c_pawn_kinds Hpc) as [(k & Hk & Hd)|(k & Hk & Hd & _ & Hmask)].
  - exfalso. apply Hfile. apply (zf_shift _ _ (- (delta w k / 8))). unfold delta in *. destruct Hk as [-> | ->]; destruct w; cbn in *; lia.
  - destruct (masks_spec (mto m) Ht) as (_ & _ & _ & MA & MB).
    destruct (sq_decomp _ Hf) as (Ef & Hff & Hfr). destruct (sq_decomp _ Ht) as (Et & Htf & Htr).
    unfold delta in Hd. destruct Hk as [-> | ->]; unfold w in *; destruct (whiteMove p); cbn [N.eqb Pos.eqb] in Hmask; cbn in Hd;
      rewrite ?MA, ?MB in Hmask; apply negb_true_iff, Z.eqb_neq in Hmask; lia.
Qed.

(** the promotion piece *)
Lemma c_promo : mpromote m <> EMPTY ->
  getPiece p (mfrom m) = myPiece w WPAWN /\ isEp p m = false /\ isCK p m = false /\ isCQ p m = false /\
  exists X, In X [2; 3; 4; 5] /\ mpromote m = myPiece w X.
Proof.
  intro Hpro. pose proof c_ok as Hok. pose proof (moveOk_facts p m Hok) as F. cbv zeta in F.
  destruct F as (Hf & Ht & Hne & Hown & Hcapn & Hp & Hepf & _). fold w in Hown, Hp, Hepf.
  destruct (Hp Hpro) as [Hpc Ho].
  assert (Epc : getPiece p (mfrom m) = myPiece w WPAWN) by (rewrite Hpc; destruct w; reflexivity).
  assert (Epc2 : getPiece p (mfrom m) = mk_piece w Pawn) by (rewrite Hpc; destruct w; reflexivity).
  split; [exact Epc|]. split; [|split; [|split]].
  - destruct (isEp p m) eqn:E; [|reflexivity]. exfalso. apply Hpro. apply (Hepf Hpc). apply c_ep_square. exact E.
  - unfold isCK. fold w. rewrite Epc2, is_piece_eqb. replace (mk_piece w Pawn =? mk_piece w King) with false by (destruct w; reflexivity). reflexivity.
  - unfold isCQ. fold w. rewrite Epc2, is_piece_eqb. replace (mk_piece w Pawn =? mk_piece w King) with false by (destruct w; reflexivity). reflexivity.
  - rewrite moveOk_parts in Hok. rewrite !andb_true_iff in Hok. destruct Hok as [[[_ Hpr] _] _].
    unfold okPromo in Hpr. cbv zeta in Hpr. fold w in Hpr.
    replace (mpromote m =? EMPTY) with false in Hpr by (symmetry; apply N.eqb_neq; exact Hpro).
    rewrite !andb_true_iff, !negb_true_iff, !N.eqb_neq in Hpr. destruct Hpr as [[[_ Ho2] Hnp] Hnk].
    unfold ownPiece, isWhitePiece, isBlackPiece in Ho2. unfold myPiece.
    destruct w; apply andb_true_iff in Ho2; destruct Ho2 as [A B]; apply N.leb_le in A, B.
    + assert (C : mpromote m = 2 \/ mpromote m = 3 \/ mpromote m = 4 \/ mpromote m = 5) by (unfold WPAWN, WKING in *; lia).
      destruct C as [C|[C|[C|C]]]; [exists 2 | exists 3 | exists 4 | exists 5]; (split; [cbn; tauto | exact C]).
    + assert (C : mpromote m = 8 \/ mpromote m = 9 \/ mpromote m = 10 \/ mpromote m = 11) by (unfold BPAWN, BKING in *; lia).
      destruct C as [C|[C|[C|C]]]; [exists 2 | exists 3 | exists 4 | exists 5]; (split; [cbn; tauto | rewrite C; reflexivity]).
Qed.

Lemma c_mine : forall X y, In X [1; 2; 3; 4; 5; 6] -> (mine p X y <-> y < 64 /\ getPiece p y = myPiece w X).
Proof. intros X y HX. unfold mine. fold w. apply pt_iff; [exact (gHBp p HWF) | exact HX]. Qed.

(** the generic discovered-check test (second block of givesCheck) for ANY legal move *)
Theorem c_r2 : gcR2 p m = true <-> DiscP p m.
Proof.
  destruct c_oks as (Hk & Hkp & Nkf & Nkt & _).
  destruct (g_move p HWF m Hleg) as (Hf & Ht & Hne & Hown & Hcapn). fold w in Hown, Hcapn.
  pose proof (gHBp p HWF) as HB.
  assert (I2 : In WQUEEN [1; 2; 3; 4; 5; 6]) by (cbn; tauto). assert (I3 : In WROOK [1; 2; 3; 4; 5; 6]) by (cbn; tauto).
  assert (I4 : In WBISHOP [1; 2; 3; 4; 5; 6]) by (cbn; tauto).
  pose proof (myPiece_own w) as Hownc.
  unfold gcR2, DiscP. cbv zeta. fold w oks occ. rewrite c_oKing.
  set (f := mfrom m) in *. set (t := mto m) in *.
  set (d1 := getDirection t oks). set (d2 := getDirection f oks).
  destruct (G0 f oks Hf Hk) as (_ & _ & ESB & _). change SB with squaresBetween in ESB.
  split.
  - intro H.
    destruct (Z.eqb_spec d2 0) as [|Hd20]; [discriminate|]. destruct (Z.eqb_spec d2 d1) as [|Hd21]; [discriminate|]. cbn [negb andb] in H.
    destruct (nextPiece p f d2 =? mk_piece (negb w) King) eqn:Enp; [|discriminate].
    assert (Hcase : (isRookDir d2 = true /\ (nextPieceSafe p f (- d2) = myPiece w WQUEEN \/ nextPieceSafe p f (- d2) = myPiece w WROOK)) \/
                    (isRookDir d2 = false /\ isBishopDir d2 = true /\ (nextPieceSafe p f (- d2) = myPiece w WQUEEN \/ nextPieceSafe p f (- d2) = myPiece w WBISHOP))).
    { destruct (isRookDir d2); [left; split; [reflexivity|] | right; split; [reflexivity|]; destruct (isBishopDir d2); [split; [reflexivity|] | discriminate]];
        apply orb_true_iff in H; destruct H as [H|H]; apply N.eqb_eq in H; auto. }
    assert (Hr : rayDir d2 = true) by (unfold rayDir; destruct Hcase as [[-> _]|[_ [-> _]]]; [reflexivity | apply orb_true_r]).
    pose proof (c_np_king f Hf Hr) as NPf. fold d2 in NPf. rewrite NPf in Enp. apply N.eqb_eq in Enp.
    assert (Hbehind : exists X y, (X = WQUEEN \/ (isRookDir d2 = true /\ X = WROOK) \/ (isRookDir d2 = false /\ isBishopDir d2 = true /\ X = WBISHOP)) /\
                        In X [1; 2; 3; 4; 5; 6] /\ y < 64 /\ getDirection f y = (- d2)%Z /\ getPiece p y = myPiece w X /\ N.land (SB f y) occ = 0).
    { assert (Hb : forall X, In X [1; 2; 3; 4; 5; 6] -> nextPieceSafe p f (- d2) = myPiece w X ->
                exists y, y < 64 /\ getDirection f y = (- d2)%Z /\ getPiece p y = myPiece w X /\ N.land (SB f y) occ = 0).
      { intros X HX E. apply (behind_iff p f (- d2) (myPiece w X) HB Hf); [rewrite rayDir_neg; exact Hr | apply Hownc; exact HX | exact E]. }
      destruct Hcase as [[Er [E|E]]|[Er [Eb [E|E]]]].
      - destruct (Hb WQUEEN I2 E) as [y Hy]. exists WQUEEN, y. split; [left; reflexivity | split; [exact I2 | exact Hy]].
      - destruct (Hb WROOK I3 E) as [y Hy]. exists WROOK, y. split; [right; left; auto | split; [exact I3 | exact Hy]].
      - destruct (Hb WQUEEN I2 E) as [y Hy]. exists WQUEEN, y. split; [left; reflexivity | split; [exact I2 | exact Hy]].
      - destruct (Hb WBISHOP I4 E) as [y Hy]. exists WBISHOP, y. split; [right; right; auto | split; [exact I4 | exact Hy]]. }
    destruct Hbehind as (X & y & HXc & HX & Hy & Hdy & Hpy & Hzy).
    pose proof (H6 f oks y Hf Hk Hy Hr Hdy) as Hbf.
    destruct (H3 oks y f Hk Hy Hf Hbf) as (E1 & _ & _ & ER & EB & _ & CB). fold d2 in ER, EB.
    exists y. split; [exact Hy|].
    assert (Nyt : y <> t).
    { intro E. rewrite E in Hpy. rewrite Hpy in Hcapn. destruct (Hownc X HX) as [Hc _]. congruence. }
    assert (Nyf : y <> f).
    { intro E. subst y. destruct (G0 oks f Hk Hf) as (_ & A & _). congruence. }
    assert (Hbt : N.testbit (SB oks y) t = false).
    { rewrite E1, !N.lor_spec, bit_testbit. apply orb_false_iff. split; [apply orb_false_iff; split|].
      - destruct (N.testbit (SB oks f) t) eqn:E; [|reflexivity]. exfalso. apply Hd21. symmetry.
        apply (H1 f oks t Hf Hk Ht). change SB with squaresBetween in E |- *. rewrite <- ESB. exact E.
      - apply N.eqb_neq. exact Hne.
      - destruct (N.testbit (SB f y) t) eqn:E; [|reflexivity]. exfalso. apply Hd21. symmetry. apply (CB t Ht E). }
    split; [exact Nyt|]. split; [exact Nyf|]. split; [exact Hbf|]. split; [exact Hbt|]. split.
    + intros x Hx Nx. rewrite E1, !N.lor_spec, bit_testbit in Hx. apply orb_true_iff in Hx. destruct Hx as [Hx|Hx]; [apply orb_true_iff in Hx; destruct Hx as [Hx|Hx]|].
      * rewrite land_zero_iff in Enp. apply Enp. change SB with squaresBetween in Hx |- *. rewrite <- ESB. exact Hx.
      * apply N.eqb_eq in Hx. congruence.
      * rewrite land_zero_iff in Hzy. apply Hzy. exact Hx.
    + assert (Hmine : mine p X y) by (apply (c_mine X y HX); auto).
      destruct HXc as [->|[[Er ->]|[Er [Eb ->]]]].
      * destruct (isRookDir d2) eqn:Er; [left; split; [symmetry; exact ER | right; exact Hmine]|].
        right. split; [|right; exact Hmine]. rewrite <- EB. unfold rayDir in Hr. rewrite Er in Hr. exact Hr.
      * left. split; [rewrite <- ER; exact Er | left; exact Hmine].
      * right. split; [rewrite <- EB; exact Eb | left; exact Hmine].
  - intros (y & Hy & Nyt & Nyf & Hbf & Hbt & Hall & Hs).
    destruct (H3 oks y f Hk Hy Hf Hbf) as (E1 & Edy & Hr & ER & EB & CA & _). fold d2 in Edy, Hr, ER, EB, CA.
    assert (Hd20 : (d2 =? 0)%Z = false).
    { unfold rayDir in Hr. apply orb_true_iff in Hr. destruct (dir_excl d2) as [A B]. destruct Hr as [Hr|Hr]; [apply (A Hr) | apply (B Hr)]. }
    assert (Hocc_y : N.testbit occ y = true).
    { assert (Hpy : exists X, In X [1; 2; 3; 4; 5; 6] /\ mine p X y) by (destruct Hs as [[_ [Hm|Hm]]|[_ [Hm|Hm]]]; eauto).
      destruct Hpy as (X & HX & Hm). apply (c_mine X y HX) in Hm. destruct Hm as [_ Hp].
      unfold occ. rewrite (occupied_testbit_B p y HB), Hp. replace (y <? 64) with true by (symmetry; apply N.ltb_lt; exact Hy).
      cbn [andb]. apply negb_true_iff, N.eqb_neq. apply Hownc. exact HX. }
    assert (Hd21 : (d2 =? d1)%Z = false).
    { apply Z.eqb_neq. intro E. pose proof (CA t Ht (eq_sym E) (not_eq_sym Hne) Hbt (not_eq_sym Nyt)) as Hyb.
      pose proof (path_clear p HWF m (gHm p HWF m Hleg)) as Hpc. fold f t occ in Hpc. rewrite land_zero_iff in Hpc. specialize (Hpc y Hyb). congruence. }
    rewrite Hd20, Hd21. cbn [negb andb].
    assert (Hnp : N.land (SB f oks) occ = 0).
    { apply land_zero_iff. intros x Hx. change SB with squaresBetween in Hx. rewrite <- ESB in Hx.
      apply Hall; [rewrite E1, !N.lor_spec; change SB with squaresBetween; rewrite Hx; reflexivity|].
      intro E. subst x. destruct (G0 oks f Hk Hf) as (_ & A & _). change SB with squaresBetween in A. congruence. }
    pose proof (c_np_king f Hf Hr) as NPf. fold d2 in NPf. rewrite NPf, Hnp, N.eqb_refl.
    assert (Hzy : N.land (SB f y) occ = 0).
    { apply land_zero_iff. intros x Hx. apply Hall; [rewrite E1, !N.lor_spec, Hx; apply orb_true_r|].
      intro E. subst x. destruct (G0 f y Hf Hy) as (A & _). congruence. }
    assert (Hp2 : forall X, In X [1; 2; 3; 4; 5; 6] -> mine p X y -> nextPieceSafe p f (- d2) = myPiece w X).
    { intros X HX Hm. apply (c_mine X y HX) in Hm. destruct Hm as [_ Hp].
      apply (behind_iff p f (- d2) (myPiece w X) HB Hf); [rewrite rayDir_neg; exact Hr | apply Hownc; exact HX|].
      exists y. auto. }
    destruct Hs as [[Hal Hm]|[Hal Hm]].
    + rewrite ER, Hal. destruct Hm as [Hm|Hm]; [rewrite (Hp2 WROOK I3 Hm) | rewrite (Hp2 WQUEEN I2 Hm)]; rewrite N.eqb_refl; [apply orb_true_r | reflexivity].
    + assert (Er : isRookDir d2 = false) by (destruct (dir_excl d2) as [_ B]; apply B; rewrite EB; exact Hal).
      rewrite Er, EB, Hal. destruct Hm as [Hm|Hm]; [rewrite (Hp2 WBISHOP I4 Hm) | rewrite (Hp2 WQUEEN I2 Hm)]; rewrite N.eqb_refl; [apply orb_true_r | reflexivity].
Qed.

End Common.
