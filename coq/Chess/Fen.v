(** Executable model of TextIO::readFEN / fixupEPSquare / toFEN (lib/texellib/textio.cpp) and of
    the helpers they use (str2Num = std::stoi, num2Str, MoveGen::inCheck as a mailbox attack
    test).  Strings are lists of byte values ([N], 0..255).  No proofs here. *)
From Coq Require Import ZArith NArith List Bool.
From Texel Require Import Chess.Types Chess.Position.
Import ListNotations.
Local Open Scope N_scope.

Definition str := list N.

Inductive fenError :=
| ErrTooManyRows | ErrInvalidPiece | ErrTooManyColumns | ErrPawnRank | ErrInvalidSide
| ErrInvalidCastle | ErrInvalidEp | ErrWhiteKing | ErrBlackKing | ErrKingCapture.

Inductive fenResult := FenOk (p : position) | FenErr (e : fenError).

(* ---------- characters ---------- *)
Definition ch_space : N := 32.  Definition ch_slash : N := 47.  Definition ch_dash : N := 45.
Definition ch_0 : N := 48.      Definition ch_a : N := 97.      Definition ch_1 : N := 49.
Definition ch_w : N := 119.     Definition ch_b : N := 98.      Definition ch_plus : N := 43.

(** the switch of readFEN on a piece letter *)
Definition fenCharToPiece (c : N) : option piece :=
  if c =? 80 then Some WPAWN else if c =? 78 then Some WKNIGHT else if c =? 66 then Some WBISHOP
  else if c =? 82 then Some WROOK else if c =? 81 then Some WQUEEN else if c =? 75 then Some WKING
  else if c =? 112 then Some BPAWN else if c =? 110 then Some BKNIGHT else if c =? 98 then Some BBISHOP
  else if c =? 114 then Some BROOK else if c =? 113 then Some BQUEEN else if c =? 107 then Some BKING
  else None.

(** the switch of toFEN *)
Definition pieceToFenChar (pc : piece) : N :=
  nth (N.to_nat pc) [63; 75; 81; 82; 66; 78; 80; 107; 113; 114; 98; 110; 112] 63.

(* ---------- numbers ---------- *)
(** std::stoi: leading isspace characters, optional sign, at least one digit, stops at the
    first non-digit; fails when no digit was read or the value does not fit [int] *)
Definition isSpaceC (c : N) : bool := (c =? 32) || ((9 <=? c) && (c <=? 13)).
Definition isDigit (c : N) : bool := (48 <=? c) && (c <=? 57).
Fixpoint skipSpaceC (s : str) : str :=
  match s with
  | c :: t => if isSpaceC c then skipSpaceC t else s
  | [] => []
  end.
Fixpoint digitsVal (s : str) (acc : Z) (n : nat) : Z * nat :=
  match s with
  | c :: t => if isDigit c then digitsVal t (acc * 10 + Z.of_N (c - 48))%Z (S n) else (acc, n)
  | [] => (acc, n)
  end.
Definition stoi (s : str) : option Z :=
  let s := skipSpaceC s in
  let '(neg, s) := match s with
                   | c :: t => if c =? ch_dash then (true, t) else if c =? ch_plus then (false, t) else (false, s)
                   | [] => (false, s)
                   end in
  let '(v, n) := digitsVal s 0%Z O in
  match n with
  | O => None
  | _ => let v := if neg then (- v)%Z else v in if fitsInt v then Some v else None
  end.

(** num2Str on an [int]: decimal, '-' for negatives *)
Fixpoint digitsOfP (fuel : nat) (z : Z) (acc : str) : str :=
  match fuel with
  | O => acc
  | S f => let acc := (48 + Z.to_N (z mod 10))%N :: acc in
           if (z <? 10)%Z then acc else digitsOfP f (z / 10)%Z acc
  end.
(** fuel: number of binary digits + 1 is more than the number of decimal digits *)
Definition num2Str (z : Z) : str :=
  if (z <? 0)%Z then ch_dash :: digitsOfP (S (Z.to_nat (Z.log2 (- z) + 1))) (- z)%Z []
  else digitsOfP (S (Z.to_nat (Z.log2 z + 1))) z [].

(* ---------- attack test (meaning of MoveGen::sqAttacked, mailbox style) ---------- *)
Definition onBoard (x y : Z) : bool := ((0 <=? x) && (x <? 8) && (0 <=? y) && (y <? 8))%Z.
Definition pieceAtXY (p : position) (x y : Z) : piece :=
  if onBoard x y then getPiece p (Z.to_N (y * 8 + x)) else EMPTY.

(** first piece met from (x,y) exclusive in direction (dx,dy) *)
Fixpoint rayPiece (p : position) (fuel : nat) (x y dx dy : Z) : piece :=
  match fuel with
  | O => EMPTY
  | S f => let x' := (x + dx)%Z in let y' := (y + dy)%Z in
           if onBoard x' y' then
             let pc := pieceAtXY p x' y' in
             if pc =? EMPTY then rayPiece p f x' y' dx dy else pc
           else EMPTY
  end.

Definition knightDeltas : list (Z * Z) := [(1,2);(2,1);(2,-1);(1,-2);(-1,-2);(-2,-1);(-2,1);(-1,2)]%Z.
Definition kingDeltas : list (Z * Z) := [(1,0);(1,1);(0,1);(-1,1);(-1,0);(-1,-1);(0,-1);(1,-1)]%Z.
Definition rookDirs : list (Z * Z) := [(1,0);(0,1);(-1,0);(0,-1)]%Z.
Definition bishopDirs : list (Z * Z) := [(1,1);(-1,1);(-1,-1);(1,-1)]%Z.

(** is square [sq] attacked by the side [byWhite]? *)
Definition attackedBy (p : position) (sq : square) (byWhite : bool) : bool :=
  let x := Z.of_N (sqX sq) in let y := Z.of_N (sqY sq) in
  let KN := if byWhite then WKNIGHT else BKNIGHT in
  let KI := if byWhite then WKING else BKING in
  let PA := if byWhite then WPAWN else BPAWN in
  let QU := if byWhite then WQUEEN else BQUEEN in
  let RO := if byWhite then WROOK else BROOK in
  let BI := if byWhite then WBISHOP else BBISHOP in
  existsb (fun d => pieceAtXY p (x + fst d) (y + snd d) =? KN) knightDeltas ||
  existsb (fun d => pieceAtXY p (x + fst d) (y + snd d) =? KI) kingDeltas ||
  (* a white pawn attacks upwards: it stands one rank below the target *)
  (let py := if byWhite then (y - 1)%Z else (y + 1)%Z in
   (pieceAtXY p (x - 1) py =? PA) || (pieceAtXY p (x + 1) py =? PA)) ||
  existsb (fun d => let pc := rayPiece p 7 x y (fst d) (snd d) in (pc =? QU) || (pc =? RO)) rookDirs ||
  existsb (fun d => let pc := rayPiece p 7 x y (fst d) (snd d) in (pc =? QU) || (pc =? BI)) bishopDirs.

(** MoveGen::inCheck: the king of the side to move is attacked *)
Definition inCheck (p : position) : bool :=
  attackedBy p (getKingSq p (whiteMove p)) (negb (whiteMove p)).

Definition countPiece (p : position) (pc : piece) : nat :=
  length (filter (fun q => q =? pc) (squares p)).

Section WithKeys.
Variable zk : zkeys.

(* ---------- fixupEPSquare ---------- *)
(** an en-passant capture from file [fx] is a legal move: own pawn stands beside the target,
    and after making the capture the own king is not attacked *)
Definition epCaptureLegalFrom (p : position) (fx : Z) : bool :=
  let ep := epSquare p in
  let wtm := whiteMove p in
  let ex := Z.land ep 7 in let ey := Z.shiftr ep 3 in
  let fy := if wtm then (ey - 1)%Z else (ey + 1)%Z in
  let PA := if wtm then WPAWN else BPAWN in
  if onBoard fx fy && (pieceAtXY p fx fy =? PA) then
    let m := mkMove (Z.to_N (fy * 8 + fx)) (Z.to_N ep) EMPTY in
    let p' := fst (makeMove zk p m) in
    negb (attackedBy p' (getKingSq p' wtm) (negb wtm))
  else false.

Definition fixupEPSquare (p : position) : position :=
  let ep := epSquare p in
  if negb (ep =? -1)%Z then
    let ex := Z.land ep 7 in
    if epCaptureLegalFrom p (ex - 1) || epCaptureLegalFrom p (ex + 1) then p
    else setEpSquare zk p (-1)%Z
  else p.

(* ---------- readFEN ---------- *)
Fixpoint skipSpaces (s : str) : str :=
  match s with
  | c :: t => if c =? ch_space then skipSpaces t else s
  | [] => []
  end.
(** split at the first space: (token, rest starting at the space) *)
Fixpoint token (s : str) : str * str :=
  match s with
  | c :: t => if c =? ch_space then ([], s) else let '(a, b) := token t in (c :: a, b)
  | [] => ([], [])
  end.

(** TextIO::safeSetPiece *)
Definition safeSetPiece (p : position) (col row : Z) (pc : piece) : fenResult :=
  if (7 <? col)%Z then FenErr ErrTooManyColumns
  else if ((pc =? WPAWN) || (pc =? BPAWN)) && ((row =? 0)%Z || (row =? 7)%Z) then FenErr ErrPawnRank
  else FenOk (setPiece zk p (Z.to_N (row * 8 + col)) pc).

(** the piece placement loop; returns the position and the rest of the string (at the space) *)
Fixpoint readPlacement (s : str) (p : position) (row col : Z) : fenError + (position * str) :=
  match s with
  | [] => inr (p, [])
  | c :: t =>
    if c =? ch_space then inr (p, s)
    else if (49 <=? c) && (c <=? 56) then readPlacement t p row (col + Z.of_N (c - 48))%Z
    else if c =? ch_slash then
      let row := (row - 1)%Z in
      if (row <? 0)%Z then inl ErrTooManyRows else readPlacement t p row 0%Z
    else match fenCharToPiece c with
         | Some pc => match safeSetPiece p col row pc with
                      | FenErr e => inl e
                      | FenOk p' => readPlacement t p' row (col + 1)%Z
                      end
         | None => inl ErrInvalidPiece
         end
  end.

(** the castling flag loop; returns mask and rest (at the space) *)
Fixpoint readCastle (s : str) (mask : N) : fenError + (N * str) :=
  match s with
  | [] => inr (mask, [])
  | c :: t =>
    if c =? ch_space then inr (mask, s)
    else if c =? 75 then readCastle t (N.lor mask 2)
    else if c =? 81 then readCastle t (N.lor mask 1)
    else if c =? 107 then readCastle t (N.lor mask 8)
    else if c =? 113 then readCastle t (N.lor mask 4)
    else if c =? ch_dash then readCastle t mask
    else inl ErrInvalidCastle
  end.

(** TextIO::getSquare on the two characters; [char] is signed *)
Definition scharVal (c : N) : Z := if c <? 128 then Z.of_N c else (Z.of_N c - 256)%Z.
Definition getSquare (c0 c1 : N) : Z :=
  let x := (scharVal c0 - 97)%Z in let y := (scharVal c1 - 49)%Z in
  if (x <? 0)%Z || (7 <? x)%Z || (y <? 0)%Z || (7 <? y)%Z then (-1)%Z else (y * 8 + x)%Z.

Definition fixCastleMask (p : position) (cm : N) : N :=
  let cm := if negb (getPiece p E1 =? WKING) || negb (getPiece p H1 =? WROOK) then N.ldiff cm 2 else cm in
  let cm := if negb (getPiece p E1 =? WKING) || negb (getPiece p A1 =? WROOK) then N.ldiff cm 1 else cm in
  let cm := if negb (getPiece p E8 =? BKING) || negb (getPiece p H8 =? BROOK) then N.ldiff cm 8 else cm in
  let cm := if negb (getPiece p E8 =? BKING) || negb (getPiece p A8 =? BROOK) then N.ldiff cm 4 else cm in
  cm.

(** the en-passant field; [s] starts at the field (non-empty); returns position or error *)
Definition readEp (p : position) (s : str) : fenError + position :=
  match s with
  | c0 :: t =>
    if negb (c0 =? ch_dash) then
      match t with
      | [] => inl ErrInvalidEp
      | c1 :: _ =>
        let epSq := getSquare c0 c1 in
        if negb (epSq =? -1)%Z then
          let e := Z.to_N epSq in
          let epSq :=
            if whiteMove p then
              if negb (Z.shiftr epSq 3 =? 5)%Z || negb (getPiece p e =? EMPTY) ||
                 negb (getPiece p (e - 8) =? BPAWN) then (-1)%Z else epSq
            else
              if negb (Z.shiftr epSq 3 =? 2)%Z || negb (getPiece p e =? EMPTY) ||
                 negb (getPiece p (e + 8) =? WPAWN) then (-1)%Z else epSq in
          inr (setEpSquare zk p epSq)
        else inr p
      end
    else inr p
  | [] => inr p
  end.

(** the half-move clock and move number fields ([s] starts after the e.p. field) *)
Definition fenCounters (p : position) (s : str) : position :=
  let s := skipSpaces s in
  let '(tok, s) := token s in
  let p := match tok with
           | [] => p
           | _ => match stoi tok with Some v => setHalfMoveClock p v | None => p end
           end in
  let s := skipSpaces s in
  let '(tok, s) := token s in
  match tok with
  | [] => p
  | _ => match stoi tok with Some v => setFullMoveCounter p v | None => p end
  end.

(** the checks at the end of readFEN and the e.p. fix-up *)
Definition fenFinish (p : position) : fenResult :=
  if negb (Nat.eqb (countPiece p WKING) 1) then FenErr ErrWhiteKing
  else if negb (Nat.eqb (countPiece p BKING) 1) then FenErr ErrBlackKing
  else
    let p2 := setWhiteMove zk p (negb (whiteMove p)) in
    if inCheck p2 then FenErr ErrKingCapture
    else FenOk (fixupEPSquare p).

Definition readFEN (fen : str) : fenResult :=
  match readPlacement fen (emptyPosition zk) 7%Z 0%Z with
  | inl e => FenErr e
  | inr (p, s) =>
    let s := skipSpaces s in
    match s with
    | [] => FenErr ErrInvalidSide
    | c :: s =>
      let p := setWhiteMove zk p (c =? ch_w) in
      let s := skipSpaces s in
      match readCastle s 0 with
      | inl e => FenErr e
      | inr (cm, s) =>
        let p := setCastleMask zk p (fixCastleMask p cm) in
        let s := skipSpaces s in
        match (match s with [] => inr p | _ => readEp p s end) with
        | inl e => FenErr e
        | inr p => fenFinish (fenCounters p (snd (token s)))
        end
      end
    end
  end.

End WithKeys.

(* ---------- toFEN ---------- *)
Definition fenRow (p : position) (r : N) : str :=
  let '(out, numEmpty) :=
    fold_left (fun (st : str * N) (c : nat) =>
                 let '(out, numEmpty) := st in
                 let pc := getPiece p (mkSq (N.of_nat c) r) in
                 if pc =? EMPTY then (out, numEmpty + 1)
                 else
                   let out := if 0 <? numEmpty then out ++ [48 + numEmpty] else out in
                   (out ++ [pieceToFenChar pc], 0))
              (seq 0 8) ([], 0) in
  if 0 <? numEmpty then out ++ [48 + numEmpty] else out.

Definition castleMaskToString (cm : N) : str :=
  let s := (if N.testbit cm 1 then [75] else []) ++ (if N.testbit cm 0 then [81] else []) ++
           (if N.testbit cm 3 then [107] else []) ++ (if N.testbit cm 2 then [113] else []) in
  match s with [] => [ch_dash] | _ => s end.

Definition toFEN (p : position) : str :=
  let rows := flat_map (fun k : nat => let r := 7 - N.of_nat k in
                                       fenRow p r ++ (if 0 <? r then [ch_slash] else []))
                       (seq 0 8) in
  rows ++ (if whiteMove p then [ch_space; ch_w; ch_space] else [ch_space; ch_b; ch_space]) ++
  castleMaskToString (castleMask p) ++ [ch_space] ++
  (if negb (epSquare p =? -1)%Z then
     [ch_a + Z.to_N (Z.land (epSquare p) 7); ch_1 + Z.to_N (Z.shiftr (epSquare p) 3)]
   else [ch_dash]) ++
  [ch_space] ++ num2Str (halfMoveClock p) ++ [ch_space] ++ num2Str (fullMoveCounter p).
