(** Executable model of lib/texellib/position.{hpp,cpp} and material.{hpp,cpp}
    (shared by C01, C02, C15, C17, ...).  Written line-for-line like the C++.  No proofs here.

    Conventions
    - squares are [N] 0..63, "no square" (Square(-1)) only occurs in [epSquare : Z];
    - U64 values are [N]; [x &= ~m] is [N.ldiff x m], [|=] is [N.lor], [^=] is [N.lxor]
      (all stay below 2^64 when the operands are);
    - C++ [int] is exact [Z]; whether a value fits the 32-bit [int] is said by [fitsInt];
    - every function is total; sites where the C++ indexes an array are collected in the boolean
      companions [*_inb] (true iff every index is inside its array and every [int] result fits);
      the theorems of C02_no_ub show the companions are true on well-formed inputs.
    - Zobrist tables are a record [zkeys] passed as first argument of the operations that
      maintain hash keys.  Chess/PositionInst.v instantiates it with the tables dumped from
      the engine on every run. *)
From Coq Require Import ZArith NArith List Bool.
From Texel Require Import Chess.Types.
Import ListNotations.
Local Open Scope N_scope.

(* ------------------------------------------------------------------ *)
(** * Small helpers *)

Fixpoint updL {A : Type} (n : nat) (x : A) (l : list A) : list A :=
  match l, n with
  | [], _ => []
  | _ :: t, O => x :: t
  | h :: t, S n' => h :: updL n' x t
  end.
Definition updN {A : Type} (n : N) (x : A) (l : list A) : list A := updL (N.to_nat n) x l.

Definition sqMask (s : square) : N := N.shiftl 1 s.               (* 1ULL << sq *)

Definition INT_MIN : Z := (-2147483648)%Z.
Definition INT_MAX : Z := 2147483647%Z.
Definition fitsInt (z : Z) : bool := ((INT_MIN <=? z) && (z <=? INT_MAX))%Z.
(** value of an out-of-range [int] on the two's-complement hardware the engine runs on
    (what the harness observes when the accumulator has overflowed) *)
Definition wrapInt (z : Z) : Z := ((z + 2147483648) mod 4294967296 - 2147483648)%Z.

(** number of one bits (BitBoard::bitCount) *)
Fixpoint popcountP (p : positive) : N :=
  match p with
  | xH => 1
  | xO q => popcountP q
  | xI q => 1 + popcountP q
  end.
Definition bitCount (n : N) : N := match n with N0 => 0 | Npos p => popcountP p end.

(** lowest set bit (BitUtil::firstBit); the C++ result is unspecified for 0, the model says 64 *)
Fixpoint ctzP (p : positive) : N :=
  match p with
  | xO q => 1 + ctzP q
  | _ => 0
  end.
Definition firstBit (n : N) : N := match n with N0 => 64 | Npos p => ctzP p end.

(* ------------------------------------------------------------------ *)
(** * Constants of the code (checked against the engine's tables on every run) *)

(** parameters.hpp: pV nV bV rV qV kV, wired into pieceValue[] by ComputerPlayer::initEngine *)
Definition pV : Z := 100%Z.
Definition nV : Z := 398%Z.
Definition bV : Z := 398%Z.
Definition rV : Z := 607%Z.
Definition qV : Z := 1254%Z.
Definition kV : Z := 9900%Z.
Definition pieceValueTbl : list Z := [0; kV; qV; rV; bV; nV; pV; kV; qV; rV; bV; nV; pV]%Z.
Definition pieceValue (pc : piece) : Z := nth (N.to_nat pc) pieceValueTbl 0%Z.

(** material.hpp / material.cpp *)
Definition MatId_WP : Z := 1%Z.
Definition MatId_WR : Z := 9%Z.
Definition MatId_WN : Z := 91%Z.
Definition MatId_WB : Z := 767%Z.
Definition MatId_WQ : Z := 5903%Z.
Definition MatId_BP : Z := Z.shiftl 1 16.
Definition MatId_BR : Z := Z.shiftl 9 16.
Definition MatId_BN : Z := Z.shiftl 91 16.
Definition MatId_BB : Z := Z.shiftl 767 16.
Definition MatId_BQ : Z := Z.shiftl 5903 16.
Definition materialIdTbl : list Z :=
  [0; 0; MatId_WQ; MatId_WR; MatId_WB; MatId_WN; MatId_WP;
      0; MatId_BQ; MatId_BR; MatId_BB; MatId_BN; MatId_BP]%Z.
Definition materialId (pc : piece) : Z := nth (N.to_nat pc) materialIdTbl 0%Z.
(** MatId::addPiece / removePiece on the exact accumulator *)
Definition matAdd (h : Z) (pc : piece) : Z := (h + materialId pc)%Z.
Definition matRemove (h : Z) (pc : piece) : Z := (h - materialId pc)%Z.
(** MatId::mirror (unsigned 32-bit arithmetic) *)
Definition matMirror (h : Z) : Z :=
  let ret := (h mod 4294967296)%Z in
  wrapInt (Z.lor (Z.shiftr ret 16) (Z.shiftl (Z.land ret 65535) 16)).

(** Position::staticInitialize: castleSqMask *)
Definition A1 : square := 0.   Definition E1 : square := 4.   Definition H1 : square := 7.
Definition A8 : square := 56.  Definition E8 : square := 60.  Definition H8 : square := 63.
Definition castleSqMask (sq : square) : N :=
  if sq =? A1 then 14 else if sq =? E1 then 12 else if sq =? H1 then 13
  else if sq =? A8 then 11 else if sq =? E8 then 3 else if sq =? H8 then 7 else 15.

(** BitBoard::staticInitialize: epMaskW / epMaskB *)
Definition epMaskW (f : N) : N :=
  N.lor (if 0 <? f then sqMask (mkSq (f - 1) 3) else 0) (if f <? 7 then sqMask (mkSq (f + 1) 3) else 0).
Definition epMaskB (f : N) : N :=
  N.lor (if 0 <? f then sqMask (mkSq (f - 1) 4) else 0) (if f <? 7 then sqMask (mkSq (f + 1) 4) else 0).

(** Zobrist tables (position.cpp) *)
Record zkeys := mkZKeys {
  zk_ps : list (list N);        (* psHashKeys[piece][square], 13 x 64 *)
  zk_white : N;                 (* whiteHashKey *)
  zk_castle : list N;           (* castleHashKeys[16] *)
  zk_ep : list N;               (* epHashKeys[9] *)
  zk_moveCnt : list N;          (* moveCntKeys[101] *)
  zk_empty : N                  (* hashEmpty *)
}.

Definition psKey (zk : zkeys) (pc : piece) (sq : square) : N :=
  nth (N.to_nat sq) (nth (N.to_nat pc) (zk_ps zk) []) 0.
Definition castleKey (zk : zkeys) (cm : N) : N := nth (N.to_nat cm) (zk_castle zk) 0.
(** epHashKeys[epSquare.isValid() ? epSquare.getX() + 1 : 0] *)
Definition epIndex (ep : Z) : N := if (ep =? -1)%Z then 0 else Z.to_N (Z.land ep 7) + 1.
Definition epKey (zk : zkeys) (ep : Z) : N := nth (N.to_nat (epIndex ep)) (zk_ep zk) 0.
Definition moveCntKey (zk : zkeys) (i : Z) : N := nth (Z.to_nat i) (zk_moveCnt zk) 0.

(* ------------------------------------------------------------------ *)
(** * Field setters (record update) *)

Definition set_squares (p : position) (v : list piece) : position :=
  mkPos v (pieceTypeBB p) (whiteBB p) (blackBB p) (whiteMove p) (halfMoveClock p) (fullMoveCounter p)
        (castleMask p) (epSquare p) (hashKey p) (pHashKey p) (matId p) (wMtrl p) (bMtrl p) (wMtrlPawns p) (bMtrlPawns p).
Definition set_pieceTypeBB (p : position) (v : list N) : position :=
  mkPos (squares p) v (whiteBB p) (blackBB p) (whiteMove p) (halfMoveClock p) (fullMoveCounter p)
        (castleMask p) (epSquare p) (hashKey p) (pHashKey p) (matId p) (wMtrl p) (bMtrl p) (wMtrlPawns p) (bMtrlPawns p).
Definition set_whiteBB (p : position) (v : N) : position :=
  mkPos (squares p) (pieceTypeBB p) v (blackBB p) (whiteMove p) (halfMoveClock p) (fullMoveCounter p)
        (castleMask p) (epSquare p) (hashKey p) (pHashKey p) (matId p) (wMtrl p) (bMtrl p) (wMtrlPawns p) (bMtrlPawns p).
Definition set_blackBB (p : position) (v : N) : position :=
  mkPos (squares p) (pieceTypeBB p) (whiteBB p) v (whiteMove p) (halfMoveClock p) (fullMoveCounter p)
        (castleMask p) (epSquare p) (hashKey p) (pHashKey p) (matId p) (wMtrl p) (bMtrl p) (wMtrlPawns p) (bMtrlPawns p).
Definition set_whiteMove (p : position) (v : bool) : position :=
  mkPos (squares p) (pieceTypeBB p) (whiteBB p) (blackBB p) v (halfMoveClock p) (fullMoveCounter p)
        (castleMask p) (epSquare p) (hashKey p) (pHashKey p) (matId p) (wMtrl p) (bMtrl p) (wMtrlPawns p) (bMtrlPawns p).
Definition set_halfMoveClock (p : position) (v : Z) : position :=
  mkPos (squares p) (pieceTypeBB p) (whiteBB p) (blackBB p) (whiteMove p) v (fullMoveCounter p)
        (castleMask p) (epSquare p) (hashKey p) (pHashKey p) (matId p) (wMtrl p) (bMtrl p) (wMtrlPawns p) (bMtrlPawns p).
Definition set_fullMoveCounter (p : position) (v : Z) : position :=
  mkPos (squares p) (pieceTypeBB p) (whiteBB p) (blackBB p) (whiteMove p) (halfMoveClock p) v
        (castleMask p) (epSquare p) (hashKey p) (pHashKey p) (matId p) (wMtrl p) (bMtrl p) (wMtrlPawns p) (bMtrlPawns p).
Definition set_castleMask (p : position) (v : N) : position :=
  mkPos (squares p) (pieceTypeBB p) (whiteBB p) (blackBB p) (whiteMove p) (halfMoveClock p) (fullMoveCounter p)
        v (epSquare p) (hashKey p) (pHashKey p) (matId p) (wMtrl p) (bMtrl p) (wMtrlPawns p) (bMtrlPawns p).
Definition set_epSquare (p : position) (v : Z) : position :=
  mkPos (squares p) (pieceTypeBB p) (whiteBB p) (blackBB p) (whiteMove p) (halfMoveClock p) (fullMoveCounter p)
        (castleMask p) v (hashKey p) (pHashKey p) (matId p) (wMtrl p) (bMtrl p) (wMtrlPawns p) (bMtrlPawns p).
Definition set_hashKey (p : position) (v : N) : position :=
  mkPos (squares p) (pieceTypeBB p) (whiteBB p) (blackBB p) (whiteMove p) (halfMoveClock p) (fullMoveCounter p)
        (castleMask p) (epSquare p) v (pHashKey p) (matId p) (wMtrl p) (bMtrl p) (wMtrlPawns p) (bMtrlPawns p).
Definition set_pHashKey (p : position) (v : N) : position :=
  mkPos (squares p) (pieceTypeBB p) (whiteBB p) (blackBB p) (whiteMove p) (halfMoveClock p) (fullMoveCounter p)
        (castleMask p) (epSquare p) (hashKey p) v (matId p) (wMtrl p) (bMtrl p) (wMtrlPawns p) (bMtrlPawns p).
Definition set_matId (p : position) (v : Z) : position :=
  mkPos (squares p) (pieceTypeBB p) (whiteBB p) (blackBB p) (whiteMove p) (halfMoveClock p) (fullMoveCounter p)
        (castleMask p) (epSquare p) (hashKey p) (pHashKey p) v (wMtrl p) (bMtrl p) (wMtrlPawns p) (bMtrlPawns p).
Definition set_wMtrl (p : position) (v : Z) : position :=
  mkPos (squares p) (pieceTypeBB p) (whiteBB p) (blackBB p) (whiteMove p) (halfMoveClock p) (fullMoveCounter p)
        (castleMask p) (epSquare p) (hashKey p) (pHashKey p) (matId p) v (bMtrl p) (wMtrlPawns p) (bMtrlPawns p).
Definition set_bMtrl (p : position) (v : Z) : position :=
  mkPos (squares p) (pieceTypeBB p) (whiteBB p) (blackBB p) (whiteMove p) (halfMoveClock p) (fullMoveCounter p)
        (castleMask p) (epSquare p) (hashKey p) (pHashKey p) (matId p) (wMtrl p) v (wMtrlPawns p) (bMtrlPawns p).
Definition set_wMtrlPawns (p : position) (v : Z) : position :=
  mkPos (squares p) (pieceTypeBB p) (whiteBB p) (blackBB p) (whiteMove p) (halfMoveClock p) (fullMoveCounter p)
        (castleMask p) (epSquare p) (hashKey p) (pHashKey p) (matId p) (wMtrl p) (bMtrl p) v (bMtrlPawns p).
Definition set_bMtrlPawns (p : position) (v : Z) : position :=
  mkPos (squares p) (pieceTypeBB p) (whiteBB p) (blackBB p) (whiteMove p) (halfMoveClock p) (fullMoveCounter p)
        (castleMask p) (epSquare p) (hashKey p) (pHashKey p) (matId p) (wMtrl p) (bMtrl p) (wMtrlPawns p) v.

(** pieceTypeBB_[pc] &= ~m   and   pieceTypeBB_[pc] |= m *)
Definition bbClear (p : position) (pc : piece) (m : N) : position :=
  set_pieceTypeBB p (updN pc (N.ldiff (ptBB p pc) m) (pieceTypeBB p)).
Definition bbSet (p : position) (pc : piece) (m : N) : position :=
  set_pieceTypeBB p (updN pc (N.lor (ptBB p pc) m) (pieceTypeBB p)).

(* ------------------------------------------------------------------ *)
(** * Accessors *)

Definition wKingSq (p : position) : square := firstBit (ptBB p WKING).
Definition bKingSq (p : position) : square := firstBit (ptBB p BKING).
Definition getKingSq (p : position) (white : bool) : square := if white then wKingSq p else bKingSq p.
Definition nPieces (p : position) : N := bitCount (occupiedBB p).
Definition a1Castle (p : position) : bool := N.testbit (castleMask p) 0.
Definition h1Castle (p : position) : bool := N.testbit (castleMask p) 1.
Definition a8Castle (p : position) : bool := N.testbit (castleMask p) 2.
Definition h8Castle (p : position) : bool := N.testbit (castleMask p) 3.

(** square arithmetic as the C++ does it on [int]; the result is used as a square *)
Definition sqPlus (s : square) (d : Z) : Z := (Z.of_N s + d)%Z.
Definition toSq (z : Z) : square := Z.to_N z.
Definition sqInRange (z : Z) : bool := ((0 <=? z) && (z <? 64))%Z.

(* ------------------------------------------------------------------ *)
(** * The operations that maintain the hash keys *)
Section WithKeys.
Variable zk : zkeys.

(** Position::setWhiteMove *)
Definition setWhiteMove (p : position) (wm : bool) : position :=
  if negb (Bool.eqb wm (whiteMove p)) then
    set_whiteMove (set_hashKey p (N.lxor (hashKey p) (zk_white zk))) wm
  else p.

(** Position::setCastleMask *)
Definition setCastleMask (p : position) (cm : N) : position :=
  if negb (cm =? castleMask p) then
    let p1 := set_hashKey p (N.lxor (hashKey p) (castleKey zk (castleMask p))) in
    let p2 := set_hashKey p1 (N.lxor (hashKey p1) (castleKey zk cm)) in
    set_castleMask p2 cm
  else p.

(** Position::setEpSquare *)
Definition setEpSquare (p : position) (ep : Z) : position :=
  if negb (epSquare p =? ep)%Z then
    let p1 := set_hashKey p (N.lxor (hashKey p) (epKey zk (epSquare p))) in
    let p2 := set_hashKey p1 (N.lxor (hashKey p1) (epKey zk ep)) in
    set_epSquare p2 ep
  else p.

Definition setHalfMoveClock (p : position) (hm : Z) : position := set_halfMoveClock p hm.
Definition setFullMoveCounter (p : position) (fm : Z) : position := set_fullMoveCounter p fm.

(** the "if (removedPiece != Piece::EMPTY) { ... }" block shared by setPiece and clearPiece *)
Definition removedBlock (p : position) (sq : square) (removed : piece) : position :=
  let sqm := sqMask sq in
  if negb (removed =? EMPTY) then
    let pVal := pieceValue removed in
    if isWhite removed then
      let p1 := set_wMtrl p (wMtrl p - pVal)%Z in
      let p2 := set_whiteBB p1 (N.ldiff (whiteBB p1) sqm) in
      if removed =? WPAWN then
        let p3 := set_wMtrlPawns p2 (wMtrlPawns p2 - pVal)%Z in
        set_pHashKey p3 (N.lxor (pHashKey p3) (psKey zk WPAWN sq))
      else p2
    else
      let p1 := set_bMtrl p (bMtrl p - pVal)%Z in
      let p2 := set_blackBB p1 (N.ldiff (blackBB p1) sqm) in
      if removed =? BPAWN then
        let p3 := set_bMtrlPawns p2 (bMtrlPawns p2 - pVal)%Z in
        set_pHashKey p3 (N.lxor (pHashKey p3) (psKey zk BPAWN sq))
      else p2
  else p.

(** the "if (piece != Piece::EMPTY) { ... }" block of setPiece *)
Definition addedBlock (p : position) (sq : square) (pc : piece) : position :=
  let sqm := sqMask sq in
  if negb (pc =? EMPTY) then
    let pVal := pieceValue pc in
    if isWhite pc then
      let p1 := set_wMtrl p (wMtrl p + pVal)%Z in
      let p2 := set_whiteBB p1 (N.lor (whiteBB p1) sqm) in
      if pc =? WPAWN then
        let p3 := set_wMtrlPawns p2 (wMtrlPawns p2 + pVal)%Z in
        set_pHashKey p3 (N.lxor (pHashKey p3) (psKey zk WPAWN sq))
      else p2
    else
      let p1 := set_bMtrl p (bMtrl p + pVal)%Z in
      let p2 := set_blackBB p1 (N.lor (blackBB p1) sqm) in
      if pc =? BPAWN then
        let p3 := set_bMtrlPawns p2 (bMtrlPawns p2 + pVal)%Z in
        set_pHashKey p3 (N.lxor (pHashKey p3) (psKey zk BPAWN sq))
      else p2
  else p.

(** Position::setPiece *)
Definition setPiece (p : position) (sq : square) (pc : piece) : position :=
  let removed := getPiece p sq in
  let p1 := set_squares p (updN sq pc (squares p)) in
  (* Update hash key *)
  let p2 := set_hashKey p1 (N.lxor (hashKey p1) (psKey zk removed sq)) in
  let p3 := set_hashKey p2 (N.lxor (hashKey p2) (psKey zk pc sq)) in
  (* Update material identifier *)
  let p4 := set_matId p3 (matRemove (matId p3) removed) in
  let p5 := set_matId p4 (matAdd (matId p4) pc) in
  (* Update bitboards *)
  let sqm := sqMask sq in
  let p6 := bbClear p5 removed sqm in
  let p7 := bbSet p6 pc sqm in
  let p8 := removedBlock p7 sq removed in
  addedBlock p8 sq pc.

(** Position::clearPiece *)
Definition clearPiece (p : position) (sq : square) : position :=
  let removed := getPiece p sq in
  let p1 := set_squares p (updN sq EMPTY (squares p)) in
  let p2 := set_hashKey p1 (N.lxor (hashKey p1) (psKey zk removed sq)) in
  let p4 := set_matId p2 (matRemove (matId p2) removed) in
  let sqm := sqMask sq in
  let p6 := bbClear p4 removed sqm in
  let p7 := bbSet p6 EMPTY sqm in
  removedBlock p7 sq removed.

(** Position::movePieceNotPawn *)
Definition movePieceNotPawn (p : position) (from to : square) : position :=
  let pc := getPiece p from in
  let p1 := set_hashKey p (N.lxor (hashKey p) (psKey zk pc from)) in
  let p2 := set_hashKey p1 (N.lxor (hashKey p1) (psKey zk pc to)) in
  let p3 := set_squares p2 (updN from EMPTY (squares p2)) in
  let p4 := set_squares p3 (updN to pc (squares p3)) in
  let mF := sqMask from in
  let mT := sqMask to in
  let p5 := bbClear p4 pc mF in
  let p6 := bbSet p5 pc mT in
  if isWhite pc then
    let p7 := set_whiteBB p6 (N.ldiff (whiteBB p6) mF) in
    set_whiteBB p7 (N.lor (whiteBB p7) mT)
  else
    let p7 := set_blackBB p6 (N.ldiff (blackBB p6) mF) in
    set_blackBB p7 (N.lor (blackBB p7) mT).

(** Position::hashAfterMove *)
Definition hashAfterMove (p : position) (m : move) : N :=
  let pc := getPiece p (mfrom m) in
  let capP := getPiece p (mto m) in
  let ret := N.lxor (hashKey p) (zk_white zk) in
  let ret := N.lxor ret (psKey zk capP (mto m)) in
  let ret := N.lxor ret (psKey zk pc (mto m)) in
  N.lxor ret (psKey zk pc (mfrom m)).

(** pieceTypeBB(Piece::WPAWN, Piece::BPAWN) & fromMask, pieceTypeBB(WKING, BKING) & fromMask *)
Definition pawnsAt (p : position) (fromMask : N) : bool :=
  negb (N.land (N.lor (ptBB p WPAWN) (ptBB p BPAWN)) fromMask =? 0).
Definition kingsAt (p : position) (fromMask : N) : bool :=
  negb (N.land (N.lor (ptBB p WKING) (ptBB p BKING)) fromMask =? 0).

(** Position::makeMove, split into the blocks of the C++ function body *)
(** "Handle en passant and epSquare" *)
Definition mmEpBlock (p : position) (m : move) (pc : piece) (prevEpSquare : Z) : position :=
  if pc =? WPAWN then
    if (Z.of_N (mto m) =? sqPlus (mfrom m) 16)%Z then
      let x := sqX (mto m) in
      if negb (N.land (epMaskW x) (ptBB p BPAWN) =? 0) then setEpSquare p (sqPlus (mfrom m) 8) else p
    else if (Z.of_N (mto m) =? prevEpSquare)%Z then clearPiece p (toSq (sqPlus (mto m) (-8)))
    else p
  else if pc =? BPAWN then
    if (Z.of_N (mto m) =? sqPlus (mfrom m) (-16))%Z then
      let x := sqX (mto m) in
      if negb (N.land (epMaskB x) (ptBB p WPAWN) =? 0) then setEpSquare p (sqPlus (mfrom m) (-8)) else p
    else if (Z.of_N (mto m) =? prevEpSquare)%Z then clearPiece p (toSq (sqPlus (mto m) 8))
    else p
  else p.

(** the capture / pawn move branch *)
Definition mmCaptureBranch (p : position) (m : move) (pc : piece) (prevEpSquare : Z) : position :=
  let p := set_halfMoveClock p 0%Z in
  let p := mmEpBlock p m pc prevEpSquare in
  (* Perform move *)
  let p := clearPiece p (mfrom m) in
  setPiece p (mto m) (if negb (mpromote m =? EMPTY) then mpromote m else pc).

(** "Handle castling" *)
Definition mmCastleBlock (p : position) (m : move) (fromMask : N) : position :=
  if kingsAt p fromMask then
    let k0 := mfrom m in
    if (Z.of_N (mto m) =? sqPlus k0 2)%Z then movePieceNotPawn p (toSq (sqPlus k0 3)) (toSq (sqPlus k0 1))
    else if (Z.of_N (mto m) =? sqPlus k0 (-2))%Z then movePieceNotPawn p (toSq (sqPlus k0 (-4))) (toSq (sqPlus k0 (-1)))
    else p
  else p.

(** the quiet branch *)
Definition mmQuietBranch (p : position) (m : move) (fromMask : N) : position :=
  let p := set_halfMoveClock p (halfMoveClock p + 1)%Z in
  let p := mmCastleBlock p m fromMask in
  (* Perform move *)
  movePieceNotPawn p (mfrom m) (mto m).

(** castle mask, move counter, side to move *)
Definition mmEpilogue (p : position) (m : move) (wtm : bool) : position :=
  let p := setCastleMask p (N.land (N.land (castleMask p) (castleSqMask (mfrom m))) (castleSqMask (mto m))) in
  let p := if negb wtm then set_fullMoveCounter p (fullMoveCounter p + 1)%Z else p in
  set_whiteMove p (negb wtm).

Definition makeMove (p : position) (m : move) : position * undoInfo :=
  let ui := mkUndo (getPiece p (mto m)) (castleMask p) (epSquare p) (halfMoveClock p) in
  let wtm := whiteMove p in
  let p := set_hashKey p (N.lxor (hashKey p) (zk_white zk)) in
  let pc := getPiece p (mfrom m) in
  let capP := getPiece p (mto m) in
  let fromMask := sqMask (mfrom m) in
  let prevEpSquare := epSquare p in
  let p := setEpSquare p (-1)%Z in
  let p :=
    if negb (capP =? EMPTY) || pawnsAt p fromMask then mmCaptureBranch p m pc prevEpSquare
    else mmQuietBranch p m fromMask in
  (mmEpilogue p m wtm, ui).

(** Position::unMakeMove, split the same way *)
(** side, pieces on from/to, castle mask, e.p. square, clock *)
Definition umRestore1 (p : position) (m : move) (ui : undoInfo) : position :=
  let p := set_hashKey p (N.lxor (hashKey p) (zk_white zk)) in
  let p := set_whiteMove p (negb (whiteMove p)) in
  let pc := getPiece p (mto m) in
  let p := setPiece p (mto m) (u_captured ui) in
  let p := setPiece p (mfrom m) pc in
  let p := setCastleMask p (u_castleMask ui) in
  let p := setEpSquare p (u_epSquare ui) in
  set_halfMoveClock p (u_halfMoveClock ui).

(** promotion, move counter; returns the position and the piece that moved (a pawn for
    promotions).  [pc] is read before the board is touched: int p = getPiece(move.to()) *)
Definition umRestoreBlock (p : position) (m : move) (ui : undoInfo) : position * piece :=
  let pc := getPiece p (mto m) in
  let p := umRestore1 p m ui in
  let wtm := whiteMove p in
  let '(p, pc) :=
    if negb (mpromote m =? EMPTY) then
      let pc := if wtm then WPAWN else BPAWN in
      (setPiece p (mfrom m) pc, pc)
    else (p, pc) in
  let p := if negb wtm then set_fullMoveCounter p (fullMoveCounter p - 1)%Z else p in
  (p, pc).

(** "Handle castling" *)
Definition umCastleBlock (p : position) (m : move) (pc : piece) : position :=
  let wtm := whiteMove p in
  let king := if wtm then WKING else BKING in
  if pc =? king then
    let k0 := mfrom m in
    if (Z.of_N (mto m) =? sqPlus k0 2)%Z then movePieceNotPawn p (toSq (sqPlus k0 1)) (toSq (sqPlus k0 3))
    else if (Z.of_N (mto m) =? sqPlus k0 (-2))%Z then movePieceNotPawn p (toSq (sqPlus k0 (-1))) (toSq (sqPlus k0 (-4)))
    else p
  else p.

(** "Handle en passant" *)
Definition umEpBlock (p : position) (m : move) (pc : piece) : position :=
  if (Z.of_N (mto m) =? epSquare p)%Z then
    if pc =? WPAWN then setPiece p (toSq (sqPlus (mto m) (-8))) BPAWN
    else if pc =? BPAWN then setPiece p (toSq (sqPlus (mto m) 8)) WPAWN
    else p
  else p.

Definition unMakeMove (p : position) (m : move) (ui : undoInfo) : position :=
  let '(p, pc) := umRestoreBlock p m ui in
  let p := umCastleBlock p m pc in
  umEpBlock p m pc.

(** Position::computeZobristHash: recomputes hashKey, pHashKey and matId from the board *)
Definition zobristStep (acc : N * N * Z) (sqp : N * piece) : N * N * Z :=
  let '(hash, ph, mid) := acc in
  let '(sq, pc) := sqp in
  (N.lxor hash (psKey zk pc sq),
   if (pc =? WPAWN) || (pc =? BPAWN) then N.lxor ph (psKey zk pc sq) else ph,
   matAdd mid pc).

Fixpoint indexFrom {A : Type} (i : N) (l : list A) : list (N * A) :=
  match l with
  | [] => []
  | x :: t => (i, x) :: indexFrom (N.succ i) t
  end.

Definition boardHashes (sqs : list piece) : N * N * Z :=
  fold_left zobristStep (indexFrom 0 sqs) (zk_empty zk, zk_empty zk, 0%Z).

Definition fullHash (p : position) (boardHash : N) : N :=
  let hash := if whiteMove p then N.lxor boardHash (zk_white zk) else boardHash in
  let hash := N.lxor hash (castleKey zk (castleMask p)) in
  N.lxor hash (epKey zk (epSquare p)).

Definition computeZobristHash (p : position) : position :=
  let '(hash, ph, mid) := boardHashes (squares p) in
  let p := set_pHashKey p ph in
  let p := set_matId p mid in
  set_hashKey p (fullHash p hash).

(** Position::historyHash ([maxPieces] = TBProbeData::maxPieces) and bookHash *)
Definition historyHash (maxPieces : Z) (p : position) : N :=
  let ret := hashKey p in
  let hmc := halfMoveClock p in
  if (Z.of_N (nPieces p) <=? maxPieces)%Z then N.lxor ret (moveCntKey zk (Z.min hmc 100))
  else if (40 <=? hmc)%Z then
    if (hmc <? 80)%Z then N.lxor ret (moveCntKey zk (Z.quot hmc 10))
    else N.lxor ret (moveCntKey zk (Z.min hmc 100))
  else ret.

Definition bookHash (p : position) : N :=
  N.lxor (hashKey p) (moveCntKey zk (Z.min (halfMoveClock p) 100)).

Definition kingZobristHash (p : position) : N :=
  N.lxor (psKey zk WKING (wKingSq p)) (psKey zk BKING (bKingSq p)).

(** Position::Position(): the empty board *)
Definition emptyPosition : position :=
  let p := mkPos (repeat EMPTY 64) (repeat 0 13) 0 0 true 0%Z 1%Z 0 (-1)%Z 0 0 0%Z 0%Z 0%Z 0%Z 0%Z in
  let p := computeZobristHash p in
  let p := set_wMtrl p (- kV)%Z in
  set_bMtrl p (- kV)%Z.

(** Position::deSerialize.  Every field is overwritten, so the result does not depend on the
    receiver.  [data] has 5 words. *)
Definition deserStep (st : position * N) (sqv : Z * N) : position * N :=
  (* one iteration of the inner loop: square [sq0+sq], nibble taken from [v] *)
  let '(p, hash) := st in
  let '(sqz, pc) := sqv in
  let square := toSq sqz in
  let p := set_squares p (updN square pc (squares p)) in
  let key := psKey zk pc square in
  let hash := N.lxor hash key in
  let sqm := sqMask square in
  let p := bbSet p pc sqm in
  let p :=
    if negb (pc =? EMPTY) then
      let p := set_matId p (matAdd (matId p) pc) in
      let pVal := pieceValue pc in
      if isWhite pc then
        let p := set_wMtrl p (wMtrl p + pVal)%Z in
        let p := set_whiteBB p (N.lor (whiteBB p) sqm) in
        if pc =? WPAWN then
          let p := set_wMtrlPawns p (wMtrlPawns p + pVal)%Z in
          set_pHashKey p (N.lxor (pHashKey p) key)
        else p
      else
        let p := set_bMtrl p (bMtrl p + pVal)%Z in
        let p := set_blackBB p (N.lor (blackBB p) sqm) in
        if pc =? BPAWN then
          let p := set_bMtrlPawns p (bMtrlPawns p + pVal)%Z in
          set_pHashKey p (N.lxor (pHashKey p) key)
        else p
    else p in
  (p, hash).

(** the 16 (square, nibble) pairs of word [i] in the order the loop visits them (sq = 15..0) *)
Definition wordNibbles (i : N) (v : N) : list (Z * N) :=
  map (fun k : nat => let sq := (15 - N.of_nat k) in
                      (Z.of_N (i * 16 + sq), N.land (N.shiftr v (4 * N.of_nat k)) 15))
      (seq 0 16).

(** the 64 pairs of the four board words, in the order the two nested loops visit them *)
Definition deserPairs (data : list N) : list (Z * N) :=
  wordNibbles 0 (nth 0 data 0) ++ wordNibbles 1 (nth 1 data 0) ++
  wordNibbles 2 (nth 2 data 0) ++ wordNibbles 3 (nth 3 data 0).

(** the state before the loops *)
Definition deserP0 : position :=
  mkPos (repeat EMPTY 64) (repeat 0 13) 0 0 true 0%Z 0%Z 0 (-1)%Z 0 (zk_empty zk) 0%Z (- kV)%Z (- kV)%Z 0%Z 0%Z.

(** the part after the loops: the flag word and the hash key *)
Definition deserFinish (st : position * N) (flags : N) : position :=
  let p := fst st in let hash := snd st in
  let p := set_fullMoveCounter p (Z.of_N (N.land flags 65535)) in
  let flags := N.shiftr flags 16 in
  let p := set_halfMoveClock p (Z.of_N (N.land flags 255)) in
  let flags := N.shiftr flags 8 in
  let ep := Z.of_N (N.land flags 255) in
  let ep := if (ep =? 255)%Z then (-1)%Z else ep in
  let p := set_epSquare p ep in
  let flags := N.shiftr flags 8 in
  let p := set_castleMask p (N.land flags 15) in
  let flags := N.shiftr flags 4 in
  let p := set_whiteMove p (negb (N.land flags 1 =? 0)) in
  set_hashKey p (fullHash p hash).

Definition deSerialize (data : list N) : position :=
  deserFinish (fold_left deserStep (deserPairs data) (deserP0, zk_empty zk)) (nth 4 data 0).

End WithKeys.

(* ------------------------------------------------------------------ *)
(** * Operations that do not touch the hash keys *)

(** Position::setPieceB and Position::setSEEPiece (identical bodies) *)
Definition setPieceB (p : position) (sq : square) (pc : piece) : position :=
  let removed := getPiece p sq in
  let p := set_squares p (updN sq pc (squares p)) in
  let sqm := sqMask sq in
  let p := bbClear p removed sqm in
  let p := bbSet p pc sqm in
  let p :=
    if negb (removed =? EMPTY) then
      if isWhite removed then set_whiteBB p (N.ldiff (whiteBB p) sqm)
      else set_blackBB p (N.ldiff (blackBB p) sqm)
    else p in
  if negb (pc =? EMPTY) then
    if isWhite pc then set_whiteBB p (N.lor (whiteBB p) sqm)
    else set_blackBB p (N.lor (blackBB p) sqm)
  else p.
Definition setSEEPiece := setPieceB.

(** Position::movePieceNotPawnB *)
Definition movePieceNotPawnB (p : position) (from to : square) : position :=
  let pc := getPiece p from in
  let p := set_squares p (updN from EMPTY (squares p)) in
  let p := set_squares p (updN to pc (squares p)) in
  let mF := sqMask from in
  let mT := sqMask to in
  let p := bbClear p pc mF in
  let p := bbSet p pc mT in
  if isWhite pc then
    let p := set_whiteBB p (N.ldiff (whiteBB p) mF) in
    set_whiteBB p (N.lor (whiteBB p) mT)
  else
    let p := set_blackBB p (N.ldiff (blackBB p) mF) in
    set_blackBB p (N.lor (blackBB p) mT).

Definition pawnsAtB (p : position) (fromMask : N) : bool :=
  negb (N.land (N.lor (ptBB p WPAWN) (ptBB p BPAWN)) fromMask =? 0).
Definition kingsAtB (p : position) (fromMask : N) : bool :=
  negb (N.land (N.lor (ptBB p WKING) (ptBB p BKING)) fromMask =? 0).

(** Position::makeMoveB (only capturedPiece and castleMask of the UndoInfo are written; the
    other two fields are given the values of the position so that the record is total) *)
Definition makeMoveB (p : position) (m : move) : position * undoInfo :=
  let ui := mkUndo (getPiece p (mto m)) (castleMask p) (epSquare p) (halfMoveClock p) in
  let pc := getPiece p (mfrom m) in
  let capP := getPiece p (mto m) in
  let fromMask := sqMask (mfrom m) in
  let prevEpSquare := epSquare p in
  let p :=
    if negb (capP =? EMPTY) || pawnsAtB p fromMask then
      let p :=
        if pc =? WPAWN then
          if (Z.of_N (mto m) =? prevEpSquare)%Z then setPieceB p (toSq (sqPlus (mto m) (-8))) EMPTY else p
        else if pc =? BPAWN then
          if (Z.of_N (mto m) =? prevEpSquare)%Z then setPieceB p (toSq (sqPlus (mto m) 8)) EMPTY else p
        else p in
      let p := setPieceB p (mfrom m) EMPTY in
      if negb (mpromote m =? EMPTY) then setPieceB p (mto m) (mpromote m)
      else setPieceB p (mto m) pc
    else
      let p :=
        if kingsAtB p fromMask then
          let k0 := mfrom m in
          if (Z.of_N (mto m) =? sqPlus k0 2)%Z then movePieceNotPawnB p (toSq (sqPlus k0 3)) (toSq (sqPlus k0 1))
          else if (Z.of_N (mto m) =? sqPlus k0 (-2))%Z then movePieceNotPawnB p (toSq (sqPlus k0 (-4))) (toSq (sqPlus k0 (-1)))
          else p
        else p in
      movePieceNotPawnB p (mfrom m) (mto m) in
  (p, ui).

(** Position::unMakeMoveB *)
Definition unMakeMoveB (p : position) (m : move) (ui : undoInfo) : position :=
  let pc := getPiece p (mto m) in
  let p := setPieceB p (mfrom m) pc in
  let p := setPieceB p (mto m) (u_captured ui) in
  let wtm := whiteMove p in
  let '(p, pc) :=
    if negb (mpromote m =? EMPTY) then
      let pc := if wtm then WPAWN else BPAWN in
      (setPieceB p (mfrom m) pc, pc)
    else (p, pc) in
  let king := if wtm then WKING else BKING in
  let p :=
    if pc =? king then
      let k0 := mfrom m in
      if (Z.of_N (mto m) =? sqPlus k0 2)%Z then movePieceNotPawnB p (toSq (sqPlus k0 1)) (toSq (sqPlus k0 3))
      else if (Z.of_N (mto m) =? sqPlus k0 (-2))%Z then movePieceNotPawnB p (toSq (sqPlus k0 (-1))) (toSq (sqPlus k0 (-4)))
      else p
    else p in
  if (Z.of_N (mto m) =? epSquare p)%Z then
    if pc =? WPAWN then setPieceB p (toSq (sqPlus (mto m) (-8))) BPAWN
    else if pc =? BPAWN then setPieceB p (toSq (sqPlus (mto m) 8)) WPAWN
    else p
  else p.

(** Position::makeSEEMove (only capturedPiece is written to the UndoInfo) *)
Definition makeSEEMove (p : position) (m : move) : position * undoInfo :=
  let ui := mkUndo (getPiece p (mto m)) (castleMask p) (epSquare p) (halfMoveClock p) in
  let pc := getPiece p (mfrom m) in
  let p :=
    if (Z.of_N (mto m) =? epSquare p)%Z then
      if pc =? WPAWN then setSEEPiece p (toSq (sqPlus (mto m) (-8))) EMPTY
      else if pc =? BPAWN then setSEEPiece p (toSq (sqPlus (mto m) 8)) EMPTY
      else p
    else p in
  let p := setSEEPiece p (mfrom m) EMPTY in
  let p := setSEEPiece p (mto m) pc in
  (set_whiteMove p (negb (whiteMove p)), ui).

(** Position::unMakeSEEMove *)
Definition unMakeSEEMove (p : position) (m : move) (ui : undoInfo) : position :=
  let p := set_whiteMove p (negb (whiteMove p)) in
  let pc := getPiece p (mto m) in
  let p := setSEEPiece p (mfrom m) pc in
  let p := setSEEPiece p (mto m) (u_captured ui) in
  if (Z.of_N (mto m) =? epSquare p)%Z then
    if pc =? WPAWN then setSEEPiece p (toSq (sqPlus (mto m) (-8))) BPAWN
    else if pc =? BPAWN then setSEEPiece p (toSq (sqPlus (mto m) 8)) WPAWN
    else p
  else p.

(** Position::drawRuleEquals *)
Definition piecesEqb (a b : list piece) : bool :=
  forallb (fun i => nth i a EMPTY =? nth i b EMPTY) (seq 0 64).
Definition drawRuleEquals (p q : position) : bool :=
  piecesEqb (squares p) (squares q) && Bool.eqb (whiteMove p) (whiteMove q) &&
  (castleMask p =? castleMask q) && (epSquare p =? epSquare q)%Z.

(** Position::operator== *)
Definition positionEquals (p q : position) : bool :=
  drawRuleEquals p q && (halfMoveClock p =? halfMoveClock q)%Z && (fullMoveCounter p =? fullMoveCounter q)%Z &&
  (hashKey p =? hashKey q) && (pHashKey p =? pHashKey q) && (wrapInt (matId p) =? wrapInt (matId q))%Z.

(** Position::serialize: the five words data.v[0..4] *)
Definition serWord (p : position) (i : N) : N :=
  fold_left (fun v k => N.lor (N.shiftl v 4) (getPiece p (i * 16 + N.of_nat k))) (seq 0 16) 0.
Definition serFlags (p : position) : N :=
  let flags := if whiteMove p then 1 else 0 in
  let flags := N.lor (N.shiftl flags 4) (castleMask p) in
  let flags := N.lor (N.shiftl flags 8) (Z.to_N (Z.land (epSquare p) 255)) in
  let flags := N.lor (N.shiftl flags 8) (Z.to_N (Z.land (halfMoveClock p) 255)) in
  N.lor (N.shiftl flags 16) (Z.to_N (Z.land (fullMoveCounter p) 65535)).
Definition serialize (p : position) : list N :=
  [serWord p 0; serWord p 1; serWord p 2; serWord p 3; serFlags p].

(* ------------------------------------------------------------------ *)
(** * Companions: every array index inside its array, every [int] inside 32 bits *)

Definition pieceInb (pc : piece) : bool := pc <? 13.
Definition sqInb (s : square) : bool := s <? 64.
Definition positionInts (p : position) : list Z :=
  [halfMoveClock p; fullMoveCounter p; matId p; wMtrl p; bMtrl p; wMtrlPawns p; bMtrlPawns p].
Definition intsFit (p : position) : bool := forallb fitsInt (positionInts p).

(** setPiece: squares[sq], psHashKeys[removed][sq], psHashKeys[piece][sq], materialId[..],
    pieceTypeBB_[..], pieceValue[..] and the arithmetic on matId and the material sums *)
Definition setPiece_inb (zk : zkeys) (p : position) (sq : square) (pc : piece) : bool :=
  sqInb sq && pieceInb pc && pieceInb (getPiece p sq) && intsFit (setPiece zk p sq pc) &&
  fitsInt (matRemove (matId p) (getPiece p sq)).
Definition clearPiece_inb (zk : zkeys) (p : position) (sq : square) : bool :=
  sqInb sq && pieceInb (getPiece p sq) && intsFit (clearPiece zk p sq).
Definition movePieceNotPawn_inb (p : position) (from to : square) : bool :=
  sqInb from && sqInb to && pieceInb (getPiece p from).
Definition epInb (ep : Z) : bool := ((-1 <=? ep) && (ep <? 64))%Z.
Definition moveCntInb (i : Z) : bool := ((0 <=? i) && (i <=? 100))%Z.
Definition bookHash_inb (p : position) : bool := moveCntInb (Z.min (halfMoveClock p) 100).
