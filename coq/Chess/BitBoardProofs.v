(** Proofs about the BitBoard model: every table the engine computes in staticInitialize equals
    its coordinate definition (finite sweeps by vm_compute over 64 squares / 64x64 pairs /
    64x64x64 triples, lifted by forallb_forall), the regenerated dirTable gives getDirection
    its meaning, and the de-Bruijn bit scan is the lowest-set-bit function for every non-zero
    64-bit word. *)
From Coq Require Import ZArith NArith List Bool Lia.
From Texel Require Import Chess.Types Chess.Position Chess.BitBoard Chess.Spec gen.BitBoardTables.
Import ListNotations.
Local Open Scope Z_scope.

(** * Coordinate definitions (the specification side of the tables) *)
Definition zf (s : square) : Z := Z.of_N s mod 8.
Definition zr (s : square) : Z := Z.of_N s / 8.

(** t = s + one of the offsets *)
Definition step_rel (offs : list (Z * Z)) (s t : square) : bool :=
  existsb (fun d => (zf t =? zf s + fst d) && (zr t =? zr s + snd d)) offs.

Definition wpawn_offsets : list (Z * Z) := [(-1, 1); (1, 1)].
Definition bpawn_offsets : list (Z * Z) := [(-1, -1); (1, -1)].

(** same file, same rank or same diagonal (a square is aligned with itself) *)
Definition aligned (dx dy : Z) : bool := (dx =? 0) || (dy =? 0) || (Z.abs dx =? Z.abs dy).

(** t lies strictly between a and b on a common line *)
Definition between_rel (a b : square) : square -> bool :=
  let fa := zf a in let ra := zr a in
  let dx := zf b - fa in let dy := zr b - ra in
  let al := aligned dx dy && negb ((dx =? 0) && (dy =? 0)) in
  let n := Z.max (Z.abs dx) (Z.abs dy) in
  let sx := Z.sgn dx in let sy := Z.sgn dy in
  fun t => al && (let ft := zf t in let rt := zr t in
                  existsb (fun i => (i <? n) && (ft =? fa + i * sx) && (rt =? ra + i * sy)) [1; 2; 3; 4; 5; 6]).

(** 8*sgn dy + sgn dx on aligned pairs, the knight code 8*dy + dx on knight pairs, 0 otherwise *)
Definition dir_rel (a b : square) : Z :=
  let dx := zf b - zf a in let dy := zr b - zr a in
  if aligned dx dy then 8 * Z.sgn dy + Z.sgn dx
  else if Z.abs dx * Z.abs dy =? 2 then 8 * dy + dx
  else 0.

Definition rookAligned (s t : square) : bool :=
  negb (N.eqb s t) && ((zf s =? zf t) || (zr s =? zr t)).
Definition bishopAligned (s t : square) : bool :=
  negb (N.eqb s t) && (Z.abs (zf t - zf s) =? Z.abs (zr t - zr s)).

(** * Sweep infrastructure *)
Lemma sq_in_all : forall s, (s < 64)%N -> In s allSquares.
Proof.
  intros s H. unfold allSquares. apply in_map_iff. exists (N.to_nat s). split.
  - apply N2Nat.id.
  - apply in_seq. lia.
Qed.

Lemma all_sq_lt : forall s, In s allSquares -> (s < 64)%N.
Proof.
  intros s H. unfold allSquares in H. apply in_map_iff in H. destruct H as [n [<- Hn]].
  apply in_seq in Hn. lia.
Qed.

Lemma sweep1 (P : square -> bool) :
  forallb P allSquares = true -> forall s, (s < 64)%N -> P s = true.
Proof. intros H s Hs. rewrite forallb_forall in H. apply H, sq_in_all, Hs. Qed.

Lemma sweep2 (P : square -> square -> bool) :
  forallb (fun a => forallb (P a) allSquares) allSquares = true ->
  forall a b, (a < 64)%N -> (b < 64)%N -> P a b = true.
Proof. intros H a b Ha Hb. apply (sweep1 _ (sweep1 _ H a Ha) b Hb). Qed.

Lemma sweep3 (P : square -> square -> square -> bool) :
  forallb (fun a => forallb (fun b => forallb (P a b) allSquares) allSquares) allSquares = true ->
  forall a b c, (a < 64)%N -> (b < 64)%N -> (c < 64)%N -> P a b c = true.
Proof. intros H a b c Ha Hb Hc. apply (sweep1 _ (sweep2 _ H a b Ha Hb) c Hc). Qed.

Definition files8 : list N := [0; 1; 2; 3; 4; 5; 6; 7]%N.
Lemma file_in : forall f, (f < 8)%N -> In f files8.
Proof.
  intros f H. unfold files8.
  assert (f = 0 \/ f = 1 \/ f = 2 \/ f = 3 \/ f = 4 \/ f = 5 \/ f = 6 \/ f = 7)%N as D by lia.
  simpl. intuition.
Qed.

(** * Step-piece tables *)
Definition stepP (tbl : square -> N) (offs : list (Z * Z)) (s : square) : bool :=
  let v := tbl s in
  (v <? 18446744073709551616)%N && forallb (fun t => Bool.eqb (N.testbit v t) (step_rel offs s t)) allSquares.
Definition stepTableOk (tbl : square -> N) (offs : list (Z * Z)) : Prop :=
  forallb (stepP tbl offs) allSquares = true.

Lemma stepTable_lift tbl offs : stepTableOk tbl offs ->
  forall s, (s < 64)%N ->
    (tbl s < 2 ^ 64)%N /\ forall t, (t < 64)%N -> N.testbit (tbl s) t = step_rel offs s t.
Proof.
  intros H s Hs.
  pose proof (sweep1 (stepP tbl offs) H s Hs) as H0. unfold stepP in H0. cbv zeta in H0.
  apply andb_true_iff in H0. destruct H0 as [H1 H2].
  split.
  - apply N.ltb_lt in H1. exact H1.
  - intros t Ht. apply eqb_prop.
    exact (sweep1 (fun t => Bool.eqb (N.testbit (tbl s) t) (step_rel offs s t)) H2 t Ht).
Qed.

Lemma kingTable_ok : stepTableOk kingAttacks king_offsets.
Proof. vm_compute. reflexivity. Qed.
Lemma knightTable_ok : stepTableOk knightAttacks knight_offsets.
Proof. vm_compute. reflexivity. Qed.
Lemma wPawnTable_ok : stepTableOk wPawnAttacks wpawn_offsets.
Proof. vm_compute. reflexivity. Qed.
Lemma bPawnTable_ok : stepTableOk bPawnAttacks bpawn_offsets.
Proof. vm_compute. reflexivity. Qed.

Definition kingAttacks_spec := stepTable_lift _ _ kingTable_ok.
Definition knightAttacks_spec := stepTable_lift _ _ knightTable_ok.
Definition wPawnAttacks_spec := stepTable_lift _ _ wPawnTable_ok.
Definition bPawnAttacks_spec := stepTable_lift _ _ bPawnTable_ok.

(** * En-passant masks (and agreement with the copy used by the Position model) *)
Definition epMaskOk : bool :=
  forallb (fun f =>
    (epMaskWF f =? epMaskW f)%N && (epMaskBF f =? epMaskB f)%N &&
    forallb (fun t => Bool.eqb (N.testbit (epMaskWF f) t) ((zr t =? 3) && (Z.abs (zf t - Z.of_N f) =? 1))
                      && Bool.eqb (N.testbit (epMaskBF f) t) ((zr t =? 4) && (Z.abs (zf t - Z.of_N f) =? 1)))
            allSquares) files8.

Lemma epMask_ok : epMaskOk = true.
Proof. vm_compute. reflexivity. Qed.

Lemma epMask_spec : forall f t, (f < 8)%N -> (t < 64)%N ->
  N.testbit (epMaskWF f) t = ((zr t =? 3) && (Z.abs (zf t - Z.of_N f) =? 1)) /\
  N.testbit (epMaskBF f) t = ((zr t =? 4) && (Z.abs (zf t - Z.of_N f) =? 1)) /\
  epMaskWF f = epMaskW f /\ epMaskBF f = epMaskB f.
Proof.
  intros f t Hf Ht. pose proof epMask_ok as H. unfold epMaskOk in H. rewrite forallb_forall in H.
  specialize (H f (file_in f Hf)). rewrite !andb_true_iff in H. destruct H as [[H1 H2] H3].
  apply (sweep1 _ H3) in Ht. apply andb_true_iff in Ht. destruct Ht as [Ha Hb].
  apply eqb_prop in Ha. apply eqb_prop in Hb. apply N.eqb_eq in H1. apply N.eqb_eq in H2. auto.
Qed.

(** * squaresBetween *)
Definition betweenP (a b : square) : bool :=
  let v := squaresBetween a b in let f := between_rel a b in
  (v <? 18446744073709551616)%N && forallb (fun t => Bool.eqb (N.testbit v t) (f t)) allSquares.

Lemma between_ok : forallb (fun a => forallb (betweenP a) allSquares) allSquares = true.
Proof. vm_compute. reflexivity. Qed.

Lemma squaresBetween_spec : forall a b, (a < 64)%N -> (b < 64)%N ->
  (squaresBetween a b < 2 ^ 64)%N /\
  forall t, (t < 64)%N -> N.testbit (squaresBetween a b) t = between_rel a b t.
Proof.
  intros a b Ha Hb.
  pose proof (sweep2 betweenP between_ok a b Ha Hb) as H. unfold betweenP in H. cbv zeta in H.
  apply andb_true_iff in H. destruct H as [H1 H2]. split.
  - apply N.ltb_lt in H1. exact H1.
  - intros t Ht. apply eqb_prop.
    exact (sweep1 (fun t => Bool.eqb (N.testbit (squaresBetween a b) t) (between_rel a b t)) H2 t Ht).
Qed.

(** * getDirection through the regenerated dirTable *)
Definition directionP (a b : square) : bool := getDirection a b =? dir_rel a b.

Lemma direction_ok : forallb (fun a => forallb (directionP a) allSquares) allSquares = true.
Proof. vm_compute. reflexivity. Qed.

Lemma getDirection_spec : forall a b, (a < 64)%N -> (b < 64)%N -> getDirection a b = dir_rel a b.
Proof. intros a b Ha Hb. apply Z.eqb_eq. exact (sweep2 directionP direction_ok a b Ha Hb). Qed.

(** * Bit scans *)
Definition singleBitsOk : bool :=
  forallb (fun i => (firstBitT (bit i) =? i)%N && (lastBitT (bit i) =? i)%N && (bitCountT (bit i) =? 1)%N
                    && (lastBitT (N.ones (i + 1)) =? i)%N && (firstBitT (N.ones (i + 1)) =? 0)%N
                    && (bitCountT (N.ones (i + 1)) =? i + 1)%N) allSquares.

Lemma singleBits_ok : singleBitsOk = true.
Proof. vm_compute. reflexivity. Qed.

Lemma firstBitT_bit : forall i, (i < 64)%N -> firstBitT (bit i) = i.
Proof.
  intros i Hi. pose proof (sweep1 _ singleBits_ok i Hi) as H. rewrite !andb_true_iff in H.
  destruct H as [[[[[H _] _] _] _] _]. apply N.eqb_eq in H. exact H.
Qed.

Lemma lastBitT_prefix : forall i, (i < 64)%N -> lastBitT (N.ones (i + 1)) = i.
Proof.
  intros i Hi. pose proof (sweep1 _ singleBits_ok i Hi) as H. rewrite !andb_true_iff in H.
  destruct H as [[[_ H] _] _]. apply N.eqb_eq in H. exact H.
Qed.

(** ** [mask & -mask] isolates the lowest set bit *)
Local Open Scope N_scope.

Lemma N_pow_pos : forall a b : N, 0 < a -> 0 <= b -> 0 < a ^ b.
Proof. intros a b Ha _. apply N.neq_0_lt_0. apply N.pow_nonzero. lia. Qed.

Lemma ctzP_xO : forall p, ctzP p~0 = N.succ (ctzP p).
Proof. intro p. change (ctzP p~0) with (1 + ctzP p). lia. Qed.
Lemma ctzP_xI : forall p, ctzP p~1 = 0.
Proof. reflexivity. Qed.
Lemma pos_xO : forall p, N.pos p~0 = 2 * N.pos p.
Proof. reflexivity. Qed.
Lemma pos_xI : forall p, N.pos p~1 = 2 * N.pos p + 1.
Proof. reflexivity. Qed.

Lemma land_complement : forall j a c, a + c = N.ones j -> N.land a c = 0.
Proof.
  intros j a c H.
  assert (Ha : a <= N.ones j) by lia.
  assert (Hc : c = N.ones j - a) by lia.
  assert (Hl : N.ldiff a (N.ones j) = 0).
  { destruct (N.eq_dec a 0) as [->|Hz]; [apply N.ldiff_0_l|].
    apply N.ldiff_ones_r_low. rewrite N.ones_equiv in Ha.
    assert (0 < 2 ^ j) by (apply N_pow_pos; lia).
    apply (proj1 (N.log2_lt_pow2 a j ltac:(lia))). lia. }
  rewrite Hc. rewrite (N.sub_nocarry_ldiff _ _ Hl).
  apply N.bits_inj. intro i. rewrite N.land_spec, N.ldiff_spec, N.bits_0.
  destruct (N.testbit a i); [apply andb_false_r | reflexivity].
Qed.

Lemma land_double : forall x y, N.land (2 * x) (2 * y) = 2 * N.land x y.
Proof.
  intros. apply N.bits_inj. intro i. rewrite N.land_spec.
  destruct (N.eq_dec i 0) as [->|Hi].
  - rewrite !N.testbit_even_0. reflexivity.
  - replace i with (N.succ (N.pred i)) by lia. rewrite !N.testbit_even_succ by lia.
    rewrite N.land_spec. reflexivity.
Qed.

Lemma land_odd : forall x y, N.land (2 * x + 1) (2 * y + 1) = 2 * N.land x y + 1.
Proof.
  intros. apply N.bits_inj. intro i. rewrite N.land_spec.
  destruct (N.eq_dec i 0) as [->|Hi].
  - rewrite !N.testbit_odd_0. reflexivity.
  - replace i with (N.succ (N.pred i)) by lia. rewrite !N.testbit_odd_succ by lia.
    rewrite N.land_spec. reflexivity.
Qed.

Lemma lowbit_pos : forall p n, N.pos p < 2 ^ n ->
  N.land (N.pos p) (2 ^ n - N.pos p) = 2 ^ (ctzP p).
Proof.
  induction p as [p IH | p IH | ]; intros n Hlt.
  - (* odd *)
    assert (Hn : n <> 0) by (intro; subst; simpl in Hlt; lia).
    assert (En : n = N.succ (N.pred n)) by lia. remember (N.pred n) as k. rewrite En in *. clear En Heqk Hn n.
    rewrite N.pow_succ_r' in Hlt |- *. rewrite (pos_xI p) in Hlt |- *. rewrite ctzP_xI.
    replace (2 * 2 ^ k - (2 * N.pos p + 1)) with (2 * (2 ^ k - N.pos p - 1) + 1) by lia.
    rewrite land_odd. rewrite (land_complement k).
    + reflexivity.
    + rewrite N.ones_equiv. assert (0 < 2 ^ k) by (apply N_pow_pos; lia). lia.
  - (* even *)
    assert (Hn : n <> 0) by (intro; subst; simpl in Hlt; lia).
    assert (En : n = N.succ (N.pred n)) by lia. remember (N.pred n) as k. rewrite En in *. clear En Heqk Hn n.
    rewrite N.pow_succ_r' in Hlt |- *. rewrite (pos_xO p) in Hlt |- *. rewrite ctzP_xO.
    replace (2 * 2 ^ k - 2 * N.pos p) with (2 * (2 ^ k - N.pos p)) by lia.
    rewrite land_double. rewrite IH by lia.
    rewrite N.pow_succ_r'. reflexivity.
  - (* one *)
    assert (Hn : n <> 0) by (intro; subst; simpl in Hlt; lia).
    assert (En : n = N.succ (N.pred n)) by lia. remember (N.pred n) as k. rewrite En in *. clear En Heqk Hn n.
    rewrite N.pow_succ_r' in Hlt |- *.
    assert (0 < 2 ^ k) by (apply N_pow_pos; lia).
    replace (2 * 2 ^ k - 1) with (2 * (2 ^ k - 1) + 1) by lia.
    change 1 with (2 * 0 + 1) at 1. rewrite land_odd. reflexivity.
Qed.

Lemma ctzP_lt : forall p n, N.pos p < 2 ^ n -> ctzP p < n.
Proof.
  induction p as [p IH | p IH | ]; intros n Hlt.
  - rewrite ctzP_xI. destruct (N.eq_dec n 0); [subst; simpl in Hlt; lia | lia].
  - assert (Hn : n <> 0) by (intro; subst; simpl in Hlt; lia).
    assert (En : n = N.succ (N.pred n)) by lia. rewrite En in Hlt. rewrite N.pow_succ_r' in Hlt.
    rewrite (pos_xO p) in Hlt. rewrite ctzP_xO.
    specialize (IH (N.pred n)). assert (Hp : N.pos p < 2 ^ N.pred n) by lia. apply IH in Hp. lia.
  - change (ctzP 1) with 0. destruct (N.eq_dec n 0); [subst; simpl in Hlt; lia | lia].
Qed.

Lemma ctzP_pow2 : forall k q, N.pos q = 2 ^ k -> ctzP q = k.
Proof.
  induction k using N.peano_ind; intros q Hq.
  - simpl in Hq. injection Hq as ->. reflexivity.
  - rewrite N.pow_succ_r' in Hq. destruct q as [q|q|].
    + rewrite (pos_xI q) in Hq. lia.
    + rewrite (pos_xO q) in Hq. rewrite ctzP_xO. f_equal. apply IHk. lia.
    + assert (0 < 2 ^ k) by (apply N_pow_pos; lia). lia.
Qed.

(** for every non-zero 64-bit word the table-based BitUtil::firstBit returns the index of the
    lowest set bit ([Position.firstBit] is that index, defined on the binary representation) *)
Theorem firstBitT_correct : forall m, 0 < m -> m < 2 ^ 64 -> firstBitT m = firstBit m.
Proof.
  intros m H0 H64. destruct m as [|p]; [lia|].
  pose proof (ctzP_lt p 64 H64) as Hc.
  assert (Hp : 2 ^ ctzP p < 2 ^ 64) by (apply N.pow_lt_mono_r; lia).
  assert (H2 : 0 < 2 ^ ctzP p) by (apply N_pow_pos; lia).
  assert (Hiso : forall x, 0 < x -> x < 2 ^ 64 -> N.land x (neg64 x) = N.land x (2 ^ 64 - x)).
  { intros x Hx0 Hx. unfold neg64, wrap64. change mask64 with (N.ones 64). rewrite !N.land_ones.
    rewrite (N.mod_small x) by exact Hx. change 18446744073709551616 with (2 ^ 64).
    rewrite (N.mod_small (2 ^ 64 - x)) by lia. reflexivity. }
  pose proof (firstBitT_bit (ctzP p) Hc) as Hb. unfold firstBitT in *. unfold bit in Hb.
  rewrite N.shiftl_1_l in Hb.
  rewrite (Hiso (N.pos p) H0 H64). rewrite (lowbit_pos p 64 H64).
  rewrite (Hiso (2 ^ ctzP p) H2 Hp) in Hb.
  destruct (2 ^ ctzP p) as [|q] eqn:E; [lia|].
  rewrite (lowbit_pos q 64 Hp) in Hb.
  rewrite (ctzP_pow2 (ctzP p) q (eq_sym E)) in Hb. rewrite E in Hb. exact Hb.
Qed.

(** the loop step [mask &= mask - 1] removes exactly the lowest set bit *)
Lemma clearLowest_pos : forall p i,
  N.testbit (N.land (N.pos p) (N.pred (N.pos p))) i = N.testbit (N.pos p) i && negb (i =? ctzP p).
Proof.
  induction p as [p IH | p IH | ]; intro i.
  - (* odd: pred clears bit 0 *)
    rewrite ctzP_xI. replace (N.pred (N.pos p~1)) with (2 * N.pos p) by (rewrite (pos_xI p); lia).
    rewrite (pos_xI p). rewrite N.land_spec. destruct (N.eq_dec i 0) as [->|Hi].
    + rewrite N.testbit_odd_0, N.testbit_even_0. reflexivity.
    + replace i with (N.succ (N.pred i)) by lia. rewrite N.testbit_odd_succ, N.testbit_even_succ by lia.
      replace (N.succ (N.pred i) =? 0) with false by (symmetry; apply N.eqb_neq; lia).
      rewrite andb_true_r. apply andb_diag.
  - (* even *)
    rewrite ctzP_xO.
    assert (Hpred : N.pred (N.pos p~0) = 2 * N.pred (N.pos p) + 1) by (rewrite (pos_xO p); lia).
    rewrite Hpred. rewrite (pos_xO p). rewrite N.land_spec. destruct (N.eq_dec i 0) as [->|Hi].
    + rewrite N.testbit_even_0. reflexivity.
    + replace i with (N.succ (N.pred i)) by lia. rewrite N.testbit_odd_succ, N.testbit_even_succ by lia.
      specialize (IH (N.pred i)). rewrite N.land_spec in IH. rewrite IH.
      f_equal. f_equal.
      destruct (N.eqb_spec (N.pred i) (ctzP p)); destruct (N.eqb_spec (N.succ (N.pred i)) (N.succ (ctzP p))); try reflexivity; lia.
  - change (N.pred 1) with 0. rewrite N.land_0_r, N.bits_0. change (ctzP 1) with 0.
    destruct (N.eqb_spec i 0) as [->|Hi].
    + reflexivity.
    + change 1 with (2 * 0 + 1). replace i with (N.succ (N.pred i)) by lia.
      rewrite N.testbit_odd_succ by lia. rewrite N.bits_0. reflexivity.
Qed.

Lemma clearLowest_spec : forall m, 0 < m ->
  forall i, N.testbit (clearLowest m) i = N.testbit m i && negb (i =? firstBit m).
Proof. intros m Hm i. destruct m as [|p]; [lia|]. apply clearLowest_pos. Qed.

Lemma firstBit_testbit : forall m, 0 < m -> N.testbit m (firstBit m) = true.
Proof.
  intros m Hm. destruct m as [|p]; [lia|]. unfold firstBit. induction p as [p IH | p IH | ].
  - reflexivity.
  - rewrite ctzP_xO, (pos_xO p). rewrite N.testbit_even_succ by lia. apply IH. lia.
  - reflexivity.
Qed.

Lemma firstBit_lowest : forall m i, 0 < m -> N.testbit m i = true -> firstBit m <= i.
Proof.
  intros m i Hm. destruct m as [|p]; [lia|]. unfold firstBit. revert i.
  induction p as [p IH | p IH | ]; intros i Hi.
  - rewrite ctzP_xI. lia.
  - rewrite ctzP_xO. rewrite (pos_xO p) in Hi. destruct (N.eq_dec i 0) as [->|Hz].
    + rewrite N.testbit_even_0 in Hi. discriminate.
    + replace i with (N.succ (N.pred i)) in Hi by lia.
      rewrite N.testbit_even_succ in Hi by lia. apply IH in Hi; lia.
  - change (ctzP 1) with 0. lia.
Qed.

(** * Summary used by Properties_C01 *)
Local Open Scope N_scope.
Theorem tables_all :
  (forall s, s < 64 ->
     kingAttacks s < 2 ^ 64 /\ knightAttacks s < 2 ^ 64 /\ wPawnAttacks s < 2 ^ 64 /\ bPawnAttacks s < 2 ^ 64) /\
  (forall s t, s < 64 -> t < 64 ->
     N.testbit (kingAttacks s) t = step_rel king_offsets s t /\
     N.testbit (knightAttacks s) t = step_rel knight_offsets s t /\
     N.testbit (wPawnAttacks s) t = step_rel wpawn_offsets s t /\
     N.testbit (bPawnAttacks s) t = step_rel bpawn_offsets s t) /\
  (forall f t, f < 8 -> t < 64 ->
     N.testbit (epMaskWF f) t = ((zr t =? 3) && (Z.abs (zf t - Z.of_N f) =? 1))%Z /\
     N.testbit (epMaskBF f) t = ((zr t =? 4) && (Z.abs (zf t - Z.of_N f) =? 1))%Z) /\
  (forall a b, a < 64 -> b < 64 ->
     squaresBetween a b < 2 ^ 64 /\
     (forall t, t < 64 -> N.testbit (squaresBetween a b) t = between_rel a b t) /\
     getDirection a b = dir_rel a b) /\
  (forall m, 0 < m -> m < 2 ^ 64 ->
     firstBitT m = firstBit m /\ N.testbit m (firstBit m) = true /\
     (forall i, N.testbit m i = true -> firstBit m <= i) /\
     (forall i, N.testbit (clearLowest m) i = N.testbit m i && negb (i =? firstBit m))) /\
  (forall i, i < 64 -> lastBitT (bit i) = i /\ lastBitT (N.ones (i + 1)) = i /\ bitCountT (N.ones (i + 1)) = i + 1).
Proof.
  repeat split.
  - apply (kingAttacks_spec s H).
  - apply (knightAttacks_spec s H).
  - apply (wPawnAttacks_spec s H).
  - apply (bPawnAttacks_spec s H).
  - apply (kingAttacks_spec s H); assumption.
  - apply (knightAttacks_spec s H); assumption.
  - apply (wPawnAttacks_spec s H); assumption.
  - apply (bPawnAttacks_spec s H); assumption.
  - apply (epMask_spec f t H H0).
  - apply (epMask_spec f t H H0).
  - apply (squaresBetween_spec a b H H0).
  - apply (squaresBetween_spec a b H H0).
  - apply (getDirection_spec a b H H0).
  - apply firstBitT_correct; assumption.
  - apply firstBit_testbit; assumption.
  - intros i Hi. apply firstBit_lowest; assumption.
  - intro i. apply clearLowest_spec; assumption.
  - pose proof (sweep1 _ singleBits_ok i H) as Hs. rewrite !andb_true_iff in Hs.
    destruct Hs as [[[[[_ Hs] _] _] _] _]. apply N.eqb_eq in Hs. exact Hs.
  - apply lastBitT_prefix; assumption.
  - pose proof (sweep1 _ singleBits_ok i H) as Hs. rewrite !andb_true_iff in Hs.
    destruct Hs as [_ Hs]. apply N.eqb_eq in Hs. exact Hs.
Qed.
