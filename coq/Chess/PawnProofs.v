(** The pawn block of pseudoLegalMoves (single and double pushes, captures, en passant,
    promotions) generates exactly the Spec's pawn pseudo-moves in every well-formed position
    (levels L1 and L6 of the proof plan: testbit algebra of shifts and file masks, then the
    pawn clauses).  The arithmetic of "target = from +- 7/8/9/16 without wrap-around" is settled
    by a finite sweep over all pairs of squares. *)
From Coq Require Import ZArith NArith List Bool Lia.
From Texel Require Import Chess.Types Chess.Position Chess.BitBoard Chess.MoveGen Chess.Spec Chess.MoveGenWF
  Chess.BitBoardProofs Chess.RayProofs Chess.MoveGenProofs Chess.AttackProofs gen.BitBoardTables.
Import ListNotations.
Local Open Scope N_scope.

(** * Shifts *)
Lemma shl_testbit : forall x k t, N.testbit (shl x k) t = (k <=? t) && (t <? 64) && N.testbit x (t - k).
Proof.
  intros. unfold shl, wrap64. change mask64 with (N.ones 64). rewrite N.land_spec.
  destruct (N.ltb_spec t 64) as [Ht|Ht].
  - rewrite N.ones_spec_low by exact Ht. rewrite andb_true_r.
    destruct (N.leb_spec k t) as [Hk|Hk]; cbn [andb].
    + apply N.shiftl_spec_high'. exact Hk.
    + apply N.shiftl_spec_low. exact Hk.
  - rewrite N.ones_spec_high by exact Ht. rewrite andb_false_r, andb_false_r. reflexivity.
Qed.

Lemma shr_testbit : forall x k t, N.testbit (shr x k) t = N.testbit x (t + k).
Proof. intros. unfold shr. apply N.shiftr_spec'. Qed.

(** forward shift of a pawn set: the square k steps "ahead" (white: +k, black: -k) *)
Definition fwd (wtm : bool) (x k : N) : N := if wtm then shl x k else shr x k.
Definition delta (wtm : bool) (k : N) : Z := if wtm then (- Z.of_N k)%Z else Z.of_N k.

Lemma fwd_testbit : forall wtm x k t, x < 2 ^ 64 ->
  (N.testbit (fwd wtm x k) t = true <->
   t < 64 /\ N.testbit x (sqAdd t (delta wtm k)) = true /\ (Z.of_N (sqAdd t (delta wtm k)) = Z.of_N t + delta wtm k)%Z).
Proof.
  intros wtm x k t Hx. unfold fwd, delta, sqAdd. destruct wtm.
  - rewrite shl_testbit. rewrite !andb_true_iff, N.leb_le, N.ltb_lt. split.
    + intros [[Hk Ht] Hb]. replace (Z.to_N (Z.of_N t + - Z.of_N k)) with (t - k) by lia.
      repeat split; try assumption. lia.
    + intros [Ht [Hb He]].
      assert (Hk : k <= t) by lia.
      replace (Z.to_N (Z.of_N t + - Z.of_N k)) with (t - k) in Hb by lia. auto.
  - rewrite shr_testbit. replace (Z.to_N (Z.of_N t + Z.of_N k)) with (t + k) by lia. split.
    + intros Hb. pose proof (bits_below_64 x Hx _ Hb). repeat split; try assumption; lia.
    + intros [_ [Hb _]]. exact Hb.
Qed.

(** * Row and file masks; the geometry of pawn steps (finite sweeps) *)
Definition masksOk : bool :=
  (maskRow1Row8 <? 2 ^ 64) && (maskRow3 <? 2 ^ 64) && (maskRow6 <? 2 ^ 64)
  && (maskAToGFiles <? 2 ^ 64) && (maskBToHFiles <? 2 ^ 64) &&
  forallb (fun t =>
    Bool.eqb (N.testbit maskRow1Row8 t) ((zr t =? 0) || (zr t =? 7))%Z
    && Bool.eqb (N.testbit maskRow3 t) (zr t =? 2)%Z && Bool.eqb (N.testbit maskRow6 t) (zr t =? 5)%Z
    && Bool.eqb (N.testbit maskAToGFiles t) (negb (zf t =? 7)%Z)
    && Bool.eqb (N.testbit maskBToHFiles t) (negb (zf t =? 0)%Z)) allSquares.
Lemma masks_ok : masksOk = true.
Proof. vm_compute. reflexivity. Qed.

Lemma masks_spec : forall t, t < 64 ->
  N.testbit maskRow1Row8 t = ((zr t =? 0) || (zr t =? 7))%Z /\
  N.testbit maskRow3 t = (zr t =? 2)%Z /\ N.testbit maskRow6 t = (zr t =? 5)%Z /\
  N.testbit maskAToGFiles t = negb (zf t =? 7)%Z /\ N.testbit maskBToHFiles t = negb (zf t =? 0)%Z.
Proof.
  intros t Ht. pose proof masks_ok as H. unfold masksOk in H. apply andb_true_iff in H. destruct H as [_ H].
  pose proof (sweep1 _ H t Ht) as Hs. cbv beta in Hs. rewrite !andb_true_iff in Hs.
  destruct Hs as [[[[H1 H2] H3] H4] H5]. apply eqb_prop in H1, H2, H3, H4, H5. auto.
Qed.

(** coordinates of the square k steps ahead, k in {7,8,9,16}; the file tests exclude wrap-around *)
Definition pawnGeomP (from t : square) : bool :=
    forallb (fun wtm : bool =>
      let dr := if wtm then 1%Z else (-1)%Z in
      let isAhead k := (Z.of_N from =? Z.of_N t + delta wtm k)%Z in
      Bool.eqb (isAhead 8) ((zf t =? zf from)%Z && (zr t =? zr from + dr)%Z)
      && Bool.eqb (isAhead 16) ((zf t =? zf from)%Z && (zr t =? zr from + 2 * dr)%Z)
      && Bool.eqb (isAhead (if wtm then 7 else 9) && negb (zf t =? 7)%Z) ((zf t =? zf from - 1)%Z && (zr t =? zr from + dr)%Z)
      && Bool.eqb (isAhead (if wtm then 9 else 7) && negb (zf t =? 0)%Z) ((zf t =? zf from + 1)%Z && (zr t =? zr from + dr)%Z))
      [true; false].
Lemma pawnGeom_ok : forallb (fun from => forallb (pawnGeomP from) allSquares) allSquares = true.
Proof. vm_compute. reflexivity. Qed.

Definition dirOf (wtm : bool) : Z := if wtm then 1%Z else (-1)%Z.

Lemma pawnGeom_spec : forall wtm from t, from < 64 -> t < 64 ->
  let isAhead k := (Z.of_N from =? Z.of_N t + delta wtm k)%Z in
  isAhead 8 = ((zf t =? zf from)%Z && (zr t =? zr from + dirOf wtm)%Z) /\
  isAhead 16 = ((zf t =? zf from)%Z && (zr t =? zr from + 2 * dirOf wtm)%Z) /\
  (isAhead (if wtm then 7 else 9) && negb (zf t =? 7)%Z) = ((zf t =? zf from - 1)%Z && (zr t =? zr from + dirOf wtm)%Z) /\
  (isAhead (if wtm then 9 else 7) && negb (zf t =? 0)%Z) = ((zf t =? zf from + 1)%Z && (zr t =? zr from + dirOf wtm)%Z).
Proof.
  intros wtm from t Hf Ht. pose proof (sweep2 pawnGeomP pawnGeom_ok from t Hf Ht) as H. unfold pawnGeomP in H.
  rewrite forallb_forall in H. specialize (H wtm). assert (Hin : In wtm [true; false]) by (destruct wtm; cbn; tauto).
  apply H in Hin. cbv zeta in Hin. rewrite !andb_true_iff in Hin. destruct Hin as [[[H1 H2] H3] H4].
  apply eqb_prop in H1, H2, H3, H4. unfold dirOf. cbv zeta. destruct wtm; auto.
Qed.

(** * addPawnMovesByMask / addPawnDoubleMovesByMask *)
Definition promoKinds : list kind := [Queen; Knight; Rook; Bishop].

Lemma myPiece_mk : forall w, myPiece w WQUEEN = mk_piece w Queen /\ myPiece w WKNIGHT = mk_piece w Knight /\
  myPiece w WROOK = mk_piece w Rook /\ myPiece w WBISHOP = mk_piece w Bishop /\ myPiece w WPAWN = mk_piece w Pawn.
Proof. destruct w; repeat split; reflexivity. Qed.

Lemma addPawnMovesByMask_In : forall wtm l mask d m, mask < 2 ^ 64 ->
  (In m (addPawnMovesByMask wtm l mask d true) <->
   In m l \/ exists t, N.testbit mask t = true /\
     ((N.testbit maskRow1Row8 t = true /\ exists k, In k promoKinds /\ m = mkMove (sqAdd t d) t (mk_piece wtm k)) \/
      (N.testbit maskRow1Row8 t = false /\ m = mkMove (sqAdd t d) t EMPTY))).
Proof.
  intros wtm l mask d m Hm. unfold addPawnMovesByMask.
  destruct (N.eqb_spec mask 0) as [->|Hnz].
  - split; [auto|]. intros [H|[t [Ht _]]]; [exact H|]. rewrite N.bits_0 in Ht. discriminate.
  - destruct (myPiece_mk wtm) as [EQ [EN [ER [EB _]]]]. rewrite EQ, EN, ER, EB.
    rewrite (forSquares_In _ move (fun x l => In x l) (fun sq x => x = mkMove (sqAdd sq d) sq EMPTY)).
    2:{ intros acc sq x _. apply addMove_In. }
    2:{ apply ldiff_lt. exact Hm. }
    rewrite (forSquares_In _ move (fun x l => In x l)
               (fun sq x => exists k, In k promoKinds /\ x = mkMove (sqAdd sq d) sq (mk_piece wtm k))).
    2:{ intros acc sq x _. rewrite !addMove_In. unfold promoKinds. cbn [In]. split.
        - intros [[[[H|H]|H]|H]|H]; [left; exact H | right; exists Queen | right; exists Knight | right; exists Rook | right; exists Bishop]; (split; [auto 10 | exact H]).
        - intros [H|[k [[<-|[<-|[<-|[<-|[]]]]] ->]]]; auto 10. }
    2:{ apply land_lt_l. exact Hm. }
    split.
    + intros [[H|[t [Ht Hk]]]|[t [Ht ->]]]; [left; exact H | |].
      * right. exists t. rewrite N.land_spec in Ht. apply andb_true_iff in Ht. destruct Ht as [Ht1 Ht2]. split; [exact Ht1|]. left. auto.
      * right. exists t. unfold andn in Ht. rewrite N.ldiff_spec, N.land_spec in Ht. apply andb_true_iff in Ht.
        destruct Ht as [Ht1 Ht2]. rewrite Ht1 in Ht2. cbn [andb] in Ht2. apply negb_true_iff in Ht2. split; [exact Ht1|]. right. auto.
    + intros [H|[t [Ht [[Hr Hk]|[Hr ->]]]]]; [left; left; exact H | |].
      * left. right. exists t. split; [|exact Hk]. rewrite N.land_spec, Ht, Hr. reflexivity.
      * right. exists t. split; [|reflexivity]. unfold andn. rewrite N.ldiff_spec, N.land_spec, Ht, Hr. reflexivity.
Qed.

Lemma addPawnDoubleMovesByMask_In : forall l mask d m, mask < 2 ^ 64 ->
  (In m (addPawnDoubleMovesByMask l mask d) <->
   In m l \/ exists t, N.testbit mask t = true /\ m = mkMove (sqAdd t d) t EMPTY).
Proof.
  intros l mask d m Hm. unfold addPawnDoubleMovesByMask.
  apply (forSquares_In _ move (fun x l => In x l) (fun sq x => x = mkMove (sqAdd sq d) sq EMPTY)); [|exact Hm].
  intros acc sq x _. apply addMove_In.
Qed.

(** * The Spec's pawn moves, clause by clause *)
Local Open Scope Z_scope.
Definition lastRank (w : bool) : Z := if w then 7 else 0.
Definition startRank (w : bool) : Z := if w then 1 else 6.

Lemma pawn_arrive_In : forall w f r f' r' m,
  In m (pawn_arrive w f r f' r') <->
  (r' = lastRank w /\ exists k, In k promoKinds /\ m = mv f r f' r' (mk_piece w k)) \/
  (r' <> lastRank w /\ m = mv f r f' r' EMPTY).
Proof.
  intros. unfold pawn_arrive, lastRank. destruct (Z.eqb_spec r' (if w then 7 else 0)) as [E|E]; cbn [In]; split.
  - intros [<-|[<-|[<-|[<-|[]]]]]; left; (split; [exact E|]);
      [exists Queen | exists Rook | exists Bishop | exists Knight]; (split; [cbn; auto 10 | reflexivity]).
  - intros [[_ [k [Hk ->]]]|[Hne _]]; [|contradiction]. cbn in Hk. destruct Hk as [<-|[<-|[<-|[<-|[]]]]]; auto 10.
  - intros [<-|[]]. right. auto.
  - intros [[He _]|[_ ->]]; [contradiction | auto].
Qed.

Definition S_push1 (b : board) (w : bool) (f r : Z) (m : move) : Prop :=
  on_board f (r + dirOf w) = true /\ at_ b f (r + dirOf w) = EMPTY /\ In m (pawn_arrive w f r f (r + dirOf w)).
Definition S_push2 (b : board) (w : bool) (f r : Z) (m : move) : Prop :=
  on_board f (r + dirOf w) = true /\ at_ b f (r + dirOf w) = EMPTY /\ r = startRank w /\
  at_ b f (r + dirOf w + dirOf w) = EMPTY /\ m = mv f r f (r + dirOf w + dirOf w) EMPTY.
Definition S_capture (b : board) (w : bool) (ep : Z) (f r f' : Z) (m : move) : Prop :=
  on_board f' (r + dirOf w) = true /\
  ((has_color (negb w) (at_ b f' (r + dirOf w)) = true /\ In m (pawn_arrive w f r f' (r + dirOf w))) \/
   (has_color (negb w) (at_ b f' (r + dirOf w)) = false /\ Z.of_N (sq_of f' (r + dirOf w)) = ep /\
    at_ b f' (r + dirOf w) = EMPTY /\ m = mv f r f' (r + dirOf w) EMPTY)).

Lemma pawn_moves_In : forall sp f r m,
  In m (pawn_moves sp f r) <->
  S_push1 (sp_board sp) (sp_white sp) f r m \/ S_push2 (sp_board sp) (sp_white sp) f r m \/
  S_capture (sp_board sp) (sp_white sp) (sp_ep sp) f r (f - 1) m \/
  S_capture (sp_board sp) (sp_white sp) (sp_ep sp) f r (f + 1) m.
Proof.
  intros sp f r m. unfold pawn_moves, S_push1, S_push2, S_capture, dirOf, startRank.
  set (b := sp_board sp). set (w := sp_white sp). cbv zeta.
  set (dr := if w then 1 else -1).
  assert (Hcap : forall f', In m (if on_board f' (r + dr)
                                  then if has_color (negb w) (at_ b f' (r + dr)) then pawn_arrive w f r f' (r + dr)
                                       else if (Z.of_N (sq_of f' (r + dr)) =? sp_ep sp) && (at_ b f' (r + dr) =? EMPTY)%N
                                            then [mv f r f' (r + dr) EMPTY] else []
                                  else []) <->
          on_board f' (r + dr) = true /\
          ((has_color (negb w) (at_ b f' (r + dr)) = true /\ In m (pawn_arrive w f r f' (r + dr))) \/
           (has_color (negb w) (at_ b f' (r + dr)) = false /\ Z.of_N (sq_of f' (r + dr)) = sp_ep sp /\
            at_ b f' (r + dr) = EMPTY /\ m = mv f r f' (r + dr) EMPTY))).
  { intro f'. destruct (on_board f' (r + dr)); [|split; [intros [] | intros [? _]; discriminate]].
    destruct (has_color (negb w) (at_ b f' (r + dr))).
    - split; [intro H; split; [reflexivity | left; auto] | intros [_ [[_ H]|[H _]]]; [exact H | discriminate]].
    - destruct (Z.eqb_spec (Z.of_N (sq_of f' (r + dr))) (sp_ep sp)) as [E|E]; cbn [andb].
      + destruct (N.eqb_spec (at_ b f' (r + dr)) EMPTY) as [E2|E2]; cbn [In].
        * split; [intros [<-|[]]; split; [reflexivity | right; auto] | intros [_ [[H _]|[_ [_ [_ ->]]]]]; [discriminate | auto]].
        * split; [intros [] | intros [_ [[H _]|[_ [_ [H _]]]]]; [discriminate | contradiction]].
      + cbn [In]. split; [intros [] | intros [_ [[H _]|[_ [H _]]]]; [discriminate | contradiction]]. }
  rewrite !in_app_iff, !Hcap. clear Hcap.
  assert (Hpush : In m (if on_board f (r + dr) && (at_ b f (r + dr) =? EMPTY)%N
                        then pawn_arrive w f r f (r + dr) ++
                             (if (r =? (if w then 1 else 6)) && (at_ b f (r + dr + dr) =? EMPTY)%N then [mv f r f (r + dr + dr) EMPTY] else [])
                        else []) <->
          (on_board f (r + dr) = true /\ at_ b f (r + dr) = EMPTY /\ In m (pawn_arrive w f r f (r + dr))) \/
          (on_board f (r + dr) = true /\ at_ b f (r + dr) = EMPTY /\ r = (if w then 1 else 6) /\
           at_ b f (r + dr + dr) = EMPTY /\ m = mv f r f (r + dr + dr) EMPTY)).
  { destruct (on_board f (r + dr)); cbn [andb]; [|split; [intros [] | intros [[? _]|[? _]]; discriminate]].
    destruct (N.eqb_spec (at_ b f (r + dr)) EMPTY) as [E|E]; [|split; [intros [] | intros [[_ [? _]]|[_ [? _]]]; contradiction]].
    rewrite in_app_iff.
    destruct (Z.eqb_spec r (if w then 1 else 6)) as [E1|E1]; cbn [andb].
    - destruct (N.eqb_spec (at_ b f (r + dr + dr)) EMPTY) as [E2|E2]; cbn [In].
      + split; [intros [H|[<-|[]]]; [left | right]; auto | intros [[_ [_ H]]|[_ [_ [_ [_ ->]]]]]; auto].
      + split; [intros [H|[]]; left; auto | intros [[_ [_ H]]|[_ [_ [_ [H _]]]]]; [auto | contradiction]].
    - cbn [In]. split; [intros [H|[]]; left; auto | intros [[_ [_ H]]|[_ [_ [H _]]]]; [auto | contradiction]]. }
  rewrite Hpush. tauto.
Qed.
Local Open Scope N_scope.

(** * What WF says about the en-passant square *)
Lemma accepted_ep : forall sp, accepted sp = true ->
  (sp_ep sp = -1 \/
   (0 <= sp_ep sp < 64 /\ sp_ep sp / 8 = (if sp_white sp then 5 else 2) /\
    at_ (sp_board sp) (sp_ep sp mod 8) (sp_ep sp / 8) = EMPTY))%Z.
Proof.
  intros sp H. unfold accepted in H. cbv zeta in H. apply andb_true_iff in H. destruct H as [_ H].
  apply orb_true_iff in H. destruct H as [H|H]; [left; apply Z.eqb_eq; exact H|]. right.
  rewrite !andb_true_iff in H. destruct H as [[H1 H2] [[H3 H4] _]].
  apply Z.leb_le in H1. apply Z.ltb_lt in H2. apply Z.eqb_eq in H3. apply N.eqb_eq in H4. auto.
Qed.

Lemma epMask_testbit : forall p t, WF p -> t < 64 ->
  (N.testbit (epMaskOf p) t = true <-> Z.of_N t = epSquare p).
Proof.
  intros p t H Ht. destruct (WF_parts p H) as [_ [_ [_ [_ Ha]]]]. apply accepted_ep in Ha. cbn [abs sp_ep] in Ha.
  unfold epMaskOf. destruct (Z.leb_spec 0 (epSquare p)) as [H0|H0].
  - rewrite bit_testbit, N.eqb_eq. split; [intros <-; lia | intros <-; lia].
  - rewrite N.bits_0. split; [discriminate | lia].
Qed.

(** * Shape of the moves added for one target square *)
Definition shape (w : bool) (from t : square) (m : move) : Prop :=
  (N.testbit maskRow1Row8 t = true /\ exists k, In k promoKinds /\ m = mkMove from t (mk_piece w k)) \/
  (N.testbit maskRow1Row8 t = false /\ m = mkMove from t EMPTY).

Lemma shape_arrive : forall w from t m, from < 64 -> t < 64 -> (zr t = zr from + dirOf w)%Z ->
  (shape w from t m <-> In m (pawn_arrive w (zf from) (zr from) (zf t) (zr t))).
Proof.
  intros w from t m Hf Ht Hr. destruct (masks_spec t Ht) as [Hm _].
  destruct (coords_of_sq from Hf) as [Hobf [_ Hsf]]. destruct (coords_of_sq t Ht) as [Hobt [_ Hst]].
  unfold shape. rewrite pawn_arrive_In, Hm. unfold mv. rewrite Hsf, Hst.
  unfold on_board in Hobf. rewrite !andb_true_iff, !Z.leb_le in Hobf.
  assert (Hrow : ((zr t =? 0) || (zr t =? 7))%Z = (zr t =? lastRank w)%Z).
  { unfold lastRank, dirOf in *. destruct w.
    - replace (zr t =? 0)%Z with false by (symmetry; apply Z.eqb_neq; lia). reflexivity.
    - replace (zr t =? 7)%Z with false by (symmetry; apply Z.eqb_neq; lia). apply orb_false_r. }
  rewrite Hrow. destruct (Z.eqb_spec (zr t) (lastRank w)) as [E|E]; split.
  - intros [[_ H]|[H _]]; [left; auto | discriminate].
  - intros [[_ H]|[H _]]; [left; auto | contradiction].
  - intros [[H _]|[_ H]]; [discriminate | right; auto].
  - intros [[H _]|[_ H]]; [contradiction | right; auto].
Qed.

(** * Engine side *)
Lemma fwd_lt : forall w x k, x < 2 ^ 64 -> fwd w x k < 2 ^ 64.
Proof.
  intros w x k Hx. apply lt_2_64_of_bits. intros i Hi. apply (fwd_testbit w x k i Hx) in Hi. apply Hi.
Qed.

Lemma delta_16 : forall w, delta w 16 = (delta w 8 + delta w 8)%Z.
Proof. destruct w; reflexivity. Qed.

Lemma pawnBlock_normal : forall w pos l,
  pawnBlock w pos l =
  let occupied := occupiedBB pos in
  let pawns := ptBB pos (myPiece w WPAWN) in
  let enemyOrEp := N.lor (colorBB pos (negb w)) (epMaskOf pos) in
  let m1 := andn (fwd w pawns 8) occupied in
  let l := addPawnMovesByMask w l m1 (delta w 8) true in
  let m2 := andn (fwd w (N.land m1 (if w then maskRow3 else maskRow6)) 8) occupied in
  let l := addPawnDoubleMovesByMask l m2 (delta w 16) in
  let m3 := N.land (N.land (fwd w pawns (if w then 7 else 9)) maskAToGFiles) enemyOrEp in
  let l := addPawnMovesByMask w l m3 (delta w (if w then 7 else 9)) true in
  let m4 := N.land (N.land (fwd w pawns (if w then 9 else 7)) maskBToHFiles) enemyOrEp in
  addPawnMovesByMask w l m4 (delta w (if w then 9 else 7)) true.
Proof. intros. destruct w; reflexivity. Qed.

Section PawnBlock.
Variable p : position.
Hypothesis HWF : WF p.
Variable w : bool.
Let b := squares p.
Let pawns := ptBB p (myPiece w WPAWN).
Let occ := occupiedBB p.

Lemma pawns_lt : pawns < 2 ^ 64.
Proof. apply ptBB_lt; [exact HWF | apply myPiece_codes; cbn; tauto]. Qed.

Lemma pawns_bit : forall s, N.testbit pawns s = true <-> s < 64 /\ getPiece p s = mk_piece w Pawn.
Proof.
  intro s. unfold pawns. rewrite (ptBB_testbit p _ s HWF) by (apply myPiece_codes; cbn; tauto).
  destruct (myPiece_mk w) as [_ [_ [_ [_ ->]]]]. rewrite andb_true_iff, N.ltb_lt, N.eqb_eq. tauto.
Qed.

Lemma empty_bit : forall t, t < 64 -> (N.testbit occ t = false <-> getPiece p t = EMPTY).
Proof.
  intros t Ht. unfold occ. rewrite (occupied_testbit p t HWF).
  replace (t <? 64) with true by (symmetry; apply N.ltb_lt; exact Ht). cbn [andb].
  rewrite negb_false_iff, N.eqb_eq. tauto.
Qed.

(** one step ahead: generic bridge between "t = from +- k, no wrap" and coordinates *)
Lemma target_bridge : forall (k : N) (df : Z) (filt : square -> bool) (Q : square -> Prop) from,
  (forall t, t < 64 -> ((Z.of_N from =? Z.of_N t + delta w k)%Z && filt t)
                       = ((zf t =? zf from + df)%Z && (zr t =? zr from + dirOf w)%Z)) ->
  from < 64 -> getPiece p from = mk_piece w Pawn ->
  ((exists t, N.testbit (fwd w pawns k) t = true /\ filt t = true /\ sqAdd t (delta w k) = from /\ Q t) <->
   (on_board (zf from + df) (zr from + dirOf w) = true /\ Q (sq_of (zf from + df) (zr from + dirOf w)))).
Proof.
  intros k df filt Q from Hgeo Hf Hp. split.
  - intros [t [Hb [Hfl [Hfrom Hq]]]]. apply (fwd_testbit w pawns k t pawns_lt) in Hb. destruct Hb as [Ht [_ Hz]].
    rewrite Hfrom in Hz. specialize (Hgeo t Ht). rewrite Hfl, Hz, Z.eqb_refl in Hgeo. cbn [andb] in Hgeo.
    symmetry in Hgeo. apply andb_true_iff in Hgeo. destruct Hgeo as [G1 G2]. apply Z.eqb_eq in G1, G2.
    destruct (coords_of_sq t Ht) as [Hob [_ Hsq]]. rewrite <- G1, <- G2, Hob, Hsq. auto.
  - intros [Hob Hq]. destruct (sq_of_coords _ _ Hob) as [Ht [Hzf [Hzr _]]].
    set (t := sq_of (zf from + df) (zr from + dirOf w)) in *. exists t.
    specialize (Hgeo t Ht). rewrite Hzf, Hzr, !Z.eqb_refl in Hgeo. cbn [andb] in Hgeo.
    apply andb_true_iff in Hgeo. destruct Hgeo as [G1 G2]. apply Z.eqb_eq in G1.
    assert (Hfrom : sqAdd t (delta w k) = from) by (unfold sqAdd; rewrite <- G1; apply N2Z.id).
    repeat split; try assumption.
    apply (fwd_testbit w pawns k t pawns_lt). rewrite Hfrom. repeat split; [exact Ht | apply pawns_bit; auto | exact G1].
Qed.

(** single push *)
Lemma E1_S1 : forall from m, from < 64 -> getPiece p from = mk_piece w Pawn ->
  ((exists t, N.testbit (andn (fwd w pawns 8) occ) t = true /\ sqAdd t (delta w 8) = from /\ shape w from t m) <->
   S_push1 b w (zf from) (zr from) m).
Proof.
  intros from m Hf Hp.
  pose proof (target_bridge 8 0%Z (fun _ => true)
                (fun t => N.testbit occ t = false /\ shape w from t m) from) as HB.
  rewrite Z.add_0_r in HB.
  assert (Hgeo : forall t, t < 64 -> ((Z.of_N from =? Z.of_N t + delta w 8)%Z && true)
                                     = ((zf t =? zf from)%Z && (zr t =? zr from + dirOf w)%Z)).
  { intros t Ht. rewrite andb_true_r. apply (pawnGeom_spec w from t Hf Ht). }
  specialize (HB Hgeo Hf Hp). unfold S_push1, b. split.
  - intros [t [Hb [Hfrom Hs]]]. unfold andn in Hb. rewrite N.ldiff_spec in Hb. apply andb_true_iff in Hb.
    destruct Hb as [Hb1 Hb2]. apply negb_true_iff in Hb2.
    assert (Hex : exists t, N.testbit (fwd w pawns 8) t = true /\ true = true /\ sqAdd t (delta w 8) = from /\
                            N.testbit occ t = false /\ shape w from t m) by (exists t; auto).
    apply HB in Hex. destruct Hex as [Hob [He Hsh]]. destruct (sq_of_coords _ _ Hob) as [Ht [Hzf [Hzr _]]].
    split; [exact Hob|]. split.
    + rewrite (at_getPiece p _ _ Hob). apply empty_bit; assumption.
    + apply (shape_arrive w from _ m Hf Ht) in Hsh; [|exact Hzr]. rewrite Hzf, Hzr in Hsh. exact Hsh.
  - intros [Hob [He Ha]]. destruct (sq_of_coords _ _ Hob) as [Ht [Hzf [Hzr _]]].
    assert (Hq : N.testbit occ (sq_of (zf from) (zr from + dirOf w)) = false /\
                 shape w from (sq_of (zf from) (zr from + dirOf w)) m).
    { split; [apply empty_bit; [exact Ht | rewrite <- (at_getPiece p _ _ Hob); exact He]|].
      apply (shape_arrive w from _ m Hf Ht Hzr). rewrite Hzf, Hzr. exact Ha. }
    destruct (proj2 HB (conj Hob Hq)) as [t [Hb [_ [Hfrom [Ho Hs]]]]].
    exists t. split; [|auto]. unfold andn. rewrite N.ldiff_spec, Hb, Ho. reflexivity.
Qed.

(** captures (df = -1 with the A..G file mask, df = +1 with the B..H file mask) and en passant *)
Lemma E34_S34 : forall (k : N) (df : Z) (fmask : N) from m,
  (forall t, t < 64 -> ((Z.of_N from =? Z.of_N t + delta w k)%Z && N.testbit fmask t)
                       = ((zf t =? zf from + df)%Z && (zr t =? zr from + dirOf w)%Z)) ->
  w = whiteMove p ->
  from < 64 -> getPiece p from = mk_piece w Pawn ->
  ((exists t, N.testbit (N.land (N.land (fwd w pawns k) fmask) (N.lor (colorBB p (negb w)) (epMaskOf p))) t = true /\
              sqAdd t (delta w k) = from /\ shape w from t m) <->
   S_capture b w (epSquare p) (zf from) (zr from) (zf from + df) m).
Proof.
  intros k df fmask from m Hgeo Hw Hf Hp.
  pose proof (target_bridge k df (fun t => N.testbit fmask t)
                (fun t => N.testbit (N.lor (colorBB p (negb w)) (epMaskOf p)) t = true /\ shape w from t m) from Hgeo Hf Hp) as HB.
  destruct (WF_parts p HWF) as [_ [_ [_ [_ Hacc]]]]. apply accepted_ep in Hacc. cbn [abs sp_ep sp_white sp_board] in Hacc.
  assert (Hcase : forall t, t < 64 -> (zr t = zr from + dirOf w)%Z ->
            (N.testbit (N.lor (colorBB p (negb w)) (epMaskOf p)) t = true /\ shape w from t m <->
             (has_color (negb w) (getPiece p t) = true /\ In m (pawn_arrive w (zf from) (zr from) (zf t) (zr t))) \/
             (has_color (negb w) (getPiece p t) = false /\ Z.of_N t = epSquare p /\ getPiece p t = EMPTY /\ m = mkMove from t EMPTY))).
  { intros t Ht Hzr. rewrite N.lor_spec, orb_true_iff, (colorBB_testbit p _ t HWF).
    replace (t <? 64) with true by (symmetry; apply N.ltb_lt; exact Ht). cbn [andb].
    rewrite (epMask_testbit p t HWF Ht). rewrite (shape_arrive w from t m Hf Ht Hzr).
    destruct (has_color (negb w) (getPiece p t)) eqn:Ec.
    - split; [intros [_ H]; left; auto | intros [[_ H]|[H _]]; [auto | discriminate]].
    - split.
      + intros [[H|He] Ha]; [discriminate|]. right. split; [reflexivity|]. split; [exact He|].
        destruct Hacc as [Hn|[Hr [Hrank Hemp]]]; [lia|].
        assert (Et : t = Z.to_N (epSquare p)) by lia.
        assert (Hzf' : zf t = (epSquare p mod 8)%Z) by (unfold zf; rewrite He; reflexivity).
        assert (Hzr' : zr t = (epSquare p / 8)%Z) by (unfold zr; rewrite He; reflexivity).
        assert (Hge : getPiece p t = EMPTY) by (rewrite (getPiece_at p t Ht), Hzf', Hzr'; exact Hemp).
        split; [exact Hge|].
        apply pawn_arrive_In in Ha. destruct Ha as [[Hl _]|[_ Ha]].
        * exfalso. rewrite Hzr', Hrank, <- Hw in Hl. unfold lastRank in Hl. destruct w; lia.
        * unfold mv in Ha. destruct (coords_of_sq from Hf) as [_ [_ Hsf]]. destruct (coords_of_sq t Ht) as [_ [_ Hst]].
          rewrite Hsf, Hst in Ha. exact Ha.
      + intros [[H _]|[_ [He [Hge ->]]]]; [discriminate|]. split; [right; exact He|].
        apply pawn_arrive_In. right.
        destruct Hacc as [Hn|[Hr [Hrank Hemp]]]; [lia|].
        assert (Hzr' : zr t = (epSquare p / 8)%Z) by (unfold zr; rewrite He; reflexivity).
        split.
        * rewrite Hzr', Hrank, <- Hw. unfold lastRank. destruct w; lia.
        * unfold mv. destruct (coords_of_sq from Hf) as [_ [_ Hsf]]. destruct (coords_of_sq t Ht) as [_ [_ Hst]].
          rewrite Hsf, Hst. reflexivity. }
  unfold S_capture, b. split.
  - intros [t [Hb [Hfrom Hs]]]. rewrite !N.land_spec in Hb. rewrite !andb_true_iff in Hb. destruct Hb as [[Hb1 Hb2] Hb3].
    assert (Hex : exists t, N.testbit (fwd w pawns k) t = true /\ N.testbit fmask t = true /\ sqAdd t (delta w k) = from /\
                            N.testbit (N.lor (colorBB p (negb w)) (epMaskOf p)) t = true /\ shape w from t m) by (exists t; auto).
    apply HB in Hex. destruct Hex as [Hob Hq]. destruct (sq_of_coords _ _ Hob) as [Ht [Hzf [Hzr _]]].
    split; [exact Hob|]. apply (Hcase _ Ht Hzr) in Hq. rewrite (at_getPiece p _ _ Hob).
    rewrite Hzf, Hzr in Hq. destruct Hq as [Hq|[Hc [He [Hge Hm]]]]; [left; exact Hq | right].
    repeat split; try assumption. rewrite Hm. unfold mv. destruct (coords_of_sq from Hf) as [_ [_ ->]]. reflexivity.
  - intros [Hob Hs]. destruct (sq_of_coords _ _ Hob) as [Ht [Hzf [Hzr _]]].
    rewrite (at_getPiece p _ _ Hob) in Hs.
    assert (Hq : N.testbit (N.lor (colorBB p (negb w)) (epMaskOf p)) (sq_of (zf from + df) (zr from + dirOf w)) = true /\
                 shape w from (sq_of (zf from + df) (zr from + dirOf w)) m).
    { apply (Hcase _ Ht Hzr). rewrite Hzf, Hzr. destruct Hs as [Hs|[Hc [He [Hge Hm]]]]; [left; exact Hs | right].
      repeat split; try assumption. rewrite Hm. unfold mv. destruct (coords_of_sq from Hf) as [_ [_ ->]]. reflexivity. }
    destruct (proj2 HB (conj Hob Hq)) as [t [Hb [Hfl [Hfrom [Ho Hsh]]]]].
    exists t. split; [|auto]. rewrite !N.land_spec, Hb, Hfl, Ho. reflexivity.
Qed.

(** double push *)
Lemma E2_S2 : forall from m, from < 64 -> getPiece p from = mk_piece w Pawn ->
  ((exists t, N.testbit (andn (fwd w (N.land (andn (fwd w pawns 8) occ) (if w then maskRow3 else maskRow6)) 8) occ) t = true /\
              sqAdd t (delta w 16) = from /\ m = mkMove from t EMPTY) <->
   S_push2 b w (zf from) (zr from) m).
Proof.
  intros from m Hf Hp. unfold S_push2, b.
  assert (Hm1 : andn (fwd w pawns 8) occ < 2 ^ 64) by (apply ldiff_lt, fwd_lt, pawns_lt).
  assert (Hm1r : N.land (andn (fwd w pawns 8) occ) (if w then maskRow3 else maskRow6) < 2 ^ 64) by (apply land_lt_l; exact Hm1).
  destruct (coords_of_sq from Hf) as [Hobf [_ Hsf]].
  assert (Hrow : forall mid, mid < 64 -> (zr mid = zr from + dirOf w)%Z ->
                 (N.testbit (if w then maskRow3 else maskRow6) mid = true <-> zr from = startRank w)).
  { intros mid Hmid Hz. destruct (masks_spec mid Hmid) as [_ [H3 [H6 _]]]. unfold startRank, dirOf in *.
    destruct w; [rewrite H3 | rewrite H6]; rewrite Z.eqb_eq; lia. }
  split.
  - intros [t [Hb [Hfrom ->]]]. unfold andn in Hb at 1. rewrite N.ldiff_spec in Hb. apply andb_true_iff in Hb.
    destruct Hb as [Hb1 Hb2]. apply negb_true_iff in Hb2.
    apply (fwd_testbit w _ 8 t Hm1r) in Hb1. destruct Hb1 as [Ht [Hmid Hzmid]].
    set (mid := sqAdd t (delta w 8)) in *.
    rewrite N.land_spec in Hmid. apply andb_true_iff in Hmid. destruct Hmid as [Hmid1 Hmidrow].
    unfold andn in Hmid1. rewrite N.ldiff_spec in Hmid1. apply andb_true_iff in Hmid1. destruct Hmid1 as [Hmid1 Hmidocc].
    apply negb_true_iff in Hmidocc.
    apply (fwd_testbit w pawns 8 mid pawns_lt) in Hmid1. destruct Hmid1 as [Hmid64 [_ Hzfrom']].
    assert (Hfrom' : sqAdd mid (delta w 8) = from).
    { unfold sqAdd in *. rewrite <- Hfrom. rewrite delta_16. f_equal. lia. }
    rewrite Hfrom' in Hzfrom'.
    destruct (pawnGeom_spec w from mid Hf Hmid64) as [G1 _]. cbv zeta in G1.
    rewrite Hzfrom', Z.eqb_refl in G1. symmetry in G1. apply andb_true_iff in G1. destruct G1 as [G1a G1b].
    apply Z.eqb_eq in G1a, G1b.
    destruct (pawnGeom_spec w mid t Hmid64 Ht) as [G2 _]. cbv zeta in G2.
    rewrite Hzmid, Z.eqb_refl in G2. symmetry in G2. apply andb_true_iff in G2. destruct G2 as [G2a G2b].
    apply Z.eqb_eq in G2a, G2b.
    destruct (coords_of_sq mid Hmid64) as [Hobm [_ Hsm]]. destruct (coords_of_sq t Ht) as [Hobt [_ Hst]].
    rewrite G1a, G1b in Hobm, Hsm. rewrite G2a, G2b, G1a, G1b in Hobt, Hst.
    split; [exact Hobm|]. split; [rewrite (at_getPiece p _ _ Hobm), Hsm; apply empty_bit; assumption|].
    split; [apply (Hrow mid Hmid64 G1b); exact Hmidrow|].
    split; [rewrite (at_getPiece p _ _ Hobt), Hst; apply empty_bit; assumption|].
    unfold mv. rewrite Hsf, Hst. reflexivity.
  - intros [Hob1 [He1 [Hstart [He2 ->]]]].
    assert (Hob2 : on_board (zf from) (zr from + dirOf w + dirOf w) = true).
    { unfold on_board in *. rewrite !andb_true_iff, !Z.leb_le in *. unfold startRank, dirOf in *. destruct w; lia. }
    destruct (sq_of_coords _ _ Hob1) as [Hmid64 [Hmf [Hmr _]]]. destruct (sq_of_coords _ _ Hob2) as [Ht [Htf [Htr _]]].
    set (mid := sq_of (zf from) (zr from + dirOf w)) in *. set (t := sq_of (zf from) (zr from + dirOf w + dirOf w)) in *.
    destruct (pawnGeom_spec w from mid Hf Hmid64) as [G1 _]. cbv zeta in G1.
    rewrite Hmf, Hmr, !Z.eqb_refl in G1. cbn [andb] in G1. apply Z.eqb_eq in G1.
    destruct (pawnGeom_spec w mid t Hmid64 Ht) as [G2 _]. cbv zeta in G2.
    rewrite Htf, Htr, Hmf, Hmr, !Z.eqb_refl in G2. cbn [andb] in G2. apply Z.eqb_eq in G2.
    assert (Hsm : sqAdd t (delta w 8) = mid) by (unfold sqAdd; rewrite <- G2; apply N2Z.id).
    assert (Hsf2 : sqAdd mid (delta w 8) = from) by (unfold sqAdd; rewrite <- G1; apply N2Z.id).
    assert (Hs16 : sqAdd t (delta w 16) = from).
    { unfold sqAdd. rewrite delta_16. replace (Z.of_N t + (delta w 8 + delta w 8))%Z with (Z.of_N from) by lia. apply N2Z.id. }
    exists t. split; [|split; [exact Hs16 | unfold mv; rewrite Hsf; reflexivity]].
    unfold andn at 1. rewrite N.ldiff_spec. apply andb_true_iff. split.
    + apply (fwd_testbit w _ 8 t Hm1r). rewrite Hsm. split; [exact Ht|]. split; [|exact G2].
      rewrite N.land_spec. apply andb_true_iff. split.
      * unfold andn. rewrite N.ldiff_spec. apply andb_true_iff. split.
        -- apply (fwd_testbit w pawns 8 mid pawns_lt). rewrite Hsf2. split; [exact Hmid64|]. split; [apply pawns_bit; auto | exact G1].
        -- apply negb_true_iff. apply empty_bit; [exact Hmid64|]. unfold mid. rewrite <- (at_getPiece p _ _ Hob1). exact He1.
      * apply (Hrow mid Hmid64 Hmr). exact Hstart.
    + apply negb_true_iff. apply empty_bit; [exact Ht|]. unfold t. rewrite <- (at_getPiece p _ _ Hob2). exact He2.
Qed.
End PawnBlock.

(** * Assembly *)
Lemma shape_unfold : forall w d t m,
  ((N.testbit maskRow1Row8 t = true /\ exists k, In k promoKinds /\ m = mkMove (sqAdd t d) t (mk_piece w k)) \/
   (N.testbit maskRow1Row8 t = false /\ m = mkMove (sqAdd t d) t EMPTY)) <-> shape w (sqAdd t d) t m.
Proof. intros. unfold shape. tauto. Qed.

Theorem pawnBlock_spec : forall p m, WF p ->
  (In m (pawnBlock (whiteMove p) p []) <->
   exists f r, on_board f r = true /\ at_ (squares p) f r = mk_piece (whiteMove p) Pawn /\
               In m (pawn_moves (abs p) f r)).
Proof.
  intros p m H. set (w := whiteMove p).
  set (pawns := ptBB p (myPiece w WPAWN)). set (occ := occupiedBB p).
  pose proof (pawns_lt p H w) as Hpl. fold pawns in Hpl.
  assert (Hfrom : forall k t, N.testbit (fwd w pawns k) t = true ->
                    sqAdd t (delta w k) < 64 /\ getPiece p (sqAdd t (delta w k)) = mk_piece w Pawn).
  { intros k t Hb. apply (fwd_testbit w pawns k t Hpl) in Hb. destruct Hb as [_ [Hb _]].
    apply (pawns_bit p H w). exact Hb. }
  (* both sides as "exists a pawn square with one of the four clauses" *)
  transitivity (exists from, from < 64 /\ getPiece p from = mk_piece w Pawn /\
                  (S_push1 (squares p) w (zf from) (zr from) m \/ S_push2 (squares p) w (zf from) (zr from) m \/
                   S_capture (squares p) w (epSquare p) (zf from) (zr from) (zf from - 1) m \/
                   S_capture (squares p) w (epSquare p) (zf from) (zr from) (zf from + 1) m)).
  - rewrite pawnBlock_normal. cbv zeta. fold pawns occ.
    set (m1 := andn (fwd w pawns 8) occ).
    set (m2 := andn (fwd w (N.land m1 (if w then maskRow3 else maskRow6)) 8) occ).
    set (eoe := N.lor (colorBB p (negb w)) (epMaskOf p)).
    set (kL := if w then 7 else 9). set (kR := if w then 9 else 7).
    set (m3 := N.land (N.land (fwd w pawns kL) maskAToGFiles) eoe).
    set (m4 := N.land (N.land (fwd w pawns kR) maskBToHFiles) eoe).
    assert (Hm1 : m1 < 2 ^ 64) by (apply ldiff_lt, fwd_lt; exact Hpl).
    assert (Hm2 : m2 < 2 ^ 64) by (apply ldiff_lt, fwd_lt, land_lt_l; exact Hm1).
    assert (Hm3 : m3 < 2 ^ 64) by (apply land_lt_l, land_lt_l, fwd_lt; exact Hpl).
    assert (Hm4 : m4 < 2 ^ 64) by (apply land_lt_l, land_lt_l, fwd_lt; exact Hpl).
    rewrite (addPawnMovesByMask_In w _ m4 _ m Hm4), (addPawnMovesByMask_In w _ m3 _ m Hm3),
            (addPawnDoubleMovesByMask_In _ m2 _ m Hm2), (addPawnMovesByMask_In w _ m1 _ m Hm1).
    cbn [In].
    (* geometry hypotheses of the capture bridges *)
    assert (HgL : forall from, from < 64 -> forall t, t < 64 ->
              ((Z.of_N from =? Z.of_N t + delta w kL)%Z && N.testbit maskAToGFiles t)
              = ((zf t =? zf from + -1)%Z && (zr t =? zr from + dirOf w)%Z)).
    { intros from Hf t Ht. destruct (masks_spec t Ht) as [_ [_ [_ [-> _]]]].
      destruct (pawnGeom_spec w from t Hf Ht) as [_ [_ [G _]]]. cbv zeta in G. unfold kL. rewrite G.
      replace (zf from + -1)%Z with (zf from - 1)%Z by lia. reflexivity. }
    assert (HgR : forall from, from < 64 -> forall t, t < 64 ->
              ((Z.of_N from =? Z.of_N t + delta w kR)%Z && N.testbit maskBToHFiles t)
              = ((zf t =? zf from + 1)%Z && (zr t =? zr from + dirOf w)%Z)).
    { intros from Hf t Ht. destruct (masks_spec t Ht) as [_ [_ [_ [_ ->]]]].
      destruct (pawnGeom_spec w from t Hf Ht) as [_ [_ [_ G]]]. cbv zeta in G. unfold kR. exact G. }
    split.
    + intros [[[[[]|[t [Hb Hs]]]|[t [Hb Hs]]]|[t [Hb Hs]]]|[t [Hb Hs]]].
      * (* single push *)
        apply shape_unfold in Hs.
        assert (Hb' : N.testbit (fwd w pawns 8) t = true).
        { unfold m1, andn in Hb. rewrite N.ldiff_spec in Hb. apply andb_true_iff in Hb. apply Hb. }
        destruct (Hfrom 8 t Hb') as [Hf Hp]. exists (sqAdd t (delta w 8)). split; [exact Hf|]. split; [exact Hp|]. left.
        apply (E1_S1 p H w _ m Hf Hp). exists t. auto.
      * (* double push *)
        assert (Hb' : N.testbit (fwd w (N.land m1 (if w then maskRow3 else maskRow6)) 8) t = true).
        { unfold m2, andn in Hb. rewrite N.ldiff_spec in Hb. apply andb_true_iff in Hb. apply Hb. }
        apply (fwd_testbit w _ 8 t) in Hb'; [|apply land_lt_l; exact Hm1]. destruct Hb' as [Ht [Hmid Hz]].
        rewrite N.land_spec in Hmid. apply andb_true_iff in Hmid. destruct Hmid as [Hmid _].
        unfold m1, andn in Hmid. rewrite N.ldiff_spec in Hmid. apply andb_true_iff in Hmid. destruct Hmid as [Hmid _].
        pose proof (proj1 (fwd_testbit w pawns 8 _ Hpl) Hmid) as [_ [_ Hz2]].
        destruct (Hfrom 8 _ Hmid) as [Hf Hp].
        assert (E : sqAdd (sqAdd t (delta w 8)) (delta w 8) = sqAdd t (delta w 16)).
        { unfold sqAdd in *. rewrite delta_16. f_equal. lia. }
        rewrite E in Hf, Hp. exists (sqAdd t (delta w 16)). split; [exact Hf|]. split; [exact Hp|]. right. left.
        apply (E2_S2 p H w _ m Hf Hp). exists t. auto.
      * (* capture towards the a-file *)
        apply shape_unfold in Hs.
        assert (Hb' : N.testbit (fwd w pawns kL) t = true).
        { unfold m3 in Hb. rewrite !N.land_spec in Hb. rewrite !andb_true_iff in Hb. apply Hb. }
        destruct (Hfrom kL t Hb') as [Hf Hp]. exists (sqAdd t (delta w kL)). split; [exact Hf|]. split; [exact Hp|].
        right. right. left.
        pose proof (E34_S34 p H w kL (-1)%Z maskAToGFiles _ m (HgL _ Hf) eq_refl Hf Hp) as HB.
        replace (zf (sqAdd t (delta w kL)) + -1)%Z with (zf (sqAdd t (delta w kL)) - 1)%Z in HB by lia.
        apply HB. exists t. auto.
      * (* capture towards the h-file *)
        apply shape_unfold in Hs.
        assert (Hb' : N.testbit (fwd w pawns kR) t = true).
        { unfold m4 in Hb. rewrite !N.land_spec in Hb. rewrite !andb_true_iff in Hb. apply Hb. }
        destruct (Hfrom kR t Hb') as [Hf Hp]. exists (sqAdd t (delta w kR)). split; [exact Hf|]. split; [exact Hp|].
        right. right. right.
        apply (E34_S34 p H w kR 1%Z maskBToHFiles _ m (HgR _ Hf) eq_refl Hf Hp). exists t. auto.
    + intros [from [Hf [Hp [Hs|[Hs|[Hs|Hs]]]]]].
      * apply (E1_S1 p H w _ m Hf Hp) in Hs. destruct Hs as [t [Hb [<- Hs]]].
        left. left. left. right. exists t. split; [exact Hb|]. apply shape_unfold. exact Hs.
      * apply (E2_S2 p H w _ m Hf Hp) in Hs. destruct Hs as [t [Hb [<- Hs]]].
        left. left. right. exists t. auto.
      * pose proof (E34_S34 p H w kL (-1)%Z maskAToGFiles from m (HgL _ Hf) eq_refl Hf Hp) as HB.
        replace (zf from + -1)%Z with (zf from - 1)%Z in HB by lia.
        apply HB in Hs. destruct Hs as [t [Hb [<- Hs]]].
        left. right. exists t. split; [exact Hb|]. apply shape_unfold. exact Hs.
      * apply (E34_S34 p H w kR 1%Z maskBToHFiles from m (HgR _ Hf) eq_refl Hf Hp) in Hs. destruct Hs as [t [Hb [<- Hs]]].
        right. exists t. split; [exact Hb|]. apply shape_unfold. exact Hs.
  - split.
    + intros [from [Hf [Hp Hs]]]. destruct (coords_of_sq from Hf) as [Hob _].
      exists (zf from), (zr from). split; [exact Hob|]. split; [rewrite <- (getPiece_at p from Hf); exact Hp|].
      apply pawn_moves_In. exact Hs.
    + intros [f [r [Hob [Hat Hin]]]]. destruct (sq_of_coords f r Hob) as [Hs [Hzf [Hzr _]]].
      exists (sq_of f r). split; [exact Hs|]. split; [rewrite <- (at_getPiece p f r Hob); exact Hat|].
      apply pawn_moves_In in Hin. cbn [abs sp_board sp_white sp_ep] in Hin. rewrite Hzf, Hzr. exact Hin.
Qed.

(** non-vacuity: the pawn block of the pinned en-passant position (black to move, ep square e3)
    contains the en-passant capture f4xe3, and so does the Spec's pawn move list *)
Example epPin_pawn_block :
  In (mkMove 29 20 EMPTY) (pawnBlock false epPinPosition []) /\
  In (mkMove 29 20 EMPTY) (pawn_moves (abs epPinPosition) 5 3).
Proof. split; vm_compute; tauto. Qed.
