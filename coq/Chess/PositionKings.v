(** C02: the number of kings of either colour is preserved by makeMove (no king is captured). *)
From Coq Require Import ZArith NArith List Bool Lia.
From Texel Require Import Chess.Types Chess.Position Chess.PositionSpec Chess.PositionFacts
  Chess.PositionProofs Chess.PositionProofs2 Chess.PositionProofs3 Chess.PositionProofs4
  Chess.PositionTheorems Chess.PositionB.
Import ListNotations.
Local Open Scope N_scope.

Definition ind (b : bool) : Z := if b then 1%Z else 0%Z.
Definition kc (K : piece) (sqs : list piece) : Z := sumZ (map (fun pc => ind (pc =? K)) sqs).

Lemma kc_updN K sqs a x : a < N.of_nat (length sqs) ->
  kc K (updN a x sqs) = (kc K sqs - ind (N.eqb (nthP sqs a) K) + ind (N.eqb x K))%Z.
Proof. intro H. unfold kc, updN, nthP. rewrite (sumZ_map_updL (fun pc => ind (pc =? K))) by lia. reflexivity. Qed.

Lemma kc_plain K s f t newpc :
  length s = 64%nat -> f < 64 -> t < 64 -> f <> t -> K <> EMPTY -> nthP s t <> K ->
  (newpc = nthP s f \/ (nthP s f <> K /\ newpc <> K)) ->
  kc K (updN t newpc (updN f EMPTY s)) = kc K s.
Proof.
  intros Hl Hf Ht Hne HK Hc Hn.
  rewrite kc_updN by (rewrite length_updN; lia). rewrite kc_updN by lia.
  rewrite nthP_updN_neq by auto.
  replace (nthP s t =? K) with false by (symmetry; apply N.eqb_neq; auto).
  replace (EMPTY =? K) with false by (symmetry; apply N.eqb_neq; auto).
  destruct Hn as [->|[H1 H2]].
  - unfold ind. destruct (nthP s f =? K); lia.
  - replace (nthP s f =? K) with false by (symmetry; apply N.eqb_neq; auto).
    replace (newpc =? K) with false by (symmetry; apply N.eqb_neq; auto). unfold ind. lia.
Qed.

Lemma kc_clear K s e : length s = 64%nat -> e < 64 -> K <> EMPTY -> nthP s e <> K -> kc K (updN e EMPTY s) = kc K s.
Proof.
  intros Hl He HK Hn. rewrite kc_updN by lia.
  replace (nthP s e =? K) with false by (symmetry; apply N.eqb_neq; auto).
  replace (EMPTY =? K) with false by (symmetry; apply N.eqb_neq; auto). unfold ind. lia.
Qed.

Lemma squares_setPieceB x sq pc : squares (setPieceB x sq pc) = updN sq pc (squares x).
Proof. unfold setPieceB. cbv zeta. break_if; reflexivity. Qed.
Lemma squares_mPNPB x f t : squares (movePieceNotPawnB x f t) = updN t (getPiece x f) (updN f EMPTY (squares x)).
Proof. unfold movePieceNotPawnB. cbv zeta. break_if; reflexivity. Qed.

Section KC.
Variable zk : zkeys.
Hypothesis EKZ : emptyKeysZero zk.

Lemma moveOk_promo p m : moveOk p m = true -> mpromote m <> EMPTY ->
  mpromote m <> WKING /\ mpromote m <> BKING.
Proof.
  unfold moveOk. cbv zeta. intros H Hn.
  apply andb_prop in H as [H _]. apply andb_prop in H as [H _]. apply andb_prop in H as [_ Hpro].
  destruct (N.eqb_spec (mpromote m) EMPTY); [contradiction|].
  apply andb_prop in Hpro as [Hpro Hk]. apply andb_prop in Hpro as [Hpro _]. apply andb_prop in Hpro as [_ Ho].
  apply negb_true_iff in Hk. apply N.eqb_neq in Hk.
  destruct (whiteMove p); cbn [ownPiece] in Ho; split; auto; intro E; rewrite E in Ho; discriminate.
Qed.

Theorem kings_preserved p m K :
  Consistent zk p -> moveOk p m = true -> K = WKING \/ K = BKING -> getPiece p (mto m) <> K ->
  kc K (squares (fst (makeMove zk p m))) = kc K (squares p).
Proof.
  intros C Hok HK Hcap.
  destruct (bbpart_eq_fields _ _ (makeMoveB_simulates zk p m Hok)) as (<- & _).
  pose proof (moveOk_facts p m Hok) as F. cbv zeta in F.
  destruct F as (Hf & Ht & Hne & Hown & Hcapn & Hpro & Hep & HcK & HcQ).
  pose proof (moveOk_promo p m Hok) as Hprk.
  assert (Hl : length (squares p) = 64%nat) by (destruct C; auto).
  assert (HKE : K <> EMPTY) by (destruct HK as [-> | ->]; discriminate).
  assert (HKP : K <> WPAWN /\ K <> BPAWN) by (destruct HK as [-> | ->]; split; discriminate).
  unfold makeMoveB. cbv zeta. cbn [fst].
  change (pawnsAtB p (sqMask (mfrom m))) with (pawnsAt p (sqMask (mfrom m))).
  change (kingsAtB p (sqMask (mfrom m))) with (kingsAt p (sqMask (mfrom m))).
  rewrite (pawnsAt_spec zk 0) by auto. rewrite (kingsAt_spec zk 0) by auto.
  unfold getPiece in *. fold (nthP (squares p) (mfrom m)) in *. fold (nthP (squares p) (mto m)) in *.
  set (s := squares p) in *. set (f := mfrom m) in *. set (t := mto m) in *.
  set (pc := nthP s f) in *. set (cap := nthP s t) in *.
  destruct (negb (cap =? EMPTY) || isPawnPiece pc) eqn:Ebr.
  - (* capture / pawn move *)
    rewrite if_setPieceB.
    set (newpc := if negb (mpromote m =? EMPTY) then mpromote m else pc).
    assert (Hnew : newpc = pc \/ (pc <> K /\ newpc <> K)).
    { unfold newpc. destruct (N.eqb_spec (mpromote m) EMPTY) as [|n]; cbn [negb]; [left; reflexivity|right].
      destruct (Hpro n) as (E & _). destruct (Hprk n) as (N1 & N2). split.
      - rewrite E. destruct HKP. destruct (whiteMove p); congruence.
      - destruct HK as [-> | ->]; auto. }
    rewrite !squares_setPieceB.
    assert (Gplain : kc K (updN t newpc (updN f EMPTY s)) = kc K s)
      by (apply kc_plain; [exact Hl|exact Hf|exact Ht|exact Hne|exact HKE|exact Hcap|exact Hnew]).
    assert (Gep : forall e, e < 64 -> e <> f -> e <> t -> nthP s e <> K ->
                  kc K (updN t newpc (updN f EMPTY (updN e EMPTY s))) = kc K s).
    { intros e He N1 N2 Hn. rewrite <- (kc_clear K s e) by auto.
      apply kc_plain; [rewrite length_updN; exact Hl|exact Hf|exact Ht|exact Hne|exact HKE| |].
      - rewrite nthP_updN_neq by auto. exact Hcap.
      - rewrite nthP_updN_neq by auto. exact Hnew. }
    destruct (N.eqb_spec pc WPAWN) as [Ew|Ew].
    + destruct (Z.eqb_spec (Z.of_N t) (epSquare p)) as [Ee|Ee]; [|rewrite ?squares_setPieceB; exact Gplain].
      assert (Ewm : whiteMove p = true).
      { destruct (whiteMove p); auto. cbn [ownPiece] in Hown. rewrite Ew in Hown. discriminate. }
      rewrite Ewm in Hep. destruct (Hep Ew Ee) as (_ & _ & H8 & Hbp & _).
      assert (EQ : toSq (sqPlus t (-8)) = t - 8) by (clear - H8; unfold toSq, sqPlus; lia). rewrite EQ. clear EQ.
      rewrite squares_setPieceB. fold s. fold (nthP s (t - 8)) in Hbp.
      assert (A1 : t - 8 < 64) by (clear - Ht; lia). assert (A3 : t - 8 <> t) by (clear - H8; lia).
      apply Gep; [exact A1 | | exact A3 |].
      * intro E. rewrite E in Hbp. fold pc in Hbp. rewrite Ew in Hbp. discriminate.
      * rewrite Hbp. destruct HKP. congruence.
    + destruct (N.eqb_spec pc BPAWN) as [Eb|Eb]; [|rewrite ?squares_setPieceB; exact Gplain].
      destruct (Z.eqb_spec (Z.of_N t) (epSquare p)) as [Ee|Ee]; [|rewrite ?squares_setPieceB; exact Gplain].
      assert (Ewm : whiteMove p = false).
      { destruct (whiteMove p); auto. cbn [ownPiece] in Hown. rewrite Eb in Hown. discriminate. }
      rewrite Ewm in Hep. destruct (Hep Eb Ee) as (_ & _ & H8 & Hbp & _).
      assert (EQ : toSq (sqPlus t 8) = t + 8) by (clear; unfold toSq, sqPlus; lia). rewrite EQ. clear EQ.
      rewrite squares_setPieceB. fold s. fold (nthP s (t + 8)) in Hbp.
      assert (A3 : t + 8 <> t) by (clear; lia).
      apply Gep; [exact H8 | | exact A3 |].
      * intro E. rewrite E in Hbp. fold pc in Hbp. rewrite Eb in Hbp. discriminate.
      * rewrite Hbp. destruct HKP. congruence.
  - (* quiet move *)
    apply orb_false_elim in Ebr as [Ec _]. apply negb_false_iff in Ec. apply N.eqb_eq in Ec.
    assert (Gmove : forall s' a b, length s' = 64%nat -> a < 64 -> b < 64 -> a <> b -> nthP s' b = EMPTY ->
              kc K (updN b (nthP s' a) (updN a EMPTY s')) = kc K s').
    { intros s' a b L Ha Hb Hab He. apply kc_plain; auto. rewrite He. auto. }
    assert (Hking : isKingPiece pc = true -> pc = (if whiteMove p then WKING else BKING)).
    { unfold isKingPiece. intro H. apply orb_prop in H as [H|H]; apply N.eqb_eq in H;
        destruct (whiteMove p); cbn [ownPiece] in Hown; auto; rewrite H in Hown; discriminate. }
    destruct (isKingPiece pc) eqn:Ek.
    + specialize (Hking eq_refl).
      destruct (Z.eqb_spec (Z.of_N t) (sqPlus f 2)) as [E2|E2].
      * assert (Et : t = f + 2) by (clear - E2; unfold sqPlus in E2; lia).
        destruct (HcK Hking Et) as (_ & Hf3 & Hr1 & Hr3).
        assert (EQ : toSq (sqPlus f 3) = f + 3) by (clear; unfold toSq, sqPlus; lia). rewrite EQ. clear EQ.
        assert (EQ : toSq (sqPlus f 1) = f + 1) by (clear; unfold toSq, sqPlus; lia). rewrite EQ. clear EQ.
        rewrite !squares_mPNPB. unfold getPiece. rewrite !squares_mPNPB. unfold getPiece. fold s.
        fold (nthP s (f + 1)) in Hr1.
        repeat match goal with |- context [nth (N.to_nat ?x) ?l EMPTY] => change (nth (N.to_nat x) l EMPTY) with (nthP l x) end.
        assert (D1 : f + 1 < 64) by (clear - Hf3; lia). assert (D2 : f + 3 <> f + 1) by (clear; lia).
        assert (D3 : f + 1 <> t) by (clear - Et; lia). assert (D4 : f + 3 <> t) by (clear - Et; lia).
        rewrite Gmove; [ | rewrite !length_updN; exact Hl | exact Hf | exact Ht | exact Hne | ].
        -- apply Gmove; auto.
        -- rewrite !nthP_updN_neq by auto. exact Ec.
      * destruct (Z.eqb_spec (Z.of_N t) (sqPlus f (-2))) as [E3|E3].
        -- assert (Hf2 : 2 <= f) by (clear - E3; unfold sqPlus in E3; lia).
           assert (Et : t = f - 2) by (clear - E3; unfold sqPlus in E3; lia).
           destruct (HcQ Hking Hf2 Et) as (_ & Hf4 & Hr1 & Hr3).
           assert (EQ : toSq (sqPlus f (-4)) = f - 4) by (clear - Hf4; unfold toSq, sqPlus; lia). rewrite EQ. clear EQ.
           assert (EQ : toSq (sqPlus f (-1)) = f - 1) by (clear - Hf4; unfold toSq, sqPlus; lia). rewrite EQ. clear EQ.
           rewrite !squares_mPNPB. unfold getPiece. rewrite !squares_mPNPB. unfold getPiece. fold s.
           fold (nthP s (f - 1)) in Hr1.
           repeat match goal with |- context [nth (N.to_nat ?x) ?l EMPTY] => change (nth (N.to_nat x) l EMPTY) with (nthP l x) end.
           assert (D0 : f - 4 < 64) by (clear - Hf; lia). assert (D1 : f - 1 < 64) by (clear - Hf; lia).
           assert (D2 : f - 4 <> f - 1) by (clear - Hf4; lia).
           assert (D3 : f - 1 <> t) by (clear - Et Hf4; lia). assert (D4 : f - 4 <> t) by (clear - Et Hf4; lia).
           rewrite Gmove; [ | rewrite !length_updN; exact Hl | exact Hf | exact Ht | exact Hne | ].
           ++ apply Gmove; auto.
           ++ rewrite !nthP_updN_neq by auto. exact Ec.
        -- rewrite squares_mPNPB. fold s. unfold getPiece. fold (nthP s f). apply Gmove; auto.
    + rewrite squares_mPNPB. fold s. unfold getPiece. fold (nthP s f). apply Gmove; auto.
Qed.

(** in particular: one king each stays one king each *)
Corollary one_king_each_preserved p m :
  Consistent zk p -> moveOk p m = true -> kc WKING (squares p) = 1%Z -> kc BKING (squares p) = 1%Z ->
  getPiece p (mto m) <> WKING -> getPiece p (mto m) <> BKING ->
  kc WKING (squares (fst (makeMove zk p m))) = 1%Z /\ kc BKING (squares (fst (makeMove zk p m))) = 1%Z.
Proof.
  intros C Hok H1 H2 N1 N2. split; rewrite kings_preserved; auto.
Qed.

End KC.
