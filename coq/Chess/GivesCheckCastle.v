(** MoveGen::givesCheck, castling branch: the only piece that can give check after castling is
    the castled rook (towards the vacated king square along the home rank, or up its file);
    the king never checks, the corner square and the king's square uncover nothing. *)
From Coq Require Import ZArith NArith List Bool Lia.
From Texel Require Import Chess.Types Chess.Position Chess.PositionSpec Chess.PositionFacts Chess.PositionProofs
  Chess.PositionProofs2 Chess.PositionProofs4 Chess.PositionTheorems Chess.PositionB
  Chess.BitBoard Chess.MoveGen Chess.Spec Chess.MoveGenWF
  Chess.BitBoardProofs Chess.RayProofs Chess.MoveGenProofs Chess.AttackProofs Chess.SliderProofs Chess.PawnProofs
  Chess.PseudoProofs Chess.MakeSpecProofs Chess.TryMoveProofs Chess.CastleProofs Chess.LegalProofs Chess.ShortcutProofs
  Chess.IsLegalProofs Chess.CapturesProofs Chess.NoDupProofs Chess.WfProofs Chess.IsLegalFull Chess.EvasionsIn Chess.IsLegalAll
  Chess.RemoveIllegalIndep Chess.EvasionsComplete Chess.GivesCheckProofs Chess.GivesCheckCommon gen.BitBoardTables.
Import ListNotations.
Local Open Scope N_scope.

Lemma myPiece_neq : forall (w : bool) X Y, In X [1; 2; 3; 4; 5; 6] -> In Y [1; 2; 3; 4; 5; 6] -> X <> Y -> myPiece w X = myPiece w Y -> False.
Proof. intros w X Y HX HY Hne E. apply Hne. apply (myPiece_inj w X Y HX HY). exact E. Qed.

(** * The squares of a castling move: c = colour, ks = king side *)
Definition cK (c : bool) : square := if c then 4 else 60.
Definition cSd (ks : bool) : Z := if ks then (-1)%Z else 1%Z.       (* from the landed rook towards the old king square *)
Definition cUp (c : bool) : Z := if c then 8%Z else (-8)%Z.
Definition cR (c ks : bool) : square := if ks then cK c + 1 else cK c - 1.   (* rook lands *)
Definition cT (c ks : bool) : square := if ks then cK c + 2 else cK c - 2.   (* king lands *)
Definition cC (c ks : bool) : square := if ks then cK c + 3 else cK c - 4.   (* corner *)
Definition cSpecial (c ks : bool) : N := N.lor (N.lor (bit (cK c)) (bit (cR c ks))) (N.lor (bit (cT c ks)) (bit (cC c ks))).

Lemma c_sq_lt : forall c ks, cK c < 64 /\ cR c ks < 64 /\ cT c ks < 64 /\ cC c ks < 64.
Proof. intros [|] [|]; repeat split; reflexivity. Qed.

(** geometry (finite sweeps) *)
Definition CG1P (c ks : bool) (a b : square) : bool :=
  if N.testbit (SB a b) (cK c) then
    (a =? cR c ks) || (b =? cR c ks) ||
    (N.testbit (SB a b) (cR c ks) && ((a =? cT c ks) || (b =? cT c ks) || N.testbit (SB a b) (cT c ks)))
  else true.
Definition CG2P (c ks : bool) (a b : square) : bool := negb (N.testbit (SB a b) (cC c ks)).
Definition CG3P (c ks : bool) (k : square) : bool :=
  if (k =? cK c) || (k =? cR c ks) || (k =? cT c ks) || (k =? cC c ks) then true else
  let d := getDirection (cR c ks) k in let sd := cSd ks in let up := cUp c in
  Bool.eqb (rookAligned k (cR c ks)) ((d =? sd) || (d =? - sd) || (d =? up))%Z
  && (if (d =? - sd)%Z then N.testbit (SB k (cR c ks)) (cT c ks) else true)
  && Bool.eqb (d =? sd)%Z (getDirection (cK c) k =? sd)%Z
  && (if (d =? sd)%Z then (SB k (cR c ks) =? N.lor (SB (cK c) k) (bit (cK c))) && (N.land (SB (cK c) k) (cSpecial c ks) =? 0) else true)
  && (if (d =? up)%Z then (SB (cR c ks) k =? SB k (cR c ks)) && (N.land (SB k (cR c ks)) (cSpecial c ks) =? 0) else true).
Definition KAP (a b : square) : bool :=
  if N.testbit (kingAttacks a) b then (Z.abs (zf b - zf a) <=? 1)%Z else true.

Lemma CG1_ok : forall c ks, forallb (fun a => forallb (CG1P c ks a) allSquares) allSquares = true.
Proof. intros [|] [|]; vm_compute; reflexivity. Qed.
Lemma CG2_ok : forall c ks, forallb (fun a => forallb (CG2P c ks a) allSquares) allSquares = true.
Proof. intros [|] [|]; vm_compute; reflexivity. Qed.
Lemma CG3_ok : forall c ks, forallb (CG3P c ks) allSquares = true.
Proof. intros [|] [|]; vm_compute; reflexivity. Qed.
Lemma KA_ok : forallb (fun a => forallb (KAP a) allSquares) allSquares = true.
Proof. vm_compute. reflexivity. Qed.

Lemma CG1 : forall c ks a b, a < 64 -> b < 64 -> N.testbit (SB a b) (cK c) = true ->
  a = cR c ks \/ b = cR c ks \/
  (N.testbit (SB a b) (cR c ks) = true /\ (a = cT c ks \/ b = cT c ks \/ N.testbit (SB a b) (cT c ks) = true)).
Proof.
  intros c ks a b Ha Hb H. pose proof (sweep2 _ (CG1_ok c ks) a b Ha Hb) as S. unfold CG1P in S. rewrite H in S.
  rewrite !orb_true_iff, andb_true_iff, !orb_true_iff, !N.eqb_eq in S. tauto.
Qed.
Lemma CG2 : forall c ks a b, a < 64 -> b < 64 -> N.testbit (SB a b) (cC c ks) = false.
Proof. intros c ks a b Ha Hb. pose proof (sweep2 _ (CG2_ok c ks) a b Ha Hb) as S. unfold CG2P in S. apply negb_true_iff in S. exact S. Qed.
Lemma CG3 : forall c ks k, k < 64 -> k <> cK c -> k <> cR c ks -> k <> cT c ks -> k <> cC c ks ->
  let d := getDirection (cR c ks) k in let sd := cSd ks in let up := cUp c in
  rookAligned k (cR c ks) = ((d =? sd) || (d =? - sd) || (d =? up))%Z /\
  (d = (- sd)%Z -> N.testbit (SB k (cR c ks)) (cT c ks) = true) /\
  (d =? sd)%Z = (getDirection (cK c) k =? sd)%Z /\
  (d = sd -> SB k (cR c ks) = N.lor (SB (cK c) k) (bit (cK c)) /\ N.land (SB (cK c) k) (cSpecial c ks) = 0) /\
  (d = up -> SB (cR c ks) k = SB k (cR c ks) /\ N.land (SB k (cR c ks)) (cSpecial c ks) = 0).
Proof.
  intros c ks k Hk N1 N2 N3 N4. cbv zeta. pose proof (sweep1 _ (CG3_ok c ks) k Hk) as S. unfold CG3P in S.
  replace (k =? cK c) with false in S by (symmetry; apply N.eqb_neq; exact N1).
  replace (k =? cR c ks) with false in S by (symmetry; apply N.eqb_neq; exact N2).
  replace (k =? cT c ks) with false in S by (symmetry; apply N.eqb_neq; exact N3).
  replace (k =? cC c ks) with false in S by (symmetry; apply N.eqb_neq; exact N4).
  cbn [orb] in S. cbv zeta in S. rewrite !andb_true_iff in S. destruct S as [[[[S1 S2] S3] S4] S5].
  apply eqb_prop in S1, S3. split; [exact S1|]. split; [|split; [exact S3|split]].
  - intro E. rewrite E, Z.eqb_refl in S2. exact S2.
  - intro E. rewrite E, Z.eqb_refl in S4. apply andb_true_iff in S4. destruct S4 as [A B]. apply N.eqb_eq in A, B. auto.
  - intro E. rewrite E, Z.eqb_refl in S5. apply andb_true_iff in S5. destruct S5 as [A B]. apply N.eqb_eq in A, B. auto.
Qed.
Lemma KA : forall a b, a < 64 -> b < 64 -> N.testbit (kingAttacks a) b = true -> (Z.abs (zf b - zf a) <= 1)%Z.
Proof. intros a b Ha Hb H. pose proof (sweep2 _ KA_ok a b Ha Hb) as S. unfold KAP in S. rewrite H in S. apply Z.leb_le in S. exact S. Qed.

(** * The engine side for a king move *)
Lemma givesCheck_king : forall pos m, mpromote m = EMPTY -> makeWhite (getPiece pos (mfrom m)) = WKING ->
  givesCheck pos m =
  gcR2 pos m ||
  (let wtm := whiteMove pos in let oKing := if wtm then BKING else WKING in
   if mto m =? mfrom m + 2 then
     (nextPieceSafe pos (mfrom m) (-1)%Z =? oKing) || (nextPieceSafe pos (sqAdd (mfrom m) 1) (if wtm then 8 else -8)%Z =? oKing)
   else if (Z.of_N (mto m) =? Z.of_N (mfrom m) - 2)%Z then
     (nextPieceSafe pos (mfrom m) 1%Z =? oKing) || (nextPieceSafe pos (sqAdd (mfrom m) (-1)) (if wtm then 8 else -8)%Z =? oKing)
   else false).
Proof.
  intros pos m Hp HK. unfold givesCheck, gcR2. cbv zeta. rewrite Hp. change (EMPTY =? EMPTY) with true. cbv iota. rewrite HK.
  match goal with |- (if ?a then true else _) = _ =>
    assert (E : a = false) by (destruct (isRookDir _); [reflexivity|]; destruct (isBishopDir _); [reflexivity|]; destruct (negb _); reflexivity);
    rewrite E; clear E end.
  match goal with |- (if ?a then true else _) = _ => destruct a end; [reflexivity|].
  cbn [negb andb orb]. cbv iota. change (WKING =? WKING) with true. cbv iota.
  destruct (mto m =? mfrom m + 2).
  - match goal with |- (if ?a then true else ?b) = _ => destruct a; reflexivity end.
  - destruct (Z.of_N (mto m) =? Z.of_N (mfrom m) - 2)%Z; [|reflexivity].
    match goal with |- (if ?a then true else ?b) = _ => destruct a; reflexivity end.
Qed.

Section Castle.
Variable p : position.
Hypothesis HWF : WF p.
Variable m : move.
Hypothesis Hleg : legal_spec (abs p) m.
Variable ks : bool.
Let w := whiteMove p.
Let oks := kingSq p (negb w).
Let occ := occupiedBB p.
Let q := fst (makeMove zkDummy p m).
Hypothesis Hfrom : mfrom m = cK w.
Hypothesis Hto : mto m = cT w ks.
Hypothesis Hprom : mpromote m = EMPTY.
Hypothesis Hpc : getPiece p (mfrom m) = mk_piece w King.
Hypothesis HpR : getPiece p (cR w ks) = EMPTY.
Hypothesis HpT : getPiece p (cT w ks) = EMPTY.
Hypothesis Hck : isCK p m = ks.
Hypothesis Hcq : isCQ p m = negb ks.

Lemma cs_q : forall s, getPiece q s =
  if s =? cR w ks then mk_piece w Rook else if s =? cC w ks then EMPTY else
  if s =? cT w ks then mk_piece w King else if s =? cK w then EMPTY else getPiece p s.
Proof.
  intro s. unfold q. rewrite (q_get zkDummy p HWF m Hleg), (b'_form zkDummy p HWF m Hleg). cbv zeta.
  assert (Hep : isEp p m = false).
  { unfold isEp. fold w. rewrite Hpc, is_piece_eqb. replace (mk_piece w King =? mk_piece w Pawn) with false by (unfold w; destruct (whiteMove p); reflexivity). reflexivity. }
  rewrite Hep, Hck, Hcq. unfold landing. rewrite Hprom. change (EMPTY =? EMPTY) with true. cbv iota. rewrite Hpc, Hfrom, Hto. fold w.
  assert (Hsq : forall c, sq_of 5 (zr (cK c)) = cR c true /\ sq_of 7 (zr (cK c)) = cC c true /\
                          sq_of 3 (zr (cK c)) = cR c false /\ sq_of 0 (zr (cK c)) = cC c false)
    by (intros [|]; repeat split; reflexivity).
  destruct (Hsq w) as (S1 & S2 & S3 & S4). rewrite S1, S2, S3, S4.
  destruct (WF_parts p HWF) as [Hl _].
  assert (Hlt : forall a, a < 64 -> forall l : list piece, length l = 64%nat -> (N.to_nat a < length l)%nat) by (intros a Ha l ->; lia).
  destruct ks; cbn [negb]; destruct (c_sq_lt w true) as (L1 & L2 & L3 & L4); destruct (c_sq_lt w false) as (_ & M2 & M3 & M4).
  - destruct (N.eqb_spec s (cR w true)) as [->|N1]; [apply nth_updN_eq, Hlt; [exact L2 | rewrite !length_updN; exact Hl]|].
    rewrite nth_updN_neq by auto.
    destruct (N.eqb_spec s (cC w true)) as [->|N2]; [apply nth_updN_eq, Hlt; [exact L4 | rewrite !length_updN; exact Hl]|].
    rewrite nth_updN_neq by auto.
    destruct (N.eqb_spec s (cT w true)) as [->|N3]; [apply nth_updN_eq, Hlt; [exact L3 | rewrite !length_updN; exact Hl]|].
    rewrite nth_updN_neq by auto.
    destruct (N.eqb_spec s (cK w)) as [->|N4]; [apply nth_updN_eq, Hlt; [exact L1 | exact Hl]|].
    rewrite nth_updN_neq by auto. reflexivity.
  - destruct (N.eqb_spec s (cR w false)) as [->|N1]; [apply nth_updN_eq, Hlt; [exact M2 | rewrite !length_updN; exact Hl]|].
    rewrite nth_updN_neq by auto.
    destruct (N.eqb_spec s (cC w false)) as [->|N2]; [apply nth_updN_eq, Hlt; [exact M4 | rewrite !length_updN; exact Hl]|].
    rewrite nth_updN_neq by auto.
    destruct (N.eqb_spec s (cT w false)) as [->|N3]; [apply nth_updN_eq, Hlt; [exact M3 | rewrite !length_updN; exact Hl]|].
    rewrite nth_updN_neq by auto.
    destruct (N.eqb_spec s (cK w)) as [->|N4]; [apply nth_updN_eq, Hlt; [exact L1 | exact Hl]|].
    rewrite nth_updN_neq by auto. reflexivity.
Qed.

Lemma cs_occq : forall s, s < 64 -> N.testbit (occupiedBB q) s =
  if s =? cR w ks then true else if s =? cC w ks then false else
  if s =? cT w ks then true else if s =? cK w then false else N.testbit occ s.
Proof.
  intros s Hs. rewrite (c_occ q s (gHBq p HWF m Hleg) Hs), cs_q.
  destruct (s =? cR w ks); [apply negb_true_iff, N.eqb_neq, mk_piece_nonempty|].
  destruct (s =? cC w ks); [reflexivity|].
  destruct (s =? cT w ks); [apply negb_true_iff, N.eqb_neq, mk_piece_nonempty|].
  destruct (s =? cK w); [reflexivity|]. symmetry. apply (c_occ p s (gHBp p HWF) Hs).
Qed.

(** a set of squares without the four special squares looks the same before and after *)
Lemma cs_same : forall S, (forall x, N.testbit S x = true -> x < 64) -> N.land S (cSpecial w ks) = 0 ->
  (N.land S (occupiedBB q) = 0 <-> N.land S occ = 0).
Proof.
  intros S Hlt Hsp. rewrite !land_zero_iff. rewrite land_zero_iff in Hsp.
  assert (Hx : forall x, N.testbit S x = true -> N.testbit (occupiedBB q) x = N.testbit occ x).
  { intros x Hx. pose proof (Hsp x Hx) as H. unfold cSpecial in H. rewrite !N.lor_spec, !bit_testbit in H.
    rewrite !orb_false_iff in H. destruct H as [[H1 H2] [H3 H4]]. rewrite cs_occq by (apply Hlt; exact Hx).
    rewrite (N.eqb_sym x (cR w ks)), H2, (N.eqb_sym x (cC w ks)), H4, (N.eqb_sym x (cT w ks)), H3, (N.eqb_sym x (cK w)), H1. reflexivity. }
  split; intros H x Hxs; [rewrite <- (Hx x Hxs) | rewrite (Hx x Hxs)]; apply H; exact Hxs.
Qed.

Lemma cs_oks : oks < 64 /\ getPiece p oks = mk_piece (negb w) King /\
  oks <> cK w /\ oks <> cR w ks /\ oks <> cT w ks /\ oks <> cC w ks.
Proof.
  destruct (c_oks p HWF m Hleg) as (Hk & Hkp & Nkf & Nkt & HkQ). fold w oks q in Hk, Hkp, Nkf, Nkt, HkQ.
  split; [exact Hk|]. split; [exact Hkp|]. split; [rewrite <- Hfrom; exact Nkf|]. split; [|split; [rewrite <- Hto; exact Nkt|]].
  - intro E. rewrite E, HpR in Hkp. symmetry in Hkp. exact (mk_piece_nonempty _ _ Hkp).
  - intro E. rewrite cs_q in HkQ. rewrite E in HkQ.
    destruct (cC w ks =? cR w ks); [unfold w in HkQ; destruct (whiteMove p); discriminate|].
    rewrite N.eqb_refl in HkQ. symmetry in HkQ. exact (mk_piece_nonempty _ _ HkQ).
Qed.

(** no discovered check by the second block *)
Lemma cs_nodisc : DiscP p m -> False.
Proof.
  intros (y & Hy & N1 & N2 & Hbf & Hbt & Hall & Hs). fold w oks occ in Hbf, Hbt, Hall, Hs.
  destruct cs_oks as (Hk & Hkp & K1 & K2 & K3 & K4). rewrite Hfrom in Hbf. rewrite Hto in Hbt, N1.
  assert (Hyp : getPiece p y <> EMPTY).
  { assert (Hpy : exists X, In X [1; 2; 3; 4; 5; 6] /\ mine p X y) by (destruct Hs as [[_ [Hm|Hm]]|[_ [Hm|Hm]]]; eexists; (split; [|exact Hm]); cbn; tauto).
    destruct Hpy as (X & HX & Hm). apply (c_mine p HWF X y HX) in Hm. destruct Hm as [_ Hp]. rewrite Hp. apply myPiece_own. exact HX. }
  destruct (CG1 w ks oks y Hk Hy Hbf) as [E|[E|[_ [E|[E|E]]]]]; try contradiction.
  - apply Hyp. rewrite E. exact HpR.
  - congruence.
Qed.

Definition RookChk : Prop := rookAligned oks (cR w ks) = true /\ N.land (SB oks (cR w ks)) (occupiedBB q) = 0.

Theorem cs_spec_iff : gives_check_spec (abs p) m = true <-> RookChk.
Proof.
  rewrite (c_spec_iff p HWF m Hleg). fold w oks q.
  destruct cs_oks as (Hk & Hkp & K1 & K2 & K3 & K4).
  destruct (c_sq_lt w ks) as (L1 & L2 & L3 & L4).
  assert (HE : forall Y, In Y [1; 2; 3; 4; 5; 6] -> EMPTY = myPiece w Y -> False) by (intros Y HY E; symmetry in E; revert E; apply myPiece_own; exact HY).
  assert (I1 : In WKING [1; 2; 3; 4; 5; 6]) by (cbn; tauto). assert (I2 : In WQUEEN [1; 2; 3; 4; 5; 6]) by (cbn; tauto).
  assert (I3 : In WROOK [1; 2; 3; 4; 5; 6]) by (cbn; tauto). assert (I4 : In WBISHOP [1; 2; 3; 4; 5; 6]) by (cbn; tauto).
  assert (I5 : In WKNIGHT [1; 2; 3; 4; 5; 6]) by (cbn; tauto). assert (I6 : In WPAWN [1; 2; 3; 4; 5; 6]) by (cbn; tauto).
  destruct (myPiece_mk w) as (MK & MQ & MR & MB & MN & MP).
  split.
  - intros [y [Hy Hatt]]. fold q in Hatt. rewrite cs_q in Hatt.
    revert Hatt. destruct (N.eqb_spec y (cR w ks)) as [Ey|NR]; intro Hatt.
    + (* the castled rook *)
      subst y. rewrite <- MR in Hatt.
      destruct Hatt as [[E A]|[[E A]|[[E A]|[[[E|E] _]|[_ [Hal Hz]]]]]];
        try (exfalso; revert E; apply myPiece_neq; [assumption | assumption | discriminate]).
      split; assumption.
    + revert Hatt. destruct (N.eqb_spec y (cC w ks)) as [Ey|NC]; intro Hatt.
      { exfalso. destruct Hatt as [[E A]|[[E A]|[[E A]|[[[E|E] _]|[[E|E] _]]]]]; eapply HE; try exact E; assumption. }
      revert Hatt. destruct (N.eqb_spec y (cT w ks)) as [Ey|NT]; intro Hatt.
      { (* the king *) exfalso. subst y. rewrite <- MK in Hatt.
        destruct Hatt as [[E A]|[[E A]|[[E A]|[[[E|E] _]|[[E|E] _]]]]];
          try (exfalso; revert E; apply myPiece_neq; [assumption | assumption | discriminate]).
        pose proof (gWFq p HWF m Hleg) as WFq. fold q in WFq.
        pose proof (made_scalars zkDummy p m) as (Ewq & _). fold q w in Ewq.
        destruct (c_oks p HWF m Hleg) as (_ & _ & _ & _ & HkQ). fold w oks q in HkQ.
        assert (Eks : kingSq q (whiteMove q) = oks).
        { rewrite Ewq. destruct (kingSq_spec q (negb w) WFq) as [Hk' Hkp']. apply (king_unique q (negb w) _ _ WFq Hk' Hk Hkp' HkQ). }
        assert (G1 : N.testbit (kingAttacks (kingSq q (whiteMove q))) (cT w ks) = true) by (rewrite Eks; exact A).
        assert (G2 : N.testbit (ptBB q (myPiece (negb (whiteMove q)) WKING)) (cT w ks) = true).
        { rewrite Ewq, negb_involutive. apply (pt_iff q w _ _ (gHBq p HWF m Hleg) I1). split; [exact L3|].
          rewrite cs_q. replace (cT w ks =? cR w ks) with false by (unfold w; destruct (whiteMove p), ks; reflexivity).
          replace (cT w ks =? cC w ks) with false by (unfold w; destruct (whiteMove p), ks; reflexivity).
          rewrite N.eqb_refl. symmetry. exact MK. }
        exact (no_king_contact q WFq (cT w ks) G1 G2). }
      revert Hatt. destruct (N.eqb_spec y (cK w)) as [Ey|NK]; intro Hatt.
      { exfalso. destruct Hatt as [[E A]|[[E A]|[[E A]|[[[E|E] _]|[[E|E] _]]]]]; eapply HE; try exact E; assumption. }
      (* an unchanged piece: its line was not opened *)
      exfalso.
      assert (Hsl : N.land (SB oks y) (occupiedBB q) = 0 -> N.land (SB oks y) occ = 0).
      { intro Hz. apply land_zero_iff. intros x Hx. rewrite land_zero_iff in Hz. pose proof (Hz x Hx) as Hq.
        rewrite cs_occq in Hq by (apply (SB_lt64 oks y x Hk Hy Hx)).
        destruct (N.eqb_spec x (cR w ks)) as [Ex|_]; [discriminate|].
        destruct (N.eqb_spec x (cC w ks)) as [Ex|_]; [rewrite Ex, (CG2 w ks oks y Hk Hy) in Hx; discriminate|].
        destruct (N.eqb_spec x (cT w ks)) as [Ex|_]; [discriminate|].
        destruct (N.eqb_spec x (cK w)) as [Ex|_]; [|exact Hq].
        exfalso. rewrite Ex in Hx. destruct (CG1 w ks oks y Hk Hy Hx) as [E|[E|[HR _]]]; try contradiction.
        pose proof (Hz _ HR) as Hq2. rewrite cs_occq, N.eqb_refl in Hq2 by exact L2. discriminate. }
      apply (c_before p HWF m Hleg y). fold w oks. split; [exact Hy|]. fold occ.
      destruct Hatt as [[E A]|[[E A]|[[E A]|[[E [Hal Hz]]|[E [Hal Hz]]]]]]; auto 10.
  - intros [Hal Hz]. exists (cR w ks). split; [exact L2|]. fold q. rewrite cs_q, N.eqb_refl, <- MR. auto 10.
Qed.

(** the two walks of the castling branch *)
Lemma cs_walk : forall f delta, f < 64 -> rayDir delta = true ->
  ((nextPieceSafe p f delta =? mk_piece (negb w) King) = true <-> getDirection f oks = delta /\ N.land (SB f oks) occ = 0).
Proof.
  intros f delta Hf Hr. destruct cs_oks as (Hk & Hkp & _). rewrite N.eqb_eq.
  rewrite (behind_iff p f delta _ (gHBp p HWF) Hf Hr (mk_piece_nonempty _ _)). split.
  - intros (y & Hy & Hd & Hp & Hz). assert (y = oks) by (apply (king_unique p (negb w) y oks HWF Hy Hk Hp Hkp)). subst y. auto.
  - intros [Hd Hz]. exists oks. auto.
Qed.

Theorem cs_tail :
  (nextPieceSafe p (cK w) (cSd ks) =? mk_piece (negb w) King) || (nextPieceSafe p (cR w ks) (cUp w) =? mk_piece (negb w) King) = true
  <-> RookChk.
Proof.
  destruct cs_oks as (Hk & Hkp & K1 & K2 & K3 & K4). destruct (c_sq_lt w ks) as (L1 & L2 & L3 & L4).
  assert (R1 : rayDir (cSd ks) = true) by (destruct ks; reflexivity).
  assert (R2 : rayDir (cUp w) = true) by (unfold w; destruct (whiteMove p); reflexivity).
  rewrite orb_true_iff, (cs_walk _ _ L1 R1), (cs_walk _ _ L2 R2). unfold RookChk.
  pose proof (CG3 w ks oks Hk K1 K2 K3 K4) as G. cbv zeta in G. destruct G as (G1 & G2 & G3 & G4 & G5).
  rewrite G1. set (d := getDirection (cR w ks) oks) in *.
  assert (Hlt1 : forall x, N.testbit (SB (cK w) oks) x = true -> x < 64) by (intros x Hx; apply (SB_lt64 _ _ x L1 Hk Hx)).
  assert (Hlt2 : forall x, N.testbit (SB oks (cR w ks)) x = true -> x < 64) by (intros x Hx; apply (SB_lt64 _ _ x Hk L2 Hx)).
  split.
  - intros [[Hd Hz]|[Hd Hz]].
    + assert (Ed : d = cSd ks) by (apply Z.eqb_eq; rewrite G3; apply Z.eqb_eq; exact Hd).
      destruct (G4 Ed) as [E1 E2]. split; [rewrite Ed, Z.eqb_refl; reflexivity|].
      rewrite E1. apply land_zero_iff. intros x Hx. rewrite N.lor_spec, bit_testbit in Hx. apply orb_true_iff in Hx. destruct Hx as [Hx|Hx].
      * apply (cs_same _ Hlt1 E2) in Hz. rewrite land_zero_iff in Hz. apply Hz. exact Hx.
      * apply N.eqb_eq in Hx. subst x. rewrite cs_occq by exact L1.
        replace (cK w =? cR w ks) with false by (unfold w; destruct (whiteMove p), ks; reflexivity).
        replace (cK w =? cC w ks) with false by (unfold w; destruct (whiteMove p), ks; reflexivity).
        replace (cK w =? cT w ks) with false by (unfold w; destruct (whiteMove p), ks; reflexivity).
        rewrite N.eqb_refl. reflexivity.
    + fold d in Hd. destruct (G5 Hd) as [E1 E2]. split; [rewrite Hd, Z.eqb_refl; apply orb_true_r|].
      apply (cs_same _ Hlt2 E2). rewrite <- E1. exact Hz.
  - intros [Hal Hz]. rewrite !orb_true_iff, !Z.eqb_eq in Hal. destruct Hal as [[Ed|Ed]|Ed].
    + left. split; [apply Z.eqb_eq; rewrite <- G3; apply Z.eqb_eq; exact Ed|].
      destruct (G4 Ed) as [E1 E2]. apply (cs_same _ Hlt1 E2). apply land_zero_iff. intros x Hx.
      rewrite land_zero_iff in Hz. apply Hz. rewrite E1, N.lor_spec, Hx. reflexivity.
    + exfalso. pose proof (G2 Ed) as Ht. rewrite land_zero_iff in Hz. pose proof (Hz _ Ht) as Hq.
      rewrite cs_occq in Hq by exact L3.
      replace (cT w ks =? cR w ks) with false in Hq by (unfold w; destruct (whiteMove p), ks; reflexivity).
      replace (cT w ks =? cC w ks) with false in Hq by (unfold w; destruct (whiteMove p), ks; reflexivity).
      rewrite N.eqb_refl in Hq. discriminate.
    + right. split; [exact Ed|]. destruct (G5 Ed) as [E1 E2]. rewrite E1. apply (cs_same _ Hlt2 E2). exact Hz.
Qed.

Theorem cs_main : givesCheck p m = gives_check_spec (abs p) m.
Proof.
  rewrite (givesCheck_king p m Hprom) by (rewrite Hpc; unfold w; destruct (whiteMove p); reflexivity).
  assert (H2 : gcR2 p m = false).
  { destruct (gcR2 p m) eqn:E; [|reflexivity]. exfalso. apply cs_nodisc. apply (c_r2 p HWF m Hleg). exact E. }
  rewrite H2. cbn [orb]. cbv zeta. rewrite (c_oKing p). fold w. rewrite Hfrom, Hto.
  apply eq_true_iff_eq. rewrite cs_spec_iff, <- cs_tail.
  assert (Hc : forall c : bool,
    (cT c true =? cK c + 2) = true /\ (cT c false =? cK c + 2) = false /\ (Z.of_N (cT c false) =? Z.of_N (cK c) - 2)%Z = true /\
    sqAdd (cK c) 1 = cR c true /\ sqAdd (cK c) (-1) = cR c false /\ (if c then 8 else -8)%Z = cUp c)
    by (intros [|]; repeat split; reflexivity).
  destruct (Hc w) as (C1 & C2 & C3 & C4 & C5 & C6). rewrite C6.
  destruct ks.
  - rewrite C1, C4. reflexivity.
  - rewrite C2, C3, C5. reflexivity.
Qed.
End Castle.

(** * From the Spec's case conditions to the squares *)
Section CastleFacts.
Variable p : position.
Hypothesis HWF : WF p.
Variable m : move.
Hypothesis Hleg : legal_spec (abs p) m.
Let w := whiteMove p.

Lemma castle_facts : forall ks : bool, (if ks then isCK p m = true else isCQ p m = true) ->
  mfrom m = cK w /\ mto m = cT w ks /\ mpromote m = EMPTY /\ getPiece p (mfrom m) = mk_piece w King /\
  getPiece p (cR w ks) = EMPTY /\ getPiece p (cT w ks) = EMPTY /\ isCK p m = ks /\ isCQ p m = negb ks.
Proof.
  intros ks H. destruct (g_move p HWF m Hleg) as (Hf & Ht & Hne & _).
  assert (Hpc : getPiece p (mfrom m) = mk_piece w King /\ (zf (mto m) - zf (mfrom m) = if ks then 2 else -2)%Z).
  { destruct ks; [unfold isCK in H | unfold isCQ in H]; fold w in H; apply andb_true_iff in H; destruct H as [A B];
      rewrite is_piece_eqb in A; apply N.eqb_eq in A; apply Z.eqb_eq in B; auto. }
  destruct Hpc as [Hpc Hdf].
  destruct (kingSq_spec p w HWF) as [Hk Hkp].
  assert (Ef : mfrom m = kingSq p w) by (apply (king_unique p w _ _ HWF Hf Hk Hpc Hkp)).
  destruct (king_moves_blocks p HWF m (gHm p HWF m Hleg) Ef) as [HK|HC].
  - exfalso. unfold lK in HK. apply movesTo_In in HK. fold w in HK. destruct HK as (_ & _ & Hb).
    apply bitsOf_In in Hb; [|apply ldiff_lt, kingAttacks_lt]. unfold andn in Hb. rewrite N.ldiff_spec in Hb. apply andb_true_iff in Hb.
    destruct Hb as [Hb _]. pose proof (KA (kingSq p w) (mto m) Hk Ht Hb) as Hka. rewrite <- Ef in Hka. destruct ks; lia.
  - destruct (lC_cond p m HC) as (Ek & Hpro & _ & Hto). fold w in Ek, Hto.
    assert (EkK : kingSq p w = cK w) by (rewrite Ek; unfold w; destruct (whiteMove p); reflexivity).
    rewrite EkK in Hto, Ef.
    assert (Hz : forall c : bool,
      (zf (sqAdd (cK c) 2) - zf (cK c) = 2)%Z /\ (zf (sqAdd (cK c) (-2)) - zf (cK c) = -2)%Z /\
      sqAdd (cK c) 2 = cT c true /\ sqAdd (cK c) (-2) = cT c false /\ sqAdd (cK c) 1 = cR c true /\ sqAdd (cK c) (-1) = cR c false)
      by (intros [|]; repeat split; reflexivity).
    destruct (Hz w) as (Z1 & Z2 & Z3 & Z4 & Z5 & Z6).
    assert (Hemp : forall s, s < 64 -> N.testbit (occupiedBB p) s = false -> getPiece p s = EMPTY).
    { intros s Hs Ho. rewrite (c_occ p s (gHBp p HWF) Hs) in Ho. apply negb_false_iff, N.eqb_eq in Ho. exact Ho. }
    assert (HisK : is_piece w King (getPiece p (mfrom m)) = true) by (rewrite Hpc, is_piece_eqb; apply N.eqb_refl).
    split; [exact Ef|]. rewrite Ef in Hdf.
    destruct Hto as [(Et & O1 & O2)|(Et & O1 & O2)]; rewrite Et in Hdf.
    + destruct ks; [|lia]. rewrite Z3 in Et. rewrite Z5 in O1. rewrite Z3 in O2.
      destruct (c_sq_lt w true) as (_ & L2 & L3 & _).
      split; [exact Et|]. split; [exact Hpro|]. split; [exact Hpc|]. split; [apply Hemp; assumption|]. split; [apply Hemp; assumption|].
      split; [exact H|]. unfold isCQ. fold w. rewrite HisK, Et, Ef. cbn [negb andb]. apply Z.eqb_neq.
      unfold w. destruct (whiteMove p); discriminate.
    + destruct ks; [lia|]. rewrite Z4 in Et. rewrite Z6 in O1. rewrite Z4 in O2.
      destruct (c_sq_lt w false) as (_ & L2 & L3 & _).
      split; [exact Et|]. split; [exact Hpro|]. split; [exact Hpc|]. split; [apply Hemp; assumption|]. split; [apply Hemp; assumption|].
      split; [|exact H]. unfold isCK. fold w. rewrite HisK, Et, Ef. cbn [negb andb]. apply Z.eqb_neq.
      unfold w. destruct (whiteMove p); discriminate.
Qed.
End CastleFacts.

(** C01_givesCheck, castling *)
Theorem givesCheck_castling : forall p m, WF p -> legal_spec (abs p) m -> isCK p m = true \/ isCQ p m = true ->
  givesCheck p m = gives_check_spec (abs p) m.
Proof.
  intros p m H Hl [E|E].
  - destruct (castle_facts p H m Hl true E) as (A1 & A2 & A3 & A4 & A5 & A6 & A7 & A8).
    exact (cs_main p H m Hl true A1 A2 A3 A4 A5 A6 A7 A8).
  - destruct (castle_facts p H m Hl false E) as (A1 & A2 & A3 & A4 & A5 & A6 & A7 & A8).
    exact (cs_main p H m Hl false A1 A2 A3 A4 A5 A6 A7 A8).
Qed.

(** non-vacuity: O-O checks the king on f8 with the rook landing on f1; O-O-O does not *)
Definition castleBoard : list piece :=
  [WROOK;0;0;0;WKING;0;0;WROOK;  0;0;0;0;0;0;0;0;  0;0;0;0;0;0;0;0;  0;0;0;0;0;0;0;0;
   0;0;0;0;0;0;0;0;  0;0;0;0;0;0;0;0;  0;0;0;0;0;0;0;0;  0;0;0;0;0;BKING;0;0].
Definition castlePosition : position := positionOfBoard castleBoard true 3 (-1).
Example givesCheck_castle_examples :
  WF castlePosition /\
  legal_spec (abs castlePosition) (mkMove 4 6 EMPTY) /\ givesCheck castlePosition (mkMove 4 6 EMPTY) = true /\
  gives_check_spec (abs castlePosition) (mkMove 4 6 EMPTY) = true /\
  legal_spec (abs castlePosition) (mkMove 4 2 EMPTY) /\ givesCheck castlePosition (mkMove 4 2 EMPTY) = false.
Proof.
  split; [vm_compute; reflexivity|]. split; [apply legal_specb_spec; vm_compute; reflexivity|]. split; [vm_compute; reflexivity|].
  split; [vm_compute; reflexivity|]. split; [apply legal_specb_spec; vm_compute; reflexivity | vm_compute; reflexivity].
Qed.
