(** pseudoLegalCaptures: every move it generates is pseudo-legal, and it contains every
    pseudo-legal move of its class (captures incl. en passant, and promotions - to queen or
    knight only).  With C01_removeIllegal_sublist this gives C01_captures_complete. *)
From Coq Require Import ZArith NArith List Bool Lia.
From Texel Require Import Chess.Types Chess.Position Chess.PositionSpec Chess.PositionFacts Chess.PositionProofs
  Chess.PositionProofs2 Chess.PositionProofs4 Chess.PositionTheorems Chess.PositionB
  Chess.BitBoard Chess.MoveGen Chess.Spec Chess.MoveGenWF
  Chess.BitBoardProofs Chess.RayProofs Chess.MoveGenProofs Chess.AttackProofs Chess.SliderProofs Chess.PawnProofs
  Chess.PseudoProofs Chess.MakeSpecProofs Chess.TryMoveProofs Chess.CastleProofs Chess.LegalProofs Chess.ShortcutProofs
  gen.BitBoardTables.
Import ListNotations.
Local Open Scope N_scope.

(** addPawnMovesByMask with allPromotions = false: queen and knight only *)
Definition promoKindsQN : list kind := [Queen; Knight].

Lemma addPawnMovesByMask_In_QN : forall wtm l mask d m, mask < 2 ^ 64 ->
  (In m (addPawnMovesByMask wtm l mask d false) <->
   In m l \/ exists t, N.testbit mask t = true /\
     ((N.testbit maskRow1Row8 t = true /\ exists k, In k promoKindsQN /\ m = mkMove (sqAdd t d) t (mk_piece wtm k)) \/
      (N.testbit maskRow1Row8 t = false /\ m = mkMove (sqAdd t d) t EMPTY))).
Proof.
  intros wtm l mask d m Hm. unfold addPawnMovesByMask.
  destruct (N.eqb_spec mask 0) as [->|Hnz].
  - split; [auto|]. intros [H|[t [Ht _]]]; [exact H|]. rewrite N.bits_0 in Ht. discriminate.
  - destruct (myPiece_mk wtm) as [EQ [EN _]]. rewrite EQ, EN.
    rewrite (forSquares_In _ move (fun x l => In x l) (fun sq x => x = mkMove (sqAdd sq d) sq EMPTY)).
    2:{ intros acc sq x _. apply addMove_In. }
    2:{ apply ldiff_lt. exact Hm. }
    rewrite (forSquares_In _ move (fun x l => In x l)
               (fun sq x => exists k, In k promoKindsQN /\ x = mkMove (sqAdd sq d) sq (mk_piece wtm k))).
    2:{ intros acc sq x _. rewrite !addMove_In. unfold promoKindsQN. cbn [In]. split.
        - intros [[H|H]|H]; [left; exact H | right; exists Queen | right; exists Knight]; (split; [auto 10 | exact H]).
        - intros [H|[k [[<-|[<-|[]]] ->]]]; auto 10. }
    2:{ apply land_lt_l. exact Hm. }
    split.
    + intros [[H|[t [Ht Hk]]]|[t [Ht ->]]]; [left; exact H | |].
      * right. exists t. rewrite N.land_spec in Ht. apply andb_true_iff in Ht. destruct Ht as [Ht1 Ht2]. split; [exact Ht1|]. left. auto.
      * right. exists t. unfold andn in Ht. rewrite N.ldiff_spec, N.land_spec in Ht. apply andb_true_iff in Ht.
        destruct Ht as [Ht1 Ht2]. rewrite Ht1 in Ht2. cbn [andb] in Ht2. apply negb_true_iff in Ht2. split; [exact Ht1|]. right. auto.
    + intros [H|[t [Ht [[Hr Hk]|[Hr ->]]]]]; [left; left; exact H | |].
      * left. right. exists t. split; [|exact Hk]. rewrite N.land_spec, Ht, Hr. reflexivity.
      * right. exists t. split; [|reflexivity]. unfold andn. rewrite N.ldiff_spec, N.land_spec, Ht, Hr. reflexivity.
Qed.

(** the engine-level class of the captures generator *)
Definition capClassE (p : position) (m : move) : bool :=
  (negb (getPiece p (mto m) =? EMPTY) || negb (mpromote m =? EMPTY)
   || (isPawnPc (getPiece p (mfrom m)) && negb (zf (mto m) =? zf (mfrom m))%Z))
  && negb (underPromotionRB m).

Lemma capturesT_normal : forall w pos,
  pseudoLegalCapturesT w pos =
  let occupied := occupiedBB pos in
  let enemy := colorBB pos (negb w) in
  let l := forSquares (ptBB pos (myPiece w WQUEEN)) (fun l sq =>
             addMovesByMask l sq (N.land (N.lor (rookAttacks sq occupied) (bishopAttacks sq occupied)) enemy)) [] in
  let l := forSquares (ptBB pos (myPiece w WROOK)) (fun l sq => addMovesByMask l sq (N.land (rookAttacks sq occupied) enemy)) l in
  let l := forSquares (ptBB pos (myPiece w WBISHOP)) (fun l sq => addMovesByMask l sq (N.land (bishopAttacks sq occupied) enemy)) l in
  let l := forSquares (ptBB pos (myPiece w WKNIGHT)) (fun l sq => addMovesByMask l sq (N.land (knightAttacks sq) enemy)) l in
  let l := addMovesByMask l (kingSq pos w) (N.land (kingAttacks (kingSq pos w)) enemy) in
  let pawns := ptBB pos (myPiece w WPAWN) in
  let eoe := N.lor enemy (epMaskOf pos) in
  let l := addPawnMovesByMask w l (N.land (andn (fwd w pawns 8) occupied) (if w then maskRow8 else maskRow1)) (delta w 8) false in
  let l := addPawnMovesByMask w l (N.land (N.land (fwd w pawns (if w then 7 else 9)) maskAToGFiles) eoe) (delta w (if w then 7 else 9)) false in
  addPawnMovesByMask w l (N.land (N.land (fwd w pawns (if w then 9 else 7)) maskBToHFiles) eoe) (delta w (if w then 9 else 7)) false.
Proof. intros. destruct w; reflexivity. Qed.

Section Captures.
Variable p : position.
Hypothesis HWF : WF p.
Let w := whiteMove p.
Let occ := occupiedBB p.
Let enemy := colorBB p (negb w).
Let own := colorBB p w.
Let HB : BoardOK p := WF_BoardOK p HWF.

Lemma enemy_bit : forall t, N.testbit enemy t = (t <? 64) && has_color (negb w) (getPiece p t).
Proof. intro t. apply (BoardOK_color p (negb w) t HB). Qed.
Lemma own_bit : forall t, N.testbit own t = (t <? 64) && has_color w (getPiece p t).
Proof. intro t. apply (BoardOK_color p w t HB). Qed.

Lemma colors_disjoint : forall pc, has_color (negb w) pc = true -> has_color w pc = false.
Proof.
  intros pc H. unfold has_color in *. destruct (color_of pc) as [c|]; [|discriminate].
  destruct w, c; cbn in *; congruence.
Qed.

Lemma nonempty_not_own_is_enemy : forall t, getPiece p t <> EMPTY -> has_color w (getPiece p t) = false ->
  has_color (negb w) (getPiece p t) = true.
Proof.
  intros t Hne Hno. pose proof (BoardOK_le12 p t HB) as Hle. unfold EMPTY in Hne.
  destruct (le12_cases _ Hle) as [E|[E|[E|[E|[E|[E|[E|[E|[E|[E|[E|[E|E]]]]]]]]]]]]; rewrite E in *; try congruence;
    destruct w; cbn in *; congruence.
Qed.

(** a capture mask selects, among the normal targets, those holding an enemy piece *)
Lemma cap_target : forall (a : N) t, a < 2 ^ 64 ->
  (N.testbit (N.land a enemy) t = true <->
   N.testbit (andn a own) t = true /\ getPiece p t <> EMPTY).
Proof.
  intros a t Ha. unfold andn. rewrite N.land_spec, N.ldiff_spec, enemy_bit, own_bit. split.
  - intros H. rewrite !andb_true_iff in H. destruct H as [Hat [Ht He]]. rewrite Hat, Ht, (colors_disjoint _ He). cbn.
    split; [reflexivity|]. intro E. rewrite E in He. destruct w; discriminate.
  - intros [H Hne]. rewrite !andb_true_iff in H. destruct H as [Hat Hno]. apply negb_true_iff in Hno.
    pose proof (bits_below_64 a Ha t Hat) as Ht. replace (t <? 64) with true in * by (symmetry; apply N.ltb_lt; exact Ht).
    cbn [andb] in *. rewrite Hat. cbn [andb]. apply nonempty_not_own_is_enemy; assumption.
Qed.

(** non-pawn piece loops: captures = normal moves onto an occupied square *)
Lemma cap_loop : forall (pc : piece) (atk : square -> N) m, In pc pieceCodes ->
  (forall sq, sq < 64 -> atk sq < 2 ^ 64) ->
  (In m (forSquares (ptBB p pc) (fun l sq => addMovesByMask l sq (N.land (atk sq) enemy)) []) <->
   In m (forSquares (ptBB p pc) (fun l sq => addMovesByMask l sq (andn (atk sq) own)) []) /\
   getPiece p (mto m) <> EMPTY).
Proof.
  intros pc atk m Hpc Hatk.
  rewrite (forSquares_moves_In (fun sq => N.land (atk sq) enemy)), (forSquares_moves_In (fun sq => andn (atk sq) own));
    try (apply BoardOK_ptBB_lt; assumption);
    try (intros sq Hsq; first [apply land_lt_l | apply ldiff_lt]; apply Hatk; exact Hsq).
  cbn [In]. split.
  - intros [[]|[sq [t [Hs [Ht ->]]]]].
    assert (Hsq : sq < 64) by (rewrite (BoardOK_ptBB p pc sq HB Hpc) in Hs; apply andb_true_iff in Hs; destruct Hs as [Hs _]; apply N.ltb_lt; exact Hs).
    apply (cap_target _ _ (Hatk sq Hsq)) in Ht. destruct Ht as [Ht Hne]. split; [right; exists sq, t; auto | exact Hne].
  - intros [[[]|[sq [t [Hs [Ht ->]]]]] Hne]. right. exists sq, t. split; [exact Hs|]. split; [|reflexivity].
    assert (Hsq : sq < 64) by (rewrite (BoardOK_ptBB p pc sq HB Hpc) in Hs; apply andb_true_iff in Hs; destruct Hs as [Hs _]; apply N.ltb_lt; exact Hs).
    apply (cap_target _ _ (Hatk sq Hsq)). auto.
Qed.

Lemma cap_king : forall m,
  In m (addMovesByMask [] (kingSq p w) (N.land (kingAttacks (kingSq p w)) enemy)) <->
  In m (kingBlock w p []) /\ getPiece p (mto m) <> EMPTY.
Proof.
  intro m. unfold kingBlock. cbv zeta. fold own.
  rewrite !addMovesByMask_In by (first [apply land_lt_l | apply ldiff_lt]; apply kingAttacks_lt). cbn [In]. split.
  - intros [[]|[t [Ht ->]]]. apply (cap_target _ _ (kingAttacks_lt _)) in Ht. destruct Ht as [Ht Hne].
    split; [right; exists t; auto | exact Hne].
  - intros [[[]|[t [Ht ->]]] Hne]. right. exists t. split; [|reflexivity]. apply (cap_target _ _ (kingAttacks_lt _)). auto.
Qed.
End Captures.

(** rows 1 and 8 separately *)
Lemma rows18_spec : forall t, t < 64 ->
  N.testbit maskRow8 t = (zr t =? 7)%Z /\ N.testbit maskRow1 t = (zr t =? 0)%Z /\ maskRow8 < 2 ^ 64 /\ maskRow1 < 2 ^ 64.
Proof.
  assert (H : forallb (fun t => Bool.eqb (N.testbit maskRow8 t) (zr t =? 7)%Z && Bool.eqb (N.testbit maskRow1 t) (zr t =? 0)%Z) allSquares = true)
    by (vm_compute; reflexivity).
  intros t Ht. pose proof (sweep1 _ H t Ht) as Hs. cbv beta in Hs. apply andb_true_iff in Hs. destruct Hs as [H1 H2].
  apply eqb_prop in H1, H2. repeat split; try assumption; reflexivity.
Qed.

Lemma zf_shift : forall a c k, (Z.of_N a = Z.of_N c + 8 * k)%Z -> zf a = zf c.
Proof. intros a c k H. unfold zf. rewrite H. rewrite Z.mul_comm. apply Z_mod_plus_full. Qed.

Definition shapeK (kinds : list kind) (wtm : bool) (d : Z) (t : square) (m : move) : Prop :=
  (N.testbit maskRow1Row8 t = true /\ exists k, In k kinds /\ m = mkMove (sqAdd t d) t (mk_piece wtm k)) \/
  (N.testbit maskRow1Row8 t = false /\ m = mkMove (sqAdd t d) t EMPTY).

Lemma underPromo_kind : forall (wtm : bool) k, In k promoKinds ->
  negb (underPromotionRB (mkMove 0 0 (mk_piece wtm k))) = true -> In k promoKindsQN.
Proof.
  intros wtm k Hk H. cbn in Hk. destruct Hk as [<-|[<-|[<-|[<-|[]]]]]; cbn; auto; destruct wtm; discriminate.
Qed.

Lemma shape_QN_all : forall wtm d t m, shapeK promoKindsQN wtm d t m -> shapeK promoKinds wtm d t m.
Proof.
  intros wtm d t m [[Hr [k [Hk ->]]]|H]; [left | right; exact H]. split; [exact Hr|]. exists k. split; [|reflexivity].
  cbn in Hk. destruct Hk as [<-|[<-|[]]]; cbn; auto.
Qed.

Lemma shape_all_QN : forall wtm d t m, shapeK promoKinds wtm d t m -> negb (underPromotionRB m) = true ->
  shapeK promoKindsQN wtm d t m.
Proof.
  intros wtm d t m [[Hr [k [Hk ->]]]|H] Hu; [left | right; exact H]. split; [exact Hr|]. exists k. split; [|reflexivity].
  apply (underPromo_kind wtm k Hk). exact Hu.
Qed.

Lemma notpawn_Q : forall wtm : bool, isPawnPc (myPiece wtm WQUEEN) = false. Proof. destruct wtm; reflexivity. Qed.
Lemma notpawn_R : forall wtm : bool, isPawnPc (myPiece wtm WROOK) = false. Proof. destruct wtm; reflexivity. Qed.
Lemma notpawn_B : forall wtm : bool, isPawnPc (myPiece wtm WBISHOP) = false. Proof. destruct wtm; reflexivity. Qed.
Lemma notpawn_N : forall wtm : bool, isPawnPc (myPiece wtm WKNIGHT) = false. Proof. destruct wtm; reflexivity. Qed.
Lemma notpawn_king : forall wtm : bool, isPawnPc (mk_piece wtm King) = false.
Proof. destruct wtm; reflexivity. Qed.

Section Captures2.
Variable p : position.
Hypothesis HWF : WF p.
Let w := whiteMove p.
Let occ := occupiedBB p.
Let enemy := colorBB p (negb w).
Let HB : BoardOK p := WF_BoardOK p HWF.
Let pawns := ptBB p (myPiece w WPAWN).
Let eoe := N.lor enemy (epMaskOf p).
Let m1 := andn (fwd w pawns 8) occ.
Let m2 := andn (fwd w (N.land m1 (if w then maskRow3 else maskRow6)) 8) occ.
Let kL : N := if w then 7 else 9.
Let kR : N := if w then 9 else 7.
Let m3 := N.land (N.land (fwd w pawns kL) maskAToGFiles) eoe.
Let m4 := N.land (N.land (fwd w pawns kR) maskBToHFiles) eoe.
Let c1 := N.land m1 (if w then maskRow8 else maskRow1).

Lemma masks_lt : pawns < 2 ^ 64 /\ m1 < 2 ^ 64 /\ m2 < 2 ^ 64 /\ m3 < 2 ^ 64 /\ m4 < 2 ^ 64 /\ c1 < 2 ^ 64.
Proof.
  assert (Hp : pawns < 2 ^ 64) by (apply (pawns_lt p HWF w)).
  assert (H1 : m1 < 2 ^ 64) by (apply ldiff_lt, fwd_lt; exact Hp).
  repeat split; try assumption.
  - apply ldiff_lt, fwd_lt, land_lt_l; exact H1.
  - apply land_lt_l, land_lt_l, fwd_lt; exact Hp.
  - apply land_lt_l, land_lt_l, fwd_lt; exact Hp.
  - apply land_lt_l; exact H1.
Qed.

Lemma pawnBlock_In : forall m,
  In m (pawnBlock w p []) <->
  (exists t, N.testbit m1 t = true /\ shapeK promoKinds w (delta w 8) t m) \/
  (exists t, N.testbit m2 t = true /\ m = mkMove (sqAdd t (delta w 16)) t EMPTY) \/
  (exists t, N.testbit m3 t = true /\ shapeK promoKinds w (delta w kL) t m) \/
  (exists t, N.testbit m4 t = true /\ shapeK promoKinds w (delta w kR) t m).
Proof.
  intro m. destruct masks_lt as (Hp & H1 & H2 & H3 & H4 & _).
  rewrite pawnBlock_normal. cbv zeta. fold occ pawns enemy. fold eoe. fold m1. fold m2. fold kL kR. fold m3 m4.
  rewrite (addPawnMovesByMask_In w _ m4 _ m H4), (addPawnMovesByMask_In w _ m3 _ m H3),
          (addPawnDoubleMovesByMask_In _ m2 _ m H2), (addPawnMovesByMask_In w _ m1 _ m H1).
  cbn [In]. unfold shapeK. tauto.
Qed.

Lemma capPawn_In : forall l m,
  In m (addPawnMovesByMask w (addPawnMovesByMask w (addPawnMovesByMask w l c1 (delta w 8) false) m3 (delta w kL) false) m4 (delta w kR) false) <->
  In m l \/
  (exists t, N.testbit c1 t = true /\ shapeK promoKindsQN w (delta w 8) t m) \/
  (exists t, N.testbit m3 t = true /\ shapeK promoKindsQN w (delta w kL) t m) \/
  (exists t, N.testbit m4 t = true /\ shapeK promoKindsQN w (delta w kR) t m).
Proof.
  intros l m. destruct masks_lt as (Hp & H1 & H2 & H3 & H4 & Hc).
  rewrite (addPawnMovesByMask_In_QN w _ m4 _ m H4), (addPawnMovesByMask_In_QN w _ m3 _ m H3),
          (addPawnMovesByMask_In_QN w _ c1 _ m Hc). unfold shapeK. tauto.
Qed.

(** facts about a push target *)
Lemma push_target_facts : forall t, N.testbit m1 t = true ->
  t < 64 /\ getPiece p t = EMPTY /\ sqAdd t (delta w 8) < 64 /\
  getPiece p (sqAdd t (delta w 8)) = mk_piece w Pawn /\ zf t = zf (sqAdd t (delta w 8)) /\
  (N.testbit maskRow1Row8 t = true -> N.testbit (if w then maskRow8 else maskRow1) t = true).
Proof.
  intros t Ht. unfold m1, andn in Ht. rewrite N.ldiff_spec in Ht. apply andb_true_iff in Ht. destruct Ht as [Hf Ho].
  apply negb_true_iff in Ho. destruct masks_lt as (Hp & _).
  apply (fwd_testbit w pawns 8 t Hp) in Hf. destruct Hf as [Ht [Hpb Hz]].
  apply (pawns_bit p HWF w) in Hpb. destruct Hpb as [Hf64 Hpc].
  split; [exact Ht|]. split; [apply (empty_bit p HWF t Ht); exact Ho|]. split; [exact Hf64|]. split; [exact Hpc|].
  split.
  - symmetry. apply (zf_shift _ _ (if w then -1 else 1)%Z). rewrite Hz. unfold delta. change (Z.of_N 8) with 8%Z. unfold w. destruct (whiteMove p); lia.
  - intro Hr. destruct (masks_spec t Ht) as [Hm _]. rewrite Hm in Hr. destruct (rows18_spec t Ht) as [H8 [H1 _]].
    destruct (sq_decomp t Ht) as [Et [Hft Hrt]]. destruct (sq_decomp _ Hf64) as [Ef [Hff Hrf]].
    unfold delta in *. change (Z.of_N 8) with 8%Z in *. apply orb_true_iff in Hr. rewrite !Z.eqb_eq in Hr.
    unfold w in *. destruct (whiteMove p); [rewrite H8 | rewrite H1]; apply Z.eqb_eq; lia.
Qed.
Lemma block_move_shape : forall (pc : piece) (g : square -> N) m, In pc pieceCodes ->
  (forall sq, sq < 64 -> g sq < 2 ^ 64) ->
  In m (forSquares (ptBB p pc) (fun l sq => addMovesByMask l sq (g sq)) []) ->
  mpromote m = EMPTY /\ getPiece p (mfrom m) = pc.
Proof.
  intros pc g m Hpc Hg Hin. apply (forSquares_moves_In g) in Hin; [|apply BoardOK_ptBB_lt; assumption | exact Hg].
  destruct Hin as [[]|[sq [t [Hs [_ ->]]]]]. cbn [mpromote mfrom]. split; [reflexivity|].
  rewrite (BoardOK_ptBB p pc sq HB Hpc) in Hs. apply andb_true_iff in Hs. destruct Hs as [_ Hs]. apply N.eqb_eq in Hs. exact Hs.
Qed.

Lemma class_nonpawn : forall m, capClassE p m = true -> mpromote m = EMPTY ->
  isPawnPc (getPiece p (mfrom m)) = false -> getPiece p (mto m) <> EMPTY.
Proof.
  intros m Hc Hp Hnp. unfold capClassE in Hc. rewrite Hp, Hnp in Hc. change (EMPTY =? EMPTY) with true in Hc.
  cbn [negb andb orb] in Hc. rewrite !orb_false_r in Hc. apply andb_true_iff in Hc. destruct Hc as [Hc _].
  apply negb_true_iff, N.eqb_neq in Hc. exact Hc.
Qed.

Let occupied_fold : occupiedBB p = occ := eq_refl.

Definition cQ := forSquares (ptBB p (myPiece w WQUEEN)) (fun l sq => addMovesByMask l sq (N.land (N.lor (rookAttacks sq occ) (bishopAttacks sq occ)) enemy)) [].
Definition cR := forSquares (ptBB p (myPiece w WROOK)) (fun l sq => addMovesByMask l sq (N.land (rookAttacks sq occ) enemy)) [].
Definition cB := forSquares (ptBB p (myPiece w WBISHOP)) (fun l sq => addMovesByMask l sq (N.land (bishopAttacks sq occ) enemy)) [].
Definition cN := forSquares (ptBB p (myPiece w WKNIGHT)) (fun l sq => addMovesByMask l sq (N.land (knightAttacks sq) enemy)) [].
Definition cK := addMovesByMask [] (kingSq p w) (N.land (kingAttacks (kingSq p w)) enemy).

Lemma attack_bounds :
  (forall sq, sq < 64 -> N.lor (rookAttacks sq occ) (bishopAttacks sq occ) < 2 ^ 64) /\
  (forall sq, sq < 64 -> rookAttacks sq occ < 2 ^ 64) /\ (forall sq, sq < 64 -> bishopAttacks sq occ < 2 ^ 64) /\
  (forall sq, sq < 64 -> knightAttacks sq < 2 ^ 64).
Proof.
  split; [|split; [|split]].
  - intros sq Hs. apply lt_2_64_of_bits. intros i Hi. rewrite N.lor_spec, orb_true_iff in Hi.
    destruct Hi as [Hi|Hi]; [exact (rookAttacks_in_board sq i _ Hs Hi) | exact (bishopAttacks_in_board sq i _ Hs Hi)].
  - intros; apply rookAttacks_lt; assumption.
  - intros; apply bishopAttacks_lt; assumption.
  - intros; apply knightAttacks_lt.
Qed.

Lemma codes4 : In (myPiece w WQUEEN) pieceCodes /\ In (myPiece w WROOK) pieceCodes /\
               In (myPiece w WBISHOP) pieceCodes /\ In (myPiece w WKNIGHT) pieceCodes.
Proof. repeat split; apply myPiece_codes; cbn; tauto. Qed.

Lemma caps_In : forall m, In m (pseudoLegalCaptures p) <->
  In m cQ \/ In m cR \/ In m cB \/ In m cN \/ In m cK \/
  (exists t, N.testbit c1 t = true /\ shapeK promoKindsQN w (delta w 8) t m) \/
  (exists t, N.testbit m3 t = true /\ shapeK promoKindsQN w (delta w kL) t m) \/
  (exists t, N.testbit m4 t = true /\ shapeK promoKindsQN w (delta w kR) t m).
Proof.
  intro m. destruct attack_bounds as (Hq & Hr & Hbi & Hn). destruct codes4 as (HcQ & HcR & HcB & HcN).
  unfold pseudoLegalCaptures. fold w. rewrite capturesT_normal. cbv zeta. fold occ enemy pawns. fold eoe. fold m1. fold c1. fold kL kR. fold m3 m4.
  rewrite capPawn_In.
  rewrite addMovesByMask_In by (apply land_lt_l, kingAttacks_lt).
  rewrite (slider_like_app p HWF (fun sq => N.land (knightAttacks sq) enemy) _ _ m HcN) by (intros; apply land_lt_l, Hn; assumption).
  rewrite (slider_like_app p HWF (fun sq => N.land (bishopAttacks sq occ) enemy) _ _ m HcB) by (intros; apply land_lt_l, Hbi; assumption).
  rewrite (slider_like_app p HWF (fun sq => N.land (rookAttacks sq occ) enemy) _ _ m HcR) by (intros; apply land_lt_l, Hr; assumption).
  assert (HK : (exists t, N.testbit (N.land (kingAttacks (kingSq p w)) enemy) t = true /\ m = mkMove (kingSq p w) t EMPTY) <-> In m cK).
  { unfold cK. rewrite addMovesByMask_In by (apply land_lt_l, kingAttacks_lt). cbn [In]. tauto. }
  rewrite HK. unfold cQ, cR, cB, cN.
  match goal with |- (((((?a \/ ?b) \/ ?c) \/ ?d) \/ ?e) \/ ?f \/ ?g \/ ?h) <-> _ =>
    generalize a b c d e f g h end. clear. tauto.
Qed.

Lemma pseudo_blocks_In : forall m, In m (pseudoLegalMoves p) <->
  In m (queenBlock w p []) \/ In m (rookBlock w p []) \/ In m (bishopBlock w p []) \/
  In m (kingBlock w p []) \/ In m (castleMoves w p occ (kingSq p w) []) \/
  In m (knightBlock w p []) \/ In m (pawnBlock w p []).
Proof.
  intro m. unfold pseudoLegalMoves, pseudoLegalMovesT. cbv zeta.
  rewrite (pawnBlock_app p HWF), (knightBlock_app p HWF), (castleMoves_app p), (kingBlock_app p),
          (bishopBlock_app p HWF), (rookBlock_app p HWF), (queenBlock_app p HWF). cbn [In]. fold w occ.
  match goal with |- (((((((False \/ ?a) \/ ?b) \/ ?c) \/ ?d) \/ ?e) \/ ?f) \/ ?g) <-> _ =>
    generalize a b c d e f g end. clear. tauto.
Qed.

Lemma cQ_iff : forall m, In m cQ <-> In m (queenBlock w p []) /\ getPiece p (mto m) <> EMPTY.
Proof. intro m. destruct attack_bounds as (Hq & _). destruct codes4 as (HcQ & _).
  apply (cap_loop p HWF _ (fun sq => N.lor (rookAttacks sq occ) (bishopAttacks sq occ)) m HcQ Hq). Qed.
Lemma cR_iff : forall m, In m cR <-> In m (rookBlock w p []) /\ getPiece p (mto m) <> EMPTY.
Proof. intro m. destruct attack_bounds as (_ & Hr & _). destruct codes4 as (_ & HcR & _).
  apply (cap_loop p HWF _ (fun sq => rookAttacks sq occ) m HcR Hr). Qed.
Lemma cB_iff : forall m, In m cB <-> In m (bishopBlock w p []) /\ getPiece p (mto m) <> EMPTY.
Proof. intro m. destruct attack_bounds as (_ & _ & Hbi & _). destruct codes4 as (_ & _ & HcB & _).
  apply (cap_loop p HWF _ (fun sq => bishopAttacks sq occ) m HcB Hbi). Qed.
Lemma cN_iff : forall m, In m cN <-> In m (knightBlock w p []) /\ getPiece p (mto m) <> EMPTY.
Proof. intro m. destruct attack_bounds as (_ & _ & _ & Hn). destruct codes4 as (_ & _ & _ & HcN).
  apply (cap_loop p HWF _ knightAttacks m HcN Hn). Qed.
Lemma cK_iff : forall m, In m cK <-> In m (kingBlock w p []) /\ getPiece p (mto m) <> EMPTY.
Proof. intro m. apply (cap_king p HWF m). Qed.

Lemma caps_sub : forall m, In m (pseudoLegalCaptures p) -> In m (pseudoLegalMoves p).
Proof.
  intro m. destruct attack_bounds as (Hq & Hr & Hbi & Hn). destruct codes4 as (HcQ & HcR & HcB & HcN).
  pose proof (caps_In m) as Hcaps. pose proof (pseudo_blocks_In m) as Hall.
  assert (HQ : In m cQ <-> In m (queenBlock w p []) /\ getPiece p (mto m) <> EMPTY)
    by (apply (cap_loop p HWF _ (fun sq => N.lor (rookAttacks sq occ) (bishopAttacks sq occ)) m HcQ Hq)).
  assert (HR : In m cR <-> In m (rookBlock w p []) /\ getPiece p (mto m) <> EMPTY)
    by (apply (cap_loop p HWF _ (fun sq => rookAttacks sq occ) m HcR Hr)).
  assert (HBs : In m cB <-> In m (bishopBlock w p []) /\ getPiece p (mto m) <> EMPTY)
    by (apply (cap_loop p HWF _ (fun sq => bishopAttacks sq occ) m HcB Hbi)).
  assert (HN : In m cN <-> In m (knightBlock w p []) /\ getPiece p (mto m) <> EMPTY)
    by (apply (cap_loop p HWF _ knightAttacks m HcN Hn)).
  assert (HKk : In m cK <-> In m (kingBlock w p []) /\ getPiece p (mto m) <> EMPTY)
    by (apply (cap_king p HWF m)).
  intro Hin. apply (proj1 Hcaps) in Hin. apply (proj2 Hall).
    destruct Hin as [H|[H|[H|[H|[H|Hp]]]]].
    { apply (proj1 HQ) in H. left. exact (proj1 H). }
    { apply (proj1 HR) in H. right. left. exact (proj1 H). }
    { apply (proj1 HBs) in H. right. right. left. exact (proj1 H). }
    { apply (proj1 HN) in H. right. right. right. right. right. left. exact (proj1 H). }
    { apply (proj1 HKk) in H. right. right. right. left. exact (proj1 H). }
    right. right. right. right. right. right. apply (proj2 (pawnBlock_In m)).
    destruct Hp as [[t [Ht Hs]]|[[t [Ht Hs]]|[t [Ht Hs]]]].
    + left. exists t. split; [|apply shape_QN_all; exact Hs].
      unfold c1 in Ht. rewrite N.land_spec in Ht. apply andb_true_iff in Ht. apply Ht.
    + right. right. left. exists t. split; [exact Ht | apply shape_QN_all; exact Hs].
    + right. right. right. exists t. split; [exact Ht | apply shape_QN_all; exact Hs].
Qed.

Lemma loop_target_nonempty : forall (pc : piece) (g : square -> N) m, In pc pieceCodes ->
  (forall sq, sq < 64 -> g sq < 2 ^ 64) -> isPawnPc pc = false ->
  In m (forSquares (ptBB p pc) (fun l sq => addMovesByMask l sq (g sq)) []) -> capClassE p m = true ->
  getPiece p (mto m) <> EMPTY.
Proof.
  intros pc g m Hpc Hg Hnp H Hcl. destruct (block_move_shape pc g m Hpc Hg H) as [Hp Hpcm].
  apply (class_nonpawn m Hcl Hp). rewrite Hpcm. exact Hnp.
Qed.

Lemma king_target_nonempty : forall m, In m (kingBlock w p []) -> capClassE p m = true -> getPiece p (mto m) <> EMPTY.
Proof.
  intros m H Hcl. unfold kingBlock in H. cbv zeta in H. rewrite addMovesByMask_In in H by (apply ldiff_lt, kingAttacks_lt).
  destruct H as [[]|[t [_ ->]]]. apply (class_nonpawn _ Hcl eq_refl). cbn [mfrom].
  destruct (kingSq_spec p w HWF) as [_ Hk]. rewrite Hk. exact (notpawn_king w).
Qed.

Lemma castle_not_class : forall m, In m (castleMoves w p occ (kingSq p w) []) -> capClassE p m = true -> False.
Proof.
  intros m H Hcl. unfold w, occ in H. apply (proj1 (castleMoves_spec p HWF m)) in H. fold w in H.
      unfold castle_moves_pseudo in H. cbn [abs sp_board sp_white] in H. fold w in H. cbv beta zeta in H.
      set (r := (if w then 0 else 7)%Z) in H.
      assert (Hr07 : (r = 0 \/ r = 7)%Z) by (unfold r; generalize w; intros [|]; auto).
      assert (Hob : forall f0, (0 <= f0 <= 7)%Z -> on_board f0 r = true)
        by (intros f0 Hf0; unfold on_board; rewrite !andb_true_iff, !Z.leb_le; lia).
      destruct (is_piece w King (at_ (squares p) 4 r) && negb (attacked_by (squares p) (negb w) 4 r)) eqn:E0; [|destruct H].
      apply andb_true_iff in E0. destruct E0 as [EK _]. rewrite is_piece_eqb in EK. apply N.eqb_eq in EK.
      rewrite (at_getPiece p 4 r (Hob 4%Z ltac:(lia))) in EK.
      assert (Hno : forall f0, (0 <= f0 <= 7)%Z -> at_ (squares p) f0 r = EMPTY -> capClassE p (mv 4 r f0 r EMPTY) = false).
      { intros f0 Hf0 He. unfold capClassE, mv. cbn [mfrom mto mpromote]. rewrite (at_getPiece p f0 r (Hob f0 Hf0)) in He.
        rewrite He, EK. change (EMPTY =? EMPTY) with true. cbn [negb orb].
        rewrite notpawn_king. reflexivity. }
      apply in_app_iff in H. destruct H as [H|H]; apply In_single_if in H; destruct H as [Hc ->].
      * rewrite !andb_true_iff in Hc. destruct Hc as [[[_ _] H6] _]. apply N.eqb_eq in H6.
        rewrite (Hno 6%Z ltac:(lia) H6) in Hcl. discriminate.
      * rewrite !andb_true_iff in Hc. destruct Hc as [[[[_ _] H2] _] _]. apply N.eqb_eq in H2.
        rewrite (Hno 2%Z ltac:(lia) H2) in Hcl. discriminate.
Qed.

Lemma pawn_complete : forall m, In m (pawnBlock w p []) -> capClassE p m = true ->
  (exists t, N.testbit c1 t = true /\ shapeK promoKindsQN w (delta w 8) t m) \/
  (exists t, N.testbit m3 t = true /\ shapeK promoKindsQN w (delta w kL) t m) \/
  (exists t, N.testbit m4 t = true /\ shapeK promoKindsQN w (delta w kR) t m).
Proof.
  intros m H Hcl.
  assert (Hunder : negb (underPromotionRB m) = true) by (unfold capClassE in Hcl; apply andb_true_iff in Hcl; apply Hcl).
  apply (proj1 (pawnBlock_In m)) in H.
      destruct H as [[t [Ht Hs]]|[[t [Ht Hs]]|[[t [Ht Hs]]|[t [Ht Hs]]]]].
      * destruct (push_target_facts t Ht) as (Ht64 & Hemp & Hf64 & Hpc & Hzf & Hrow).
        destruct Hs as [[Hr18 Hk]|[Hr18 ->]].
        -- left. exists t. split; [unfold c1; rewrite N.land_spec, Ht, (Hrow Hr18); reflexivity|].
           apply (shape_all_QN w _ t m); [left; auto | exact Hunder].
        -- exfalso. unfold capClassE in Hcl. cbn [mfrom mto mpromote] in Hcl. rewrite Hemp, Hzf, Z.eqb_refl in Hcl.
           change (EMPTY =? EMPTY) with true in Hcl. cbn [negb orb andb] in Hcl. rewrite andb_false_r in Hcl. discriminate.
      * exfalso. rewrite Hs in Hcl.
        unfold m2, andn in Ht. rewrite N.ldiff_spec in Ht. apply andb_true_iff in Ht. destruct Ht as [Hf Ho].
        apply negb_true_iff in Ho. destruct masks_lt as (_ & H1 & _).
        apply (fwd_testbit w _ 8 t) in Hf; [|apply land_lt_l; exact H1]. destruct Hf as [Ht64 [Hmid Hz]].
        rewrite N.land_spec in Hmid. apply andb_true_iff in Hmid. destruct Hmid as [Hmid _].
        unfold m1, andn in Hmid. rewrite N.ldiff_spec in Hmid. apply andb_true_iff in Hmid. destruct Hmid as [Hmid _].
        destruct masks_lt as (Hpl & _).
        apply (fwd_testbit w pawns 8 _ Hpl) in Hmid. destruct Hmid as [_ [_ Hz2]].
        unfold capClassE in Hcl. cbn [mfrom mto mpromote] in Hcl.
        rewrite (proj1 (empty_bit p HWF t Ht64) Ho) in Hcl.
        assert (Hzf : zf t = zf (sqAdd t (delta w 16))).
        { assert (Hge : (0 <= Z.of_N t + delta w 16)%Z).
          { rewrite delta_16. pose proof (N2Z.is_nonneg (sqAdd (sqAdd t (delta w 8)) (delta w 8))). lia. }
          symmetry. apply (zf_shift _ _ (if w then -2 else 2)%Z). unfold sqAdd. rewrite Z2N.id by exact Hge.
          unfold delta. change (Z.of_N 16) with 16%Z. generalize w. intros [|]; lia. }
        rewrite Hzf, Z.eqb_refl in Hcl. change (EMPTY =? EMPTY) with true in Hcl.
        cbn [negb orb andb] in Hcl. rewrite andb_false_r in Hcl. discriminate.
      * right. left. exists t. split; [exact Ht | apply shape_all_QN; assumption].
      * right. right. exists t. split; [exact Ht | apply shape_all_QN; assumption].
Qed.

Lemma Q_nonempty : forall m, In m (queenBlock w p []) -> capClassE p m = true -> getPiece p (mto m) <> EMPTY.
Proof. intros m H Hcl. destruct attack_bounds as (Hq & _). destruct codes4 as (HcQ & _).
  refine (loop_target_nonempty (myPiece w WQUEEN)
            (fun sq => andn (N.lor (rookAttacks sq (occupiedBB p)) (bishopAttacks sq (occupiedBB p))) (colorBB p w))
            m HcQ (fun sq Hs => ldiff_lt _ _ 64 (Hq sq Hs)) (notpawn_Q w) H Hcl). Qed.
Lemma R_nonempty : forall m, In m (rookBlock w p []) -> capClassE p m = true -> getPiece p (mto m) <> EMPTY.
Proof. intros m H Hcl. destruct attack_bounds as (_ & Hr & _). destruct codes4 as (_ & HcR & _).
  refine (loop_target_nonempty (myPiece w WROOK) (fun sq => andn (rookAttacks sq (occupiedBB p)) (colorBB p w))
            m HcR (fun sq Hs => ldiff_lt _ _ 64 (Hr sq Hs)) (notpawn_R w) H Hcl). Qed.
Lemma B_nonempty : forall m, In m (bishopBlock w p []) -> capClassE p m = true -> getPiece p (mto m) <> EMPTY.
Proof. intros m H Hcl. destruct attack_bounds as (_ & _ & Hbi & _). destruct codes4 as (_ & _ & HcB & _).
  refine (loop_target_nonempty (myPiece w WBISHOP) (fun sq => andn (bishopAttacks sq (occupiedBB p)) (colorBB p w))
            m HcB (fun sq Hs => ldiff_lt _ _ 64 (Hbi sq Hs)) (notpawn_B w) H Hcl). Qed.
Lemma N_nonempty : forall m, In m (knightBlock w p []) -> capClassE p m = true -> getPiece p (mto m) <> EMPTY.
Proof. intros m H Hcl. destruct attack_bounds as (_ & _ & _ & Hn). destruct codes4 as (_ & _ & _ & HcN).
  refine (loop_target_nonempty (myPiece w WKNIGHT) (fun sq => andn (knightAttacks sq) (colorBB p w))
            m HcN (fun sq Hs => ldiff_lt _ _ 64 (Hn sq Hs)) (notpawn_N w) H Hcl). Qed.

Lemma caps_complete : forall m, In m (pseudoLegalMoves p) -> capClassE p m = true -> In m (pseudoLegalCaptures p).
Proof.
  intros m Hin Hcl.
  apply (proj1 (pseudo_blocks_In m)) in Hin. apply (proj2 (caps_In m)).
  destruct Hin as [H|[H|[H|[H|[H|[H|H]]]]]].
  - left. apply (proj2 (cQ_iff m)). split; [exact H | exact (Q_nonempty m H Hcl)].
  - right. left. apply (proj2 (cR_iff m)). split; [exact H | exact (R_nonempty m H Hcl)].
  - right. right. left. apply (proj2 (cB_iff m)). split; [exact H | exact (B_nonempty m H Hcl)].
  - right. right. right. right. left. apply (proj2 (cK_iff m)). split; [exact H | exact (king_target_nonempty m H Hcl)].
  - exfalso. exact (castle_not_class m H Hcl).
  - right. right. right. left. apply (proj2 (cN_iff m)). split; [exact H | exact (N_nonempty m H Hcl)].
  - right. right. right. right. right. exact (pawn_complete m H Hcl).
Qed.

End Captures2.

(** the Spec's capture class = the engine-level one, on pseudo-legal moves *)
Lemma captureClass_E : forall p m, WF p -> In m (pseudoLegalMoves p) -> captureClass (abs p) m = capClassE p m.
Proof.
  intros p m H Hm. destruct (pseudo_move_good p H m Hm) as [_ [Hok _]].
  pose proof (moveOk_facts p m Hok) as F. cbv zeta in F. destruct F as (Hf & Ht & _ & Hown & _).
  unfold captureClass, is_capture_spec, capClassE. cbn [abs sp_board sp_white].
  change (file_of (mto m)) with (zf (mto m)). change (rank_of (mto m)) with (zr (mto m)).
  change (file_of (mfrom m)) with (zf (mfrom m)). change (rank_of (mfrom m)) with (zr (mfrom m)).
  rewrite <- (getPiece_at p _ Ht), <- (getPiece_at p _ Hf).
  assert (Hp : is_piece (whiteMove p) Pawn (getPiece p (mfrom m)) = isPawnPc (getPiece p (mfrom m))).
  { pose proof (BoardOK_le12 p (mfrom m) (WF_BoardOK p H)) as Hle. rewrite (ownPiece_has_color _ _ Hle) in Hown.
    rewrite is_piece_eqb. unfold isPawnPc.
    destruct (le12_cases _ Hle) as [E|[E|[E|[E|[E|[E|[E|[E|[E|[E|[E|[E|E]]]]]]]]]]]]; rewrite E in *;
      destruct (whiteMove p); try reflexivity; discriminate. }
  rewrite Hp.
  destruct (getPiece p (mto m) =? EMPTY), (mpromote m =? EMPTY), (isPawnPc (getPiece p (mfrom m))),
           (zf (mto m) =? zf (mfrom m))%Z; reflexivity.
Qed.

(** C01_captures_complete *)
Theorem captures_complete : forall zk p m, emptyKeysZero zk -> WF p -> Consistent zk p ->
  (forall m', In m' (pseudoLegalCaptures p) -> In m' (pseudoLegalMoves p)) /\
  (legal_spec (abs p) m -> captureClass (abs p) m = true ->
   In m (snd (removeIllegal zk p (pseudoLegalCaptures p)))) /\
  (In m (snd (removeIllegal zk p (pseudoLegalCaptures p))) -> legal_spec (abs p) m) /\
  normEmpty (fst (removeIllegal zk p (pseudoLegalCaptures p))) = normEmpty p.
Proof.
  intros zk p m E H C.
  destruct (removeIllegal_sublist zk p (pseudoLegalCaptures p) E H C (caps_sub p H)) as [Hiff Hr].
  split; [exact (caps_sub p H)|]. split; [|split; [|exact Hr]].
  - intros Hl Hc. apply (proj2 (Hiff m)). split; [|exact Hl].
    assert (Hm : In m (pseudoLegalMoves p)) by (apply (pseudo_exact_all p m H); exact Hl).
    apply (caps_complete p H m Hm). rewrite <- (captureClass_E p m H Hm). exact Hc.
  - intro Hin. exact (proj2 (proj1 (Hiff m) Hin)).
Qed.
