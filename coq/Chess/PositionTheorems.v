(** C02: the theorems cited by Properties_C02.v, with non-vacuity examples. *)
From Coq Require Import ZArith NArith List Bool Lia.
From Texel Require Import Chess.Types Chess.Position Chess.PositionSpec Chess.PositionFacts
  Chess.PositionProofs Chess.PositionProofs2 Chess.PositionProofs3 Chess.PositionProofs4.
Import ListNotations.
Local Open Scope N_scope.

Section Theorems.
Variable zk : zkeys.
Hypothesis EKZ : emptyKeysZero zk.

Lemma St_self p : Consistent zk p -> St zk 0 (squares p) (scalars p) p.
Proof. intro C. split; [exact C | split; reflexivity]. Qed.

(** made position, with the three things unMakeMove relies on *)
Definition matchesMade (p : position) (m : move) (q : position) : Prop :=
  squares q = squares (fst (makeMove zk p m)) /\
  whiteMove q = whiteMove (fst (makeMove zk p m)) /\
  fullMoveCounter q = fullMoveCounter (fst (makeMove zk p m)).

Lemma make_unmake_general p m :
  Consistent zk p -> moveOk p m = true ->
  Consistent zk (fst (makeMove zk p m)) /\
  forall q, Consistent zk q -> matchesMade p m q ->
    Consistent zk (unMakeMove zk q m (snd (makeMove zk p m))) /\
    normEmpty (unMakeMove zk q m (snd (makeMove zk p m))) = normEmpty p.
Proof.
  intros C Hok.
  assert (G : exists sqs' wm' h' fm' cm' ep',
             St zk 0 sqs' (wm', h', fm', cm', ep') (fst (makeMove zk p m)) /\
             forall q h2 cm2 ep2, St zk 0 sqs' (wm', h2, fm', cm2, ep2) q ->
               St zk 0 (squares p) (scalars p) (unMakeMove zk q m (snd (makeMove zk p m)))).
  { destruct (whiteMove p) eqn:Ewm.
    - destruct (make_unmake_St_white zk EKZ p m C Hok Ewm) as (sqs' & h' & cm' & ep' & Sm & Hun).
      exists sqs', false, h', (fullMoveCounter p), cm', ep'. auto.
    - destruct (make_unmake_St_black zk EKZ p m C Hok Ewm) as (sqs' & h' & cm' & ep' & Sm & Hun).
      exists sqs', true, h', (fullMoveCounter p + 1)%Z, cm', ep'. auto. }
  destruct G as (sqs' & wm' & h' & fm' & cm' & ep' & Sm & Hun).
  split; [apply Sm|].
  intros q Cq (M1 & M2 & M3).
  destruct Sm as (Cm & Sqm & Scm). unfold scalars in Scm. inversion Scm.
  assert (Sq : St zk 0 sqs' (wm', halfMoveClock q, fm', castleMask q, epSquare q) q).
  { split; [exact Cq | split; [congruence|]]. unfold scalars. congruence. }
  specialize (Hun q _ _ _ Sq).
  split; [apply Hun|].
  apply (St_unique zk _ _ _ _ Hun (St_self p C)).
Qed.

Theorem unmake_make p m :
  Consistent zk p -> moveOk p m = true ->
  normEmpty (unMakeMove zk (fst (makeMove zk p m)) m (snd (makeMove zk p m))) = normEmpty p.
Proof.
  intros C Hok. destruct (make_unmake_general p m C Hok) as (Cm & H).
  apply H; [exact Cm | repeat split].
Qed.

Theorem makeMove_consistent p m :
  Consistent zk p -> moveOk p m = true -> Consistent zk (fst (makeMove zk p m)).
Proof. intros C Hok. apply (make_unmake_general p m C Hok). Qed.

(** every field except the dead EMPTY board is restored *)
Lemma normEmpty_fields p q : normEmpty p = normEmpty q ->
  squares p = squares q /\ (forall pc, 1 <= pc -> ptBB p pc = ptBB q pc) /\ whiteBB p = whiteBB q /\ blackBB p = blackBB q /\
  whiteMove p = whiteMove q /\ halfMoveClock p = halfMoveClock q /\ fullMoveCounter p = fullMoveCounter q /\
  castleMask p = castleMask q /\ epSquare p = epSquare q /\ hashKey p = hashKey q /\ pHashKey p = pHashKey q /\
  matId p = matId q /\ wMtrl p = wMtrl q /\ bMtrl p = bMtrl q /\ wMtrlPawns p = wMtrlPawns q /\ bMtrlPawns p = bMtrlPawns q.
Proof.
  unfold normEmpty. intro H.
  assert (Hbb : updN 0 0 (pieceTypeBB p) = updN 0 0 (pieceTypeBB q)) by (apply (f_equal pieceTypeBB) in H; exact H).
  assert (F : forall (A : Type) (g : position -> A), (forall x, g (normEmpty x) = g x) -> g p = g q).
  { intros A g Hg. rewrite <- (Hg p), <- (Hg q). unfold normEmpty. rewrite H. reflexivity. }
  split; [apply (F _ squares); reflexivity|]. split; [|repeat split; apply F; reflexivity].
  intros pc Hpc. unfold ptBB.
  rewrite <- (nth_updN_neq 0 pc 0 0 (pieceTypeBB p)) by lia.
  rewrite <- (nth_updN_neq 0 pc 0 0 (pieceTypeBB q)) by lia. rewrite Hbb. reflexivity.
Qed.

(* ------------------------------------------------------------------ *)
(** * histories *)
Inductive hop :=
| HMake (m : move)           (* make a move of the right shape *)
| HTakeBack                  (* unMakeMove of the move on top of the stack *)
| HSetSide (b : bool) | HSetEp (ep : Z) | HSetHmc (h : Z) | HSetCastle (cm : N).   (* null-move style edits *)

Record hstate := mkH { h_cur : position; h_stack : list (position * move) }.

Definition matchesMadeb (p : position) (m : move) (q : position) : bool :=
  let made := fst (makeMove zk p m) in
  piecesEqb (squares q) (squares made) && (length (squares q) =? 64)%nat &&
  Bool.eqb (whiteMove q) (whiteMove made) && (fullMoveCounter q =? fullMoveCounter made)%Z.

Definition hstep (s : hstate) (o : hop) : hstate :=
  match o with
  | HMake m => if moveOk (h_cur s) m then mkH (fst (makeMove zk (h_cur s) m)) ((h_cur s, m) :: h_stack s) else s
  | HTakeBack =>
      match h_stack s with
      | (prev, m) :: st =>
          if matchesMadeb prev m (h_cur s) then mkH (unMakeMove zk (h_cur s) m (snd (makeMove zk prev m))) st else s
      | [] => s
      end
  | HSetSide b => mkH (setWhiteMove zk (h_cur s) b) (h_stack s)
  | HSetEp ep => mkH (setEpSquare zk (h_cur s) ep) (h_stack s)
  | HSetHmc h => mkH (setHalfMoveClock (h_cur s) h) (h_stack s)
  | HSetCastle cm => mkH (setCastleMask zk (h_cur s) cm) (h_stack s)
  end.

Definition HInv (s : hstate) : Prop :=
  Consistent zk (h_cur s) /\ Forall (fun pm => Consistent zk (fst pm) /\ moveOk (fst pm) (snd pm) = true) (h_stack s).

Lemma piecesEqb_eq a b : length a = 64%nat -> length b = 64%nat -> piecesEqb a b = true -> a = b.
Proof.
  intros La Lb H. unfold piecesEqb in H. rewrite forallb_forall in H.
  apply (list_ext EMPTY); [congruence|]. intros i Hi. apply N.eqb_eq. apply H. apply in_seq. lia.
Qed.

Lemma matchesMadeb_sound p m q :
  Consistent zk p -> moveOk p m = true -> matchesMadeb p m q = true -> matchesMade p m q.
Proof.
  intros C Hok H. unfold matchesMadeb in H. cbv zeta in H.
  apply andb_prop in H as [H H4]. apply andb_prop in H as [H H3]. apply andb_prop in H as [H1 H2].
  apply Nat.eqb_eq in H2. apply eqb_prop in H3. apply Z.eqb_eq in H4.
  split; [|split]; auto.
  apply piecesEqb_eq; auto. pose proof (makeMove_consistent p m C Hok) as Cm. destruct Cm; auto.
Qed.

Lemma hstep_inv s o : HInv s -> HInv (hstep s o).
Proof.
  intros (C & F). destruct o; simpl.
  - destruct (moveOk (h_cur s) m) eqn:E; [|split; auto].
    split; simpl; [apply makeMove_consistent; auto | constructor; auto].
  - destruct (h_stack s) as [|[prev m] st] eqn:Es; [split; auto; rewrite Es; auto|].
    inversion F as [|x l (Cp & Hok) F']; subst. simpl in *.
    destruct (matchesMadeb prev m (h_cur s)) eqn:E; [|split; auto; rewrite Es; auto].
    split; simpl; auto.
    apply (make_unmake_general prev m Cp Hok); auto. apply matchesMadeb_sound; auto.
  - split; simpl; auto. apply setWhiteMove_consistent; auto.
  - split; simpl; auto. apply setEpSquare_consistent; auto.
  - split; simpl; auto. apply set_halfMoveClock_consistent; auto.
  - split; simpl; auto. apply setCastleMask_consistent; auto.
Qed.

Theorem history_invariant ops s0 : HInv s0 -> HInv (fold_left hstep ops s0).
Proof. revert s0; induction ops; simpl; auto using hstep_inv. Qed.

(** a take-back that is applied to the made position restores the saved one bit for bit
    (except the dead EMPTY board) *)
Theorem takeback_restores s prev m st :
  HInv s -> h_stack s = (prev, m) :: st -> matchesMadeb prev m (h_cur s) = true ->
  normEmpty (h_cur (hstep s HTakeBack)) = normEmpty prev /\ h_stack (hstep s HTakeBack) = st.
Proof.
  intros (C & F) Es E. simpl. rewrite Es in *. rewrite E. simpl.
  inversion F as [|x l (Cp & Hok) F']; subst. simpl in *.
  split; auto. apply (make_unmake_general prev m Cp Hok); auto. apply matchesMadeb_sound; auto.
Qed.

(* ------------------------------------------------------------------ *)
(** * equal positions have equal keys *)
Theorem equal_positions_equal_keys p q :
  Consistent zk p -> Consistent zk q -> drawRuleEquals p q = true ->
  hashKey p = hashKey q /\ pHashKey p = pHashKey q /\ matId p = matId q /\
  (halfMoveClock p = halfMoveClock q -> forall mp, historyHash zk mp p = historyHash zk mp q) /\
  (halfMoveClock p = halfMoveClock q -> bookHash zk p = bookHash zk q).
Proof.
  intros Cp Cq H. unfold drawRuleEquals in H.
  apply andb_prop in H as [H H4]. apply andb_prop in H as [H H3]. apply andb_prop in H as [H1 H2].
  apply eqb_prop in H2. apply N.eqb_eq in H3. apply Z.eqb_eq in H4.
  assert (Es : squares p = squares q).
  { destruct Cp, Cq. apply piecesEqb_eq; auto. }
  assert (Eh : hashKey p = hashKey q).
  { destruct Cp, Cq. rewrite c_hash, c_hash0. unfold hashOf. rewrite Es, H2, H3, H4. reflexivity. }
  assert (Ew : whiteBB p = whiteBB q) by (destruct Cp, Cq; congruence).
  assert (Eb : blackBB p = blackBB q) by (destruct Cp, Cq; congruence).
  split; [exact Eh|]. split; [destruct Cp, Cq; congruence|]. split; [destruct Cp, Cq; congruence|].
  split.
  - intros Hh mp. unfold historyHash, nPieces, occupiedBB. rewrite Eh, Hh, Ew, Eb. reflexivity.
  - intros Hh. unfold bookHash. rewrite Eh, Hh. reflexivity.
Qed.

Lemma ops_consistent k p :
  ConsistentX zk k p ->
  (forall sq pc, sq < 64 -> pc < 13 -> ConsistentX zk k (setPiece zk p sq pc)) /\
  (forall sq, sq < 64 -> ConsistentX zk k (clearPiece zk p sq)) /\
  (forall b, ConsistentX zk k (setWhiteMove zk p b)) /\
  (forall ep, ConsistentX zk k (setEpSquare zk p ep)) /\
  (forall cm, ConsistentX zk k (setCastleMask zk p cm)) /\
  (forall h, ConsistentX zk k (setHalfMoveClock p h)).
Proof.
  intros C. split; [|split; [|split; [|split; [|split]]]]; intros.
  - apply setPiece_consistent; auto.
  - apply clearPiece_consistent; auto.
  - apply setWhiteMove_consistent; auto.
  - apply setEpSquare_consistent; auto.
  - apply setCastleMask_consistent; auto.
  - apply set_halfMoveClock_consistent; auto.
Qed.

End Theorems.
