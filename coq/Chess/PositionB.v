(** C02: the bitboard-only variants (makeMoveB / unMakeMoveB, used by MoveGen::isLegal) and the SEE
    variants restore the fields they maintain.  The B variants are related to the full
    operations by a simulation on the "board part" (board, piece boards, colour boards). *)
From Coq Require Import ZArith NArith List Bool Lia Btauto.
From Texel Require Import Chess.Types Chess.Position Chess.PositionSpec Chess.PositionFacts
  Chess.PositionProofs Chess.PositionProofs2 Chess.PositionProofs3 Chess.PositionProofs4 Chess.PositionTheorems.
Import ListNotations.
Local Open Scope N_scope.

Definition bbpart (p : position) : list piece * list N * N * N :=
  (squares p, pieceTypeBB p, whiteBB p, blackBB p).
(** the fields the B / SEE operations never write *)
Definition rest (p : position) :=
  (whiteMove p, halfMoveClock p, fullMoveCounter p, castleMask p, epSquare p, hashKey p, pHashKey p,
   matId p, wMtrl p, bMtrl p, wMtrlPawns p, bMtrlPawns p).

Definition rmB (b : list piece * list N * N * N) (sq : square) (r : piece) :=
  let '(s, l, w, k) := b in
  if negb (r =? EMPTY) then
    if isWhite r then (s, l, N.ldiff w (sqMask sq), k) else (s, l, w, N.ldiff k (sqMask sq))
  else b.
Definition addB (b : list piece * list N * N * N) (sq : square) (pc : piece) :=
  let '(s, l, w, k) := b in
  if negb (pc =? EMPTY) then
    if isWhite pc then (s, l, N.lor w (sqMask sq), k) else (s, l, w, N.lor k (sqMask sq))
  else b.
Definition coreB (b : list piece * list N * N * N) (sq : square) (pc : piece) :=
  let '(s, l, w, k) := b in
  let r := nth (N.to_nat sq) s EMPTY in
  let l1 := updN r (N.ldiff (nth (N.to_nat r) l 0) (sqMask sq)) l in
  (updN sq pc s, updN pc (N.lor (nth (N.to_nat pc) l1 0) (sqMask sq)) l1, w, k).
Definition setB (b : list piece * list N * N * N) (sq : square) (pc : piece) :=
  let r := nth (N.to_nat sq) (fst (fst (fst b))) EMPTY in
  addB (rmB (coreB b sq pc) sq r) sq pc.
Definition moveB (b : list piece * list N * N * N) (f t : square) :=
  let '(s, l, w, k) := b in
  let pc := nth (N.to_nat f) s EMPTY in
  let l1 := updN pc (N.ldiff (nth (N.to_nat pc) l 0) (sqMask f)) l in
  let l2 := updN pc (N.lor (nth (N.to_nat pc) l1 0) (sqMask t)) l1 in
  if isWhite pc then (updN t pc (updN f EMPTY s), l2, N.lor (N.ldiff w (sqMask f)) (sqMask t), k)
  else (updN t pc (updN f EMPTY s), l2, w, N.lor (N.ldiff k (sqMask f)) (sqMask t)).

Section SimB.
Variable zk : zkeys.

Lemma bbpart_removedBlock x sq r : bbpart (removedBlock zk x sq r) = rmB (bbpart x) sq r.
Proof. unfold removedBlock, rmB, bbpart. cbv zeta. break_if; reflexivity. Qed.
Lemma bbpart_addedBlock x sq r : bbpart (addedBlock zk x sq r) = addB (bbpart x) sq r.
Proof. unfold addedBlock, addB, bbpart. cbv zeta. break_if; reflexivity. Qed.

Lemma bbpart_setPiece p sq pc : bbpart (setPiece zk p sq pc) = setB (bbpart p) sq pc.
Proof. unfold setPiece. cbv zeta. rewrite bbpart_addedBlock, bbpart_removedBlock. reflexivity. Qed.
Lemma bbpart_setPieceB p sq pc : bbpart (setPieceB p sq pc) = setB (bbpart p) sq pc.
Proof.
  unfold setPieceB, setB, addB, rmB, coreB, bbpart. cbv zeta. cbn [fst snd].
  fold (getPiece p sq). break_if; reflexivity.
Qed.
Lemma bbpart_clearPiece p sq : bbpart (clearPiece zk p sq) = setB (bbpart p) sq EMPTY.
Proof.
  unfold clearPiece. cbv zeta. rewrite bbpart_removedBlock. unfold setB.
  match goal with |- ?x = addB ?y _ _ => change x with y; destruct y as [[[s l] w] k]; reflexivity end.
Qed.
Lemma bbpart_mPNP p f t : bbpart (movePieceNotPawn zk p f t) = moveB (bbpart p) f t.
Proof. unfold movePieceNotPawn, moveB, bbpart. cbv zeta. fold (getPiece p f). break_if; reflexivity. Qed.
Lemma bbpart_mPNPB p f t : bbpart (movePieceNotPawnB p f t) = moveB (bbpart p) f t.
Proof. unfold movePieceNotPawnB, moveB, bbpart. cbv zeta. fold (getPiece p f). break_if; reflexivity. Qed.

Lemma bbpart_setEp p e : bbpart (setEpSquare zk p e) = bbpart p.
Proof. unfold setEpSquare. break_if; reflexivity. Qed.
Lemma bbpart_setCastle p c : bbpart (setCastleMask zk p c) = bbpart p.
Proof. unfold setCastleMask. break_if; reflexivity. Qed.

Lemma rest_setPieceB p sq pc : rest (setPieceB p sq pc) = rest p.
Proof. unfold setPieceB. cbv zeta. break_if; reflexivity. Qed.
Lemma rest_mPNPB p f t : rest (movePieceNotPawnB p f t) = rest p.
Proof. unfold movePieceNotPawnB. cbv zeta. break_if; reflexivity. Qed.

Lemma bbpart_eq_fields a b : bbpart a = bbpart b ->
  squares a = squares b /\ pieceTypeBB a = pieceTypeBB b /\ whiteBB a = whiteBB b /\ blackBB a = blackBB b.
Proof. unfold bbpart. intro H. inversion H. auto. Qed.
Lemma rest_eq_whiteMove a b : rest a = rest b -> whiteMove a = whiteMove b.
Proof. unfold rest. intro H. inversion H. auto. Qed.
Lemma rest_eq_epSquare a b : rest a = rest b -> epSquare a = epSquare b.
Proof. unfold rest. intro H. inversion H. auto. Qed.

(** tests that only look at the board part *)
Lemma getPiece_bb p p' s : bbpart p = bbpart p' -> getPiece p s = getPiece p' s.
Proof. unfold bbpart, getPiece. intro H. inversion H. congruence. Qed.
Lemma pawnsAt_bb p p' mk : bbpart p = bbpart p' -> pawnsAtB p mk = pawnsAt p' mk.
Proof. unfold bbpart, pawnsAtB, pawnsAt, ptBB. intro H. inversion H. congruence. Qed.
Lemma kingsAt_bb p p' mk : bbpart p = bbpart p' -> kingsAtB p mk = kingsAt p' mk.
Proof. unfold bbpart, kingsAtB, kingsAt, ptBB. intro H. inversion H. congruence. Qed.

Lemma if_setPieceB (c : bool) x t a b :
  (if c then setPieceB x t a else setPieceB x t b) = setPieceB x t (if c then a else b).
Proof. destruct c; reflexivity. Qed.

Ltac bb_step :=
  repeat first
    [ rewrite bbpart_setPiece | rewrite bbpart_setPieceB | rewrite bbpart_clearPiece
    | rewrite bbpart_mPNP | rewrite bbpart_mPNPB | rewrite bbpart_setEp | rewrite bbpart_setCastle ].

(** makeMoveB computes the board part of makeMove (a pawn arriving on the e.p. square is not a
    double step: part of [moveOk]) *)
Lemma makeMoveB_sim p m :
  (getPiece p (mfrom m) = WPAWN -> Z.of_N (mto m) = epSquare p -> Z.of_N (mto m) <> sqPlus (mfrom m) 16)%Z ->
  (getPiece p (mfrom m) = BPAWN -> Z.of_N (mto m) = epSquare p -> Z.of_N (mto m) <> sqPlus (mfrom m) (-16))%Z ->
  bbpart (fst (makeMoveB p m)) = bbpart (fst (makeMove zk p m)).
Proof.
  intros HW HB.
  rewrite makeMove_fst.
  set (p2 := setEpSquare zk (set_hashKey p (N.lxor (hashKey p) (zk_white zk))) (-1)).
  assert (E2 : bbpart p2 = bbpart p) by (unfold p2; rewrite bbpart_setEp; reflexivity).
  assert (Eepi : forall x, bbpart (mmEpilogue zk x m (whiteMove p)) = bbpart x).
  { intro x. unfold mmEpilogue. cbv zeta.
    destruct (negb (whiteMove p)).
    - change (bbpart (setCastleMask zk x (N.land (N.land (castleMask x) (castleSqMask (mfrom m))) (castleSqMask (mto m)))) = bbpart x).
      apply bbpart_setCastle.
    - change (bbpart (setCastleMask zk x (N.land (N.land (castleMask x) (castleSqMask (mfrom m))) (castleSqMask (mto m)))) = bbpart x).
      apply bbpart_setCastle. }
  rewrite Eepi.
  unfold makeMoveB. cbv zeta. cbn [fst].
  rewrite (pawnsAt_bb p p2) by (symmetry; exact E2).
  destruct (negb (getPiece p (mto m) =? EMPTY) || pawnsAt p2 (sqMask (mfrom m))).
  - unfold mmCaptureBranch, mmEpBlock. cbv zeta.
    change (bbpart p2) with (bbpart (set_halfMoveClock p2 0)) in E2.
    set (p3 := set_halfMoveClock p2 0) in *.
    rewrite if_setPieceB.
    destruct (N.eqb_spec (getPiece p (mfrom m)) WPAWN) as [Ew|Ew].
    + destruct (Z.eqb_spec (Z.of_N (mto m)) (epSquare p)) as [Ee|Ee].
      * destruct (Z.eqb_spec (Z.of_N (mto m)) (sqPlus (mfrom m) 16)) as [E16|E16]; [exfalso; exact (HW Ew Ee E16)|].
        bb_step. rewrite E2. reflexivity.
      * destruct (Z.of_N (mto m) =? sqPlus (mfrom m) 16)%Z.
        -- destruct (negb (N.land (epMaskW (sqX (mto m))) (ptBB p3 BPAWN) =? 0)); bb_step; rewrite E2; reflexivity.
        -- bb_step. rewrite E2. reflexivity.
    + destruct (N.eqb_spec (getPiece p (mfrom m)) BPAWN) as [Eb|Eb].
      * destruct (Z.eqb_spec (Z.of_N (mto m)) (epSquare p)) as [Ee|Ee].
        -- destruct (Z.eqb_spec (Z.of_N (mto m)) (sqPlus (mfrom m) (-16))) as [E16|E16]; [exfalso; exact (HB Eb Ee E16)|].
           bb_step. rewrite E2. reflexivity.
        -- destruct (Z.of_N (mto m) =? sqPlus (mfrom m) (-16))%Z.
           ++ destruct (negb (N.land (epMaskB (sqX (mto m))) (ptBB p3 WPAWN) =? 0)); bb_step; rewrite E2; reflexivity.
           ++ bb_step. rewrite E2. reflexivity.
      * bb_step. rewrite E2. reflexivity.
  - unfold mmQuietBranch, mmCastleBlock. cbv zeta.
    change (bbpart p2) with (bbpart (set_halfMoveClock p2 (halfMoveClock p2 + 1))) in E2.
    set (p3 := set_halfMoveClock p2 (halfMoveClock p2 + 1)) in *.
    rewrite (kingsAt_bb p p3) by (symmetry; exact E2).
    destruct (kingsAt p3 (sqMask (mfrom m))).
    + destruct (Z.of_N (mto m) =? sqPlus (mfrom m) 2)%Z; [bb_step; rewrite E2; reflexivity|].
      destruct (Z.of_N (mto m) =? sqPlus (mfrom m) (-2))%Z; bb_step; rewrite E2; reflexivity.
    + bb_step. rewrite E2. reflexivity.
Qed.


(* ------------------------------------------------------------------ *)
(** setting two different squares commutes on the board part *)
Lemma bits_comm x f t (A B C D : bool) : f <> t ->
  lorIf A (ldiffIf B (lorIf C (ldiffIf D x (sqMask f)) (sqMask f)) (sqMask t)) (sqMask t) =
  lorIf C (ldiffIf D (lorIf A (ldiffIf B x (sqMask t)) (sqMask t)) (sqMask f)) (sqMask f).
Proof.
  intro Hne. apply N.bits_inj. intro j.
  destruct A, B, C, D; unfold lorIf, ldiffIf;
    rewrite ?N.lor_spec, ?N.ldiff_spec, ?N.lor_spec, ?N.ldiff_spec, ?testbit_sqMask;
    destruct (N.eqb_spec f j); destruct (N.eqb_spec t j); try (exfalso; congruence);
    destruct (N.testbit x j); reflexivity.
Qed.

Definition wTest (pc : piece) : bool := negb (pc =? EMPTY) && isWhite pc.
Definition bTest (pc : piece) : bool := negb (pc =? EMPTY) && negb (isWhite pc).

Lemma setB_closed s l w k sq pc :
  setB (s, l, w, k) sq pc =
  (updN sq pc s,
   (let r := nth (N.to_nat sq) s EMPTY in
    let l1 := updN r (N.ldiff (nth (N.to_nat r) l 0) (sqMask sq)) l in
    updN pc (N.lor (nth (N.to_nat pc) l1 0) (sqMask sq)) l1),
   lorIf (wTest pc) (ldiffIf (wTest (nth (N.to_nat sq) s EMPTY)) w (sqMask sq)) (sqMask sq),
   lorIf (bTest pc) (ldiffIf (bTest (nth (N.to_nat sq) s EMPTY)) k (sqMask sq)) (sqMask sq)).
Proof.
  unfold setB, addB, rmB, coreB, wTest, bTest, lorIf, ldiffIf. cbn [fst snd].
  destruct (negb (nth (N.to_nat sq) s EMPTY =? EMPTY)), (isWhite (nth (N.to_nat sq) s EMPTY)),
           (negb (pc =? EMPTY)), (isWhite pc); reflexivity.
Qed.

Lemma setB_comm s l w k f t a c :
  f <> t -> length l = 13%nat -> a < 13 -> c < 13 ->
  nth (N.to_nat f) s EMPTY < 13 -> nth (N.to_nat t) s EMPTY < 13 ->
  setB (setB (s, l, w, k) f a) t c = setB (setB (s, l, w, k) t c) f a.
Proof.
  intros Hne Hl Ha Hc Hrf Hrt.
  rewrite !setB_closed. cbv zeta.
  rewrite (nth_updN_neq (A:=piece) f t a EMPTY s) by auto. rewrite (nth_updN_neq (A:=piece) t f c EMPTY s) by auto.
  set (rf := nth (N.to_nat f) s EMPTY) in *. set (rt := nth (N.to_nat t) s EMPTY) in *.
  f_equal; [f_equal; [f_equal|]|].
  - unfold updN. apply updL_comm. lia.
  - apply (list_ext 0). { rewrite !length_updN. reflexivity. }
    intros i Hi. rewrite !length_updN in Hi.
    replace i with (N.to_nat (N.of_nat i)) by lia.
    rewrite (nth_bb_update2 _ rt c (N.of_nat i) (sqMask t) (sqMask t)) by (rewrite !length_updN; lia).
    rewrite (nth_bb_update2 l rf a (N.of_nat i) (sqMask f) (sqMask f)) by lia.
    rewrite (nth_bb_update2 _ rf a (N.of_nat i) (sqMask f) (sqMask f)) by (rewrite !length_updN; lia).
    rewrite (nth_bb_update2 l rt c (N.of_nat i) (sqMask t) (sqMask t)) by lia.
    apply bits_comm; auto.
  - apply bits_comm; auto.
  - apply bits_comm; auto.
Qed.

Lemma setB_comm' b f t a c :
  f <> t -> length (snd (fst (fst b))) = 13%nat -> a < 13 -> c < 13 ->
  nth (N.to_nat f) (fst (fst (fst b))) EMPTY < 13 -> nth (N.to_nat t) (fst (fst (fst b))) EMPTY < 13 ->
  setB (setB b f a) t c = setB (setB b t c) f a.
Proof. destruct b as [[[s l] w] k]. cbn [fst snd]. apply setB_comm. Qed.

Lemma fields_setPiece x sq pc :
  whiteMove (setPiece zk x sq pc) = whiteMove x /\ epSquare (setPiece zk x sq pc) = epSquare x.
Proof. pose proof (scalars_setPiece zk x sq pc) as H. unfold scalars in H. inversion H. auto. Qed.
Lemma fields_mPNP x f t :
  whiteMove (movePieceNotPawn zk x f t) = whiteMove x /\ epSquare (movePieceNotPawn zk x f t) = epSquare x.
Proof. pose proof (scalars_movePieceNotPawn zk x f t) as H. unfold scalars in H. inversion H. auto. Qed.
Lemma whiteMove_setCastle x c : whiteMove (setCastleMask zk x c) = whiteMove x.
Proof. unfold setCastleMask. break_if; reflexivity. Qed.
Lemma whiteMove_setEp x e : whiteMove (setEpSquare zk x e) = whiteMove x.
Proof. unfold setEpSquare. break_if; reflexivity. Qed.
Lemma epSquare_setEp x e : epSquare (setEpSquare zk x e) = e.
Proof. unfold setEpSquare. destruct (Z.eqb_spec (epSquare x) e); simpl; auto. Qed.

Lemma bbpart_set_hmc x h : bbpart (set_halfMoveClock x h) = bbpart x.
Proof. reflexivity. Qed.
Lemma bbpart_set_fmc x h : bbpart (set_fullMoveCounter x h) = bbpart x.
Proof. reflexivity. Qed.

Definition flipSide (q : position) : position :=
  set_whiteMove (set_hashKey q (N.lxor (hashKey q) (zk_white zk)))
                (negb (whiteMove (set_hashKey q (N.lxor (hashKey q) (zk_white zk))))).
Lemma flipSide_facts q : bbpart (flipSide q) = bbpart q /\ whiteMove (flipSide q) = negb (whiteMove q) /\
  forall s, getPiece (flipSide q) s = getPiece q s.
Proof. repeat split. Qed.

Lemma umRestore1_unfold q m ui :
  umRestore1 zk q m ui =
  set_halfMoveClock
    (setEpSquare zk
       (setCastleMask zk
          (setPiece zk (setPiece zk (flipSide q) (mto m) (u_captured ui)) (mfrom m) (getPiece (flipSide q) (mto m)))
          (u_castleMask ui)) (u_epSquare ui)) (u_halfMoveClock ui).
Proof. reflexivity. Qed.

Lemma umRestore1_facts q m ui :
  bbpart (umRestore1 zk q m ui) = setB (setB (bbpart q) (mto m) (u_captured ui)) (mfrom m) (getPiece q (mto m)) /\
  whiteMove (umRestore1 zk q m ui) = negb (whiteMove q) /\ epSquare (umRestore1 zk q m ui) = u_epSquare ui.
Proof.
  rewrite umRestore1_unfold.
  destruct (flipSide_facts q) as (Fb & Fw & Fg).
  generalize dependent (flipSide q). intros fq Fb Fw Fg.
  rewrite Fg. split; [|split].
  - rewrite bbpart_set_hmc, bbpart_setEp, bbpart_setCastle, !bbpart_setPiece, Fb. reflexivity.
  - cbn [whiteMove set_halfMoveClock]. rewrite whiteMove_setEp, whiteMove_setCastle.
    rewrite (proj1 (fields_setPiece _ _ _)), (proj1 (fields_setPiece _ _ _)). exact Fw.
  - cbn [epSquare set_halfMoveClock]. apply epSquare_setEp.
Qed.

Lemma umRestoreBlock_unfold q m ui :
  umRestoreBlock zk q m ui =
  (let q7 := umRestore1 zk q m ui in
   let wtm := whiteMove q7 in
   let pr := if negb (mpromote m =? EMPTY)
             then (setPiece zk q7 (mfrom m) (if wtm then WPAWN else BPAWN), if wtm then WPAWN else BPAWN)
             else (q7, getPiece q (mto m)) in
   (if negb wtm then set_fullMoveCounter (fst pr) (fullMoveCounter (fst pr) - 1) else fst pr, snd pr)).
Proof. unfold umRestoreBlock. cbv zeta. destruct (negb (mpromote m =? EMPTY)); reflexivity. Qed.

Lemma umRestoreBlock_facts q m ui :
  let pc0 := getPiece q (mto m) in
  let pawn := if negb (whiteMove q) then WPAWN else BPAWN in
  let promo := negb (mpromote m =? EMPTY) in
  let R := umRestoreBlock zk q m ui in
  snd R = (if promo then pawn else pc0) /\
  bbpart (fst R) =
    (let b := setB (setB (bbpart q) (mto m) (u_captured ui)) (mfrom m) pc0 in
     if promo then setB b (mfrom m) pawn else b) /\
  whiteMove (fst R) = negb (whiteMove q) /\ epSquare (fst R) = u_epSquare ui.
Proof.
  cbv zeta. rewrite umRestoreBlock_unfold. cbv zeta.
  destruct (umRestore1_facts q m ui) as (B7 & W7 & E7).
  generalize dependent (umRestore1 zk q m ui). intros q7 B7 W7 E7.
  rewrite W7. cbn [fst snd].
  destruct (negb (mpromote m =? EMPTY)); cbn [fst snd].
  - split; [reflexivity|].
    assert (G : bbpart (setPiece zk q7 (mfrom m) (if negb (whiteMove q) then WPAWN else BPAWN)) =
                setB (setB (setB (bbpart q) (mto m) (u_captured ui)) (mfrom m) (getPiece q (mto m))) (mfrom m)
                     (if negb (whiteMove q) then WPAWN else BPAWN))
      by (rewrite bbpart_setPiece, B7; reflexivity).
    destruct (fields_setPiece q7 (mfrom m) (if negb (whiteMove q) then WPAWN else BPAWN)) as (Gw & Ge).
    destruct (negb (negb (whiteMove q))).
    + rewrite bbpart_set_fmc. cbn [whiteMove epSquare set_fullMoveCounter]. rewrite Gw, Ge. auto.
    + rewrite Gw, Ge. auto.
  - split; [reflexivity|].
    destruct (negb (negb (whiteMove q))).
    + rewrite bbpart_set_fmc. cbn [whiteMove epSquare set_fullMoveCounter]. auto.
    + auto.
Qed.

(** unMakeMoveB in blocks *)
Definition umCastleB (p : position) (m : move) (pc : piece) : position :=
  let king := if whiteMove p then WKING else BKING in
  if pc =? king then
    if (Z.of_N (mto m) =? sqPlus (mfrom m) 2)%Z
    then movePieceNotPawnB p (toSq (sqPlus (mfrom m) 1)) (toSq (sqPlus (mfrom m) 3))
    else if (Z.of_N (mto m) =? sqPlus (mfrom m) (-2))%Z
         then movePieceNotPawnB p (toSq (sqPlus (mfrom m) (-1))) (toSq (sqPlus (mfrom m) (-4)))
         else p
  else p.
Definition umEpB (p : position) (m : move) (pc : piece) : position :=
  if (Z.of_N (mto m) =? epSquare p)%Z then
    if pc =? WPAWN then setPieceB p (toSq (sqPlus (mto m) (-8))) BPAWN
    else if pc =? BPAWN then setPieceB p (toSq (sqPlus (mto m) 8)) WPAWN
    else p
  else p.
Definition umRestoreB (p : position) (m : move) (ui : undoInfo) : position * piece :=
  let pc := getPiece p (mto m) in
  let p1 := setPieceB (setPieceB p (mfrom m) pc) (mto m) (u_captured ui) in
  if negb (mpromote m =? EMPTY)
  then (setPieceB p1 (mfrom m) (if whiteMove p1 then WPAWN else BPAWN), if whiteMove p1 then WPAWN else BPAWN)
  else (p1, pc).

Lemma unMakeMoveB_unfold p m ui :
  unMakeMoveB p m ui =
  umEpB (umCastleB (fst (umRestoreB p m ui)) m (snd (umRestoreB p m ui))) m (snd (umRestoreB p m ui)).
Proof.
  unfold unMakeMoveB, umRestoreB, umCastleB, umEpB. cbv zeta.
  destruct (negb (mpromote m =? EMPTY)); cbn [fst snd].
  - rewrite (rest_eq_whiteMove (setPieceB _ (mfrom m) (if whiteMove _ then WPAWN else BPAWN)) _)
      by apply rest_setPieceB. reflexivity.
  - reflexivity.
Qed.

Lemma castleBlock_sim X Y m pc :
  bbpart X = bbpart Y -> whiteMove X = whiteMove Y ->
  bbpart (umCastleB X m pc) = bbpart (umCastleBlock zk Y m pc) /\ rest (umCastleB X m pc) = rest X /\
  epSquare (umCastleBlock zk Y m pc) = epSquare Y.
Proof.
  intros Hb Hw. unfold umCastleB, umCastleBlock. cbv zeta. rewrite Hw.
  destruct (pc =? _); [|auto].
  destruct (Z.of_N (mto m) =? sqPlus (mfrom m) 2)%Z.
  - rewrite bbpart_mPNPB, bbpart_mPNP, Hb, rest_mPNPB, (proj2 (fields_mPNP _ _ _)). auto.
  - destruct (Z.of_N (mto m) =? sqPlus (mfrom m) (-2))%Z; [|auto].
    rewrite bbpart_mPNPB, bbpart_mPNP, Hb, rest_mPNPB, (proj2 (fields_mPNP _ _ _)). auto.
Qed.

Lemma epBlock_sim X Y m pc :
  bbpart X = bbpart Y -> epSquare X = epSquare Y -> bbpart (umEpB X m pc) = bbpart (umEpBlock zk Y m pc).
Proof.
  intros Hb He. unfold umEpB, umEpBlock. rewrite He.
  destruct (Z.of_N (mto m) =? epSquare Y)%Z; [|exact Hb].
  destruct (pc =? WPAWN); [rewrite bbpart_setPieceB, bbpart_setPiece, Hb; reflexivity|].
  destruct (pc =? BPAWN); [rewrite bbpart_setPieceB, bbpart_setPiece, Hb; reflexivity|]. exact Hb.
Qed.

(** unMakeMoveB computes the board part of unMakeMove (the first two setPiece calls are in
    the other order, which does not matter for different squares) *)
Lemma unMakeMoveB_sim q q' m ui ui' :
  bbpart q' = bbpart q -> whiteMove q' = negb (whiteMove q) -> epSquare q' = u_epSquare ui ->
  u_captured ui' = u_captured ui -> mfrom m <> mto m ->
  length (pieceTypeBB q) = 13%nat -> Forall (fun pc => pc < 13) (squares q) -> u_captured ui < 13 ->
  bbpart (unMakeMoveB q' m ui') = bbpart (unMakeMove zk q m ui).
Proof.
  intros Hb Hw He Hc Hne Hl Hp Hcap.
  rewrite unMakeMove_unfold, unMakeMoveB_unfold.
  destruct (umRestoreBlock_facts q m ui) as (Rs & Rb & Rw & Re). cbv zeta in Rs, Rb.
  assert (GB : snd (umRestoreB q' m ui') = snd (umRestoreBlock zk q m ui) /\
               bbpart (fst (umRestoreB q' m ui')) = bbpart (fst (umRestoreBlock zk q m ui)) /\
               rest (fst (umRestoreB q' m ui')) = rest q').
  { unfold umRestoreB. cbv zeta. rewrite (getPiece_bb q' q) by exact Hb.
    assert (Ecomm : bbpart (setPieceB (setPieceB q' (mfrom m) (getPiece q (mto m))) (mto m) (u_captured ui')) =
                    setB (setB (bbpart q) (mto m) (u_captured ui)) (mfrom m) (getPiece q (mto m))).
    { rewrite !bbpart_setPieceB, Hb, Hc. apply setB_comm'; auto.
      - apply getPiece_lt; auto.
      - apply (getPiece_lt q (mfrom m)); auto.
      - apply (getPiece_lt q (mto m)); auto. }
    rewrite (rest_eq_whiteMove (setPieceB (setPieceB q' (mfrom m) (getPiece q (mto m))) (mto m) (u_captured ui')) q')
      by (rewrite !rest_setPieceB; reflexivity).
    rewrite Hw, Rs, Rb.
    destruct (negb (mpromote m =? EMPTY)); cbn [fst snd].
    - split; [reflexivity|]. split.
      + rewrite bbpart_setPieceB, Ecomm. reflexivity.
      + rewrite !rest_setPieceB. reflexivity.
    - split; [reflexivity|]. split; [exact Ecomm | rewrite !rest_setPieceB; reflexivity]. }
  destruct GB as (Gs & Gb & Gr). rewrite Gs.
  set (RR := umRestoreBlock zk q m ui) in *. set (BB := umRestoreB q' m ui') in *. clearbody RR BB.
  destruct RR as [R1 pc1], BB as [B1 pcb]. cbn [fst snd] in *.
  destruct (castleBlock_sim B1 R1 m pc1 Gb) as (Cb & Cr & Ce).
  { rewrite (rest_eq_whiteMove B1 q') by exact Gr. rewrite Hw, Rw. reflexivity. }
  apply epBlock_sim; [exact Cb|].
  rewrite Ce, Re. rewrite (rest_eq_epSquare _ B1) by exact Cr. rewrite (rest_eq_epSquare B1 q') by exact Gr. exact He.
Qed.

Lemma rest_makeMoveB p m : rest (fst (makeMoveB p m)) = rest p.
Proof.
  unfold makeMoveB. cbv zeta. cbn [fst].
  repeat match goal with
  | |- context [if ?c then _ else _] => destruct c
  end; rewrite ?rest_setPieceB, ?rest_mPNPB; reflexivity.
Qed.

End SimB.

(* ------------------------------------------------------------------ *)
Section TheoremsB.
Variable zk : zkeys.
Hypothesis EKZ : emptyKeysZero zk.

Lemma rest_umCastleB X m pc : rest (umCastleB X m pc) = rest X.
Proof. unfold umCastleB. cbv zeta. break_if; rewrite ?rest_mPNPB; reflexivity. Qed.
Lemma rest_umEpB X m pc : rest (umEpB X m pc) = rest X.
Proof. unfold umEpB. break_if; rewrite ?rest_setPieceB; reflexivity. Qed.
Lemma rest_umRestoreB X m ui : rest (fst (umRestoreB X m ui)) = rest X.
Proof. unfold umRestoreB. cbv zeta. break_if; cbn [fst]; rewrite ?rest_setPieceB; reflexivity. Qed.
Lemma rest_unMakeMoveB X m ui : rest (unMakeMoveB X m ui) = rest X.
Proof. rewrite unMakeMoveB_unfold, rest_umEpB, rest_umCastleB, rest_umRestoreB. reflexivity. Qed.

Lemma moveOk_not_double p m : moveOk p m = true ->
  (getPiece p (mfrom m) = WPAWN -> Z.of_N (mto m) = epSquare p -> Z.of_N (mto m) <> sqPlus (mfrom m) 16)%Z /\
  (getPiece p (mfrom m) = BPAWN -> Z.of_N (mto m) = epSquare p -> Z.of_N (mto m) <> sqPlus (mfrom m) (-16))%Z.
Proof.
  intro Hok. pose proof (moveOk_facts p m Hok) as F. cbv zeta in F.
  destruct F as (Hf & Ht & Hne & Hown & Hcapn & Hpro & Hep & _).
  destruct (whiteMove p); cbn [ownPiece] in *; split; intros Ep Ee.
  - destruct (Hep Ep Ee) as (_ & _ & _ & _ & H16). unfold sqPlus. lia.
  - rewrite Ep in Hown. discriminate.
  - rewrite Ep in Hown. discriminate.
  - destruct (Hep Ep Ee) as (_ & _ & _ & _ & H16). unfold sqPlus. lia.
Qed.

Lemma makeMoveB_simulates' p m : moveOk p m = true ->
  bbpart (fst (makeMoveB p m)) = bbpart (fst (makeMove zk p m)).
Proof. intro Hok. destruct (moveOk_not_double p m Hok). apply makeMoveB_sim; auto. Qed.

Theorem unmake_make_B p m :
  Consistent zk p -> moveOk p m = true ->
  let q := unMakeMoveB (fst (makeMoveB p m)) m (snd (makeMoveB p m)) in
  squares q = squares p /\ (forall pc, 1 <= pc -> ptBB q pc = ptBB p pc) /\
  whiteBB q = whiteBB p /\ blackBB q = blackBB p /\ rest q = rest p.
Proof.
  intros C Hok. cbv zeta.
  destruct (moveOk_not_double p m Hok) as (HW & HB).
  pose proof (moveOk_facts p m Hok) as F. cbv zeta in F. destruct F as (Hf & Ht & Hne & _).
  pose proof (makeMoveB_sim zk p m HW HB) as E1.
  pose proof (makeMove_consistent zk EKZ p m C Hok) as Cm.
  assert (E2 : bbpart (unMakeMoveB (fst (makeMoveB p m)) m (snd (makeMoveB p m))) =
               bbpart (unMakeMove zk (fst (makeMove zk p m)) m (snd (makeMove zk p m)))).
  { apply unMakeMoveB_sim; auto.
    - rewrite (rest_eq_whiteMove _ p) by apply rest_makeMoveB.
      rewrite makeMove_fst. unfold mmEpilogue. cbv zeta. cbn [whiteMove set_whiteMove]. symmetry. apply negb_involutive.
    - rewrite (rest_eq_epSquare _ p) by apply rest_makeMoveB. reflexivity.
    - destruct Cm; auto.
    - destruct Cm; auto.
    - change (getPiece p (mto m) < 13). apply getPiece_lt. destruct C; auto. }
  pose proof (normEmpty_fields _ _ (unmake_make zk EKZ p m C Hok)) as (Fs & Fbb & Fw & Fb & _).
  set (A := unMakeMoveB (fst (makeMoveB p m)) m (snd (makeMoveB p m))) in *.
  destruct (bbpart_eq_fields _ _ E2) as (Is & Ibb & Iw & Ib).
  split; [congruence|]. split; [|split; [congruence | split; [congruence|]]].
  - intros pc Hpc. unfold ptBB at 1. rewrite Ibb. apply Fbb. exact Hpc.
  - unfold A. rewrite rest_unMakeMoveB. apply rest_makeMoveB.
Qed.

(** SEE variants *)
Lemma bb_unique k k' a b :
  ConsistentX zk k a -> ConsistentX zk k' b -> squares a = squares b ->
  (forall pc, 1 <= pc <= 12 -> ptBB a pc = ptBB b pc) /\ whiteBB a = whiteBB b /\ blackBB a = blackBB b.
Proof.
  intros Ca Cb Hs. destruct Ca, Cb. split; [|split]; [intros pc Hpc; rewrite c_bb, c_bb0 by auto|..]; congruence.
Qed.

Lemma board_plain' sqs f t pc cap x y :
  length sqs = 64%nat -> f < 64 -> t < 64 -> f <> t -> nthP sqs f = pc -> nthP sqs t = cap ->
  updN t cap (updN f pc (updN t x (updN f y sqs))) = sqs.
Proof.
  intros Hl Hf Ht Hne H1 H2. apply list_ext_N; [rewrite !length_updN; auto | auto |]. intros s Hs.
  destruct (N.eq_dec s t) as [->|?]; [nth_eval; auto|].
  destruct (N.eq_dec s f) as [->|?]; [nth_eval; auto|]. nth_eval. reflexivity.
Qed.

Lemma board_ep' sqs f t e pc cap pe x y z :
  length sqs = 64%nat -> f < 64 -> t < 64 -> e < 64 -> f <> t -> e <> f -> e <> t ->
  nthP sqs f = pc -> nthP sqs t = cap -> nthP sqs e = pe ->
  updN e pe (updN t cap (updN f pc (updN t x (updN f y (updN e z sqs))))) = sqs.
Proof.
  intros Hl Hf Ht He Hne N1 N2 H1 H2 H3. apply list_ext_N; [rewrite !length_updN; auto | auto |]. intros s Hs.
  destruct (N.eq_dec s e) as [->|?]; [nth_eval; auto|].
  destruct (N.eq_dec s t) as [->|?]; [nth_eval; auto|].
  destruct (N.eq_dec s f) as [->|?]; [nth_eval; auto|]. nth_eval. reflexivity.
Qed.

End TheoremsB.

Section TheoremSEE.
Variable zk : zkeys.
Hypothesis EKZ : emptyKeysZero zk.

(** [Sim sqs cur]: [cur] has the board part of some consistent position whose board is [sqs] *)
Definition Sim (sqs : list piece) (cur : position) : Prop :=
  exists c, Consistent zk c /\ bbpart cur = bbpart c /\ squares c = sqs.

Lemma Sim_init p : Consistent zk p -> Sim (squares p) p.
Proof. intro C. exists p. auto. Qed.
Lemma Sim_setPieceB sqs cur sq pc : Sim sqs cur -> sq < 64 -> pc < 13 -> Sim (updN sq pc sqs) (setPieceB cur sq pc).
Proof.
  intros (c & C & Hb & Hs) Hsq Hpc. exists (setPiece zk c sq pc). split; [apply setPiece_consistent; auto|].
  split; [rewrite bbpart_setPieceB, bbpart_setPiece, Hb; reflexivity|]. rewrite squares_setPiece, Hs. reflexivity.
Qed.
Lemma Sim_set_whiteMove sqs cur b : Sim sqs cur -> Sim sqs (set_whiteMove cur b).
Proof. intros (c & C & Hb & Hs). exists c. auto. Qed.
Lemma Sim_getPiece sqs cur s : Sim sqs cur -> getPiece cur s = nthP sqs s.
Proof. intros (c & C & Hb & <-). apply (getPiece_bb cur c). exact Hb. Qed.
Lemma Sim_len sqs cur : Sim sqs cur -> length sqs = 64%nat.
Proof. intros (c & C & Hb & <-). destruct C; auto. Qed.
Lemma Sim_eq sqs sqs' cur : sqs = sqs' -> Sim sqs cur -> Sim sqs' cur.
Proof. intros ->; auto. Qed.
Lemma Sim_final p q : Consistent zk p -> Sim (squares p) q ->
  squares q = squares p /\ (forall pc, 1 <= pc <= 12 -> ptBB q pc = ptBB p pc) /\
  whiteBB q = whiteBB p /\ blackBB q = blackBB p.
Proof.
  intros C (c & Cc & Hb & Hs).
  destruct (bbpart_eq_fields _ _ Hb) as (Is & Ibb & Iw & Ib).
  destruct (bb_unique zk 0 0 c p Cc C Hs) as (U1 & U2 & U3).
  split; [congruence|]. split; [|split; congruence].
  intros pc Hpc. unfold ptBB at 1. rewrite Ibb. apply U1. exact Hpc.
Qed.

Theorem unmake_make_SEE p m :
  Consistent zk p -> moveOk p m = true ->
  let q := unMakeSEEMove (fst (makeSEEMove p m)) m (snd (makeSEEMove p m)) in
  squares q = squares p /\ (forall pc, 1 <= pc <= 12 -> ptBB q pc = ptBB p pc) /\
  whiteBB q = whiteBB p /\ blackBB q = blackBB p /\ whiteMove q = whiteMove p /\ epSquare q = epSquare p.
Proof.
  intros C Hok. cbv zeta.
  pose proof (moveOk_facts p m Hok) as F. cbv zeta in F.
  destruct F as (Hf & Ht & Hne & Hown & Hcapn & Hpro & Hep & _).
  assert (Hlen : length (squares p) = 64%nat) by (destruct C; auto).
  assert (Hpc : getPiece p (mfrom m) < 13) by (apply getPiece_lt; destruct C; auto).
  assert (Hcap : getPiece p (mto m) < 13) by (apply getPiece_lt; destruct C; auto).
  assert (S0 := Sim_init p C).
  unfold makeSEEMove, unMakeSEEMove, setSEEPiece. cbv zeta. cbn [fst snd u_captured].
  set (f := mfrom m) in *. set (t := mto m) in *.
  set (pc := getPiece p f) in *. set (cap := getPiece p t) in *.
  assert (Hrest1 : forall x a b, whiteMove (setPieceB x a b) = whiteMove x /\ epSquare (setPieceB x a b) = epSquare x).
  { intros. split; [apply rest_eq_whiteMove | apply rest_eq_epSquare]; apply rest_setPieceB. }
  (* second half, from any position with the made board *)
  assert (Hun : forall x inner, Sim (updN t pc inner) x -> length inner = 64%nat ->
            whiteMove x = negb (whiteMove p) -> epSquare x = epSquare p ->
            let y := set_whiteMove x (negb (whiteMove x)) in
            getPiece y t = pc /\
            Sim (updN t cap (updN f pc (updN t pc inner))) (setPieceB (setPieceB y f pc) t cap) /\
            whiteMove (setPieceB (setPieceB y f pc) t cap) = whiteMove p /\
            epSquare (setPieceB (setPieceB y f pc) t cap) = epSquare p).
  { intros x inner Sx Hl Hw He. cbv zeta.
    assert (Sy := Sim_set_whiteMove _ _ (negb (whiteMove x)) Sx).
    split; [rewrite (Sim_getPiece _ _ t Sy); apply nthP_top; auto|].
    split; [apply Sim_setPieceB; auto; apply Sim_setPieceB; auto|].
    rewrite !(proj1 (Hrest1 _ _ _)), !(proj2 (Hrest1 _ _ _)).
    cbn [whiteMove epSquare set_whiteMove]. rewrite Hw, negb_involutive. auto. }
  assert (Hfin : forall q, Sim (squares p) q -> whiteMove q = whiteMove p -> epSquare q = epSquare p ->
            squares q = squares p /\ (forall pc, 1 <= pc <= 12 -> ptBB q pc = ptBB p pc) /\
            whiteBB q = whiteBB p /\ blackBB q = blackBB p /\ whiteMove q = whiteMove p /\ epSquare q = epSquare p).
  { intros q Sq Hw He. destruct (Sim_final p q C Sq) as (A1 & A2 & A3 & A4). auto 10. }
  (* is this an e.p. capture? *)
  assert (Kinds :
    (whiteMove p = true /\ pc = WPAWN /\ Z.of_N t = epSquare p) \/
    (whiteMove p = false /\ pc = BPAWN /\ Z.of_N t = epSquare p) \/
    ((Z.of_N t =? epSquare p)%Z && ((pc =? WPAWN) || (pc =? BPAWN)) = false)).
  { destruct (Z.eqb_spec (Z.of_N t) (epSquare p)) as [Ee|Ee]; [|right; right; reflexivity].
    destruct (whiteMove p); cbn [ownPiece] in *.
    - destruct (N.eqb_spec pc WPAWN) as [Ep|Ep]; [left; auto|]. right; right.
      destruct (N.eqb_spec pc BPAWN) as [Eb|Eb]; [rewrite Eb in Hown; discriminate | reflexivity].
    - destruct (N.eqb_spec pc BPAWN) as [Ep|Ep]; [right; left; auto|]. right; right.
      destruct (N.eqb_spec pc WPAWN) as [Eb|Eb]; [rewrite Eb in Hown; discriminate | reflexivity]. }
  destruct Kinds as [(Ewm & Ep & Ee)|[(Ewm & Ep & Ee)|Eno]].
  - (* white e.p. capture *)
    rewrite Ewm in Hep. destruct (Hep Ep Ee) as (Hc0 & _ & H8 & Hbp & H16).
    replace (Z.of_N t =? epSquare p)%Z with true by (symmetry; apply Z.eqb_eq; auto).
    replace (pc =? WPAWN) with true by (symmetry; apply N.eqb_eq; auto). cbv iota.
    replace (toSq (sqPlus t (-8))) with (t - 8) by (unfold toSq, sqPlus; lia).
    set (x := set_whiteMove (setPieceB (setPieceB (setPieceB p (t - 8) EMPTY) f EMPTY) t pc) _).
    assert (He8 : t - 8 < 64) by (clear - Ht; lia).
    assert (Sx : Sim (updN t pc (updN f EMPTY (updN (t - 8) EMPTY (squares p)))) x).
    { apply Sim_set_whiteMove. repeat apply Sim_setPieceB; auto; reflexivity. }
    assert (Hwx : whiteMove x = negb (whiteMove p) /\ epSquare x = epSquare p).
    { unfold x. cbn [whiteMove epSquare set_whiteMove].
      rewrite !(proj1 (Hrest1 _ _ _)), !(proj2 (Hrest1 _ _ _)). auto. }
    destruct (Hun x _ Sx ltac:(rewrite !length_updN; exact Hlen) (proj1 Hwx) (proj2 Hwx)) as (G1 & G2 & G3 & G4).
    cbv zeta in G1, G2, G3, G4. rewrite G1.
    replace (Z.of_N t =? epSquare (setPieceB (setPieceB (set_whiteMove x (negb (whiteMove x))) f pc) t cap))%Z with true
      by (rewrite G4; symmetry; apply Z.eqb_eq; auto).
    replace (pc =? WPAWN) with true by (symmetry; apply N.eqb_eq; auto). cbv iota.
    apply Hfin; [| rewrite (proj1 (Hrest1 _ _ _)); exact G3 | rewrite (proj2 (Hrest1 _ _ _)); exact G4].
    eapply Sim_eq; [|apply Sim_setPieceB; [exact G2 | exact He8 | reflexivity]].
    fold (nthP (squares p) (t - 8)) in Hbp.
    apply board_ep'; auto.
    + intro E. clear - E Ep Hbp. rewrite E in Hbp. unfold pc, getPiece, nthP in *. rewrite Ep in Hbp. discriminate.
    + clear - H8. lia.
  - (* black e.p. capture *)
    rewrite Ewm in Hep. destruct (Hep Ep Ee) as (Hc0 & _ & H8 & Hbp & H16).
    replace (Z.of_N t =? epSquare p)%Z with true by (symmetry; apply Z.eqb_eq; auto).
    replace (pc =? WPAWN) with false by (symmetry; apply N.eqb_neq; rewrite Ep; discriminate).
    replace (pc =? BPAWN) with true by (symmetry; apply N.eqb_eq; auto). cbv iota.
    replace (toSq (sqPlus t 8)) with (t + 8) by (unfold toSq, sqPlus; lia).
    set (x := set_whiteMove (setPieceB (setPieceB (setPieceB p (t + 8) EMPTY) f EMPTY) t pc) _).
    assert (Sx : Sim (updN t pc (updN f EMPTY (updN (t + 8) EMPTY (squares p)))) x).
    { apply Sim_set_whiteMove. repeat apply Sim_setPieceB; auto; reflexivity. }
    assert (Hwx : whiteMove x = negb (whiteMove p) /\ epSquare x = epSquare p).
    { unfold x. cbn [whiteMove epSquare set_whiteMove].
      rewrite !(proj1 (Hrest1 _ _ _)), !(proj2 (Hrest1 _ _ _)). auto. }
    destruct (Hun x _ Sx ltac:(rewrite !length_updN; exact Hlen) (proj1 Hwx) (proj2 Hwx)) as (G1 & G2 & G3 & G4).
    cbv zeta in G1, G2, G3, G4. rewrite G1.
    replace (Z.of_N t =? epSquare (setPieceB (setPieceB (set_whiteMove x (negb (whiteMove x))) f pc) t cap))%Z with true
      by (rewrite G4; symmetry; apply Z.eqb_eq; auto).
    replace (pc =? WPAWN) with false by (symmetry; apply N.eqb_neq; rewrite Ep; discriminate).
    replace (pc =? BPAWN) with true by (symmetry; apply N.eqb_eq; auto). cbv iota.
    apply Hfin; [| rewrite (proj1 (Hrest1 _ _ _)); exact G3 | rewrite (proj2 (Hrest1 _ _ _)); exact G4].
    eapply Sim_eq; [|apply Sim_setPieceB; [exact G2 | exact H8 | reflexivity]].
    fold (nthP (squares p) (t + 8)) in Hbp.
    apply board_ep'; auto.
    + intro E. clear - E Ep Hbp. rewrite E in Hbp. unfold pc, getPiece, nthP in *. rewrite Ep in Hbp. discriminate.
    + clear. lia.
  - (* no e.p. capture *)
    assert (Hskip : forall (A : Type) (ep : Z) (a b c : A), ep = epSquare p ->
              (if (Z.of_N t =? ep)%Z then if pc =? WPAWN then a else if pc =? BPAWN then b else c else c) = c).
    { intros A ep a b c ->. destruct (Z.of_N t =? epSquare p)%Z; auto.
      cbn [andb] in Eno. apply orb_false_elim in Eno as [E1 E2]. rewrite E1, E2. reflexivity. }
    rewrite (Hskip _ (epSquare p)) by reflexivity.
    set (x := set_whiteMove (setPieceB (setPieceB p f EMPTY) t pc) _).
    assert (Sx : Sim (updN t pc (updN f EMPTY (squares p))) x).
    { apply Sim_set_whiteMove. repeat apply Sim_setPieceB; auto; reflexivity. }
    assert (Hwx : whiteMove x = negb (whiteMove p) /\ epSquare x = epSquare p).
    { unfold x. cbn [whiteMove epSquare set_whiteMove].
      rewrite !(proj1 (Hrest1 _ _ _)), !(proj2 (Hrest1 _ _ _)). auto. }
    destruct (Hun x _ Sx ltac:(rewrite !length_updN; exact Hlen) (proj1 Hwx) (proj2 Hwx)) as (G1 & G2 & G3 & G4).
    cbv zeta in G1, G2, G3, G4. rewrite G1.
    rewrite Hskip by exact G4.
    apply Hfin; [| exact G3 | exact G4].
    eapply Sim_eq; [|exact G2]. apply board_plain'; auto.
Qed.

End TheoremSEE.

Lemma makeMoveB_simulates zk p m : moveOk p m = true ->
  bbpart (fst (makeMoveB p m)) = bbpart (fst (makeMove zk p m)).
Proof. intro Hok. destruct (moveOk_not_double p m Hok). apply makeMoveB_sim; auto. Qed.
