(** Sequential model of TranspositionTable (lib/texellib/transpositionTable.{hpp,cpp}):
    reSize / setUsedSize / clear / setWhiteContempt / insert / probe / setBusy /
    nextGeneration and the successful / dropped on-demand tablebase (usedSize change).
    Written line by line like the C++; every table access goes through [load_slot] /
    [store_slot], which return [OutOfRange] where the C++ would index outside the allocation
    (DESIGN.md A5: safety theorems say this constructor is unreachable).
    Memory is sparse: a list of (index, slot) writes, most recent first; absent = zero
    (the state after memset in clear()). *)
From Coq Require Import ZArith Bool List.
From Texel Require Import TT.Entry.
Import ListNotations.
Local Open Scope Z_scope.

Inductive res (A : Type) : Type :=
| Ok (a : A)
| OutOfRange (idx : Z)       (* table[idx] with idx outside [0, tableSize) *)
| OutOfFuel.                 (* fuelled loop exhausted: excluded by [setUsedSize_total] *)
Arguments Ok {A} a.
Arguments OutOfRange {A} idx.
Arguments OutOfFuel {A}.

Definition memory : Type := list (Z * slot).

Fixpoint mget (m : memory) (i : Z) : slot :=
  match m with
  | [] => (0, 0)
  | (j, v) :: r => if i =? j then v else mget r i
  end.

Record tt : Type := mkTT {
  mem : memory;
  tableSize : Z;            (* number of entries allocated *)
  usedSize : Z;
  topBits : Z;              (* usedSizeTopBits *)
  usedShift : Z;                (* usedSizeShift *)
  usedMask : Z;                 (* usedSizeMask *)
  generation : Z;
  contemptHash : Z;
  tbResident : bool         (* tbGen != nullptr *)
}.

Definition with_mem (t : tt) (m : memory) : tt :=
  mkTT m (tableSize t) (usedSize t) (topBits t) (usedShift t) (usedMask t) (generation t) (contemptHash t) (tbResident t).

Definition in_table (t : tt) (i : Z) : bool := (0 <=? i) && (i <? tableSize t).

Definition load_slot (t : tt) (i : Z) : res slot :=
  if in_table t i then Ok (mget (mem t) i) else OutOfRange i.

Definition store_slot (t : tt) (i : Z) (s : slot) : res tt :=
  if in_table t i then Ok (with_mem t ((i, s) :: mem t)) else OutOfRange i.

(** * setUsedSize: while (topBits >= 256) { topBits /= 2; usedSizeShift++; } *)
Fixpoint top_loop (fuel : nat) (tb sh : Z) : option (Z * Z) :=
  if tb <? 256 then Some (tb, sh)
  else match fuel with
       | O => None
       | S f => top_loop f (tb / 2) (sh + 1)
       end.

Definition fuel64 : nat := 64.

Definition size_params (s : Z) : option (Z * Z * Z) :=
  match top_loop fuel64 s 0 with
  | None => None
  | Some (tb, sh) =>
      Some (sext 32 tb,                                                     (* (int)topBits *)
            sh,
            Z.land (wrap 64 (wrap 64 (Z.shiftl 1 sh) - 1)) (wrap 64 (Z.lnot 3)))  (* ((1ULL << shift) - 1) & ~3ULL *)
  end.

Definition setUsedSize (t : tt) (s : Z) : res tt :=
  match size_params s with
  | None => OutOfFuel
  | Some (tb, sh, mk) =>
      Ok (mkTT (mem t) (tableSize t) s tb sh mk (generation t) (contemptHash t) (tbResident t))
  end.

Definition getIndex (t : tt) (key : Z) : Z := TT_getIndex (topBits t) (usedShift t) (usedMask t) key.

(** * clear / reSize / constructor *)
Definition clear (t : tt) : res tt :=
  match setUsedSize t (tableSize t) with
  | Ok t1 => Ok (mkTT [] (tableSize t1) (usedSize t1) (topBits t1) (usedShift t1) (usedMask t1)
                      0 (contemptHash t1) false)                    (* generation = 0 *)
  | e => e
  end.

Definition round_size (numEntries : Z) : Z :=
  let n := if numEntries <? 4 then 4 else numEntries in
  Z.land n (wrap 64 (Z.lnot 3)).                                    (* numEntries &= ~3 *)

Definition reSize (t : tt) (numEntries : Z) : res tt :=
  let n := round_size numEntries in
  if n =? tableSize t then Ok t
  else clear (mkTT (mem t) n (usedSize t) (topBits t) (usedShift t) (usedMask t) 0 (contemptHash t) (tbResident t)).

Definition empty_tt : tt := mkTT [] 0 0 0 0 0 0 0 false.
Definition new_tt (numEntries : Z) : res tt := reSize empty_tt numEntries.

Definition setWhiteContempt (t : tt) (c : Z) : tt :=
  mkTT (mem t) (tableSize t) (usedSize t) (topBits t) (usedShift t) (usedMask t) (generation t)
       (TT_setWhiteContempt c) (tbResident t).

Definition nextGeneration (t : tt) : tt :=
  mkTT (mem t) (tableSize t) (usedSize t) (topBits t) (usedShift t) (usedMask t)
       (TT_nextGeneration (generation t)) (contemptHash t) (tbResident t).

(** * insert *)
(** the bucket scan of insert: for (i = 0; i < 4; i++) with break on key match *)
Fixpoint insert_scan (t : tt) (key idx0 : Z) (is : list Z) (cur : entry * Z) : res (entry * Z) :=
  match is with
  | [] => Ok cur
  | i :: rest =>
      let idx1 := wrap 64 (idx0 + i) in
      match load_slot t idx1 with
      | Ok s =>
          let tmp := load_entry s in
          if ekey tmp =? key then Ok (tmp, idx1)
          else if i =? 0 then insert_scan t key idx0 rest (tmp, idx1)
          else if TTEntry_betterThan (snd (fst cur)) (snd tmp) (generation t)
               then insert_scan t key idx0 rest (tmp, idx1)
               else insert_scan t key idx0 rest cur
      | OutOfRange j => OutOfRange j
      | OutOfFuel => OutOfFuel
      end
  end.

Definition bucket : list Z := [0; 1; 2; 3].

Definition do_store (ent : entry) (key : Z) (m : move) (type ply depth : Z) (busy : bool) : bool :=
  if busy then true
  else if (ekey ent =? key) && (getDepth (snd ent) >? depth) && (getType (snd ent) =? type)
       then if type =? TType_T_EXACT then false
            else if (type =? TType_T_GE) && (m_score m <=? getScore (snd ent) ply) then false
            else if (type =? TType_T_LE) && (m_score m >=? getScore (snd ent) ply) then false
            else true
       else true.

Definition insert (t : tt) (key0 : Z) (m : move) (type ply depth0 evalScore : Z) (busy : bool) : res tt :=
  let key := Z.lxor key0 (contemptHash t) in
  let depth := if depth0 <? 0 then 0 else depth0 in
  let idx0 := getIndex t key in
  match insert_scan t key idx0 bucket ((0, 0), idx0) with
  | Ok (ent, idx) =>
      if do_store ent key m type ply depth busy then
        let keep := (ekey ent =? key) && (m_from m =? m_to m) in
        let d := build_data (snd ent) keep m type ply depth evalScore busy (generation t) in
        store_slot t idx (store_words (TTEntry_setKey key, d))
      else Ok t
  | OutOfRange j => OutOfRange j
  | OutOfFuel => OutOfFuel
  end.

(** * probe: returns the new table (generation refresh is a store) and the result entry;
    on a miss only the type field of the caller's result object is cleared. *)
Fixpoint probe_scan (t : tt) (key idx0 : Z) (is : list Z) (res_in : entry) : res (tt * entry) :=
  match is with
  | [] => Ok (t, (fst res_in, TTEntry_setType (snd res_in) TType_T_EMPTY))
  | i :: rest =>
      let idx1 := wrap 64 (idx0 + i) in
      match load_slot t idx1 with
      | Ok s =>
          let ent := load_entry s in
          if ekey ent =? key then
            if negb (getGeneration (snd ent) =? generation t) then
              let ent' := (fst ent, TTEntry_setGeneration (snd ent) (generation t)) in
              match store_slot t idx1 (store_words ent') with
              | Ok t' => Ok (t', ent')
              | OutOfRange j => OutOfRange j
              | OutOfFuel => OutOfFuel
              end
            else Ok (t, ent)
          else probe_scan t key idx0 rest res_in
      | OutOfRange j => OutOfRange j
      | OutOfFuel => OutOfFuel
      end
  end.

Definition probe (t : tt) (key0 : Z) (res_in : entry) : res (tt * entry) :=
  let key := Z.lxor key0 (contemptHash t) in
  probe_scan t key (getIndex t key) bucket res_in.

(** * setBusy(ent, ply): re-insert the probed entry with the busy flag *)
Definition setBusy (t : tt) (ent : entry) (ply : Z) : res tt :=
  let d := snd ent in
  let m0 := getMove d 0 in
  let m := mkMove (m_from m0) (m_to m0) (m_promote m0) (getScore d ply) in
  insert t (ekey ent) m (getType d) ply (getDepth d) (getEvalScore d) true.

(** * on-demand tablebase: the size arithmetic of updateTB *)
Definition entryBytes : Z := 16.
Definition tbSize : Z := 5 * 1024 * 1024.
Definition tbMinTT : Z := tbSize + 2 * 1024 * 1024.

Definition tbOn (t : tt) : res (tt * bool) :=
  if tableSize t * entryBytes <? tbMinTT then Ok (t, false)
  else match setUsedSize t (tableSize t - tbSize / entryBytes) with
       | Ok t1 => Ok (mkTT (mem t1) (tableSize t1) (usedSize t1) (topBits t1) (usedShift t1) (usedMask t1)
                           (generation t1) (contemptHash t1) true, true)
       | OutOfRange j => OutOfRange j
       | OutOfFuel => OutOfFuel
       end.

Definition tbOff (t : tt) : res tt :=
  match setUsedSize t (tableSize t) with
  | Ok t1 => Ok (mkTT (mem t1) (tableSize t1) (usedSize t1) (topBits t1) (usedShift t1) (usedMask t1)
                      (generation t1) (contemptHash t1) false)
  | e => e
  end.
