(** Sequential refinement: the table viewed through probe's own search ("the first slot of the
    key's bucket whose decoded key matches") behaves like a partial map key -> data word:
    probe returns the mapped record (refreshing its generation), insert maps the key to the
    newly built record (or leaves the table alone when the replacement guard says so) and may
    evict at most the record of the victim slot chosen by the replacement policy. *)
From Coq Require Import ZArith Bool List Lia.
From Texel Require Import TT.Entry TT.EntryProofs TT.Table TT.TableProofs TT.TBRegion TT.TBRegionProofs.
Import ListNotations.
Local Open Scope Z_scope.

Definition entry_at (t : tt) (i : Z) : entry := load_entry (mget (mem t) i).

(** first slot of the bucket whose decoded key matches *)
Fixpoint find_key (t : tt) (key idx0 : Z) (is : list Z) : option Z :=
  match is with
  | [] => None
  | i :: r => if ekey (entry_at t (idx0 + i)) =? key then Some (idx0 + i) else find_key t key idx0 r
  end.

(** the abstract map: internal key -> data word *)
Definition view (t : tt) (key : Z) : option Z :=
  match find_key t key (getIndex t key) bucket with
  | Some j => Some (snd (entry_at t j))
  | None => None
  end.

(** table parameters are those setUsedSize computes for a used size in the property's domain *)
Record WFt (t : tt) : Prop := {
  wf_used : 512 <= usedSize t < 2 ^ 64;
  wf_mod : usedSize t mod 4 = 0;
  wf_tab : usedSize t <= tableSize t;
  wf_par : size_params (usedSize t) = Some (topBits t, usedShift t, usedMask t)
}.

Lemma idx_ok : forall t key, WFt t -> 0 <= key < 2 ^ 64 ->
  getIndex t key mod 4 = 0 /\ 0 <= getIndex t key /\ getIndex t key + 3 < tableSize t.
Proof.
  intros t key [U M T P] Hk.
  destruct (index_in_bounds (usedSize t) key U M Hk) as (tb & sh & mk & E & _ & A & B & C).
  rewrite P in E. inversion E; subst. unfold getIndex. lia.
Qed.

Lemma load_ok : forall t j, 0 <= j < tableSize t -> load_slot t j = Ok (mget (mem t) j).
Proof.
  intros t j H. unfold load_slot, in_table.
  destruct (Z.leb_spec 0 j); destruct (Z.ltb_spec j (tableSize t)); try lia. reflexivity.
Qed.

Lemma store_ok : forall t j s, 0 <= j < tableSize t -> store_slot t j s = Ok (with_mem t ((j, s) :: mem t)).
Proof.
  intros t j s H. unfold store_slot, in_table.
  destruct (Z.leb_spec 0 j); destruct (Z.ltb_spec j (tableSize t)); try lia. reflexivity.
Qed.

Lemma wrap_idx : forall t i0 i, 0 <= i0 -> i0 + 3 < tableSize t -> tableSize t < 2 ^ 64 -> 0 <= i <= 3 ->
  wrap 64 (i0 + i) = i0 + i.
Proof. intros. apply wrap_small. lia. Qed.

Lemma entry_at_write : forall t j s i,
  entry_at (with_mem t ((j, s) :: mem t)) i = if i =? j then load_entry s else entry_at t i.
Proof.
  intros. unfold entry_at, with_mem. cbn [mem mget]. destruct (i =? j); reflexivity.
Qed.

Lemma getIndex_with_mem : forall t m key, getIndex (with_mem t m) key = getIndex t key.
Proof. reflexivity. Qed.

Definition in_bucket (i0 j : Z) : Prop := i0 <= j <= i0 + 3.

Lemma find_key_some : forall t key i0 is j, find_key t key i0 is = Some j ->
  ekey (entry_at t j) = key /\ exists i, In i is /\ j = i0 + i.
Proof.
  induction is as [|i r IH]; intros j H; cbn [find_key] in H; [discriminate|].
  destruct (Z.eqb_spec (ekey (entry_at t (i0 + i))) key) as [E | E].
  - injection H as Hj. subst j. split; [exact E|]. exists i. split; [left; reflexivity | reflexivity].
  - destruct (IH j H) as (A & i' & I & B). split; [exact A|]. exists i'. split; [right; exact I | exact B].
Qed.

Lemma find_key_none : forall t key i0 is, find_key t key i0 is = None ->
  forall i, In i is -> ekey (entry_at t (i0 + i)) <> key.
Proof.
  induction is as [|i r IH]; intros H i' Hin; [contradiction|].
  cbn [find_key] in H.
  destruct (Z.eqb_spec (ekey (entry_at t (i0 + i))) key) as [E | E]; [discriminate|].
  destruct Hin as [Hin | Hin]; [subst; exact E | apply IH; assumption].
Qed.

(** * probe *)
Definition miss (r : entry) : entry := (fst r, TTEntry_setType (snd r) TType_T_EMPTY).

Definition refreshed (g : Z) (e : entry) : entry := (fst e, TTEntry_setGeneration (snd e) g).

Lemma probe_scan_spec : forall t key i0 res is,
  0 <= i0 -> i0 + 3 < tableSize t -> tableSize t < 2 ^ 64 -> (forall i, In i is -> 0 <= i <= 3) ->
  probe_scan t key i0 is res =
    match find_key t key i0 is with
    | Some j =>
        let ent := entry_at t j in
        if negb (getGeneration (snd ent) =? generation t)
        then Ok (with_mem t ((j, store_words (refreshed (generation t) ent)) :: mem t), refreshed (generation t) ent)
        else Ok (t, ent)
    | None => Ok (t, miss res)
    end.
Proof.
  intros t key i0 res is H0 H3 HT. induction is as [|i r IH]; intros Hin; [reflexivity|].
  cbn [probe_scan find_key].
  assert (Hi : 0 <= i <= 3) by (apply Hin; left; reflexivity).
  rewrite (wrap_idx t i0 i) by assumption.
  rewrite load_ok by lia. fold (entry_at t (i0 + i)).
  destruct (ekey (entry_at t (i0 + i)) =? key).
  - cbv zeta. destruct (negb (getGeneration (snd (entry_at t (i0 + i))) =? generation t)); [|reflexivity].
    rewrite store_ok by lia. reflexivity.
  - apply IH. intros i' Hi'. apply Hin. right. exact Hi'.
Qed.

Lemma bucket_range : forall i, In i bucket -> 0 <= i <= 3.
Proof. intros i H. cbv in H. intuition lia. Qed.

(** keys at all slots unchanged => the same slot is found for every key *)
Lemma find_key_same_keys : forall t t' key i0 is,
  (forall j, ekey (entry_at t' j) = ekey (entry_at t j)) ->
  find_key t' key i0 is = find_key t key i0 is.
Proof.
  intros t t' key i0 is H. induction is as [|i r IH]; [reflexivity|].
  cbn [find_key]. rewrite H, IH. reflexivity.
Qed.

Theorem probe_refines : forall t key0 res t' r,
  WFt t -> tableSize t < 2 ^ 64 -> 0 <= Z.lxor key0 (contemptHash t) < 2 ^ 64 ->
  probe t key0 res = Ok (t', r) ->
  let key := Z.lxor key0 (contemptHash t) in
  match view t key with
  | None => t' = t /\ r = miss res
  | Some d =>
      fst r = key /\
      snd r = (if negb (getGeneration d =? generation t) then TTEntry_setGeneration d (generation t) else d) /\
      view t' key = Some (snd r) /\
      (forall k', k' <> key -> view t' k' = view t k')
  end.
Proof.
  intros t key0 res t' r W HT Hk E key. unfold probe in E. fold key in E.
  destruct (idx_ok t key W Hk) as (M & I0 & I3).
  rewrite probe_scan_spec in E by (try assumption; apply bucket_range).
  unfold view.
  destruct (find_key t key (getIndex t key) bucket) as [j|] eqn:F.
  - destruct (find_key_some _ _ _ _ _ F) as (Kj & i & Hi & Ej).
    apply bucket_range in Hi.
    cbv zeta in E.
    destruct (negb (getGeneration (snd (entry_at t j)) =? generation t)) eqn:G.
    + inversion E; subst t' r. clear E. cbn [fst snd refreshed].
      split; [exact Kj|]. split; [reflexivity|].
      set (t' := with_mem t ((j, store_words (refreshed (generation t) (entry_at t j))) :: mem t)).
      assert (KS : forall x, ekey (entry_at t' x) = ekey (entry_at t x)).
      { intros x. unfold t'. rewrite entry_at_write. destruct (Z.eqb_spec x j); [|reflexivity].
        subst x. unfold refreshed. destruct (entry_at t j) as [k d]. rewrite load_store. reflexivity. }
      split.
      * change (getIndex t' key) with (getIndex t key).
        rewrite (find_key_same_keys t t' key _ _ KS), F.
        unfold t'. rewrite entry_at_write, Z.eqb_refl. unfold refreshed.
        destruct (entry_at t j) as [k d]. rewrite load_store. reflexivity.
      * intros k' Hk'. change (getIndex t' k') with (getIndex t k').
        rewrite (find_key_same_keys t t' k' _ _ KS).
        destruct (find_key t k' (getIndex t k') bucket) as [j'|] eqn:F'; [|reflexivity].
        destruct (find_key_some _ _ _ _ _ F') as (Kj' & _).
        unfold t'. rewrite entry_at_write.
        destruct (Z.eqb_spec j' j); [|reflexivity]. subst j'. congruence.
    + inversion E; subst t' r. clear E. rewrite F.
      split; [exact Kj|]. split; [reflexivity|]. split; [reflexivity|]. intros; reflexivity.
  - inversion E; subst. split; reflexivity.
Qed.

(** * insert *)
Lemma insert_scan_tail : forall t key i0 is cj,
  0 <= i0 -> i0 + 3 < tableSize t -> tableSize t < 2 ^ 64 ->
  (forall i, In i is -> 1 <= i <= 3) -> in_bucket i0 cj ->
  exists v, in_bucket i0 v /\
    insert_scan t key i0 is (entry_at t cj, cj) =
      Ok (match find_key t key i0 is with
          | Some j => (entry_at t j, j)
          | None => (entry_at t v, v)
          end).
Proof.
  intros t key i0 is. induction is as [|i r IH]; intros cj H0 H3 HT Hin Hc.
  - exists cj. split; [exact Hc | reflexivity].
  - assert (Hi : 1 <= i <= 3) by (apply Hin; left; reflexivity).
    assert (Hr : forall i', In i' r -> 1 <= i' <= 3) by (intros; apply Hin; right; assumption).
    cbn [insert_scan find_key].
    rewrite (wrap_idx t i0 i) by (assumption || lia).
    rewrite load_ok by lia. fold (entry_at t (i0 + i)).
    destruct (ekey (entry_at t (i0 + i)) =? key).
    + exists cj. split; [exact Hc | reflexivity].
    + destruct (Z.eqb_spec i 0); [lia|].
      cbn [fst snd].
      destruct (TTEntry_betterThan (snd (entry_at t cj)) (snd (entry_at t (i0 + i))) (generation t)).
      * apply IH; try assumption. unfold in_bucket. lia.
      * apply IH; assumption.
Qed.

Lemma insert_scan_spec : forall t key i0,
  0 <= i0 -> i0 + 3 < tableSize t -> tableSize t < 2 ^ 64 ->
  exists v, in_bucket i0 v /\
    insert_scan t key i0 bucket ((0, 0), i0) =
      Ok (match find_key t key i0 bucket with
          | Some j => (entry_at t j, j)
          | None => (entry_at t v, v)
          end).
Proof.
  intros t key i0 H0 H3 HT. unfold bucket.
  cbn [insert_scan find_key].
  rewrite (wrap_idx t i0 0) by (assumption || lia).
  rewrite load_ok by lia. fold (entry_at t (i0 + 0)).
  destruct (ekey (entry_at t (i0 + 0)) =? key).
  - exists i0. split; [unfold in_bucket; lia | reflexivity].
  - cbn [Z.eqb].
    assert (Hc : in_bucket i0 (i0 + 0)) by (unfold in_bucket; lia).
    destruct (insert_scan_tail t key i0 [1; 2; 3] (i0 + 0) H0 H3 HT) as (v & Hv & E); [|exact Hc|].
    + intros i Hi. cbv in Hi. intuition lia.
    + exists v. split; [exact Hv | exact E].
Qed.

(** what insert does to the memory: nothing, or one store into the key's bucket of the record
    built from the arguments (on top of the matching slot's old data when the key was present) *)
Theorem insert_effect : forall t key0 m type ply depth0 evalScore busy t',
  WFt t -> tableSize t < 2 ^ 64 -> 0 <= Z.lxor key0 (contemptHash t) < 2 ^ 64 ->
  insert t key0 m type ply depth0 evalScore busy = Ok t' ->
  let key := Z.lxor key0 (contemptHash t) in
  let depth := if depth0 <? 0 then 0 else depth0 in
  t' = t \/
  exists idx d, in_bucket (getIndex t key) idx /\
    t' = with_mem t ((idx, store_words (key, d)) :: mem t) /\
    match find_key t key (getIndex t key) bucket with
    | Some j => idx = j /\
        d = build_data (snd (entry_at t j)) (m_from m =? m_to m) m type ply depth evalScore busy (generation t)
    | None => d = build_data (snd (entry_at t idx)) false m type ply depth evalScore busy (generation t)
    end.
Proof.
  intros t key0 m type ply depth0 evalScore busy t' W HT Hk E key depth.
  unfold insert in E. fold key in E. fold depth in E.
  destruct (idx_ok t key W Hk) as (M & I0 & I3).
  destruct (insert_scan_spec t key (getIndex t key) I0 I3 HT) as (v & Hv & S).
  rewrite S in E. clear S.
  destruct (find_key t key (getIndex t key) bucket) as [j|] eqn:F.
  - destruct (find_key_some _ _ _ _ _ F) as (Kj & i & Hi & Ej). apply bucket_range in Hi.
    destruct (do_store (entry_at t j) key m type ply depth busy); [|left; inversion E; reflexivity].
    right. rewrite store_ok in E by lia. inversion E; subst t'. clear E.
    exists j, (build_data (snd (entry_at t j)) ((ekey (entry_at t j) =? key) && (m_from m =? m_to m))
                          m type ply depth evalScore busy (generation t)).
    split; [unfold in_bucket; lia|]. split; [reflexivity|].
    split; [reflexivity|]. rewrite Kj, Z.eqb_refl. reflexivity.
  - destruct (do_store (entry_at t v) key m type ply depth busy); [|left; inversion E; reflexivity].
    right. unfold in_bucket in Hv. rewrite store_ok in E by lia. inversion E; subst t'. clear E.
    exists v, (build_data (snd (entry_at t v)) ((ekey (entry_at t v) =? key) && (m_from m =? m_to m))
                          m type ply depth evalScore busy (generation t)).
    split; [exact Hv|]. split; [reflexivity|].
    assert (N : ekey (entry_at t v) <> key).
    { replace v with (getIndex t key + (v - getIndex t key)) by lia.
      apply (find_key_none _ _ _ _ F). unfold bucket. cbn [In]. lia. }
    apply Z.eqb_neq in N. rewrite N. reflexivity.
Qed.

(** uniqueness of non-zero keys inside a bucket *)
Definition Uniq (t : tt) : Prop :=
  forall b i j, b mod 4 = 0 -> 0 <= i <= 3 -> 0 <= j <= 3 -> i <> j ->
    ekey (entry_at t (b + i)) = ekey (entry_at t (b + j)) -> ekey (entry_at t (b + i)) = 0.

Lemma same_bucket : forall b b' i i', b mod 4 = 0 -> b' mod 4 = 0 -> 0 <= i <= 3 -> 0 <= i' <= 3 ->
  b + i = b' + i' -> b = b' /\ i = i'.
Proof. intros. Z.div_mod_to_equations. lia. Qed.

(** effect of one store of key [key] at slot [idx] on the view of another key *)
Lemma find_key_after_store : forall t idx key d k' i0 is,
  k' <> key ->
  let t' := with_mem t ((idx, store_words (key, d)) :: mem t) in
  find_key t' k' i0 is = find_key t k' i0 is \/ find_key t k' i0 is = Some idx.
Proof.
  intros t idx key d k' i0 is Hne t'. induction is as [|i r IH]; [left; reflexivity|].
  cbn [find_key]. unfold t' at 1. rewrite entry_at_write. fold t'.
  destruct (Z.eqb_spec (i0 + i) idx) as [E | E].
  - rewrite load_store. unfold ekey at 1, TTEntry_getKey. cbn [fst].
    destruct (Z.eqb_spec key k'); [congruence|].
    destruct (ekey (entry_at t (i0 + i)) =? k'); [right; f_equal; exact E | exact IH].
  - destruct (ekey (entry_at t (i0 + i)) =? k'); [left; reflexivity | exact IH].
Qed.

Lemma find_key_evicted : forall t idx key d k' i0 is,
  k' <> key -> k' <> 0 -> Uniq t -> i0 mod 4 = 0 -> (forall i, In i is -> 0 <= i <= 3) ->
  ekey (entry_at t idx) = k' -> in_bucket i0 idx ->
  let t' := with_mem t ((idx, store_words (key, d)) :: mem t) in
  find_key t' k' i0 is = None.
Proof.
  intros t idx key d k' i0 is Hne Hnz U M Hin Hk Hb t'. induction is as [|i r IH]; [reflexivity|].
  cbn [find_key]. unfold t' at 1. rewrite entry_at_write. fold t'.
  assert (Hi : 0 <= i <= 3) by (apply Hin; left; reflexivity).
  destruct (Z.eqb_spec (i0 + i) idx) as [E | E].
  - rewrite load_store. unfold ekey at 1, TTEntry_getKey. cbn [fst].
    destruct (Z.eqb_spec key k'); [congruence|]. apply IH. intros; apply Hin; right; assumption.
  - destruct (Z.eqb_spec (ekey (entry_at t (i0 + i))) k') as [E' | E'].
    + exfalso. unfold in_bucket in Hb.
      specialize (U i0 i (idx - i0) M Hi ltac:(lia) ltac:(lia)).
      replace (i0 + (idx - i0)) with idx in U by lia.
      rewrite E', Hk in U. specialize (U eq_refl). congruence.
    + apply IH. intros; apply Hin; right; assumption.
Qed.

Lemma find_key_written : forall t idx key d i0 is,
  (forall i, In i is -> ekey (entry_at t (i0 + i)) <> key) ->
  (exists i, In i is /\ idx = i0 + i) ->
  find_key (with_mem t ((idx, store_words (key, d)) :: mem t)) key i0 is = Some idx.
Proof.
  intros t idx key d i0 is. induction is as [|i r IH]; intros N (i' & Hi' & E); [contradiction|].
  cbn [find_key]. rewrite entry_at_write.
  destruct (Z.eqb_spec (i0 + i) idx) as [Ei | Ei].
  - rewrite load_store. unfold ekey, TTEntry_getKey. cbn [fst]. rewrite Z.eqb_refl. f_equal. exact Ei.
  - assert (Nk : ekey (entry_at t (i0 + i)) <> key) by (apply N; left; reflexivity).
    apply Z.eqb_neq in Nk. rewrite Nk. apply IH.
    + intros x Hx. apply N. right. exact Hx.
    + destruct Hi' as [Hi' | Hi']; [subst i'; lia|]. exists i'. split; assumption.
Qed.

Theorem insert_refines : forall t key0 m type ply depth0 evalScore busy t',
  WFt t -> tableSize t < 2 ^ 64 -> 0 <= Z.lxor key0 (contemptHash t) < 2 ^ 64 ->
  insert t key0 m type ply depth0 evalScore busy = Ok t' ->
  let key := Z.lxor key0 (contemptHash t) in
  let depth := if depth0 <? 0 then 0 else depth0 in
  t' = t \/
  (exists idx,
     in_bucket (getIndex t key) idx /\
     (* the key now maps to the record built from the arguments *)
     view t' key = Some (match view t key with
                         | Some old => build_data old (m_from m =? m_to m) m type ply depth evalScore busy (generation t)
                         | None => build_data (snd (entry_at t idx)) false m type ply depth evalScore busy (generation t)
                         end) /\
     (* every other key keeps its record, except that the record in the victim slot is gone *)
     (forall k', 0 <= k' < 2 ^ 64 -> k' <> key ->
        view t' k' = view t k' \/
        (view t key = None /\ ekey (entry_at t idx) = k' /\ (Uniq t -> k' <> 0 -> view t' k' = None)))).
Proof.
  intros t key0 m type ply depth0 evalScore busy t' W HT Hk E key depth.
  destruct (insert_effect t key0 m type ply depth0 evalScore busy t' W HT Hk E) as [Eq | (idx & d & Hb & Et & Hd)];
    [left; exact Eq | right].
  fold key in Hb, Et, Hd. fold depth in Hd.
  destruct (idx_ok t key W Hk) as (M & I0 & I3).
  exists idx. split; [exact Hb|].
  assert (GI : forall k, getIndex t' k = getIndex t k) by (intros; subst t'; reflexivity).
  split.
  - unfold view. rewrite GI.
    destruct (find_key t key (getIndex t key) bucket) as [j|] eqn:F.
    + destruct Hd as [Ej Ed]. subst idx.
      destruct (find_key_some _ _ _ _ _ F) as (Kj & _).
      assert (F' : find_key t' key (getIndex t key) bucket = Some j).
      { rewrite (find_key_same_keys t t'); [exact F|].
        intros x. subst t'. rewrite entry_at_write. destruct (Z.eqb_spec x j); [|reflexivity].
        subst x. rewrite load_store. rewrite Kj. reflexivity. }
      rewrite F'. subst t'. rewrite entry_at_write, Z.eqb_refl, load_store. cbn [snd]. rewrite Ed. reflexivity.
    + (* no slot held the key: the written slot is the only match *)
      assert (F' : find_key t' key (getIndex t key) bucket = Some idx).
      { subst t'. apply find_key_written.
        - apply (find_key_none _ _ _ _ F).
        - unfold in_bucket in Hb. exists (idx - getIndex t key). split; [unfold bucket; cbn [In]; lia | lia]. }
      rewrite F'. subst t'. rewrite entry_at_write, Z.eqb_refl, load_store. cbn [snd]. rewrite Hd. reflexivity.
  - intros k' Hk' Hne. unfold view. rewrite GI.
    destruct (idx_ok t k' W Hk') as (M' & I0' & I3').
    subst t'.
    destruct (find_key_after_store t idx key d k' (getIndex t k') bucket Hne) as [Same | Ev].
    + left. rewrite Same.
      destruct (find_key t k' (getIndex t k') bucket) as [j'|] eqn:F'; [|reflexivity].
      destruct (find_key_some _ _ _ _ _ F') as (Kj' & _).
      rewrite entry_at_write. destruct (Z.eqb_spec j' idx); [|reflexivity].
      (* the found slot is the written one: impossible unless it held k' -- then it is the evicted case,
         but here the search result did not change, so the written slot now holds key <> k' *)
      subst j'. exfalso.
      pose proof Same as X.
      destruct (find_key_some _ _ _ _ _ X) as (KX & _).
      rewrite entry_at_write, Z.eqb_refl, load_store in KX. unfold ekey, TTEntry_getKey in KX. cbn [fst] in KX. congruence.
    + destruct (find_key_some _ _ _ _ _ Ev) as (Kidx & i' & Hi' & Eidx). apply bucket_range in Hi'.
      (* the victim slot held k' *)
      destruct (find_key t key (getIndex t key) bucket) as [j|] eqn:F.
      * destruct Hd as [Ej _]. subst j. destruct (find_key_some _ _ _ _ _ F) as (Kj & _). congruence.
      * right. split; [reflexivity|]. split; [exact Kidx|].
        intros U Hnz.
        rewrite (find_key_evicted t idx key d k' (getIndex t k') bucket Hne Hnz U M' bucket_range Kidx); [reflexivity|].
        unfold in_bucket. lia.
Qed.

(** Uniq is an invariant of insert / probe *)
Lemma ekey_load_store : forall k d, ekey (load_entry (store_words (k, d))) = k.
Proof. intros. rewrite load_store. reflexivity. Qed.

Lemma uniq_store : forall t idx key d,
  Uniq t ->
  (forall b i, b mod 4 = 0 -> 0 <= i <= 3 -> b + i <> idx ->
     (exists i', 0 <= i' <= 3 /\ b + i' = idx) -> ekey (entry_at t (b + i)) = key -> key = 0) ->
  Uniq (with_mem t ((idx, store_words (key, d)) :: mem t)).
Proof.
  intros t idx key d U H b i j Mb Hi Hj Hne E.
  rewrite !entry_at_write in E. rewrite !entry_at_write.
  destruct (Z.eqb_spec (b + i) idx) as [Ei | Ei]; destruct (Z.eqb_spec (b + j) idx) as [Ej | Ej]; try lia.
  - rewrite ekey_load_store in *.
    apply (H b j Mb Hj Ej); [exists i; split; assumption | symmetry; exact E].
  - rewrite ekey_load_store in E. rewrite E.
    apply (H b i Mb Hi Ei); [exists j; split; assumption | exact E].
  - apply (U b i j); assumption.
Qed.

Theorem insert_preserves_uniq : forall t key0 m type ply depth0 evalScore busy t',
  WFt t -> tableSize t < 2 ^ 64 -> 0 <= Z.lxor key0 (contemptHash t) < 2 ^ 64 -> Uniq t ->
  insert t key0 m type ply depth0 evalScore busy = Ok t' -> Uniq t' /\ WFt t' /\ tableSize t' = tableSize t.
Proof.
  intros t key0 m type ply depth0 evalScore busy t' W HT Hk U E.
  destruct (insert_effect t key0 m type ply depth0 evalScore busy t' W HT Hk E) as [Eq | (idx & d & Hb & Et & Hd)].
  - subst. auto.
  - set (key := Z.lxor key0 (contemptHash t)) in *.
    destruct (idx_ok t key W Hk) as (M & I0 & I3).
    split; [|split; [|subst t'; reflexivity]].
    + subst t'. apply uniq_store; [exact U|].
      intros b i Mb Hi Hne (i' & Hi' & Eb) Ek.
      unfold in_bucket in Hb.
      (* b is the bucket of idx, i.e. the key's bucket *)
      assert (b = getIndex t key /\ i' = idx - getIndex t key).
      { apply same_bucket; try assumption; lia. }
      destruct H as [Eb0 Ei']. subst b.
      destruct (find_key t key (getIndex t key) bucket) as [j|] eqn:F.
      * destruct Hd as [Ej _]. subst j. destruct (find_key_some _ _ _ _ _ F) as (Kj & _).
        specialize (U (getIndex t key) i (idx - getIndex t key) M Hi ltac:(lia) ltac:(lia)).
        replace (getIndex t key + (idx - getIndex t key)) with idx in U by lia.
        rewrite Ek, Kj in U. exact (U eq_refl).
      * exfalso. apply (find_key_none _ _ _ _ F i); [cbv; lia | exact Ek].
    + subst t'. destruct W. constructor; assumption.
Qed.

Theorem probe_preserves_uniq : forall t key0 res t' r,
  WFt t -> tableSize t < 2 ^ 64 -> 0 <= Z.lxor key0 (contemptHash t) < 2 ^ 64 -> Uniq t ->
  probe t key0 res = Ok (t', r) -> Uniq t' /\ WFt t' /\ tableSize t' = tableSize t.
Proof.
  intros t key0 res t' r W HT Hk U E. unfold probe in E.
  set (key := Z.lxor key0 (contemptHash t)) in *.
  destruct (idx_ok t key W Hk) as (M & I0 & I3).
  rewrite probe_scan_spec in E by (try assumption; apply bucket_range).
  destruct (find_key t key (getIndex t key) bucket) as [j|] eqn:F.
  - cbv zeta in E.
    destruct (negb (getGeneration (snd (entry_at t j)) =? generation t)).
    + inversion E; subst t' r. clear E.
      split; [|split; [destruct W; constructor; assumption | reflexivity]].
      intros b i j' Mb Hi Hj Hne Ee.
      assert (KS : forall x, ekey (entry_at (with_mem t ((j, store_words (refreshed (generation t) (entry_at t j))) :: mem t)) x)
                             = ekey (entry_at t x)).
      { intros x. rewrite entry_at_write. destruct (Z.eqb_spec x j); [|reflexivity].
        subst x. unfold refreshed. destruct (entry_at t j) as [k d]. rewrite load_store. reflexivity. }
      rewrite !KS in *. apply (U b i j'); assumption.
    + inversion E; subst. auto.
  - inversion E; subst. auto.
Qed.

(** an empty (cleared) table satisfies Uniq *)
Lemma uniq_empty : forall t, mem t = [] -> Uniq t.
Proof. intros t H b i j _ _ _ _ _. unfold entry_at. rewrite H. reflexivity. Qed.

(** non-vacuity: two keys of one bucket in a 1000-entry table *)
Example bucket_example :
  exists t t1 t2 r,
    new_tt 1000 = Ok t /\
    insert t 18446462598732840961 (mkMove 12 28 0 100) 1 3 5 (-10) false = Ok t1 /\
    insert t1 18446462598749618177 (mkMove 12 28 0 100) 2 3 6 (-10) false = Ok t2 /\
    getIndex t2 18446462598732840961 = getIndex t2 18446462598749618177 /\
    probe t2 18446462598732840961 (0, 0) = Ok (t2, r) /\ view t2 18446462598732840961 = Some (snd r) /\
    getDepth (snd r) = 5.
Proof.
  do 4 eexists.
  split; [vm_compute; reflexivity|]. split; [vm_compute; reflexivity|]. split; [vm_compute; reflexivity|].
  split; [vm_compute; reflexivity|]. split; [vm_compute; reflexivity|]. split; vm_compute; reflexivity.
Qed.

(** * histories *)
Inductive op : Type :=
| OpInsert (key0 : Z) (m : move) (type ply depth evalScore : Z) (busy : bool)
| OpProbe (key0 : Z) (res_in : entry)
| OpSetBusy (ent : entry) (ply : Z)
| OpNextGeneration.

Definition step (t : tt) (o : op) : res tt :=
  match o with
  | OpInsert k m ty ply d ev b => insert t k m ty ply d ev b
  | OpProbe k r => match probe t k r with
                   | Ok (t', _) => Ok t'
                   | OutOfRange j => OutOfRange j
                   | OutOfFuel => OutOfFuel
                   end
  | OpSetBusy e ply => setBusy t e ply
  | OpNextGeneration => Ok (nextGeneration t)
  end.

Fixpoint run (t : tt) (ops : list op) : res tt :=
  match ops with
  | [] => Ok t
  | o :: r => match step t o with
              | Ok t' => run t' r
              | e => e
              end
  end.

Definition op_key (o : op) : Z :=
  match o with
  | OpInsert k _ _ _ _ _ _ => k
  | OpProbe k _ => k
  | OpSetBusy e _ => ekey e
  | OpNextGeneration => 0
  end.

Lemma lxor_W64 : forall a b, W64 a -> W64 b -> W64 (Z.lxor a b).
Proof.
  intros a b Ha Hb.
  assert (N : 0 <= Z.lxor a b) by (apply Z.lxor_nonneg; unfold W64 in *; lia).
  split; [exact N|]. apply bits_bound; [lia | exact N |].
  intros i Hi. rewrite Z.lxor_spec, (W64_high_bits a i Ha Hi), (W64_high_bits b i Hb Hi). reflexivity.
Qed.

Definition Inv (t : tt) : Prop := WFt t /\ tableSize t < 2 ^ 64 /\ W64 (contemptHash t) /\ Uniq t.

Lemma step_preserves : forall t o t', Inv t -> W64 (op_key o) -> step t o = Ok t' ->
  Inv t' /\ tableSize t' = tableSize t /\ contemptHash t' = contemptHash t.
Proof.
  intros t o t' (W & HT & HC & U) Hk E.
  assert (K : 0 <= Z.lxor (op_key o) (contemptHash t) < 2 ^ 64) by (apply lxor_W64; assumption).
  destruct o as [k m ty ply d ev b | k r | e ply | ]; cbn [step op_key] in *.
  - destruct (insert_preserves_uniq t k m ty ply d ev b t' W HT K U E) as (U' & W' & T').
    assert (C : contemptHash t' = contemptHash t).
    { destruct (insert_effect t k m ty ply d ev b t' W HT K E) as [-> | (idx & dd & _ & -> & _)]; reflexivity. }
    unfold Inv. rewrite C, T'. auto.
  - destruct (probe t k r) as [[t1 r1] | j | ] eqn:P; try discriminate. inversion E; subst t1.
    destruct (probe_preserves_uniq t k r t' r1 W HT K U P) as (U' & W' & T').
    assert (C : contemptHash t' = contemptHash t).
    { unfold probe in P. destruct (idx_ok t _ W K) as (M & I0 & I3).
      rewrite probe_scan_spec in P by (try assumption; apply bucket_range).
      destruct (find_key t _ _ bucket); [|inversion P; reflexivity].
      cbv zeta in P. destruct (negb _); inversion P; reflexivity. }
    unfold Inv. rewrite C, T'. auto.
  - unfold setBusy in E.
    destruct (insert_preserves_uniq t _ _ _ _ _ _ _ t' W HT K U E) as (U' & W' & T').
    assert (C : contemptHash t' = contemptHash t).
    { destruct (insert_effect t _ _ _ _ _ _ _ t' W HT K E) as [-> | (idx & dd & _ & -> & _)]; reflexivity. }
    unfold Inv. rewrite C, T'. auto.
  - inversion E; subst t'. unfold Inv, nextGeneration. cbn [tableSize contemptHash].
    split; [|split; reflexivity]. split; [destruct W; constructor; assumption|]. split; [assumption|]. split; [assumption|].
    exact U.
Qed.

(** every state reached by an insert/probe/setBusy/nextGeneration history satisfies the
    invariant under which [probe_refines] and [insert_refines] describe the next operation *)
Theorem history_invariant : forall ops t t', Inv t -> Forall (fun o => W64 (op_key o)) ops ->
  run t ops = Ok t' -> Inv t' /\ tableSize t' = tableSize t.
Proof.
  induction ops as [|o r IH]; intros t t' I F E; cbn [run] in E.
  - inversion E; subst. auto.
  - inversion F as [|? ? Ho Fr]; subst.
    destruct (step t o) as [t1 | j | ] eqn:S; try discriminate.
    destruct (step_preserves t o t1 I Ho S) as (I1 & T1 & _).
    destruct (IH t1 t' I1 Fr E) as (I' & T'). split; [exact I' | congruence].
Qed.

(** a freshly constructed / cleared table of an admissible size satisfies the invariant *)
Lemma new_tt_inv : forall n t, 512 <= n < 2 ^ 64 -> new_tt n = Ok t -> Inv t.
Proof.
  intros n t Hn E. unfold new_tt, reSize in E.
  destruct (round_size_ok n Hn) as (R1 & R2 & _).
  cbn [tableSize empty_tt] in E.
  destruct (Z.eqb_spec (round_size n) 0); [lia|].
  unfold clear in E. cbn [tableSize] in E.
  unfold setUsedSize in E.
  destruct (size_params (round_size n)) as [[[tb sh] mk]|] eqn:P; [|discriminate].
  cbn in E. inversion E; subst t. clear E.
  unfold Inv. cbn. split; [constructor; cbn; (assumption || lia)|].
  split; [lia|]. split; [unfold W64; lia|]. apply uniq_empty. reflexivity.
Qed.

(** * the refinement statement: after ANY history the next probe / insert acts on the abstract
    map [view] as the specification says *)
Theorem bucket_refines_map : forall t0 ops t,
  Inv t0 -> Forall (fun o => W64 (op_key o)) ops -> run t0 ops = Ok t ->
  Inv t /\
  (forall key0 res t' r, W64 key0 -> probe t key0 res = Ok (t', r) ->
     let key := Z.lxor key0 (contemptHash t) in
     match view t key with
     | None => t' = t /\ r = miss res
     | Some d =>
         fst r = key /\
         snd r = (if negb (getGeneration d =? generation t) then TTEntry_setGeneration d (generation t) else d) /\
         view t' key = Some (snd r) /\
         (forall k', k' <> key -> view t' k' = view t k')
     end) /\
  (forall key0 m type ply depth0 evalScore busy t', W64 key0 ->
     insert t key0 m type ply depth0 evalScore busy = Ok t' ->
     let key := Z.lxor key0 (contemptHash t) in
     let depth := if depth0 <? 0 then 0 else depth0 in
     t' = t \/
     exists idx, in_bucket (getIndex t key) idx /\
       view t' key = Some (match view t key with
                           | Some old => build_data old (m_from m =? m_to m) m type ply depth evalScore busy (generation t)
                           | None => build_data (snd (entry_at t idx)) false m type ply depth evalScore busy (generation t)
                           end) /\
       (forall k', 0 <= k' < 2 ^ 64 -> k' <> key ->
          view t' k' = view t k' \/
          (view t key = None /\ ekey (entry_at t idx) = k' /\ (k' <> 0 -> view t' k' = None)))).
Proof.
  intros t0 ops t I0 F E.
  destruct (history_invariant ops t0 t I0 F E) as (I & _).
  split; [exact I|]. destruct I as (W & HT & HC & U).
  split.
  - intros key0 res t' r Hk P. apply (probe_refines t key0 res t' r W HT); [|exact P].
    apply lxor_W64; assumption.
  - intros key0 m type ply depth0 evalScore busy t' Hk Ei.
    assert (K : 0 <= Z.lxor key0 (contemptHash t) < 2 ^ 64) by (apply lxor_W64; assumption).
    destruct (insert_refines t key0 m type ply depth0 evalScore busy t' W HT K Ei) as [Eq | (idx & Hb & V & O)];
      [left; exact Eq | right].
    exists idx. split; [exact Hb|]. split; [exact V|].
    intros k' Hk' Hne. destruct (O k' Hk' Hne) as [S | (A & B & C)]; [left; exact S | right].
    split; [exact A|]. split; [exact B|]. intros Hnz. apply C; assumption.
Qed.
