(** The `table` pointer and `tableSize` never disagree, whatever the allocator does. *)
From Coq Require Import ZArith Bool List Lia.
From Texel Require Import TT.Entry TT.EntryProofs TT.Table TT.TableProofs TT.TBRegion TT.TBRegionProofs
     TT.BucketProofs TT.Alloc.
Import ListNotations.
Local Open Scope Z_scope.

Lemma round_size_ge4 : forall n, 0 <= n < 2 ^ 64 ->
  4 <= round_size n < 2 ^ 64 /\ round_size n mod 4 = 0.
Proof.
  intros n Hn. rewrite round_size_spec by assumption.
  destruct (Z.ltb_spec n 4).
  - change (2 ^ 64) with 18446744073709551616. split; [lia | reflexivity].
  - Z.div_mod_to_equations. lia.
Qed.

Lemma fresh_inv : AllocInv fresh.
Proof. right. split; reflexivity. Qed.

Lemma clear_fields : forall t t', tableSize t < 2 ^ 64 -> 0 <= tableSize t -> clear t = Ok t' ->
  tableSize t' = tableSize t /\ usedSize t' = tableSize t /\ mem t' = [] /\ generation t' = 0 /\
  contemptHash t' = contemptHash t /\
  size_params (tableSize t) = Some (topBits t', usedShift t', usedMask t').
Proof.
  intros t t' H1 H0 E. unfold clear, setUsedSize in E.
  destruct (size_params (tableSize t)) as [[[tb sh] mk]|] eqn:P; [|discriminate].
  inversion E; subst t'. cbn. auto 10.
Qed.

Lemma clear_total : forall t, 0 <= tableSize t < 2 ^ 64 -> exists t', clear t = Ok t'.
Proof.
  intros t H. unfold clear, setUsedSize.
  destruct (size_params_total (tableSize t) H) as (tb & sh & E & _). rewrite E. eexists. reflexivity.
Qed.

(** one reSize call, any allocator outcome *)
Theorem resize_alloc_failure_safe : forall o n ok,
  AllocInv o -> 0 <= n < 2 ^ 64 ->
  match reSizeA o n ok with
  | Returned o' =>
      (* a normal return ALWAYS leaves a valid table of exactly the requested (rounded) size *)
      valid o' = true /\ tableSize (st o') = round_size n /\ AllocInv o' /\
      (* and when an allocation happened, a cleared table ready for use *)
      (round_size n <> tableSize (st o) ->
         ok = true /\ mem (st o') = [] /\ usedSize (st o') = round_size n /\ generation (st o') = 0 /\
         (512 <= round_size n -> W64 (contemptHash (st o)) -> Inv (st o')))
  | Threw o' =>
      (* after bad_alloc: null pointer AND tableSize = 0, so no later call can mistake the
         object for a table of the old size *)
      ok = false /\ valid o' = false /\ tableSize (st o') = 0 /\ AllocInv o' /\
      round_size n <> tableSize (st o)
  | RErr => False
  end.
Proof.
  intros o n ok I Hn. unfold reSizeA.
  destruct (round_size_ge4 n Hn) as (R4 & Rm).
  destruct (Z.eqb_spec (round_size n) (tableSize (st o))) as [E | E].
  - (* early return: only possible with a valid table, because tableSize = 0 when invalid *)
    destruct I as [(V & S & M & U) | (V & S)]; [|lia].
    split; [exact V|]. split; [symmetry; exact E|]. split; [left; auto|]. intros C. congruence.
  - destruct ok.
    + set (t1 := mkTT [] (round_size n) (usedSize (st o)) (topBits (st o)) (usedShift (st o))
                      (usedMask (st o)) 0 (contemptHash (st o)) (tbResident (st o))).
      destruct (clear_total t1 ltac:(cbn; lia)) as (t' & C). rewrite C.
      destruct (clear_fields t1 t' ltac:(cbn; lia) ltac:(cbn; lia) C) as (T & U & Mm & G & CH & P).
      cbn [tableSize t1] in T, U, P. cbn [valid st].
      split; [reflexivity|]. split; [exact T|].
      split; [left; cbn [valid st]; rewrite T, U; repeat split; lia|].
      intros _. split; [reflexivity|]. split; [exact Mm|]. split; [exact U|]. split; [exact G|].
      intros H512 HC. unfold Inv.
      split; [constructor; rewrite ?U, ?T; (assumption || lia)|].
      split; [lia|]. split; [rewrite CH; exact HC|]. apply uniq_empty. exact Mm.
    + cbn [valid st tableSize]. split; [reflexivity|]. split; [reflexivity|]. split; [reflexivity|].
      split; [right; split; reflexivity | exact E].
Qed.

(** any sequence of reSize calls with any allocation outcomes keeps the invariant *)
Fixpoint run_resizes (o : obj) (calls : list (Z * bool)) : option obj :=
  match calls with
  | [] => Some o
  | (n, ok) :: r => match reSizeA o n ok with
                    | Returned o' => run_resizes o' r
                    | Threw o' => run_resizes o' r
                    | RErr => None
                    end
  end.

Theorem resize_sequences_safe : forall calls o,
  AllocInv o -> Forall (fun c => 0 <= fst c < 2 ^ 64) calls ->
  exists o', run_resizes o calls = Some o' /\ AllocInv o'.
Proof.
  induction calls as [|[n ok] r IH]; intros o I F; [exists o; auto|].
  inversion F as [|? ? Hn Fr]; subst. cbn [fst] in Hn. cbn [run_resizes].
  pose proof (resize_alloc_failure_safe o n ok I Hn) as H.
  destruct (reSizeA o n ok) as [o' | o' | ]; [| |contradiction].
  - apply IH; [apply H | exact Fr].
  - apply IH; [apply H | exact Fr].
Qed.

(** a failed reSize is always repaired by the next successful allocation: the early return
    can never be taken on a null table *)
Theorem resize_recovers : forall o n, AllocInv o -> valid o = false -> 0 <= n < 2 ^ 64 ->
  exists o', reSizeA o n true = Returned o' /\ valid o' = true /\ tableSize (st o') = round_size n.
Proof.
  intros o n I V Hn.
  pose proof (resize_alloc_failure_safe o n true I Hn) as H.
  destruct (reSizeA o n true) as [o' | o' | ] eqn:E; [| |contradiction].
  - exists o'. split; [reflexivity|]. split; apply H.
  - destruct H as (H1 & _). discriminate.
Qed.

(** EngineMainThread::setupTT: it always returns, the invariant holds, the table is valid unless
    every attempt failed (then tableSize = 0: the object is inert, nothing believes in a table),
    and a valid result has the size of the first granted request of the halving chain *)
Theorem setupTT_safe : forall fuel o nEntries oracle,
  AllocInv o -> 0 <= nEntries < 2 ^ 64 ->
  let '(o', k) := setupTT fuel o nEntries oracle in
  AllocInv o' /\ (valid o' = false -> tableSize (st o') = 0) /\
  (valid o = true -> valid o' = false -> (1 <= k)%nat).
Proof.
  induction fuel as [|f IH]; intros o n oracle I Hn; cbn [setupTT].
  - split; [exact I|]. split; [destruct I as [(V & _) | (V & S)]; [congruence | auto] | congruence].
  - destruct (Z.ltb_spec n 1) as [L1 | L1].
    + split; [exact I|]. split; [destruct I as [(V & _) | (V & S)]; [congruence | auto] | congruence].
    + pose proof (resize_alloc_failure_safe o n (hd false oracle) I Hn) as H.
      destruct (reSizeA o n (hd false oracle)) as [o' | o' | ]; [| |contradiction].
      * destruct H as (V & _ & I' & _). split; [exact I'|]. split; congruence.
      * destruct H as (_ & V & S & I' & _).
        assert (Hn2 : 0 <= n / 2 < 2 ^ 64).
        { split; [apply Z.div_pos; lia | apply Z.div_lt_upper_bound; lia]. }
        specialize (IH o' (n / 2) (tl oracle) I' Hn2).
        destruct (setupTT f o' (n / 2) (tl oracle)) as [o'' k].
        destruct IH as (A & B & _). split; [exact A|]. split; [exact B|]. intros. lia.
Qed.

(** non-vacuity, and the scenario of the Hash option under memory pressure: table of 2^20
    entries, Hash raised 64-fold, every size above 2^20 entries is refused: the retry reaches
    exactly the old size and MUST allocate again (6 exceptions, then a valid 2^20 table). *)
Example setupTT_example :
  exists o0 o1, reSizeA fresh 1048576 true = Returned o0 /\
    setupTT setupFuel o0 67108864 [false; false; false; false; false; false; true] = (o1, 6%nat) /\
    valid o1 = true /\ tableSize (st o1) = 1048576 /\ mem (st o1) = [].
Proof.
  do 2 eexists. split; [vm_compute; reflexivity|]. split; [vm_compute; reflexivity|].
  split; [reflexivity|]. split; reflexivity.
Qed.
