(** Transposition-table entry: thin wrapper around the REGENERATED leaf functions
    (coq/gen/TTGen.v, produced by tx/leaf.py from lib/texellib/transpositionTable.hpp on every
    check run).  Nothing here restates what the C++ computes; it only fixes names, the word
    range, and the record type used by the hand-written table model. *)
From Coq Require Import ZArith Bool List.
From Texel Require Export gen.LeafPrelude gen.TTGen.
Import ListNotations.
Local Open Scope Z_scope.

(** a 64-bit machine word (value of a U64 / std::atomic<U64>) *)
Definition W64 (x : Z) : Prop := 0 <= x < 2 ^ 64.
Definition w64b (x : Z) : bool := (0 <=? x) && (x <? 2 ^ 64).

(** a local TTEntry object: (key, data) *)
Definition entry : Type := (Z * Z)%type.
Definition ekey (e : entry) : Z := TTEntry_getKey (fst e).
Definition edata (e : entry) : Z := TTEntry_getData (snd e).

(** an in-memory slot TTEntryStorage: (key word, data word) *)
Definition slot : Type := (Z * Z)%type.

(** TTEntry::store / TTEntry::load, from the generated code: a store of entry (k,d) writes
    key word [k xor d] and data word [d]; a load of words (w1,w2) yields entry (w1 xor w2, w2). *)
Definition store_words (e : entry) : slot := TTEntry_store (fst e) (snd e).
Definition load_entry (s : slot) : entry := TTEntry_load (fst s) (snd s).

(** a Move object as the four modelled fields (from, to, promoteTo, score) *)
Record move : Type := mkMove { m_from : Z; m_to : Z; m_promote : Z; m_score : Z }.

(** the field accessors, by name *)
Definition getDepth := TTEntry_getDepth.
Definition getType := TTEntry_getType.
Definition getGeneration := TTEntry_getGeneration.
Definition getBusy := TTEntry_getBusy.
Definition getEvalScore := TTEntry_getEvalScore.
Definition getScore := TTEntry_getScore.
Definition getMoveBits (d : Z) : Z := TTEntry_getBits d TTEntry_Move_first TTEntry_Move_size.

(** TTEntry::getMove applied to a default-constructed Move (all fields 0), as in setBusy *)
Definition getMove (d : Z) (score0 : Z) : move :=
  let '(f, t, p, s) := TTEntry_getMove d score0 in mkMove f t p s.

(** the data word written by TranspositionTable::insert once the slot is chosen: every
    set* call of insert in source order (the move is kept when the slot already holds the key
    and the new move is empty, i.e. from = to) *)
Definition build_data (old : Z) (keep_move : bool) (m : move) (type ply depth evalScore : Z)
           (busy : bool) (generation : Z) : Z :=
  let d := if keep_move then old else TTEntry_setMove old (m_from m) (m_to m) (m_promote m) in
  let d := TTEntry_setScore d (m_score m) ply in
  let d := TTEntry_setDepth d depth in
  let d := TTEntry_setBusy d busy in
  let d := TTEntry_setGeneration d (sext 8 generation) in      (* (S8)generation *)
  let d := TTEntry_setType d type in
  TTEntry_setEvalScore d evalScore.
