(** Theorem-level statements about the entry layout, assembled from EntryProofs. *)
From Coq Require Import ZArith Bool List Lia.
From Texel Require Import TT.Entry TT.EntryProofs.
Import ListNotations.
Local Open Scope Z_scope.

Theorem bitfields :
  layout_ok TTEntry_layout = true /\
  forall d, W64 d -> forall f s, In (f, s) TTEntry_layout ->
    (forall v, W64 (TTEntry_setBits d f s v) /\
               TTEntry_getBits (TTEntry_setBits d f s v) f s = v mod 2 ^ s) /\
    TTEntry_setBits d f s (TTEntry_getBits d f s) = d /\
    (forall v v', TTEntry_setBits (TTEntry_setBits d f s v) f s v' = TTEntry_setBits d f s v') /\
    (forall f' s' v, In (f', s') TTEntry_layout -> (f', s') <> (f, s) ->
       TTEntry_getBits (TTEntry_setBits d f s v) f' s' = TTEntry_getBits d f' s') /\
    (forall v, TTEntry_getBits_noovf d f s = true /\ TTEntry_setBits_noovf d f s v = true).
Proof.
  split; [exact layout_ok_gen|].
  intros d Hd f s Hin.
  destruct (layout_from_in TTEntry_layout 0 f s ltac:(lia) layout_ok_gen Hin) as (F & S & FS).
  split; [|split; [|split; [|split]]].
  - intros v. split; [apply setBits_W64 | apply get_set]; (assumption || lia).
  - apply set_get; (assumption || lia).
  - intros. apply set_set; (assumption || lia).
  - intros f' s' v Hin' Hne.
    destruct (layout_from_in TTEntry_layout 0 f' s' ltac:(lia) layout_ok_gen Hin') as (F' & S' & FS').
    apply get_set_other; try (assumption || lia).
    apply (layout_from_disjoint TTEntry_layout 0 f s f' s'); try (assumption || lia || exact layout_ok_gen).
    intro E. apply Hne. inversion E. reflexivity.
  - intros v. apply bits_noovf; lia.
Qed.

(** every named accessor is the lens of its layout entry composed with the C++ conversion *)
Theorem accessors_use_layout : forall d,
  (forall x, TTEntry_setScore d x 0 = TTEntry_setBits d TTEntry_Score_first TTEntry_Score_size (wrap 32 (to_stored x 0))) /\
  TTEntry_getScore d 0 = from_stored (sext 16 (TTEntry_getBits d TTEntry_Score_first TTEntry_Score_size)) 0 /\
  (forall x, TTEntry_setDepth d x = TTEntry_setBits d TTEntry_Depth_first TTEntry_Depth_size (wrap 32 x)) /\
  TTEntry_getDepth d = sext 32 (TTEntry_getBits d TTEntry_Depth_first TTEntry_Depth_size) /\
  (forall b, TTEntry_setBusy d b = TTEntry_setBits d TTEntry_Busy_first TTEntry_Busy_size (b2z b)) /\
  TTEntry_getBusy d = z2b (TTEntry_getBits d TTEntry_Busy_first TTEntry_Busy_size) /\
  (forall x, TTEntry_setGeneration d x = TTEntry_setBits d TTEntry_Generation_first TTEntry_Generation_size (wrap 32 x)) /\
  TTEntry_getGeneration d = sext 32 (TTEntry_getBits d TTEntry_Generation_first TTEntry_Generation_size) /\
  (forall x, TTEntry_setType d x = TTEntry_setBits d TTEntry_Type_first TTEntry_Type_size (wrap 32 x)) /\
  TTEntry_getType d = sext 32 (TTEntry_getBits d TTEntry_Type_first TTEntry_Type_size) /\
  (forall x, TTEntry_setEvalScore d x = TTEntry_setBits d TTEntry_EvalScore_first TTEntry_EvalScore_size (wrap 32 x)) /\
  TTEntry_getEvalScore d = sext 16 (TTEntry_getBits d TTEntry_EvalScore_first TTEntry_EvalScore_size) /\
  (forall f t p, TTEntry_setMove d f t p =
       TTEntry_setBits d TTEntry_Move_first TTEntry_Move_size (wrap 32 (Move_getCompressedMove f t p))).
Proof.
  intros d. repeat split; intros; reflexivity.
Qed.

(** round trips of the named accessors on the values the engine stores *)
Theorem accessor_roundtrips : forall d, W64 d ->
  (forall x, 0 <= x < 512 -> TTEntry_getDepth (TTEntry_setDepth d x) = x) /\
  (forall b, TTEntry_getBusy (TTEntry_setBusy d b) = b) /\
  (forall g, 0 <= g < 16 -> TTEntry_getGeneration (TTEntry_setGeneration d g) = g) /\
  (forall t, 0 <= t < 4 -> TTEntry_getType (TTEntry_setType d t) = t) /\
  (forall x, -32768 <= x < 32768 -> TTEntry_getEvalScore (TTEntry_setEvalScore d x) = x).
Proof.
  intros d Hd.
  assert (SX : forall x, 0 <= x < 2 ^ 31 -> sext 32 x = x).
  { intros. apply sext_id; [lia|]. change (2 ^ (32 - 1)) with (2 ^ 31). lia. }
  assert (WM : forall x s, 0 <= s <= 32 -> 0 <= x < 2 ^ s -> (wrap 32 x) mod 2 ^ s = x).
  { intros x s Hs Hx. assert (2 ^ s <= 2 ^ 32) by (apply Z.pow_le_mono_r; lia).
    rewrite wrap_small by lia. apply Z.mod_small. lia. }
  repeat split.
  - intros x Hx. unfold TTEntry_getDepth, TTEntry_setDepth. cbv zeta.
    rewrite get_set by (assumption || lia). rewrite WM by (change (2 ^ 9) with 512; lia).
    apply SX. change (2 ^ 31) with 2147483648. lia.
  - intros b. unfold TTEntry_getBusy, TTEntry_setBusy. cbv zeta.
    rewrite get_set by (assumption || lia). destruct b; reflexivity.
  - intros g Hg. unfold TTEntry_getGeneration, TTEntry_setGeneration. cbv zeta.
    rewrite get_set by (assumption || lia). rewrite WM by (change (2 ^ 4) with 16; lia).
    apply SX. change (2 ^ 31) with 2147483648. lia.
  - intros t Ht. unfold TTEntry_getType, TTEntry_setType. cbv zeta.
    rewrite get_set by (assumption || lia). rewrite WM by (change (2 ^ 2) with 4; lia).
    apply SX. change (2 ^ 31) with 2147483648. lia.
  - intros x Hx. unfold TTEntry_getEvalScore, TTEntry_setEvalScore. cbv zeta.
    rewrite get_set by (assumption || lia). apply sext_wrap16. exact Hx.
Qed.

(** non-vacuity *)
Example bitfields_example :
  W64 1152921504606846975 /\ In (32, 9) TTEntry_layout /\
  TTEntry_getDepth (TTEntry_setDepth 1152921504606846975 300) = 300 /\
  TTEntry_getEvalScore (TTEntry_setDepth 1152921504606846975 300) = TTEntry_getEvalScore 1152921504606846975.
Proof.
  split; [vm_compute; split; [discriminate | reflexivity]|].
  split; [vm_compute; auto 10|]. split; vm_compute; reflexivity.
Qed.

Example mate_ply_shift_example :
  (* mate in 3 plies found at ply 7 (score MATE0 - 10), read back at ply 2 *)
  win 31990 = true /\ TTEntry_getScore (TTEntry_setScore 0 31990 7) 2 = 31995.
Proof. vm_compute. split; reflexivity. Qed.
