(** Index arithmetic of the table: setUsedSize always terminates, and for every used size
    >= 512 that is a multiple of 4 (every size reSize / updateTB can produce from a table of
    at least 512 entries) the REGENERATED getIndex yields a bucket that lies inside the used
    part of the table.  For smaller sizes this is false (refuted below). *)
From Coq Require Import ZArith Bool List Lia.
From Texel Require Import TT.Entry TT.EntryProofs TT.Table.
Import ListNotations.
Local Open Scope Z_scope.

Lemma top_loop_spec : forall fuel tb sh,
  0 <= tb < 2 ^ (Z.of_nat fuel + 8) ->
  exists tb' d, top_loop fuel tb sh = Some (tb', sh + d) /\ 0 <= d /\ tb' = tb / 2 ^ d /\
                0 <= tb' < 256 /\ (256 <= tb -> 128 <= tb') /\ (tb < 256 -> d = 0).
Proof.
  induction fuel as [|f IH]; intros tb sh H.
  - cbn [top_loop]. change (2 ^ (Z.of_nat 0 + 8)) with 256 in H.
    destruct (Z.ltb_spec tb 256); [|lia].
    exists tb, 0. rewrite Z.add_0_r, Z.pow_0_r, Z.div_1_r. repeat split; lia.
  - cbn [top_loop]. destruct (Z.ltb_spec tb 256).
    + exists tb, 0. rewrite Z.add_0_r, Z.pow_0_r, Z.div_1_r. repeat split; lia.
    + assert (E : 2 ^ (Z.of_nat (S f) + 8) = 2 * 2 ^ (Z.of_nat f + 8)).
      { rewrite Nat2Z.inj_succ. replace (Z.succ (Z.of_nat f) + 8) with (Z.succ (Z.of_nat f + 8)) by lia.
        apply Z.pow_succ_r. lia. }
      rewrite E in H.
      assert (B : 0 <= tb / 2 < 2 ^ (Z.of_nat f + 8)).
      { split; [apply Z.div_pos; lia | apply Z.div_lt_upper_bound; lia]. }
      destruct (IH (tb / 2) (sh + 1) B) as (tb' & d & E1 & Hd & E2 & R & G & S0).
      exists tb', (d + 1). replace (sh + (d + 1)) with (sh + 1 + d) by lia.
      split; [exact E1|]. split; [lia|]. split.
      * rewrite E2. rewrite Z.div_div by (try lia; apply pow2_pos; lia).
        f_equal. rewrite Z.pow_add_r by lia. lia.
      * split; [exact R|]. split; [|lia].
        intros _. destruct (Z.lt_ge_cases (tb / 2) 256) as [L|L].
        -- rewrite (S0 L) in E2. rewrite Z.pow_0_r, Z.div_1_r in E2. subst tb'.
           apply Z.div_le_lower_bound; lia.
        -- apply G. exact L.
Qed.

Lemma size_params_total : forall s, 0 <= s < 2 ^ 64 ->
  exists tb sh, size_params s = Some (tb, sh,
     Z.land (wrap 64 (wrap 64 (Z.shiftl 1 sh) - 1)) (wrap 64 (Z.lnot 3))) /\
     0 <= sh /\ tb = s / 2 ^ sh /\ 0 <= tb < 256 /\ (256 <= s -> 128 <= tb) /\ (s < 256 -> sh = 0).
Proof.
  intros s Hs. unfold size_params.
  assert (B : 0 <= s < 2 ^ (Z.of_nat fuel64 + 8)).
  { change (Z.of_nat fuel64 + 8) with 72. split; [lia|].
    apply Z.lt_trans with (2 ^ 64); [lia | apply Z.pow_lt_mono_r; lia]. }
  destruct (top_loop_spec fuel64 s 0 B) as (tb & d & E1 & Hd & E2 & R & G & S0).
  rewrite E1. rewrite Z.add_0_l.
  exists tb, d. rewrite sext_id by (change (2 ^ (32 - 1)) with 2147483648; lia).
  repeat split; (assumption || lia).
Qed.

(** setUsedSize never runs out of fuel for a 64-bit size *)
Lemma setUsedSize_total : forall t s, 0 <= s < 2 ^ 64 -> setUsedSize t s <> OutOfFuel.
Proof.
  intros t s Hs. unfold setUsedSize.
  destruct (size_params_total s Hs) as (tb & sh & E & _). rewrite E. discriminate.
Qed.

(** * bit facts used by getIndex *)
Lemma lor_disjoint_add : forall a b d, 0 <= d -> 0 <= b < 2 ^ d -> Z.lor (a * 2 ^ d) b = a * 2 ^ d + b.
Proof.
  intros a b d Hd Hb.
  assert (L : Z.land (a * 2 ^ d) b = 0).
  { apply Z.bits_inj'. intros i Hi. rewrite Z.land_spec, Z.bits_0.
    rewrite <- Z.shiftl_mul_pow2 by lia.
    destruct (Z.ltb_spec i d).
    - rewrite Z.shiftl_spec_low by lia. reflexivity.
    - rewrite <- (Z.mod_small b (2 ^ d)) by lia.
      rewrite Z.mod_pow2_bits_high by lia. apply andb_false_r. }
  rewrite <- Z.lxor_lor by exact L. symmetry. apply Z.add_nocarry_lxor. exact L.
Qed.

Lemma mask_low : forall key d, 2 <= d < 64 -> 0 <= key ->
  let low := Z.land key (Z.land (wrap 64 (wrap 64 (Z.shiftl 1 d) - 1)) (wrap 64 (Z.lnot 3))) in
  0 <= low < 2 ^ d /\ (4 | low).
Proof.
  intros key d Hd Hk low.
  assert (M : wrap 64 (wrap 64 (Z.shiftl 1 d) - 1) = Z.ones d).
  { rewrite Z.shiftl_1_l.
    assert (0 < 2 ^ d) by (apply pow2_pos; lia).
    assert (2 ^ d < 2 ^ 64) by (apply Z.pow_lt_mono_r; lia).
    rewrite (wrap_small 64 (2 ^ d)) by lia. rewrite wrap_small by lia.
    rewrite Z.ones_equiv. lia. }
  assert (N : 0 <= low) by (apply Z.land_nonneg; left; exact Hk).
  assert (T : forall i, 0 <= i -> Z.testbit low i =
                Z.testbit key i && ((i <? d) && ((i <? 64) && negb (Z.testbit 3 i)))).
  { intros i Hi. unfold low. rewrite M. rewrite !Z.land_spec, Z.testbit_ones, testbit_wrap, Z.lnot_spec by lia.
    destruct (Z.leb_spec 0 i); [reflexivity | lia]. }
  split; [split; [exact N|]|].
  - apply bits_bound; [lia | exact N |].
    intros i Hi. rewrite T by lia. destruct (Z.ltb_spec i d); [lia|]. apply andb_false_r.
  - apply Z.mod_divide; [lia|]. change 4 with (2 ^ 2).
    apply Z.bits_inj'. intros i Hi. rewrite Z.bits_0.
    destruct (Z.ltb_spec i 2).
    + rewrite Z.mod_pow2_bits_low by lia. rewrite T by lia.
      assert (C : i = 0 \/ i = 1) by lia. destruct C; subst i; cbn; rewrite ?andb_false_r; reflexivity.
    + apply Z.mod_pow2_bits_high. lia.
Qed.

(** * getIndex stays inside the used part of the table *)
Theorem index_in_bounds : forall s key,
  512 <= s < 2 ^ 64 -> s mod 4 = 0 -> 0 <= key < 2 ^ 64 ->
  exists tb sh mk, size_params s = Some (tb, sh, mk) /\
    TT_getIndex_noovf tb sh mk key = true /\
    0 <= TT_getIndex tb sh mk key /\
    TT_getIndex tb sh mk key mod 4 = 0 /\
    TT_getIndex tb sh mk key + 3 < s.
Proof.
  intros s key Hs Hm Hk.
  destruct (size_params_total s ltac:(lia)) as (tb & d & E & Hd & Etb & Rtb & G & _).
  specialize (G ltac:(lia)).
  exists tb, d, (Z.land (wrap 64 (wrap 64 (Z.shiftl 1 d) - 1)) (wrap 64 (Z.lnot 3))).
  split; [exact E|].
  assert (P : 0 < 2 ^ d) by (apply pow2_pos; lia).
  assert (Lo : tb * 2 ^ d <= s) by (rewrite Etb, Z.mul_comm; apply Z.mul_div_le; lia).
  assert (Hi : s < (tb + 1) * 2 ^ d).
  { rewrite Etb, Z.mul_comm. replace (s / 2 ^ d + 1) with (Z.succ (s / 2 ^ d)) by lia.
    apply Z.mul_succ_div_gt. lia. }
  assert (D2 : 2 <= d).
  { destruct (Z.lt_ge_cases d 2) as [L|L]; [|exact L]. exfalso.
    assert (2 ^ d <= 2 ^ 1) by (apply Z.pow_le_mono_r; lia). change (2 ^ 1) with 2 in *. nia. }
  assert (D57 : d < 57).
  { destruct (Z.lt_ge_cases d 57) as [L|L]; [exact L|]. exfalso.
    assert (2 ^ 57 <= 2 ^ d) by (apply Z.pow_le_mono_r; lia).
    change (2 ^ 57) with 144115188075855872 in *. change (2 ^ 64) with 18446744073709551616 in *. nia. }
  destruct (mask_low key d ltac:(lia) ltac:(lia)) as [[L0 L1] L4].
  set (low := Z.land key (Z.land (wrap 64 (wrap 64 (Z.shiftl 1 d) - 1)) (wrap 64 (Z.lnot 3)))) in *.
  (* the value computed by getIndex *)
  assert (V : exists r2, 0 <= r2 <= tb - 1 /\
     TT_getIndex tb d (Z.land (wrap 64 (wrap 64 (Z.shiftl 1 d) - 1)) (wrap 64 (Z.lnot 3))) key = r2 * 2 ^ d + low).
  { unfold TT_getIndex. cbv zeta. fold low.
    change (64 - 16) with 48.
    rewrite (Z.shiftr_div_pow2 key 48) by lia.
    assert (R : 0 <= key / 2 ^ 48 < 2 ^ 16).
    { split; [apply Z.div_pos; lia|]. apply Z.div_lt_upper_bound; [lia|].
      change (2 ^ 48 * 2 ^ 16) with (2 ^ 64). lia. }
    set (r := key / 2 ^ 48) in *.
    rewrite (wrap_small 64 tb) by (change (2 ^ 64) with 18446744073709551616; lia).
    assert (R1 : 0 <= r * tb < 2 ^ 16 * tb) by (change (2 ^ 16) with 65536 in *; nia).
    rewrite (wrap_small 64 (r * tb)) by (change (2 ^ 64) with 18446744073709551616; change (2 ^ 16) with 65536 in *; nia).
    rewrite (Z.shiftr_div_pow2 (r * tb) 16) by lia.
    assert (R2 : 0 <= r * tb / 2 ^ 16 <= tb - 1).
    { split; [apply Z.div_pos; lia|].
      assert (r * tb / 2 ^ 16 < tb) by (apply Z.div_lt_upper_bound; lia). lia. }
    set (r2 := r * tb / 2 ^ 16) in *.
    rewrite Z.shiftl_mul_pow2 by lia.
    rewrite (wrap_small 64 (r2 * 2 ^ d)) by nia.
    exists r2. split; [exact R2|].
    apply lor_disjoint_add; lia. }
  destruct V as (r2 & R2 & V). rewrite V.
  split.
  { unfold TT_getIndex_noovf, fits_s, shamt_ok. cbv zeta.
    repeat rewrite andb_true_iff. rewrite !Z.leb_le, !Z.ltb_lt.
    change (2 ^ (32 - 1)) with 2147483648. lia. }
  split; [nia|].
  split.
  - apply Z.mod_divide; [lia|]. apply Z.divide_add_r; [|exact L4].
    apply Z.divide_mul_r. replace d with (2 + (d - 2)) by lia. rewrite Z.pow_add_r by lia.
    apply Z.divide_mul_l. exists 1. reflexivity.
  - destruct L4 as [q Hq].
    assert (E4 : 2 ^ d = 4 * 2 ^ (d - 2)).
    { replace d with (2 + (d - 2)) at 1 by lia. rewrite Z.pow_add_r by lia. reflexivity. }
    assert (0 < 2 ^ (d - 2)) by (apply pow2_pos; lia).
    assert (A1 : low <= 2 ^ d - 4) by lia.
    assert (A2 : r2 * 2 ^ d <= (tb - 1) * 2 ^ d) by (apply Z.mul_le_mono_nonneg_r; lia).
    lia.
Qed.

(** the same, for a table state *)
Corollary getIndex_in_used : forall t t' s key,
  512 <= s < 2 ^ 64 -> s mod 4 = 0 -> 0 <= key < 2 ^ 64 ->
  setUsedSize t s = Ok t' ->
  usedSize t' = s /\ 0 <= getIndex t' key /\ getIndex t' key mod 4 = 0 /\ getIndex t' key + 3 < usedSize t'.
Proof.
  intros t t' s key Hs Hm Hk E.
  destruct (index_in_bounds s key Hs Hm Hk) as (tb & sh & mk & E1 & _ & A & B & C).
  unfold setUsedSize in E. rewrite E1 in E. inversion E; subst t'. unfold getIndex. cbn. auto.
Qed.

(** * small sizes: the bound fails (outside the property's domain; no in-tree caller probes
    such a table: EngineMainThread's initial tt(256) is resized by the Hash option listener
    before any search) *)
Definition small_witness_size : Z := 256.
Definition small_witness_key : Z := 18446462598732840960.   (* 0xffff000000000000 *)

Lemma index_small_refuted :
  exists s key, 4 <= s < 512 /\ s mod 4 = 0 /\ 0 <= key < 2 ^ 64 /\
    exists tb sh mk, size_params s = Some (tb, sh, mk) /\ s <= TT_getIndex tb sh mk key + 3.
Proof.
  exists small_witness_size, small_witness_key.
  split; [vm_compute; split; [discriminate | reflexivity]|].
  split; [reflexivity|]. split; [vm_compute; split; [discriminate | reflexivity]|].
  exists 128, 1, 0. split; [vm_compute; reflexivity|]. vm_compute. discriminate.
Qed.

(** non-vacuity of [index_in_bounds]: a non-power-of-two size and a key with all top bits set *)
Example index_in_bounds_example :
  size_params 1000 = Some (250, 2, 0) /\ TT_getIndex 250 2 0 small_witness_key = 996.
Proof. vm_compute. split; reflexivity. Qed.

Example index_in_bounds_example_tb :
  (* Hash = 16 MB with a resident tablebase: usedSize = 2^20 - 327680 *)
  size_params 720896 = Some (176, 12, 4092) /\
  TT_getIndex 176 12 4092 18446744073709551615 = 720892.
Proof. vm_compute. split; reflexivity. Qed.
