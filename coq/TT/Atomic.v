(** Relaxed-memory over-approximation for one table slot (DESIGN.md Appendix A1).

    A slot is two std::atomic<U64> accessed only by relaxed load/store.  In C++11 every
    atomic load returns the value written by SOME store in that object's modification order
    (or the initial value), and relaxed accesses to two different objects impose no order
    between them.  So whatever the schedule, thread count or compiler reordering, the pair of
    words a TTEntry::load can see is in
       { (w1, w2) | w1 in key words ever stored (or 0), w2 in data words ever stored (or 0) }.
    A slot is therefore modelled by its *store log*: the list of entries (k, d) ever stored to
    it by anybody (inserts and the generation-refresh stores of probe); the order is
    irrelevant.  [may_load] is exactly the set above.  Quantifying over all logs and all
    members of [may_load] covers every execution. *)
From Coq Require Import ZArith Bool List.
From Texel Require Import TT.Entry.
Import ListNotations.
Local Open Scope Z_scope.

Definition store_log : Type := list entry.

Definition key_words (l : store_log) : list Z := 0 :: map (fun e => fst (store_words e)) l.
Definition data_words (l : store_log) : list Z := 0 :: map (fun e => snd (store_words e)) l.

(** the words one relaxed load of the slot may return *)
Definition may_load (l : store_log) (w : slot) : Prop :=
  In (fst w) (key_words l) /\ In (snd w) (data_words l).

(** probe's treatment of a loaded entry whose key matches: refresh the generation *)
Definition refresh (g : Z) (e : entry) : entry :=
  if negb (getGeneration (snd e) =? g) then (fst e, TTEntry_setGeneration (snd e) g) else e.

(** what a probe for (internal) key [key] may return as a hit from a bucket whose slots have
    the store logs [b], when the table generation is [g] *)
Definition probe_may_return (g : Z) (b : list store_log) (key : Z) (r : entry) : Prop :=
  exists l w, In l b /\ may_load l w /\ ekey (load_entry w) = key /\ r = refresh g (load_entry w).

(** * executable validator used on recorded multi-threaded runs *)
Fixpoint memZ (x : Z) (l : list Z) : bool :=
  match l with [] => false | y :: r => (x =? y) || memZ x r end.

Definition refresh_data (g d : Z) : Z := snd (refresh g (0, d)).

(** prepared log: key words, and for every data word the data a hit would return *)
Definition prep (g : Z) (l : store_log) : list Z * list (Z * Z) :=
  (key_words l, map (fun w2 => (w2, refresh_data g w2)) (data_words l)).

Definition allowed_prep (p : list Z * list (Z * Z)) (key : Z) (r : entry) : bool :=
  (fst r =? key) &&
  existsb (fun wr => (snd wr =? snd r) && memZ (Z.lxor key (fst wr)) (fst p)) (snd p).

Definition allowed (g : Z) (l : store_log) (key : Z) (r : entry) : bool :=
  allowed_prep (prep g l) key r.

(** refresh stores a probe for one of [keys] may issue on a slot with log [l] *)
Definition refresh_stores (g : Z) (keys : list Z) (l : store_log) : list entry :=
  flat_map (fun k =>
    flat_map (fun w2 =>
      if negb (getGeneration w2 =? g) && memZ (Z.lxor k w2) (key_words l)
      then [(k, TTEntry_setGeneration w2 g)] else [])
    (data_words l)) keys.

Fixpoint memE (e : entry) (l : list entry) : bool :=
  match l with [] => false | y :: r => ((fst e =? fst y) && (snd e =? snd y)) || memE e r end.

(** close a log under the refresh stores of probes for [keys]; returns the closed log and
    whether a fixed point was reached within the fuel *)
Fixpoint close_log (fuel : nat) (g : Z) (keys : list Z) (l : store_log) : store_log * bool :=
  let new := filter (fun e => negb (memE e l)) (refresh_stores g keys l) in
  match new with
  | [] => (l, true)
  | _ => match fuel with
         | O => (l, false)
         | S f => close_log f g keys (new ++ l)
         end
  end.
