(** reSize with allocation failure (transpositionTable.cpp: reSize; enginecontrol.cpp:
    EngineMainThread::setupTT).  The table object is the sequential state [tt] of Table.v plus
    the validity of the `table` pointer: [valid = true] means `table` points to an allocation
    of exactly [tableSize] entries; [valid = false] means `table == nullptr`.
    The allocator is an oracle: every allocation attempt is told whether it succeeds. *)
From Coq Require Import ZArith Bool List.
From Texel Require Import TT.Entry TT.Table.
Import ListNotations.
Local Open Scope Z_scope.

Record obj : Type := mkObj { valid : bool; st : tt }.

Inductive rz : Type :=
| Returned (o : obj)        (* reSize returned normally *)
| Threw (o : obj)           (* std::bad_alloc left the function; o is the object afterwards *)
| RErr.                     (* model error (fuel): excluded by the theorems *)

(** reSize(numEntries), line by line; [alloc_ok] is consulted only if an allocation is attempted *)
Definition reSizeA (o : obj) (numEntries : Z) (alloc_ok : bool) : rz :=
  let t := st o in
  let n := round_size numEntries in
  if n =? tableSize t then Returned o                                   (* if (numEntries == tableSize) return; *)
  else
    (* tableP.reset(); table = nullptr; tableSize = 0; *)
    let t0 := mkTT [] 0 (usedSize t) (topBits t) (usedShift t) (usedMask t) (generation t)
                   (contemptHash t) (tbResident t) in
    if alloc_ok then
      (* table = tableP.get(); tableSize = numEntries; generation = 0; clear(); *)
      match clear (mkTT [] n (usedSize t) (topBits t) (usedShift t) (usedMask t) 0
                        (contemptHash t) (tbResident t)) with
      | Ok t1 => Returned (mkObj true t1)
      | _ => RErr
      end
    else Threw (mkObj false t0).                                        (* allocate() throws *)

(** the constructor: table(nullptr), tableSize = 0, then reSize *)
Definition fresh : obj := mkObj false empty_tt.

(** EngineMainThread::setupTT's loop:
      while (true) { try { if (nEntries < 1) break; tt.reSize(nEntries); break; }
                     catch (const std::bad_alloc&) { nEntries /= 2; } }
    One oracle element per iteration (unused when reSize returns early).  Returns the object
    and the number of bad_alloc exceptions caught. *)
Fixpoint setupTT (fuel : nat) (o : obj) (nEntries : Z) (oracle : list bool) : obj * nat :=
  match fuel with
  | O => (o, O)
  | S f =>
      if nEntries <? 1 then (o, O)
      else match reSizeA o nEntries (hd false oracle) with
           | Returned o' => (o', O)
           | Threw o' => let '(o'', k) := setupTT f o' (nEntries / 2) (tl oracle) in (o'', S k)
           | RErr => (o, O)
           end
  end.

Definition setupFuel : nat := 66.

(** what the table guarantees about its pointer *)
Definition AllocInv (o : obj) : Prop :=
  (valid o = true /\ 4 <= tableSize (st o) < 2 ^ 64 /\ tableSize (st o) mod 4 = 0 /\
   usedSize (st o) <= tableSize (st o)) \/
  (valid o = false /\ tableSize (st o) = 0).
