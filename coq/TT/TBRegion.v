(** The part of the table used by the on-demand tablebase (TTStorage in
    transpositionTable.hpp, TBGenerator in tb/tbgen.hpp): byte idx of the tablebase lives at
    table byte [byteSize - size + idx], i.e. in entry [(byteSize - size + idx) / 16], key word
    for byte offsets 0..7 and data word for 8..15 (getByte / putByte). *)
From Coq Require Import ZArith Bool List.
From Texel Require Import TT.Entry TT.Table.
Import ListNotations.
Local Open Scope Z_scope.

Definition byteSize (t : tt) : Z := tableSize t * entryBytes.

(** TBPosition::nPositions for a class with n pieces (both kings included): 2 * 10 * 64^(n-1) *)
Definition nPositions (nPieces : Z) : Z := 2 * 10 * 64 ^ (nPieces - 1).

(** TTStorage::resize(size): idx0 = byteSize - size  (the C++ asserts byteSize > size) *)
Definition tb_idx0 (t : tt) (size : Z) : Z := byteSize t - size.

(** entry index touched by TTStorage::operator[] / store for tablebase index idx *)
Definition tb_entry (t : tt) (size idx : Z) : Z := (tb_idx0 t size + idx) / entryBytes.

Definition getByte (t : tt) (idx : Z) : res Z :=
  let ent := idx / 16 in
  let offs := Z.land idx 15 in
  match load_slot t ent with
  | Ok (kw, dw) =>
      let w := if offs <? 8 then kw else dw in
      Ok (Z.land (Z.shiftr w (Z.land offs 7 * 8)) 255)
  | OutOfRange j => OutOfRange j
  | OutOfFuel => OutOfFuel
  end.

Definition put_in_word (w offs value : Z) : Z :=
  let w1 := Z.land w (wrap 64 (Z.lnot (wrap 64 (Z.shiftl 255 (offs * 8))))) in
  Z.lor w1 (wrap 64 (Z.shiftl value (offs * 8))).

Definition putByte (t : tt) (idx value : Z) : res tt :=
  let ent := idx / 16 in
  let offs := Z.land idx 15 in
  match load_slot t ent with
  | Ok (kw, dw) =>
      if offs <? 8 then store_slot t ent (put_in_word kw offs value, dw)
      else store_slot t ent (kw, put_in_word dw (Z.land offs 7) value)
  | OutOfRange j => OutOfRange j
  | OutOfFuel => OutOfFuel
  end.

Definition tbStore (t : tt) (size idx value : Z) : res tt := putByte t (tb_idx0 t size + idx) value.
Definition tbLoad (t : tt) (size idx : Z) : res Z := getByte t (tb_idx0 t size + idx).
