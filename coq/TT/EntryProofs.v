(** Facts about the REGENERATED entry accessors: getBits/setBits form a lens on the 64-bit
    data word, the named accessors are instances of it on the extracted layout, the
    store/load encoding is an involution, and the mate-score ply adjustment round-trips. *)
From Coq Require Import ZArith Bool List Lia.
From Texel Require Import TT.Entry.
Import ListNotations.
Local Open Scope Z_scope.

(** * words *)
Lemma pow2_pos : forall n, 0 <= n -> 0 < 2 ^ n.
Proof. intros. apply Z.pow_pos_nonneg; lia. Qed.

Lemma wrap_small : forall w x, 0 <= x < 2 ^ w -> wrap w x = x.
Proof. intros. unfold wrap. apply Z.mod_small. assumption. Qed.

Lemma wrap_range : forall w x, 0 <= w -> 0 <= wrap w x < 2 ^ w.
Proof. intros. unfold wrap. apply Z.mod_pos_bound. apply pow2_pos; assumption. Qed.

Lemma testbit_wrap : forall w x i, 0 <= w -> 0 <= i ->
  Z.testbit (wrap w x) i = (i <? w) && Z.testbit x i.
Proof.
  intros w x i Hw Hi. unfold wrap.
  destruct (Z.ltb_spec i w).
  - rewrite Z.mod_pow2_bits_low by lia. reflexivity.
  - rewrite Z.mod_pow2_bits_high by lia. reflexivity.
Qed.

Lemma W64_high_bits : forall d i, W64 d -> 64 <= i -> Z.testbit d i = false.
Proof.
  intros d i [H0 H1] Hi.
  rewrite <- (Z.mod_small d (2 ^ 64)) by lia.
  apply Z.mod_pow2_bits_high. lia.
Qed.

Lemma bits_bound : forall x n, 0 <= n -> 0 <= x ->
  (forall i, n <= i -> Z.testbit x i = false) -> x < 2 ^ n.
Proof.
  intros x n Hn Hx H.
  assert (E : x mod 2 ^ n = x).
  { apply Z.bits_inj'. intros i Hi.
    destruct (Z.ltb_spec i n).
    - apply Z.mod_pow2_bits_low. lia.
    - rewrite Z.mod_pow2_bits_high by lia. symmetry. apply H. lia. }
  rewrite <- E. apply Z.mod_pos_bound. apply pow2_pos; assumption.
Qed.

Lemma ones_mask : forall s, 0 <= s <= 32 -> wrap 64 (wrap 64 (Z.shiftl 1 s) - 1) = Z.ones s.
Proof.
  intros s Hs. rewrite Z.shiftl_1_l.
  assert (2 ^ s <= 2 ^ 32) by (apply Z.pow_le_mono_r; lia).
  assert (0 < 2 ^ s) by (apply pow2_pos; lia).
  rewrite (wrap_small 64 (2 ^ s)) by (change (2 ^ 64) with 18446744073709551616; change (2 ^ 32) with 4294967296 in *; lia).
  rewrite wrap_small by (change (2 ^ 64) with 18446744073709551616; change (2 ^ 32) with 4294967296 in *; lia).
  rewrite Z.ones_equiv. lia.
Qed.

(** * getBits / setBits, bit by bit *)
Lemma getBits_spec : forall d f s, 0 <= f -> 0 <= s <= 32 ->
  TTEntry_getBits d f s = (d / 2 ^ f) mod 2 ^ s.
Proof.
  intros d f s Hf Hs. unfold TTEntry_getBits. cbv zeta.
  rewrite ones_mask by assumption.
  rewrite Z.land_ones by lia. rewrite Z.shiftr_div_pow2 by lia.
  apply wrap_small.
  assert (0 < 2 ^ s) by (apply pow2_pos; lia).
  assert (2 ^ s <= 2 ^ 32) by (apply Z.pow_le_mono_r; lia).
  pose proof (Z.mod_pos_bound (d / 2 ^ f) (2 ^ s)). lia.
Qed.

Lemma getBits_range : forall d f s, 0 <= f -> 0 <= s <= 32 -> 0 <= TTEntry_getBits d f s < 2 ^ s.
Proof.
  intros. rewrite getBits_spec by assumption. apply Z.mod_pos_bound. apply pow2_pos; lia.
Qed.

Lemma testbit_getBits : forall d f s i, 0 <= f -> 0 <= s <= 32 -> 0 <= i ->
  Z.testbit (TTEntry_getBits d f s) i = (i <? s) && Z.testbit d (i + f).
Proof.
  intros d f s i Hf Hs Hi. rewrite getBits_spec by assumption.
  destruct (Z.ltb_spec i s).
  - rewrite Z.mod_pow2_bits_low by lia. rewrite Z.div_pow2_bits by lia. reflexivity.
  - rewrite Z.mod_pow2_bits_high by lia. reflexivity.
Qed.

Lemma testbit_setBits : forall d f s v i,
  0 <= f -> 0 <= s <= 32 -> f + s <= 64 -> W64 d -> 0 <= i ->
  Z.testbit (TTEntry_setBits d f s v) i =
  if (f <=? i) && (i <? f + s) then Z.testbit v (i - f) else Z.testbit d i.
Proof.
  intros d f s v i Hf Hs Hfs Hd Hi. unfold TTEntry_setBits. cbv zeta.
  rewrite ones_mask by assumption.
  rewrite Z.lor_spec, !Z.land_spec.
  rewrite !testbit_wrap by lia.
  rewrite Z.lnot_spec by lia.
  rewrite !testbit_wrap by lia.
  rewrite !Z.shiftl_spec by lia.
  rewrite Z.testbit_ones by lia.
  destruct (Z.ltb_spec i 64) as [H64 | H64].
  - destruct (Z.leb_spec f i); destruct (Z.ltb_spec i (f + s));
      destruct (Z.leb_spec 0 (i - f)); destruct (Z.ltb_spec (i - f) s); try lia; cbn;
      rewrite ?andb_true_r, ?andb_false_r, ?orb_false_r; try reflexivity.
  - rewrite (W64_high_bits d i Hd H64).
    destruct (Z.leb_spec f i); destruct (Z.ltb_spec i (f + s)); try lia; reflexivity.
Qed.

Lemma setBits_W64 : forall d f s v, 0 <= f -> 0 <= s <= 32 -> f + s <= 64 -> W64 d ->
  W64 (TTEntry_setBits d f s v).
Proof.
  intros d f s v Hf Hs Hfs Hd.
  assert (N : 0 <= TTEntry_setBits d f s v).
  { unfold TTEntry_setBits. cbv zeta. apply Z.lor_nonneg. split; apply Z.land_nonneg.
    - left. apply Hd.
    - right. apply wrap_range. lia. }
  split; [assumption|].
  apply bits_bound; [lia | assumption |].
  intros i Hi. rewrite testbit_setBits by (assumption || lia).
  destruct (Z.leb_spec f i); destruct (Z.ltb_spec i (f + s)); try lia; cbn; apply W64_high_bits; assumption.
Qed.

(** the three lens laws *)
Lemma get_set : forall d f s v, 0 <= f -> 0 <= s <= 32 -> f + s <= 64 -> W64 d ->
  TTEntry_getBits (TTEntry_setBits d f s v) f s = v mod 2 ^ s.
Proof.
  intros d f s v Hf Hs Hfs Hd. apply Z.bits_inj'. intros i Hi.
  rewrite testbit_getBits by assumption.
  rewrite testbit_setBits by (assumption || lia).
  destruct (Z.ltb_spec i s).
  - rewrite Z.mod_pow2_bits_low by lia.
    destruct (Z.leb_spec f (i + f)); destruct (Z.ltb_spec (i + f) (f + s)); try lia. cbn.
    f_equal. lia.
  - rewrite Z.mod_pow2_bits_high by lia. reflexivity.
Qed.

Lemma set_get : forall d f s, 0 <= f -> 0 <= s <= 32 -> f + s <= 64 -> W64 d ->
  TTEntry_setBits d f s (TTEntry_getBits d f s) = d.
Proof.
  intros d f s Hf Hs Hfs Hd. apply Z.bits_inj'. intros i Hi.
  rewrite testbit_setBits by (assumption || lia).
  destruct (Z.leb_spec f i); destruct (Z.ltb_spec i (f + s)); cbn; try reflexivity.
  rewrite testbit_getBits by (assumption || lia).
  destruct (Z.ltb_spec (i - f) s); try lia. cbn. f_equal. lia.
Qed.

Lemma get_set_other : forall d f s v f' s',
  0 <= f -> 0 <= s <= 32 -> f + s <= 64 -> 0 <= f' -> 0 <= s' <= 32 ->
  (f' + s' <= f \/ f + s <= f') -> W64 d ->
  TTEntry_getBits (TTEntry_setBits d f s v) f' s' = TTEntry_getBits d f' s'.
Proof.
  intros d f s v f' s' Hf Hs Hfs Hf' Hs' Hdis Hd. apply Z.bits_inj'. intros i Hi.
  rewrite !testbit_getBits by assumption.
  destruct (Z.ltb_spec i s'); [|reflexivity]. cbn.
  rewrite testbit_setBits by (assumption || lia).
  destruct (Z.leb_spec f (i + f')); destruct (Z.ltb_spec (i + f') (f + s)); try lia; reflexivity.
Qed.

(** setting a field twice keeps the last value *)
Lemma set_set : forall d f s v v', 0 <= f -> 0 <= s <= 32 -> f + s <= 64 -> W64 d ->
  TTEntry_setBits (TTEntry_setBits d f s v) f s v' = TTEntry_setBits d f s v'.
Proof.
  intros d f s v v' Hf Hs Hfs Hd. apply Z.bits_inj'. intros i Hi.
  pose proof (setBits_W64 d f s v Hf Hs Hfs Hd).
  rewrite !testbit_setBits by (assumption || lia).
  destruct ((f <=? i) && (i <? f + s)); reflexivity.
Qed.

Lemma bits_noovf : forall d f s v, 0 <= f < 64 -> 0 <= s < 64 ->
  TTEntry_getBits_noovf d f s = true /\ TTEntry_setBits_noovf d f s v = true.
Proof.
  intros d f s v Hf Hs. unfold TTEntry_getBits_noovf, TTEntry_setBits_noovf, shamt_ok. cbv zeta.
  repeat rewrite andb_true_iff. rewrite !Z.leb_le, !Z.ltb_lt. lia.
Qed.

(** * the layout extracted from the accessors *)
(** fields are listed in ascending position, contiguous from bit 0 to bit 64, each 1..32 wide *)
Fixpoint layout_from (pos : Z) (l : list (Z * Z)) : bool :=
  match l with
  | [] => pos =? 64
  | (f, s) :: r => (f =? pos) && (1 <=? s) && (s <=? 32) && layout_from (f + s) r
  end.
Definition layout_ok (l : list (Z * Z)) : bool := layout_from 0 l.

Lemma layout_ok_gen : layout_ok TTEntry_layout = true.
Proof. vm_compute. reflexivity. Qed.

Lemma layout_from_in : forall l pos f s, 0 <= pos -> layout_from pos l = true -> In (f, s) l ->
  pos <= f /\ 1 <= s <= 32 /\ f + s <= 64.
Proof.
  induction l as [|[f0 s0] r IH]; intros pos f s Hp H Hin; [contradiction|].
  cbn [layout_from] in H. rewrite !andb_true_iff in H. destruct H as [[[H1 H2] H3] H4].
  apply Z.eqb_eq in H1. apply Z.leb_le in H2. apply Z.leb_le in H3. subst f0.
  assert (T : forall l' p, 0 <= p -> layout_from p l' = true -> p <= 64).
  { induction l' as [|[a b] r' IH']; intros p Hp0 Hl; cbn [layout_from] in Hl.
    - apply Z.eqb_eq in Hl. lia.
    - rewrite !andb_true_iff in Hl. destruct Hl as [[[A B] C] D].
      apply Z.eqb_eq in A. apply Z.leb_le in B. subst a. apply IH' in D; lia. }
  destruct Hin as [E | Hin].
  - inversion E; subst. pose proof (T r (f + s) ltac:(lia) H4). lia.
  - pose proof (IH (pos + s0) f s ltac:(lia) H4 Hin). lia.
Qed.

Lemma layout_from_disjoint : forall l pos f s f' s', 0 <= pos -> layout_from pos l = true ->
  In (f, s) l -> In (f', s') l -> (f, s) <> (f', s') -> f' + s' <= f \/ f + s <= f'.
Proof.
  induction l as [|[f0 s0] r IH]; intros pos f s f' s' Hp H Hin Hin' Hne; [contradiction|].
  pose proof H as H0.
  cbn [layout_from] in H. rewrite !andb_true_iff in H. destruct H as [[[H1 H2] H3] H4].
  apply Z.eqb_eq in H1. apply Z.leb_le in H2. apply Z.leb_le in H3. subst f0.
  destruct Hin as [E | Hin]; destruct Hin' as [E' | Hin'].
  - congruence.
  - inversion E; subst. pose proof (layout_from_in r (f + s) f' s' ltac:(lia) H4 Hin'). lia.
  - inversion E'; subst. pose proof (layout_from_in r (f' + s') f s ltac:(lia) H4 Hin). lia.
  - apply (IH (pos + s0)); (assumption || lia).
Qed.

(** * conversions *)
Lemma sext_id : forall w x, 0 < w -> - 2 ^ (w - 1) <= x < 2 ^ (w - 1) -> sext w x = x.
Proof.
  intros w x Hw Hx. unfold sext.
  assert (E : 2 ^ w = 2 * 2 ^ (w - 1)).
  { replace w with (Z.succ (w - 1)) at 1 by lia. rewrite Z.pow_succ_r by lia. reflexivity. }
  rewrite Z.mod_small by lia. lia.
Qed.

Lemma sext_wrap16 : forall x, - 32768 <= x < 32768 -> sext 16 ((wrap 32 x) mod 2 ^ 16) = x.
Proof.
  intros x Hx. unfold sext, wrap.
  change (2 ^ 32) with 4294967296. change (2 ^ 16) with 65536. change (2 ^ (16 - 1)) with 32768.
  assert (E : (x mod 4294967296) mod 65536 = x mod 65536).
  { clear Hx. Z.div_mod_to_equations. lia. }
  rewrite E.
  rewrite Zplus_mod_idemp_l.
  rewrite Z.mod_small by lia. lia.
Qed.

(** * store / load *)
Lemma load_store : forall k d, load_entry (store_words (k, d)) = (k, d).
Proof.
  intros k d. unfold load_entry, store_words, TTEntry_load, TTEntry_store. cbn.
  rewrite Z.lxor_assoc, Z.lxor_nilpotent, Z.lxor_0_r. reflexivity.
Qed.

Lemma store_words_eq : forall k d, store_words (k, d) = (Z.lxor k d, d).
Proof. reflexivity. Qed.

Lemma load_entry_eq : forall w1 w2, load_entry (w1, w2) = (Z.lxor w1 w2, w2).
Proof. reflexivity. Qed.

(** * the mate-score ply adjustment *)
Definition win (s : Z) : bool := SearchConst_isWinScore s.
Definition lose (s : Z) : bool := SearchConst_isLoseScore s.

Lemma win_spec : forall s, win s = (SearchConst_MATE0 / 2 <? s).
Proof.
  intros s. unfold win, SearchConst_isWinScore.
  replace (Z.quot SearchConst_MATE0 2) with (SearchConst_MATE0 / 2) by (vm_compute; reflexivity).
  rewrite Z.gtb_ltb. reflexivity.
Qed.

Lemma lose_spec : forall s, lose s = (s <? - (SearchConst_MATE0 / 2)).
Proof.
  intros s. unfold lose, SearchConst_isLoseScore.
  replace (Z.quot SearchConst_MATE0 2) with (SearchConst_MATE0 / 2) by (vm_compute; reflexivity).
  reflexivity.
Qed.

(** what setScore stores / getScore returns, as plain arithmetic *)
Definition to_stored (s ply : Z) : Z := if win s then s + ply else if lose s then s - ply else s.
Definition from_stored (x ply : Z) : Z := if win x then x - ply else if lose x then x + ply else x.

Lemma setScore_eq : forall d s ply,
  TTEntry_setScore d s ply = TTEntry_setBits d 16 16 (wrap 32 (to_stored s ply)).
Proof. intros. unfold TTEntry_setScore, to_stored, win, lose. cbv zeta. reflexivity. Qed.

Lemma getScore_eq : forall d ply,
  TTEntry_getScore d ply = from_stored (sext 16 (TTEntry_getBits d 16 16)) ply.
Proof. intros. unfold TTEntry_getScore, from_stored, win, lose. cbv zeta. reflexivity. Qed.

Lemma mate_ply_shift : forall d s p1 p2,
  W64 d -> - SearchConst_MATE0 <= s <= SearchConst_MATE0 ->
  0 <= p1 <= 2 * SearchConst_MAX_SEARCH_DEPTH -> 0 <= p2 <= 2 * SearchConst_MAX_SEARCH_DEPTH ->
  TTEntry_setScore_noovf d s p1 = true /\
  TTEntry_getScore_noovf (TTEntry_setScore d s p1) p2 = true /\
  TTEntry_getScore (TTEntry_setScore d s p1) p2 =
    (if win s then s - (p2 - p1) else if lose s then s + (p2 - p1) else s).
Proof.
  intros d s p1 p2 Hd Hs Hp1 Hp2.
  unfold SearchConst_MATE0, SearchConst_MAX_SEARCH_DEPTH in Hs, Hp1, Hp2.
  assert (Wn : win s = (16000 <? s)) by (rewrite win_spec; reflexivity).
  assert (Ls : lose s = (s <? -16000)) by (rewrite lose_spec; reflexivity).
  assert (R : - 32768 <= to_stored s p1 < 32768).
  { unfold to_stored. rewrite Wn, Ls.
    destruct (Z.ltb_spec 16000 s); [lia|]. destruct (Z.ltb_spec s (-16000)); lia. }
  assert (G : sext 16 (TTEntry_getBits (TTEntry_setScore d s p1) 16 16) = to_stored s p1).
  { rewrite setScore_eq. rewrite get_set by (assumption || lia). apply sext_wrap16. assumption. }
  split; [|split].
  - unfold TTEntry_setScore_noovf. cbv zeta.
    fold (win s). fold (lose s). rewrite Wn, Ls.
    destruct (bits_noovf d 16 16 (wrap 32 (to_stored s p1)) ltac:(lia) ltac:(lia)) as [_ B].
    unfold to_stored, win, lose in B. cbv zeta in B.
    unfold SearchConst_isWinScore_noovf, SearchConst_isLoseScore_noovf, fits_s, nonzero.
    replace (Z.quot SearchConst_MATE0 2) with 16000 by (vm_compute; reflexivity).
    change (2 ^ (32 - 1)) with 2147483648.
    destruct (Z.ltb_spec 16000 s); destruct (Z.ltb_spec s (-16000));
      repeat rewrite andb_true_iff; rewrite ?Z.leb_le, ?Z.ltb_lt, ?negb_true_iff, ?Z.eqb_neq;
      repeat split; try lia; try exact B;
      fold (win s) in B; fold (lose s) in B; rewrite ?Wn, ?Ls in B;
      (destruct (Z.ltb_spec 16000 s); destruct (Z.ltb_spec s (-16000)); try lia; exact B).
  - unfold TTEntry_getScore_noovf. cbv zeta. rewrite G.
    destruct (bits_noovf (TTEntry_setScore d s p1) 16 16 0 ltac:(lia) ltac:(lia)) as [B _].
    rewrite B.
    fold (win (to_stored s p1)). fold (lose (to_stored s p1)).
    rewrite win_spec, lose_spec.
    unfold SearchConst_isWinScore_noovf, SearchConst_isLoseScore_noovf, fits_s, nonzero.
    replace (Z.quot SearchConst_MATE0 2) with 16000 by (vm_compute; reflexivity).
    replace (SearchConst_MATE0 / 2) with 16000 by (vm_compute; reflexivity).
    change (2 ^ (32 - 1)) with 2147483648. change (- (16000)) with (-16000).
    destruct (Z.ltb_spec 16000 (to_stored s p1)); destruct (Z.ltb_spec (to_stored s p1) (-16000));
      cbn [andb negb]; repeat rewrite andb_true_iff; rewrite ?Z.leb_le, ?Z.ltb_lt;
      repeat split; try lia; reflexivity.
  - rewrite getScore_eq, G. unfold from_stored.
    rewrite !win_spec, !lose_spec.
    replace (SearchConst_MATE0 / 2) with 16000 by (vm_compute; reflexivity).
    change (- (16000)) with (-16000).
    unfold to_stored. rewrite Wn, Ls.
    destruct (Z.ltb_spec 16000 s).
    + destruct (Z.ltb_spec 16000 (s + p1)); [lia | lia].
    + destruct (Z.ltb_spec s (-16000)).
      * destruct (Z.ltb_spec 16000 (s - p1)); [lia|].
        destruct (Z.ltb_spec (s - p1) (-16000)); lia.
      * destruct (Z.ltb_spec 16000 s); [lia|].
        destruct (Z.ltb_spec s (-16000)); lia.
Qed.
