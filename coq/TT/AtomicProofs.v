(** No blend under any relaxed execution (DESIGN.md Appendix A1): whatever pair of words a
    load picks from the histories of a slot, if the decoded key equals the probed key then the
    data word was written by ONE store as a whole, and either that store (or the store whose
    key word was seen) was made for the probed key, or the exact xor coincidence
    [k xor k1 = d1 xor d2 <> 0] holds (the same class of event as a 64-bit hash collision). *)
From Coq Require Import ZArith Bool List Lia.
From Texel Require Import TT.Entry TT.EntryProofs TT.Atomic.
Import ListNotations.
Local Open Scope Z_scope.

Lemma in_key_words : forall l w1, In w1 (key_words l) ->
  exists e, In e ((0, 0) :: l) /\ w1 = Z.lxor (fst e) (snd e).
Proof.
  intros l w1 [H | H].
  - exists (0, 0). split; [left; reflexivity | subst; reflexivity].
  - apply in_map_iff in H. destruct H as ([k d] & E & Hin).
    exists (k, d). split; [right; exact Hin | rewrite <- E; reflexivity].
Qed.

Lemma in_data_words : forall l w2, In w2 (data_words l) ->
  exists e, In e ((0, 0) :: l) /\ w2 = snd e.
Proof.
  intros l w2 [H | H].
  - exists (0, 0). split; [left; reflexivity | subst; reflexivity].
  - apply in_map_iff in H. destruct H as ([k d] & E & Hin).
    exists (k, d). split; [right; exact Hin | rewrite <- E; reflexivity].
Qed.

Lemma key_words_in : forall l e, In e ((0, 0) :: l) -> In (Z.lxor (fst e) (snd e)) (key_words l).
Proof.
  intros l e [H | H]; [subst; left; reflexivity|].
  right. apply in_map_iff. exists e. destruct e. split; [reflexivity | exact H].
Qed.

Lemma data_words_in : forall l e, In e ((0, 0) :: l) -> In (snd e) (data_words l).
Proof.
  intros l e [H | H]; [subst; left; reflexivity|].
  right. apply in_map_iff. exists e. destruct e. split; [reflexivity | exact H].
Qed.

Theorem no_blend_load : forall (l : store_log) (w : slot) (k : Z),
  may_load l w -> ekey (load_entry w) = k ->
  exists e1 e2, In e1 ((0, 0) :: l) /\ In e2 ((0, 0) :: l) /\
    fst w = Z.lxor (fst e1) (snd e1) /\ snd w = snd e2 /\
    edata (load_entry w) = snd e2 /\
    k = Z.lxor (Z.lxor (fst e1) (snd e1)) (snd e2) /\
    (k = fst e1 \/ k = fst e2 -> In (k, snd e2) ((0, 0) :: l)) /\
    (k <> fst e1 -> Z.lxor k (fst e1) = Z.lxor (snd e1) (snd e2) /\ snd e1 <> snd e2).
Proof.
  intros l [w1 w2] k [Hk Hd] E. cbn [fst snd] in *.
  destruct (in_key_words l w1 Hk) as ([k1 d1] & I1 & E1).
  destruct (in_data_words l w2 Hd) as ([k2 d2] & I2 & E2).
  cbn [fst snd] in *. subst w1 w2.
  rewrite load_entry_eq in E. unfold ekey, TTEntry_getKey in E. cbn [fst] in E.
  exists (k1, d1), (k2, d2). cbn [fst snd].
  assert (X : Z.lxor k k1 = Z.lxor d1 d2).
  { rewrite <- E. apply Z.bits_inj'. intros i _. rewrite !Z.lxor_spec.
    destruct (Z.testbit k1 i), (Z.testbit d1 i), (Z.testbit d2 i); reflexivity. }
  split; [exact I1|]. split; [exact I2|]. split; [reflexivity|]. split; [reflexivity|].
  split; [reflexivity|]. split; [symmetry; exact E|]. split.
  - intros [H | H].
    + subst k1. rewrite Z.lxor_nilpotent in X. symmetry in X. apply Z.lxor_eq in X. subst d2. exact I1.
    + subst k2. exact I2.
  - intros N. split; [exact X|].
    intros D. subst d2. rewrite Z.lxor_nilpotent in X. apply Z.lxor_eq in X. contradiction.
Qed.

Lemma refresh_pair : forall g k d, refresh g (k, d) = (k, refresh_data g d).
Proof.
  intros. unfold refresh_data, refresh. cbn [fst snd].
  destruct (negb (getGeneration d =? g)); reflexivity.
Qed.

Lemma refresh_data_cases : forall g d, refresh_data g d = d \/ refresh_data g d = TTEntry_setGeneration d g.
Proof.
  intros. unfold refresh_data, refresh. cbn [fst snd].
  destruct (negb (getGeneration d =? g)); cbn; auto.
Qed.

Theorem no_blend_probe : forall g (b : list store_log) key r,
  probe_may_return g b key r ->
  exists l e1 e2, In l b /\ In e1 ((0, 0) :: l) /\ In e2 ((0, 0) :: l) /\
    fst r = key /\
    (snd r = snd e2 \/ snd r = TTEntry_setGeneration (snd e2) g) /\
    key = Z.lxor (Z.lxor (fst e1) (snd e1)) (snd e2) /\
    (key = fst e1 \/ key = fst e2 -> In (key, snd e2) ((0, 0) :: l)) /\
    (key <> fst e1 -> Z.lxor key (fst e1) = Z.lxor (snd e1) (snd e2) /\ snd e1 <> snd e2).
Proof.
  intros g b key r (l & w & Hl & Hw & Hk & Hr).
  destruct (no_blend_load l w key Hw Hk) as (e1 & e2 & I1 & I2 & W1 & W2 & D & K & U & X).
  exists l, e1, e2. repeat split; try assumption.
  - subst r. destruct w as [w1 w2]. rewrite load_entry_eq in *. rewrite refresh_pair. cbn [fst].
    unfold ekey, TTEntry_getKey in Hk. exact Hk.
  - subst r. destruct w as [w1 w2]. rewrite load_entry_eq. rewrite refresh_pair. cbn [fst snd] in *.
    subst w2. apply refresh_data_cases.
  - apply X. assumption.
  - apply X. assumption.
Qed.

(** * the executable validator decides the model *)
Lemma memZ_In : forall x l, memZ x l = true <-> In x l.
Proof.
  induction l as [|y r IH]; cbn; [split; [discriminate | contradiction]|].
  rewrite orb_true_iff, Z.eqb_eq, IH. split; intros [H | H]; auto.
Qed.

Theorem allowed_iff : forall g l key r,
  allowed g l key r = true <->
  exists w, may_load l w /\ ekey (load_entry w) = key /\ r = refresh g (load_entry w).
Proof.
  intros g l key [rk rd]. unfold allowed, allowed_prep, prep. cbn [fst snd].
  rewrite andb_true_iff, Z.eqb_eq, existsb_exists. split.
  - intros [Ek ((w2 & rd') & Hin & H)]. apply in_map_iff in Hin. destruct Hin as (w2' & E & Hin).
    inversion E; subst w2' rd'. cbn [fst snd] in H. rewrite andb_true_iff, Z.eqb_eq, memZ_In in H.
    destruct H as [Erd Hk]. subst rk rd.
    exists (Z.lxor key w2, w2). split; [split; assumption|].
    rewrite load_entry_eq. unfold ekey, TTEntry_getKey. cbn [fst].
    rewrite Z.lxor_assoc, Z.lxor_nilpotent, Z.lxor_0_r. split; [reflexivity|].
    rewrite refresh_pair. reflexivity.
  - intros ([w1 w2] & [Hk Hd] & Ek & Er). cbn [fst snd] in *.
    rewrite load_entry_eq in *. unfold ekey, TTEntry_getKey in Ek. cbn [fst] in Ek.
    rewrite refresh_pair in Er. inversion Er; subst rk rd. split; [exact Ek|].
    exists (w2, refresh_data g w2). split.
    + apply in_map_iff. exists w2. split; [reflexivity | exact Hd].
    + cbn [fst snd]. rewrite Z.eqb_refl. rewrite andb_true_l. apply memZ_In.
      rewrite <- Ek. rewrite Z.lxor_assoc, Z.lxor_nilpotent, Z.lxor_0_r. exact Hk.
Qed.

(** non-vacuity: two writers A = (k, d1), B = (k, d2) for the SAME key: the torn pair
    (key word of A, data word of B) decodes to another key, so the probe for k misses it;
    the intact pairs are returned. *)
Example no_blend_example :
  let l := [(5, 9); (5, 12)] in
  allowed 0 l 5 (5, 9) = true /\ allowed 0 l 5 (5, 12) = true /\
  allowed 0 l 5 (5, 0) = false /\ allowed 0 l 0 (0, 0) = true.
Proof. vm_compute. repeat split. Qed.
