(** C06 -- time limits are honoured.
    Only statements; every proof is [exact <lemma>] into TimeMgmt/{TimeProofs,StopProofs,FloatFacts}.v.
    Model: TimeMgmt/TimeMgmt.v (tied to app/texel/enginecontrol.cpp and lib/texellib/search.cpp by
    the correspondence check; parameters regenerated into gen/TimeParams.v on every run);
    specification side: TimeMgmt/TimeSpec.v. *)
From Coq Require Import ZArith Bool List Floats.
From Texel Require Import gen.TimeParams TimeMgmt.TimeMgmt TimeMgmt.TimeSpec TimeMgmt.FloatFacts
  TimeMgmt.HardOfProofs TimeMgmt.TimeProofs TimeMgmt.StopProofs.
Import ListNotations.
Local Open Scope Z_scope.

(** clock / increment / moves-to-go time control, any side, Ponder option on or off, any BufferTime:
    1 <= soft <= hard <= clock - margin with margin = min(BufferTime, 90% of the clock) -- the bound
    the code implements; that budget is itself >= 1; no signed overflow and no out-of-range
    double->int conversion anywhere in computeTimeLimit. *)
Theorem C06_allocation_bounds : forall buf ponderOpt white sp,
  InRange buf sp -> moveTime sp = 0 -> infinite sp = false ->
  let L := computeTimeLimit buf ponderOpt white sp in
  let t := moverTime white sp in
  1 <= minTimeLimit L /\ minTimeLimit L <= maxTimeLimit L /\ maxTimeLimit L <= budget t buf /\
  budget t buf = Z.max 1 (t - margin t buf) /\
  earlyStop L = -1 /\
  computeTimeLimit_noovf buf ponderOpt white sp = true.
Proof. exact allocation_bounds. Qed.
Print Assumptions C06_allocation_bounds.

(** fixed move time: soft = hard = movetime and early stopping is disabled *)
Theorem C06_fixed_movetime : forall buf ponderOpt white sp,
  InRange buf sp -> 0 < moveTime sp -> infinite sp = false ->
  let L := computeTimeLimit buf ponderOpt white sp in
  minTimeLimit L = moveTime sp /\ maxTimeLimit L = moveTime sp /\ earlyStop L = 10000 /\
  computeTimeLimit_noovf buf ponderOpt white sp = true.
Proof. exact fixed_movetime. Qed.
Print Assumptions C06_fixed_movetime.

(** the property's literal wording "remaining clock minus the configured safety buffer" holds
    whenever BufferTime <= 90% of the clock ... *)
Theorem C06_literal_budget_when_clock_large : forall buf ponderOpt white sp,
  InRange buf sp -> moveTime sp = 0 -> infinite sp = false ->
  buf <= Z.quot (moverTime white sp * 9) 10 ->
  maxTimeLimit (computeTimeLimit buf ponderOpt white sp) <= literalBudget (moverTime white sp) buf.
Proof. exact literal_budget_when_clock_large. Qed.
Print Assumptions C06_literal_budget_when_clock_large.

(** ... and is false below that (witness: wtime 1000, BufferTime 1000, movestogo 1: hard = 100 ms
    although clock - BufferTime = 0).  The code then keeps 90% of the clock instead. *)
Theorem C06_literal_budget_refuted : exists buf ponderOpt white sp,
  InRange buf sp /\ moveTime sp = 0 /\ infinite sp = false /\
  literalBudget (moverTime white sp) buf < maxTimeLimit (computeTimeLimit buf ponderOpt white sp).
Proof. exact literal_budget_refuted. Qed.
Print Assumptions C06_literal_budget_refuted.

(** single legal move: the limits handed to the search are soft/100 and hard/100 clamped to
    [1,100], still ordered, never above the allocation *)
Theorem C06_one_move_clamp : forall lim minT maxT esp maxD nMoves,
  nMoves < 2 -> 1 <= minT <= maxT ->
  let st := startThread lim false false minT maxT esp maxD nMoves in
  exists sl, ecSearch st = Some sl /\ ecOneMove st = true /\
    1 <= minTimeMillis sl /\ minTimeMillis sl <= maxTimeMillis sl /\
    maxTimeMillis sl <= 100 /\ maxTimeMillis sl = Z.max 1 (Z.min 100 (Z.quot maxT 100)) /\
    maxTimeMillis sl <= maxT.
Proof. exact one_move_clamp. Qed.
Print Assumptions C06_one_move_clamp.

(** a normal [go] hands the search limits 1 <= soft' <= hard' <= hard (<= 100 with one legal move) *)
Theorem C06_startSearch_limits : forall buf ponderOpt white sp nMoves,
  InRange buf sp -> infinite sp = false ->
  let L := computeTimeLimit buf ponderOpt white sp in
  exists sl, ecSearch (startSearch buf ponderOpt white sp nMoves) = Some sl /\
    1 <= minTimeMillis sl /\ minTimeMillis sl <= maxTimeMillis sl /\
    maxTimeMillis sl <= maxTimeLimit L /\
    (nMoves < 2 -> maxTimeMillis sl <= 100).
Proof. exact startSearch_limits. Qed.
Print Assumptions C06_startSearch_limits.

(** [go ponder] searches without a deadline; [ponderhit] installs 1 <= soft' <= hard' <= hard
    (exactly soft/hard with >= 2 legal moves, at most 1 ms with a single legal move) *)
Theorem C06_ponderhit_limits : forall buf ponderOpt white sp nMoves,
  InRange buf sp -> infinite sp = false ->
  let L := computeTimeLimit buf ponderOpt white sp in
  let st0 := startPonder buf ponderOpt white sp nMoves in
  let st := ponderHit st0 in
  ecSearch st0 = Some (mkSL (-1) (-1) minTimeUsage) /\
  ecPonder st0 = true /\ ecPonder st = false /\ ecInfinite st = false /\
  exists sl, ecSearch st = Some sl /\
    1 <= minTimeMillis sl /\ minTimeMillis sl <= maxTimeMillis sl /\
    maxTimeMillis sl <= maxTimeLimit L /\
    (nMoves < 2 -> maxTimeMillis sl <= 1) /\
    (2 <= nMoves -> minTimeMillis sl = minTimeLimit L /\ maxTimeMillis sl = maxTimeLimit L).
Proof. exact ponderhit_limits. Qed.
Print Assumptions C06_ponderhit_limits.

(** [stop] sets both limits to 0 *)
Theorem C06_stop_zero_limits : forall st sl, ecSearch st = Some sl ->
  ecSearch (stopThread st) = Some (mkSL 0 0 minTimeUsage) /\
  ecPonder (stopThread st) = false /\ ecInfinite (stopThread st) = false.
Proof. exact stop_zero_limits. Qed.
Print Assumptions C06_stop_zero_limits.

(** the limit shouldStop() compares against is within [0, hard] for every admissible hardFactor
    and either value of searchNeedMoreTime; the (S64)(minT * hardFactor) conversion is in range *)
Theorem C06_poll_limit_le_hard : forall sl hf nm, limits_ok sl -> hf_ok hf = true ->
  0 <= pollLimit sl hf nm <= maxTimeMillis sl /\ pollLimit_noovf sl hf = true.
Proof. exact pollLimit_bounds. Qed.
Print Assumptions C06_poll_limit_le_hard.

(** for every sequence of polling instants, every evolution of hardFactor / needMoreTime and every
    limit change by ponderhit/stop: a time test (shouldStop in negaScout, the test after a root
    move outside the first iteration, the test after an iteration) executed when the hard limit in
    force has elapsed finds the search stopped at that event at the latest *)
Theorem C06_deadline : forall sl tStart pre e post,
  limits_ok sl -> Forall setLimits_ok pre -> qualifying e = true ->
  tStart <= eventTime e < tStart + 2 ^ 63 ->
  maxTimeMillis (limitsAfter sl pre) <= eventTime e - tStart ->
  exists j, run sl tStart (pre ++ e :: post) = Some j /\ (j <= length pre)%nat.
Proof. exact deadline. Qed.
Print Assumptions C06_deadline.

(** after [stop] the very next time test stops the search *)
Theorem C06_stop_then_first_poll : forall sl tStart pre e post,
  limits_ok sl -> Forall setLimits_ok pre -> qualifying e = true ->
  tStart <= eventTime e < tStart + 2 ^ 63 ->
  exists j, run sl tStart (pre ++ ESetLimits 0 0 (-1) :: e :: post) = Some j /\ (j <= S (length pre))%nat.
Proof. exact stop_then_first_poll. Qed.
Print Assumptions C06_stop_then_first_poll.

(** the [hard] value computed from the node fraction is finite and within [0,4] for every double
    (NaN and infinities included) *)
Theorem C06_hardOf_range : forall f, hf_ok (hardOf f) = true.
Proof. exact hardOf_range. Qed.
Print Assumptions C06_hardOf_range.

(** hence hardFactor, starting at 1.0 and updated by max(hf,1.0), max(hf,2.0) and
    (hf + hard(nodes of best move / total nodes)) / 2 in any order and for any node counts, is
    always admissible: "every evolution of the factors" in C06_deadline is covered *)
Theorem C06_hardFactor_admissible : forall hf, HfReach hf -> hf_ok hf = true.
Proof. exact hardFactor_admissible. Qed.
Print Assumptions C06_hardFactor_admissible.
