#!/bin/sh
# Offline setup after a fresh restore: everything is rebuilt from files on disk only.
# It warms the caches by running every registered check once (quick tier): that regenerates
# coq/gen/*.v from /repo, builds the Coq development (full .vo), the extracted OCaml drivers
# and the C++ harnesses/engine from the current /repo tree.  Failures here are not verdicts;
# the checks are run again by their own commands.
cd "$(dirname "$0")"
exec python3 -u - <<'PY'
import json, subprocess, sys, time, os
from concurrent.futures import ThreadPoolExecutor
sys.path.insert(0, '.')
t0 = time.time()
m = json.load(open('MANIFEST.json'))
ids = [c['property_id'] for c in m['checks']]
from vlib import cbuild
try:
    cbuild.build_libs(); print('[setup %5.0fs] texel libraries built' % (time.time() - t0), flush=True)
    cbuild.build_engine(); print('[setup %5.0fs] engine built' % (time.time() - t0), flush=True)
except Exception as e:
    print('[setup] library build failed:', str(e)[:500], flush=True)
def one(pid):
    t = time.time()
    try:
        p = subprocess.run(['./check', pid, '--tier', 'quick'], stdout=subprocess.PIPE, stderr=subprocess.STDOUT, text=True, timeout=2400)
        tail = [l for l in p.stdout.split('\n') if 'done:' in l or 'VIOLATION' in l or 'error' in l.lower()][-2:]
        return '[setup %5.0fs] %s warmed in %.0fs rc=%d %s' % (time.time() - t0, pid, time.time() - t, p.returncode, ' | '.join(tail)[:300])
    except subprocess.TimeoutExpired:
        return '[setup %5.0fs] %s warm-up timed out' % (time.time() - t0, pid)
# heavy Coq builds first; three lanes (the Coq build itself is serialised by a lock and uses -j16)
order = sorted(ids, key=lambda i: 0 if i in ('C01', 'C05', 'C12', 'C02', 'C10', 'C17') else 1)
with ThreadPoolExecutor(max_workers=3) as ex:
    for line in ex.map(one, order):
        print(line, flush=True)
print('[setup %5.0fs] done' % (time.time() - t0), flush=True)
PY
