#!/bin/sh
# Offline setup after a fresh restore: build the Coq development (full .vo) and warm the
# C++/OCaml caches from the current /repo tree.  Everything is rebuilt from files on disk.
cd "$(dirname "$0")"
python3 - <<'PY'
import sys
sys.path.insert(0, '.')
from vlib import coqbuild, cbuild
files = coqbuild.write_project()
props = [f[:-2] + '.vo' for f in files if f.startswith('Properties_')]
ok, log, errs = coqbuild.make(props, timeout=7200)
print('coq build ok' if ok else 'coq build FAILED: %s' % errs[:3])
try:
    cbuild.build_libs()
    print('texel libs built')
except Exception as e:
    print('lib build failed:', e)
PY
exit 0
